#!/usr/bin/env python3
"""tools/round_finalise.py <round>: write needs / round / first_run / detected_on_first_run / strengthening into seeded/*-r<round>-*/meta.json
from tools/r<round>_needs.json, tools/r<round>_first_run.json, tools/r<round>_strengthening.json"""
import json, os, sys
rnd = int(sys.argv[1])
needs = json.load(open(f'/verif/tools/r{rnd}_needs.json'))
first = json.load(open(f'/verif/tools/r{rnd}_first_run.json'))
try: strg = json.load(open(f'/verif/tools/r{rnd}_strengthening.json'))
except Exception: strg = {}
for k in sorted(needs):
    mp = f'/verif/seeded/{k}/meta.json'
    if not os.path.exists(mp):
        print('missing', k); continue
    m = json.load(open(mp))
    m['needs'] = needs[k]; m['round'] = rnd
    fr = first.get(k, {}).get('first_run')
    m['first_run'] = fr
    m['detected_on_first_run'] = fr in ('input', 'unproved')
    if fr == 'unproved': m['first_run_note'] = 'reported through a proof obligation / the correspondence without a failing input (no-failing-input-found)'
    if k in strg: m['strengthening'] = strg[k]
    json.dump(m, open(mp, 'w'), indent=1)
    print(k, fr, m['detected_by'])
