#!/bin/bash
# tools/seedq.sh <tag> <pid> <demo_dir> <i...>: confirm seeded changes one after the other against a private copy of /verif
# (/tmp/vs_<pid>, refreshed first from a BUILT SNAPSHOT OF A COMMIT, /tmp/vs_base: `git archive HEAD | tar -x -C /tmp/vs_base && (cd /tmp/vs_base && ./check --setup)` -
# never from the working tree, whose half-edited files would be reported as broken proofs) so that evidence/ and coq/ of /verif are not touched.
export GOFLAGS=-mod=mod GOPROXY=off GOSUMDB=off GOTOOLCHAIN=local
tag=$1; pid=$2; demo=$3; shift 3
mkdir -p /tmp/vs_$pid
rsync -a --delete --exclude .git --exclude 'work/alt_*' --exclude 'work/gocache' --exclude 'work/C[0-9]*' --exclude 'work/logs' ${VS_BASE:-/tmp/vs_base}/ /tmp/vs_$pid/
for i in "$@"; do [ -f $demo/change$i.diff ] || continue;
  VERIF_REGEN=1 VERIF_DIR=/tmp/vs_$pid SEED_TAG=$tag python3 /verif/tools/seed.py $pid $demo $i ${CHECKS:-$pid} > /tmp/seedres_${pid}_${tag}$i.json 2>&1
  python3 - <<PY
import json
try:
    d=json.load(open('/tmp/seedres_${pid}_${tag}$i.json'))
    print('$pid', '$tag$i', 'clean_pass', d['clean_demo_passes'], 'suite', d['suite_passes_with_change'], 'demo_fails', d['demo_fails_with_change'], {k:(v['exit'], [l[:150] for l in v['violation_lines'][:1]]) for k,v in d['checks'].items()})
except Exception as e:
    print('$pid', '$tag$i', 'ERROR', e, open('/tmp/seedres_${pid}_${tag}$i.json').read()[-400:])
PY
done
