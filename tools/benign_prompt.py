#!/usr/bin/env python3
"""tools/benign_prompt.py <pid>: print the brief given to an independent sub-agent that proposes property-PRESERVING
changes (maintenance commits). Used to measure false alarms: no check may report a failing input on such a change; a check
that can no longer show the property (translator refuses / correspondence differs) must say no-failing-input-found.
The agent gets ONLY the property text and a scratch worktree /tmp/ben_<pid>; nothing from /verif."""
import json, sys
pid = sys.argv[1]
p = [json.loads(l) for l in open('/verif/properties.jsonl') if l.strip() and json.loads(l)['id'] == pid][0]
txt = f"{p['id']} — {p['title']}\n\nStatement: {p['statement']}\n\nQuantifier: {p['quantifier']['text']}\n\nAnchors (files): {', '.join(p['anchors']['files'])}\n"
demo = f"/tmp/ben_{pid}_out"
print(f"""You are a careful maintainer of the Go library libsv/go-bt (Bitcoin SV transactions + script interpreter). Below is a semantic property the library satisfies. You have your own scratch git worktree of the library at /tmp/ben_{pid} (work ONLY there and under {demo}; do not look at or touch /repo, /verif or any other directory; no network). Per shell call first run: export GOFLAGS=-mod=mod GOPROXY=off GOSUMDB=off GOTOOLCHAIN=local

PROPERTY
{txt}
TASK: produce FIVE different, independent, realistic MAINTENANCE changes to the functions this property is about (the anchored files), each of which KEEPS THE PROPERTY TRUE for every input, keeps the library compiling and keeps the whole test suite passing (`cd /tmp/ben_{pid} && go test -mod=mod -vet=off -count=1 ./...` prints no FAIL). They must be the kind of commit that lands in such a library all the time and they must touch executable code in the functions the property speaks about — not whitespace or comments only. Make the five of DIFFERENT kinds, for example: renaming locals / extracting a helper function / inlining a helper; reordering independent statements; replacing a hand-written loop by copy/append or the reverse; pre-sizing a buffer or changing a capacity hint; changing the wording of an error message while keeping the error's identity (errors.Is / the sentinel still the same); an equivalent condition (`len(x) == 0` for `x == nil || len(x) == 0` where both are equivalent there, De Morgan, early return instead of else); adding a fast path that returns the identical result; hoisting a computation out of a loop; replacing a magic number by a named constant of the same value; adding a new unrelated exported helper or field that nothing else uses; switching a `switch` to an if-chain. At least two of the five should change the STRUCTURE of the code noticeably (new helper function, moved code, different loop shape) while keeping every observable result, error identity and (where the property mentions them) every buffer-sharing / mutation / allocation / locking behaviour exactly as it is. Do not change any *_test.go file or test data.

For each change i = 1..5:
 1. start from a clean worktree (`git -C /tmp/ben_{pid} checkout -- .`), make the change, save it as {demo}/change{{i}}.diff (`git -C /tmp/ben_{pid} diff > ...`);
 2. run the full test suite with the change applied and confirm it passes;
 3. write {demo}/why{{i}}.txt: one paragraph arguing that the property still holds for ALL inputs after the change and that no observable behaviour the property speaks about differs.
Do NOT use `git stash`. Finish with the worktree clean (`git checkout -- .`). Final report: for each change one line (what kind, which function) and the test-suite result.""")
