#!/bin/bash
# tools/seedq_queue.sh <tag> <pid> <demo_dir> <i...>: seedq.sh behind one of three locks (at most three confirmations at a time)
n=$(( 10#${2#C} % 3 ))
exec flock /tmp/seedq_lock_$n bash /verif/tools/seedq.sh "$@"
