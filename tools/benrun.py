#!/usr/bin/env python3
"""tools/benrun.py [workers]: re-run the recorded property-preserving changes benign/<id>/patch.diff against a BUILT SNAPSHOT OF A
COMMIT of /verif (/tmp/vs_base, see tools/seedq.sh) with the translator tables regenerated from the changed tree (VERIF_REGEN=1),
each change by the quick check of its own property. Writes benign/<id>/meta_rerun.json and prints a summary."""
import glob, json, os, subprocess, sys
from concurrent.futures import ThreadPoolExecutor
workers = int(sys.argv[1]) if len(sys.argv) > 1 else 3
env = dict(os.environ, GOFLAGS="-mod=mod", GOPROXY="off", GOSUMDB="off", GOTOOLCHAIN="local")
def sh(cmd, e=None):
    p = subprocess.run(["bash", "-c", cmd], env=e or env, stdout=subprocess.PIPE, stderr=subprocess.STDOUT, text=True)
    return p.returncode, p.stdout
ids = sorted(os.path.basename(os.path.dirname(p)) for p in glob.glob("/verif/benign/*/patch.diff"))
if os.environ.get("BEN_IDS"):
    ids = os.environ["BEN_IDS"].split()
slots = list(range(workers))
import queue
q = queue.Queue()
for s in slots: q.put(s)
def one(bid):
    s = q.get()
    try:
        pid = bid.split("-")[0]
        wt, vd = f"/tmp/benrun_wt{s}", f"/tmp/benrun_vs{s}"
        if not os.path.isdir(wt):
            sh(f"git -C /repo worktree add --detach {wt} HEAD")
        sh(f"git -C {wt} checkout -- . && git -C {wt} clean -fdq")
        rc, o = sh(f"git -C {wt} apply /verif/benign/{bid}/patch.diff")
        if rc != 0:
            return bid, "does-not-apply", o[-200:]
        sh(f"mkdir -p {vd} && rsync -a --delete --exclude .git --exclude 'work/alt_*' --exclude 'work/gocache' --exclude 'work/C[0-9]*' --exclude 'work/logs' /tmp/vs_base/ {vd}/")
        rc, o = sh(f"cd {vd} && VERIF_REGEN=1 VERIF_REPO={wt} ./check {pid} quick", dict(env, VERIF_REPO=wt, VERIF_REGEN="1"))
        lines = o.splitlines()
        vio = [l for l in lines if l.startswith("VIOLATION")]
        notes = [l for l in lines if "no longer checks" in l][:3]
        verdict = "quiet" if rc == 0 and not vio else ("cannot-show (no-failing-input-found)" if vio and all(l.rstrip().endswith("no-failing-input-found") for l in vio) else "ALARM with a replay")
        ev = {}
        try:
            ev = json.load(open(f"{vd}/evidence/{pid}.json"))["coverage"].get("go_source_ties", {})
        except Exception: pass
        co = {k: v.get("reason") for k, v in ev.items() if v.get("status") != "proved"}
        json.dump({"property": pid, "verdict": verdict, "exit": rc, "violation_lines": vio[:3], "no_longer_checks": notes,
                   "go_source_not_proved": co, "summary": [l for l in lines if l.startswith(pid + " ")][:1]},
                  open(f"/verif/benign/{bid}/meta_rerun.json", "w"), indent=1)
        sh(f"git -C {wt} checkout -- . && git -C {wt} clean -fdq")
        return bid, verdict, (vio[:1] + notes[:1] + [json.dumps(co)[:200] if co else ""])
    finally:
        q.put(s)
with ThreadPoolExecutor(max_workers=workers) as ex:
    for bid, verdict, extra in ex.map(one, ids):
        print(bid, verdict, extra if verdict != "quiet" or (extra and extra[-1]) else "", flush=True)
