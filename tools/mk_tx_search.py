#!/usr/bin/env python3
# writes coq/search/GenFuncsSearch_<fn>.v for the transaction functions (self-contained files: tools/gen_search.py copies
# only the search file and GenFuncsSearchLib.v)
import sys, os
out = sys.argv[1]
PRE = '''(** Counterexample search for {go} (printed as [{fn}] in gen/Funcs.v) against {model}.
    NOT a proof and independent of proofs/GenFuncs_{fn}.v: it compiles whether or not the two sides agree and prints one
    line, "AGREE {fn} <candidates>" or "DISAGREE {fn} <input>" (see search/GenFuncsSearchLib.v, tools/gen_search.py).
    Domain searched: {domain}.  (Written by a generator; the candidate pools are repeated in every file of the
    family because tools/gen_search.py compiles a search file with GenFuncsSearchLib.v alone.) *)
From Coq Require Import List ZArith NArith Bool String.
From Coq Require Import Strings.Byte.
From GoBT Require Import lib.Bytes lib.GoSem lib.GoTx gen.Funcs search.GenFuncsSearchLib.
From GoBT Require Import lib.VarInt model.Tx model.Fees model.SigHash spec.FeeSpec.
Import ListNotations.
Local Open Scope Z_scope.
Set Printing Width 1000000.

(** Go values -> model records (as in proofs/GenFuncsTxTac.v) *)
Definition script_of (p : option bytes) : bytes := match p with Some s => s | None => [] end.
Definition input_of_go (g : go_Input) : input :=
  mkInput (Input_previousTxID g) (Z.to_N (Input_PreviousTxOutIndex g)) (script_of (Input_UnlockingScript g))
          (Z.to_N (Input_SequenceNumber g)) (Z.to_N (Input_PreviousTxSatoshis g)) (Input_PreviousTxScript g).
Definition output_of_go (g : go_Output) : output := mkOutput (Z.to_N (Output_Satoshis g)) (script_of (Output_LockingScript g)).
Definition tx_of_go (ins : list go_Input) (outs : list go_Output) (version locktime : Z) : tx :=
  mkTx (Z.to_N version) (map input_of_go ins) (map output_of_go outs) (Z.to_N locktime).

(** pools *)
Definition long_script : bytes := x6a :: repeat x51 252.          (* 253 bytes: the first three-byte varint *)
Definition in_pool : list go_Input :=
  [ mk_go_Input (repeat_byte 32 x11) 0 None None 0 4294967295;
    mk_go_Input (x01 :: repeat_byte 31 x00) 1 (Some []) (Some []) 1 0;
    mk_go_Input (repeat_byte 32 xab) 18446744073709551615 (Some [x76; xa9]) (Some [x51; x52]) 4294967295 4294967294;
    mk_go_Input [] 4294967296 (Some long_script) (Some [x00]) 255 256;
    mk_go_Input [x01; x02; x03] 255 None (Some long_script) 65536 1;
    mk_go_Input (repeat_byte 32 x00) 9223372036854775808 (Some [x6a]) None 16909060 67305985 ].
Definition out_pool : list go_Output :=
  [ mk_go_Output 0 (Some []); mk_go_Output 1 (Some [x6a]); mk_go_Output 18446744073709551615 (Some [x00; x6a; x01]);
    mk_go_Output 4294967296 (Some [x76; xa9; x14]); mk_go_Output 255 (Some long_script); mk_go_Output 9223372036854775808 (Some [x00]);
    mk_go_Output 72623859790382856 (Some [x51]) ].
Definition lists_of {A} (pool : list A) : list (list A) :=
  [] :: map (fun a => [a]) pool ++ flat_map (fun a => map (fun b => [a; b]) pool) pool.
Definition lists3_of {A} (pool : list A) : list (list A) :=
  lists_of pool ++ flat_map (fun a => flat_map (fun b => map (fun c => [a; b; c]) pool) pool) pool.
(** cross products for the one-object functions: every amount / index / sequence at its byte boundaries (each byte distinct,
    so that a byte order or a width slip shows), scripts at the compact-size boundaries *)
Definition sats_pool : list Z := [0; 1; 255; 256; 65535; 65536; 4294967295; 4294967296; 72623859790382856; 578437695752307201;
  9223372036854775807; 9223372036854775808; 18446744073709551615; 1099511627776; 16909060; 281474976710656].
Definition script_pool : list (option bytes) :=
  [Some []; Some [x6a]; Some [x00; x6a; x01]; Some [x76; xa9; x14]; Some (repeat x51 75); Some (repeat x52 76); Some (repeat x53 252);
   Some (x6a :: repeat x51 252); Some (repeat x54 254); Some (repeat x55 255); Some (repeat x56 256); Some (repeat x57 300);
   Some (repeat x58 65535); Some (repeat x59 65536)].
Definition out_cross : list go_Output := flat_map (fun v => map (fun sc => mk_go_Output v sc) script_pool) sats_pool.
Definition u32_pool : list Z := [0; 1; 255; 256; 65535; 65536; 16909060; 67305985; 4294967294; 4294967295].
Definition in_cross : list go_Input :=
  flat_map (fun id => flat_map (fun vout => flat_map (fun us => map (fun sq => mk_go_Input id 0 None us vout sq) [0; 16909060; 4294967295])
     [None; Some []; Some [x51]; Some (repeat x52 252); Some (repeat x53 253); Some (repeat x54 65536)]) u32_pool)
     [repeat_byte 32 x11; x01 :: repeat_byte 31 x00; (x01 :: x02 :: x03 :: x04 :: repeat_byte 27 xab) ++ [xff]].
Record cand := mkCand { c_ins : list go_Input; c_outs : list go_Output; c_ver : Z; c_lock : Z }.
Definition txs : list cand :=
  flat_map (fun i => flat_map (fun o => [mkCand i o 1 0; mkCand i o 4294967295 4009754624]) (lists_of out_pool)) (lists_of in_pool).
Definition c_tx (c : cand) : tx := tx_of_go (c_ins c) (c_outs c) (c_ver c) (c_lock c).
(** a candidate is shown as its extended serialisation (loadable with bt.NewTxFromBytes) *)
Definition show_cand (c : cand) : string := ("exthex:" ++ hex_bytes (tx_bytes true (c_tx c)))%string.
Definition opt_eqb {A} (e : A -> A -> bool) (x y : option A) : bool :=
  match x, y with Some a, Some b => e a b | None, None => true | _, _ => false end.

'''
POST = '''
Eval vm_compute in (verdict "{fn}" {show} agree_{fn} {cands}).
'''
TXDOM = "4902 small transactions: 0..2 inputs from a pool of 6 (nil / empty / long scripts, boundary integers, txids of length 0, 3, 32), 0..2 outputs from a pool of 7, two version / locktime pairs"
files = {}
def tx_fn(fn, go, model, agree, extra_defs="", cands="txs", show="show_cand", domain=TXDOM):
    files[fn] = PRE.replace('{fn}',fn).replace('{go}',go).replace('{model}',model).replace('{domain}',domain) + extra_defs + "Definition agree_%s %s\n" % (fn, agree) + POST.replace('{fn}',fn).replace('{show}',show).replace('{cands}',cands)

tx_fn("Tx_Bytes", "Tx.Bytes (tx.go)", "[tx_bytes false] of model/Tx.v",
  "(c : cand) : bool :=\n  M_eq bytes_eqb (Tx_Bytes (map Some (c_ins c)) (map Some (c_outs c)) (c_ver c) (c_lock c)) (Val (tx_bytes false (c_tx c))).")
tx_fn("Tx_ExtendedBytes", "Tx.ExtendedBytes (tx.go)", "[tx_bytes true] of model/Tx.v",
  "(c : cand) : bool :=\n  M_eq bytes_eqb (Tx_ExtendedBytes (map Some (c_ins c)) (map Some (c_outs c)) (c_ver c) (c_lock c)) (Val (tx_bytes true (c_tx c))).")
tx_fn("Tx_BytesWithClearedInputs", "Tx.BytesWithClearedInputs (tx.go), nil lockingScript", "[tx_bytes false] of model/Tx.v",
  "(c : cand) : bool :=\n  M_eq bytes_eqb (Tx_BytesWithClearedInputs 1 None (map Some (c_ins c)) (map Some (c_outs c)) (c_ver c) (c_lock c)) (Val (tx_bytes false (c_tx c))).")
tx_fn("Tx_toBytesHelper", "Tx.toBytesHelper (tx.go), nil lockingScript", "[tx_bytes] of model/Tx.v",
  "(ce : cand * bool) : bool :=\n  let (c, e) := ce in M_eq bytes_eqb (Tx_toBytesHelper 0 None e (map Some (c_ins c)) (map Some (c_outs c)) (c_ver c) (c_lock c)) (Val (tx_bytes e (c_tx c))).",
  cands="(flat_map (fun c => [(c, false); (c, true)]) txs)", show="(fun ce : cand * bool => ((if snd ce then \"extended,\"%string else \"standard,\"%string) ++ show_cand (fst ce))%string)")
tx_fn("Tx_Size", "Tx.Size (tx.go)", "[tx_size] of model/Fees.v",
  "(c : cand) : bool :=\n  M_eq Z.eqb (Tx_Size (map Some (c_ins c)) (map Some (c_outs c)) (c_ver c) (c_lock c)) (Val (Z.of_N (tx_size (c_tx c)))).")
SZ = '''Definition size_eqb (a b : go_TxSize) : bool :=
  (TxSize_TotalBytes a =? TxSize_TotalBytes b) && (TxSize_TotalStdBytes a =? TxSize_TotalStdBytes b) && (TxSize_TotalDataBytes a =? TxSize_TotalDataBytes b).
Definition size_to_go (s : txsize) : go_TxSize := mk_go_TxSize (Z.of_N (sz_total s)) (Z.of_N (sz_std s)) (Z.of_N (sz_data s)).
'''
tx_fn("Tx_SizeWithTypes", "Tx.SizeWithTypes (tx.go)", "[size_with_types] of model/Fees.v",
  "(c : cand) : bool :=\n  M_eq (opt_eqb size_eqb) (Tx_SizeWithTypes (map Some (c_ins c)) (map Some (c_outs c)) (c_ver c) (c_lock c)) (Val (Some (size_to_go (size_with_types (c_tx c))))).", SZ)
tx_fn("Tx_TotalInputSatoshis", "Tx.TotalInputSatoshis (txinput.go)", "[total_in] of model/Fees.v",
  "(c : cand) : bool :=\n  M_eq Z.eqb (Tx_TotalInputSatoshis (map Some (c_ins c))) (Val (Z.of_N (total_in (c_tx c)))).")
tx_fn("Tx_TotalOutputSatoshis", "Tx.TotalOutputSatoshis (txoutput.go)", "[total_out] of model/Fees.v",
  "(c : cand) : bool :=\n  M_eq Z.eqb (Tx_TotalOutputSatoshis (map Some (c_outs c))) (Val (Z.of_N (total_out (c_tx c)))).")
tx_fn("Tx_PreviousOutHash", "Tx.PreviousOutHash (txinput.go)", "[previous_out_hash] of model/SigHash.v",
  "(c : cand) : bool :=\n  M_eq bytes_eqb (Tx_PreviousOutHash (map Some (c_ins c))) (Val (previous_out_hash (c_tx c))).",
  cands="(map (fun i => mkCand i [] 1 0) (lists3_of in_pool))", domain="259 input lists (0..3 inputs from a pool of 6)")
tx_fn("Tx_SequenceHash", "Tx.SequenceHash (txinput.go)", "[sequence_hash] of model/SigHash.v",
  "(c : cand) : bool :=\n  M_eq bytes_eqb (Tx_SequenceHash (map Some (c_ins c))) (Val (sequence_hash (c_tx c))).",
  cands="(map (fun i => mkCand i [] 1 0) (lists3_of in_pool))", domain="259 input lists (0..3 inputs from a pool of 6)")
tx_fn("Tx_OutputsHash", "Tx.OutputsHash (signaturehash.go)", "[outputs_hash] of model/SigHash.v",
  "(cn : cand * Z) : bool :=\n  let (c, n) := cn in M_eq bytes_eqb (Tx_OutputsHash n (map Some (c_outs c))) (match outputs_hash (c_tx c) n with Some h => Val h | None => Panic end).",
  cands="(flat_map (fun o => map (fun n => (mkCand [] o 1 0, n)) [-2; -1; 0; 1; 2; 3; 2147483647; -2147483648]) (lists_of out_pool))",
  show="(fun cn : cand * Z => (\"n=\" ++ dec_Z (snd cn) ++ \",\" ++ show_cand (fst cn))%string)", domain="57 output lists (0..2 outputs from a pool of 7) x n in -2 .. 3 and the int32 limits")
tx_fn("Output_Bytes", "Output.Bytes (output.go)", "[output_bytes] of model/Tx.v",
  "(g : go_Output) : bool :=\n  M_eq bytes_eqb (Output_Bytes (Output_Satoshis g) (Output_LockingScript g)) (Val (output_bytes (output_of_go g))).",
  cands="out_cross", show="(fun g => (\"output:\" ++ hex_bytes (firstn 40 (output_bytes (output_of_go g))) ++ \"...,script-length=\" ++ dec_Z (Z.of_nat (List.length (script_of (Output_LockingScript g)))))%string)", domain="16 amounts at their byte boundaries x 14 scripts at the compact-size boundaries (0 .. 65536 bytes)")
tx_fn("Output_BytesForSigHash", "Output.BytesForSigHash (output.go)", "[bytes_for_sighash] of model/SigHash.v",
  "(g : go_Output) : bool :=\n  M_eq bytes_eqb (Output_BytesForSigHash (Output_Satoshis g) (Output_LockingScript g)) (Val (bytes_for_sighash (output_of_go g))).",
  cands="out_cross", show="(fun g => (\"output:\" ++ hex_bytes (firstn 40 (output_bytes (output_of_go g))) ++ \"...,script-length=\" ++ dec_Z (Z.of_nat (List.length (script_of (Output_LockingScript g)))))%string)", domain="16 amounts at their byte boundaries x 14 scripts at the compact-size boundaries (0 .. 65536 bytes)")
tx_fn("Input_Bytes", "Input.Bytes (input.go)", "[input_bytes false] of model/Tx.v",
  "(gc : go_Input * bool) : bool :=\n  let (g, c) := gc in\n  M_eq bytes_eqb (Input_Bytes c (Input_previousTxID g) (Input_PreviousTxOutIndex g) (Input_UnlockingScript g) (Input_SequenceNumber g))\n       (Val (input_bytes false (mkInput (Input_previousTxID g) (Z.to_N (Input_PreviousTxOutIndex g)) (if c then [] else script_of (Input_UnlockingScript g)) (Z.to_N (Input_SequenceNumber g)) 0 None))).",
  cands="(flat_map (fun g => [(g, false); (g, true)]) (in_pool ++ in_cross))", show="(fun gc : go_Input * bool => ((if snd gc then \"clear,\"%string else \"keep,\"%string) ++ \"input:\" ++ hex_bytes (input_bytes true (input_of_go (fst gc))))%string)", domain="a pool of 6 inputs plus 3 txids x 10 indices x 6 unlocking scripts (nil, empty, 1, 252, 253, 65536 bytes) x 3 sequences, x clear / keep")
FEES = '''Definition rate_of_go (f : go_Fee) : rate :=
  mkRate (Z.to_N (go_conv U64 (Fee_MiningFee_Satoshis f))) (Z.to_N (go_conv U64 (Fee_MiningFee_Bytes f))).
Definition quote_of_go (std data : option go_Fee) : quote := mkQuote (option_map rate_of_go std) (option_map rate_of_go data).
Definition fee_pool : list (option go_Fee) :=
  [ None; Some (mk_go_Fee 500 1000 250 1000); Some (mk_go_Fee 1 1 0 1); Some (mk_go_Fee 5 0 1 1); Some (mk_go_Fee 0 7 3 9);
    Some (mk_go_Fee (-1) 3 1 1); Some (mk_go_Fee 9223372036854775807 2 1 1); Some (mk_go_Fee 3 (-2) 1 1) ].
Definition quotes : list (option go_Fee * option go_Fee) := flat_map (fun a => map (fun b => (a, b)) fee_pool) fee_pool.
Definition show_fee (f : option go_Fee) : string :=
  match f with None => "none" | Some g => (dec_Z (Fee_MiningFee_Satoshis g) ++ "/" ++ dec_Z (Fee_MiningFee_Bytes g))%string end.
Definition show_quote (q : option go_Fee * option go_Fee) : string := ("std=" ++ show_fee (fst q) ++ ",data=" ++ show_fee (snd q))%string.
'''
tx_fn("Tx_feesPaid", "Tx.feesPaid (tx.go)", "[fees_paid] of model/Fees.v",
  "(sq : go_TxSize * (option go_Fee * option go_Fee)) : bool :=\n  let '(sz, (s, d)) := sq in\n  M_eq (pair_eqb (opt_eqb fees_eqb) Bool.eqb) (Tx_feesPaid (Some sz) s d)\n    (match fees_paid (mkSize (Z.to_N (TxSize_TotalBytes sz)) (Z.to_N (TxSize_TotalStdBytes sz)) (Z.to_N (TxSize_TotalDataBytes sz))) (quote_of_go s d) with\n     | FOk f => Val (Some (mk_go_TxFees (Z.of_N (fee_total f)) (Z.of_N (fee_std f)) (Z.of_N (fee_data f))), false)\n     | FErr _ => Val (None, true) | FPanic => Panic | FFatal => NoFuel end).",
  FEES + '''Definition fees_eqb (a b : go_TxFees) : bool :=
  (TxFees_TotalFeePaid a =? TxFees_TotalFeePaid b) && (TxFees_StdFeePaid a =? TxFees_StdFeePaid b) && (TxFees_DataFeePaid a =? TxFees_DataFeePaid b).
Definition sizes : list go_TxSize :=
  [ mk_go_TxSize 0 0 0; mk_go_TxSize 191 191 0; mk_go_TxSize 300 200 100; mk_go_TxSize 1000 1 999;
    mk_go_TxSize 18446744073709551615 18446744073709551615 0; mk_go_TxSize 9223372036854775808 36893488147419103 4294967296 ].
''', cands="(flat_map (fun s => map (fun q => (s, q)) quotes) sizes)",
  show="(fun sq => (\"std_bytes=\" ++ dec_Z (TxSize_TotalStdBytes (fst sq)) ++ \",data_bytes=\" ++ dec_Z (TxSize_TotalDataBytes (fst sq)) ++ \",\" ++ show_quote (snd sq))%string)",
  domain="6 sizes x 64 quotes (absent fee types, zero / negative / huge Satoshis and Bytes)")
tx_fn("Tx_IsFeePaidEnough", "Tx.IsFeePaidEnough (tx.go)", "[is_fee_paid_enough] of model/Fees.v",
  "(cq : cand * (option go_Fee * option go_Fee)) : bool :=\n  let '(c, (s, d)) := cq in\n  M_eq (pair_eqb Bool.eqb Bool.eqb) (Tx_IsFeePaidEnough (map Some (c_ins c)) (map Some (c_outs c)) (c_ver c) (c_lock c) s d)\n    (match is_fee_paid_enough (c_tx c) (quote_of_go s d) with\n     | FOk b => Val (b, false) | FErr _ => Val (false, true) | FPanic => Panic | FFatal => NoFuel end).",
  FEES + '''Definition quotes_small : list (option go_Fee * option go_Fee) :=
  let p := [None; Some (mk_go_Fee 500 1000 250 1000); Some (mk_go_Fee 5 0 1 1); Some (mk_go_Fee (-1) 3 1 1); Some (mk_go_Fee 1 1 0 1)] in
  flat_map (fun a => map (fun b => (a, b)) p) p.
(** the boundary of the verdict: a transaction whose single input pays exactly the quoted fee, one satoshi less, one more *)
Definition with_sats (g : go_Input) (v : Z) : go_Input :=
  mk_go_Input (Input_previousTxID g) v (Input_PreviousTxScript g) (Input_UnlockingScript g) (Input_PreviousTxOutIndex g) (Input_SequenceNumber g).
Definition exact_cands (c : cand) (q : option go_Fee * option go_Fee) : list (cand * (option go_Fee * option go_Fee)) :=
  match c_ins c with
  | [g] =>
      match fees_paid (size_with_types (c_tx c)) (quote_of_go (fst q) (snd q)) with
      | FOk f => let need := Z.of_N (total_out (c_tx c)) + Z.of_N (fee_total f) in
                 map (fun v => (mkCand [with_sats g (v mod 18446744073709551616)] (c_outs c) (c_ver c) (c_lock c), q)) [need - 1; need; need + 1]
      | _ => []
      end
  | _ => []
  end.
Definition fee_txs : list cand :=
  flat_map (fun i => map (fun o => mkCand i o 1 0) (lists_of out_pool)) ([] :: map (fun a => [a]) in_pool).
''', cands="(flat_map (fun c => flat_map (fun q => (c, q) :: exact_cands c q) quotes_small) fee_txs)",
  show="(fun cq => (show_quote (snd cq) ++ \",\" ++ show_cand (fst cq))%string)",
  domain="399 small transactions (0..1 inputs, 0..2 outputs) x 25 quotes, plus for every one-input transaction and quote the three input amounts around total out + quoted fee")
# ---- the signature-hash assembly (signaturehash.go): small transactions x every index x hash types ----
SH = """(** transactions of 1..3 inputs / 0..3 outputs with small, pairwise distinct field values (a swapped field shows); nil and
    empty previous scripts, empty and short txids at the signed and at other positions *)
Definition sh_in (k : Z) : go_Input :=
  mk_go_Input (repeat_byte 32 (z2b (16 + k))) (1000 + k) (Some [z2b (80 + k); x51]) (Some [z2b (96 + k)]) (2 + k) (4294967280 + k).
Definition sh_in_nilscript (k : Z) : go_Input := mk_go_Input (repeat_byte 32 (z2b (16 + k))) (1000 + k) None (Some [x00]) (2 + k) (7 + k).
Definition sh_in_emptyscript (k : Z) : go_Input := mk_go_Input (repeat_byte 32 (z2b (16 + k))) (1000 + k) (Some []) None (2 + k) (7 + k).
Definition sh_in_notxid (k : Z) : go_Input := mk_go_Input [] (1000 + k) (Some [x51]) (Some []) (2 + k) (7 + k).
Definition sh_in_shorttxid (k : Z) : go_Input := mk_go_Input [x01; x02; x03] (1000 + k) (Some [x52]) (Some []) (2 + k) (7 + k).
Definition sh_out (k : Z) : go_Output := mk_go_Output (500 + k) (Some [x6a; z2b (112 + k)]).
Definition sh_ins : list (list go_Input) :=
  [ [sh_in 0]; [sh_in 0; sh_in 1]; [sh_in 0; sh_in 1; sh_in 2];
    [sh_in_nilscript 0]; [sh_in 0; sh_in_nilscript 1]; [sh_in_emptyscript 0; sh_in 1];
    [sh_in_notxid 0; sh_in 1]; [sh_in 0; sh_in_notxid 1; sh_in 2]; [sh_in_shorttxid 0]; [] ].
Definition sh_outs : list (list go_Output) :=
  [ []; [sh_out 0]; [sh_out 0; sh_out 1]; [sh_out 0; sh_out 1; mk_go_Output 18446744073709551615 (Some long_script)] ].
Definition sh_txs : list cand := flat_map (fun i => map (fun o => mkCand i o 2 (3 + go_len o)) sh_outs) sh_ins.
(** every index of a 3-input transaction, the first ones out of range, and the ends of uint32 / int32 *)
Definition sh_idx : list Z := [0; 1; 2; 3; 4; 2147483647; 2147483648; 4294967295].
(** 0x00..0x03, 0x41..0x43, 0x80..0x83, 0xc1..0xc3, undefined base types, every bit above the mask alone and with each base *)
Definition sh_hts : list Z :=
  flat_map (fun hi => map (fun lo => hi + lo) [0; 1; 2; 3; 4; 5; 18; 19; 30; 31]) [0; 32; 64; 96; 128; 160; 192; 224].
Definition sh_hts_sig : list Z := flat_map (fun hi => map (fun lo => hi + lo) [0; 1; 2; 3; 31]) [0; 32; 64; 96; 128; 160; 192; 224].
Record shc := mkShc { sh_c : cand; sh_i : Z; sh_ht : Z }.
Definition sh_cands (hts : list Z) : list shc :=
  flat_map (fun c => flat_map (fun i => map (fun h => mkShc c i h) hts) sh_idx) sh_txs.
Definition show_shc (x : shc) : string := ("input=" ++ dec_Z (sh_i x) ++ ",hashtype=" ++ dec_Z (sh_ht x) ++ "," ++ show_cand (sh_c x))%string.
Definition sres_outcome (r : sres) : M (bytes * bool) :=
  match r with SOk b => Val (b, false) | SErr _ => Val ([], true) | SPanic => Panic | SFatal => NoFuel | SFuel => NoFuel end.
Definition sh_eq : M (bytes * bool) -> M (bytes * bool) -> bool := M_eq (pair_eqb bytes_eqb Bool.eqb).
"""
SHDOM = "40 transactions (0..3 inputs with pairwise distinct small field values, nil / empty previous scripts, empty / short txids; 0..3 outputs) x 8 input indices (every index, out of range, the ends of int32 / uint32) x 80 hash types (0x00..0x05, 0x12, 0x13, 0x1e, 0x1f under every combination of the three high bits)"
tx_fn("Tx_CalcInputPreimage", "Tx.CalcInputPreimage (signaturehash.go)", "[calc_input_preimage] of model/SigHash.v",
  "(x : shc) : bool :=\n  let c := sh_c x in\n  sh_eq (Tx_CalcInputPreimage (sh_i x) (sh_ht x) (map Some (c_ins c)) (map Some (c_outs c)) (c_ver c) (c_lock c))\n        (sres_outcome (fst (calc_input_preimage (c_tx c) (Z.to_N (sh_i x)) (Z.to_N (sh_ht x))))).",
  SH, cands="(sh_cands sh_hts)", show="show_shc", domain=SHDOM)
tx_fn("Tx_InputIdx", "Tx.InputIdx (tx.go)", "[input_idx] of model/SigHash.v",
  "(x : shc) : bool :=\n  let c := sh_c x in\n  M_eq (opt_eqb (fun a b : input => bytes_eqb (input_bytes true a) (input_bytes true b)))\n       (bind (Tx_InputIdx (sh_i x) (map Some (c_ins c))) (fun p => Val (option_map input_of_go p))) (Val (input_idx (c_tx c) (Z.to_N (sh_i x)))).",
  SH, cands="(sh_cands [0])", show="show_shc", domain="40 transactions of 0..3 inputs x 8 indices (every index, out of range, the ends of int32 / uint32)")
tx_fn("Tx_CalcInputSignatureHash", "Tx.CalcInputSignatureHash + Tx.sigStrat (signaturehash.go)", "[calc_input_signature_hash] of model/SigHash.v (the untranslated callee CalcInputPreimageLegacy, a parameter of the printed definition, is the model's [calc_input_preimage_legacy])",
  "(x : shc) : bool :=\n  let c := sh_c x in\n  sh_eq (Tx_CalcInputSignatureHash (sh_i x) (sh_ht x) (map Some (c_ins c)) (map Some (c_outs c)) (c_ver c) (c_lock c)\n           (fun i ht => sres_outcome (fst (calc_input_preimage_legacy (c_tx c) (Z.to_N i) (Z.to_N ht)))))\n        (sres_outcome (fst (calc_input_signature_hash (c_tx c) (Z.to_N (sh_i x)) (Z.to_N (sh_ht x))))).",
  SH, cands="(sh_cands sh_hts_sig)", show="show_shc", domain=SHDOM.replace("80 hash types (0x00..0x05, 0x12, 0x13, 0x1e, 0x1f under every combination of the three high bits)", "40 hash types (0x00..0x03 and 0x1f under every combination of the three high bits; SINGLE with an input index beyond the outputs gives the constant that is not hashed)"))
files["LittleEndianBytes"] = '''(** Counterexample search for LittleEndianBytes (bytemanipulation.go) (printed as [LittleEndianBytes] in gen/Funcs.v) against
    [le_enc 4] of lib/Bytes.v with the length 4 (and Go's panic for a shorter length).
    NOT a proof and independent of proofs/GenFuncs_LittleEndianBytes.v: it compiles whether or not the two sides agree and
    prints one line, "AGREE LittleEndianBytes <candidates>" or "DISAGREE LittleEndianBytes <input>".
    Domain searched: every boundary value below 2^32 x lengths 0..4. *)
From Coq Require Import List ZArith NArith Bool String.
From Coq Require Import Strings.Byte.
From GoBT Require Import lib.Bytes lib.GoSem lib.GoTx gen.Funcs search.GenFuncsSearchLib.
Import ListNotations.
Local Open Scope Z_scope.
Set Printing Width 1000000.

Definition agree_LittleEndianBytes (vl : Z * Z) : bool :=
  let (v, l) := vl in
  M_eq bytes_eqb (LittleEndianBytes v l) (if l <? 4 then Panic else Val (le_enc 4 (Z.to_N v))).
Definition candidates_LittleEndianBytes : list (Z * Z) :=
  flat_map (fun v => map (fun l => (v, l)) [0; 1; 2; 3; 4]) (boundaries_in 0 4294967295).
Definition show_LittleEndianBytes (vl : Z * Z) : string := ("v=" ++ dec_Z (fst vl) ++ ",l=" ++ dec_Z (snd vl))%string.

Eval vm_compute in (verdict "LittleEndianBytes" show_LittleEndianBytes agree_LittleEndianBytes candidates_LittleEndianBytes).
'''
for fn, s in files.items():
    open(os.path.join(out, "GenFuncsSearch_%s.v" % fn), "w").write(s)
print(len(files), "files")
