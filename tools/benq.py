#!/usr/bin/env python3
"""tools/benq.py <pid> [check_pid ...]: false-alarm measurement. Applies each property-preserving change
/tmp/ben_<pid>_out/change<i>.diff (made by an independent sub-agent, see tools/benign_prompt.py) to the scratch worktree
/tmp/ben_<pid>, confirms that the library's suite passes with it, runs the named quick checks (default: pid) from a private copy
of /verif (/tmp/vb_<pid>) and records what they said. Result: /verif/benign/<pid>-<i>/{patch.diff,why.txt,meta.json}."""
import glob, json, os, shutil, subprocess, sys
pid = sys.argv[1]; checks = sys.argv[2:] or [pid]
wt, out_dir, vd = f"/tmp/ben_{pid}", f"/tmp/ben_{pid}_out", f"/tmp/vb_{pid}"
env = dict(os.environ, GOFLAGS="-mod=mod", GOPROXY="off", GOSUMDB="off", GOTOOLCHAIN="local")
def sh(cmd, e=None):
    p = subprocess.run(["bash", "-c", cmd], env=e or env, stdout=subprocess.PIPE, stderr=subprocess.STDOUT, text=True)
    return p.returncode, p.stdout
os.makedirs(vd, exist_ok=True)
sh(f"rsync -a --delete --exclude .git --exclude 'work/alt_*' --exclude work/gocache --exclude seeded --exclude benign /verif/ {vd}/")
for diff in sorted(glob.glob(f"{out_dir}/change*.diff")):
    i = os.path.basename(diff)[6:-5]
    sh(f"git -C {wt} checkout -- . && git -C {wt} clean -fdq")
    rc, o = sh(f"git -C {wt} apply {diff}")
    if rc != 0:
        print(pid, i, "diff does not apply", o[-200:]); continue
    rc, o = sh(f"python3 /verif/tools/baseline.py {wt}")
    suite_ok = rc == 0
    res = {}
    for c in checks:
        rc, o = sh(f"cd {vd} && VERIF_REPO={wt} ./check {c} quick", dict(env, VERIF_REPO=wt))
        lines = o.splitlines()
        vio = [l for l in lines if l.startswith("VIOLATION")]
        res[c] = {"exit": rc, "violation_lines": vio[:3], "summary": [l for l in lines if l.startswith(c + " ")][:1],
                  "tail": lines[-6:] if rc != 0 else []}
    sh(f"git -C {wt} checkout -- . && git -C {wt} clean -fdq")
    dst = f"/verif/benign/{pid}-{i}"
    os.makedirs(dst, exist_ok=True)
    shutil.copy(diff, f"{dst}/patch.diff")
    why = f"{out_dir}/why{i}.txt"
    if os.path.exists(why): shutil.copy(why, f"{dst}/why.txt")
    quiet = all(r["exit"] == 0 and not r["violation_lines"] for r in res.values())
    nofail = all(r["exit"] == 0 or all(l.rstrip().endswith("no-failing-input-found") for l in r["violation_lines"]) for r in res.values())
    verdict = "quiet" if quiet else ("cannot-show (no-failing-input-found)" if nofail else "ALARM with a replay")
    json.dump({"property": pid, "suite_passes_with_change": suite_ok, "checks": res, "verdict": verdict}, open(f"{dst}/meta.json", "w"), indent=1)
    print(pid, i, "suite", suite_ok, verdict, {c: (r["exit"], [l[:160] for l in r["violation_lines"][:1]]) for c, r in res.items()}, flush=True)
