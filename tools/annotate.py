#!/usr/bin/env python3
"""tools/annotate.py <file.json>: merge {"<seeded dir>": {"needs":..., "detected_on_first_run":..., "strengthening":...}} into seeded/*/meta.json"""
import json, sys
for k, v in json.load(open(sys.argv[1])).items():
    p = f"/verif/seeded/{k}/meta.json"
    m = json.load(open(p))
    m.update(v)
    m.setdefault("round", 2 if "-r" in k else 1)
    json.dump(m, open(p, "w"), indent=1)
    print(k, m["detected_by"], m.get("detected_on_first_run"))
