#!/usr/bin/env python3
"""tools/r7_finalise.py: write needs / round / detected_on_first_run / strengthening into seeded/*-r7-*/meta.json from
tools/r7_needs.json, tools/r7_first_run.json, tools/r7_strengthening.json and the latest /tmp/seedres_*_r7-*.json"""
import json, glob, os
needs = json.load(open('/verif/tools/r7_needs.json'))
first = json.load(open('/verif/tools/r7_first_run.json'))
try: strg = json.load(open('/verif/tools/r7_strengthening.json'))
except Exception: strg = {}
for k in sorted(needs):
    d = f'/verif/seeded/{k}'
    mp = d + '/meta.json'
    if not os.path.exists(mp):
        print('missing', k); continue
    m = json.load(open(mp))
    m['needs'] = needs[k]; m['round'] = 7
    fr = first.get(k, {}).get('first_run')
    m['first_run'] = fr
    m['detected_on_first_run'] = fr in ('input', 'unproved')
    if fr == 'unproved': m['first_run_note'] = 'reported through a proof obligation / the correspondence without a failing input (no-failing-input-found)'
    if k in strg: m['strengthening'] = strg[k]
    json.dump(m, open(mp, 'w'), indent=1)
    print(k, fr, m['detected_by'])
