#!/usr/bin/env python3
"""tools/benq_cross.py <pid...>: for every recorded property-preserving change of the named properties (benign/<pid>-<i>), run the
quick checks of the OTHER properties anchored in the files the change touches, against the changed tree (scratch worktree
/tmp/ben_<pid>, private copy /tmp/vb_<pid> of /verif). Result merged into benign/<pid>-<i>/meta.json under "cross"."""
import glob, json, os, re, subprocess, sys
props = [json.loads(l) for l in open('/verif/properties.jsonl') if l.strip()]
env = dict(os.environ, GOFLAGS="-mod=mod", GOPROXY="off", GOSUMDB="off", GOTOOLCHAIN="local")
def sh(cmd, e=None):
    p = subprocess.run(["bash", "-c", cmd], env=e or env, stdout=subprocess.PIPE, stderr=subprocess.STDOUT, text=True)
    return p.returncode, p.stdout
for pid in sys.argv[1:]:
    wt, vd = f"/tmp/ben_{pid}", f"/tmp/vb_{pid}"
    os.makedirs(vd, exist_ok=True)
    sh(f"rsync -a --delete --exclude .git --exclude 'work/alt_*' --exclude work/gocache --exclude seeded --exclude benign /verif/ {vd}/")
    for d in sorted(glob.glob(f"/verif/benign/{pid}-*")):
        diff = open(f"{d}/patch.diff").read()
        files = set(re.findall(r"^\+\+\+ b/(\S+)", diff, re.M))
        others = sorted(p['id'] for p in props if p['id'] != pid and files & set(p['anchors']['files']))
        if not others: continue
        sh(f"git -C {wt} checkout -- . && git -C {wt} clean -fdq")
        rc, o = sh(f"git -C {wt} apply {d}/patch.diff")
        if rc != 0:
            print(d, "does not apply", o[-200:]); continue
        res = {}
        for c in others:
            rc, o = sh(f"cd {vd} && VERIF_REPO={wt} ./check {c} quick", dict(env, VERIF_REPO=wt))
            vio = [l for l in o.splitlines() if l.startswith("VIOLATION")]
            res[c] = {"exit": rc, "violation_lines": vio[:3]}
        sh(f"git -C {wt} checkout -- . && git -C {wt} clean -fdq")
        m = json.load(open(f"{d}/meta.json")); m["cross"] = res
        json.dump(m, open(f"{d}/meta.json", "w"), indent=1)
        loud = {c: r for c, r in res.items() if r["exit"] != 0 or r["violation_lines"]}
        print(os.path.basename(d), sorted(files), "->", others, "LOUD " + json.dumps(loud)[:400] if loud else "all quiet", flush=True)
