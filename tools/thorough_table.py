#!/usr/bin/env python3
"""tools/thorough_table.py <log>: (re)write the table of the last complete thorough-tier pass in DESIGN.md section 12.7 from the
log of a run of `for p in C01..C20: ./check $p thorough` (one summary line per property)."""
import re, sys
rows = []
for l in open(sys.argv[1]):
    m = re.match(r'(C\d\d) exit=(\d+) (\d+)s (\d+) viol \| C\d\d thorough: theorems (\d+)/(\d+) checked, (\d+) cases \((\d+) distinct non-trivial\), (\d+) model/impl mismatches, (\d+) violations, (\d+) known findings', l)
    if m: rows.append(m.groups())
rows.sort()
t = "| property | exit | wall time | theorems checked | cases (distinct non-trivial) | mismatches | violations | known findings re-observed |\n|---|---|---|---|---|---|---|---|\n"
for r in rows: t += f"| {r[0]} | {r[1]} | {int(r[2])//60} min {int(r[2])%60} s | {r[4]}/{r[5]} | {r[6]} ({r[7]}) | {r[8]} | {r[9]} | {r[10]} |\n"
B, E = '<!-- thorough-table-begin -->\n', '<!-- thorough-table-end -->\n'
s = open('/verif/DESIGN.md').read()
i, j = s.index(B) + len(B), s.index(E)
open('/verif/DESIGN.md', 'w').write(s[:i] + t + s[j:])
print(len(rows), 'rows')
