#!/usr/bin/env python3
"""tools/seed_prompt.py <pid> [round]: print the brief given to an independent sub-agent that proposes property-breaking
changes. The agent gets ONLY the property text and a scratch worktree /tmp/seed_<pid>; nothing from /verif."""
import json, sys
pid = sys.argv[1]
rnd = int(sys.argv[2]) if len(sys.argv) > 2 else 1
p = [json.loads(l) for l in open('/verif/properties.jsonl') if l.strip() and json.loads(l)['id'] == pid][0]
txt = f"{p['id']} — {p['title']}\n\nStatement: {p['statement']}\n\nQuantifier: {p['quantifier']['text']}\n\nAnchors (files): {', '.join(p['anchors']['files'])}\n"
demo = f"/tmp/seed_{pid}_demo" + ("" if rnd == 1 else str(rnd))
tried = ""
if rnd >= 3:
    import glob, os
    ideas = []
    for m in sorted(glob.glob(f"/verif/seeded/{pid}-*/meta.json")):
        ideas.append("   - " + json.load(open(m)).get("needs", ""))
    tried = ("\nALREADY TRIED by earlier rounds (what each change needed in order to show up) — propose changes of a DIFFERENT kind, in different functions where possible:\n" + "\n".join(ideas) + "\n")
kinds8 = "" if rnd < 8 else (" Kinds that earlier rounds have used LITTLE and that you should prefer where they fit this property: "
  "what state an object is left in when a call FAILS midway (partial writes before an error return, a half-built result handed back with the error, an error swallowed on one path); "
  "behaviour that depends on map iteration order, on the wall clock or on time zones; the difference between nil and empty (slices, maps, pointers) on paths where only one of them is usual; "
  "conversions between int, int32, uint32, int64, uint64 at values of 2^31 and above, and arithmetic that overflows only for such values; "
  "string handling (case, whitespace, non-ASCII / invalid UTF-8, leading zeros, '+' signs, hex with odd length) in text formats; "
  "unusual but legal ORDERS of API calls (the same setter twice, use of an object after a call on it returned an error, building in a different order than the tests do, reusing a result as the next argument); "
  "a change in a SHARED helper (byte manipulation, varint, push-data, hashing helpers) whose effect shows only through this property's entry points; "
  "a refactor that merges two near-identical code paths and keeps the behaviour of only one of them. ")
extra = "" if rnd == 1 else ("(later round — other engineers have already tried the obvious one-line boundary flips, dropped nil guards and swapped masks; look for SUBTLER ones: two cooperating sites that each look fine alone, state that leaks between calls or between the steps of a multi-step sequence, shared buffers, order-of-evaluation changes, behaviour that differs only for a rarely used flag / era / format / hash type / call path, integer-width or sign edge cases, caching, refactors that lose a special case) ")
print(f"""You are a careful adversarial engineer. Below is a semantic property that the Go library libsv/go-bt (Bitcoin SV transactions + script interpreter) is supposed to satisfy. You have your own scratch git worktree of the library at /tmp/seed_{pid} (work ONLY there and under {demo}; do not look at or touch /repo, /verif or any other directory; no network). Per shell call first run: export GOFLAGS=-mod=mod GOPROXY=off GOSUMDB=off GOTOOLCHAIN=local

PROPERTY
{txt}{tried}
TASK {extra}{kinds8}: produce THREE different, independent, realistic code changes (bugs a maintainer could plausibly introduce: an off-by-one at a boundary, a dropped guard, a wrong mask, a swapped order, an optimisation that shares a buffer, a refactor that loses a special case, two sites that each look fine alone…) to the library source, each of which BREAKS the property while (a) the library still compiles, and (b) the library's existing test suite still passes completely: `cd /tmp/seed_{pid} && go test -mod=mod -vet=off -count=1 ./...` must print no FAIL. Prefer changes that need something specific to manifest — an unusual input, a particular boundary value, a multi-step sequence, a rarely used flag or code path — rather than ones ordinary use would expose at once; they must not be caught by the existing tests. Do not change any *_test.go file or test data. Each change should be small (a few lines) and touch only non-test .go files of the library.

For each change i = 1..3:
 1. start from a clean worktree (`git -C /tmp/seed_{pid} checkout -- .`), make the change, save it as {demo}/change{{i}}.diff (`git -C /tmp/seed_{pid} diff > ...`);
 2. write a small standalone demonstration program {demo}/demo{{i}}/main.go (its own module in that directory: `module demo`, `require github.com/libsv/go-bt/v2 v2.0.0`, `replace github.com/libsv/go-bt/v2 => /tmp/seed_{pid}`, `cp /tmp/seed_{pid}/go.sum .`) that exits 0 and prints PASS when the property holds on its concrete input and exits 1 printing FAIL (with the observed vs expected values) when it does not; show that it prints FAIL with the change applied and PASS on the clean worktree;
 3. run the full test suite with the change applied and confirm it passes.
Do NOT use `git stash` (the stash is shared by all worktrees of the repository and other engineers work in theirs): to flip between the clean and the changed tree use `git diff > f; git checkout -- .; git apply f`. Finish with the worktree clean (`git checkout -- .`). Final report: for each change: the diff, one paragraph on why it breaks the property and what specific input/sequence is needed to see it, the demo's PASS/FAIL outputs, and the test-suite result.""")
