#!/usr/bin/env python3
"""tools/seed.py <pid> <demo_dir> <i> [check_pid ...]: confirm seeded change i of a sub-agent (diff applies, suite passes,
demo FAILs with it and PASSes without) in the scratch worktree /tmp/seed_<pid>, then run the named checks (default: pid)
against that worktree (VERIF_REPO) and report whether each prints VIOLATION. Stores the kept change under /verif/seeded/."""
import json, os, shutil, subprocess, sys
pid, demo, i = sys.argv[1], sys.argv[2], sys.argv[3]
checks = sys.argv[4:] or [pid]
wt = f"/tmp/seed_{pid}"
env = dict(os.environ, GOFLAGS="-mod=mod", GOPROXY="off", GOSUMDB="off", GOTOOLCHAIN="local")
def sh(cmd, cwd=None, e=None):
    p = subprocess.run(["bash", "-c", cmd], cwd=cwd, env=e or env, stdout=subprocess.PIPE, stderr=subprocess.STDOUT, text=True)
    return p.returncode, p.stdout
diff = f"{demo}/change{i}.diff"
sh(f"git -C {wt} checkout -- .")
rc, out = sh(f"cd {demo}/demo{i} && go build -o /tmp/seed_demo_bin_{pid} . && /tmp/seed_demo_bin_{pid}")
clean_pass = rc == 0
rc, out = sh(f"git -C {wt} apply {diff}")
assert rc == 0, out
rc, out = sh(f"python3 /verif/tools/baseline.py {wt}")
suite_ok = rc == 0
rc, dout = sh(f"cd {demo}/demo{i} && go build -o /tmp/seed_demo_bin_{pid} . && /tmp/seed_demo_bin_{pid}")
demo_fails = rc != 0
res = {}
for c in checks:
    vd = os.environ.get("VERIF_DIR", "/verif")
    rc, out = sh(f"cd {vd} && VERIF_REPO={wt} ./check {c} quick", e=dict(env, VERIF_REPO=wt))
    vio = [l for l in out.splitlines() if l.startswith("VIOLATION")]
    res[c] = {"exit": rc, "violation_lines": vio[:3], "summary": [l for l in out.splitlines() if l.startswith(c + " ")][:1]}
sh(f"git -C {wt} checkout -- .")
print(json.dumps({"pid": pid, "change": i, "clean_demo_passes": clean_pass, "suite_passes_with_change": suite_ok,
                  "demo_fails_with_change": demo_fails, "demo_output": dout.strip()[-300:], "checks": res}, indent=1))
if clean_pass and suite_ok and demo_fails:
    dst = f"/verif/seeded/{pid}-{os.environ.get('SEED_TAG', '')}{i}"
    os.makedirs(dst, exist_ok=True)
    shutil.copy(diff, f"{dst}/patch.diff")
    shutil.copytree(f"{demo}/demo{i}", f"{dst}/demo", dirs_exist_ok=True)
    for f in ("go.sum",):
        try: os.remove(f"{dst}/demo/{f}")
        except FileNotFoundError: pass
    meta = {"property": pid, "needs": "", "confirmed": {"demo_passes_on_clean_tree": clean_pass, "existing_suite_passes_with_change": suite_ok,
            "demo_fails_with_change": demo_fails},
            "ran": f"git apply patch.diff in a scratch worktree of /repo; python3 tools/baseline.py <wt>; demo; VERIF_REPO=<wt> ./check {' '.join(checks)} quick",
            "detected_by": {c: (res[c]["exit"] == 1 and bool(res[c]["violation_lines"])) for c in checks}, "check_output": res}
    json.dump(meta, open(f"{dst}/meta.json", "w"), indent=1)
