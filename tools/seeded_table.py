#!/usr/bin/env python3
"""tools/seeded_table.py [round]: markdown table rows (id | needs | caught by) from seeded/*/meta.json"""
import glob, json, os, re, sys
rnd = int(sys.argv[1]) if len(sys.argv) > 1 else 2
def key(p):
    b = os.path.basename(os.path.dirname(p))
    m = re.match(r"C(\d+)-(?:r(\d+)-)?(\d+)", b)
    return (int(m.group(2) or 1), int(m.group(1)), int(m.group(3)))
for p in sorted(glob.glob("/verif/seeded/*/meta.json"), key=key):
    if key(p)[0] != rnd:
        continue
    m = json.load(open(p))
    ident = os.path.basename(os.path.dirname(p))
    caught = ", ".join(k for k, v in m["detected_by"].items() if v) or "—"
    if not m.get("detected_on_first_run", True):
        caught += " — **missed at first**; " + m.get("strengthening", "")
    print(f"| {ident} | {m.get('needs','')} | {caught} |")
