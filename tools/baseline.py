#!/usr/bin/env python3
"""Run go-bt's pinned test suite in a checkout (default /repo) with the verif guard OFF and
compare with /root/.vp/BASELINE.json: every stable_pass test must pass. Exit 0 iff so."""
import json, os, subprocess, sys
repo = sys.argv[1] if len(sys.argv) > 1 else "/repo"
env = dict(os.environ, GOFLAGS="-mod=mod", GOPROXY="off", GOSUMDB="off", GOTOOLCHAIN="local")
p = subprocess.run(["go", "test", "-mod=mod", "-json", "-vet=off", "-count=1", "-timeout", "25m", "./..."],
                   cwd=repo, env=env, stdout=subprocess.PIPE, stderr=subprocess.STDOUT, text=True)
res = {}
for line in p.stdout.splitlines():
    try:
        e = json.loads(line)
    except Exception:
        continue
    if e.get("Test") and e.get("Action") in ("pass", "fail", "skip"):
        res[e["Package"] + "::" + e["Test"]] = e["Action"]
base = json.load(open("/root/.vp/BASELINE.json"))["stable_pass"]
bad = [t for t in base if res.get(t) != "pass"]
print(f"baseline {len(base)} tests: {len(base)-len(bad)} pass, {len(bad)} not passing; suite exit={p.returncode}")
for t in bad[:40]:
    print("  NOT PASSING:", t, res.get(t))
sys.exit(1 if bad else 0)
