#!/usr/bin/env python3
"""Counterexample search for one function of the function-body translator.

    tools/gen_search.py <fn> [--coq DIR] [--timeout SECONDS]

<fn> is the Coq name of the function (a key of gen/Funcs.status.json, e.g. VarInt_Length, thread_shouldExec).
Compiles coq/search/GenFuncsSearch_<fn>.v -- which compares, by computation inside Coq, the Gallina printed from the
Go source of <fn> (gen/Funcs.v) with the model function on a finite candidate list -- against the Coq tree DIR
(default: /verif/coq; DIR/gen/Funcs.vo and the model .vo files must be compiled), parses the one verdict line and
prints one JSON object:

    {"fn": ..., "agree": true|false|null, "input": <string|null>, "candidates": <int|null>, "go": "<file:line>",
     "seconds": ..., "error": <string|null>}

agree=false: "input" is the first candidate on which the printed Go function and the model differ (bytes as
"hex:..." or "len=..,first=..,fill=..,last=.." for long strings; integers in decimal; several arguments as k=v,k=v).
agree=true: no candidate differs ("candidates" of them were tried).  agree=null: the search could not run
("error" says why: no search file, the function is untranslated, the file does not compile, timeout).
Exit status: 0 agree, 1 disagree, 2 could not run.

The search files and their library are copied to a private temporary directory and compiled there: nothing is written
into the Coq tree, concurrent calls do not interfere.  Not a proof; it only produces the failing input to report when
the obligation proofs/GenFuncs_<fn>.v stops checking.
"""
import argparse, json, os, re, shutil, subprocess, sys, tempfile, time

HERE = os.path.dirname(os.path.abspath(__file__))
DEFAULT_COQ = os.path.join(os.path.dirname(HERE), "coq")


def main():
    ap = argparse.ArgumentParser()
    ap.add_argument("fn")
    ap.add_argument("--coq", default=DEFAULT_COQ, help="Coq tree to compile against (default %(default)s)")
    ap.add_argument("--timeout", type=int, default=120)
    a = ap.parse_args()
    coq = os.path.abspath(a.coq)
    res = {"fn": a.fn, "agree": None, "input": None, "candidates": None, "go": None, "seconds": None, "error": None}
    try:
        st = json.load(open(os.path.join(coq, "gen", "Funcs.status.json"))).get(a.fn)
    except Exception as e:
        st = None
    if st:
        res["go"] = st.get("go")
        if not st.get("translated"):
            res["error"] = "function is not translated: " + str(st.get("reason", ""))
            return finish(res)
    # the search files: those of the tree searched, else those next to this script
    src = None
    for d in (os.path.join(coq, "search"), os.path.join(DEFAULT_COQ, "search")):
        if os.path.exists(os.path.join(d, f"GenFuncsSearch_{a.fn}.v")) and os.path.exists(os.path.join(d, "GenFuncsSearchLib.v")):
            src = d
            break
    if src is None:
        res["error"] = f"no search file search/GenFuncsSearch_{a.fn}.v"
        return finish(res)
    tmp = tempfile.mkdtemp(prefix="gen_search_")
    t0 = time.time()
    try:
        sd = os.path.join(tmp, "search")
        os.makedirs(sd)
        for f in ("GenFuncsSearchLib.v", f"GenFuncsSearch_{a.fn}.v"):
            shutil.copy(os.path.join(src, f), sd)
        # a compiled copy of the library inside the tree (left by a manual coqc) would shadow nothing: same logical name,
        # the private directory is given first
        base = ["coqc", "-w", "-abstract-large-number,-notation-overridden", "-Q", sd, "GoBT.search", "-Q", coq, "GoBT"]
        env = dict(os.environ)
        for f in ("GenFuncsSearchLib.v", f"GenFuncsSearch_{a.fn}.v"):
            left = max(5, a.timeout - int(time.time() - t0))
            try:
                p = subprocess.run(["timeout", str(left)] + base + [os.path.join(sd, f)], cwd=coq, env=env,
                                   capture_output=True, text=True, timeout=left + 10)
            except subprocess.TimeoutExpired:
                res["error"] = f"timeout after {a.timeout}s compiling {f}"
                return finish(res, t0)
            out = p.stdout + p.stderr
            if p.returncode == 124:
                res["error"] = f"timeout after {a.timeout}s compiling {f}"
                return finish(res, t0)
            if p.returncode != 0:
                res["error"] = f"{f} does not compile: " + " ".join(out.split())[-600:]
                return finish(res, t0)
        m = re.search(r'"(AGREE|DISAGREE) (\S+) ?([^"]*)"', out)
        if not m or m.group(2) != a.fn:
            res["error"] = "no verdict line in the output: " + " ".join(out.split())[-300:]
            return finish(res, t0)
        if m.group(1) == "AGREE":
            res["agree"] = True
            res["candidates"] = int(m.group(3))
        else:
            res["agree"] = False
            res["input"] = m.group(3)
        return finish(res, t0)
    finally:
        shutil.rmtree(tmp, ignore_errors=True)


def finish(res, t0=None):
    if t0 is not None:
        res["seconds"] = round(time.time() - t0, 1)
    print(json.dumps(res))
    sys.exit(0 if res["agree"] is True else 1 if res["agree"] is False else 2)


if __name__ == "__main__":
    main()
