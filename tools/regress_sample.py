#!/usr/bin/env python3
"""tools/regress_sample.py <n> [seed]: re-run a random sample of the kept seeded changes (all rounds) against a BUILT SNAPSHOT of the
current commit (/tmp/vs_base, see tools/seedq.sh) with the translator regenerated from the changed tree, one after the other, and
print for each whether its property's check still reports it. A maintenance tool; nothing registered in MANIFEST.json uses it."""
import json, os, random, subprocess, sys, glob, shutil
n = int(sys.argv[1]); rnd = random.Random(int(sys.argv[2]) if len(sys.argv) > 2 else 1)
ids = sorted(os.path.basename(d) for d in glob.glob('/verif/seeded/*') if os.path.exists(d + '/patch.diff'))
pick = rnd.sample(ids, n)
wt = '/tmp/regress_wt'; vs = '/tmp/vs_regress'
subprocess.run(['git', '-C', '/repo', 'worktree', 'remove', '--force', wt], capture_output=True)
subprocess.run(['git', '-C', '/repo', 'worktree', 'add', '--detach', wt, 'HEAD'], check=True, capture_output=True)
subprocess.run(['rsync', '-a', '--delete', '--exclude', '.git', '/tmp/vs_base/', vs + '/'], check=True)
env = dict(os.environ, GOFLAGS='-mod=mod', GOPROXY='off', GOSUMDB='off', GOTOOLCHAIN='local', VERIF_REPO=wt, VERIF_REGEN='1')
res = {}
for sid in pick:
    meta = json.load(open(f'/verif/seeded/{sid}/meta.json')); pid = meta['property']
    subprocess.run(['git', '-C', wt, 'checkout', '--', '.'], check=True); subprocess.run(['git', '-C', wt, 'clean', '-fdq'])
    a = subprocess.run(['git', '-C', wt, 'apply', f'/verif/seeded/{sid}/patch.diff'], capture_output=True, text=True)
    if a.returncode: print(sid, 'PATCH-DOES-NOT-APPLY', a.stderr[:100]); continue
    r = subprocess.run(['./check', pid, 'quick'], cwd=vs, env=env, capture_output=True, text=True)
    v = [l for l in r.stdout.splitlines() if l.startswith('VIOLATION')]
    res[sid] = (r.returncode, v[:1]); print(sid, 'exit', r.returncode, v[:1], flush=True)
subprocess.run(['git', '-C', '/repo', 'worktree', 'remove', '--force', wt]); shutil.rmtree(vs, ignore_errors=True)
missed = [s for s, (rc, v) in res.items() if rc == 0 or not v]
print('sample', len(res), 'reported', len(res) - len(missed), 'missed', missed)
