// Package common: deterministic PRNG, Coq literal printing, case/evidence files shared by all
// per-property harness commands.
package common

import (
	"crypto/sha256"
	"encoding/hex"
	"encoding/json"
	"flag"
	"fmt"
	"os"
	"path/filepath"
	"sort"
	"strings"
)

// ---------- PRNG: splitmix64, the only source of randomness ----------

type Rand struct{ s uint64 }

func NewRand(seed uint64) *Rand { return &Rand{s: seed} }
func (r *Rand) U64() uint64 {
	r.s += 0x9e3779b97f4a7c15
	z := r.s
	z = (z ^ (z >> 30)) * 0xbf58476d1ce4e5b9
	z = (z ^ (z >> 27)) * 0x94d049bb133111eb
	return z ^ (z >> 31)
}
func (r *Rand) Intn(n int) int {
	if n <= 0 {
		return 0
	}
	return int(r.U64() % uint64(n))
}
func (r *Rand) Bool() bool        { return r.U64()&1 == 1 }
func (r *Rand) Chance(p int) bool { return r.Intn(100) < p }
func (r *Rand) Bytes(n int) []byte {
	b := make([]byte, n)
	for i := range b {
		b[i] = byte(r.U64())
	}
	return b
}
func (r *Rand) Pick(xs []int) int          { return xs[r.Intn(len(xs))] }
func (r *Rand) PickU64(xs []uint64) uint64 { return xs[r.Intn(len(xs))] }
func (r *Rand) Fork() *Rand                { return NewRand(r.U64()) }

// ---------- Coq literals ----------

// CoqBytes renders a byte string as a Gallina term of type `bytes`; runs of 48 or more equal
// bytes are rendered as `repeat_byte n xNN` so long constant stretches (big scripts, hundreds of
// identical opcodes) are a few tokens.
func CoqBytes(b []byte) string {
	var segs []string
	lit := 0
	flushLit := func(end int) {
		if end > lit {
			segs = append(segs, byteList(b[lit:end]))
		}
	}
	for i := 0; i < len(b); {
		j := i
		for j < len(b) && b[j] == b[i] {
			j++
		}
		if j-i >= 48 {
			flushLit(i)
			segs = append(segs, fmt.Sprintf("repeat_byte (N.to_nat %d%%N) x%02x", j-i, b[i]))
			lit = j
		}
		i = j
	}
	flushLit(len(b))
	switch len(segs) {
	case 0:
		return "[]"
	case 1:
		if strings.HasPrefix(segs[0], "repeat_byte") {
			return "(" + segs[0] + ")"
		}
		return segs[0]
	}
	return "(" + strings.Join(segs, " ++ ") + ")%list" // %list: inside `Some (…)` the ++ would otherwise be read in string_scope
}

// byteList: explicit constructor list — Coq ingests it about four times faster than a hex string.
func byteList(b []byte) string {
	if len(b) == 0 {
		return "[]"
	}
	const chunk = 2048
	if len(b) > chunk {
		var parts []string
		for i := 0; i < len(b); i += chunk {
			j := i + chunk
			if j > len(b) {
				j = len(b)
			}
			parts = append(parts, byteList(b[i:j]))
		}
		return "(" + strings.Join(parts, " ++ ") + ")%list"
	}
	var sb strings.Builder
	sb.WriteByte('[')
	for i, x := range b {
		if i > 0 {
			sb.WriteByte(';')
		}
		fmt.Fprintf(&sb, "x%02x", x)
	}
	sb.WriteByte(']')
	return sb.String()
}
func CoqStr(s string) string {
	return "\"" + strings.ReplaceAll(s, "\"", "\"\"") + "\""
}
func CoqBool(b bool) string {
	if b {
		return "true"
	}
	return "false"
}
func CoqOptBytes(b []byte, isNil bool) string {
	if isNil {
		return "None"
	}
	return "(Some " + CoqBytes(b) + ")"
}

// ---------- run context ----------

type Ctx struct {
	Prop       string
	Mode       string // gen | search | replay
	Tier       string
	Seed       uint64
	Out        string
	In         string
	header     string
	shard      []string
	nshard     int
	PerShard   int
	ShardBytes int
	shardBytes int
	Cases      int
	jsonl      *os.File
	inflight   *os.File
	Stats      Stats
	seen       map[string]bool
}

type Violation struct {
	Site  string      `json:"site"` // call site + class, stable key for known findings
	What  string      `json:"what"`
	Input interface{} `json:"input"`
}

type Stats struct {
	Evaluations        int                    `json:"evaluations"`
	DistinctNontrivial int                    `json:"distinct_nontrivial"`
	Rule               string                 `json:"rule"`
	Samples            []interface{}          `json:"samples"`
	Distribution       map[string]int         `json:"distribution"`
	Violations         []Violation            `json:"violations"`
	Shards             int                    `json:"shards"`
	Extra              map[string]interface{} `json:"extra,omitempty"`
}

func Parse(prop string) *Ctx {
	c := &Ctx{Prop: prop, PerShard: 400, ShardBytes: 60000}
	var seed uint64
	flag.StringVar(&c.Mode, "mode", "gen", "gen|search|replay")
	flag.StringVar(&c.Tier, "tier", "quick", "quick|thorough")
	flag.Uint64Var(&seed, "seed", 1, "seed")
	flag.StringVar(&c.Out, "out", "", "output dir")
	flag.StringVar(&c.In, "in", "", "input file (search/replay)")
	flag.StringVar(&c.Prop, "prop", prop, "property id (for binaries serving several properties)")
	flag.Parse()
	c.Seed = seed
	c.Stats.Distribution = map[string]int{}
	c.Stats.Extra = map[string]interface{}{}
	c.seen = map[string]bool{}
	if c.Out != "" {
		os.MkdirAll(c.Out, 0o755)
		os.Remove(filepath.Join(c.Out, "inflight.json"))
		old, _ := filepath.Glob(filepath.Join(c.Out, "cases_*.v"))
		for _, f := range old {
			os.Remove(f)
		}
		f, err := os.Create(filepath.Join(c.Out, "cases.jsonl"))
		if err != nil {
			panic(err)
		}
		c.jsonl = f
	}
	return c
}

func (c *Ctx) Thorough() bool { return c.Tier == "thorough" }

// SetHeader sets the Coq preamble of every shard (imports).
func (c *Ctx) SetHeader(h string) { c.header = h }

// Count a distribution bucket.
func (c *Ctx) Tally(k string) { c.Stats.Distribution[k]++ }

// Case records one evaluated case: its Coq term (of the property's case type), a JSON twin for
// replays/samples, and a key identifying the projected input (for distinct counting).
func (c *Ctx) Case(coq string, twin interface{}, key string, nontrivial bool) int {
	id := c.Cases
	c.Cases++
	c.Stats.Evaluations++
	if nontrivial && !c.seen[key] {
		c.seen[key] = true
		c.Stats.DistinctNontrivial++
	}
	if len(c.Stats.Samples) < 5 || (id%97 == 0 && len(c.Stats.Samples) < 12) {
		c.Stats.Samples = append(c.Stats.Samples, twin)
	}
	if c.jsonl != nil {
		bb, _ := json.Marshal(map[string]interface{}{"id": id, "case": twin})
		c.jsonl.Write(append(bb, '\n'))
	}
	if coq != "" {
		c.shard = append(c.shard, fmt.Sprintf("(%d, %s)", id, coq))
		c.shardBytes += len(coq)
		if len(c.shard) >= c.PerShard || c.shardBytes >= c.ShardBytes {
			c.flush()
		}
	}
	return id
}

// Weigh adds to the current shard's size the cost of a case that is expensive to evaluate on the model beyond
// the length of its term (call before Case); a case heavier than half a shard starts a shard of its own.
func (c *Ctx) Weigh(w int) {
	if w > c.ShardBytes/2 && len(c.shard) > 0 {
		c.flush()
	}
	c.shardBytes += w
}

// InFlight records, before the library is called, what is about to be run: when the library ends the process
// itself (log.Fatal, os.Exit, a runtime fatal error, the kernel's OOM killer), the driver finds here the input that
// was being handled and reports it as the failing input.
func (c *Ctx) InFlight(site string, input interface{}) {
	if c.Out == "" {
		return
	}
	if c.inflight == nil {
		f, err := os.Create(filepath.Join(c.Out, "inflight.json"))
		if err != nil {
			return
		}
		c.inflight = f
	}
	bb, _ := json.Marshal(map[string]interface{}{"site": site, "input": input})
	c.inflight.Truncate(0)
	c.inflight.WriteAt(bb, 0)
}

func (c *Ctx) Violate(site, what string, input interface{}) {
	c.Stats.Violations = append(c.Stats.Violations, Violation{Site: site, What: what, Input: input})
}

func (c *Ctx) flush() {
	if len(c.shard) == 0 || c.Out == "" {
		c.shard = nil
		return
	}
	var sb strings.Builder
	sb.WriteString(c.header)
	sb.WriteString("\nDefinition cases := [\n")
	sb.WriteString(strings.Join(c.shard, ";\n"))
	sb.WriteString("\n].\nDefinition M := Eval vm_compute in mismatches cases.\nPrint M.\n")
	name := filepath.Join(c.Out, fmt.Sprintf("cases_%d.v", c.nshard))
	if err := os.WriteFile(name, []byte(sb.String()), 0o644); err != nil {
		panic(err)
	}
	c.nshard++
	c.shard = nil
	c.shardBytes = 0
}

func (c *Ctx) Finish() {
	c.flush()
	if c.inflight != nil {
		c.inflight.Close()
		os.Remove(filepath.Join(c.Out, "inflight.json"))
	}
	c.Stats.Shards = c.nshard
	if c.jsonl != nil {
		c.jsonl.Close()
	}
	if c.Stats.Violations == nil {
		c.Stats.Violations = []Violation{}
	}
	keys := make([]string, 0)
	for k := range c.Stats.Distribution {
		keys = append(keys, k)
	}
	sort.Strings(keys)
	bb, _ := json.MarshalIndent(c.Stats, "", " ")
	if c.Out != "" {
		os.WriteFile(filepath.Join(c.Out, "stats.json"), bb, 0o644)
	} else {
		os.Stdout.Write(bb)
	}
}

func Hex(b []byte) string { return hex.EncodeToString(b) }

// Sha256Hex is how long observations are compared: both sides hash the same canonical bytes.
func Sha256Hex(b []byte) string {
	h := sha256.Sum256(b)
	return hex.EncodeToString(h[:])
}
func Unhex(s string) []byte {
	b, err := hex.DecodeString(s)
	if err != nil {
		panic(err)
	}
	return b
}

// Safely runs f, converting a panic into (true, message).
func Safely(f func()) (panicked bool, msg string) {
	defer func() {
		if r := recover(); r != nil {
			panicked = true
			msg = fmt.Sprint(r)
		}
	}()
	f()
	return
}
