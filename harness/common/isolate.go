package common

import (
	"bufio"
	"bytes"
	"fmt"
	"os"
	"os/exec"
	"strings"
	"syscall"
	"time"
)

// ChildLoop is the body of `-mode child`: one request per stdin line, one reply line per request.
// The address space is capped so a hostile length field kills only this child.
func ChildLoop(memMB uint64, handler func(line string) string) {
	lim := syscall.Rlimit{Cur: memMB << 20, Max: memMB << 20}
	_ = syscall.Setrlimit(syscall.RLIMIT_AS, &lim)
	in := bufio.NewReaderSize(os.Stdin, 1<<20)
	out := bufio.NewWriter(os.Stdout)
	for {
		line, err := in.ReadString('\n')
		line = strings.TrimRight(line, "\n")
		if line != "" {
			fmt.Fprintln(out, handler(line))
			out.Flush()
		}
		if err != nil {
			return
		}
	}
}

// Isolated feeds the request lines to child processes (re-executing this binary with
// `-mode child`). A request on which the child dies (OOM abort, fatal error, timeout) gets
// crashed=true and the run continues with the next request in a fresh child.
func Isolated(lines []string, perReq time.Duration) (replies []string, crashed []bool, crashMsg []string) {
	replies = make([]string, len(lines))
	crashed = make([]bool, len(lines))
	crashMsg = make([]string, len(lines))
	i := 0
	for i < len(lines) {
		cmd := exec.Command(os.Args[0], "-mode", "child")
		cmd.Stdin = strings.NewReader(strings.Join(lines[i:], "\n") + "\n")
		var stderr bytes.Buffer
		cmd.Stderr = &stderr
		stdout, _ := cmd.StdoutPipe()
		if err := cmd.Start(); err != nil {
			panic(err)
		}
		sc := bufio.NewScanner(stdout)
		sc.Buffer(make([]byte, 1<<20), 1<<28)
		got := make(chan string)
		go func() {
			for sc.Scan() {
				got <- sc.Text()
			}
			close(got)
		}()
		alive := true
		for alive && i < len(lines) {
			select {
			case s, ok := <-got:
				if !ok {
					alive = false
					break
				}
				replies[i] = s
				i++
			case <-time.After(perReq):
				_ = cmd.Process.Kill()
				alive = false
				crashMsg[i] = "timeout"
			}
		}
		_ = cmd.Process.Kill()
		_ = cmd.Wait()
		if i < len(lines) && !alive {
			// drain: the child died on request i
			crashed[i] = true
			if crashMsg[i] == "" {
				msg := stderr.String()
				if k := strings.Index(msg, "\n"); k > 0 {
					first := msg[:k]
					rest := msg[k+1:]
					if k2 := strings.Index(rest, "\n"); k2 > 0 {
						first += " | " + rest[:k2]
					}
					msg = first
				}
				crashMsg[i] = msg
			}
			i++
		}
	}
	return
}
