package main

// The fee quote is an object of the caller's: everything that can be read back from it is snapshotted (by value)
// before a change operation and compared afterwards; the fee predicates are stated with the rates as handed in.

import (
	"fmt"
	"time"

	"github.com/libsv/go-bt/v2"

	"verif/harness/feegen"
	"verif/harness/txgen"
)

type feeSnap struct {
	Present bool
	Label   bt.FeeType
	Mining  bt.FeeUnit
	Relay   bt.FeeUnit
}

type quoteSnap struct {
	Std, Data feeSnap
	Expiry    time.Time
}

func snapFee(fq *bt.FeeQuote, ft bt.FeeType) feeSnap {
	f, err := fq.Fee(ft)
	if err != nil || f == nil {
		return feeSnap{}
	}
	return feeSnap{true, f.FeeType, f.MiningFee, f.RelayFee}
}

func snapQuote(fq *bt.FeeQuote) quoteSnap {
	return quoteSnap{snapFee(fq, bt.FeeTypeStandard), snapFee(fq, bt.FeeTypeData), fq.Expiry()}
}

func (f feeSnap) String() string {
	if !f.Present {
		return "absent"
	}
	return fmt.Sprintf("{label %s mining %d/%d relay %d/%d}", f.Label, f.Mining.Satoshis, f.Mining.Bytes, f.Relay.Satoshis, f.Relay.Bytes)
}

// diff: "" when the two snapshots read the same
func (a quoteSnap) diff(b quoteSnap) string {
	s := ""
	if a.Std != b.Std {
		s += fmt.Sprintf("standard fee %v -> %v; ", a.Std, b.Std)
	}
	if a.Data != b.Data {
		s += fmt.Sprintf("data fee %v -> %v; ", a.Data, b.Data)
	}
	if !a.Expiry.Equal(b.Expiry) {
		s += fmt.Sprintf("expiry %v -> %v; ", a.Expiry, b.Expiry)
	}
	return s
}

// spec: the mining rates the live object states (what the model calls a quote)
func (a quoteSnap) spec() feegen.Quote {
	var q feegen.Quote
	if a.Std.Present {
		q.Std = &feegen.Rate{Sat: a.Std.Mining.Satoshis, Bytes: a.Std.Mining.Bytes}
	}
	if a.Data.Present {
		q.Data = &feegen.Rate{Sat: a.Data.Mining.Satoshis, Bytes: a.Data.Mining.Bytes}
	}
	return q
}

// histStep: one earlier call of a history, for the report
type histStep struct {
	Tx     interface{} `json:"tx"`
	Dest   dest        `json:"dest"`
	SameTx bool        `json:"on_the_transaction_object_of_the_previous_call,omitempty"`
}

// ---------- compact description of a transaction with very many outputs ----------

type outRun struct {
	Count  int    `json:"count"`
	Sats   uint64 `json:"sats"`
	Script string `json:"script"`
}

type compactTx struct {
	Version uint32         `json:"version"`
	Ins     []txgen.InSpec `json:"ins"`
	OutRuns []outRun       `json:"outs_run_length_encoded"`
	Lock    uint32         `json:"lock"`
}

func compact(s txgen.TxSpec) compactTx {
	ct := compactTx{Version: s.Version, Ins: s.Ins, Lock: s.Lock}
	for _, o := range s.Outs {
		if n := len(ct.OutRuns); n > 0 && ct.OutRuns[n-1].Sats == o.Sats && ct.OutRuns[n-1].Script == o.Script {
			ct.OutRuns[n-1].Count++
			continue
		}
		ct.OutRuns = append(ct.OutRuns, outRun{1, o.Sats, o.Script})
	}
	return ct
}
