package main

// Families beyond the grid of main.go:
//   zero-rate   quotes one of whose numerators is 0 (a byte class that is free) over transactions with large data
//               outputs: "0" is a rate like any other, never a stand-in for "not quoted"
//   history     several change operations with ONE quote object (different transactions, and again the transaction
//               just changed): every call is judged by the rates as first handed in, and the object must read the same
//               after every call
//   tight       destinations whose length makes the quoted fee of the final size an exact multiple of the byte unit:
//               leaving any single byte out of the size lowers the fee by a satoshi, at every rate
//   big         65534 / 65535 / 65536 existing outputs: the second boundary of the output-count varint (3 -> 5 bytes)

import (
	"fmt"

	"github.com/libsv/go-bt/v2"
	"github.com/libsv/go-bt/v2/bscript"

	"verif/harness/common"
	"verif/harness/feegen"
	"verif/harness/txgen"
)

var zeroQuotes = []feegen.Quote{
	feegen.Q(500, 1000, 0, 1000), // data bytes are free
	feegen.Q(1, 1, 0, 1),
	feegen.Q(5, 100, 0, 100),
	feegen.Q(0, 1000, 500, 1000), // only data bytes are paid for
	feegen.Q(0, 1, 0, 1),         // everything is free
}

func p2pkhOut(r *common.Rand, sats uint64) txgen.OutSpec {
	return txgen.OutSpec{Sats: sats, Script: common.Hex(feegen.P2PKH(feegen.Fill(r, 20)))}
}

// dataOut: a data output with a payload of n identical bytes (cheap to print, as long as any other)
func dataOut(r *common.Rand, sats uint64, n int) txgen.OutSpec {
	return txgen.OutSpec{Sats: sats, Script: common.Hex(feegen.Data(r.Intn(2), feegen.Repeat(byte(r.U64()), n)))}
}

func insFor(r *common.Rand, nin int) []txgen.InSpec {
	var ins []txgen.InSpec
	for i := 0; i < nin; i++ {
		ins = append(ins, feegen.InCheap(r, 0))
	}
	return ins
}

// dataHeavy: small transactions most of whose bytes are data bytes
func dataHeavy(r *common.Rand, shape int) txgen.TxSpec {
	s := txgen.TxSpec{Version: 1, Ins: insFor(r, 1+r.Intn(2))}
	big := r.Pick([]int{300, 700, 2000})
	switch shape % 4 {
	case 0:
		s.Outs = []txgen.OutSpec{p2pkhOut(r, uint64(500+r.Intn(1000))), dataOut(r, 0, big)}
	case 1:
		s.Outs = []txgen.OutSpec{dataOut(r, 0, big)}
	case 2:
		s.Outs = []txgen.OutSpec{dataOut(r, uint64(r.Intn(3)), 40), p2pkhOut(r, uint64(500+r.Intn(1000))), dataOut(r, 0, big)}
	}
	return s
}

func someDests(r *common.Rand, nout int) []dest {
	ds := dests(r, nout)
	// a large data destination as well (outside the quantifier, modelled all the same)
	ds = append(ds, dest{Kind: "script", Script: common.Hex(feegen.Data(r.Intn(2), feegen.Repeat(byte(r.U64()), r.Pick([]int{100, 1000}))))})
	return ds
}

// tightDest: a non-data destination script of a length at which the standard fee of the final estimated size is tight:
// (std bytes x sat) mod unit < sat, so one byte fewer is one satoshi fewer.  Rates of a satoshi per byte or more are
// tight everywhere.
func tightDest(s txgen.TxSpec, q feegen.Quote) (dest, bool) {
	filler := func(n int) dest { return dest{Kind: "script", Script: common.Hex(feegen.Repeat(0x51, n))} }
	if q.Std == nil || q.Std.Bytes <= 0 || q.Std.Sat <= 0 {
		return filler(25), false
	}
	const l0 = 25
	s2 := s
	s2.Outs = append(append([]txgen.OutSpec{}, s.Outs...), txgen.OutSpec{Script: filler(l0).Script})
	std0, _, ok := feegen.EstSize(s2)
	if !ok {
		return filler(l0), false
	}
	vl := func(n int) uint64 {
		if n < 0xfd {
			return 1
		}
		return 3
	}
	sat, unit := uint64(q.Std.Sat), uint64(q.Std.Bytes)
	for l := 1; l < 2*q.Std.Bytes+300 && l < 60000; l++ {
		std := std0 - l0 - vl(l0) + uint64(l) + vl(l)
		if std*sat%unit < sat || sat >= unit {
			return filler(l), true
		}
	}
	return filler(l0), false
}

func manyOuts(r *common.Rand, n int, short bool) txgen.TxSpec {
	s := txgen.TxSpec{Version: 1, Ins: insFor(r, 1+r.Intn(2))}
	o := p2pkhOut(r, uint64(1+r.Intn(3)))
	if short {
		o = txgen.OutSpec{Sats: uint64(1 + r.Intn(3)), Script: "51"}
	}
	s.Outs = make([]txgen.OutSpec, n)
	for i := range s.Outs {
		s.Outs[i] = o
	}
	return s
}

func addrDest(r *common.Rand) dest {
	addr, err := bscript.NewAddressFromPublicKeyHash(r.Bytes(20), r.Bool())
	if err != nil {
		panic(err)
	}
	as, err := bscript.NewP2PKHFromAddress(addr.AddressString)
	if err != nil {
		panic(err)
	}
	return dest{Kind: "address", Addr: addr.AddressString, Script: common.Hex(*as)}
}

func moreFamilies(r0 *common.Rand, thorough bool) []func() {
	var jobs []func()
	one := func(kind string, s txgen.TxSpec, q feegen.Quote, d dest, o opts) {
		jobs = append(jobs, func() { changeCaseX(kind, s, q, d, true, o) })
	}
	withAmounts := func(base txgen.TxSpec, q feegen.Quote, d dest, rel int, r *common.Rand) (txgen.TxSpec, string) {
		s := base
		s.Ins = append([]txgen.InSpec{}, base.Ins...)
		name := setAmounts(&s, q, d, rel, r)
		return s, name
	}

	// ---- zero-rate ----
	r := r0.Fork()
	for qi, q := range zeroQuotes {
		for shape := 0; shape < 4; shape++ {
			base := dataHeavy(r, shape)
			for di, d := range someDests(r, len(base.Outs)) {
				if !thorough && (qi+shape+di)%2 == 1 {
					continue
				}
				for _, rel := range []int{2, 3, 5} {
					s, name := withAmounts(base, q, d, rel, r)
					one("zero-rate/"+name, s, q, d, opts{})
				}
			}
		}
	}

	// ---- tight sizes at 1 and 252 existing outputs ----
	r = r0.Fork()
	for _, nout := range []int{1, 252} {
		for _, q := range feegen.Quotes {
			base := baseTx(r, 1+r.Intn(2), nout, false)
			d, ok := tightDest(base, q)
			if !ok {
				continue
			}
			for _, rel := range []int{2, 3} {
				s, name := withAmounts(base, q, d, rel, r)
				one("tight/"+name, s, q, d, opts{})
			}
		}
	}

	// ---- histories: one quote object, several calls ----
	r = r0.Fork()
	nH := 36
	if thorough {
		nH = 800
	}
	all := append(append([]feegen.Quote{}, feegen.Quotes...), zeroQuotes...)
	for h := 0; h < nH; h++ {
		q := all[(h+r.Intn(2))%len(all)]
		type step struct {
			s      txgen.TxSpec
			d      dest
			sameTx bool
			name   string
		}
		var steps []step
		k := 3 + r.Intn(2)
		for i := 0; i < k; i++ {
			if i > 0 && r.Chance(30) {
				// again, on the transaction object the previous call worked on
				d := []dest{addrDest(r), {Kind: "script", Script: common.Hex(feegen.P2PKH(feegen.Fill(r, 20)))}, {Kind: "existing", Index: 0}}[r.Intn(3)]
				steps = append(steps, step{d: d, sameTx: true, name: "again"})
				continue
			}
			var base txgen.TxSpec
			if r.Bool() {
				base = dataHeavy(r, r.Intn(4))
			} else {
				base = baseTx(r, 1+r.Intn(2), r.Pick([]int{0, 1, 2, 3}), r.Chance(30))
			}
			ds := someDests(r, len(base.Outs))
			d := ds[r.Intn(len(ds))]
			s, name := withAmounts(base, q, d, r.Pick([]int{0, 2, 3, 5, 5}), r)
			steps = append(steps, step{s: s, d: d, name: name})
		}
		jobs = append(jobs, func() {
			fq := q.Build() // the ONE quote object of this history
			var before []histStep
			var prev *bt.Tx
			for i, st := range steps {
				o := opts{fq: fq, before: append([]histStep{}, before...)}
				if st.sameTx && prev != nil {
					o.tx, o.asIs = prev, true
				}
				if st.d.Kind == "existing" && o.tx != nil && len(o.tx.Outputs) == 0 {
					st.d = dest{Kind: "script", Script: "51"}
				}
				prev = changeCaseX(fmt.Sprintf("history/call-%d/%s", i+1, st.name), st.s, q, st.d, true, o)
				var txd interface{} = st.s
				if st.sameTx {
					txd = "the transaction object as the previous call left it"
				}
				before = append(before, histStep{Tx: txd, Dest: st.d, SameTx: st.sameTx})
			}
		})
	}

	// ---- big: the output count at its second varint boundary ----
	r = r0.Fork()
	coqBudget := 6
	if thorough {
		coqBudget = 24
	}
	bigOne := func(n int, q feegen.Quote, dkind string, rel int, wantCoq bool) {
		short := wantCoq || r.Chance(30)
		base := manyOuts(r, n, short)
		var d dest
		switch dkind {
		case "tight":
			d, _ = tightDest(base, q)
		case "address":
			d = addrDest(r)
		case "p2pkh":
			d = dest{Kind: "script", Script: common.Hex(feegen.P2PKH(feegen.Fill(r, 20)))}
		case "existing":
			d = dest{Kind: "existing", Index: uint64([]int{r.Intn(n), n - 1, 0}[r.Intn(3)])}
		}
		s, name := withAmounts(base, q, d, rel, r)
		o := opts{big: true, noCoq: true, asIs: !r.Chance(25)}
		if wantCoq && coqBudget > 0 {
			coqBudget--
			o.noCoq = false
		}
		one("big/"+name, s, q, d, o)
	}
	qs := feegen.Quotes
	if !thorough {
		for qi, q := range qs {
			bigOne(65535, q, "tight", 3, qi < 2) // the smallest change output: every byte of the fee counts
			if qi%3 == 0 {
				bigOne(65535, q, []string{"p2pkh", "address"}[qi/3%2], 2, qi == 0) // the largest remainder without change
			}
		}
		bigOne(65535, qs[2], "existing", 3, true)
		bigOne(65535, qs[7], "existing", 5, false)
		for i, n := range []int{65534, 65536} {
			bigOne(n, qs[1], "tight", 3, true)
			bigOne(n, qs[i*4], []string{"tight", "existing"}[i], 3, false)
		}
	} else {
		k := 0
		for _, n := range []int{65534, 65535, 65536} {
			for _, q := range append(append([]feegen.Quote{}, qs...), zeroQuotes[0], zeroQuotes[3]) {
				for _, dk := range []string{"tight", "p2pkh", "address", "existing"} {
					for _, rel := range []int{2, 3, 5} {
						k++
						bigOne(n, q, dk, rel, k%13 == 0)
					}
				}
			}
		}
	}
	return jobs
}
