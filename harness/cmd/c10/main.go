// c10: change calculation — cases for the Coq model (corr/C10.v) plus the property stated directly in
// Go: pre-existing outputs untouched, no value created, quoted <= fee left <= quoted + slack when change
// was added, no change only at or below dust (and then the transaction is unchanged).
package main

import (
	"bytes"
	"encoding/json"
	"fmt"
	"math/big"
	"reflect"

	"github.com/libsv/go-bt/v2"
	"github.com/libsv/go-bt/v2/bscript"

	"verif/harness/common"
	"verif/harness/feegen"
	"verif/harness/txgen"
)

var c *common.Ctx

const header = `From Coq Require Import List NArith String.
From Coq Require Import Strings.Byte.
From GoBT Require Import lib.Bytes lib.Hex model.Tx spec.FeeSpec model.Fees model.Change corr.FeeCorr corr.C10.
Import ListNotations. Local Open Scope N_scope.
`

type dest struct {
	Kind   string `json:"kind"`             // script | address | existing
	Script string `json:"script,omitempty"` // hex (script) or the decoded script (address)
	Addr   string `json:"addr,omitempty"`
	Index  uint64 `json:"index,omitempty"`
	BadAdr bool   `json:"bad_addr,omitempty"`
}

func (d dest) coq() string {
	switch d.Kind {
	case "script":
		return "(DScript " + feegen.CoqBytes(common.Unhex(d.Script)) + ")"
	case "address":
		if d.BadAdr {
			return "(DAddress None)"
		}
		return "(DAddress (Some " + feegen.CoqBytes(common.Unhex(d.Script)) + "))"
	}
	return fmt.Sprintf("(DExisting %d)", d.Index)
}

type twin struct {
	Kind  string       `json:"kind"`
	Tx    interface{}  `json:"tx"` // txgen.TxSpec; run-length encoded outputs (compactTx) for the large transactions
	Quote feegen.Quote `json:"quote"`
	Dest  dest         `json:"dest"`
	// the calls made earlier with the SAME quote object (and, where SameTx, on the same transaction object), in order
	Before []histStep `json:"earlier_calls_with_this_quote_object,omitempty"`
	Note   string     `json:"what_this_case_features,omitempty"`
}

func b2s(b bool) string { return common.CoqBool(b) }

// handedIn: the destination script object of the last Change call (the caller's: it must read the same afterwards)
var handedIn *bscript.Script

func apply(tx *bt.Tx, fq *bt.FeeQuote, d dest) error {
	handedIn = nil
	switch d.Kind {
	case "script":
		handedIn = bscript.NewFromBytes(common.Unhex(d.Script))
		return tx.Change(handedIn, fq)
	case "address":
		return tx.ChangeToAddress(d.Addr, fq)
	}
	return tx.ChangeToExistingOutput(uint(d.Index), fq)
}

// feeWithChange: the quoted fee of the estimated size the transaction would have with the change output.
func feeWithChange(s txgen.TxSpec, q feegen.Quote, d dest) (*big.Int, bool) {
	if len(s.Outs) > 1000 {
		// tens of thousands of outputs: asked twice for the same (transaction, quote, destination) - when the amounts are
		// set and when the result is judged - and each answer costs a clone of the transaction
		ks := compact(s) // the size does not depend on the amounts spent, nor on an unlocking script being nil or empty
		ks.Ins = append([]txgen.InSpec{}, s.Ins...)
		for i := range ks.Ins {
			ks.Ins[i].Sats, ks.Ins[i].UnlockNil = 0, ks.Ins[i].Unlock == ""
		}
		kb, _ := json.Marshal([]interface{}{ks, q, d})
		if v, ok := fwcMemo[string(kb)]; ok {
			return v, true
		}
		v, ok := feeWithChangeRaw(s, q, d)
		if ok {
			fwcMemo[string(kb)] = v
		}
		return v, ok
	}
	return feeWithChangeRaw(s, q, d)
}

var fwcMemo = map[string]*big.Int{}

func feeWithChangeRaw(s txgen.TxSpec, q feegen.Quote, d dest) (*big.Int, bool) {
	s2 := s
	if d.Kind != "existing" {
		s2.Outs = append(append([]txgen.OutSpec{}, s.Outs...), txgen.OutSpec{Sats: 0, Script: d.Script})
	}
	z, err := txgen.Build(s2).EstimateSizeWithTypes()
	if err != nil {
		return nil, false
	}
	return q.Quoted(z.TotalStdBytes, z.TotalDataBytes), true
}

// feeWithChangeSpec: the same fee from the size computed from the plain description (feegen.EstSize), not by the library.
func feeWithChangeSpec(s txgen.TxSpec, q feegen.Quote, d dest) (*big.Int, bool) {
	s2 := s
	if d.Kind != "existing" {
		s2.Outs = append(append([]txgen.OutSpec{}, s.Outs...), txgen.OutSpec{Sats: 0, Script: d.Script})
	}
	std, data, ok := feegen.EstSize(s2)
	if !ok {
		return nil, false
	}
	return q.Quoted(std, data), true
}

var histCount int

func changeCase(kind string, s txgen.TxSpec, q feegen.Quote, d dest, hyp bool) {
	changeCaseX(kind, s, q, d, hyp, opts{})
}

// opts: how a case differs from "a fresh transaction object, a fresh quote object, one call"
type opts struct {
	fq     *bt.FeeQuote // the caller's quote object, used before (a history); nil = a fresh one built from q
	tx     *bt.Tx       // continue on this transaction object (s is then read from it); nil = built from s
	before []histStep   // the earlier calls of the history (for the report)
	big    bool         // tens of thousands of outputs: compact report, CChangeBig (clone-free evaluation of the model)
	noCoq  bool         // Go-level predicates only (the case is still counted)
	asIs   bool         // no detour through the extended format / earlier estimates
	note   string       // what the case features (for the report)
}

func changeCaseX(kind string, s txgen.TxSpec, q feegen.Quote, d dest, hyp bool, o opts) *bt.Tx {
	var tx *bt.Tx
	if o.tx != nil {
		tx = o.tx
		s = txgen.FromTx(tx)
	} else {
		tx = txgen.Build(s)
	}
	fq := o.fq
	if fq == nil {
		fq = q.Build()
	}
	quoteBefore := snapQuote(fq)
	// every other well-formed case reaches the change operation the way a transaction reaches a wallet: decoded from
	// the extended format (its unsigned inputs then carry an empty, non-nil unlocking script)
	histCount++
	if hyp && histCount%2 == 1 && len(s.Ins) > 0 && !o.asIs {
		ok := true
		for _, in := range s.Ins {
			ok = ok && !in.PrevNil
		}
		if t2, err := bt.NewTxFromBytes(tx.ExtendedBytes()); ok && err == nil {
			tx = t2
			s = txgen.FromTx(tx)
			kind += "/decoded"
		}
	}
	// every third case the transaction object has a history: while one of its scripts had another size its
	// size and fee were estimated, then the script was put back (an in-place edit keeping the counts);
	// the change operation must work on the transaction as it is now
	histCount++
	if histCount%3 == 0 && q.Complete() && !o.asIs {
		common.Safely(func() {
			if len(tx.Outputs) > 0 && histCount%2 == 0 {
				o := tx.Outputs[len(tx.Outputs)-1]
				orig := o.LockingScript
				o.LockingScript = bscript.NewFromBytes(bytes.Repeat([]byte{0x51}, 600))
				_, _ = tx.EstimateFeesPaid(fq)
				_, _ = tx.EstimateSize()
				_, _ = tx.EstimateIsFeePaidEnough(fq)
				o.LockingScript = orig
			} else if len(tx.Inputs) > 0 {
				in := tx.Inputs[0]
				orig := in.UnlockingScript
				in.UnlockingScript = bscript.NewFromBytes(bytes.Repeat([]byte{0x51}, 300))
				_, _ = tx.EstimateFeesPaid(fq)
				_, _ = tx.EstimateSize()
				in.UnlockingScript = orig
			}
		})
		kind += "/estimated-before-an-in-place-edit"
	}
	tw := twin{Kind: kind, Tx: s, Quote: q, Dest: d, Before: o.before, Note: o.note}
	if o.big {
		tw.Tx = compact(s)
	}
	var err error
	pan, _ := common.Safely(func() { err = apply(tx, fq, d) })
	after := txgen.FromTx(tx)
	quoteAfter := snapQuote(fq)
	if after.Ins == nil {
		after.Ins = []txgen.InSpec{}
	}
	added := !reflect.DeepEqual(after.Outs, s.Outs) && !(len(after.Outs) == 0 && len(s.Outs) == 0)
	inB, outB := feegen.SumIn(s), feegen.SumOut(after)
	tin, tout := tx.TotalInputSatoshis(), tx.TotalOutputSatoshis()

	// --- the property, stated in Go ---
	site := map[string]string{"script": "Change", "address": "ChangeToAddress", "existing": "ChangeToExistingOutput"}[d.Kind]
	if !reflect.DeepEqual(insOf(after), insOf(s)) || after.Version != s.Version || after.Lock != s.Lock {
		c.Violate(site+"/inputs-touched", "inputs, version or locktime differ after the call", tw)
	}
	if (err != nil || pan) && added {
		c.Violate(site+"/error-modifies-tx", fmt.Sprintf("err %v panic %v", err, pan), tw)
	}
	// the quote and the destination script are the caller's: whatever the verdict they read the same afterwards.  (The
	// fee predicates below are stated with q, the rates as they were HANDED IN - first to the first call of a history -
	// never with what the live object says after a call.)
	if diff := quoteBefore.diff(quoteAfter); diff != "" {
		c.Violate(site+"/quote-modified", "the caller's fee quote reads differently after the call: "+diff, tw)
	}
	if handedIn != nil && common.Hex(*handedIn) != d.Script {
		c.Violate(site+"/destination-script-modified", "the caller's destination script reads "+common.Hex(*handedIn)+" after the call", tw)
	}
	if pan && hyp {
		c.Violate(site+"/panic", "the change operation panicked", tw)
	}
	if d.Kind == "existing" && d.Index >= uint64(len(s.Outs)) && d.Index < 1<<63 && (pan || err == nil) {
		c.Violate(site+"/invalid-index-not-rejected", fmt.Sprintf("index %d of %d outputs: err %v panic %v", d.Index, len(s.Outs), err, pan), tw)
	}
	if d.Kind == "existing" {
		if len(after.Outs) != len(s.Outs) {
			c.Violate(site+"/outputs-touched", "output count changed", tw)
		}
		for i := range s.Outs {
			if i < len(after.Outs) && (after.Outs[i].Script != s.Outs[i].Script || (uint64(i) != d.Index && after.Outs[i].Sats != s.Outs[i].Sats)) {
				c.Violate(site+"/outputs-touched", fmt.Sprintf("output %d differs", i), tw)
				break
			}
		}
	} else {
		if len(after.Outs) < len(s.Outs) || len(after.Outs) > len(s.Outs)+1 || !reflect.DeepEqual(after.Outs[:len(s.Outs)], append([]txgen.OutSpec{}, s.Outs...)) && len(s.Outs) > 0 {
			c.Violate(site+"/outputs-touched", "a pre-existing output differs after the call", tw)
		}
		if len(after.Outs) == len(s.Outs)+1 && after.Outs[len(s.Outs)].Script != d.Script {
			c.Violate(site+"/wrong-destination", "the appended output does not carry the destination script", tw)
		}
	}
	var estAfter *bt.TxSize
	var estErr error
	p2, _ := common.Safely(func() { estAfter, estErr = tx.EstimateSizeWithTypes() })
	var enough bool
	var enoughErr error
	p3, _ := common.Safely(func() { enough, enoughErr = tx.EstimateIsFeePaidEnough(fq) })
	if err == nil && !pan && hyp && q.Complete() {
		if outB.Cmp(inB) > 0 {
			c.Violate(site+"/value-created", fmt.Sprintf("outputs %s exceed inputs %s", outB, inB), tw)
		}
		left := new(big.Int).Sub(inB, outB)
		if !added && estErr == nil && !p2 {
			// which bytes are data bytes does not depend on whether change was added: the library's estimate of the
			// (unchanged) transaction against the size computed from its plain description
			if es, ed, ok := feegen.EstSize(txgen.FromTx(tx)); ok {
				c.Tally("independent-size-estimate/no-change")
				if es != estAfter.TotalStdBytes || ed != estAfter.TotalDataBytes {
					c.Violate("EstimateSizeWithTypes/differs-from-the-final-size", fmt.Sprintf("library %d std + %d data, final size with 107-byte unlocking scripts %d std + %d data", estAfter.TotalStdBytes, estAfter.TotalDataBytes, es, ed), tw)
				}
			}
		}
		if added && estErr == nil && !p2 {
			quoted := q.Quoted(estAfter.TotalStdBytes, estAfter.TotalDataBytes)
			slack := new(big.Int).Add(q.Quoted(9, 0), big.NewInt(9))
			if left.Cmp(quoted) < 0 {
				c.Violate(site+"/underpays", fmt.Sprintf("fee left %s < quoted %s for estimated size (%d std, %d data)", left, quoted, estAfter.TotalStdBytes, estAfter.TotalDataBytes), tw)
			}
			// the same against the size computed from the plain description of the final transaction
			if es, ed, ok := feegen.EstSize(txgen.FromTx(tx)); ok {
				c.Tally("independent-size-estimate")
				if es != estAfter.TotalStdBytes || ed != estAfter.TotalDataBytes {
					c.Violate("EstimateSizeWithTypes/differs-from-the-final-size", fmt.Sprintf("library %d std + %d data, final size with 107-byte unlocking scripts %d std + %d data", estAfter.TotalStdBytes, estAfter.TotalDataBytes, es, ed), tw)
				}
				if q2 := q.Quoted(es, ed); left.Cmp(q2) < 0 {
					c.Violate(site+"/underpays", fmt.Sprintf("fee left %s < quoted %s for the final size (%d std, %d data)", left, q2, es, ed), tw)
				}
			}
			if left.Cmp(new(big.Int).Add(quoted, slack)) > 0 {
				c.Violate(site+"/overpays", fmt.Sprintf("fee left %s > quoted %s + slack %s", left, quoted, slack), tw)
			}
			if p3 || enoughErr != nil || !enough {
				c.Violate(site+"/EstimateIsFeePaidEnough-false-after-change", fmt.Sprintf("%v %v", enough, enoughErr), tw)
			}
		}
		if !added {
			if !reflect.DeepEqual(after.Outs, s.Outs) && len(s.Outs) > 0 {
				c.Violate(site+"/no-change-but-modified", "transaction differs although no change was added", tw)
			}
			if fw, ok := feeWithChange(s, q, d); ok {
				dust := big.NewInt(int64(bt.DustLimit))
				if new(big.Int).Sub(left, fw).Cmp(dust) > 0 {
					c.Violate(site+"/burns-change", fmt.Sprintf("no change added although %s - %s exceeds the dust limit", left, fw), tw)
				}
			}
			// the same with the fee of the size computed from the plain description (data bytes = the scripts that
			// begin with OP_RETURN / OP_FALSE OP_RETURN), not with what the library estimates
			if fw, ok := feeWithChangeSpec(s, q, d); ok {
				c.Tally("independent-fee-with-change/no-change")
				if new(big.Int).Sub(left, fw).Cmp(big.NewInt(int64(bt.DustLimit))) > 0 {
					c.Violate(site+"/burns-change", fmt.Sprintf("no change added although %s - %s (the quoted fee of the final size with a change output) exceeds the dust limit", left, fw), tw)
				}
			}
		} else if fw, ok := feeWithChange(s, q, d); ok {
			dust := big.NewInt(int64(bt.DustLimit))
			before := new(big.Int).Sub(inB, feegen.SumOut(s))
			if new(big.Int).Sub(before, fw).Cmp(dust) <= 0 {
				c.Violate(site+"/change-below-dust", "change added although the remainder is at or below the dust limit", tw)
			}
			if fw2, ok := feeWithChangeSpec(s, q, d); ok {
				c.Tally("independent-fee-with-change/added")
				if new(big.Int).Sub(before, fw2).Cmp(dust) <= 0 {
					c.Violate(site+"/change-below-dust", fmt.Sprintf("change added although %s - %s (the quoted fee of the final size with a change output) is at or below the dust limit", before, fw2), tw)
				}
			}
		}
	}

	est := feegen.Obs(p2, estErr, "")
	if !p2 && estErr == nil {
		est = feegen.Obs(false, nil, feegen.N3(estAfter.TotalBytes, estAfter.TotalStdBytes, estAfter.TotalDataBytes))
	}
	var outs []txgen.OutSpec = after.Outs
	resObs := feegen.Obs(pan, err, b2s(added))
	if d.Kind == "address" && !pan && err != nil && feegen.ErrName(err) == "" {
		if _, aerr := bscript.NewP2PKHFromAddress(d.Addr); aerr != nil {
			resObs = "(OErr ErrBadAddress)" // the address itself does not decode
		}
	}
	coq, key := "", ""
	if !o.noCoq {
		cons := "CChange"
		if o.big {
			cons = "CChangeBig"
			c.Weigh(c.ShardBytes) // a shard of its own: the model serialises megabytes
		}
		key = feegen.CoqTx(s)
		coq = fmt.Sprintf("%s %s %s %s %s %s %s %d %d %s %s %s", cons, key, q.Coq(), d.coq(), b2s(hyp),
			resObs, outsCoq(outs), tin, tout, est, feegen.Obs(p3, enoughErr, b2s(enough)), quoteAfter.spec().Coq())
	} else {
		kb, _ := json.Marshal(tw.Tx)
		key = string(kb)
	}
	verdict := "no-change"
	if pan {
		verdict = "panic"
	} else if err != nil {
		verdict = "err:" + feegen.ErrName(err)
	} else if added {
		verdict = "added"
	}
	c.Tally(fmt.Sprintf("%s/%s/outs=%d/%s", d.Kind, kind, bucket(len(s.Outs)), verdict))
	c.Case(coq, tw, key+q.Key()+d.coq(), len(s.Ins) > 0)
	return tx
}

func insOf(s txgen.TxSpec) []txgen.InSpec {
	out := []txgen.InSpec{}
	for _, i := range s.Ins {
		if i.Unlock == "" {
			i.UnlockNil = true
		}
		out = append(out, i)
	}
	return out
}

func outsCoq(outs []txgen.OutSpec) string { return feegen.CoqOuts(outs) }

func bucket(n int) int {
	if n > 3 && n < 251 {
		return 4
	}
	if n > 254 && n < 65534 {
		return 255
	}
	return n
}

var counts = []int{0, 1, 2, 251, 252, 253, 254}

func baseTx(r *common.Rand, nin, nout int, dataOuts bool) txgen.TxSpec {
	s := txgen.TxSpec{Version: 1}
	for i := 0; i < nin; i++ {
		in := feegen.InCheap(r, 0)
		if r.Chance(20) { // already signed
			in.UnlockNil = false
			in.Unlock = common.Hex(feegen.Fill(r, r.Pick([]int{106, 107, 108})))
		}
		s.Ins = append(s.Ins, in)
	}
	o := txgen.OutSpec{Sats: uint64(500 + r.Intn(1000)), Script: common.Hex(feegen.P2PKH(feegen.Fill(r, 20)))}
	if dataOuts {
		o = txgen.OutSpec{Sats: 0, Script: common.Hex(feegen.Data(r.Intn(2), r.Bytes(r.Intn(6))))}
	}
	for i := 0; i < nout; i++ {
		s.Outs = append(s.Outs, o)
	}
	if nout > 0 && nout <= 2 && r.Bool() { // a mixed pair for the small counts
		s.Outs[0] = txgen.OutSpec{Sats: uint64(r.Intn(2000)), Script: common.Hex(feegen.Data(r.Intn(2), r.Bytes(r.Pick([]int{0, 3, 80, 300}))))}
	}
	return s
}

func dests(r *common.Rand, nout int) []dest {
	h := r.Bytes(20)
	addr, err := bscript.NewAddressFromPublicKeyHash(h, r.Bool())
	if err != nil {
		panic(err)
	}
	as, err := bscript.NewP2PKHFromAddress(addr.AddressString)
	if err != nil {
		panic(err)
	}
	ds := []dest{
		{Kind: "address", Addr: addr.AddressString, Script: common.Hex(*as)},
		{Kind: "script", Script: common.Hex(feegen.P2PKH(feegen.Fill(r, 20)))},
		{Kind: "script", Script: "51"},
		{Kind: "script", Script: common.Hex(feegen.Repeat(0x51, 200))},
		{Kind: "script", Script: common.Hex(feegen.Repeat(0x52, r.Pick([]int{252, 253, 300})))},
		{Kind: "script", Script: common.Hex(feegen.Data(r.Intn(2), r.Bytes(r.Pick([]int{0, 5, 100}))))}, // outside the quantifier, still modelled
	}
	if nout > 0 {
		ds = append(ds, dest{Kind: "existing", Index: uint64(r.Intn(nout))}, dest{Kind: "existing", Index: uint64(nout - 1)})
	}
	return ds
}

// setAmounts fixes input 0 so that inputs - outputs stands in the given relation to the fee a change
// output would require.
func setAmounts(s *txgen.TxSpec, q feegen.Quote, d dest, rel int, r *common.Rand) string {
	fw, ok := feeWithChange(*s, q, d)
	if !ok {
		return "n/a"
	}
	out := feegen.SumOut(*s).Uint64()
	fee := fw.Uint64()
	dust := uint64(bt.DustLimit)
	var target uint64
	name := ""
	switch rel {
	case 0:
		target, name = out/2, "insufficient"
		if out == 0 {
			target, name = 0, "zero"
		}
	case 1:
		target, name = out+fee, "=fee"
	case 2:
		target, name = out+fee+dust, "fee+dust"
	case 3:
		target, name = out+fee+dust+1, "fee+dust+1"
	case 4:
		target, name = out+fee-1, "fee-1"
		if fee == 0 {
			target = out
		}
	case 6:
		// inputs - outputs at and beyond 2^63: amounts are unsigned 64-bit numbers, nothing about them is signed
		target, name = out+fee+dust+[]uint64{1 << 63, 1<<63 + 4000000, 1<<64 - 1 - out - fee - dust - 1000000}[r.Intn(3)]+uint64(r.Intn(1000)), "ample-top-half"
	default:
		target, name = out+fee+dust+2+uint64(r.Intn(1000000)), "ample"
	}
	// spread over the inputs: all but the first get a small share
	rest := uint64(0)
	for i := 1; i < len(s.Ins); i++ {
		v := target / uint64(len(s.Ins)+1)
		s.Ins[i].Sats = v
		rest += v
	}
	s.Ins[0].Sats = target - rest
	return name
}

func main() {
	c = common.Parse("C10")
	c.SetHeader(header)
	c.PerShard = 50
	c.ShardBytes = 100000
	r := common.NewRand(c.Seed)
	thorough := c.Thorough() || c.Mode == "search"

	// jobs are collected first and run in a seeded shuffle so that every shard carries the same mix of
	// large (>= 251 outputs) and small transactions
	type job struct {
		kind string
		s    txgen.TxSpec
		q    feegen.Quote
		d    dest
		hyp  bool
		run  func() // a job that is more than one call (a history), or takes options
	}
	var jobs []job
	// the grid: output counts x quotes x destinations x amount relations
	for _, nout := range counts {
		for qi, q := range feegen.Quotes {
			for _, dataOuts := range []bool{false, true} {
				if dataOuts && !thorough && (qi+nout)%3 != 0 {
					continue
				}
				nin := 1 + r.Intn(3)
				base := baseTx(r, nin, nout, dataOuts)
				for di, d := range dests(r, nout) {
					rels := []int{0, 1, 2, 3, 4, 5}
					if nout <= 2 && (qi+di)%4 == 0 {
						rels = append(rels, 6) // a remainder in the upper half of the 64-bit range
					}
					if !thorough && nout > 2 {
						// quick tier, large transactions: the smallest change (and for a third also the largest no-change)
						// at the 252/253 varint boundary; away from it a rotating third of the destinations
						if nout == 252 || nout == 253 {
							rels = []int{3}
							if (qi+di)%3 == 0 {
								rels = []int{2, 3}
							}
						} else if (qi+di)%3 == 0 {
							rels = []int{[]int{1, 2, 3, 5}[(qi+di/3)%4]}
						} else {
							continue
						}
					}
					for _, rel := range rels {
						s := base
						s.Ins = append([]txgen.InSpec{}, base.Ins...)
						name := setAmounts(&s, q, d, rel, r)
						kind := "grid/" + name
						if dataOuts {
							kind = "grid-data/" + name
						}
						jobs = append(jobs, job{kind, s, q, d, true, nil})
					}
				}
			}
		}
	}
	// outside the grid: errors and odd destinations
	n := 60
	if thorough {
		n = 3000
	}
	for k := 0; k < n; k++ {
		q := feegen.Quotes[r.Intn(len(feegen.Quotes))]
		nout := r.Pick([]int{0, 1, 2, 3})
		s := baseTx(r, 1+r.Intn(3), nout, r.Chance(30))
		ds := dests(r, nout)
		d := ds[r.Intn(len(ds))]
		setAmounts(&s, q, d, 5, r)
		hyp := true
		kind := "misc"
		switch r.Intn(9) {
		case 0:
			d = dest{Kind: "address", Addr: "0OIl-not-base58", BadAdr: true}
			kind = "bad-address"
		case 1:
			d = dest{Kind: "existing", Index: uint64(nout + r.Intn(3))}
			kind = "index-out-of-range"
		case 2:
			d = dest{Kind: "existing", Index: []uint64{1 << 63, 1<<64 - 1, 1<<63 + 1}[r.Intn(3)]}
			kind, hyp = "index-wraps-negative", false
		case 3:
			s.Ins[0].PrevNil, s.Ins[0].Prev = true, ""
			kind, hyp = "nil-prev-script", false
		case 4:
			s.Ins[len(s.Ins)-1].Prev = "51"
			kind, hyp = "unsupported-prev-script", false
		case 5:
			q.Data = nil
			kind, hyp = "missing-fee-type", false
		case 6:
			q = feegen.Q(1, 0, 1, 1)
			kind, hyp = "zero-denominator", false
		case 7:
			q = feegen.Q(1<<62, 7, 1<<62+3, 5)
			kind, hyp = "fee-wrap", false
		case 8:
			if len(s.Outs) > 0 {
				s.Outs[0].Sats = 1<<64 - 5
				s.Outs = append(s.Outs, txgen.OutSpec{Sats: 10, Script: "51"})
				kind, hyp = "total-out-wrap", false
			}
		}
		jobs = append(jobs, job{kind, s, q, d, hyp, nil})
	}
	// rates that are not a whole number of satoshis per byte nor a power-of-two fraction (1/49, 31/113, 59/42 ...):
	// bytes x satoshis / bytes-unit is an exact integer for some sizes and any detour through a rounded per-byte rate
	// is off by one there; standard and data rates drawn separately
	oddRates := [][2]int{{1, 49}, {31, 113}, {59, 42}, {2, 7}, {1, 3}, {35, 100}, {7, 13}, {3, 11}}
	for oi, sr := range oddRates {
		dr := oddRates[(oi+3)%len(oddRates)]
		q := feegen.Q(sr[0], sr[1], dr[0], dr[1])
		for nout := 0; nout <= 3; nout++ {
			for nin := 1; nin <= 2; nin++ {
				base := baseTx(r, nin, nout, nout == 2)
				for di, d := range dests(r, nout) {
					if di > 2 && (oi+di)%2 == 0 {
						continue
					}
					for _, rel := range []int{2, 3, 5} {
						s := base
						s.Ins = append([]txgen.InSpec{}, base.Ins...)
						name := setAmounts(&s, q, d, rel, r)
						jobs = append(jobs, job{"odd-rate/" + name, s, q, d, true, nil})
					}
				}
			}
		}
	}
	for _, f := range moreFamilies(r, thorough) {
		jobs = append(jobs, job{run: f})
	}
	for _, f := range dataClassFamilies(r, thorough) {
		jobs = append(jobs, job{run: f})
	}
	for i := len(jobs) - 1; i > 0; i-- {
		j := r.Intn(i + 1)
		jobs[i], jobs[j] = jobs[j], jobs[i]
	}
	for _, j := range jobs {
		if j.run != nil {
			j.run()
			continue
		}
		changeCase(j.kind, j.s, j.q, j.d, j.hyp)
	}
	c.Stats.Rule = "grid: output counts {0,1,2,251,252,253,254} (identical P2PKH or data outputs; a mixed data/P2PKH pair for the small counts) x 9 quotes (1/20, 1/2, 1, 5, 50 sat/byte, unequal std/data) x 1..3 P2PKH inputs (some already signed) x destinations {address, P2PKH script, 1-byte, 200-byte, 252..300-byte, data script, existing index} x amount relations {insufficient, fee-1, =fee, fee+dust, fee+dust+1, ample, ample with a remainder of 2^63 and more} computed from the fee a change output would require (quick tier: at 252 and 253 outputs every quote x destination at fee+dust+1 (a 2-satoshi change output) and a third of them also at fee+dust (no change), at 251 and 254 a rotating third of the destinations; thorough: the full grid); plus bad address, index out of range / wrapping negative, nil or unsupported previous script, missing fee type, zero denominator, wrapping fee products and totals. every third case on a transaction object whose size and fee were estimated while one of its scripts had another size (in-place edit, counts unchanged). zero-rate: 5 quotes with a numerator 0 (data bytes free / only data bytes paid for / everything free) x transactions most of whose bytes are data bytes (300..2000-byte data outputs) x destinations (also a large data script) x {fee+dust, fee+dust+1, ample}. history: 36 (thorough 800) sequences of 3..4 change operations with ONE quote object (14 quotes incl. the zero-rate ones) over different transactions and, for a third of the steps, again on the transaction object the previous call left - every call judged by the rates as first handed in. tight: destination script lengths at which (std bytes x sat) mod unit < sat, so that one byte missing from the size is one satoshi missing from the fee at every rate, at 1 and 252 existing outputs. big: 65534 / 65535 / 65536 identical existing outputs (second boundary of the output-count varint) x 9 quotes x {tight script, P2PKH script, address, existing index} x {fee+dust, fee+dust+1, ample}: quick tier 19 of them (all 9 quotes at 65535 with a tight destination and a 2-satoshi change output), 6 also evaluated on the model without the serialise-and-reparse of Clone (CChangeBig, proofs/ChangeDirect.v), the others as Go-level predicates over the integers. data-class: which outputs are data outputs - 34 data scripts (OP_RETURN / OP_FALSE OP_RETURN followed by nothing, several pushes, a push cut short in every encoding incl. the length field itself, random bytes, non-push opcodes, a second marker) and 22 look-alikes that are not data (a push of the byte 6a, OP_FALSE then a push of 6a, OP_RETURN second / third / last, P2PKH with a hash of 6a bytes, opcodes 69 / 6b, OP_FALSE alone), each as an existing output (at a random position among 0..2 P2PKH outputs and 0..2 further shapes; data outputs carrying satoshis; also as the target index) and as the change destination, 150..700 filler bytes, x 9 quotes with unequal standard and data rates (either dearer, either free) x {fee+dust, fee+dust+1, ample}; thorough: 8 rounds with fresh lengths and fillers x 3 quotes x all three amount relations. On every successful case the library's estimated size (standard / data bytes) equals the size computed from the plain description, change or no change, and the dust decision is also judged with the fee of that size. On every case: the caller's quote object (both fee units of both fee types, labels, expiry) and destination script read the same after the call, and the quote the object states afterwards is an observable of the correspondence. distinct = distinct (tx, quote, destination); non-trivial = at least one input"
	c.Finish()
}
