package main

// data-class: WHICH outputs are data outputs.  The fee of a transaction is quoted per byte class, and the class of an
// output's script bytes is decided by how the script BEGINS (OP_RETURN, or OP_FALSE OP_RETURN) - by nothing else.
// The grid's data outputs all carry one well-formed push.  Here (shapes: feegen/datashapes.go):
//   data-tail        data outputs whose tail after the marker is anything at all: nothing, several pushes, a push cut
//                    short in every encoding (direct, PUSHDATA1/2/4; the length field itself cut short; one byte
//                    missing; a length with the top bit set), random bytes, opcodes that are no pushes, a second marker
//   lookalike        outputs that are NOT data although 6a stands where a parser or a search would find it: a push of
//                    the byte 6a, OP_FALSE then a push of 6a, OP_RETURN second / third / last, a P2PKH whose hash is made
//                    of 6a bytes, the neighbouring opcodes 69 and 6b, OP_FALSE alone
//   several of them in one transaction next to P2PKH outputs, data outputs carrying satoshis, the featured output as
//   the target of ChangeToExistingOutput,
//   dest-lookalike   the change destination itself is a look-alike (a non-data script: inside the quantifier)
//   dest-data-tail   ... or a data script with such a tail (outside the quantifier, modelled all the same)
// always with UNEQUAL standard and data rates (in both directions, and one of the two free), and scripts long enough
// that charging one at the wrong rate moves the fee by more than the slack: the fee predicates see a misclassification
// as an underpaid fee or burnt change, the size predicates and the correspondence see it byte for byte.

import (
	"verif/harness/common"
	"verif/harness/feegen"
	"verif/harness/txgen"
)

var unequalQuotes = []feegen.Quote{
	feegen.Q(1, 2, 2, 1), // data bytes four times as dear
	feegen.Q(2, 1, 1, 2), // ... four times as cheap
	feegen.Q(1, 1, 1, 4), //
	feegen.Q(500, 1000, 250, 1000),
	feegen.Q(3, 7, 11, 13),
	feegen.Q(5, 100, 50, 1),
	feegen.Q(50, 1, 1, 20),
	feegen.Q(500, 1000, 0, 1000), // data bytes free
	feegen.Q(0, 1000, 500, 1000), // only data bytes paid for
}

func shapeOut(r *common.Rand, sh feegen.ScriptShape) txgen.OutSpec {
	var sats uint64
	switch {
	case sh.Data && r.Bool(): // a data output carrying satoshis is a data output
		sats = uint64(1 + r.Intn(3000))
	case !sh.Data && !r.Chance(15): // a look-alike worth nothing is no data output either
		sats = uint64(500 + r.Intn(1000))
	}
	return txgen.OutSpec{Sats: sats, Script: common.Hex(sh.Script)}
}

// classTx: the featured shape at a random position among 0..2 P2PKH outputs and 0..2 further shapes
func classTx(r *common.Rand, featured feegen.ScriptShape, pool []feegen.ScriptShape) (txgen.TxSpec, int) {
	s := txgen.TxSpec{Version: 1, Ins: insFor(r, 1+r.Intn(2))}
	var outs []txgen.OutSpec
	for i, n := 0, r.Intn(3); i < n; i++ {
		outs = append(outs, p2pkhOut(r, uint64(500+r.Intn(1000))))
	}
	for i, n := 0, r.Intn(3); i < n; i++ {
		outs = append(outs, shapeOut(r, pool[r.Intn(len(pool))]))
	}
	at := r.Intn(len(outs) + 1)
	s.Outs = append(append(append([]txgen.OutSpec{}, outs[:at]...), shapeOut(r, featured)), outs[at:]...)
	return s, at
}

func dataClassFamilies(r0 *common.Rand, thorough bool) []func() {
	var jobs []func()
	r := r0.Fork()
	bulks := []int{150, 200, 252, 253, 300, 700}
	gen := func() (data, look []feegen.ScriptShape) {
		bulk := r.Pick(bulks)
		data, look = feegen.DataShapes(r, bulk), feegen.LookalikeShapes(r, bulk)
		for _, sh := range append(append([]feegen.ScriptShape{}, data...), look...) {
			if feegen.IsData(sh.Script) != sh.Data {
				panic("data-class generator: shape " + sh.Label + " is mislabelled") // a defect of the generator, not a finding
			}
		}
		return
	}
	add := func(group string, sh feegen.ScriptShape, base txgen.TxSpec, q feegen.Quote, d dest, rel int) {
		s := base
		s.Ins = append([]txgen.InSpec{}, base.Ins...)
		name := setAmounts(&s, q, d, rel, r)
		kind := "data-class/" + group + "/" + name
		note := sh.Label
		jobs = append(jobs, func() { changeCaseX(kind, s, q, d, true, opts{note: note}) })
	}
	rounds := 1
	if thorough {
		rounds = 8
	}
	k := 0
	for round := 0; round < rounds; round++ {
		data, look := gen()
		pool := append(append([]feegen.ScriptShape{}, data...), look...)
		// ---- the shape as an existing output ----
		for _, sh := range pool {
			group := "lookalike"
			if sh.Data {
				group = "data-tail"
			}
			nq := 2
			if thorough {
				nq = 3
			}
			for j := 0; j < nq; j++ {
				k++
				q := unequalQuotes[(k+j*4)%len(unequalQuotes)]
				base, at := classTx(r, sh, pool)
				other := (at + 1) % len(base.Outs)
				var d dest
				switch k % 6 {
				case 0:
					d = addrDest(r)
				case 1:
					d = dest{Kind: "script", Script: common.Hex(feegen.P2PKH(feegen.Fill(r, 20)))}
				case 2:
					d = dest{Kind: "existing", Index: uint64(at)}
				case 3:
					d = dest{Kind: "existing", Index: uint64(other)}
				case 4:
					d = dest{Kind: "script", Script: common.Hex(look[r.Intn(len(look))].Script)}
				default:
					d = dest{Kind: "script", Script: "51"}
				}
				// the smallest change output (every satoshi of the fee counts), the largest remainder without change, ample
				rels := []int{3}
				if k%3 == 0 {
					rels = []int{2, 3}
				} else if k%3 == 1 {
					rels = []int{5}
				}
				if thorough {
					rels = []int{2, 3, 5}
				}
				for _, rel := range rels {
					add(group, sh, base, q, d, rel)
				}
			}
		}
		// ---- the shape as the change destination ----
		for i, sh := range pool {
			if !thorough && sh.Data && i%3 != round%3 {
				continue // quick tier: every look-alike destination, a third of the data destinations
			}
			group := "dest-lookalike"
			if sh.Data {
				group = "dest-data-tail"
			}
			k++
			q := unequalQuotes[k%len(unequalQuotes)]
			var base txgen.TxSpec
			if r.Bool() {
				base, _ = classTx(r, pool[r.Intn(len(pool))], pool)
			} else {
				base = baseTx(r, 1+r.Intn(2), r.Intn(3), false)
			}
			d := dest{Kind: "script", Script: common.Hex(sh.Script)}
			rels := []int{[]int{3, 2, 3, 5}[k%4]}
			if thorough {
				rels = []int{2, 3, 5}
			}
			for _, rel := range rels {
				add(group, sh, base, q, d, rel)
			}
		}
	}
	return jobs
}
