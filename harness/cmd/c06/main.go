// c06: signature opcodes (OP_CHECKSIG(VERIFY), OP_CHECKMULTISIG(VERIFY)) accept exactly valid,
// correctly ordered signatures.
//
// Every case is built from seeded keys and a generated spending transaction; the signatures are made
// by the INDEPENDENT spec signer of harness/sigspec (script code per the specification, digest via
// the separately verified CalcInputSignatureHash, ECDSA with a chosen nonce) and never by running
// the interpreter; the expected verdict of every (signature, key) pair is the node's CPubKey::Verify
// (key validity by prefix and length, lax DER parser) on that digest. The real engine then runs with a
// recording debugger; the case is written as a
// Gallina term for coq/corr/C06.v together with the go-bk oracle tables (ParsePubKey, Parse(DER)Signature,
// Signature.Verify called directly on every (key, digest, signature) the run can ask for).
// The property is also stated directly in Go on every case: the verdict class {true, false, error}
// of the signature operation must be the one the flag table (sigspec.Predict*) specifies.
package main

import (
	"bytes"
	"fmt"
	"strings"

	"github.com/libsv/go-bk/crypto"
	"github.com/libsv/go-bt/v2"
	"github.com/libsv/go-bt/v2/bscript"
	"github.com/libsv/go-bt/v2/bscript/interpreter"
	"github.com/libsv/go-bt/v2/bscript/interpreter/scriptflag"
	"github.com/libsv/go-bt/v2/sighash"

	"verif/harness/common"
	"verif/harness/interpgen"
	sp "verif/harness/sigspec"
	"verif/harness/txgen"
)

const header = `From Coq Require Import String List NArith ZArith.
From Coq Require Import Strings.Byte.
From GoBT Require Import lib.Bytes lib.Hex model.Tx corr.C05 corr.C06.
Import ListNotations. Local Open Scope N_scope. Local Open Scope string_scope.
`

var c *common.Ctx

// ---------- the oracle tables, filled from the states the debugger is shown ----------

type verEntry struct {
	pk, sig int
	der     bool
	hash    []byte
	res     bool
}

type tableRec struct {
	interpgen.Recorder
	states  []*interpreter.State // the State handed to every AfterStep, kept for resuming
	tx      *bt.Tx
	idx     int
	blobs   [][]byte
	blobIdx map[string]int
	pub     map[int]bool
	sig     map[[2]int]bool
	sigKeys [][2]int
	pubKeys []int
	ver     []verEntry
	verSeen map[string]bool
}

func newTableRec(tx *bt.Tx, idx int) *tableRec {
	return &tableRec{tx: tx, idx: idx, blobIdx: map[string]int{}, pub: map[int]bool{}, sig: map[[2]int]bool{}, verSeen: map[string]bool{}}
}

func (t *tableRec) blob(b []byte) int {
	if i, ok := t.blobIdx[string(b)]; ok {
		return i
	}
	t.blobs = append(t.blobs, append([]byte{}, b...))
	t.blobIdx[string(b)] = len(t.blobs) - 1
	return len(t.blobs) - 1
}

func b2i(b bool) int {
	if b {
		return 1
	}
	return 0
}

// query records everything go-bk says about (pk, body) under digest hash.
func (t *tableRec) query(pk, body, hash []byte, der bool) {
	pi, si := t.blob(pk), t.blob(body)
	if _, ok := t.pub[pi]; !ok {
		_, okp := sp.ParsePub(pk)
		t.pub[pi] = okp
		t.pubKeys = append(t.pubKeys, pi)
	}
	k := [2]int{si, b2i(der)}
	if _, ok := t.sig[k]; !ok {
		_, oks := sp.ParseSig(body, der)
		t.sig[k] = oks
		t.sigKeys = append(t.sigKeys, k)
	}
	if hash == nil || !t.pub[pi] || !t.sig[k] {
		return
	}
	key := fmt.Sprintf("%d/%d/%v/%x", pi, si, der, hash)
	if t.verSeen[key] {
		return
	}
	t.verSeen[key] = true
	t.ver = append(t.ver, verEntry{pi, si, der, hash, sp.Verify(pk, hash, body, der)})
}

// opcode serialisation / the stripping rules as coded, on the debugger's view of the parsed script
func popBytes(o interpreter.ParsedOpcode) []byte {
	l := o.Length()
	out := []byte{o.Value()}
	switch l {
	case -1:
		out = append(out, byte(len(o.Data)))
	case -2:
		out = append(out, byte(len(o.Data)), byte(len(o.Data)>>8))
	case -4:
		out = append(out, byte(len(o.Data)), byte(len(o.Data)>>8), byte(len(o.Data)>>16), byte(len(o.Data)>>24))
	}
	return append(out, o.Data...)
}

// bscript.PushDataPrefix ++ data
func pushOf(d []byte) []byte {
	l := len(d)
	var out []byte
	switch {
	case l <= 75:
		out = []byte{byte(l)}
	case l <= 0xff:
		out = []byte{0x4c, byte(l)}
	case l <= 0xffff:
		out = []byte{0x4d, byte(l), byte(l >> 8)}
	default:
		out = []byte{0x4e, byte(l), byte(l >> 8), byte(l >> 16), byte(l >> 24)}
	}
	return append(out, d...)
}

// removeOpcodeByData: the opcodes whose serialisation is the push of the signature
func removeByData(ops []interpreter.ParsedOpcode, full []byte) []interpreter.ParsedOpcode {
	push := pushOf(full)
	var out []interpreter.ParsedOpcode
	for _, o := range ops {
		if bytes.Equal(popBytes(o), push) {
			continue
		}
		out = append(out, o)
	}
	return out
}

// removeOpcode(OP_CODESEPARATOR)
func removeSeps(ops []interpreter.ParsedOpcode) []interpreter.ParsedOpcode {
	var out []interpreter.ParsedOpcode
	for _, o := range ops {
		if o.Value() == 0xab {
			continue
		}
		out = append(out, o)
	}
	return out
}
func unparse(ops []interpreter.ParsedOpcode) []byte {
	var out []byte
	for _, o := range ops {
		out = append(out, popBytes(o)...)
	}
	return out
}

func (t *tableRec) digest(code []byte, ht byte) []byte {
	var h []byte
	common.Safely(func() {
		cp := t.tx.Clone()
		cp.Inputs[t.idx].PreviousTxScript = bscript.NewFromBytes(code)
		hh, err := cp.CalcInputSignatureHash(uint32(t.idx), sighash.Flag(ht))
		if err == nil {
			h = hh
		}
	})
	return h
}

func smallNum(b []byte) (int, bool) {
	if len(b) > 4 {
		return 0, false
	}
	v := 0
	for i := len(b) - 1; i >= 0; i-- {
		x := int(b[i])
		if i == len(b)-1 {
			x &= 0x7f
		}
		v = v<<8 | x
	}
	if len(b) > 0 && b[len(b)-1]&0x80 != 0 {
		v = -v
	}
	return v, true
}

func (t *tableRec) AfterStep(s *interpreter.State) {
	t.Recorder.AfterStep(s)
	if len(t.states) < 64 {
		t.states = append(t.states, s)
	}
}

func (t *tableRec) BeforeExecuteOpcode(s *interpreter.State) {
	t.Recorder.BeforeExecuteOpcode(s)
	if s.ScriptIdx >= len(s.Scripts) || s.OpcodeIdx >= len(s.Scripts[s.ScriptIdx]) || s.OpcodeIdx < 0 {
		return
	}
	op := s.Opcode().Value()
	if op < 0xac || op > 0xaf {
		return
	}
	for _, cnd := range s.CondStack {
		if cnd != 1 {
			return
		}
	}
	flags := uint32(s.Flags)
	der := flags&(sp.FStrictEnc|sp.FDERSig) != 0
	script := s.Scripts[s.ScriptIdx]
	if s.LastCodeSeparatorIdx < 0 || s.LastCodeSeparatorIdx > len(script) {
		return
	}
	sub := script[s.LastCodeSeparatorIdx:]
	st := s.DataStack
	top := func(i int) []byte { return st[len(st)-1-i] }
	if op <= 0xad {
		if len(st) < 2 {
			return
		}
		pk, full := top(0), top(1)
		if len(full) == 0 {
			return
		}
		ht, body := full[len(full)-1], full[:len(full)-1]
		code := sub
		if !(flags&sp.FForkID != 0 && ht&0x40 != 0) {
			code = removeSeps(removeByData(sub, full))
		}
		t.query(pk, body, t.digest(unparse(code), ht), der)
		return
	}
	if len(st) < 1 {
		return
	}
	n, ok := smallNum(top(0))
	if !ok || n < 0 || n+2 > len(st) {
		return
	}
	m, ok := smallNum(top(n + 1))
	if !ok || m < 0 || m > n || n+2+m > len(st) {
		return
	}
	keys := make([][]byte, n) // pop order
	for i := 0; i < n; i++ {
		keys[i] = top(1 + i)
	}
	sigs := make([][]byte, m)
	for i := 0; i < m; i++ {
		sigs[i] = top(n + 2 + i)
	}
	code := sub
	for _, full := range sigs {
		if flags&sp.FForkID != 0 && len(full) > 0 && full[len(full)-1]&0x40 != 0 {
			continue
		}
		code = removeByData(code, full)
	}
	hashes := map[byte][]byte{}
	for i, full := range sigs {
		if len(full) == 0 {
			continue
		}
		ht, body := full[len(full)-1], full[:len(full)-1]
		if _, ok := hashes[ht]; !ok {
			sigCode := code
			if !(flags&sp.FForkID != 0 && ht&0x40 != 0) {
				sigCode = removeSeps(code)
			}
			hashes[ht] = t.digest(unparse(sigCode), ht)
		}
		for j := i; j <= i+(n-m) && j < n; j++ {
			t.query(keys[j], body, hashes[ht], der)
		}
	}
}

func coqList(xs []string) string {
	if len(xs) == 0 {
		return "[]"
	}
	out := "["
	for i, x := range xs {
		if i > 0 {
			out += "; "
		}
		out += x
	}
	return out + "]"
}

func (t *tableRec) coq() string {
	var bl, pu, si, ve []string
	for _, b := range t.blobs {
		bl = append(bl, common.CoqBytes(b))
	}
	for _, p := range t.pubKeys {
		pu = append(pu, fmt.Sprintf("(%d, %s)", p, common.CoqBool(t.pub[p])))
	}
	for _, k := range t.sigKeys {
		si = append(si, fmt.Sprintf("(%d, %s, %s)", k[0], common.CoqBool(k[1] == 1), common.CoqBool(t.sig[k])))
	}
	for _, v := range t.ver {
		ve = append(ve, fmt.Sprintf("(%d, %d, %s, %s, %s)", v.pk, v.sig, common.CoqBool(v.der), common.CoqBytes(v.hash), common.CoqBool(v.res)))
	}
	return coqList(bl) + " " + coqList(pu) + " " + coqList(si) + " " + coqList(ve)
}

// ---------- a case under construction ----------

type sigReq struct {
	Signer    int  // index into keys; -1: an unrelated key
	HT        byte // hash type
	Shape     int  // sigspec.Sig*
	WrongHash bool // sign a digest with one bit flipped
	WrongCode bool // sign the digest of the script code WITHOUT honouring code separators
	Empty     bool
	Bare      bool   // the signature is the hash-type byte alone
	StripAny  bool   // sign the script code with the copies of the signature that are NOT removed left out as well (not the specification)
	CodeFrom  int    // > 0 (wrong signatures only): sign the script code that starts at this opcode index, as if a separator had been executed there
	FullLen   int    // > 0: a lax-encoded signature (R and / or S carry leading zero bytes, see Pad) of exactly this many bytes, hash type included (74..130)
	Pad       int    // sigspec.PadInR / PadInS / PadInBoth
	Raw       []byte // non-nil and non-empty: the stack item is these bytes, whatever they are (the last one is its hash type)
}

type sigOp struct {
	script int   // 0 unlock, 1 lock, 2 redeem
	at     int   // opcode index
	slots  []int // signature slots it consumes, in script order
	keys   [][]byte
	multi  bool
	verify bool
	dummy  []byte
	expect string // set for limit cases: the class the limits dictate
}

type twin struct {
	Kind   string   `json:"kind"`
	Flags  uint32   `json:"flags"`
	Unlock string   `json:"unlock"`
	Lock   string   `json:"lock"`
	Tx     string   `json:"tx_ext_hex"`
	Idx    int      `json:"idx"`
	Sats   uint64   `json:"sats"`
	Sigs   []string `json:"sigs"`
	Note   string   `json:"note,omitempty"`
}

type build struct {
	kind    string
	r       *common.Rand
	keys    []sp.Key
	other   sp.Key
	flags   uint32
	spec    txgen.TxSpec
	tx      *bt.Tx
	idx     int
	sats    uint64
	scripts [3][]sp.Op
	reqs    []sigReq
	sigs    [][]byte
	ops     []sigOp
	p2sh    bool
	note    string
	devTag  string // set by predict: go-bk's parsers and the node's disagree on a pair the reference loop examined (known deviations)
	codeTag string // set by a family whose expectation is the node's rule on a point where the library is known to differ
}

var txCounter, resumeCount int

// lateInput: newBuild puts the tested input at position >= 1 with a non-zero sequence number
var lateInput bool

func newBuild(r *common.Rand, kind string, flags uint32, nkeys int) *build {
	b := &build{kind: kind, r: r, flags: flags, other: sp.NewKey(r)}
	for i := 0; i < nkeys; i++ {
		b.keys = append(b.keys, sp.NewKey(r))
	}
	// transaction shapes rotate: 1..3 inputs, 0..3 outputs, every input index
	txCounter++
	nin, nout := 1+txCounter%3, (txCounter/3)%4
	b.idx = (txCounter / 12) % nin
	if lateInput { // the tested input is not the first and has a non-zero, non-final sequence number
		nin = 2 + txCounter%2
		b.idx = 1 + txCounter%(nin-1)
	}
	b.spec = txgen.TxSpec{Version: uint32(1 + txCounter%2), Lock: uint32(r.Intn(3)) * 499999999}
	for i := 0; i < nin; i++ {
		in := txgen.InSpec{Txid: common.Hex(r.Bytes(32)), Vout: uint32(r.Intn(4)), Seq: []uint32{0xffffffff, 0xfffffffe, 0, 5}[r.Intn(4)], PrevNil: true}
		if i != b.idx {
			in.Unlock = common.Hex(r.Bytes(r.Intn(3)))
		} else if lateInput {
			in.Seq = []uint32{0xfffffffe, 5, 0xffffffff}[txCounter%3]
		}
		b.spec.Ins = append(b.spec.Ins, in)
	}
	for i := 0; i < nout; i++ {
		b.spec.Outs = append(b.spec.Outs, txgen.OutSpec{Sats: uint64(r.Intn(100000)), Script: common.Hex(r.Bytes(r.Intn(4)))})
	}
	b.sats = []uint64{0, 1, 546, 100000, 2100000000000000}[r.Intn(5)]
	b.tx = txgen.Build(b.spec)
	return b
}

func (b *build) addSig(q sigReq) int {
	if len(q.Raw) > 0 {
		q.HT = q.Raw[len(q.Raw)-1]
	}
	if q.FullLen > 110 {
		q.Pad = sp.PadInBoth // keeps every run of zero bytes short (the Coq literals of the cases abbreviate runs of 48 equal bytes and more)
	}
	b.reqs = append(b.reqs, q)
	b.sigs = append(b.sigs, nil)
	return len(b.reqs) - 1
}

// strippedSlot: the push of the signature is removed from the script code of its operation: every
// signature that is not hashed with the FORKID digest - an empty one has no hash type at all, its
// push is OP_0.
func (b *build) strippedSlot(slot int) bool {
	q := b.reqs[slot]
	if q.Empty {
		return true
	}
	return !sp.UsesForkID(sp.Norm(b.flags), q.HT)
}

// legacyDigest: the signature is hashed with the original digest (which drops the separators).
func (b *build) legacyDigest(slot int) bool {
	return !sp.UsesForkID(sp.Norm(b.flags), b.reqs[slot].HT)
}

// specDigest: the digest a conforming signer computes for slot of operation o.
func (b *build) specDigest(o *sigOp, slot int, wrong bool) []byte {
	q := b.reqs[slot]
	ignoreSeps := wrong && q.WrongCode
	strip := map[int]bool{}
	for _, s := range o.slots {
		if b.strippedSlot(s) {
			strip[s] = true
		}
	}
	script := b.scripts[o.script]
	at := o.at
	if ignoreSeps {
		script = append([]sp.Op{}, script...)
		for i := range script {
			if script[i].Code == 0xab {
				script[i].SepExec = 2
			}
		}
	}
	if wrong && q.CodeFrom > 0 {
		from := q.CodeFrom
		if from > len(script) {
			from = len(script)
		}
		script = script[from:]
		at -= from
		if at < 0 {
			at = 0
		}
	}
	// a signature that is not made yet stands in the script with its final length: the form of its push depends on it
	sizeOf := func(s int) int { return b.reqs[s].FullLen }
	code := sp.SpecCodeSized(script, at, b.legacyDigest(slot), strip, b.sigs, wrong && q.StripAny, sizeOf)
	h, err := sp.Digest(b.flags, b.tx, b.idx, code, b.sats, q.HT)
	if err != nil {
		panic("c06: digest: " + err.Error())
	}
	return h
}

// signAll makes every signature with the spec signer.
func (b *build) signAll() {
	// signatures that need no signing are known up front: their pushes can occur in any script code
	for slot, q := range b.reqs {
		switch {
		case q.Empty:
			b.sigs[slot] = []byte{}
		case len(q.Raw) > 0:
			b.sigs[slot] = append([]byte{}, q.Raw...)
		case q.Bare:
			b.sigs[slot] = []byte{q.HT}
		}
	}
	for oi := range b.ops {
		o := &b.ops[oi]
		for _, slot := range o.slots {
			q := b.reqs[slot]
			switch {
			case q.Empty:
				b.sigs[slot] = []byte{}
				continue
			case len(q.Raw) > 0:
				b.sigs[slot] = append([]byte{}, q.Raw...)
				continue
			case q.Bare:
				b.sigs[slot] = []byte{q.HT}
				continue
			}
			h := b.specDigest(o, slot, true)
			if q.WrongHash {
				h = append([]byte{}, h...)
				h[31] ^= 1
			}
			d := b.other.D
			if q.Signer >= 0 {
				d = b.keys[q.Signer].D
			}
			var body []byte
			if q.FullLen > 0 {
				body = sp.SignPadded(b.r, d, h, q.FullLen-1, q.Pad)
				if q.Signer >= 0 && !(sp.NodeVerify(b.keys[q.Signer].Enc(sp.PKCompressed), h, body) && sp.Verify(b.keys[q.Signer].Enc(sp.PKCompressed), h, body, false)) {
					panic("c06: the spec signer produced a padded signature the lax parsers reject")
				}
			} else {
				body = sp.SignShape(b.r, d, h, q.Shape)
			}
			if q.FullLen == 0 && q.Shape == sp.SigGood && q.Signer >= 0 && !sp.Verify(b.keys[q.Signer].Enc(sp.PKCompressed), h, body, true) {
				panic("c06: the spec signer produced a signature go-bk rejects")
			}
			b.sigs[slot] = append(body, q.HT)
		}
	}
}

func (b *build) program() (unlock, lock []byte) {
	unlock = sp.Serialise(b.scripts[0], b.sigs)
	if b.p2sh {
		redeem := sp.Serialise(b.scripts[2], b.sigs)
		unlock = append(unlock, sp.P(redeem).Bytes()...)
		lock = append([]byte{0xa9, 0x14}, crypto.Hash160(redeem)...)
		lock = append(lock, 0x87)
		return
	}
	lock = sp.Serialise(b.scripts[1], b.sigs)
	return
}

// stepOf: index of the AfterStep snapshot taken after opcode at of script (0 unlock, 1 lock, 2 redeem).
func (b *build) stepOf(script, at int) int {
	nu := len(b.scripts[0])
	if b.p2sh {
		nu++
	}
	switch script {
	case 0:
		return at
	case 1:
		return nu + at
	}
	return nu + 3 + at // HASH160 <h> EQUAL, then the redeem script
}

func truthy(b []byte) bool {
	for i, x := range b {
		if x != 0 {
			return !(i == len(b)-1 && x == 0x80)
		}
	}
	return false
}

// predict: verdict class of operation o by the flag table, with the reason of a predicted error.
func (b *build) predict(o *sigOp) (cls, why string) {
	flags := sp.Norm(b.flags)
	if flags&sp.FBip143 != 0 {
		return "", "" // the BIP143 flag is outside the six flags of the property: correspondence only
	}
	der := flags&(sp.FStrictEnc|sp.FDERSig) != 0
	// the node's check of one (signature, key) pair: CPubKey::Verify on the specification's digest
	verifiesQuiet := func(slot int, pk []byte) bool {
		full := b.sigs[slot]
		if len(full) == 0 {
			return false
		}
		return sp.NodeVerify(pk, b.specDigest(o, slot, false), full[:len(full)-1])
	}
	// the same for a pair the reference algorithm examines; notes where go-bk's parsers answer differently
	verifies := func(slot int, pk []byte) bool {
		full := b.sigs[slot]
		if len(full) == 0 {
			return false
		}
		node := verifiesQuiet(slot, pk)
		if lib := sp.Verify(pk, b.specDigest(o, slot, false), full[:len(full)-1], der); lib != node {
			if !sp.NodePubKeyValid(pk) {
				b.devTag = "key-with-unknown-prefix-usable-without-strictenc"
			} else {
				b.devTag = "signature-parser-stricter-than-lax-der-without-der-flags"
			}
		}
		return node
	}
	if !o.multi {
		full, pk := b.sigs[o.slots[0]], o.keys[0]
		// the encodings of signature and key are checked first; an empty signature is well encoded
		if why := sp.SigEncodingWhy(flags, full); why != "" {
			return sp.ClsError, why
		}
		if sp.PubKeyEncodingError(flags, pk) {
			return sp.ClsError, "pubkey-encoding"
		}
		if len(full) == 0 {
			return sp.ClsFalse, ""
		}
		if verifies(o.slots[0], pk) {
			return sp.ClsTrue, ""
		}
		if flags&sp.FNullFail != 0 {
			return sp.ClsError, "nullfail"
		}
		return sp.ClsFalse, ""
	}
	// the reference algorithm: from the last signature / last key backwards
	n, m := len(o.keys), len(o.slots)
	if o.expect != "" {
		return o.expect, "limit"
	}
	if flags&sp.FGenesis == 0 && n > 20 {
		return sp.ClsError, "pubkey-count"
	}
	isig, ikey := m-1, n-1
	nsig, nkey := m, n
	success := true
	for success && nsig > 0 {
		full, pk := b.sigs[o.slots[isig]], o.keys[ikey]
		if why := sp.SigEncodingWhy(flags, full); why != "" {
			return sp.ClsError, why
		}
		if sp.PubKeyEncodingError(flags, pk) {
			return sp.ClsError, "pubkey-encoding"
		}
		if verifies(o.slots[isig], pk) {
			isig--
			nsig--
		}
		ikey--
		nkey--
		if nsig > nkey {
			success = false
		}
	}
	// cross-check of the harness itself: without hard errors the reference loop decides the monotone matching
	mm := sp.MonotoneMatch(m, n, func(i, j int) bool { return verifiesQuiet(o.slots[i], o.keys[j]) })
	if mm != success {
		panic("c06: reference loop and monotone matching disagree")
	}
	if !success && flags&sp.FNullFail != 0 {
		for _, s := range o.slots {
			if len(b.sigs[s]) > 0 {
				return sp.ClsError, "nullfail"
			}
		}
	}
	if flags&sp.FStrictMultiSig != 0 && len(o.dummy) != 0 {
		return sp.ClsError, "nulldummy"
	}
	if success {
		return sp.ClsTrue, ""
	}
	return sp.ClsFalse, ""
}

// forkBitWithoutFlag: some signature of o has the FORKID bit although the FORKID flag is off (the
// specification then prescribes the original digest).
func (b *build) forkBitWithoutFlag(o *sigOp) bool {
	for _, s := range o.slots {
		if f := b.sigs[s]; len(f) > 0 && f[len(f)-1]&0x40 != 0 && sp.Norm(b.flags)&sp.FForkID == 0 {
			return true
		}
	}
	return false
}

func opName(o *sigOp) string {
	n := "OP_CHECKSIG"
	if o.multi {
		n = "OP_CHECKMULTISIG"
	}
	if o.verify {
		n += "VERIFY"
	}
	return n
}

// run executes the case on the implementation, states the Go-level predicates and writes the Coq case.
func (b *build) run() {
	b.signAll()
	unlock, lock := b.program()
	b.tx.Inputs[b.idx].UnlockingScript = bscript.NewFromBytes(append([]byte{}, unlock...))
	lockS := bscript.NewFromBytes(append([]byte{}, lock...))
	if txCounter%2 == 0 {
		// what an earlier Execute, tx.From or the extended format left on the input is not what is being
		// spent now: the previous output handed to this call decides
		in := b.tx.Inputs[b.idx]
		in.PreviousTxSatoshis = b.sats ^ 0x5a5a
		if in.PreviousTxSatoshis == 0 {
			in.PreviousTxSatoshis = 7
		}
		in.PreviousTxScript = bscript.NewFromBytes([]byte{0x51, 0xac})
	}
	rec := newTableRec(b.tx, b.idx)
	var err error
	panicked, msg := common.Safely(func() {
		err = interpreter.NewEngine().Execute(
			interpreter.WithTx(b.tx, b.idx, &bt.Output{Satoshis: b.sats, LockingScript: lockS}),
			interpreter.WithFlags(scriptflag.Flag(b.flags)), interpreter.WithDebugger(rec))
	})
	obs := "ok"
	switch {
	case panicked:
		obs = "panic"
	case err != nil:
		obs = "err"
	}
	var sigHex []string
	for _, s := range b.sigs {
		sigHex = append(sigHex, common.Hex(s))
	}
	tw := twin{Kind: b.kind, Flags: b.flags, Unlock: common.Hex(unlock), Lock: common.Hex(lock), Tx: common.Hex(b.tx.ExtendedBytes()),
		Idx: b.idx, Sats: b.sats, Sigs: sigHex, Note: b.note}
	if panicked {
		c.Violate("Engine.Execute/panic", msg, tw)
	}
	// the same flag word handed over through other option lists (optionlists.go): same verdict, same run
	if !panicked {
		b.underOptionLists(tw, lock, err, rec.Snaps)
	}
	// a run resumed from any snapshot a debugger was handed after a step (interpreter.WithState) ends as the
	// uninterrupted run does: the snapshot carries everything the rest of the execution depends on, the position of the
	// last executed OP_CODESEPARATOR included (cases with a separator, a sample of the others)
	resumeCount++
	if !panicked && !b.p2sh && (strings.Contains(b.kind, "separator") || resumeCount%7 == 0) {
		for k, st := range rec.states {
			if st.IsFinished || st.ScriptIdx > 1 {
				continue
			}
			var err2 error
			tx2 := b.tx.Clone()
			p2, m2 := common.Safely(func() {
				err2 = interpreter.NewEngine().Execute(
					interpreter.WithTx(tx2, b.idx, &bt.Output{Satoshis: b.sats, LockingScript: bscript.NewFromBytes(append([]byte{}, lock...))}),
					interpreter.WithFlags(scriptflag.Flag(b.flags)), interpreter.WithState(st))
			})
			if p2 {
				c.Violate("Engine.Execute/panic", "resumed from a snapshot: "+m2, tw)
				break
			}
			if (err2 == nil) != (err == nil) {
				c.Violate("WithState/resumed-run-ends-differently", fmt.Sprintf("resumed from the AfterStep snapshot %d (script %d, opcode %d, last separator %d): %v; uninterrupted: %v", k, st.ScriptIdx, st.OpcodeIdx, st.LastCodeSeparatorIdx, err2, err), tw)
				break
			}
		}
	}
	// the Go-level statement of the property: verdict class per signature operation
	firstErr := len(rec.Snaps)
	for oi := range b.ops {
		o := &b.ops[oi]
		step := b.stepOf(o.script, o.at)
		if step > firstErr {
			break // not reached
		}
		b.devTag = ""
		want, why := b.predict(o)
		if want == "" {
			continue
		}
		got := sp.ClsError
		if len(rec.Snaps) > step {
			if o.verify {
				got = sp.ClsTrue
			} else if d := rec.Snaps[step].Data; len(d) > 0 && truthy(d[len(d)-1]) {
				got = sp.ClsTrue
			} else {
				got = sp.ClsFalse
			}
		}
		if o.verify && want == sp.ClsFalse {
			want, why = sp.ClsError, "verify"
		}
		c.Tally(b.kind + "/" + opName(o) + "=" + got)
		if got != want {
			site := opName(o) + "/"
			switch {
			case b.devTag != "":
				site += b.devTag
			case b.codeTag != "" && want == sp.ClsTrue:
				site += b.codeTag
			case want == sp.ClsTrue && b.forkBitWithoutFlag(o):
				site += "forkid-digest-used-without-forkid-flag"
			case want == sp.ClsTrue:
				site += "valid-signatures-rejected"
			case got == sp.ClsTrue && want == sp.ClsError:
				site += "accepted-where-" + why + "-rule-demands-error"
			case got == sp.ClsTrue:
				site += "invalid-signatures-accepted"
			case want == sp.ClsError:
				site += "false-result-where-" + why + "-rule-demands-error"
			default:
				site += "error-where-false-result-is-specified"
			}
			c.Violate(site, fmt.Sprintf("flag table says %s, implementation: %s (%v)", want, got, err), tw)
		}
	}
	// the Coq case: the transaction as the caller built it (the unlocking script of the input and the
	// previous output are installed by the model's engine_tx, as apply does)
	spec := b.spec
	spec.Ins = append([]txgen.InSpec{}, spec.Ins...)
	spec.Ins[b.idx].Unlock = ""
	obsC := map[string]string{"ok": "ObsOk", "err": "ObsErr", "panic": "ObsPanic"}[obs]
	term := fmt.Sprintf("mkCase %s %s %d %s %d %d %s %s %d %s", common.CoqBytes(unlock), common.CoqBytes(lock), b.flags,
		txgen.Coq(spec), b.idx, b.sats, rec.coq(), obsC, len(rec.Snaps), common.CoqStr(interpgen.TraceHash(rec.Snaps)))
	key := fmt.Sprintf("%x/%x/%d/%x/%d/%d", unlock, lock, b.flags, b.tx.Bytes(), b.idx, b.sats)
	c.Case(term, tw, key, len(rec.ver) > 0 || len(rec.sigKeys) > 0)
}

// ---------- case families ----------

var forkTypes = []byte{0x41, 0x42, 0x43, 0xc1, 0xc2, 0xc3}
var legacyTypes = []byte{0x01, 0x02, 0x03, 0x81, 0x82, 0x83}
var oddTypes = []byte{0x00, 0x04, 0x44, 0x50, 0x21}

func matchingType(flags uint32, i int) byte {
	if flags&sp.FForkID != 0 {
		return forkTypes[i%6]
	}
	return legacyTypes[i%6]
}

// checksig: <sig> | <pk> OP_CHECKSIG(VERIFY)
func checksigCase(r *common.Rand, kind string, flags uint32, ht byte, q sigReq, pkKind int, verify bool) {
	b := newBuild(r, kind, flags, 1)
	q.HT = ht
	slot := b.addSig(q)
	pk := b.keys[0].Enc(pkKind)
	b.scripts[0] = []sp.Op{sp.SigSlot(slot, nil, nil, 0)}
	op := byte(0xac)
	if verify {
		op = 0xad
	}
	b.scripts[1] = []sp.Op{sp.P(pk), sp.O(op)}
	if verify {
		b.scripts[1] = append(b.scripts[1], sp.O(0x51))
	}
	b.ops = []sigOp{{script: 1, at: 1, slots: []int{slot}, keys: [][]byte{pk}, verify: verify}}
	b.note = fmt.Sprintf("ht=%02x shape=%s pk=%s", ht, sp.SigNames[q.Shape], sp.PKNames[pkKind])
	if len(q.Raw) > 0 {
		b.note = fmt.Sprintf("signature item %x (%d bytes, hash type included) pk=%s", q.Raw, len(q.Raw), sp.PKNames[pkKind])
	}
	b.run()
}

func familyCheckSig(r *common.Rand) {
	// every defined hash type, conforming signature, tested input at position >= 1 with sequence fffffffe / 5 /
	// ffffffff, 0..3 outputs (NONE / SINGLE / ANYONECANPAY digests treat the other inputs, their sequence numbers
	// and the outputs around the tested index differently)
	lateInput = true
	for round := 0; round < 6; round++ {
		for _, ht := range append(append([]byte{}, legacyTypes...), forkTypes...) {
			flags := uint32(0)
			if ht&0x40 != 0 {
				flags = sp.FForkID
			}
			if round%2 == 1 {
				flags |= sp.FGenesis
			}
			if round >= 4 {
				flags |= sp.FStrictEnc | sp.FDERSig | sp.FLowS | sp.FNullFail
			}
			checksigCase(r, "checksig-late-input", flags, ht, sigReq{Signer: 0}, round%2, round%3 == 0)
		}
	}
	lateInput = false
	n := 0
	for era := 0; era < 2; era++ {
		for sub := 0; sub < 64; sub++ {
			flags := sp.FlagSet(sub, era == 1)
			fi := era*64 + sub
			mt := func(i int) byte { return matchingType(flags, i+fi) }
			// always: a conforming signature; its high-S twin; a hybrid key; the empty signature; a wrong key
			checksigCase(r, "checksig", flags, mt(0), sigReq{Signer: 0}, fi%2, fi%5 == 0)
			checksigCase(r, "checksig", flags, mt(1), sigReq{Signer: 0, Shape: sp.SigHighS}, sp.PKCompressed, false)
			checksigCase(r, "checksig", flags, mt(2), sigReq{Signer: 0}, sp.PKHybrid, false)
			checksigCase(r, "checksig", flags, mt(3), sigReq{Signer: 0, Empty: true}, fi%sp.NumPK, fi%7 == 0)
			checksigCase(r, "checksig", flags, mt(4), sigReq{Signer: -1}, (fi/2)%2, false)
			// the low-S boundary: S = n/2 is low, S = n/2 + 1 is not (neither verifies)
			// (quick: the two sides of the boundary alternate over the 64 flag sets with LOW_S)
			if flags&sp.FLowS != 0 && (c.Thorough() || (sub>>3+sub&3+era)%2 == 0) {
				checksigCase(r, "checksig-lows-boundary", flags, mt(5), sigReq{Signer: 0, Shape: sp.SigHalfS}, sp.PKCompressed, false)
			}
			if flags&sp.FLowS != 0 && (c.Thorough() || (sub>>3+sub&3+era)%2 == 1) {
				checksigCase(r, "checksig-lows-boundary", flags, mt(6), sigReq{Signer: 0, Shape: sp.SigHalfSPlus1}, sp.PKCompressed, false)
			}
			// a conforming signature of the OTHER hash-type family (legacy under the FORKID flag: replay protection)
			checksigCase(r, "checksig-other-family", flags, matchingType(flags^sp.FForkID, fi), sigReq{Signer: 0}, fi%2, false)
			// rotating: every signature shape, key encoding and hash type, incl. the other family's and undefined ones
			per := 3
			if c.Thorough() {
				per = 40
			}
			for j := 0; j < per; j++ {
				n++
				shape := n % sp.NumSigShapes
				pk := (n / 3) % sp.NumPK
				var ht byte
				switch k := (n / 5) % 17; {
				case k < 6:
					ht = forkTypes[k]
				case k < 12:
					ht = legacyTypes[k-6]
				default:
					ht = oddTypes[k-12]
				}
				q := sigReq{Signer: 0, Shape: shape, WrongHash: n%11 == 0, Bare: n%29 == 0}
				if n%13 == 0 {
					q.Signer = -1
				}
				checksigCase(r, "checksig-enc", flags, ht, q, pk, n%9 == 0)
			}
		}
	}
	// the BIP143 flag (not one of the six): correspondence only
	for i, f := range []uint32{sp.FStrictEnc | sp.FBip143, sp.FStrictEnc | sp.FBip143 | sp.FForkID, sp.FBip143, sp.FBip143 | sp.FForkID | sp.FGenesis} {
		for j, ht := range []byte{0x41, 0x01, 0xc3, 0x83, 0x44, 0x00} {
			checksigCase(r, "checksig-bip143", f, ht, sigReq{Signer: 0}, (i+j)%2, false)
		}
	}
}

// separator placements around a single OP_CHECKSIG, and a CHECKSIGVERIFY / CHECKSIG pair
func familySeparators(r *common.Rand) {
	type shape struct {
		name string
		mk   func(b *build, pk []byte, slot int) (script int, at int)
	}
	junk := func() []sp.Op { return []sp.Op{sp.P([]byte{0xaa, 0xbb}), sp.O(0x75)} }
	shapes := []shape{
		{"sep@0", func(b *build, pk []byte, slot int) (int, int) {
			b.scripts[1] = []sp.Op{sp.Sep(true), sp.P(pk), sp.O(0xac)}
			return 1, 2
		}},
		{"sep-between", func(b *build, pk []byte, slot int) (int, int) {
			b.scripts[1] = []sp.Op{sp.P(pk), sp.Sep(true), sp.O(0xac)}
			return 1, 2
		}},
		{"sep-after", func(b *build, pk []byte, slot int) (int, int) {
			b.scripts[1] = []sp.Op{sp.P(pk), sp.O(0xac), sp.Sep(true)}
			return 1, 1
		}},
		{"two-seps", func(b *build, pk []byte, slot int) (int, int) {
			s := append(junk(), sp.Sep(true))
			s = append(s, junk()...)
			s = append(s, sp.Sep(true), sp.P(pk), sp.O(0xac), sp.O(0x61))
			b.scripts[1] = s
			return 1, 7
		}},
		{"sep-in-untaken-if", func(b *build, pk []byte, slot int) (int, int) {
			b.scripts[1] = []sp.Op{sp.O(0x00), sp.O(0x63), sp.Sep(false), sp.O(0x68), sp.P(pk), sp.O(0xac)}
			return 1, 5
		}},
		{"sep-in-taken-if", func(b *build, pk []byte, slot int) (int, int) {
			b.scripts[1] = []sp.Op{sp.O(0x51), sp.O(0x63), sp.Sep(true), sp.O(0x68), sp.P(pk), sp.O(0xac)}
			return 1, 5
		}},
		{"sep-in-else", func(b *build, pk []byte, slot int) (int, int) {
			b.scripts[1] = []sp.Op{sp.O(0x51), sp.O(0x63), sp.O(0x61), sp.O(0x67), sp.Sep(false), sp.O(0x68), sp.Sep(true), sp.O(0x61), sp.P(pk), sp.O(0xac)}
			return 1, 9
		}},
		{"sep-in-unlock", func(b *build, pk []byte, slot int) (int, int) {
			b.scripts[0] = []sp.Op{sp.Sep(true), sp.SigSlot(slot, nil, nil, 0), sp.Sep(true)}
			b.scripts[1] = []sp.Op{sp.O(0x61), sp.P(pk), sp.O(0xac)}
			return 1, 2
		}},
		{"junk-then-sep", func(b *build, pk []byte, slot int) (int, int) {
			s := append(junk(), sp.P(pk), sp.Sep(true), sp.O(0x61), sp.O(0xac), sp.Sep(true))
			b.scripts[1] = s
			return 1, 5
		}},
	}
	modes := []uint32{sp.FForkID | sp.FStrictEnc | sp.FDERSig | sp.FLowS | sp.FNullFail, sp.FForkID, 0, sp.FDERSig | sp.FNullFail | sp.FStrictEnc}
	for si, sh := range shapes {
		for mi, f := range modes {
			for era := 0; era < 2; era++ {
				for wrong := 0; wrong < 2; wrong++ {
					flags := f
					if era == 1 {
						flags |= sp.FGenesis
					}
					b := newBuild(r, "separator/"+sh.name, flags, 1)
					slot := b.addSig(sigReq{Signer: 0, HT: matchingType(flags, si+mi+era), WrongCode: wrong == 1})
					pk := b.keys[0].Enc((si + mi) % 2)
					b.scripts[0] = []sp.Op{sp.SigSlot(slot, nil, nil, 0)}
					sc, at := sh.mk(b, pk, slot)
					b.ops = []sigOp{{script: sc, at: at, slots: []int{slot}, keys: [][]byte{pk}}}
					if wrong == 1 && bytes.Equal(b.specDigest(&b.ops[0], slot, true), b.specDigest(&b.ops[0], slot, false)) {
						continue // ignoring the separators gives the same script code here (legacy removes them anyway)
					}
					b.run()
				}
			}
		}
	}
	// <sig2> <sig1> | <pk1> CHECKSIGVERIFY CODESEPARATOR <pk2> CHECKSIG: each signature over its own script code
	for mi, f := range modes {
		for sw := 0; sw < 2; sw++ {
			b := newBuild(r, "separator/verify-then-checksig", f, 2)
			ht := matchingType(f, mi)
			s1 := b.addSig(sigReq{Signer: 0, HT: ht, WrongCode: sw == 1})
			s2 := b.addSig(sigReq{Signer: 1, HT: ht})
			pk1, pk2 := b.keys[0].Enc(0), b.keys[1].Enc(1)
			b.scripts[0] = []sp.Op{sp.SigSlot(s2, nil, nil, 0), sp.SigSlot(s1, nil, nil, 0)}
			b.scripts[1] = []sp.Op{sp.Sep(true), sp.P(pk1), sp.O(0xad), sp.Sep(true), sp.P(pk2), sp.O(0xac)}
			b.ops = []sigOp{{script: 1, at: 2, slots: []int{s1}, keys: [][]byte{pk1}, verify: true},
				{script: 1, at: 5, slots: []int{s2}, keys: [][]byte{pk2}}}
			if sw == 1 && bytes.Equal(b.specDigest(&b.ops[0], s1, true), b.specDigest(&b.ops[0], s1, false)) {
				continue
			}
			b.run()
		}
	}
	// multisig and checksig on either side of a code separator, and two multisigs: each signature over
	// its own script code; the operations must not disturb the script the later ones run and hash
	//   <sig2> <dummy> <sig1> | 1 <pk1> 1 CHECKMULTISIGVERIFY CODESEPARATOR <pk2> CHECKSIG NOP
	//   <dummy> <sig1> <sig2> | <pk2> CHECKSIGVERIFY CODESEPARATOR 1 <pk1> 1 CHECKMULTISIG NOP
	//   <dummy> <sig2> <dummy> <sig1> | 1 <pk1> 1 CHECKMULTISIGVERIFY CODESEPARATOR NOP CODESEPARATOR 1 <pk2> 1 CHECKMULTISIG
	for mi, f := range modes {
		for era := 0; era < 2; era++ {
			for shape := 0; shape < 3; shape++ {
				for sw := 0; sw < 2; sw++ {
					flags := f
					if era == 1 {
						flags |= sp.FGenesis
					}
					b := newBuild(r, fmt.Sprintf("separator/multisig-mix-%d", shape), flags, 2)
					ht := matchingType(flags, mi+shape)
					s1 := b.addSig(sigReq{Signer: 0, HT: ht})
					s2 := b.addSig(sigReq{Signer: 1, HT: ht, WrongCode: sw == 1})
					pk1, pk2 := b.keys[0].Enc(0), b.keys[1].Enc(1)
					dummy := sp.P([]byte{})
					switch shape {
					case 0:
						b.scripts[0] = []sp.Op{sp.SigSlot(s2, nil, nil, 0), dummy, sp.SigSlot(s1, nil, nil, 0)}
						b.scripts[1] = []sp.Op{sp.Num(1), sp.P(pk1), sp.Num(1), sp.O(0xaf), sp.Sep(true), sp.P(pk2), sp.O(0xac), sp.O(0x61)}
						b.ops = []sigOp{{script: 1, at: 3, slots: []int{s1}, keys: [][]byte{pk1}, multi: true, verify: true, dummy: []byte{}},
							{script: 1, at: 6, slots: []int{s2}, keys: [][]byte{pk2}}}
					case 1:
						b.scripts[0] = []sp.Op{dummy, sp.SigSlot(s2, nil, nil, 0), sp.SigSlot(s1, nil, nil, 0)}
						b.scripts[1] = []sp.Op{sp.P(pk1), sp.O(0xad), sp.Sep(true), sp.Num(1), sp.P(pk2), sp.Num(1), sp.O(0xae), sp.O(0x61)}
						b.ops = []sigOp{{script: 1, at: 1, slots: []int{s1}, keys: [][]byte{pk1}, verify: true},
							{script: 1, at: 6, slots: []int{s2}, keys: [][]byte{pk2}, multi: true, dummy: []byte{}}}
					default:
						b.scripts[0] = []sp.Op{dummy, sp.SigSlot(s2, nil, nil, 0), dummy, sp.SigSlot(s1, nil, nil, 0)}
						b.scripts[1] = []sp.Op{sp.Num(1), sp.P(pk1), sp.Num(1), sp.O(0xaf), sp.Sep(true), sp.O(0x61), sp.Sep(true), sp.Num(1), sp.P(pk2), sp.Num(1), sp.O(0xae)}
						b.ops = []sigOp{{script: 1, at: 3, slots: []int{s1}, keys: [][]byte{pk1}, multi: true, verify: true, dummy: []byte{}},
							{script: 1, at: 10, slots: []int{s2}, keys: [][]byte{pk2}, multi: true, dummy: []byte{}}}
					}
					if sw == 1 && bytes.Equal(b.specDigest(&b.ops[1], s2, true), b.specDigest(&b.ops[1], s2, false)) {
						continue
					}
					b.run()
				}
			}
		}
	}
}

// multisig: OP_0 <sigs...> | m <keys...> n OP_CHECKMULTISIG(VERIFY)
// assign[i] for signature i (script order): 0..n-1 = correct signature of key j; n = unrelated key;
// n+1 = wrong digest; n+2 = empty.
type msOpts struct {
	verify   bool
	dummy    []byte
	pkKinds  []int   // per key (default alternating compressed / uncompressed)
	shapes   []int   // per signature
	hts      []byte  // per signature
	sepAt    int     // >0: an executed OP_CODESEPARATOR before lock opcode index sepAt-1
	pre      []sp.Op // opcodes in front of the locking script
	p2sh     bool
	copies   bool // legacy: copies of the signatures inside the locking script
	expect   string
	nkRaw    []byte   // the key count as these bytes (a plain data push) instead of the small-integer opcode
	nsRaw    []byte   // the same for the signature count
	post     []sp.Op  // opcodes after the operation (and its OP_1 when verify)
	bare     []bool   // per signature: the signature is its hash-type byte alone
	sigForm  int      // push form of the signatures in the unlocking script (0: smallest)
	tag      string   // codeTag of the case
	fullLens []int    // per signature: > 0 = a lax-encoded signature of this many bytes (hash type included)
	raw      [][]byte // per signature: non-empty = the item is these bytes
}

func multisigCase(r *common.Rand, kind string, flags uint32, n int, assign []int, o msOpts) {
	m := len(assign)
	b := newBuild(r, kind, flags, n)
	var keys [][]byte
	for j := 0; j < n; j++ {
		k := j % 2
		if o.pkKinds != nil {
			k = o.pkKinds[j]
		}
		keys = append(keys, b.keys[j].Enc(k))
	}
	var slots []int
	for i, a := range assign {
		q := sigReq{HT: matchingType(flags, i)}
		if o.hts != nil {
			q.HT = o.hts[i]
		}
		if o.shapes != nil {
			q.Shape = o.shapes[i]
		}
		switch {
		case a < n:
			q.Signer = a
		case a == n:
			q.Signer = -1
		case a == n+1:
			q.Signer, q.WrongHash = i%max(n, 1), true
		default:
			q.Empty = true
		}
		if o.bare != nil && o.bare[i] {
			q.Bare, q.Empty = true, false
		}
		if o.fullLens != nil && o.fullLens[i] > 0 && !q.Empty {
			q.FullLen = o.fullLens[i]
		}
		if o.raw != nil && len(o.raw[i]) > 0 {
			q.Raw, q.Empty, q.Bare = o.raw[i], false, false
		}
		slots = append(slots, b.addSig(q))
	}
	dummy := o.dummy
	b.codeTag = o.tag
	b.scripts[0] = []sp.Op{sp.P(dummy)}
	for _, s := range slots {
		b.scripts[0] = append(b.scripts[0], sp.SigSlot(s, nil, nil, o.sigForm))
	}
	lock := append([]sp.Op{}, o.pre...)
	if o.copies {
		for _, s := range slots {
			lock = append(lock, sp.SigSlot(s, nil, nil, 0), sp.O(0x75))
		}
	}
	if o.nsRaw != nil {
		lock = append(lock, sp.PForm(o.nsRaw, sp.FormDirect))
	} else {
		lock = append(lock, sp.Num(m))
	}
	for _, k := range keys {
		lock = append(lock, sp.P(k))
	}
	if o.nkRaw != nil {
		lock = append(lock, sp.PForm(o.nkRaw, sp.FormDirect))
	} else {
		lock = append(lock, sp.Num(n))
	}
	op := byte(0xae)
	if o.verify {
		op = 0xaf
	}
	lock = append(lock, sp.O(op))
	at := len(lock) - 1
	if o.verify {
		lock = append(lock, sp.O(0x51))
	}
	lock = append(lock, o.post...)
	if o.sepAt > 0 {
		i := o.sepAt - 1
		if i > len(lock) {
			i = len(lock)
		}
		lock = append(lock[:i:i], append([]sp.Op{sp.Sep(true)}, lock[i:]...)...)
		if i <= at {
			at++
		}
	}
	si := 1
	if o.p2sh {
		b.p2sh = true
		b.scripts[2] = lock
		si = 2
	} else {
		b.scripts[1] = lock
	}
	b.ops = []sigOp{{script: si, at: at, slots: slots, keys: keys, multi: true, verify: o.verify, dummy: dummy, expect: o.expect}}
	b.note = fmt.Sprintf("%d-of-%d assign=%v", m, n, assign)
	if o.fullLens != nil {
		b.note += fmt.Sprintf(" signature lengths=%v (0: DER)", o.fullLens)
	}
	b.run()
}

func max(a, b int) int {
	if a > b {
		return a
	}
	return b
}

var msModes = []uint32{
	sp.FForkID | sp.FStrictEnc | sp.FDERSig | sp.FLowS | sp.FNullFail | sp.FStrictMultiSig,
	sp.FForkID,
	0,
	sp.FDERSig | sp.FNullFail,
}

func familyMultisigArrangements(r *common.Rand) {
	k := 0
	var rec func(n, m int, cur []int, visit func([]int))
	rec = func(n, m int, cur []int, visit func([]int)) {
		if len(cur) == m {
			visit(append([]int{}, cur...))
			return
		}
		for a := 0; a < n+3; a++ {
			rec(n, m, append(cur, a), visit)
		}
	}
	exhaustiveUpTo := 3
	if c.Thorough() {
		exhaustiveUpTo = 4
	}
	for n := 0; n <= exhaustiveUpTo; n++ {
		for m := 0; m <= n; m++ {
			rec(n, m, nil, func(a []int) {
				k++
				f := msModes[k%4]
				if k%8 >= 4 {
					f |= sp.FGenesis
				}
				multisigCase(r, fmt.Sprintf("multisig/%d-of-%d", m, n), f, n, a, msOpts{verify: k%6 == 0})
			})
		}
	}
	// n = 4 in quick, and larger n in thorough: sampled arrangements, biased towards valid orderings
	sample := func(n, m, count int) {
		for i := 0; i < count; i++ {
			k++
			a := make([]int, m)
			if r.Chance(60) {
				// an increasing choice of keys, with a few corruptions
				j := 0
				for key := 0; key < n && j < m; key++ {
					if r.Intn(n-key) < m-j {
						a[j] = key
						j++
					}
				}
				if r.Chance(40) && m > 0 {
					a[r.Intn(m)] = n + r.Intn(3)
				}
				if r.Chance(20) && m > 1 {
					x, y := r.Intn(m), r.Intn(m)
					a[x], a[y] = a[y], a[x]
				}
			} else {
				for j := range a {
					a[j] = r.Intn(n + 3)
				}
			}
			f := msModes[k%4]
			if k%8 >= 4 || n > 20 {
				f |= sp.FGenesis
			}
			multisigCase(r, fmt.Sprintf("multisig/%d-of-%d", m, n), f, n, a, msOpts{verify: k%6 == 0})
		}
	}
	if !c.Thorough() {
		for m := 0; m <= 4; m++ {
			sample(4, m, 24)
		}
	} else {
		for _, n := range []int{5, 6, 8, 12, 16, 19, 20} {
			for _, m := range []int{0, 1, 2, n / 2, n - 1, n} {
				sample(n, m, 6)
			}
		}
		sample(21, 3, 4)
	}
}

// multisig under every flag subset: null dummy, null fail, encodings at examined / unexamined positions
func familyMultisigFlags(r *common.Rand) {
	type scen struct {
		name   string
		n      int
		assign []int
		o      msOpts
	}
	scens := []scen{
		{"all-good-dummy-nonempty", 3, []int{0, 2}, msOpts{dummy: []byte{0x01}}},
		{"one-wrong-signature", 3, []int{0, 3}, msOpts{}},
		{"highS-first", 2, []int{0, 1}, msOpts{shapes: []int{sp.SigHighS, sp.SigGood}}},
		{"hybrid-last-key-examined", 2, []int{0}, msOpts{pkKinds: []int{sp.PKCompressed, sp.PKHybrid}}},
		{"hybrid-first-key-unexamined", 2, []int{1}, msOpts{pkKinds: []int{sp.PKHybrid, sp.PKCompressed}}},
		{"nonDER-first-sig-after-match", 2, []int{0, 1}, msOpts{shapes: []int{sp.SigPadR, sp.SigGood}}},
		{"nonDER-last-sig", 3, []int{0, 1}, msOpts{shapes: []int{sp.SigGood, sp.SigNegR}}},
		{"empty-sig-malformed-key", 1, []int{3}, msOpts{pkKinds: []int{sp.PKHybrid}}},
		{"zero-of-n-malformed-keys", 2, []int{}, msOpts{pkKinds: []int{sp.PKShort, sp.PKEmpty}}},
		{"other-family-hashtype", 2, []int{0, 1}, msOpts{hts: []byte{0x41, 0x01}}},
		{"unparsable-key-wellformed", 2, []int{0}, msOpts{pkKinds: []int{sp.PKCompressed, sp.PKNotOnCurve}}},
		{"all-empty", 3, []int{5, 5}, msOpts{}},
		{"trailing-garbage-sig", 2, []int{1}, msOpts{shapes: []int{sp.SigTrailing}}},
		{"undefined-hashtype", 1, []int{0}, msOpts{hts: []byte{0x44}}},
		{"mixed-families", 3, []int{0, 1, 2}, msOpts{hts: []byte{0x41, 0x01, 0xc3}, copies: false}},
	}
	per := 3
	if c.Thorough() {
		per = len(scens)
	}
	k := 0
	for era := 0; era < 2; era++ {
		for sub := 0; sub < 64; sub++ {
			flags := sp.FlagSet(sub, era == 1)
			for j := 0; j < per; j++ {
				s := scens[k%len(scens)]
				k++
				o := s.o
				o.verify = k%10 == 0
				multisigCase(r, "multisig-flags/"+s.name, flags, s.n, s.assign, o)
			}
		}
	}
}

// legacy removal of the signature from the script code: copies of the signature inside the locking script
func familyStripping(r *common.Rand) {
	forms := []struct {
		name      string
		pre, post []byte
		form      int
	}{
		{"canonical-copy", nil, nil, 0},
		{"pushdata1-copy", nil, nil, 1},
		{"pushdata2-copy", nil, nil, 2},
		{"pushdata4-copy", nil, nil, 4},
		{"embedded-copy", []byte{0xde, 0xad}, []byte{0xbe, 0xef}, 0},
		{"prefixed-copy", []byte{0x00}, nil, 0},
		{"suffixed-copy", nil, []byte{0xee, 0xff}, 0},
		{"suffixed-copy-pushdata1", nil, []byte{0xee, 0xff, 0x01, 0x02, 0x03}, 0}, // 76+ bytes: the copy is a PUSHDATA1 push
	}
	for fi, fm := range forms {
		for mi, f := range []uint32{0, sp.FDERSig | sp.FNullFail, sp.FGenesis, sp.FLowS | sp.FStrictEnc | sp.FGenesis} {
			for hi, ht := range []byte{0x01, 0x83} {
				// the copy before an executed separator (outside the script code), and inside the script code
				for inside := 0; inside < 2; inside++ {
					b := newBuild(r, "strip/"+fm.name+[]string{"-before-separator", ""}[inside], f, 1)
					slot := b.addSig(sigReq{Signer: 0, HT: ht})
					pk := b.keys[0].Enc((fi + mi + hi) % 2)
					b.scripts[0] = []sp.Op{sp.SigSlot(slot, nil, nil, 0)}
					if inside == 0 {
						b.scripts[1] = []sp.Op{sp.SigSlot(slot, fm.pre, fm.post, fm.form), sp.O(0x75), sp.Sep(true), sp.O(0x61), sp.P(pk), sp.O(0xac)}
						b.ops = []sigOp{{script: 1, at: 5, slots: []int{slot}, keys: [][]byte{pk}}}
					} else {
						b.scripts[1] = []sp.Op{sp.SigSlot(slot, fm.pre, fm.post, fm.form), sp.O(0x75), sp.O(0x61), sp.P(pk), sp.O(0xac)}
						b.ops = []sigOp{{script: 1, at: 4, slots: []int{slot}, keys: [][]byte{pk}}}
					}
					// only the exact smallest-form push of the signature is removed; any other copy (longer
					// push instruction, or a push that merely contains the signature) stays, so no signature
					// can cover it: one made over the code without the copy must be rejected
					b.reqs[slot].StripAny = fm.form != 0 || fm.pre != nil || fm.post != nil
					b.run()
				}
			}
		}
	}
	// under the FORKID digest NOTHING is removed from the script code, not even the exact push of the signature being
	// checked: a signature made over the code without its own push must be rejected — by OP_CHECKSIG and by
	// OP_CHECKMULTISIG alike — and one made over the code as it stands (it cannot contain itself, so it is a
	// different signature whose push sits in the code) is accepted
	for mi, f := range []uint32{sp.FForkID, sp.FForkID | sp.FGenesis, sp.FForkID | sp.FGenesis | sp.FNullFail | sp.FStrictEnc | sp.FDERSig} {
		for hi, ht := range []byte{0x41, 0xc3, 0x42} {
			for multi := 0; multi < 2; multi++ {
				for stripped := 0; stripped < 2; stripped++ {
					b := newBuild(r, "strip/forkid-"+[]string{"checksig", "checkmultisig"}[multi]+[]string{"-copy-of-another-signature", "-signed-without-own-push"}[stripped], f, 1)
					slot := b.addSig(sigReq{Signer: 0, HT: ht})
					pk := b.keys[0].Enc((mi + hi) % 2)
					copySlot := slot
					if stripped == 0 {
						copySlot = b.addSig(sigReq{Signer: -1, HT: ht, Bare: true}) // some other signature-shaped constant
					}
					if multi == 0 {
						b.scripts[0] = []sp.Op{sp.SigSlot(slot, nil, nil, 0)}
						b.scripts[1] = []sp.Op{sp.SigSlot(copySlot, nil, nil, 0), sp.O(0x75), sp.P(pk), sp.O(0xac)}
						b.ops = []sigOp{{script: 1, at: 3, slots: []int{slot}, keys: [][]byte{pk}}}
					} else {
						b.scripts[0] = []sp.Op{sp.O(0x00), sp.SigSlot(slot, nil, nil, 0)}
						b.scripts[1] = []sp.Op{sp.SigSlot(copySlot, nil, nil, 0), sp.O(0x75), sp.O(0x51), sp.P(pk), sp.O(0x51), sp.O(0xae)}
						b.ops = []sigOp{{script: 1, at: 5, slots: []int{slot}, keys: [][]byte{pk}, multi: true, dummy: []byte{}}}
					}
					b.reqs[slot].StripAny = stripped == 1
					b.run()
				}
			}
		}
	}
	// 2-of-2 legacy multisig with copies of both signatures in the locking script
	for mi, f := range []uint32{0, sp.FDERSig | sp.FNullFail | sp.FStrictMultiSig, sp.FGenesis} {
		multisigCase(r, "strip/multisig-copies", f, 2, []int{0, 1}, msOpts{copies: true, sepAt: 1 + mi})
		multisigCase(r, "strip/multisig-copies", f, 3, []int{0, 2}, msOpts{copies: true, hts: []byte{0x01, 0x82}})
	}
	// multisig with separators at every position of the locking script
	for _, f := range []uint32{sp.FForkID, 0, sp.FForkID | sp.FGenesis | sp.FNullFail} {
		for pos := 1; pos <= 7; pos++ {
			multisigCase(r, "separator/multisig", f, 2, []int{0, 1}, msOpts{sepAt: pos})
		}
	}
}

// limits and odd arguments
func familyLimits(r *common.Rand) {
	fk := uint32(sp.FForkID | sp.FStrictEnc | sp.FNullFail)
	one := func(n, keyIdx int) []int { return []int{keyIdx} }
	// the pre-genesis key-count limit: 20 accepted, 21 rejected; after genesis 21 is fine
	multisigCase(r, "limit/20-keys", fk, 20, one(20, 0), msOpts{})
	multisigCase(r, "limit/20-keys", 0, 20, one(20, 19), msOpts{})
	multisigCase(r, "limit/21-keys-pre-genesis", fk, 21, one(21, 20), msOpts{})
	multisigCase(r, "limit/21-keys-post-genesis", fk|sp.FGenesis, 21, one(21, 20), msOpts{})
	// the operation-count limit (500 before genesis): NOPs + the operation itself + the key count
	for _, nops := range []int{478, 479, 480} {
		pre := make([]sp.Op, nops)
		for i := range pre {
			pre[i] = sp.O(0x61)
		}
		exp := ""
		if nops+1+20 > 500 {
			exp = sp.ClsError
		}
		multisigCase(r, fmt.Sprintf("limit/opcount-%d", nops+1+20), fk, 20, one(20, 19), msOpts{pre: pre, expect: exp})
	}
	// P2SH-wrapped OP_CHECKSIG(VERIFY): the script code is the REDEEM script (the script being run), not the
	// HASH160 <h> EQUAL of the spent output; FORKID and original digests, with and without a separator in the redeem script
	for fi, f := range []uint32{sp.FBip16 | fk, sp.FBip16, sp.FBip16 | sp.FForkID, sp.FBip16 | sp.FDERSig | sp.FNullFail} {
		for hi := 0; hi < 3; hi++ {
			for sep := 0; sep < 2; sep++ {
				b := newBuild(r, "p2sh/checksig"+[]string{"", "-after-separator"}[sep], f, 1)
				slot := b.addSig(sigReq{Signer: 0, HT: matchingType(f, fi+hi)})
				pk := b.keys[0].Enc((fi + hi) % 2)
				b.p2sh = true
				b.scripts[0] = []sp.Op{sp.SigSlot(slot, nil, nil, 0)}
				if sep == 0 {
					b.scripts[2] = []sp.Op{sp.P(pk), sp.O(0xac)}
					b.ops = []sigOp{{script: 2, at: 1, slots: []int{slot}, keys: [][]byte{pk}}}
				} else {
					b.scripts[2] = []sp.Op{sp.O(0x61), sp.Sep(true), sp.P(pk), sp.O(0xac)}
					b.ops = []sigOp{{script: 2, at: 3, slots: []int{slot}, keys: [][]byte{pk}}}
				}
				b.run()
			}
		}
	}
	// P2SH-wrapped multisig
	for _, f := range []uint32{sp.FBip16 | fk, sp.FBip16, sp.FBip16 | sp.FDERSig} {
		multisigCase(r, "p2sh/2-of-3", f, 3, []int{0, 2}, msOpts{p2sh: true})
		multisigCase(r, "p2sh/2-of-3-wrong-order", f, 3, []int{2, 0}, msOpts{p2sh: true})
	}
	// hand-written argument shapes: counts that are negative, too large, non-numbers; short stacks
	raw := func(kind string, flags uint32, unlock, lock []sp.Op) {
		b := newBuild(r, kind, flags, 2)
		b.scripts[0], b.scripts[1] = unlock, lock
		b.run()
	}
	pk := func(b sp.Key) sp.Op { return sp.P(b.Enc(0)) }
	k1, k2 := sp.NewKey(r), sp.NewKey(r)
	for _, f := range []uint32{0, fk, fk | sp.FGenesis, sp.FGenesis} {
		raw("args/negative-key-count", f, []sp.Op{sp.O(0x00)}, []sp.Op{sp.O(0x00), pk(k1), sp.Num(-1), sp.O(0xae)})
		raw("args/negative-sig-count", f, []sp.Op{sp.O(0x00)}, []sp.Op{sp.Num(-1), pk(k1), sp.Num(1), sp.O(0xae)})
		raw("args/more-sigs-than-keys", f, []sp.Op{sp.O(0x00), sp.O(0x00), sp.O(0x00)}, []sp.Op{sp.Num(2), pk(k1), sp.Num(1), sp.O(0xae)})
		raw("args/key-count-exceeds-stack", f, []sp.Op{sp.O(0x00)}, []sp.Op{pk(k1), sp.Num(3), sp.O(0xae)})
		raw("args/sig-count-exceeds-stack", f, []sp.Op{}, []sp.Op{sp.Num(1), pk(k1), pk(k2), sp.Num(2), sp.O(0xae)})
		raw("args/no-dummy", f, []sp.Op{}, []sp.Op{sp.Num(0), pk(k1), sp.Num(1), sp.O(0xae)})
		raw("args/zero-of-zero", f, []sp.Op{sp.O(0x00)}, []sp.Op{sp.Num(0), sp.Num(0), sp.O(0xae)})
		raw("args/zero-of-zero-verify", f, []sp.Op{sp.O(0x00)}, []sp.Op{sp.Num(0), sp.Num(0), sp.O(0xaf), sp.O(0x51)})
		raw("args/empty-stack-multisig", f, []sp.Op{}, []sp.Op{sp.O(0xae)})
		raw("args/huge-key-count", f, []sp.Op{sp.O(0x00)}, []sp.Op{sp.P([]byte{0xff, 0xff, 0xff, 0x7f}), sp.O(0xae)})
		raw("args/five-byte-key-count", f, []sp.Op{sp.O(0x00)}, []sp.Op{sp.P([]byte{1, 0, 0, 0, 0}), sp.O(0xae)})
		raw("args/checksig-one-item", f, []sp.Op{}, []sp.Op{pk(k1), sp.O(0xac)})
		raw("args/checksig-empty-stack", f, []sp.Op{}, []sp.Op{sp.O(0xac)})
		raw("args/checksig-in-untaken-branch", f, []sp.Op{sp.O(0x51)}, []sp.Op{sp.O(0x00), sp.O(0x63), sp.O(0xac), sp.O(0xae), sp.O(0x68)})
		raw("args/checksigverify-false", f, []sp.Op{sp.O(0x00)}, []sp.Op{pk(k1), sp.O(0xad), sp.O(0x51)})
	}
}

// ---------- families for the rules repaired after the review of the signature opcodes ----------

var mandatory = uint32(sp.FBip16 | sp.FStrictEnc | sp.FForkID | sp.FLowS | sp.FNullFail)

// an empty signature does not excuse the public key: OP_CHECKSIG(VERIFY) checks its encoding first
func familyEmptySigKey(r *common.Rand) {
	flagSets := []uint32{sp.FStrictEnc, sp.FForkID, sp.FForkID | sp.FGenesis, mandatory, mandatory | sp.FGenesis, 0,
		sp.FDERSig | sp.FNullFail, sp.FStrictEnc | sp.FNullFail | sp.FGenesis}
	kinds := []int{sp.PKHybrid, sp.PKShort, sp.PKLong, sp.PKEmpty, sp.PKOneZeroByte, sp.PKBadPrefix, sp.PKPrefix05Long,
		sp.PKHybridWrongParity, sp.PKCompressed, sp.PKUncompressed, sp.PKNotOnCurve}
	for fi, f := range flagSets {
		for ki, pk := range kinds {
			for v := 0; v < 2; v++ {
				if !c.Thorough() && (fi+ki)%2 != v {
					continue // quick: OP_CHECKSIG and OP_CHECKSIGVERIFY alternate over (flag set, key encoding)
				}
				checksigCase(r, "empty-sig-key", f, matchingType(f, fi), sigReq{Signer: 0, Empty: true}, pk, v == 1)
			}
		}
	}
}

// the key count and the signature count of OP_CHECKMULTISIG are numbers of at most 4 bytes in both eras
func familyCounts(r *common.Rand) {
	fk := uint32(sp.FForkID | sp.FStrictEnc | sp.FNullFail)
	one4, one5, one9 := []byte{1, 0, 0, 0}, []byte{1, 0, 0, 0, 0}, []byte{1, 0, 0, 0, 0, 0, 0, 0, 0}
	vs := []struct {
		name   string
		nk, ns []byte
	}{{"nk5", one5, nil}, {"ns5", nil, one5}, {"both5", one5, one5}, {"both9", one9, one9}, {"nk9", one9, nil}, {"ns9", nil, one9},
		{"both4", one4, one4}, {"nk4", one4, nil}}
	k := 0
	for _, f := range []uint32{0, fk, fk | sp.FGenesis, sp.FGenesis, sp.FMinimalData, sp.FMinimalData | sp.FGenesis, mandatory | sp.FGenesis, mandatory, mandatory | sp.FGenesis | sp.FMinimalData} {
		for _, x := range vs {
			k++
			exp := ""
			if len(x.nk) > 4 || len(x.ns) > 4 || f&sp.FMinimalData != 0 {
				exp = sp.ClsError // too long in either era; 01000000 is not the minimal encoding of 1
			}
			multisigCase(r, "counts/"+x.name, f, 1, []int{0}, msOpts{nkRaw: x.nk, nsRaw: x.ns, expect: exp, verify: k%4 == 0})
		}
	}
}

// LOW_S: a strict-DER signature whose R or S is not below the group order is not "high S"; it just fails
func familyLowSRange(r *common.Rand) {
	shapes := []int{sp.SigSNm1, sp.SigSN, sp.SigSNp1, sp.SigSNp5, sp.SigRNm1SNm1, sp.SigRNSNm1, sp.SigRNp1SNm1, sp.SigRNp5SNm1, sp.SigLongRShortS}
	flagSets := []uint32{sp.FLowS, sp.FLowS | sp.FNullFail, sp.FLowS | sp.FDERSig, sp.FLowS | sp.FStrictEnc | sp.FNullFail,
		sp.FForkID | sp.FLowS | sp.FGenesis, sp.FForkID | sp.FLowS | sp.FNullFail | sp.FGenesis, sp.FDERSig, sp.FLowS | sp.FGenesis}
	for fi, f := range flagSets {
		for si, sh := range shapes {
			checksigCase(r, "lows-range", f, matchingType(f, fi+si), sigReq{Signer: 0, Shape: sh}, (fi+si)%2, (fi+si)%5 == 0)
			if (fi+si)%2 == 0 {
				multisigCase(r, "lows-range/multisig", f, 2, []int{1}, msOpts{shapes: []int{sh}})
			}
		}
	}
}

// signature removal is exact (FindAndDelete of the signature's push) and OP_CODESEPARATOR removal belongs
// to the original digest of the signature being hashed
func familyExactRemoval(r *common.Rand) {
	nopSep := []sp.Op{sp.O(0x61), sp.Sep(false)}
	untakenSep := []sp.Op{sp.O(0x00), sp.O(0x63), sp.Sep(false), sp.O(0x68)}
	empty := func(n int) int { return n + 2 }
	// (a) a one-byte "signature" 05 pushed as 01 05: its push is 01 05 (removed), not OP_5 (kept).
	//     <dummy> <05> <sigA> | <05> DROP 2 <k0> <k1> 2 CHECKMULTISIG: sigA covers the code without 01 05, then 05 is examined
	for _, f := range []uint32{sp.FDERSig, sp.FStrictEnc, sp.FLowS, sp.FDERSig | sp.FGenesis, 0, sp.FDERSig | sp.FNullFail} {
		for v, pre := range [][]sp.Op{{sp.PForm([]byte{5}, sp.FormDirect), sp.O(0x75)}, {sp.Num(5), sp.O(0x75)},
			{sp.PForm([]byte{5}, sp.FormDirect), sp.O(0x75), sp.Num(5), sp.O(0x75), sp.PForm([]byte{5}, 1), sp.O(0x75)}} {
			multisigCase(r, fmt.Sprintf("exact-removal/one-byte-signature-%d", v), f, 2, []int{empty(2), 1},
				msOpts{bare: []bool{true, false}, hts: []byte{0x05, 0x01}, sigForm: sp.FormDirect, pre: pre})
		}
	}
	// (b) an empty signature removes OP_0 opcodes and nothing else - not the separators, not the other
	//     pushes: <dummy> <> <sigA> | OP_0 DROP 2 <k0> <k1> 2 CHECKMULTISIG [NOP CODESEPARATOR]; with a
	//     malformed k0 the pair (empty, k0) is reached only if sigA verified
	for _, f := range []uint32{sp.FForkID | sp.FGenesis, sp.FForkID, sp.FStrictEnc, 0, sp.FDERSig | sp.FGenesis, sp.FStrictEnc | sp.FGenesis | sp.FNullFail, sp.FForkID | sp.FNullFail} {
		for v, post := range [][]sp.Op{nil, nopSep} {
			for k, k0 := range []int{sp.PKHybrid, sp.PKOneZeroByte, sp.PKCompressed} {
				pre := []sp.Op{sp.O(0x00), sp.O(0x75)}
				if (v+k)%2 == 1 {
					pre = append(untakenSep, pre...)
				}
				multisigCase(r, "exact-removal/empty-signature", f, 2, []int{empty(2), 1},
					msOpts{pkKinds: []int{k0, sp.PKCompressed}, pre: pre, post: post})
			}
		}
		// the report's shape: no OP_0 in the script code at all
		multisigCase(r, "exact-removal/empty-signature", f, 2, []int{empty(2), 1}, msOpts{pkKinds: []int{sp.PKOneZeroByte, sp.PKCompressed}})
	}
	// (c) FORKID flag: a signature without the FORKID bit among the signatures must not take the
	//     separators away from the digests of the others
	for _, f := range []uint32{sp.FForkID | sp.FGenesis, sp.FForkID, sp.FForkID | sp.FNullFail | sp.FGenesis, mandatory, mandatory | sp.FGenesis} {
		for v, post := range [][]sp.Op{nopSep, {sp.Sep(false)}, nil} {
			var pre []sp.Op
			if v == 2 {
				pre = untakenSep
			}
			// 2-of-2: the FORKID signature is examined first and must verify, then the legacy one is an error
			multisigCase(r, "exact-removal/mixed-families", f, 2, []int{0, 1}, msOpts{hts: []byte{0x01, 0x41}, pre: pre, post: post})
			// 2-of-3: the FORKID signature fails on the last key, verifies on the middle one
			multisigCase(r, "exact-removal/mixed-families", f, 3, []int{0, 1}, msOpts{hts: []byte{0x83, 0xc1}, pre: pre, post: post})
			// neighbour: the legacy signature is examined first
			multisigCase(r, "exact-removal/mixed-families", f, 2, []int{0, 1}, msOpts{hts: []byte{0x41, 0x01}, pre: pre, post: post})
			// neighbour: all FORKID, with the separators
			multisigCase(r, "exact-removal/mixed-families", f, 2, []int{0, 1}, msOpts{hts: []byte{0x41, 0xc2}, pre: pre, post: post})
		}
	}
}

// the unlocking script's OP_CODESEPARATOR position does not carry over into the locking script, also
// when the unlocking script ends early with a top-level OP_RETURN (after genesis)
func familyUnlockSeparator(r *common.Rand) {
	for fi, f := range []uint32{sp.FGenesis, sp.FGenesis | sp.FForkID, sp.FGenesis | mandatory, sp.FGenesis | sp.FDERSig | sp.FNullFail} {
		for extra := 0; extra < 3; extra++ {
			for kind := 0; kind < 3; kind++ { // OP_CHECKSIG, OP_CHECKSIGVERIFY, 1-of-1 OP_CHECKMULTISIG
				for wrong := 0; wrong < 3; wrong++ { // signed: the full locking script; the code from the stale offset on; the empty code
					b := newBuild(r, fmt.Sprintf("unlock-separator/extra-%d", extra), f, 1)
					pk := b.keys[0].Enc((fi + extra) % 2)
					var unlock []sp.Op
					if kind == 2 {
						unlock = append(unlock, sp.P(nil))
					}
					slot := b.addSig(sigReq{Signer: 0, HT: matchingType(f, fi+extra+kind)})
					unlock = append(unlock, sp.SigSlot(slot, nil, nil, 0))
					for i := 0; i < extra; i++ {
						unlock = append(unlock, sp.Num(1), sp.O(0x75))
					}
					unlock = append(unlock, sp.Sep(true), sp.O(0x6a))
					stale := len(unlock) - 1 // the opcode index after the separator
					var lock []sp.Op
					for i := 0; i < stale-(wrong+extra)%2; i++ {
						lock = append(lock, sp.O(0x61))
					}
					var at int
					switch kind {
					case 0:
						lock = append(lock, sp.P(pk), sp.O(0xac))
						at = len(lock) - 1
					case 1:
						lock = append(lock, sp.P(pk), sp.O(0xad), sp.O(0x51))
						at = len(lock) - 2
					default:
						lock = append(lock, sp.Num(1), sp.P(pk), sp.Num(1), sp.O(0xae))
						at = len(lock) - 1
					}
					lock = append(lock, sp.O(0x61))
					switch wrong {
					case 1:
						b.reqs[slot].CodeFrom = stale
					case 2:
						b.reqs[slot].CodeFrom = len(lock)
					}
					b.scripts[0], b.scripts[1] = unlock, lock
					b.ops = []sigOp{{script: 1, at: at, slots: []int{slot}, keys: [][]byte{pk}, verify: kind == 1, multi: kind == 2, dummy: []byte{}}}
					b.note = fmt.Sprintf("stale offset %d, signed code variant %d", stale, wrong)
					b.run()
				}
			}
		}
	}
}

// OP_CHECKMULTISIG: a signature that passes the encoding check but that go-bk cannot parse (R = 0) is
// still paired with every remaining key, and each of those keys has its encoding checked
func familyUnparsableSigKeys(r *common.Rand) {
	k := 0
	for _, f := range []uint32{sp.FStrictEnc, sp.FForkID, sp.FForkID | sp.FGenesis, sp.FStrictEnc | sp.FNullFail, sp.FStrictEnc | sp.FDERSig | sp.FGenesis, 0, sp.FDERSig, mandatory | sp.FGenesis} {
		for n := 2; n <= 4; n++ {
			for bad := -1; bad < n; bad++ {
				k++
				kinds := make([]int, n)
				for j := range kinds {
					kinds[j] = j % 2
				}
				if bad >= 0 {
					kinds[bad] = []int{sp.PKPrefix05Long, sp.PKShort, sp.PKHybrid, sp.PKOneZeroByte}[k%4]
				}
				multisigCase(r, "unparsable-sig-keys/1-of-n", f, n, []int{0}, msOpts{shapes: []int{sp.SigZeroR}, pkKinds: kinds, verify: k%7 == 0})
				if n == 3 && bad != 2 {
					// 2-of-3: a good signature for the last key, then the unparsable one against the rest
					multisigCase(r, "unparsable-sig-keys/2-of-3", f, n, []int{0, 2}, msOpts{shapes: []int{sp.SigZeroR, sp.SigGood}, pkKinds: kinds})
				}
			}
		}
	}
}

// known deviations that stay in the library: the harness states the node's rule, the driver lists the sites
func familyKnownDeviations(r *common.Rand) {
	// a 65-byte key with prefix 05: go-bk's ParsePubKey takes it for an uncompressed key, the node does not know the prefix
	for fi, f := range []uint32{0, sp.FDERSig, sp.FNullFail | sp.FDERSig, sp.FLowS | sp.FGenesis, sp.FStrictEnc, sp.FForkID | sp.FGenesis} {
		for v := 0; v < 2; v++ {
			checksigCase(r, "deviation/key-prefix-05", f, matchingType(f, fi), sigReq{Signer: 0}, sp.PKPrefix05Long, v == 1)
			multisigCase(r, "deviation/key-prefix-05", f, 2, []int{1}, msOpts{pkKinds: []int{sp.PKCompressed, sp.PKPrefix05Long}, verify: v == 1})
		}
		checksigCase(r, "deviation/key-prefix-05", f, matchingType(f, fi), sigReq{Signer: 0}, sp.PKHybridWrongParity, false)
	}
	// no DER flag at all: the node reads signatures with its lax DER parser, go-bk's ParseSignature wants exact lengths
	for fi, f := range []uint32{0, sp.FNullFail, sp.FGenesis, sp.FStrictMultiSig | sp.FGenesis, sp.FDERSig, sp.FLowS, sp.FStrictEnc | sp.FGenesis} {
		for si, sh := range []int{sp.SigSeqLenBig, sp.SigSeqLenSmall, sp.SigLongFormLen, sp.SigBadLen} {
			checksigCase(r, "deviation/lax-der", f, legacyTypes[(fi+si)%6], sigReq{Signer: 0, Shape: sh}, (fi+si)%2, (fi+si)%3 == 0)
			if (fi+si)%2 == 0 {
				multisigCase(r, "deviation/lax-der", f, 2, []int{1}, msOpts{shapes: []int{sh}, hts: []byte{legacyTypes[si]}, verify: si == 2})
			}
		}
	}
	// after genesis, original digest, opcodes after a top-level OP_RETURN: the node goes on parsing them and
	// drops each OP_CODESEPARATOR; the library keeps the tail as one blob
	tag := "original-digest-of-opcodes-after-top-level-op-return"
	tails := [][]sp.Op{{sp.Sep(false), sp.O(0x51)}, {sp.O(0x51), sp.Sep(false)}, {sp.O(0x51)}, {sp.Sep(false)}, {sp.P([]byte{0xab, 0xab}), sp.Sep(false), sp.O(0x52)}}
	for fi, f := range []uint32{sp.FGenesis, sp.FGenesis | sp.FDERSig | sp.FNullFail, sp.FGenesis | sp.FForkID} {
		for ti, tail := range tails {
			for v := 0; v < 2; v++ {
				b := newBuild(r, "deviation/after-op-return", f, 1)
				slot := b.addSig(sigReq{Signer: 0, HT: matchingType(f, fi+ti)})
				pk := b.keys[0].Enc((fi + ti) % 2)
				b.scripts[0] = []sp.Op{sp.SigSlot(slot, nil, nil, 0)}
				if v == 0 {
					b.scripts[1] = append([]sp.Op{sp.P(pk), sp.O(0xac), sp.O(0x6a)}, tail...)
				} else {
					b.scripts[1] = append([]sp.Op{sp.P(pk), sp.O(0xad), sp.O(0x51), sp.O(0x6a)}, tail...)
				}
				b.ops = []sigOp{{script: 1, at: 1, slots: []int{slot}, keys: [][]byte{pk}, verify: v == 1}}
				b.codeTag = tag
				b.run()
			}
			multisigCase(r, "deviation/after-op-return", f, 2, []int{0, 1}, msOpts{post: append([]sp.Op{sp.O(0x6a)}, tail...), tag: tag, verify: ti%2 == 1})
		}
	}
}

// familyScriptConstants: the locking script computes on its own constants (and on an operand from the unlocking
// script) before the signature opcode: <c1> <c2> OP ... <pk> OP_CHECKSIG. The script code the signature commits to
// is the spent output's script as it was given, whatever the opcodes before did with the values pushed from it.
func familyScriptConstants(r *common.Rand) {
	type tf struct {
		name string
		ops  []sp.Op // consumes two operands (second on top), leaves nothing
	}
	drop, drop2 := sp.O(0x75), sp.O(0x6d)
	tfs := []tf{
		{"XOR", []sp.Op{sp.O(0x86), drop}}, {"AND", []sp.Op{sp.O(0x84), drop}}, {"OR", []sp.Op{sp.O(0x85), drop}},
		{"INVERT", []sp.Op{sp.O(0x83), drop2}}, {"LSHIFT", []sp.Op{drop, sp.O(0x51), sp.O(0x98), drop}}, {"RSHIFT", []sp.Op{drop, sp.O(0x51), sp.O(0x99), drop}},
		{"BIN2NUM", []sp.Op{sp.O(0x81), drop2}}, {"NUM2BIN", []sp.Op{drop, sp.O(0x54), sp.O(0x80), drop}}, {"CAT", []sp.Op{sp.O(0x7e), drop}},
		{"SPLIT", []sp.Op{drop, sp.O(0x51), sp.O(0x7f), drop2}}, {"ADD", []sp.Op{sp.O(0x93), drop}}, {"SUB", []sp.Op{sp.O(0x94), drop}},
		{"1ADD", []sp.Op{sp.O(0x8b), drop2}}, {"NEGATE", []sp.Op{sp.O(0x8f), drop2}}, {"ABS", []sp.Op{sp.O(0x90), drop2}}, {"NOT", []sp.Op{sp.O(0x91), drop2}},
		{"SIZE", []sp.Op{sp.O(0x82), drop, drop2}}, {"EQUAL", []sp.Op{sp.O(0x87), drop}}, {"SWAP-XOR", []sp.Op{sp.O(0x7c), sp.O(0x86), drop}},
		{"DUP-XOR", []sp.Op{sp.O(0x76), sp.O(0x86), drop2}}, {"OVER-AND", []sp.Op{sp.O(0x78), sp.O(0x84), drop2}}, {"MIN", []sp.Op{sp.O(0xa3), drop}},
	}
	vals := [][2][]byte{{{0x01, 0x00}, {0x03, 0x00}}, {{0xde, 0xad}, {0x01, 0x12}}, {{0x81, 0x00, 0x00}, {0x7f, 0x01, 0x00}}}
	n := 0
	for _, t := range tfs {
		for vi, v := range vals {
			for place := 0; place < 3; place++ { // both constants in the locking script; first / second operand from the unlocking script
				n++
				flags := []uint32{0, sp.FForkID, sp.FForkID | sp.FGenesis, sp.FGenesis, sp.FForkID | sp.FGenesis | sp.FNullFail | sp.FStrictEnc}[n%5]
				if !c.Thorough() && (n+int(c.Seed))%3 != 0 && vi != 0 {
					continue
				}
				b := newBuild(r, "script-constants/"+t.name, flags, 1)
				slot := b.addSig(sigReq{Signer: 0, HT: matchingType(flags, n)})
				pk := b.keys[0].Enc(n % 2)
				b.scripts[0] = []sp.Op{sp.SigSlot(slot, nil, nil, 0)}
				var lock []sp.Op
				switch place {
				case 0:
					lock = []sp.Op{sp.P(v[0]), sp.P(v[1])}
				case 1:
					b.scripts[0] = append(b.scripts[0], sp.P(v[0]))
					lock = []sp.Op{sp.P(v[1])}
				case 2:
					b.scripts[0] = append(b.scripts[0], sp.P(v[1]))
					lock = []sp.Op{sp.P(v[0]), sp.O(0x7c)}
				}
				lock = append(lock, t.ops...)
				lock = append(lock, sp.P(pk), sp.O(0xac))
				b.scripts[1] = lock
				b.ops = []sigOp{{script: 1, at: len(lock) - 1, slots: []int{slot}, keys: [][]byte{pk}}}
				b.note = fmt.Sprintf("constants %x %x place=%d", v[0], v[1], place)
				b.run()
			}
		}
	}
}

// familyLongSignatures: without DERSIG / STRICTENC / LOW_S a signature may carry leading zero bytes in R or S. With its
// hash type it is then 74, 75, 76, ... bytes long: its push is a length byte up to 75 bytes and OP_PUSHDATA1 <len> from
// 76 bytes on. The original digest removes exactly THAT push from the script code, whatever its form, and no other
// push of the same bytes (76 = 0x4c, 77 = 0x4d and 78 = 0x4e are also the values of OP_PUSHDATA1 / 2 / 4). Every case
// carries a copy of the signature inside the script code; the signature is made over the code without it, so it is
// valid exactly when the specification removes the copy.
func familyLongSignatures(r *common.Rand) {
	lens := []int{74, 75, 76, 77, 78, 79, 97, 130}
	forms := []struct {
		name      string
		pre, post []byte
		form      int
	}{
		{"smallest-push-copy", nil, nil, 0},
		{"pushdata1-copy", nil, nil, 1}, // the smallest push from 76 bytes on
		{"pushdata2-copy", nil, nil, 2},
		{"pushdata4-copy", nil, nil, 4},
		{"suffixed-copy", nil, []byte{0xee}, 0},
		{"prefixed-copy", []byte{0x00}, nil, 0},
	}
	flagSets := []uint32{0, sp.FNullFail, sp.FGenesis, sp.FStrictMultiSig | sp.FNullFail | sp.FGenesis}
	drop := sp.O(0x75)
	n := 0
	one := func(kind string, flags uint32, ht byte, L int, pad int, cp func(slot int) sp.Op, opKind int) {
		b := newBuild(r, kind, flags, 2)
		slot := b.addSig(sigReq{Signer: opKind % 2, HT: ht, FullLen: L, Pad: pad, StripAny: true})
		pk0, pk1 := b.keys[0].Enc(n%2), b.keys[1].Enc((n/2)%2)
		pk := [][]byte{pk0, pk1}[opKind%2]
		switch opKind {
		case 0, 1: // <sig> | <copy> DROP <pk> CHECKSIG / CHECKSIGVERIFY 1
			b.scripts[0] = []sp.Op{sp.SigSlot(slot, nil, nil, 0)}
			b.scripts[1] = []sp.Op{cp(slot), drop, sp.P(pk), sp.O(byte(0xac + opKind))}
			if opKind == 1 {
				b.scripts[1] = append(b.scripts[1], sp.O(0x51))
			}
			b.ops = []sigOp{{script: 1, at: 3, slots: []int{slot}, keys: [][]byte{pk}, verify: opKind == 1}}
		case 2: // 0 <sig> | <copy> DROP 1 <pk> 1 CHECKMULTISIG
			b.scripts[0] = []sp.Op{sp.O(0x00), sp.SigSlot(slot, nil, nil, 0)}
			b.scripts[1] = []sp.Op{cp(slot), drop, sp.Num(1), sp.P(pk), sp.Num(1), sp.O(0xae)}
			b.ops = []sigOp{{script: 1, at: 5, slots: []int{slot}, keys: [][]byte{pk}, multi: true, dummy: []byte{}}}
		default: // 0 <sig> | 1 <pk0> <pk1> 2 CHECKMULTISIGVERIFY 1 <copy> DROP  (the copy after the operation, still in the script code)
			b.scripts[0] = []sp.Op{sp.O(0x00), sp.SigSlot(slot, nil, nil, 0)}
			b.scripts[1] = []sp.Op{sp.Num(1), sp.P(pk0), sp.P(pk1), sp.Num(2), sp.O(0xaf), sp.O(0x51), cp(slot), drop}
			b.ops = []sigOp{{script: 1, at: 4, slots: []int{slot}, keys: [][]byte{pk0, pk1}, multi: true, verify: true, dummy: []byte{}}}
		}
		b.note = fmt.Sprintf("signature of %d bytes with its hash type %02x (zero bytes in front of %s)", L, ht, []string{"R", "S", "R and S"}[b.reqs[slot].Pad])
		b.run()
	}
	per := 2
	if c.Thorough() {
		per = 8
	}
	for li, L := range lens {
		for fi, fm := range forms {
			fm := fm
			for j := 0; j < per; j++ {
				n++
				opKind := (li + fi + 2*j) % 4 // quick: OP_CHECKSIG and 1-of-1, or OP_CHECKSIGVERIFY and 1-of-2 VERIFY, alternating
				if c.Thorough() {
					opKind = j % 4
				}
				// the two hash types of a (length, form) pair are neighbours in the list: at most one of them is SINGLE
				// (whose digest, without a matching output, does not depend on the script code)
				one("long-signature/"+fm.name, flagSets[(li+fi/2+j+j/4)%4], legacyTypes[(li+fi+j)%6], L, b2i(n%5 == 0),
					func(slot int) sp.Op { return sp.SigSlot(slot, fm.pre, fm.post, fm.form) }, opKind)
			}
		}
	}
	// under the FORKID digest nothing is removed, whatever the length and the push form
	for i, L := range []int{76, 77, 78} {
		for opKind := 0; opKind < 3; opKind += 2 {
			n++
			one("long-signature/forkid-signed-without-own-push", []uint32{sp.FForkID, sp.FForkID | sp.FGenesis, sp.FForkID | sp.FNullFail}[i], forkTypes[n%6], L, sp.PadInR,
				func(slot int) sp.Op { return sp.SigSlot(slot, nil, nil, 0) }, opKind)
		}
	}
	// several signatures of one OP_CHECKMULTISIG, copies of all of them in the script code, long and DER-sized mixed:
	// the pushes of ALL of them are removed before any of them is hashed
	for fi, f := range []uint32{0, sp.FGenesis | sp.FNullFail, sp.FStrictMultiSig} {
		multisigCase(r, "long-signature/multisig-copies", f, 2, []int{0, 1}, msOpts{copies: true, fullLens: []int{77, 78}, verify: fi == 1})
		multisigCase(r, "long-signature/multisig-copies", f, 2, []int{0, 1}, msOpts{copies: true, fullLens: []int{0, 76 + fi}})
		multisigCase(r, "long-signature/multisig-copies", f, 3, []int{0, 2}, msOpts{copies: true, fullLens: []int{130 - fi, 0}, hts: []byte{0x83, 0x02}})
	}
	// with a DER flag the long signature is an encoding error - once it is examined, i.e. after the DER-sized one
	// behind it has verified over the script code without BOTH pushes (otherwise the result is false, no error)
	for fi, f := range []uint32{sp.FDERSig, sp.FStrictEnc, sp.FLowS, sp.FDERSig | sp.FGenesis, sp.FStrictEnc | sp.FLowS | sp.FGenesis | sp.FStrictMultiSig} {
		for _, L := range []int{76, 77, 78, 100} {
			if !c.Thorough() && (fi+L)%2 == 1 {
				continue
			}
			multisigCase(r, "long-signature/multisig-copies-der-flag", f, 2, []int{0, 1}, msOpts{copies: true, fullLens: []int{L, 0}, hts: []byte{legacyTypes[(fi+L)%6], legacyTypes[fi]}})
		}
	}
}

// familyShortSignatures: the null-fail rule asks whether the signature ITEM is empty - hash type included. An item
// that is its hash-type byte alone (or that byte after one or two others) is not empty, although what is left of it
// once the hash type is taken off may be; without a DER flag nothing rejects it earlier, so a failed check under
// NULLFAIL is an error, and without NULLFAIL a false result. With keys that parse, keys that do not, for
// OP_CHECKSIG(VERIFY) and OP_CHECKMULTISIG, under every subset of NULLDUMMY / NULLFAIL / FORKID in both eras and
// under the DER flags (where the encoding rule comes first).
func familyShortSignatures(r *common.Rand) {
	items := [][]byte{{0x01}, {0x41}, {0x83}, {0xc2}, {0x00}, {0x50}, {0x30, 0x01}, {0x00, 0x41}, {0x30, 0x00, 0x02}}
	var flagSets []uint32
	for sub := 0; sub < 16; sub++ {
		var f uint32
		for bit, fl := range []uint32{sp.FNullFail, sp.FForkID, sp.FGenesis, sp.FStrictMultiSig} {
			if sub>>uint(bit)&1 == 1 {
				f |= fl
			}
		}
		flagSets = append(flagSets, f)
	}
	flagSets = append(flagSets, sp.FDERSig|sp.FNullFail, sp.FStrictEnc|sp.FNullFail, sp.FLowS|sp.FNullFail|sp.FGenesis, mandatory)
	keyKinds := []int{sp.PKCompressed, sp.PKNotOnCurve, sp.PKUncompressed, sp.PKHybrid, sp.PKEmpty, sp.PKCompressed, sp.PKBadPrefix}
	n := 0
	for _, f := range flagSets {
		for _, it := range items {
			n++
			checksigCase(r, "short-signature", f, 0, sigReq{Signer: 0, Raw: it}, keyKinds[n%len(keyKinds)], n%4 == 0)
			if !c.Thorough() && n%2 == 1 {
				continue
			}
			switch (n / 2) % 3 {
			case 0: // the only signature
				multisigCase(r, "short-signature/multisig", f, 1, []int{0}, msOpts{raw: [][]byte{it}, pkKinds: []int{keyKinds[(n/6)%len(keyKinds)]}, verify: n%8 == 0})
			case 1: // examined after a signature that verified
				multisigCase(r, "short-signature/multisig", f, 2, []int{0, 1}, msOpts{raw: [][]byte{it, nil}})
			default: // examined first; the good one behind it is never looked at
				multisigCase(r, "short-signature/multisig", f, 2, []int{0, 1}, msOpts{raw: [][]byte{nil, it}})
			}
		}
	}
}

func main() {
	c = common.Parse("C06")
	c.SetHeader(header)
	c.ShardBytes = 45000
	c.PerShard = 60
	r := common.NewRand(c.Seed)
	if c.Thorough() {
		optListsPerCase = 6
	}
	familyCheckSig(r.Fork())
	familySeparators(r.Fork())
	familyMultisigArrangements(r.Fork())
	familyMultisigFlags(r.Fork())
	familyStripping(r.Fork())
	familyLimits(r.Fork())
	familyEmptySigKey(r.Fork())
	familyCounts(r.Fork())
	familyLowSRange(r.Fork())
	familyExactRemoval(r.Fork())
	familyUnlockSeparator(r.Fork())
	familyUnparsableSigKeys(r.Fork())
	familyKnownDeviations(r.Fork())
	familyScriptConstants(r.Fork())
	familyLongSignatures(r.Fork())
	familyShortSignatures(r.Fork())
	familyOptionLists(r.Fork())
	finishOptionLists()
	c.Stats.Rule = "seeded secp256k1 keys; spending transactions of 1-3 inputs x 0-3 outputs with every input index; signatures by an independent spec signer (script code walked per the specification, digest, ECDSA with chosen nonce). Families: OP_CHECKSIG(VERIFY) under all 2^6 subsets of {STRICTENC, DERSIG, LOW_S, NULLDUMMY, NULLFAIL, FORKID} x both eras with conforming / high-S / hybrid-key / empty / wrong-key signatures always and rotating 15 DER shapes x 8 key encodings x 17 hash types (6 FORKID, 6 legacy, 5 undefined); OP_CODESEPARATOR at index 0, between pushes, after the operation, doubled, in taken / untaken IF and ELSE branches, in the unlocking script, each with a signature over the specified code and one over the code that ignores separators; m-of-n multisig, every arrangement of correct-for-key-j / wrong-key / wrong-digest / empty signatures exhaustively for n <= 3 (thorough: n <= 4) and sampled above (thorough: up to 20 and 21); 15 multisig scenarios (null dummy, null fail, malformed elements at examined and unexamined positions) under every flag subset; legacy signature removal (FindAndDelete of the exact push) with smallest-form / PUSHDATA1-2-4 / embedded / prefixed / suffixed copies inside and outside the script code, one-byte signatures pushed as 01 05 next to OP_5, empty signatures with OP_0 and separators in the script code, FORKID and original-digest signatures mixed in one multisig with separators after it; key-count and operation-count limits, P2SH, malformed counts, 4- / 5- / 9-byte counts in both eras with and without MINIMALDATA; R or S = n-1, n, n+1, n+5 and a 40-byte R under LOW_S with and without NULLFAIL; empty signature with 11 key encodings under 8 flag sets for OP_CHECKSIG(VERIFY); unlocking scripts ending <sig> ... OP_CODESEPARATOR OP_RETURN after genesis (no stale separator offset in the locking script); a signature the encoding check passes and go-bk cannot parse (R = 0) against malformed keys at every position; the three deviations kept as known findings (65-byte key with prefix 05, lax DER without DER flags, opcodes after a top-level OP_RETURN in the original digest), where the expected verdict is the node's (key validity by prefix and length, ecdsa_signature_parse_der_lax re-implemented in harness/sigspec); 22 value-transforming opcode snippets run on constants pushed from the locking script (and on an operand from the unlocking script) before <pk> OP_CHECKSIG: the script code stays the spent output's script; lax-encoded valid signatures (leading zero bytes in R and / or S) of 74, 75, 76, 77, 78, 79, 97 and 130 bytes with their hash type - the push of the signature is a length byte up to 75 bytes and OP_PUSHDATA1 from 76 on - with a copy inside the script code in 6 forms (smallest push, OP_PUSHDATA1 / 2 / 4, one byte appended / prepended), signed over the code without the copy, so valid exactly when the specification removes it, for OP_CHECKSIG(VERIFY), 1-of-1 and 1-of-2 OP_CHECKMULTISIG(VERIFY), without the DER flags; the same under the FORKID digest (nothing removed); multisigs with copies of a long and a DER-sized signature, also under each DER flag, where the long one is an encoding error once it is reached; signature items of 1, 2 and 3 bytes (the hash-type byte alone: 01 41 83 c2 00 50; 30 01; 00 41; 30 00 02) under all 16 subsets of {NULLDUMMY, NULLFAIL, FORKID, genesis} and 4 flag sets with a DER flag, 7 key encodings rotating, OP_CHECKSIG(VERIFY) and as the only / the first examined / the second examined signature of an OP_CHECKMULTISIG(VERIFY): under NULLFAIL a failed check of a non-empty item is an error; the way the flags reach the engine: every case is run again with its flag word handed over through other option lists denoting the same word (WithForkID() / WithAfterGenesis() / WithP2SH() before, after and around WithFlags(rest) or WithFlags(word), the word cut into two or into single flags in both orders, overlapping words, WithFlags(0) and repeated words, the flag options before / after / around WithTx and WithDebugger; 2 lists per case rotating, thorough 6) and must give the same verdict, step count and stack snapshots, and 72 cases whose verdict one flag alone decides (each of the six flags on top of none and of all the others in both eras, 21 keys after genesis, P2SH) under EVERY such list. distinct = distinct (scripts, flags, transaction, index, value); non-trivial = at least one go-bk oracle query was needed"
	c.Finish()
}
