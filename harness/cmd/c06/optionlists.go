// The way the FLAGS reach the engine (C06 only; the interpreter checks have their own helper).
//
// The property quantifies over "all subsets of the signature-related flags in both eras"; a caller assembles such a
// subset from interpreter.WithFlags(word), WithForkID(), WithAfterGenesis() and WithP2SH() in any number and order.
// Every one of these options ADDS its flags to the execution: an option list denotes the UNION of its words, whatever
// the order, however the union is cut into words, however often a flag is named, and wherever the flag options stand
// among the other options (WithTx, WithDebugger).  optionLists(f) enumerates lists that all denote the word f; run()
// executes the case again under them and demands the verdict, the number of steps and every stack snapshot of the
// run made with the single WithFlags(f).
package main

import (
	"fmt"
	"runtime"
	"strings"
	"sync"

	"github.com/libsv/go-bt/v2"
	"github.com/libsv/go-bt/v2/bscript"
	"github.com/libsv/go-bt/v2/bscript/interpreter"
	"github.com/libsv/go-bt/v2/bscript/interpreter/scriptflag"

	"verif/harness/common"
	"verif/harness/interpgen"
	sp "verif/harness/sigspec"
)

// flagOpt is one flag-carrying option of a list: a WithFlags word or one of the named options.
type flagOpt struct {
	named string // "" = WithFlags(word)
	word  uint32 // the flags the option adds
}

func (o flagOpt) String() string {
	if o.named != "" {
		return o.named + "()"
	}
	return fmt.Sprintf("WithFlags(0x%x)", o.word)
}

func (o flagOpt) option() interpreter.ExecutionOptionFunc {
	switch o.named {
	case "WithForkID":
		return interpreter.WithForkID()
	case "WithAfterGenesis":
		return interpreter.WithAfterGenesis()
	case "WithP2SH":
		return interpreter.WithP2SH()
	}
	return interpreter.WithFlags(scriptflag.Flag(o.word))
}

// optionList: flag options in order, and where they stand relative to WithTx and WithDebugger.
type optionList struct {
	opts  []flagOpt
	place int // 0: WithTx, flags, WithDebugger   1: flags, WithTx, WithDebugger   2: WithTx, WithDebugger, flags   3: first flag option, WithTx, the others, WithDebugger
}

func (l optionList) String() string {
	var s []string
	for _, o := range l.opts {
		s = append(s, o.String())
	}
	fl := strings.Join(s, ", ")
	if fl == "" {
		fl = "(no flag option)"
	}
	switch l.place {
	case 1:
		return "[" + fl + " | WithTx | WithDebugger]"
	case 2:
		return "[WithTx | WithDebugger | " + fl + "]"
	case 3:
		if len(s) > 1 {
			return "[" + s[0] + " | WithTx | " + strings.Join(s[1:], ", ") + " | WithDebugger]"
		}
		return "[" + fl + " | WithTx | WithDebugger]"
	}
	return "[WithTx | " + fl + " | WithDebugger]"
}

// union: the word the list denotes.
func (l optionList) union() uint32 {
	var f uint32
	for _, o := range l.opts {
		f |= o.word
	}
	return f
}

func (l optionList) assemble(tx, dbg interpreter.ExecutionOptionFunc) []interpreter.ExecutionOptionFunc {
	var fl []interpreter.ExecutionOptionFunc
	for _, o := range l.opts {
		fl = append(fl, o.option())
	}
	var out []interpreter.ExecutionOptionFunc
	switch {
	case l.place == 1:
		out = append(append(out, fl...), tx, dbg)
	case l.place == 2:
		out = append(append(out, tx, dbg), fl...)
	case l.place == 3 && len(fl) > 1:
		out = append(append(append(out, fl[0], tx), fl[1:]...), dbg)
	case l.place == 3:
		out = append(append(out, fl...), tx, dbg)
	default:
		out = append(append(append(out, tx), fl...), dbg)
	}
	return out
}

var namedFlagOpts = []flagOpt{
	{"WithForkID", sp.FForkID},
	{"WithAfterGenesis", sp.FGenesis},
	{"WithP2SH", sp.FBip16},
}

func setBits(f uint32) []uint32 {
	var out []uint32
	for i := uint(0); i < 32; i++ {
		if f>>i&1 == 1 {
			out = append(out, 1<<i)
		}
	}
	return out
}

// optionLists: option lists that all denote exactly the flag word f (the list [WithFlags(f)] itself, the one the main
// run uses, is not among them).  Every list is checked against its own union before it is handed out.
func optionLists(f uint32) []optionList {
	if l, ok := optListCache[f]; ok {
		return l
	}
	l := buildOptionLists(f)
	optListCache[f] = l
	return l
}

var optListCache = map[uint32][]optionList{}

func buildOptionLists(f uint32) []optionList {
	w := func(x uint32) flagOpt { return flagOpt{"", x} }
	var seqs [][]flagOpt
	add := func(s ...flagOpt) { seqs = append(seqs, s) }
	rev := func(s []flagOpt) []flagOpt {
		o := make([]flagOpt, len(s))
		for i := range s {
			o[len(s)-1-i] = s[i]
		}
		return o
	}
	// the named options for every non-empty subset of the named flags of f, the rest as one word: before it, after it,
	// around it, next to the FULL word (a flag named twice), and alone when nothing is left
	var present []flagOpt
	for _, n := range namedFlagOpts {
		if f&n.word != 0 {
			present = append(present, n)
		}
	}
	for sub := 1; sub < 1<<len(present); sub++ {
		var named []flagOpt
		var nw uint32
		for i, n := range present {
			if sub>>i&1 == 1 {
				named = append(named, n)
				nw |= n.word
			}
		}
		rest := f &^ nw
		add(append(append([]flagOpt{}, named...), w(rest))...)
		add(append([]flagOpt{w(rest)}, named...)...)
		add(append(append([]flagOpt{}, rev(named)...), w(f))...)
		add(append([]flagOpt{w(f)}, named...)...)
		if len(named) > 1 {
			add(append(append([]flagOpt{named[0]}, w(rest)), named[1:]...)...)
		}
		if rest == 0 {
			add(named...)
			add(rev(named)...)
		}
	}
	// the word cut in two: alternate set bits; the lowest bit against the others; the highest against the others
	bits := setBits(f)
	if len(bits) >= 2 {
		var a uint32
		for i, b := range bits {
			if i%2 == 0 {
				a |= b
			}
		}
		for _, cut := range []uint32{a, bits[0], bits[len(bits)-1]} {
			add(w(cut), w(f&^cut))
			add(w(f&^cut), w(cut))
		}
		// one option per flag, ascending and descending
		var per []flagOpt
		for _, b := range bits {
			per = append(per, w(b))
		}
		add(per...)
		add(rev(per)...)
		// overlapping words
		add(w(f&^bits[0]), w(f&^bits[len(bits)-1]))
		if len(bits) >= 3 {
			add(w(f&^bits[len(bits)-1]), w(f&^bits[1]), w(bits[len(bits)-1]|bits[0]))
		}
	}
	// adding nothing, adding the same again, adding a part again
	add(w(f), w(0))
	add(w(0), w(f))
	add(w(f), w(f))
	if len(bits) >= 1 {
		add(w(f), w(bits[0]))
		add(w(f), w(bits[len(bits)-1]))
		add(w(bits[len(bits)/2]), w(f))
	}
	if f == 0 {
		add()
	}
	var out []optionList
	seen := map[string]bool{}
	for i, s := range seqs {
		l := optionList{opts: s, place: i % 4}
		if l.union() != f {
			panic(fmt.Sprintf("c06: option list %s does not denote 0x%x", l, f))
		}
		k := l.String()
		if len(s) == 1 && s[0].named == "" || seen[k] {
			continue // [WithFlags(f)] is the main run
		}
		seen[k] = true
		out = append(out, l)
	}
	return out
}

// stackRec: a debugger that keeps the AfterStep snapshots only.
type stackRec struct{ snaps []interpgen.Snapshot }

func cpStack(st [][]byte) [][]byte {
	out := make([][]byte, len(st))
	for i, x := range st {
		out[i] = append([]byte{}, x...)
	}
	return out
}

func (r *stackRec) BeforeExecute(*interpreter.State) {}
func (r *stackRec) AfterExecute(*interpreter.State)  {}
func (r *stackRec) BeforeStep(*interpreter.State)    {}
func (r *stackRec) AfterStep(s *interpreter.State) {
	r.snaps = append(r.snaps, interpgen.Snapshot{Data: cpStack(s.DataStack), Alt: cpStack(s.AltStack)})
}
func (r *stackRec) BeforeExecuteOpcode(*interpreter.State)     {}
func (r *stackRec) AfterExecuteOpcode(*interpreter.State)      {}
func (r *stackRec) BeforeScriptChange(*interpreter.State)      {}
func (r *stackRec) AfterScriptChange(*interpreter.State)       {}
func (r *stackRec) AfterSuccess(*interpreter.State)            {}
func (r *stackRec) AfterError(*interpreter.State, error)       {}
func (r *stackRec) BeforeStackPush(*interpreter.State, []byte) {}
func (r *stackRec) AfterStackPush(*interpreter.State, []byte)  {}
func (r *stackRec) BeforeStackPop(*interpreter.State)          {}
func (r *stackRec) AfterStackPop(*interpreter.State, []byte)   {}

// optTwin: the case plus the option list under which it ran differently.
type optTwin struct {
	twin
	Options string `json:"options"`
}

var (
	// allOptionLists: every list of optionLists(flags) for the cases built while it is set (familyOptionLists);
	// otherwise optListsPerCase lists per case, rotating through the lists of the case's flag word
	allOptionLists  bool
	optListsPerCase = 2
	optRot          int
	optCaseID       int
)

// optJob: one more run of a case, under another option list.  The runs do not draw from the generator and do not
// depend on one another: they are executed by a pool of workers while the generator goes on, and judged in the order
// in which they were submitted (finishOptionLists), so the reports do not depend on the scheduling.
type optJob struct {
	caseID    int
	tw        twin
	list      optionList
	tx        *bt.Tx
	idx       int
	sats      uint64
	lock      []byte
	flags     uint32
	mainErr   error
	mainSteps int
	mainHash  string
	// the outcome
	panicked bool
	msg      string
	err      error
	steps    int
	hash     string
}

var (
	optJobs []*optJob
	optCh   chan *optJob
	optWG   sync.WaitGroup
)

func (j *optJob) execute() {
	rec := &stackRec{}
	j.panicked, j.msg = common.Safely(func() {
		j.err = interpreter.NewEngine().Execute(j.list.assemble(
			interpreter.WithTx(j.tx, j.idx, &bt.Output{Satoshis: j.sats, LockingScript: bscript.NewFromBytes(j.lock)}),
			interpreter.WithDebugger(rec))...)
	})
	j.steps, j.hash = len(rec.snaps), interpgen.TraceHash(rec.snaps)
}

// underOptionLists submits the case for more runs with the flag word handed over through other option lists; they are
// compared with the run under the single WithFlags(word): verdict, number of steps, every snapshot.
func (b *build) underOptionLists(tw twin, lock []byte, mainErr error, mainSnaps []interpgen.Snapshot) {
	lists := optionLists(b.flags)
	if len(lists) == 0 {
		return
	}
	n := optListsPerCase
	if allOptionLists || n > len(lists) {
		n = len(lists)
	}
	if optCh == nil {
		optCh = make(chan *optJob, 512)
		workers := runtime.NumCPU()
		if workers > 8 {
			workers = 8
		}
		for w := 0; w < workers; w++ {
			optWG.Add(1)
			go func() {
				defer optWG.Done()
				for j := range optCh {
					j.execute()
				}
			}()
		}
	}
	optCaseID++
	mainHash := interpgen.TraceHash(mainSnaps)
	for i := 0; i < n; i++ {
		optRot++
		l := lists[optRot%len(lists)]
		if allOptionLists {
			l = lists[i]
		}
		j := &optJob{caseID: optCaseID, tw: tw, list: l, tx: b.tx.Clone(), idx: b.idx, sats: b.sats, lock: append([]byte{}, lock...),
			flags: b.flags, mainErr: mainErr, mainSteps: len(mainSnaps), mainHash: mainHash}
		optJobs = append(optJobs, j)
		optCh <- j
	}
}

// finishOptionLists waits for the runs and states the predicate on each, in submission order (one report per case).
func finishOptionLists() {
	if optCh == nil {
		return
	}
	close(optCh)
	optWG.Wait()
	reported := -1
	for _, j := range optJobs {
		c.Tally(fmt.Sprintf("option-lists/%d-flag-options", len(j.list.opts)))
		if j.caseID == reported {
			continue
		}
		in := optTwin{j.tw, j.list.String()}
		switch {
		case j.panicked:
			c.Violate("Engine.Execute/panic", "flags given as "+j.list.String()+": "+j.msg, in)
		case (j.err == nil) != (j.mainErr == nil):
			c.Violate("Engine.Execute/verdict-depends-on-how-the-flags-are-given",
				fmt.Sprintf("flags 0x%x given as %s: %v; given as WithFlags(0x%x): %v", j.flags, j.list, errOrSuccess(j.err), j.flags, errOrSuccess(j.mainErr)), in)
		case j.steps != j.mainSteps || j.hash != j.mainHash:
			c.Violate("Engine.Execute/run-depends-on-how-the-flags-are-given",
				fmt.Sprintf("flags 0x%x given as %s: %d steps, stacks %s; given as WithFlags(0x%x): %d steps, stacks %s", j.flags, j.list, j.steps,
					j.hash[:16], j.flags, j.mainSteps, j.mainHash[:16]), in)
		default:
			continue
		}
		reported = j.caseID
	}
}

func errOrSuccess(err error) string {
	if err == nil {
		return "success"
	}
	return "error (" + err.Error() + ")"
}

// familyOptionLists: for each of the six flags and the era a pair of cases whose verdict the flag alone decides (the
// flag on top of nothing, and on top of all the others), run under EVERY option list of optionLists.  A list that
// loses, or invents, one flag is then seen on the verdict itself, not only on a rotating sample.
func familyOptionLists(r *common.Rand) {
	allOptionLists = true
	defer func() { allOptionLists = false }()
	six := sp.FStrictEnc | sp.FDERSig | sp.FLowS | sp.FStrictMultiSig | sp.FNullFail | sp.FForkID
	for _, era := range []uint32{0, sp.FGenesis} {
		for _, others := range []uint32{0, uint32(six)} {
			with := func(flag uint32) uint32 { return others | flag | era }
			// FORKID: a conforming original-digest signature is an error under the flag (replay protection) ...
			checksigCase(r, "option-lists/forkid", with(sp.FForkID), 0x01, sigReq{Signer: 0}, sp.PKCompressed, false)
			// ... and a FORKID signature over a script code that keeps a later separator is valid
			separatorAfterCase(r, "option-lists/forkid-separator", with(sp.FForkID), 0x41)
			// STRICTENC: a hybrid key; an undefined hash type
			checksigCase(r, "option-lists/strictenc", with(sp.FStrictEnc), matchingType(with(sp.FStrictEnc), 0), sigReq{Signer: 0}, sp.PKHybrid, false)
			// DERSIG: a padded R
			checksigCase(r, "option-lists/dersig", with(sp.FDERSig), matchingType(with(sp.FDERSig), 1), sigReq{Signer: 0, Shape: sp.SigPadR}, sp.PKCompressed, false)
			// LOW_S: the high-S twin of a valid signature
			checksigCase(r, "option-lists/lows", with(sp.FLowS), matchingType(with(sp.FLowS), 2), sigReq{Signer: 0, Shape: sp.SigHighS}, sp.PKCompressed, false)
			// NULLFAIL: a well-encoded signature by another key
			checksigCase(r, "option-lists/nullfail", with(sp.FNullFail), matchingType(with(sp.FNullFail), 3), sigReq{Signer: -1}, sp.PKCompressed, false)
			// NULLDUMMY: a satisfied 2-of-3 with a non-empty dummy
			multisigCase(r, "option-lists/nulldummy", with(sp.FStrictMultiSig), 3, []int{0, 2}, msOpts{dummy: []byte{0x01}})
			// NULLFAIL in a multisig: one wrong signature
			multisigCase(r, "option-lists/nullfail-multisig", with(sp.FNullFail), 3, []int{0, 3}, msOpts{})
		}
	}
	// the era: 21 keys are a count error before genesis and fine after it
	a21 := []int{0}
	for _, f := range []uint32{sp.FGenesis, sp.FGenesis | sp.FForkID, sp.FGenesis | uint32(six), sp.FGenesis | sp.FNullFail | sp.FDERSig} {
		multisigCase(r, "option-lists/genesis-21-keys", f, 21, a21, msOpts{})
	}
	// P2SH next to the signature flags: the redeem script (a 2-of-3, signatures in key order / in the wrong order) is run
	// only under the flag
	for _, f := range []uint32{sp.FBip16, sp.FBip16 | sp.FForkID, sp.FBip16 | sp.FForkID | sp.FNullFail | sp.FStrictMultiSig, sp.FBip16 | sp.FDERSig | sp.FLowS} {
		multisigCase(r, "option-lists/p2sh", f, 3, []int{0, 2}, msOpts{p2sh: true})
		multisigCase(r, "option-lists/p2sh-wrong-order", f, 3, []int{2, 0}, msOpts{p2sh: true})
	}
}

// separatorAfterCase: <sig> | <pk> OP_CHECKSIGVERIFY OP_CODESEPARATOR OP_1 with a conforming signature of hash type ht.
func separatorAfterCase(r *common.Rand, kind string, flags uint32, ht byte) {
	b := newBuild(r, kind, flags, 1)
	slot := b.addSig(sigReq{Signer: 0, HT: ht})
	pk := b.keys[0].Enc(sp.PKCompressed)
	b.scripts[0] = []sp.Op{sp.SigSlot(slot, nil, nil, 0)}
	b.scripts[1] = []sp.Op{sp.P(pk), sp.O(0xad), sp.Sep(true), sp.O(0x51)}
	b.ops = []sigOp{{script: 1, at: 1, slots: []int{slot}, keys: [][]byte{pk}, verify: true}}
	b.note = fmt.Sprintf("ht=%02x, OP_CODESEPARATOR after the operation", ht)
	b.run()
}
