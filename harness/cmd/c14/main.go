// c14: script inspection is total and classifies by the standard templates — cases for the Coq
// model plus the Go-level statements of the property used as search.
package main

import (
	"bytes"
	"encoding/json"
	"fmt"
	"os"
	"runtime/debug"
	"strings"
	"time"

	"github.com/libsv/go-bt/v2"
	"github.com/libsv/go-bt/v2/bscript"

	"verif/harness/common"
	sg "verif/harness/script13"
)

var c *common.Ctx

const header = `From Coq Require Import List NArith String.
From Coq Require Import Strings.Byte.
From GoBT Require Import lib.Bytes lib.Hex corr.C14.
Import ListNotations. Local Open Scope N_scope. Local Open Scope string_scope.
`

func trunc(s string) string {
	if len(s) > 300 {
		return s[:300] + fmt.Sprintf("...(%d chars)", len(s))
	}
	return s
}

var queryName = map[string]string{"T": "ScriptType", ";k": "IsP2PKH", ";p": "IsP2PK", ";s": "IsP2SH", ";d": "IsData", ";m": "IsMultiSigOut",
	";i": "IsP2PKHInscription", ";H": "PublicKeyHash", ";A": "Addresses", ";I": "ParseInscription", ";a": "ToASM", ";N": "NodeJSON"}

type obs struct {
	text      string
	fields    map[string]string // the answer of each query (by field prefix) for a private copy of the script
	typ       string
	typOK     bool
	decodeErr bool
	inscribed bool
	panics    []string
	impure    []viol // findings of purity (purity.go), when it was run
}

// observeOpt runs every inspection query on its own copy of the script under recover(); without withJSON the two node-JSON marshalling runs are skipped (used for the
// 16.8 M three-byte scripts; they are compositions of ToASM, Addresses and ScriptType).
func observeOpt(s []byte, withJSON bool) *obs {
	o := &obs{fields: map[string]string{}}
	var sb strings.Builder
	scr := func() *bscript.Script { return bscript.NewFromBytes(append([]byte{}, s...)) }
	// a panic is an observation: the field becomes <prefix>!
	fix := func(prefix string, f func() string) {
		var out string
		if p, msg := common.Safely(func() { out = f() }); p {
			o.panics = append(o.panics, queryName[prefix]+": "+msg)
			out = prefix + "!"
		}
		o.fields[prefix] = out
		sb.WriteString(out)
	}
	for _, q := range queries {
		q := q
		fix(q.prefix, func() string { return q.run(scr()) })
	}
	if t := o.fields["T"]; strings.HasPrefix(t, "T+") {
		o.typ, o.typOK = t[2:], true
	}
	fix(";N", func() string {
		if !withJSON {
			return ";N"
		}
		tx := bt.NewTx()
		tx.AddOutput(&bt.Output{Satoshis: 1000, LockingScript: scr()})
		bb, err := json.Marshal(tx.NodeJSON())
		if err != nil {
			return ";N-"
		}
		var doc struct {
			Vout []struct {
				ScriptPubKey struct {
					Asm     string `json:"asm"`
					Hex     string `json:"hex"`
					ReqSigs int    `json:"reqSigs"`
					Type    string `json:"type"`
				} `json:"scriptPubKey"`
			} `json:"vout"`
		}
		if err := json.Unmarshal(bb, &doc); err != nil || len(doc.Vout) != 1 {
			return ";N?"
		}
		v := doc.Vout[0].ScriptPubKey
		return fmt.Sprintf(";N+%s,%d,%s,%s", sg.Sabbr(v.Asm), v.ReqSigs, v.Type, hexOf(v.Hex))
	})
	// further entry points that must not panic either (not compared with the model)
	for name, f := range map[string]func(){
		"IsInscribed": func() { o.inscribed = scr().IsInscribed() },
		"NodeJSON(input)": func() {
			if !withJSON {
				return
			}
			tx := bt.NewTx()
			_ = tx.From("11b476ad8e0a48fcd40807a111a050af51114877e09283bfa7f3505081a1819d", 0, "76a914000102030405060708090a0b0c0d0e0f1011121388ac", 1500)
			tx.Inputs[0].UnlockingScript = scr()
			tx.AddOutput(&bt.Output{Satoshis: 1000, LockingScript: scr()})
			_, _ = json.Marshal(tx.NodeJSON())
			_, _ = json.Marshal(tx)
		},
		"DecodeParts": func() {
			_, err := bscript.DecodeParts(append([]byte{}, s...))
			o.decodeErr = err != nil
		},
	} {
		if p, msg := common.Safely(f); p {
			o.panics = append(o.panics, name+": "+msg)
		}
	}
	o.text = sb.String()
	return o
}

func isExactP2PKH(s []byte) bool {
	return len(s) == 25 && s[0] == 0x76 && s[1] == 0xa9 && s[2] == 0x14 && s[23] == 0x88 && s[24] == 0xac
}

// predicates: the property stated directly on the implementation. expect = "" when the script is
// not an unmodified template.
func predicates(s []byte, o *obs, expect string) {
	in := trunc(common.Hex(s))
	// a script that instantiates the P2PKH-inscription template is reported as inscribed by every inscription test
	if expect == bscript.ScriptTypePubKeyHashInscription && !o.inscribed {
		c.Violate("IsInscribed/false-on-a-P2PKH-inscription-template", "the script is an unmodified P2PKH inscription built by Tx.Inscribe", in)
	}
	for _, p := range o.panics {
		c.Violate(strings.SplitN(p, ":", 2)[0]+"/panic", p, in)
	}
	if !o.typOK {
		return
	}
	if expect != "" && o.typ != expect {
		c.Violate("ScriptType/template-misclassified", fmt.Sprintf("a %s template is reported as %s", expect, o.typ), in)
	}
	if o.typ == bscript.ScriptTypePubKeyHash && !isExactP2PKH(s) {
		c.Violate("ScriptType/p2pkh-not-exact", "reported pubkeyhash but is not the 25-byte template", in)
	}
	if o.typ == bscript.ScriptTypeNullData && !(len(s) > 0 && s[0] == 0x6a) && !(len(s) > 1 && s[0] == 0 && s[1] == 0x6a) {
		c.Violate("ScriptType/nulldata-without-prefix", "reported nulldata but does not start with OP_RETURN / OP_FALSE OP_RETURN", in)
	}
	if o.decodeErr && (o.typ == bscript.ScriptTypePubKey || o.typ == bscript.ScriptTypePubKeyHash || o.typ == bscript.ScriptTypeMultiSig || o.typ == bscript.ScriptTypePubKeyHashInscription) {
		c.Violate("ScriptType/undecodable-keybearing", "undecodable script reported as "+o.typ, in)
	}
}

// scriptCase queues one case; drain observes the queued scripts on all cores (observeAll: every query on private
// copies, then the read-only / ask-twice statements of purity.go with the transaction renderings) and judges and
// writes them out in the order they were queued — the output does not depend on the number of cores.
type pending struct {
	kind   string
	s      []byte
	expect string
	toCoq  bool
}

var queue []pending

func scriptCase(kind string, s []byte, expect string, toCoq bool) {
	queue = append(queue, pending{kind, append([]byte{}, s...), expect, toCoq})
	if len(queue) >= 2048 {
		drain()
	}
}

func drain() {
	ss := make([][]byte, len(queue))
	for i, q := range queue {
		ss[i] = q.s
	}
	for i, o := range observeAll(ss, true, true, true) {
		q := queue[i]
		emitCase(q.kind, q.s, q.expect, q.toCoq, o)
	}
	queue = queue[:0]
}

func emitCase(kind string, s []byte, expect string, toCoq bool, o *obs) {
	predicates(s, o, expect)
	impurities(s, o)
	t := o.typ
	if !o.typOK {
		t = "panic"
	}
	c.Tally(kind + "/" + t)
	coq := ""
	if toCoq && c.Mode == "gen" {
		coq = fmt.Sprintf("CScript %s %d", sg.CoqBytes(s), sg.Digest(o.text))
	}
	c.Case(coq, map[string]interface{}{"kind": kind, "script": trunc(common.Hex(s)), "obs": trunc(o.text)}, "s"+common.Hex(s), len(s) > 0)
}

// ---------- templates ----------

type template struct {
	name   string
	typ    string
	tokens [][]byte // the script is the concatenation; pushes are whole tokens
	isPush []bool
}

func (t template) bytes() []byte {
	var b []byte
	for _, k := range t.tokens {
		b = append(b, k...)
	}
	return b
}

func tokenise(s []byte) (toks [][]byte, isPush []bool) {
	parts, _ := bscript.DecodeParts(s)
	_ = parts
	for i := 0; i < len(s); {
		b := s[i]
		n := 1
		push := true
		switch {
		case b >= 1 && b <= 75:
			n = 1 + int(b)
		case b == 0x4c:
			n = 2 + int(s[i+1])
		case b == 0x4d:
			n = 3 + int(s[i+1]) + int(s[i+2])<<8
		case b == 0x4e:
			n = 5 + int(s[i+1]) + int(s[i+2])<<8 + int(s[i+3])<<16 + int(s[i+4])<<24
		default:
			push = false
		}
		toks = append(toks, s[i:i+n])
		isPush = append(isPush, push)
		i += n
	}
	return
}

func mk(name, typ string, s []byte) template {
	toks, ip := tokenise(s)
	return template{name: name, typ: typ, tokens: toks, isPush: ip}
}

func key(r *common.Rand, n int) []byte {
	k := r.Bytes(n)
	if n == 33 {
		k[0] = []byte{2, 3}[r.Intn(2)]
	} else {
		k[0] = []byte{4, 6, 7}[r.Intn(3)]
	}
	return k
}

func inscription(r *common.Rand, ct string, data []byte, opret [][]byte) []byte {
	prefix, _ := bscript.NewP2PKHFromPubKeyHash(r.Bytes(20))
	tx := bt.NewTx()
	ia := &bscript.InscriptionArgs{LockingScriptPrefix: prefix, Data: data, ContentType: ct}
	if opret != nil {
		ia.EnrichedArgs = &bscript.EnrichedInscriptionArgs{OpReturnData: opret}
	}
	if err := tx.Inscribe(ia); err != nil {
		panic(err)
	}
	return []byte(*tx.Outputs[len(tx.Outputs)-1].LockingScript)
}

func templates(r *common.Rand) []template {
	p2pkh, _ := bscript.NewP2PKHFromPubKeyHash(r.Bytes(20))
	var ts []template
	ts = append(ts, mk("p2pkh", bscript.ScriptTypePubKeyHash, *p2pkh))
	ts = append(ts, mk("p2pk33", bscript.ScriptTypePubKey, append(sg.Push(sg.FormMinimal, key(r, 33)), 0xac)))
	ts = append(ts, mk("p2pk65", bscript.ScriptTypePubKey, append(sg.Push(sg.FormMinimal, key(r, 65)), 0xac)))
	ms := func(m int, keys ...[]byte) []byte {
		s := []byte{byte(0x50 + m)}
		for _, k := range keys {
			s = append(s, sg.Push(sg.FormMinimal, k)...)
		}
		return append(s, byte(0x50+len(keys)), 0xae)
	}
	ts = append(ts, mk("multisig-1of2", bscript.ScriptTypeMultiSig, ms(1, key(r, 33), key(r, 33))))
	ts = append(ts, mk("multisig-2of3", bscript.ScriptTypeMultiSig, ms(2, key(r, 33), key(r, 65), key(r, 33))))
	// the small-integer opcode boundaries: n = 15 and 16 keys, m = 1, 15, 16
	many := func(n int) [][]byte {
		var ks [][]byte
		for i := 0; i < n; i++ {
			ks = append(ks, key(r, 33))
		}
		return ks
	}
	ts = append(ts, mk("multisig-1of16", bscript.ScriptTypeMultiSig, ms(1, many(16)...)))
	ts = append(ts, mk("multisig-16of16", bscript.ScriptTypeMultiSig, ms(16, many(16)...)))
	ts = append(ts, mk("multisig-15of15", bscript.ScriptTypeMultiSig, ms(15, many(15)...)))
	ts = append(ts, mk("multisig-1of1", bscript.ScriptTypeMultiSig, ms(1, many(1)...)))
	data := func(prefix []byte, items ...[]byte) []byte {
		s := append([]byte{}, prefix...)
		for _, it := range items {
			s = append(s, sg.Push(sg.FormMinimal, it)...)
		}
		return s
	}
	ts = append(ts, mk("op-return", bscript.ScriptTypeNullData, data([]byte{0x6a}, []byte("hello"), r.Bytes(3))))
	ts = append(ts, mk("op-false-op-return", bscript.ScriptTypeNullData, data([]byte{0x00, 0x6a}, r.Bytes(20), []byte{0x51}, r.Bytes(2))))
	ts = append(ts, mk("inscription", bscript.ScriptTypePubKeyHashInscription, inscription(r, "text/plain", []byte("Hello, world!"), nil)))
	ts = append(ts, mk("inscription-enriched", bscript.ScriptTypePubKeyHashInscription, inscription(r, "image/png", r.Bytes(9), [][]byte{[]byte("MAP"), r.Bytes(4)})))
	ts = append(ts, mk("inscription-empty-fields", bscript.ScriptTypePubKeyHashInscription, inscription(r, "", []byte{}, nil)))
	{
		// the tag bytes "ord" (and the whole header) also occur before the envelope: in the key hash, and in the payload
		ins := inscription(r, "text/ord", []byte("ord\x00\x63\x03ord"), nil)
		copy(ins[3:], []byte{0xb6, 0xaa, 0x34, 'o', 'r', 'd', 0x03, 'o', 'r', 'd'})
		ts = append(ts, mk("inscription-ord-in-hash", bscript.ScriptTypePubKeyHashInscription, ins))
	}
	return ts
}

// phase: with VERIF_TIMING set, the wall time of each family on stderr.
var phaseT = time.Now()

func phase(name string) {
	drain()
	if os.Getenv("VERIF_TIMING") != "" {
		fmt.Fprintf(os.Stderr, "%-28s %6.2fs\n", name, time.Since(phaseT).Seconds())
	}
	phaseT = time.Now()
}

func main() {
	// the live heap is a few MB and every observation allocates: collect when a gigabyte of garbage has piled up
	// rather than every 4 MB (a third of the CPU time otherwise)
	debug.SetGCPercent(-1)
	debug.SetMemoryLimit(1 << 30)
	c = common.Parse("C14")
	c.SetHeader(header)
	c.ShardBytes = 400000
	c.PerShard = 500
	r := common.NewRand(c.Seed)
	search := c.Mode == "search"
	full := c.Thorough()

	// ---- (1) every byte string of length <= 2
	{
		// observed on all cores (observeAll), judged and written out in enumeration order; the read-only / ask-twice
		// statements (purity.go) on every one of them, without the transaction renderings
		type tiny struct {
			ln int
			v  uint64
		}
		var ss [][]byte
		var ids []tiny
		sg.Tiny(2, func(s []byte, ln int, v uint64) {
			ss = append(ss, append([]byte{}, s...))
			ids = append(ids, tiny{ln, v})
		})
		for i, o := range observeAll(ss, true, true, false) {
			s, ln, v := ss[i], ids[i].ln, ids[i].v
			predicates(s, o, "")
			impurities(s, o)
			toCoq := c.Mode == "gen" && (full || ln <= 1 || v%8 == c.Seed%8)
			coq := ""
			if toCoq {
				coq = fmt.Sprintf("CTiny %d %d %d", ln, v, sg.Digest(o.text))
			}
			t := o.typ
			if !o.typOK {
				t = "panic"
			}
			c.Stats.Distribution["tiny/"+t]++
			c.Case(coq, map[string]interface{}{"kind": "tiny", "script": common.Hex(s), "obs": o.text}, "s"+common.Hex(s), ln > 0)
		}
	}
	phase("tiny")
	if full || search {
		n3 := 0
		for hi := 0; hi < 256; hi++ {
			if search && hi%4 != int(c.Seed%4) {
				continue
			}
			batch := make([][]byte, 0, 1<<16)
			for v := 0; v < 1<<16; v++ {
				batch = append(batch, []byte{byte(v), byte(v >> 8), byte(hi)})
			}
			for i, o := range observeAll(batch, false, true, false) {
				predicates(batch[i], o, "")
				impurities(batch[i], o)
				n3++
			}
		}
		c.Stats.Extra["three_byte_scripts_go_side_only"] = n3
	}

	phase("three-byte")
	// ---- (2) the templates, every single-byte mutation, push replacements, parts removed
	c.PerShard = 250
	ts := templates(r)
	nMut := 0
	for _, t := range ts {
		base := t.bytes()
		scriptCase("template/"+t.name, base, t.typ, true)
		// every position x every other byte value on the Go side; the model side sees five values per
		// position in quick and all of them in thorough
		for pos := range base {
			if len(base) > 160 && !full && pos >= 40 && pos < len(base)-40 {
				continue // big templates (15/16-key multisig): quick tier mutates the first and last 40 bytes
			}
			// the values the model side does not see are observed on all cores and judged in order; the read-only /
			// ask-twice statements on all of them (with the transaction renderings on the model-side ones)
			// (the transaction renderings are compositions of ToASM, Addresses and ScriptType on the same bytes: in quick
			// the values of the seed's parity are rendered besides the model-side ones, in thorough all)
			var goSide, goSideJSON [][]byte
			for v := 0; v < 256; v++ {
				if byte(v) == base[pos] {
					continue
				}
				m := append([]byte{}, base...)
				m[pos] = byte(v)
				sel := full || byte(v) == base[pos]^0x01 || byte(v) == base[pos]^0xff || v == 0x00 || v == 0x4c || v == 0x6a
				nMut++
				if sel {
					scriptCase("mutate-byte/"+t.name, m, "", true)
				} else if search || v%2 == int(c.Seed%2) {
					goSideJSON = append(goSideJSON, m)
				} else {
					goSide = append(goSide, m)
				}
			}
			for i, o := range observeAll(goSideJSON, true, true, false) {
				predicates(goSideJSON[i], o, "")
				impurities(goSideJSON[i], o)
			}
			for i, o := range observeAll(goSide, false, true, false) {
				predicates(goSide[i], o, "")
				impurities(goSide[i], o)
			}
		}
		phase("mutate-byte/" + t.name)
		// each push replaced by an empty / truncated push; each token removed; duplicated; script cut
		for i := range t.tokens {
			repl := func(kind string, tok []byte) {
				var m []byte
				for j, k := range t.tokens {
					if j == i {
						m = append(m, tok...)
					} else {
						m = append(m, k...)
					}
				}
				scriptCase(kind+"/"+t.name, m, "", true)
			}
			repl("remove-token", nil)
			if t.isPush[i] {
				tok := t.tokens[i]
				repl("push->4c00", []byte{0x4c, 0x00})
				repl("push->4d0000", []byte{0x4d, 0x00, 0x00})
				repl("push->4e00000000", []byte{0x4e, 0, 0, 0, 0})
				repl("push->00", []byte{0x00})
				repl("push-minus-last-byte", tok[:len(tok)-1])
				repl("push-header-only", tok[:1])
				repl("push-non-minimal", sg.Push(sg.FormPD1, tok[1:]))
				// the same data behind a PUSHDATA1/2/4 header announcing 1..3 (resp. up to 5) bytes more than are
				// there: in the middle it swallows what follows, as the LAST token it is a truncated push
				for short := 1; short <= 5; short++ {
					d := tok[1:]
					if tok[0] == 0x4c {
						d = tok[2:]
					}
					n := len(d) + short
					if short <= 1 {
						repl("push-pd1-short", append([]byte{0x4c, byte(n)}, d...))
					}
					if short <= 3 {
						repl("push-pd2-short", append([]byte{0x4d, byte(n), byte(n >> 8)}, d...))
					}
					repl("push-pd4-short", append([]byte{0x4e, byte(n), byte(n >> 8), 0, 0}, d...))
				}
				// declared lengths at the top of the length field's range in front of the token's data
				{
					d := tok[1:]
					if tok[0] == 0x4c {
						d = tok[2:]
					}
					for _, l := range []int{0xfe, 0xff} {
						repl("push-pd1-top", append([]byte{0x4c, byte(l)}, d...))
					}
					for _, l := range []int{0xfffd, 0xfffe, 0xffff} {
						repl("push-pd2-top", append([]byte{0x4d, byte(l), byte(l >> 8)}, d...))
					}
					for _, l := range []uint32{0xfffffffb, 0xfffffffc, 0xffffffff, 0x7fffffff, 0x80000000} {
						repl("push-pd4-top", append([]byte{0x4e, byte(l), byte(l >> 8), byte(l >> 16), byte(l >> 24)}, d...))
					}
				}
				repl("push->one-byte", []byte{0x01, tok[len(tok)-1]})
			} else {
				repl("op->4c00", []byte{0x4c, 0x00})
			}
		}
		for k := 0; k < len(base); k++ {
			scriptCase("truncate/"+t.name, base[:k], "", full || k%3 == int(c.Seed%3))
		}
		phase("replace/truncate/" + t.name)
		scriptCase("append-byte/"+t.name, append(append([]byte{}, base...), byte(r.U64())), "", true)
	}
	c.Stats.Extra["single_byte_mutations_go_side"] = nMut
	phase("template-rest(last)")

	// ---- (2b) large templates (Go side only): inscriptions whose content needs each of the long push forms, followed by
	// an OP_RETURN suffix whose data needs another one, in every order of sizes — what one push's header leaves behind
	// must not show in the next; bare multisig / P2PK behind and before large data pushes
	for _, n1 := range []int{75, 76, 255, 256, 65535, 65536, 70000} {
		for _, n2 := range []int{-1, 0, 1, 76, 300, 65535, 65536} {
			if !c.Thorough() && (n1+n2+int(c.Seed))%2 == 1 && !(n1 >= 65536 && n2 == 300) {
				continue
			}
			var opret [][]byte
			if n2 >= 0 {
				opret = [][]byte{r.Bytes(n2)}
			}
			scriptCase("large-template/inscription", inscription(r, "image/png", r.Bytes(n1), opret), bscript.ScriptTypePubKeyHashInscription, false)
			if n2 >= 0 {
				scriptCase("large-template/data", append(append([]byte{0x00, 0x6a}, sg.Push(sg.FormMinimal, r.Bytes(n1))...), sg.Push(sg.FormMinimal, r.Bytes(n2))...), bscript.ScriptTypeNullData, false)
			}
		}
	}

	phase("large-template")
	// ---- (3) inputs of earlier defects and hand-made near-templates
	for _, h := range []string{
		"01024c00", "4c00515151ae", "006a015101ae", "6a015101ae", "514c00ae", "51ae", "5151ae", "00ae", "0000ae", "4c004c00ae", "514c0051ae",
		"76a9", "76a914", "76a94c00", "76a900", "76", "76a9140102", "a914000102030405060708090a0b0c0d0e0f1011121387",
		"76a94c0088ac0063036f726451000000684c00", "76a90088ac0063036f72645100000068", "76a94c0088ac00634c0051000000684c00",
		"76a94c0088ac0063016f51000000684c00", "76a94c0088ac0063026f7251000000684c00", "4c004c004c004c004c004c004c004c004c004c004c004c004c00",
		"76a94c0088ac0063036f7264514c00004c0068", "76a914000102030405060708090a0b0c0d0e0f1011121388ac0063036f7264510000006a",
		"21" + strings.Repeat("02", 33) + "ac", "21" + strings.Repeat("05", 33) + "ac", "41" + strings.Repeat("02", 65) + "ac", "4c21" + strings.Repeat("03", 33) + "ac",
		"20" + strings.Repeat("02", 32) + "ac", "00ac", "4c00ac", "0100ac", "0102ac",
	} {
		scriptCase("near-template", common.Unhex(h), "", true)
	}

	// ---- (4) generated scripts and random bytes
	nGen := 200
	if full || search {
		nGen = 8000
	}
	for i := 0; i < nGen; i++ {
		s, _ := sg.Random(r, 1+r.Intn(16), r.Intn(4))
		scriptCase("generated", s, "", true)
	}
	for i := 0; i < nGen; i++ {
		scriptCase("random-bytes", r.Bytes(1+r.Intn(40)), "", true)
	}
	// scripts made of zero-length pushes and small opcodes only: many short parts
	for i := 0; i < nGen; i++ {
		var s []byte
		for k := 0; k < 3+r.Intn(14); k++ {
			s = append(s, [][]byte{{0x4c, 0}, {0x4d, 0, 0}, {0x00}, {0x51}, {0x76}, {0xa9}, {0x88}, {0xac}, {0x63}, {0x68}, {0x6a}, {0xae}, {0x03, 0x6f, 0x72, 0x64}, {0x01, 0x6f}}[r.Intn(14)]...)
		}
		scriptCase("short-parts", s, "", true)
	}
	phase("near/generated/random/short-parts")
	// fresh templates must classify
	nT := 30
	if full || search {
		nT = 1500
	}
	for i := 0; i < nT; i++ {
		for _, t := range templates(r) {
			scriptCase("fresh-template/"+t.name, t.bytes(), t.typ, i < 3)
		}
	}

	phase("fresh-template")
	// ---- (5) short pushes: scripts of one to three pushes of 0..5 bytes (the lengths around the four-byte boundary at
	// which a data script's pushes are rendered as numbers) behind OP_RETURN, OP_FALSE OP_RETURN and behind a non-data
	// prefix, each push in its shortest form, and again with forms drawn per push; a short push in front of more script
	// and as the last thing of the script
	{
		var rec func(prefix []byte, k int, forms bool)
		emit := func(s []byte) { scriptCase("short-pushes", s, "", true) }
		rec = func(cur []byte, k int, forms bool) {
			if k == 0 {
				return
			}
			for ln := 0; ln <= 5; ln++ {
				d := r.Bytes(ln)
				for i := range d {
					if r.Chance(25) {
						d[i] = []byte{0x00, 0x80, 0xff, 0x7f}[r.Intn(4)]
					}
				}
				form := sg.FormMinimal
				if forms {
					form = []int{sg.FormMinimal, sg.FormPD1, sg.FormPD2, sg.FormPD4}[r.Intn(4)]
				}
				next := append(append([]byte{}, cur...), sg.Push(form, d)...)
				emit(next)
				rec(next, k-1, forms)
			}
		}
		depth := 2
		if full || search {
			depth = 3
		}
		for _, prefix := range [][]byte{{0x6a}, {0x00, 0x6a}, {0x51}, {0x00}} {
			rec(prefix, depth, false)
			rec(prefix, depth, true)
			// three pushes in quick: a seed-chosen first length, every pair behind it
			if depth == 2 {
				first := sg.Push(sg.FormMinimal, r.Bytes(int(c.Seed+uint64(len(prefix)))%6))
				rec(append(append([]byte{}, prefix...), first...), 2, false)
			}
		}
	}
	phase("short-pushes")
	_ = bytes.Equal

	c.Stats.Rule = "(1) every byte string of length <= 2 through every inspection query under recover() (ScriptType, IsP2PKH/IsP2PK/IsP2SH/IsData/IsMultiSigOut/IsP2PKHInscription, PublicKeyHash, Addresses, ParseInscription, ToASM, json.Marshal(tx.NodeJSON()) of a tx carrying the script; <= 3 bytes in thorough, Go side only); model side all of length <= 1 plus the seed-chosen residue class mod 8 in quick, all in thorough; (2) ten templates (P2PKH, P2PK 33/65, 1-of-2 and 2-of-3 multisig, OP_RETURN and OP_FALSE OP_RETURN data, three P2PKH inscriptions built by Tx.Inscribe incl. enriched and empty fields): every byte position x every other value on the Go side (model side: xor 01, xor ff, 00, 4c, 6a in quick, all in thorough), each push replaced by 4c00 / 4d0000 / 4e00000000 / 00 / itself minus the last byte / its header / a non-minimal form / a one-byte push, each token removed, each opcode replaced by 4c00, every truncation, one byte appended; (3) inputs of earlier defects and near-templates; (4) grammar-generated scripts, random bytes, scripts of zero-length pushes and short parts, fresh templates; (5) data and non-data scripts of one to three pushes of 0..5 bytes in shortest and drawn forms. On every script, besides the queries on private copies: every query twice on ONE Script value that is a window of a larger buffer (guard | script | spare capacity | sibling script | guard) — the buffer, the Script value and the answers must be what they were (purity.go); for the model-side cases also the node and standard JSON renderings of a transaction whose two scripts are windows of one buffer (hex = the script, asm = ToASM, txid and bytes unchanged, same rendering twice). distinct = distinct script bytes; non-trivial = non-empty script"
	c.Finish()
}
