// Inspection is read-only and repeatable: every query is run on a script that lies INSIDE a larger buffer (an arena)
// with spare capacity behind it and a sibling script cut from the same buffer further on — the layout of scripts that
// are windows of one decoded transaction — and after every query the whole arena, the Script value (pointer, length,
// capacity) and the answers are compared with what they were before. A query that normalises, pads, appends to or
// sorts what it was handed (the script, a part returned by DecodeParts, a slice of either) shows here even when its own
// first answer is still right.
package main

import (
	"bytes"
	"encoding/hex"
	"encoding/json"
	"fmt"
	"runtime"
	"strings"
	"sync"

	"github.com/libsv/go-bt/v2"
	"github.com/libsv/go-bt/v2/bscript"

	"verif/harness/common"
	sg "verif/harness/script13"
)

type viol struct{ site, what string }

// query: one inspection query and its answer as the field of the observation text (corr/C14.v obs_inspect).
type query struct {
	prefix string
	run    func(sc *bscript.Script) string
}

func vb(b bool) string {
	if b {
		return "+1"
	}
	return "+0"
}

var queries = []query{
	{"T", func(sc *bscript.Script) string { return "T+" + sc.ScriptType() }},
	{";k", func(sc *bscript.Script) string { return ";k" + vb(sc.IsP2PKH()) }},
	{";p", func(sc *bscript.Script) string { return ";p" + vb(sc.IsP2PK()) }},
	{";s", func(sc *bscript.Script) string { return ";s" + vb(sc.IsP2SH()) }},
	{";d", func(sc *bscript.Script) string { return ";d" + vb(sc.IsData()) }},
	{";m", func(sc *bscript.Script) string { return ";m" + vb(sc.IsMultiSigOut()) }},
	{";i", func(sc *bscript.Script) string { return ";i" + vb(sc.IsP2PKHInscription()) }},
	{";H", func(sc *bscript.Script) string {
		h, err := sc.PublicKeyHash()
		if err != nil {
			return ";H-"
		}
		return ";H+" + sg.Habbr(h)
	}},
	{";A", func(sc *bscript.Script) string {
		as, err := sc.Addresses()
		if err != nil {
			return ";A-"
		}
		var hs []string
		for _, a := range as {
			// project the address onto the hash it encodes
			ad, e := bscript.NewAddressFromString(a)
			if e != nil {
				hs = append(hs, "bad-address")
				continue
			}
			hs = append(hs, sg.Sabbr(ad.PublicKeyHash))
		}
		return ";A+" + strings.Join(hs, ",")
	}},
	{";I", func(sc *bscript.Script) string {
		ia, err := sc.ParseInscription()
		if err != nil {
			return ";I-"
		}
		return ";I+" + sg.Habbr([]byte(*ia.LockingScriptPrefix)) + "," + sg.Habbr(ia.Data) + "," + sg.Habbr([]byte(ia.ContentType))
	}},
	{";a", func(sc *bscript.Script) string {
		a, err := sc.ToASM()
		if err != nil {
			return ";a-"
		}
		return ";a+" + sg.Sabbr(a)
	}},
}

// further read-only entry points of the anchored files: no answer is compared with the model, they only have to
// leave the arena alone and answer the same twice.
var extraQueries = []query{
	{"IsInscribed", func(sc *bscript.Script) string { return vb(sc.IsInscribed()) }},
	{"String", func(sc *bscript.Script) string { return sc.String() }},
	{"DecodeParts", func(sc *bscript.Script) string {
		parts, err := bscript.DecodeParts(*sc)
		return fmt.Sprintf("%d,%v", len(parts), err != nil)
	}},
	{"EncodeParts(DecodeParts)", func(sc *bscript.Script) string {
		// the parts handed to EncodeParts are windows of the script
		parts, _ := bscript.DecodeParts(*sc)
		enc, err := bscript.EncodeParts(parts)
		if err != nil {
			return "-"
		}
		return sg.Habbr(enc)
	}},
	{"MarshalJSON", func(sc *bscript.Script) string {
		bb, err := json.Marshal(sc)
		if err != nil {
			return "-"
		}
		return sg.Sabbr(string(bb))
	}},
}

const (
	guardPre  = 16
	guardMid  = 24
	guardPost = 8
)

// arenaFor lays the script out as  guard | script | spare capacity | sibling (the same bytes) | guard  in ONE buffer. The
// guard bytes depend on the script only (deterministic, no use of the case generator's random stream) and differ from
// script to script, so a write of any constant is visible on all but 1/256 of the scripts.
func arenaFor(s []byte) (arena []byte, a, b int) {
	n := len(s)
	arena = make([]byte, guardPre+n+guardMid+n+guardPost)
	x := uint64(0xcbf29ce484222325)
	for _, c := range s {
		x = (x ^ uint64(c)) * 0x100000001b3
	}
	x ^= uint64(n)<<32 | 0x9e3779b9
	for i := range arena {
		x ^= x << 13
		x ^= x >> 7
		x ^= x << 17
		arena[i] = byte(x >> 24)
	}
	a, b = guardPre, guardPre+n+guardMid
	copy(arena[a:], s)
	copy(arena[b:], s)
	return
}

func region(off, a, b, n int) string {
	switch {
	case off < a:
		return fmt.Sprintf("the buffer %d byte(s) in front of the script", a-off)
	case off < a+n:
		return fmt.Sprintf("script byte %d", off-a)
	case off < b:
		return fmt.Sprintf("the spare capacity behind the script (byte %d past its end)", off-a-n)
	case off < b+n:
		return fmt.Sprintf("byte %d of the sibling script cut from the same buffer", off-b)
	}
	return "the buffer behind the sibling script"
}

// purity runs every query twice on ONE Script value that is a window of an arena and reports
//
//	<Query>/writes-into-the-script     the arena (script, spare capacity, sibling, guards) is not byte-for-byte what it was
//	<Query>/script-value-changed       the Script value itself (pointer / length / capacity) was replaced
//	<Query>/second-answer-differs      the same query on the same value answered differently the second time
//	<Query>/answer-depends-on-history  the answer differs from the one given for a private copy of the same bytes
//
// fresh: the answers for private copies (observe). After a finding the arena is restored, so every query is judged on
// its own.
func purity(s []byte, fresh map[string]string, withJSON bool) (out []viol) {
	n := len(s)
	arena, a, b := arenaFor(s)
	snap := append([]byte{}, arena...)
	window := func(off int) *bscript.Script { sc := bscript.Script(arena[off : off+n]); return &sc }
	sc := window(a)
	capWant := cap(*sc)
	add := func(site, what string) { out = append(out, viol{site, what}) }
	settle := func(name string) {
		if !bytes.Equal(arena, snap) {
			off := 0
			for arena[off] == snap[off] {
				off++
			}
			add(name+"/writes-into-the-script", fmt.Sprintf("%s was run on a script that is a window (offset %d, length %d) of a %d-byte buffer; afterwards %s is %02x instead of %02x: the script now reads %s",
				name, a, n, len(arena), region(off, a, b, n), arena[off], snap[off], trunc(common.Hex(arena[a:a+n]))))
			copy(arena, snap)
		}
		if len(*sc) != n || cap(*sc) != capWant || (n > 0 && &(*sc)[0] != &arena[a]) {
			add(name+"/script-value-changed", fmt.Sprintf("%s replaced the Script value it was called on: length %d -> %d, capacity %d -> %d", name, n, len(*sc), capWant, cap(*sc)))
			sc = window(a)
		}
	}
	ask := func(q query, named string) {
		var r1, r2 string
		if p, _ := common.Safely(func() { r1 = q.run(sc) }); p {
			r1 = q.prefix + "!"
		}
		if p, _ := common.Safely(func() { r2 = q.run(sc) }); p {
			r2 = q.prefix + "!"
		}
		if r1 != r2 {
			add(named+"/second-answer-differs", fmt.Sprintf("%s asked twice of the same Script value: first %q, then %q", named, trunc(r1), trunc(r2)))
		}
		if f, ok := fresh[q.prefix]; ok && f != r1 {
			add(named+"/answer-depends-on-history", fmt.Sprintf("%s of a private copy of these bytes: %q; of the same bytes inside a larger buffer after the other queries: %q", named, trunc(f), trunc(r1)))
		}
		settle(named)
	}
	for _, q := range queries {
		ask(q, queryName[q.prefix])
	}
	for _, q := range extraQueries {
		ask(q, q.prefix)
	}
	if !withJSON {
		return
	}

	// a transaction whose unlocking and locking script are windows of the same buffer: rendering it (node dialect: asm
	// first, hex afterwards, then txid and the whole hex; standard dialect) must not change what it renders
	var tx *bt.Tx
	var idBefore, hexBefore string
	unl := window(b)
	if p, msg := common.Safely(func() {
		tx = bt.NewTx()
		_ = tx.From("11b476ad8e0a48fcd40807a111a050af51114877e09283bfa7f3505081a1819d", 0, "76a914000102030405060708090a0b0c0d0e0f1011121388ac", 1500)
		tx.Inputs[0].UnlockingScript = unl
		tx.AddOutput(&bt.Output{Satoshis: 1000, LockingScript: sc})
		idBefore, hexBefore = tx.TxID(), tx.String()
	}); p {
		add("Tx/panic", msg)
		return
	}
	settle("Tx.TxID")
	type nodeDoc struct {
		TxID string `json:"txid"`
		Hex  string `json:"hex"`
		Vin  []struct {
			ScriptSig struct {
				Asm string `json:"asm"`
				Hex string `json:"hex"`
			} `json:"scriptSig"`
		} `json:"vin"`
		Vout []struct {
			ScriptPubKey struct {
				Asm string `json:"asm"`
				Hex string `json:"hex"`
			} `json:"scriptPubKey"`
		} `json:"vout"`
	}
	render := func(name string, f func() (interface{}, error)) (string, bool) {
		var bb []byte
		var err error
		if p, _ := common.Safely(func() {
			var v interface{}
			if v, err = f(); err == nil {
				bb, err = json.Marshal(v)
			}
		}); p {
			return "", false // reported by observe
		}
		if err != nil {
			return "", false
		}
		return string(bb), true
	}
	wantHex := common.Hex(s)
	wantAsm, haveAsm := fresh[";a"]
	for _, dialect := range []struct {
		name string
		f    func() (interface{}, error)
	}{
		{"NodeJSON", func() (interface{}, error) { return tx.NodeJSON(), nil }},
		{"Tx.MarshalJSON", func() (interface{}, error) { return tx, nil }},
	} {
		j1, ok1 := render(dialect.name, dialect.f)
		if ok1 && dialect.name == "NodeJSON" {
			var doc nodeDoc
			if err := json.Unmarshal([]byte(j1), &doc); err == nil && len(doc.Vin) == 1 && len(doc.Vout) == 1 {
				lock, unlock := doc.Vout[0].ScriptPubKey, doc.Vin[0].ScriptSig
				if lock.Hex != wantHex || unlock.Hex != wantHex {
					add("NodeJSON/hex-is-not-the-script", fmt.Sprintf("scriptPubKey.hex %s, scriptSig.hex %s; the scripts of the transaction are both %s", trunc(lock.Hex), trunc(unlock.Hex), trunc(wantHex)))
				}
				if haveAsm && strings.HasPrefix(wantAsm, ";a+") && (";a+"+sg.Sabbr(lock.Asm) != wantAsm || ";a+"+sg.Sabbr(unlock.Asm) != wantAsm) {
					add("NodeJSON/asm-is-not-ToASM", fmt.Sprintf("scriptPubKey.asm %q, scriptSig.asm %q; ToASM of these bytes: %q", trunc(lock.Asm), trunc(unlock.Asm), trunc(wantAsm[3:])))
				}
				if doc.TxID != idBefore || doc.Hex != hexBefore {
					add("NodeJSON/txid-or-hex-is-not-the-transaction", fmt.Sprintf("txid %s hex %s in the rendering; before rendering the transaction was %s = %s", doc.TxID, trunc(doc.Hex), idBefore, trunc(hexBefore)))
				}
			}
		}
		j2, ok2 := render(dialect.name, dialect.f)
		if ok1 != ok2 || j1 != j2 {
			add(dialect.name+"/second-answer-differs", fmt.Sprintf("the same transaction rendered twice: first %s, then %s", trunc(j1), trunc(j2)))
		}
		settle(dialect.name)
		var idAfter, hexAfter string
		if p, _ := common.Safely(func() { idAfter, hexAfter = tx.TxID(), tx.String() }); !p && (idAfter != idBefore || hexAfter != hexBefore) {
			add(dialect.name+"/transaction-changed-by-rendering", fmt.Sprintf("before: %s = %s; after: %s = %s", idBefore, trunc(hexBefore), idAfter, trunc(hexAfter)))
		}
		// the Script values the transaction points at
		if tx.Outputs[0].LockingScript != sc || tx.Inputs[0].UnlockingScript != unl || len(*sc) != n || len(*unl) != n {
			add(dialect.name+"/script-value-changed", "the transaction's script pointers / lengths are not what they were before rendering")
			// the next rendering is judged on the transaction as it was
			sc, unl = window(a), window(b)
			tx.Outputs[0].LockingScript, tx.Inputs[0].UnlockingScript = sc, unl
		}
	}
	return
}

// ---------- parallel observation ----------

// observeAll observes every script of the batch (on all cores; the order of the results is the order of the batch, and
// nothing but the library is called concurrently — the predicates and the case output stay sequential).
func observeAll(ss [][]byte, withJSON, pure, pureJSON bool) []*obs {
	res := make([]*obs, len(ss))
	w := runtime.NumCPU()
	if w > 16 {
		w = 16
	}
	if w > len(ss) {
		w = len(ss)
	}
	var wg sync.WaitGroup
	for k := 0; k < w; k++ {
		wg.Add(1)
		go func(k int) {
			defer wg.Done()
			for i := k; i < len(ss); i += w {
				res[i] = observeOpt(ss[i], withJSON)
				if pure {
					res[i].impure = purity(ss[i], res[i].fields, pureJSON)
				}
			}
		}(k)
	}
	wg.Wait()
	return res
}

var perSite = map[string]int{}

// impurities: the findings of purity as violations (at most three inputs per site).
func impurities(s []byte, o *obs) {
	for _, v := range o.impure {
		if perSite[v.site]++; perSite[v.site] <= 3 {
			c.Violate(v.site, v.what, trunc(common.Hex(s)))
		}
	}
}

func hexOf(h string) string {
	b, err := hex.DecodeString(h)
	if err != nil {
		return "bad-hex"
	}
	return sg.Habbr(b)
}
