// The readers the reader-based entry points are driven through. The decoders take an io.Reader; what they
// may rely on is io.Reader's contract only. A decoder that looks at the dynamic TYPE of the reader (a type
// assertion on *bytes.Reader / *bytes.Buffer / *bufio.Reader / *io.LimitedReader / *io.SectionReader, or on
// an optional interface: Len(), Size(), io.ByteReader, io.WriterTo, io.Seeker, io.ReaderAt, Peek/Buffered)
// takes a different path per type, so every input goes through one reader of every such kind; for the types
// that carry a LIMIT rather than a promise (LimitedReader.N, the size of a SectionReader) the limit is also set
// far above the data really present - a caller-side safety cap, the usual way these types are used.
package main

import (
	"bufio"
	"bytes"
	"errors"
	"io"
	"math"
	"strings"
	"testing/iotest"
)

type rdr struct {
	name string
	mk   func() io.Reader
}

var errBoom = errors.New("reader failed")

// chunkReader hands out the data a few bytes at a time (1,2,..,7,1,..), never more
type chunkReader struct {
	b []byte
	k int
}

func (r *chunkReader) Read(p []byte) (int, error) {
	if len(r.b) == 0 {
		return 0, io.EOF
	}
	r.k = r.k%7 + 1
	n := r.k
	if n > len(p) {
		n = len(p)
	}
	if n > len(r.b) {
		n = len(r.b)
	}
	copy(p, r.b[:n])
	r.b = r.b[n:]
	return n, nil
}

// stallReader returns (0, nil) on every other call (allowed by io.Reader, "discouraged") and at most 3 bytes
// otherwise
type stallReader struct {
	b    []byte
	tick bool
}

func (r *stallReader) Read(p []byte) (int, error) {
	r.tick = !r.tick
	if r.tick && len(p) > 0 {
		return 0, nil
	}
	if len(r.b) == 0 {
		return 0, io.EOF
	}
	n := 3
	if n > len(p) {
		n = len(p)
	}
	if n > len(r.b) {
		n = len(r.b)
	}
	copy(p, r.b[:n])
	r.b = r.b[n:]
	return n, nil
}

// failReader supplies the data and then fails with an error that is not io.EOF (a connection that breaks)
type failReader struct{ b []byte }

func (r *failReader) Read(p []byte) (int, error) {
	if len(r.b) == 0 {
		return 0, errBoom
	}
	n := copy(p, r.b)
	r.b = r.b[n:]
	return n, nil
}

// capReader is NOT one of the standard library's types and implements, truthfully, every optional interface a
// decoder could probe for: Len/Size/Buffered report what is really left, ReadByte/UnreadByte, Peek/Discard,
// WriteTo, Seek, ReadAt. Read itself hands out at most 5 bytes per call. A fast path reached through an
// interface assertion (rather than a concrete type) is exercised through it.
type capReader struct {
	b   []byte
	off int
}

func (r *capReader) Read(p []byte) (int, error) {
	if r.off >= len(r.b) {
		return 0, io.EOF
	}
	n := 5
	if n > len(p) {
		n = len(p)
	}
	if n > len(r.b)-r.off {
		n = len(r.b) - r.off
	}
	copy(p, r.b[r.off:r.off+n])
	r.off += n
	return n, nil
}
func (r *capReader) Len() int      { return len(r.b) - r.off }
func (r *capReader) Size() int64   { return int64(len(r.b)) }
func (r *capReader) Buffered() int { return len(r.b) - r.off }
func (r *capReader) ReadByte() (byte, error) {
	if r.off >= len(r.b) {
		return 0, io.EOF
	}
	r.off++
	return r.b[r.off-1], nil
}
func (r *capReader) UnreadByte() error {
	if r.off == 0 {
		return errors.New("capReader: at beginning")
	}
	r.off--
	return nil
}
func (r *capReader) Peek(n int) ([]byte, error) {
	if n < 0 {
		return nil, errors.New("capReader: negative count")
	}
	if n > len(r.b)-r.off {
		return append([]byte{}, r.b[r.off:]...), io.EOF
	}
	return append([]byte{}, r.b[r.off:r.off+n]...), nil
}
func (r *capReader) Discard(n int) (int, error) {
	if n > len(r.b)-r.off {
		n = len(r.b) - r.off
		r.off = len(r.b)
		return n, io.EOF
	}
	r.off += n
	return n, nil
}
func (r *capReader) WriteTo(w io.Writer) (int64, error) {
	n, err := w.Write(r.b[r.off:])
	r.off += n
	return int64(n), err
}
func (r *capReader) Seek(offset int64, whence int) (int64, error) {
	var abs int64
	switch whence {
	case io.SeekStart:
		abs = offset
	case io.SeekCurrent:
		abs = int64(r.off) + offset
	case io.SeekEnd:
		abs = int64(len(r.b)) + offset
	default:
		return 0, errors.New("capReader: invalid whence")
	}
	if abs < 0 {
		return 0, errors.New("capReader: negative position")
	}
	if abs > int64(len(r.b)) {
		abs = int64(len(r.b))
	}
	r.off = int(abs)
	return abs, nil
}
func (r *capReader) ReadAt(p []byte, off int64) (int, error) {
	if off < 0 || off >= int64(len(r.b)) {
		return 0, io.EOF
	}
	n := copy(p, r.b[off:])
	if n < len(p) {
		return n, io.EOF
	}
	return n, nil
}

// variantReaders: every reader delivers exactly the bytes of b and then ends (io.EOF, or errBoom for the
// failing reader): the decoder's verdict and byte count must be those of the plain *bytes.Reader, and what it
// allocates must obey the same bound.
func variantReaders(b []byte) []rdr {
	n := int64(len(b))
	br := func() *bytes.Reader { return bytes.NewReader(b) }
	return []rdr{
		// readers without any optional method: short reads of several shapes
		{"iotest.OneByteReader", func() io.Reader { return iotest.OneByteReader(br()) }},
		{"chunked reader", func() io.Reader { return &chunkReader{b: b} }},
		{"iotest.DataErrReader", func() io.Reader { return iotest.DataErrReader(br()) }},
		{"iotest.HalfReader", func() io.Reader { return iotest.HalfReader(br()) }},
		{"stalling reader (0,nil every other call)", func() io.Reader { return &stallReader{b: b} }},
		{"reader failing with a non-EOF error after the data", func() io.Reader { return &failReader{b: b} }},
		// standard library types a decoder can recognise
		{"*bytes.Buffer", func() io.Reader { return bytes.NewBuffer(append(make([]byte, 0, len(b)+64), b...)) }},
		{"*strings.Reader", func() io.Reader { return strings.NewReader(string(b)) }},
		{"*bufio.Reader", func() io.Reader { return bufio.NewReader(br()) }},
		{"*bufio.Reader(size 16) over a chunked reader", func() io.Reader { return bufio.NewReaderSize(&chunkReader{b: b}, 16) }},
		{"io.MultiReader(halves)", func() io.Reader {
			return io.MultiReader(bytes.NewReader(b[:len(b)/2]), bytes.NewReader(b[len(b)/2:]))
		}},
		// limit-carrying types: the limit is a cap, not the amount of data
		{"*io.LimitedReader(N=len)", func() io.Reader { return io.LimitReader(br(), n) }},
		{"*io.LimitedReader(N=len+4097)", func() io.Reader { return io.LimitReader(br(), n+4097) }},
		{"*io.LimitedReader(N=2^30)", func() io.Reader { return io.LimitReader(br(), 1<<30) }},
		{"*io.LimitedReader(N=2^63-1) over a chunked reader", func() io.Reader { return io.LimitReader(&chunkReader{b: b}, math.MaxInt64) }},
		{"*io.SectionReader(size=len)", func() io.Reader { return io.NewSectionReader(br(), 0, n) }},
		{"*io.SectionReader(size=2^30)", func() io.Reader { return io.NewSectionReader(br(), 0, 1<<30) }},
		{"*io.SectionReader(size=2^63-1)", func() io.Reader { return io.NewSectionReader(br(), 0, math.MaxInt64) }},
		// a non-standard type with every optional method, all truthful
		{"reader with Len/Size/ReadByte/Peek/WriteTo/Seek/ReadAt", func() io.Reader { return &capReader{b: b} }},
	}
}
