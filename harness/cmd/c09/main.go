// c09: decoding untrusted bytes is total and resource-bounded. Every Go-side decode runs in an
// isolated child process with a capped address space (a regression can abort the process); the
// parent turns the observations (verdict, bytes consumed, measured allocation) into cases for the
// Coq models (coq/corr/C09.v) and states the property directly in Go on every case.
package main

import (
	"bytes"
	"encoding/base64"
	"encoding/binary"
	"encoding/json"
	"fmt"
	"io"
	"os"
	"path/filepath"
	"runtime"
	"sort"
	"strings"
	"time"

	"github.com/libsv/go-bt/v2"

	"verif/harness/common"
	"verif/harness/jsondoc"
	"verif/harness/txgen"
)

var c *common.Ctx

const header = `From Coq Require Import List NArith ZArith String.
From Coq Require Import Strings.Byte.
From GoBT Require Import lib.Bytes lib.Hex model.Tx model.Amount model.Json corr.C09.
Import ListNotations. Local Open Scope N_scope. Local Open Scope string_scope.
`

// the theorem's bound (coq/model/Alloc.v: alloc_bound) and the Go-only bound for the JSON paths
func allocBound(n int) uint64     { return 32*uint64(n) + 16384 }
func jsonAllocBound(n int) uint64 { return 96*uint64(n) + 65536 }

// ---------- child side ----------

type reply struct {
	OK    bool               `json:"ok"`
	Used  int64              `json:"used"`
	FB    bool               `json:"fb"`
	Alloc uint64             `json:"alloc"`
	Viol  []common.Violation `json:"viol,omitempty"`
	Obs   map[string]string  `json:"obs,omitempty"`
}

func measure(f func()) uint64 {
	var m1, m2 runtime.MemStats
	runtime.ReadMemStats(&m1)
	f()
	runtime.ReadMemStats(&m2)
	return m2.TotalAlloc - m1.TotalAlloc
}

type readFromer func(r io.Reader) (int64, error)

var remeasured int

func handle(line string) string {
	f := strings.SplitN(line, " ", 3)
	var rp reply
	viol := func(site, what string) {
		rp.Viol = append(rp.Viol, common.Violation{Site: site, What: what, Input: map[string]string{"entry": f[1], "input": trunc(f[2])}})
	}
	switch f[0] {
	case "D":
		doDecode(f[1], common.Unhex(f[2]), &rp, viol)
	case "J":
		doc, _ := base64.StdEncoding.DecodeString(f[2])
		doJSON(f[1], doc, &rp, func(site, what string) {
			rp.Viol = append(rp.Viol, common.Violation{Site: site, What: what, Input: map[string]string{"entry": f[1], "doc": trunc(string(doc))}})
		})
	}
	bb, _ := json.Marshal(rp)
	return string(bb)
}

func apiName(entry string) string {
	return map[string]string{"tx": "Tx.ReadFrom", "txs": "Txs.ReadFrom", "in": "Input.ReadFrom", "inx": "Input.ReadFromExtended", "out": "Output.ReadFrom"}[entry]
}

func doDecode(entry string, b []byte, rp *reply, viol func(site, what string)) {
	mk := func() readFromer {
		switch entry {
		case "tx":
			return (&bt.Tx{}).ReadFrom
		case "txs":
			return (&bt.Txs{}).ReadFrom
		case "in":
			return (&bt.Input{}).ReadFrom
		case "inx":
			return (&bt.Input{}).ReadFromExtended
		default:
			return (&bt.Output{}).ReadFrom
		}
	}
	api := apiName(entry)
	type res struct {
		ok   bool
		used int64
	}
	// the plain *bytes.Reader run is the reference: it runs three times and the smallest allocation is reported
	// (the decoders are deterministic; one-off runtime allocations - a GC cycle starting its workers, a sync.Pool
	// refill - are not)
	check := func(name string, r res, al uint64) {
		if r.used > int64(len(b)) || r.used < 0 {
			viol(api+"/consumed-gt-supplied", fmt.Sprintf("%s: reports %d bytes read of %d supplied", name, r.used, len(b)))
		}
		if al > allocBound(len(b)) {
			viol(api+"/alloc-not-linear", fmt.Sprintf("%s: allocated %d bytes for %d bytes of input (bound %d)", name, al, len(b), allocBound(len(b))))
		}
	}
	run := func(name string, mkr func() io.Reader) (res, uint64, bool) {
		var n int64
		var err error
		var al uint64
		p, msg := common.Safely(func() {
			for k := 0; k < 3; k++ {
				rf, r := mk(), mkr()
				a := measure(func() { n, err = rf(r) })
				if k == 0 || a < al {
					al = a
				}
			}
		})
		if p {
			viol(api+"/panic", name+": "+msg)
			return res{}, 0, false
		}
		check(name, res{err == nil, n}, al)
		return res{err == nil, n}, al, true
	}
	base, al, okRun := run("*bytes.Reader", func() io.Reader { return bytes.NewReader(b) })
	if !okRun {
		return
	}
	rp.OK, rp.Used, rp.Alloc = base.ok, base.used, al
	// every other reader: decoders and readers are built first, then all the runs follow each other inside ONE
	// measured window (runtime.ReadMemStats stops the world: it is the expensive part of a case). The decoders are
	// deterministic and must not care about the reader's type: the window's total is as many times what
	// *bytes.Reader needed. When it is more (by 512 bytes in all), every reader is measured again on its own
	// (smallest of three runs), checked against the bound, and the largest figure is what the model comparison gets.
	vs := variantReaders(b)
	rfs := make([]readFromer, len(vs))
	rds := make([]io.Reader, len(vs))
	for i, v := range vs {
		rfs[i], rds[i] = mk(), v.mk()
	}
	results := make([]res, len(vs))
	panicked := make([]string, len(vs))
	// (nothing in the window but the decoders allocates: the closures exist before it starts)
	idx := 0
	runRest := func() {
		for ; idx < len(vs); idx++ {
			n, err := rfs[idx](rds[idx])
			results[idx] = res{err == nil, n}
		}
	}
	total := measure(func() {
		for idx < len(vs) {
			if p, msg := common.Safely(runRest); p {
				panicked[idx] = "panic: " + msg
				idx++
			}
		}
	})
	remeasure := total > uint64(len(vs))*al+512
	for i, v := range vs {
		if panicked[i] != "" {
			viol(api+"/panic", v.name+": "+panicked[i])
			continue
		}
		if remeasure {
			if _, a, ok := run(v.name, v.mk); ok && a > rp.Alloc {
				rp.Alloc = a
			}
		} else {
			check(v.name, results[i], 0)
		}
		if results[i] != base {
			viol(api+"/reader-dependence", fmt.Sprintf("%s: ok=%v used=%d, *bytes.Reader: ok=%v used=%d", v.name, results[i].ok, results[i].used, base.ok, base.used))
		}
	}
	if remeasure {
		remeasured++
	}
	// a limit BELOW the data: the input is the first N bytes, nothing else may be consumed or reported
	if half := len(b) / 2; half > 0 {
		var got, want res
		if p, msg := common.Safely(func() {
			n, err := mk()(io.LimitReader(bytes.NewReader(b), int64(half)))
			got = res{err == nil, n}
			n, err = mk()(bytes.NewReader(b[:half]))
			want = res{err == nil, n}
		}); p {
			viol(api+"/panic", "*io.LimitedReader(N=len/2): "+msg)
		} else {
			if got.used > int64(half) {
				viol(api+"/consumed-gt-supplied", fmt.Sprintf("*io.LimitedReader(N=len/2): reports %d bytes read of %d supplied", got.used, half))
			}
			if got != want {
				viol(api+"/reader-dependence", fmt.Sprintf("*io.LimitedReader(N=%d): ok=%v used=%d, *bytes.Reader over the first %d bytes: ok=%v used=%d", half, got.ok, got.used, half, want.ok, want.used))
			}
		}
	}
	if entry == "tx" {
		// NewTxFromStream and NewTxFromBytes on the same bytes
		var used int
		var err error
		var al2 uint64
		if p, msg := common.Safely(func() {
			al2 = measure(func() { _, used, err = bt.NewTxFromStream(b) })
			for k := 0; k < 2; k++ {
				if a := measure(func() { _, used, err = bt.NewTxFromStream(b) }); a < al2 {
					al2 = a
				}
			}
		}); p {
			viol("NewTxFromStream/panic", msg)
			return
		}
		if used > len(b) || used < 0 {
			viol("NewTxFromStream/consumed-gt-supplied", fmt.Sprintf("reports %d bytes used of %d supplied", used, len(b)))
		}
		if (err == nil) != base.ok || int64(used) != base.used {
			viol("NewTxFromStream/differs-from-ReadFrom", fmt.Sprintf("ok=%v used=%d vs ok=%v used=%d", err == nil, used, base.ok, base.used))
		}
		if al2 > allocBound(len(b)) {
			viol("NewTxFromStream/alloc-not-linear", fmt.Sprintf("allocated %d bytes for %d bytes of input (bound %d)", al2, len(b), allocBound(len(b))))
		}
		if al2 > rp.Alloc {
			rp.Alloc = al2
		}
		var e3 error
		if p, msg := common.Safely(func() { _, e3 = bt.NewTxFromBytes(b) }); p {
			viol("NewTxFromBytes/panic", msg)
			return
		}
		rp.FB = e3 == nil
		if rp.FB != (base.ok && base.used == int64(len(b))) {
			viol("NewTxFromBytes/trailing", "accepts iff the stream decoder consumed everything: violated")
		}
	}
}

func doJSON(kind string, doc []byte, rp *reply, viol func(site, what string)) {
	rp.Obs = map[string]string{}
	var err error
	var run func()
	api := ""
	switch kind {
	case "tx":
		api = "json.Unmarshal(*bt.Tx)"
		tx := &bt.Tx{}
		run = func() {
			if err = json.Unmarshal(doc, tx); err == nil {
				rp.Obs["hex"] = common.Hex(tx.Bytes())
			}
		}
	case "nodetx":
		api = "json.Unmarshal(tx.NodeJSON())"
		tx := bt.NewTx()
		run = func() {
			if err = json.Unmarshal(doc, tx.NodeJSON()); err == nil {
				rp.Obs["hex"] = common.Hex(tx.Bytes())
			}
		}
	case "nodetxs":
		api = "json.Unmarshal(txs.NodeJSON())"
		var txs bt.Txs
		run = func() {
			if err = json.Unmarshal(doc, txs.NodeJSON()); err == nil {
				var all []byte
				for _, t := range txs {
					all = append(all, t.Bytes()...)
				}
				rp.Obs["hex"] = common.Hex(all)
			}
		}
	case "txs":
		api = "json.Unmarshal(*bt.Txs)"
		var txs bt.Txs
		run = func() {
			if err = json.Unmarshal(doc, &txs); err == nil {
				for _, t := range txs {
					if t != nil {
						_ = t.Bytes()
					}
				}
			}
		}
	case "nodeout":
		api = "json.Unmarshal(output.NodeJSON())"
		o := &bt.Output{}
		run = func() {
			if err = json.Unmarshal(doc, o.NodeJSON()); err == nil {
				rp.Obs["sats"] = fmt.Sprint(o.Satoshis)
				rp.Obs["lock"] = o.LockingScript.String()
			}
		}
	case "out":
		api = "json.Unmarshal(*bt.Output)"
		o := &bt.Output{}
		run = func() { err = json.Unmarshal(doc, o) }
	case "in":
		api = "json.Unmarshal(*bt.Input)"
		i := &bt.Input{}
		run = func() { err = json.Unmarshal(doc, i) }
	case "utxo", "nodeutxo":
		u := &bt.UTXO{}
		var target interface{} = u
		api = "json.Unmarshal(*bt.UTXO)"
		if kind == "nodeutxo" {
			target = u.NodeJSON()
			api = "json.Unmarshal(utxo.NodeJSON())"
		}
		run = func() {
			if err = json.Unmarshal(doc, target); err == nil {
				rp.Obs["txid"] = common.Hex(u.TxID)
				rp.Obs["vout"] = fmt.Sprint(u.Vout)
				rp.Obs["lock"] = u.LockingScript.String()
				rp.Obs["sats"] = fmt.Sprint(u.Satoshis)
			}
		}
	case "nodeutxos":
		api = "json.Unmarshal(utxos.NodeJSON())"
		var us bt.UTXOs
		run = func() { err = json.Unmarshal(doc, us.NodeJSON()) }
	default:
		panic("unknown json kind " + kind)
	}
	var al uint64
	if p, msg := common.Safely(func() { al = measure(run) }); p {
		viol(api+"/panic", msg)
		return
	}
	rp.OK, rp.Alloc = err == nil, al
	if al > jsonAllocBound(len(doc)) {
		viol(api+"/alloc-not-linear", fmt.Sprintf("allocated %d bytes for a %d byte document (bound %d)", al, len(doc), jsonAllocBound(len(doc))))
	}
}

func trunc(s string) string {
	if len(s) > 600 {
		return s[:600] + fmt.Sprintf("...(%d chars)", len(s))
	}
	return s
}

// ---------- parent side ----------

type req struct {
	kind  string // D | J
	entry string
	class string // generator class, for the distribution
	b     []byte // bytes or document
	coq   string // J: the Coq struct term ("" = encoding/json-level case, Go only)
	// structured families (many items really present): Go side only above the size the model is evaluated on;
	// what the generator built, for the reports (the hex of a large input is truncated there); family and
	// item count, for the growth predicate
	goOnly bool
	desc   string
	fam    string
	n      int
}

var reqs []req
var seenReq = map[string]bool{}

func dec(entry, class string, b []byte) {
	k := "D" + entry + string(b)
	if seenReq[k] {
		return
	}
	seenReq[k] = true
	reqs = append(reqs, req{kind: "D", entry: entry, class: class, b: append([]byte{}, b...)})
}

// decItems: a decode request of a structured family with n items really present
func decItems(entry, class, fam string, n int, desc string, goOnly bool, b []byte) {
	k := "D" + entry + string(b)
	if seenReq[k] {
		return
	}
	seenReq[k] = true
	reqs = append(reqs, req{kind: "D", entry: entry, class: class, b: b, goOnly: goOnly, desc: desc, fam: fam, n: n})
}
func jdoc(entry, class string, d jsondoc.Doc) {
	k := "J" + entry + d.JSON
	if seenReq[k] {
		return
	}
	seenReq[k] = true
	reqs = append(reqs, req{kind: "J", entry: entry, class: class, b: []byte(d.JSON), coq: d.Coq})
}

var coqEntry = map[string]string{"tx": "ETx", "txs": "ETxs", "in": "EIn", "inx": "EInExt", "out": "EOut"}

func runReqs() {
	lines := make([]string, len(reqs))
	for i, q := range reqs {
		if q.kind == "D" {
			lines[i] = "D " + q.entry + " " + common.Hex(q.b)
		} else {
			lines[i] = "J " + q.entry + " " + base64.StdEncoding.EncodeToString(q.b)
		}
	}
	replies, crashed, msgs := common.Isolated(lines, 30*time.Second)
	// a request that ran into the per-request timeout is given one more try on its own, with four times the time: a
	// decoder that loops still times out, a child that was merely starved (a loaded machine) does not count
	for i := range lines {
		if crashed[i] && msgs[i] == "timeout" {
			r2, c2, m2 := common.Isolated(lines[i:i+1], 120*time.Second)
			replies[i], crashed[i], msgs[i] = r2[0], c2[0], m2[0]
			c.Tally("retried-after-timeout")
		}
	}
	maxRatio := 0.0
	for i, q := range reqs {
		in := map[string]string{"entry": q.entry}
		if q.kind == "D" {
			in["input"] = trunc(common.Hex(q.b))
		} else {
			in["doc"] = trunc(string(q.b))
		}
		if q.desc != "" {
			in["generator"] = q.desc
		}
		twin := map[string]interface{}{"kind": q.kind + "/" + q.entry + "/" + q.class, "input": in}
		key := q.kind + q.entry + string(q.b)
		if crashed[i] {
			c.Tally(q.kind + "/" + q.entry + "/" + q.class + "/crash")
			api := apiName(q.entry)
			if q.kind == "J" {
				api = "json/" + q.entry
			}
			c.Violate(api+"/process-abort", msgs[i], in)
			twin["crash"] = msgs[i]
			c.Case("", twin, key, false)
			continue
		}
		var rp reply
		if err := json.Unmarshal([]byte(replies[i]), &rp); err != nil {
			panic(fmt.Sprintf("bad child reply %q: %v", replies[i], err))
		}
		for _, v := range rp.Viol {
			if m, ok := v.Input.(map[string]interface{}); ok && q.desc != "" {
				m["generator"] = q.desc
			}
			c.Violate(v.Site, v.What, v.Input)
		}
		if q.fam != "" {
			grown[q.fam] = append(grown[q.fam], growth{q.n, len(q.b), rp.Alloc, rp.OK, apiName(q.entry), in})
		}
		verdict := map[bool]string{true: "ok", false: "err"}[rp.OK]
		if len(rp.Viol) > 0 {
			verdict = "violation"
		}
		c.Tally(q.kind + "/" + q.entry + "/" + q.class + "/" + verdict)
		twin["ok"], twin["used"], twin["alloc"] = rp.OK, rp.Used, rp.Alloc
		coq := ""
		if q.kind == "D" && (len(q.b) > 400000 || q.goOnly) {
			// Go side only
		} else if q.kind == "D" {
			coq = fmt.Sprintf("CDec %s %s %s %d %s %d", coqEntry[q.entry], common.CoqBytes(q.b), common.CoqBool(rp.OK), rp.Used, common.CoqBool(rp.FB), rp.Alloc)
			if r := float64(rp.Alloc) / float64(allocBound(len(q.b))); r > maxRatio {
				maxRatio = r
			}
		} else if q.coq != "" {
			coq = jsonCase(q, rp)
		}
		// non-trivial: the decoder got past the first field (consumed something) or the JSON
		// document reached the library code (was not rejected by encoding/json alone)
		nontrivial := (q.kind == "D" && rp.Used > 0) || (q.kind == "J" && q.coq != "")
		c.Case(coq, twin, key, nontrivial)
	}
	c.Stats.Extra["max_measured_alloc_over_bound"] = maxRatio
	checkGrowth()
}

// growth: what decoding a well-formed input with n items really present allocated. "Proportional to the size of
// the input": within a family (same item, same framing) k times the items may cost about k times the memory - an
// allocation that grows like the square of the item count (a slice regrown by a fixed step, a buffer copied per
// item) multiplies by k*k. Twice the items must stay below three times the allocation (plus a constant for the
// fixed part); measured at sizes where the fixed part does not matter.
type growth struct {
	n, size int
	alloc   uint64
	ok      bool
	api     string
	in      map[string]string
}

var grown = map[string][]growth{}

func checkGrowth() {
	fams := make([]string, 0, len(grown))
	for f := range grown {
		fams = append(fams, f)
	}
	sort.Strings(fams)
	worst := 0.0
	for _, f := range fams {
		g := grown[f]
		for _, a := range g {
			for _, b := range g {
				if !a.ok || !b.ok || b.n != 2*a.n || a.alloc == 0 {
					continue
				}
				if r := float64(b.alloc) / float64(a.alloc); r > worst {
					worst = r
				}
				if b.alloc > 3*a.alloc+16384 {
					c.Violate(b.api+"/alloc-superlinear", fmt.Sprintf("%s: %d items (%d bytes of input) allocate %d bytes, %d items (%d bytes) allocate %d bytes: twice the input costs %.2f times the memory (allowed: 3)",
						f, a.n, a.size, a.alloc, b.n, b.size, b.alloc, float64(b.alloc)/float64(a.alloc)), b.in)
				}
			}
		}
	}
	c.Stats.Extra["max_alloc_growth_for_doubled_item_count"] = worst
}

func jsonCase(q req, rp reply) string {
	ok := common.CoqBool(rp.OK)
	num := func(k string) string {
		if rp.Obs[k] == "" {
			return "0"
		}
		return rp.Obs[k]
	}
	switch q.entry {
	case "tx":
		return fmt.Sprintf("CJTx %s %s %s", q.coq, ok, common.CoqStr(rp.Obs["hex"]))
	case "nodetx":
		return fmt.Sprintf("CJNodeTx %s %s %s", q.coq, ok, common.CoqStr(rp.Obs["hex"]))
	case "nodetxs":
		return fmt.Sprintf("CJNodeTxs %s %s %s", q.coq, ok, common.CoqStr(rp.Obs["hex"]))
	case "nodeout":
		return fmt.Sprintf("CJNodeOut %s %s %s %s", q.coq, ok, num("sats"), common.CoqStr(rp.Obs["lock"]))
	case "utxo":
		return fmt.Sprintf("CJUtxo %s %s %s %s %s %s", q.coq, ok, common.CoqStr(rp.Obs["txid"]), num("vout"), common.CoqStr(rp.Obs["lock"]), num("sats"))
	case "nodeutxo":
		return fmt.Sprintf("CJNodeUtxo %s %s %s %s %s %s", q.coq, ok, common.CoqStr(rp.Obs["txid"]), num("vout"), common.CoqStr(rp.Obs["lock"]), num("sats"))
	}
	return ""
}

// ---------- generators ----------

// hostile counts / lengths: powers of two, and values whose product with a plausible per-element size wraps to
// something small in 64 bits (c = k^-1 mod 2^64 gives c*k = 1; neighbours give small multiples): a guard of the
// form "count * size <= bytes left" passes for them
var hostile = func() []uint64 {
	hs := []uint64{1 << 16, 1 << 31, 1 << 32, 1 << 40, 1 << 63, 1<<64 - 1}
	for _, k := range []uint64{9, 41, 33, 37, 45, 149, 8, 40, 36, 32} {
		if k%2 == 1 {
			inv := k // Newton iteration for the inverse modulo 2^64
			for i := 0; i < 6; i++ {
				inv *= 2 - k*inv
			}
			hs = append(hs, inv, inv*2, inv*3)
		} else {
			hs = append(hs, (1<<63)/(k/2)*1+1, 1<<61, 1<<60+1) // k*c wraps to a small value for even sizes too
		}
	}
	return hs
}()

func vi9(v uint64) []byte {
	b := make([]byte, 9)
	b[0] = 0xff
	binary.LittleEndian.PutUint64(b[1:], v)
	return b
}

// truncated varints: the prefix byte followed by fewer payload bytes than it announces
func shortVarints() [][]byte {
	var out [][]byte
	for _, p := range []struct {
		tag byte
		n   int
	}{{0xff, 8}, {0xfe, 4}, {0xfd, 2}} {
		for k := 0; k < p.n; k++ {
			b := []byte{p.tag}
			for j := 0; j < k; j++ {
				b = append(b, byte(j))
			}
			out = append(out, b)
		}
	}
	return out
}

// template: the pieces of a 1-in/1-out transaction with the count/length varints as separate
// pieces, so that each can be replaced.
type piece struct {
	b      []byte
	varint bool
}

func template(ext bool) []piece {
	txid := bytes.Repeat([]byte{0x11}, 32)
	p := []piece{{[]byte{1, 0, 0, 0}, false}}
	if ext {
		p = append(p, piece{[]byte{0, 0, 0, 0, 0, 0xef}, false})
	}
	p = append(p, piece{[]byte{1}, true}, piece{append(append([]byte{}, txid...), 0, 0, 0, 0), false},
		piece{[]byte{2}, true}, piece{[]byte{0x51, 0x52}, false}, piece{[]byte{0xff, 0xff, 0xff, 0xff}, false})
	if ext {
		p = append(p, piece{[]byte{9, 0, 0, 0, 0, 0, 0, 0}, false}, piece{[]byte{1}, true}, piece{[]byte{0x53}, false})
	}
	p = append(p, piece{[]byte{1}, true}, piece{[]byte{5, 0, 0, 0, 0, 0, 0, 0}, false}, piece{[]byte{3}, true},
		piece{[]byte{0x6a, 0x01, 0x00}, false}, piece{[]byte{7, 0, 0, 0}, false})
	return p
}

func inputTemplate(ext bool) []piece {
	t := template(ext)
	if ext {
		return t[3:10]
	}
	return t[2:6]
}
func outputTemplate() []piece {
	t := template(false)
	return t[7:10]
}

func join(p []piece) []byte {
	var b []byte
	for _, x := range p {
		b = append(b, x.b...)
	}
	return b
}

// crafted: every varint position of the template replaced by a hostile value (9-byte and shortest
// encodings) with three kinds of tail, and by every truncated varint with nothing after it.
func crafted(entry string, p []piece) {
	for i := range p {
		if !p[i].varint {
			continue
		}
		prefix := join(p[:i])
		rest := join(p[i+1:])
		for _, v := range hostile {
			for _, enc := range [][]byte{vi9(v), bt.VarInt(v).Bytes()} {
				dec(entry, "hostile-len", append(append(append([]byte{}, prefix...), enc...), rest...))
				dec(entry, "hostile-len", append(append([]byte{}, prefix...), enc...))
				dec(entry, "hostile-len", append(append(append([]byte{}, prefix...), enc...), bytes.Repeat([]byte{0xab}, 40)...))
			}
		}
		// a length far beyond the data with MORE than one read chunk of data actually present: what is reserved must
		// follow what has arrived, at every stage of the read, not only at its start
		for _, v := range []uint64{1 << 20, 1 << 28, 1 << 31, 1 << 40, 1<<64 - 1} {
			for _, present := range []int{4097, 5000, 9000} {
				dec(entry, "hostile-len-after-first-chunk", append(append(append([]byte{}, prefix...), vi9(v)...), bytes.Repeat([]byte{0xab}, present)...))
			}
		}
		for _, sv := range shortVarints() {
			dec(entry, "short-varint", append(append([]byte{}, prefix...), sv...))
		}
	}
}

func everyTruncation(entry string, b []byte) {
	for k := 0; k <= len(b); k++ {
		dec(entry, "truncation", b[:k])
	}
}
func everyBitFlip(entry string, b []byte) {
	for i := range b {
		for bit := 0; bit < 8; bit++ {
			bb := append([]byte{}, b...)
			bb[i] ^= 1 << uint(bit)
			dec(entry, "bit-flip", bb)
		}
	}
}

func bigScriptTx(l int, supplied int, fill byte) []byte {
	var b []byte
	b = append(b, 1, 0, 0, 0, 1)
	b = append(b, bytes.Repeat([]byte{0x22}, 32)...)
	b = append(b, 0, 0, 0, 0)
	b = append(b, bt.VarInt(uint64(l)).Bytes()...)
	if supplied < l {
		return append(b, bytes.Repeat([]byte{fill}, supplied)...)
	}
	b = append(b, bytes.Repeat([]byte{fill}, l)...)
	// constant tail keeps the Coq literal structural: sequence, one empty output, locktime, all `fill`-free
	return append(b, 0xff, 0xff, 0xff, 0xff, 0, 0, 0, 0, 0)
}

// ---------- many small items really present ----------

// itemsTx: a well-formed transaction with nIn inputs and nOut outputs that are all there. plain: every item is all
// zero bytes (41 per input, 50 in the extended format, 9 per output: the Coq literal of thousands of items is a
// few tokens); otherwise items differ (index in the outpoint / amount, a one-byte script).
func itemsTx(nIn, nOut int, ext, plain bool) []byte {
	var b []byte
	ver := byte(1)
	if plain {
		ver = 0
	}
	b = append(b, ver, 0, 0, 0)
	if ext {
		b = append(b, 0, 0, 0, 0, 0, 0xef)
	}
	b = append(b, bt.VarInt(uint64(nIn)).Bytes()...)
	for i := 0; i < nIn; i++ {
		it := make([]byte, 41)
		if !plain {
			binary.LittleEndian.PutUint32(it[0:], uint32(i)+1)
			binary.LittleEndian.PutUint32(it[32:], uint32(i))
			it = append(it[:36], 1, 0x51, 0xff, 0xff, 0xff, 0xff)
		}
		b = append(b, it...)
		if ext {
			tail := make([]byte, 9)
			if !plain {
				binary.LittleEndian.PutUint64(tail, uint64(i)+1)
				tail = append(tail[:8], 1, 0x52)
			}
			b = append(b, tail...)
		}
	}
	b = append(b, bt.VarInt(uint64(nOut)).Bytes()...)
	for i := 0; i < nOut; i++ {
		it := make([]byte, 9)
		if !plain {
			binary.LittleEndian.PutUint64(it, uint64(i))
			it = append(it[:8], 1, 0x51)
		}
		b = append(b, it...)
	}
	return append(b, 0, 0, 0, 0)
}

// itemsTxs: a counted list of n transactions that are all there: plain = the 10-byte transaction without inputs
// and outputs (all zero), otherwise a 1-in/1-out transaction
func itemsTxs(n int, plain bool) []byte {
	b := append([]byte{}, bt.VarInt(uint64(n)).Bytes()...)
	one := make([]byte, 10)
	if !plain {
		one = itemsTx(1, 1, false, false)
	}
	for i := 0; i < n; i++ {
		b = append(b, one...)
	}
	return b
}

func manyItems(big bool) {
	type fam struct {
		entry, name string
		build       func(n int) []byte
		coqN, goN   int // item counts n, 2n evaluated on the model too / Go side only
	}
	fams := []fam{
		{"tx", "outputs of 9 zero bytes behind one input", func(n int) []byte { return itemsTx(1, n, false, true) }, 300, 20000},
		{"tx", "10-byte outputs (amount i, script 51) behind one input", func(n int) []byte { return itemsTx(1, n, false, false) }, 100, 5000},
		{"tx", "inputs of 41 zero bytes, no output", func(n int) []byte { return itemsTx(n, 0, false, true) }, 150, 3000},
		{"tx", "42-byte inputs (outpoint i, script 51) and as many 10-byte outputs", func(n int) []byte { return itemsTx(n, n, false, false) }, 50, 2000},
		{"tx", "extended format: inputs of 50 zero bytes, one output", func(n int) []byte { return itemsTx(n, 1, true, true) }, 150, 3000},
		{"tx", "extended format: 52-byte inputs (previous amount i+1, previous script 52)", func(n int) []byte { return itemsTx(n, 1, true, false) }, 50, 2000},
		{"txs", "list of 10-byte transactions (no input, no output)", func(n int) []byte { return itemsTxs(n, true) }, 300, 5000},
		{"txs", "list of 1-in/1-out transactions", func(n int) []byte { return itemsTxs(n, false) }, 50, 2000},
	}
	for _, f := range fams {
		sizes := []struct {
			n      int
			goOnly bool
		}{{f.coqN, false}, {2 * f.coqN, false}, {f.goN, true}, {2 * f.goN, true}}
		if big {
			sizes = append(sizes, struct {
				n      int
				goOnly bool
			}{4 * f.goN, true})
		}
		for _, sz := range sizes {
			b := f.build(sz.n)
			desc := fmt.Sprintf("%s: %d x %s, all present (%d bytes)", apiName(f.entry), sz.n, f.name, len(b))
			decItems(f.entry, "many-items", f.entry+": "+f.name, sz.n, desc, sz.goOnly, b)
			if !sz.goOnly {
				// the same with the data ending inside the last item / one item short
				decItems(f.entry, "many-items-short", "", 0, desc+", cut 6 bytes before the end", false, b[:len(b)-6])
				decItems(f.entry, "many-items-short", "", 0, desc+", cut 60 bytes before the end", false, b[:len(b)-60])
			}
		}
	}
}

func main() {
	c = common.Parse("C09")
	if c.Mode == "child" {
		common.ChildLoop(3000, handle)
		return
	}
	if c.Out != "" {
		os.Remove(filepath.Join(c.Out, "stats.json")) // a crash must not leave an older run's statistics behind
	}
	c.SetHeader(header)
	c.PerShard = 250
	c.ShardBytes = 90000
	r := common.NewRand(c.Seed)
	big := c.Thorough() || c.Mode == "search"

	// 0. regression corpus: the inputs of the repaired defects
	dec("tx", "corpus", common.Unhex("01000000ff00"))
	dec("txs", "corpus", bytes.Repeat([]byte{0xff}, 9))
	dec("tx", "corpus", append(append(append([]byte{1, 0, 0, 0, 1}, bytes.Repeat([]byte{0xaa}, 36)...), vi9(1<<40)...), 0x51))
	dec("tx", "corpus", append(append(append([]byte{1, 0, 0, 0, 1}, bytes.Repeat([]byte{0xaa}, 36)...), vi9(1<<64-1)...), 0x51))

	// 1. random bytes
	nRand := 120
	if big {
		nRand = 6000
	}
	for i := 0; i < nRand; i++ {
		b := r.Bytes(r.Intn(90))
		dec("tx", "random", b)
		if i%3 == 0 {
			dec([]string{"txs", "in", "inx", "out"}[r.Intn(4)], "random", b)
		}
		// random bytes behind a plausible header get further into the decoder
		hb := append([]byte{byte(r.Intn(3)), 0, 0, 0, byte(r.Intn(3))}, b...)
		dec("tx", "random-header", hb)
	}

	// 2. every truncation offset and every single-bit flip of valid transactions (std + extended)
	nValid := 1
	if big {
		nValid = 12
	}
	specs := []txgen.TxSpec{{Version: 1, Lock: 7,
		Ins:  []txgen.InSpec{{Txid: common.Hex(r.Bytes(32)), Vout: 1, Unlock: "5151", Seq: 0xfffffffe, Sats: 9, Prev: "76a9"}},
		Outs: []txgen.OutSpec{{Sats: 5, Script: "6a0101"}, {Sats: 1<<64 - 1, Script: ""}}}}
	for len(specs) < 1+nValid {
		s := txgen.Gen(r, false)
		if len(s.Ins)+len(s.Outs) == 0 {
			continue
		}
		// keep scripts short so that every offset stays affordable
		for i := range s.Ins {
			if len(s.Ins[i].Unlock) > 60 {
				s.Ins[i].Unlock = s.Ins[i].Unlock[:60]
			}
			if len(s.Ins[i].Prev) > 60 {
				s.Ins[i].Prev = s.Ins[i].Prev[:60]
			}
		}
		for i := range s.Outs {
			if len(s.Outs[i].Script) > 60 {
				s.Outs[i].Script = s.Outs[i].Script[:60]
			}
		}
		specs = append(specs, s)
	}
	var lastStd, lastExt []byte
	for _, s := range specs {
		tx := txgen.Build(s)
		lastStd, lastExt = tx.Bytes(), tx.ExtendedBytes()
		for _, b := range [][]byte{lastStd, lastExt} {
			dec("tx", "valid", b)
			everyTruncation("tx", b)
			everyBitFlip("tx", b)
			lst := append([]byte{2}, append(append([]byte{}, b...), b...)...)
			dec("txs", "valid", lst)
			everyTruncation("txs", lst)
		}
		if !big {
			everyBitFlip("txs", append([]byte{1}, lastStd...))
		}
	}

	// 3. crafted length/count prefixes and truncated varints in every varint position
	for _, ext := range []bool{false, true} {
		t := template(ext)
		crafted("tx", t)
		// the same transaction as the only / second element of a counted list
		lt := append([]piece{{[]byte{1}, true}}, t...)
		crafted("txs", lt)
		lt2 := append([]piece{{[]byte{2}, true}, {join(t), false}}, t...)
		crafted("txs", lt2)
		if ext {
			crafted("inx", inputTemplate(true))
			everyTruncation("inx", join(inputTemplate(true)))
			everyBitFlip("inx", join(inputTemplate(true)))
		} else {
			crafted("in", inputTemplate(false))
			everyTruncation("in", join(inputTemplate(false)))
			everyBitFlip("in", join(inputTemplate(false)))
		}
	}
	crafted("out", outputTemplate())
	everyTruncation("out", join(outputTemplate()))
	everyBitFlip("out", join(outputTemplate()))
	// list counts far above the number of transactions that follow
	for _, v := range hostile {
		dec("txs", "hostile-count", append(vi9(v), lastStd...))
		dec("txs", "hostile-count", append(bt.VarInt(v).Bytes(), lastExt...))
	}

	// 4. script lengths around the chunking of readBytes, fully and partly supplied
	lens := []int{4095, 4096, 4097, 8191, 8192, 8193, 12288, 12289, 70000}
	if big {
		lens = append(lens, 28672, 28673, 61440, 61441, 200000)
	}
	for _, l := range lens {
		dec("tx", "chunked-script", bigScriptTx(l, l, 0x51))
		dec("tx", "chunked-script-short", bigScriptTx(l, l-1, 0x51))
		dec("tx", "chunked-script-short", bigScriptTx(l, l/2, 0x51))
		dec("tx", "chunked-script-short", bigScriptTx(l, 0, 0x51))
	}

	// well-formed transactions whose script is really there and large (Go side only: verdict, bytes consumed and the measured
	// allocation against the linear bound; a buffer that is regrown by a fixed step costs l^2/step and only shows from about 1 MiB)
	for _, l := range []int{1 << 20, 3 << 19} {
		dec("tx", "chunked-script-large", bigScriptTx(l, l, 0x51))
		dec("tx", "chunked-script-large-short", bigScriptTx(l, l-1, 0x51))
	}

	// 4b. well-formed inputs with many small items really present: allocation per input byte and its growth
	manyItems(big)

	// 5. JSON documents
	for _, d := range jsondoc.All(r, big, lastStd) {
		jdoc(d.Entry, d.Class, d)
	}

	runReqs()
	c.Stats.Rule = "binary: regression corpus; random bytes (bare and behind a plausible header) into every entry point; every truncation offset and every single-bit flip of valid std+extended transactions, lists, inputs, outputs; a 1-in/1-out template with each count/length varint replaced by {2^16,2^31,2^32,2^40,2^63,2^64-1, and counts whose product with an element size of 9/33/37/41/45/149 (or 8/32/36/40) bytes wraps to a small number} (9-byte and shortest encodings; rest of the template / nothing / 40 filler bytes following; lengths 2^20..2^64-1 with 4097 / 5000 / 9000 bytes present) and by every truncated varint (ff+0..7, fe+0..3, fd+0..1 bytes); script lengths around the 4096-byte chunking fully/partly supplied; scripts of 1 MiB and 1.5 MiB fully supplied and one byte short (Go side only); well-formed transactions / lists with many small items really present (9/10-byte outputs, 41/42-byte inputs, 50/52-byte extended inputs, 10-byte and 1-in/1-out transactions: n and 2n items with n = 50..300 on the model too, also cut 6 and 60 bytes short, and n = 2000..20000 Go side only), measured against the linear bound and: twice the items must cost less than three times the memory. Each input is decoded through *bytes.Reader and 19 more readers (results must agree, allocation must obey the same bound, the largest figure goes to the model comparison): iotest.OneByteReader, a 1..7-byte chunk reader, DataErrReader, HalfReader, a reader answering (0,nil) every other call, a reader ending with a non-EOF error, *bytes.Buffer, *strings.Reader, *bufio.Reader (default size; 16 bytes over the chunk reader), io.MultiReader of the two halves, *io.LimitedReader with N = len, len+4097, 2^30, 2^63-1, *io.SectionReader of size len, 2^30, 2^63-1, and a non-standard reader that implements Len/Size/Buffered/ReadByte/UnreadByte/Peek/Discard/WriteTo/Seek/ReadAt truthfully; a LimitedReader with N = len/2 must give what the first half gives; plus NewTxFromStream/NewTxFromBytes for transactions. JSON: documents for *bt.Tx, tx.NodeJSON(), txs.NodeJSON(), output.NodeJSON(), *bt.UTXO, utxo.NodeJSON() with each optional object missing/null/mistyped, bad/odd hex, one- and two-character hex strings, 0x prefixes, null list elements, hostile tx hex. distinct = distinct (entry point, input); non-trivial = binary inputs on which the decoder consumed at least one byte, JSON documents that encoding/json passes on to the library code"
	c.Finish()
}
