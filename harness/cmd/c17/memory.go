package main

// Memory the caller owns.  BIP276.Data is a slice: the struct is handed to EncodeBIP276 by value, the backing array is
// not copied.  In a program the payload is rarely a slice made for the occasion; it is a WINDOW of something larger —
// the locking script of one output of a parsed transaction, with the next output's script (or spare capacity) inside
// the window's capacity.  The property speaks about the caller's data ("decoding it returns the same ... data"): an
// encoder that appends to, pads, normalises or sorts the slice it was handed returns the right text for THIS call and
// changes what the caller holds — visible in the bytes behind the payload, in a sibling payload encoded next, or in a
// sibling being encoded at the same moment.  So here
//
//   (W) every payload handed to the encoder is a window of a guarded buffer  guard | payload_0 | payload_1 | ... |
//       spare | guard  with the capacity running to the end of the buffer, to the end of the payload, or 1..8 bytes past
//       it; the text must be the text of a private copy of the payload (which went through all predicates of main.go
//       and the model), and the WHOLE buffer must read after the call what it read before;
//   (S) the payloads of one buffer are encoded one after the other, front to back and back to front, nothing being
//       restored in between: each text must still be the text of what the window held at the start;
//   (C) eight goroutines encode the eight payloads of one buffer at the same time;
//   (D) what the decoder returns belongs to the caller: scribbling over one result (its Data up to the capacity, its
//       fields) changes neither the other results, nor the text that was decoded (a window of a longer string, compared
//       with a copy), nor what the next call returns for the same text;
//   (N) the empty payload as a nil slice, as an empty non-nil slice and as an empty window with capacity, on all
//       boundary field pairs and both prefixes, also with an empty prefix and as the zero BIP276{}.
//
// Every window call is a Coq case too (CEncWin): the buffer before the call, the window, the places that read
// differently afterwards; model/Bip276Mem.v computes text and buffer (proved: unchanged).

import (
	"bytes"
	"encoding/hex"
	"fmt"
	"strings"
	"sync"
	"sync/atomic"

	"github.com/libsv/go-bt/v2/bscript"

	"verif/harness/common"
)

const guardLen = 8

type arena struct {
	buf, snap []byte
	off, ln   []int
}

func newArena(r *common.Rand, lens []int, spare int) *arena {
	total := 2*guardLen + spare
	for _, l := range lens {
		total += l
	}
	a := &arena{buf: r.Bytes(total)}
	o := guardLen
	for _, l := range lens {
		a.off = append(a.off, o)
		a.ln = append(a.ln, l)
		o += l
	}
	a.snap = append([]byte{}, a.buf...)
	return a
}

// window i; extra < 0: the capacity runs to the end of the buffer (as a parser cuts it), otherwise `extra` bytes
// past the payload (0: none)
func (a *arena) win(i, extra int) []byte {
	o, l := a.off[i], a.ln[i]
	if extra < 0 || o+l+extra > len(a.buf) {
		return a.buf[o : o+l]
	}
	return a.buf[o : o+l : o+l+extra]
}

func (a *arena) pristine(i int) []byte {
	d := make([]byte, a.ln[i])
	copy(d, a.snap[a.off[i]:])
	return d
}

func (a *arena) where(k int) string {
	if k < guardLen {
		return "the guard bytes in front of the payloads"
	}
	for j := range a.off {
		if k >= a.off[j] && k < a.off[j]+a.ln[j] {
			return fmt.Sprintf("byte %d of payload %d (offset %d, %d bytes)", k-a.off[j], j, a.off[j], a.ln[j])
		}
	}
	if k >= len(a.buf)-guardLen {
		return "the guard bytes behind the payloads"
	}
	return "the spare bytes behind the last payload"
}

func diffBytes(before, after []byte) (ws [][2]int) {
	for k := range before {
		if before[k] != after[k] {
			ws = append(ws, [2]int{k, int(after[k])})
		}
	}
	return
}

type winIn struct {
	Prefix    string `json:"prefix"`
	Version   int    `json:"version"`
	Network   int    `json:"network"`
	BufferHex string `json:"callers_buffer_hex"`
	Off       int    `json:"data_offset"`
	Len       int    `json:"data_len"`
	Cap       int    `json:"data_cap"`
	DataHex   string `json:"data_hex"`
	Earlier   string `json:"encoded_before_on_the_same_buffer,omitempty"`
}

// encodeWin: EncodeBIP276 on window i of the arena as it is NOW (nothing restored); ref = the text of a private copy
// of what the window held at the start.
func encodeWin(kind string, a *arena, i, extra int, p string, v, n int, ref, earlier string, model bool) string {
	w := a.win(i, extra)
	before := append([]byte{}, a.buf...)
	input := winIn{fmt.Sprintf("%q", p), v, n, hex.EncodeToString(before), a.off[i], len(w), cap(w), hex.EncodeToString(a.pristine(i)), earlier}
	out, pan := encode(p, v, n, w)
	if pan {
		return ""
	}
	ws := diffBytes(before, a.buf)
	if len(ws) > 0 {
		k := ws[0][0]
		violate("EncodeBIP276/writes-into-the-callers-buffer",
			fmt.Sprintf("Data = buffer[%d:%d] with capacity %d; after the call %d byte(s) of the caller's buffer read differently, the first at offset %d (%02x, was %02x): %s; buffer afterwards %x",
				a.off[i], a.off[i]+len(w), cap(w), len(ws), k, a.buf[k], before[k], a.where(k), a.buf), input)
	}
	if out != ref {
		site, how := "EncodeBIP276/payload-inside-a-larger-buffer-encodes-differently", "a private copy of the same payload"
		if earlier != "" {
			site, how = "EncodeBIP276/sibling-payload-encodes-differently-after-an-earlier-call", "the same payload before "+earlier
		}
		violate(site, fmt.Sprintf("text %s; %s gives %s", short(out), how, short(ref)), input)
	}
	coq := ""
	if emit && model {
		var sb strings.Builder
		sb.WriteByte('[')
		for j, x := range ws {
			if j > 0 {
				sb.WriteByte(';')
			}
			fmt.Fprintf(&sb, "(%d, x%02x)", x[0], x[1])
		}
		sb.WriteByte(']')
		coq = fmt.Sprintf("CEncWin %s %s %s %s %d %d %d %s %s", coqText(p), coqZ(v), coqZ(n), common.CoqBytes(before), a.off[i], len(w), cap(w), sb.String(), coqText(out))
	}
	c.Tally("encode-window/" + kind)
	c.Case(coq, map[string]interface{}{"kind": "encode-window/" + kind, "value": input, "out": out, "written": ws},
		fmt.Sprintf("w|%q|%d|%d|%x|%d|%d|%d", p, v, n, before, a.off[i], len(w), cap(w)), out != "ERROR")
	return out
}

// the buffer at the end of a family: what it was at the start (the calls above report the call that wrote)
func (a *arena) settle(site, after string, input interface{}) {
	if !bytes.Equal(a.buf, a.snap) {
		ws := diffBytes(a.snap, a.buf)
		violate(site, fmt.Sprintf("%s the caller's buffer reads %x, it was %x (first difference at offset %d: %s)", after, a.buf, a.snap, ws[0][0], a.where(ws[0][0])), input)
		copy(a.buf, a.snap)
	}
}

func memory(r *common.Rand) {
	// ---------- (W) + (S) ----------
	shapes := [][]int{
		{25, 25},       // two P2PKH scripts, as the outputs of one transaction
		{0, 1, 3},      // an empty payload in front of others
		{5, 0, 0, 2},   // empty payloads between others
		{11, 7, 32, 1}, //
		{3, 3, 3, 3, 3, 3},
		{1 + r.Intn(40), 1 + r.Intn(40), r.Intn(3)},
		{60, 2},
	}
	if c.Thorough() {
		for i := 0; i < 60; i++ {
			var s []int
			for k := 1 + r.Intn(6); k > 0; k-- {
				s = append(s, r.Intn(90))
			}
			shapes = append(shapes, s)
		}
	}
	extras := []int{-1, 0, 1, 3, 4, 5, 8}
	windows := 0
	for si, lens := range shapes {
		a := newArena(r, lens, []int{0, 6, 2}[si%3])
		p := prefixes[si%2]
		v, n := 1+r.Intn(255), 1+r.Intn(255)
		refs := make([]string, len(lens))
		for i := range lens {
			// the payload alone, in a slice of its own: all predicates of main.go + the model
			refs[i] = fullCase("window-reference", p, v, n, a.pristine(i))
		}
		// (W) each window alone, every capacity; the buffer is put back after a call that wrote
		for i := range lens {
			for ei, extra := range extras {
				encodeWin("alone", a, i, extra, p, v, n, refs[i], "", ei == 0 || extra == 4 || (si+i+ei)%4 == 0)
				copy(a.buf, a.snap)
				windows++
			}
		}
		// (S) front to back, then back to front, nothing restored in between
		for _, dir := range []int{1, -1} {
			earlier := ""
			for k := range lens {
				i := k
				if dir < 0 {
					i = len(lens) - 1 - k
				}
				encodeWin("sequence", a, i, -1, p, v, n, refs[i], earlier, true)
				earlier = fmt.Sprintf("the encoding of payload %d of the same buffer", i)
				windows++
			}
			// and the texts decode to what the windows held at the start
			for i := range lens {
				out, _ := encode(p, v, n, a.win(i, -1))
				if d := decode(out); d.ok && !bytes.Equal(d.d, a.pristine(i)) {
					violate("DecodeBIP276/roundtrip-of-a-sibling-payload", fmt.Sprintf("after its siblings were encoded, payload %d encodes to a text that decodes to %x", i, d.d),
						winIn{fmt.Sprintf("%q", p), v, n, hex.EncodeToString(a.snap), a.off[i], a.ln[i], len(a.buf) - a.off[i], hex.EncodeToString(a.pristine(i)), "all payloads of the buffer, in order"})
				}
			}
			a.settle("EncodeBIP276/writes-into-the-callers-buffer", "after encoding every payload of the buffer in turn", map[string]interface{}{"callers_buffer_hex": hex.EncodeToString(a.snap), "payload_offsets": a.off, "payload_lens": a.ln, "prefix": p, "version": v, "network": n})
		}
	}
	c.Stats.Extra["go_level_window_encodings"] = windows

	// ---------- (C) the payloads of one buffer, encoded at the same time ----------
	{
		lens := []int{25, 25, 0, 1, 34, 3, 60, 7}
		a := newArena(r, lens, 4)
		v, n := 1+r.Intn(255), 1+r.Intn(255)
		refs := make([]string, len(lens))
		for i := range lens {
			refs[i] = fullCase("window-reference", prefixes[i%2], v, n, a.pristine(i))
		}
		rounds := 300
		if c.Thorough() {
			rounds = 20000
		}
		var stop int32
		miss := make([]string, len(lens))
		var wg sync.WaitGroup
		start := make(chan struct{})
		for w := range lens {
			wg.Add(1)
			go func(w int) {
				defer wg.Done()
				d := a.win(w, -1)
				<-start
				for rd := 0; rd < rounds && atomic.LoadInt32(&stop) == 0; rd++ {
					var got string
					pan, msg := common.Safely(func() {
						got = bscript.EncodeBIP276(bscript.BIP276{Prefix: prefixes[w%2], Version: v, Network: n, Data: d})
					})
					if pan {
						got = "panic: " + msg
					}
					if got != refs[w] {
						miss[w] = fmt.Sprintf("pass %d: %s; the payload encoded alone: %s", rd, short(got), short(refs[w]))
						atomic.StoreInt32(&stop, 1)
						return
					}
				}
			}(w)
		}
		close(start)
		wg.Wait()
		input := map[string]interface{}{"callers_buffer_hex": hex.EncodeToString(a.snap), "payload_offsets": a.off, "payload_lens": a.ln,
			"version": v, "network": n, "prefixes": "script / template alternating", "goroutines": len(lens), "passes": rounds}
		for w, m := range miss {
			if m != "" {
				violate("EncodeBIP276/sibling-payloads-encoded-concurrently-differ", fmt.Sprintf("goroutine %d encoding payload %d (every goroutine encodes one payload of the same buffer, nobody writes): %s", w, w, m), input)
				break
			}
		}
		a.settle("EncodeBIP276/writes-into-the-callers-buffer", "after eight goroutines each encoded one payload of the buffer,", input)
		c.Tally("go-only/concurrent-siblings")

		// ---------- (D) what the decoder returns is the caller's ----------
		decoderOwnership(refs)
	}

	// ---------- (N) the empty payload: nil, empty, empty window with capacity ----------
	bnd := []int{1, 2, 9, 10, 15, 16, 17, 99, 100, 127, 128, 159, 160, 171, 254, 255}
	za := newArena(r, []int{0, 9}, 0)
	k := 0
	for _, p := range prefixes {
		for _, v := range bnd {
			for _, n := range bnd {
				ref := checkValue(p, v, n, []byte{})
				if got := checkValue(p, v, n, nil); got != ref {
					violate("EncodeBIP276/nil-payload-encodes-differently-from-the-empty-payload", fmt.Sprintf("Data nil: %q; Data []byte{}: %q", got, ref), in(p, v, n, nil))
				}
				if k%8 == 0 || v == n {
					fullCase("nil-payload", p, v, n, nil)
				}
				if k%16 == 3 {
					encodeWin("empty-window", za, 0, -1, p, v, n, ref, "", true)
					copy(za.buf, za.snap)
				}
				k++
			}
		}
	}
	// outside the round trip's hypotheses (model comparison): no prefix; fields out of range; nothing filled in
	for _, d := range [][]byte{nil, {}, {0x51}} {
		for _, q := range []struct {
			p    string
			v, n int
		}{{"", 1, 1}, {"", 255, 2}, {"", 0, 0}, {bscript.PrefixScript, 0, 1}, {bscript.PrefixTemplate, 1, 0}, {"a:b", 7, 9}, {":", 1, 1}} {
			s, _ := encode(q.p, q.v, q.n, d)
			kind := "nil-or-empty-fields"
			encCase(kind, q.p, q.v, q.n, d, s)
			rr := decode(s)
			decCase(kind, s, rr)
			if q.p == "" && rr.ok {
				violate("DecodeBIP276/accepts-text-without-a-prefix", "", fmt.Sprintf("%q", s))
			}
			if s != "ERROR" && q.p != "" && !rr.ok {
				violate("DecodeBIP276/rejects-encoder-output", s, in(q.p, q.v, q.n, d))
			}
		}
	}
}

// (D) every text decoded several times; one result scribbled over; the others, the text and the next call unchanged
func decoderOwnership(texts []string) {
	big := strings.Join(texts, "")
	bigCopy := string(append([]byte(nil), big...))
	type res struct {
		s    *bscript.BIP276
		want decoded
		text string
	}
	var all []res
	o := 0
	for _, t := range texts {
		win := big[o : o+len(t)] // the text as a window of a longer string
		o += len(t)
		want := decode(string(append([]byte(nil), t...)))
		checkValidate(win, want.ok)
		if !want.ok {
			continue
		}
		for rep := 0; rep < 2; rep++ {
			var s *bscript.BIP276
			pan, msg := common.Safely(func() { s, _ = bscript.DecodeBIP276(win) })
			if pan {
				violate("DecodeBIP276/panic", msg, fmt.Sprintf("%q", win))
				continue
			}
			if s == nil || s.Prefix != want.p || s.Version != want.v || s.Network != want.n || !bytes.Equal(s.Data, want.d) {
				violate("DecodeBIP276/text-inside-a-longer-string-decodes-differently", fmt.Sprintf("decoded as %+v; the same text in a string of its own: prefix %q version %d network %d data %x", s, want.p, want.v, want.n, want.d), fmt.Sprintf("%q", win))
				continue
			}
			all = append(all, res{s, want, win})
		}
	}
	same := func(x res) bool {
		return x.s.Prefix == x.want.p && x.s.Version == x.want.v && x.s.Network == x.want.n && bytes.Equal(x.s.Data, x.want.d)
	}
	for k, x := range all {
		// the caller does what it likes with ITS result: the payload up to the capacity, the fields
		full := x.s.Data[:cap(x.s.Data)]
		for i := range full {
			full[i] ^= 0xa5
		}
		x.s.Prefix, x.s.Version, x.s.Network = "scribbled", x.s.Version^0x55, x.s.Network^0xaa
		if big != bigCopy {
			violate("DecodeBIP276/result-shares-memory-with-the-text", fmt.Sprintf("after writing to the Data of the decoded value the text reads %q", short(big)), fmt.Sprintf("%q", x.text))
			return
		}
		for j, y := range all {
			if j > k && !same(y) {
				violate("DecodeBIP276/results-share-memory", fmt.Sprintf("after the caller wrote to the value decoded from %q, the value decoded from %q (by another call) reads prefix %q version %d network %d data %x", short(x.text), short(y.text), y.s.Prefix, y.s.Version, y.s.Network, y.s.Data),
					[]string{fmt.Sprintf("%q", x.text), fmt.Sprintf("%q", y.text)})
				return
			}
		}
		if again := decode(x.text); !again.ok || again.p != x.want.p || again.v != x.want.v || again.n != x.want.n || !bytes.Equal(again.d, x.want.d) {
			violate("DecodeBIP276/result-shares-memory-with-a-later-call", fmt.Sprintf("after the caller wrote to the value decoded from this text, decoding it again gives ok=%v prefix %q version %d network %d data %x", again.ok, again.p, again.v, again.n, again.d), fmt.Sprintf("%q", x.text))
			return
		}
	}
	keptDec = nil // (the scribbled values are no longer what decode() recorded)
	c.Stats.Extra["go_level_decoded_values_scribbled"] = len(all)
}

const memoryRule = " Memory: (W) every payload of 7 guarded buffers (guard | payloads of 0..60 bytes | spare | guard; thorough: 67) handed to the encoder as a window with capacity to the end of the buffer / none / 1,3,4,5,8 bytes, text compared with the private copy's, the whole buffer compared before and after (model side: CEncWin, buffer before + bytes written + text against model/Bip276Mem.v); (S) the payloads of a buffer encoded in order and in reverse, nothing restored; (C) 8 goroutines encoding the 8 payloads of one buffer; (D) decoded values scribbled over (Data to capacity, fields) — other results, the text (a window of a longer string) and the next call unchanged; (N) nil / empty / empty-window-with-capacity payload on 16x16 boundary pairs x 2 prefixes, empty prefix and zero value against the model."
