// c17: BIP276 text codec — cases for the Coq model plus the property stated directly in Go
// (round trip, layout, rejection of corruptions, ValidateAddress <=> decodes).
package main

import (
	"bytes"
	"crypto/sha256"
	"encoding/hex"
	"fmt"
	"strings"

	"github.com/libsv/go-bt/v2/bscript"

	"verif/harness/common"
)

var c *common.Ctx

const header = `From Coq Require Import List NArith ZArith String.
From Coq Require Import Strings.Byte.
From GoBT Require Import lib.Bytes lib.Hex lib.Str model.Bip276 corr.C17.
Import ListNotations. Local Open Scope N_scope. Local Open Scope string_scope.
`

// ---------- Coq literals ----------

func coqText(s string) string {
	plain := true
	for i := 0; i < len(s); i++ {
		if s[i] < 0x20 || s[i] > 0x7e {
			plain = false
			break
		}
	}
	if plain {
		return common.CoqStr(s)
	}
	return "(string_of_bytes " + common.CoqBytes([]byte(s)) + ")"
}

func coqZ(v int) string { return fmt.Sprintf("(%d)%%Z", v) }

// ---------- the specification, written independently of the library ----------

func hex2(k int) string {
	return string([]byte{"0123456789abcdef"[(k>>4)&15], "0123456789abcdef"[k&15]})
}

func sha256d(b []byte) []byte {
	a := sha256.Sum256(b)
	d := sha256.Sum256(a[:])
	return d[:]
}

// layoutText: prefix, colon, two hex digits of `first`, two of `second`, hex data, checksum
func layoutText(prefix string, first, second int, data []byte) string {
	p := prefix + ":" + hex2(first) + hex2(second) + hex.EncodeToString(data)
	return p + hex.EncodeToString(sha256d([]byte(p))[:4])
}

// ---------- bounded violation recording (a known finding fires on 64 770 pairs) ----------

var perSite = map[string]int{}

func violate(site, what string, input interface{}) {
	perSite[site]++
	if perSite[site] <= 3 {
		c.Violate(site, what, input)
	}
}

type valueIn struct {
	Prefix  string `json:"prefix"`
	Version int    `json:"version"`
	Network int    `json:"network"`
	DataHex string `json:"data_hex"`
	DataNil bool   `json:"data_is_a_nil_slice,omitempty"`
}

func in(p string, v, n int, d []byte) valueIn {
	return valueIn{fmt.Sprintf("%q", p), v, n, hex.EncodeToString(d), d == nil}
}

func encode(p string, v, n int, d []byte) (out string, panicked bool) {
	pan, msg := common.Safely(func() { out = bscript.EncodeBIP276(bscript.BIP276{Prefix: p, Version: v, Network: n, Data: d}) })
	if pan {
		violate("EncodeBIP276/panic", msg, in(p, v, n, d))
	}
	return out, pan
}

type decoded struct {
	ok   bool
	p    string
	v, n int
	d    []byte
}

// the last decoded values, kept as a caller keeps them, with what they held when they were returned
type keptDecoded struct {
	s    *bscript.BIP276
	data []byte
	text string
	p    string
	v, n int
}

var keptDec []keptDecoded

func decode(text string) (r decoded) {
	pan, msg := common.Safely(func() {
		s, err := bscript.DecodeBIP276(text)
		// what earlier calls returned is still what it was
		for _, k := range keptDec {
			if !bytes.Equal(k.s.Data, k.data) || k.s.Prefix != k.p || k.s.Version != k.v || k.s.Network != k.n {
				violate("DecodeBIP276/earlier-result-changed-by-a-later-call", fmt.Sprintf("the value decoded from %q (prefix %q version %d network %d data %x) now reads prefix %q version %d network %d data %x after decoding %q", k.text, k.p, k.v, k.n, k.data, k.s.Prefix, k.s.Version, k.s.Network, k.s.Data, text), fmt.Sprintf("%q", k.text))
				keptDec = nil
				break
			}
		}
		if err == nil && s != nil {
			keptDec = append(keptDec, keptDecoded{s, append([]byte{}, s.Data...), text, s.Prefix, s.Version, s.Network})
			if len(keptDec) > 5 {
				keptDec = keptDec[1:]
			}
			r = decoded{true, s.Prefix, s.Version, s.Network, append([]byte{}, s.Data...)}
		} else if err == nil {
			violate("DecodeBIP276/nil-without-error", "", fmt.Sprintf("%q", text))
		}
	})
	if pan {
		violate("DecodeBIP276/panic", msg, fmt.Sprintf("%q", text))
	}
	return
}

func validate(text string) (ok bool) {
	pan, msg := common.Safely(func() {
		v, err := bscript.ValidateAddress(text)
		ok = v && err == nil
		if v != (err == nil) {
			violate("ValidateAddress/verdict-and-error-disagree", fmt.Sprint(v, err), fmt.Sprintf("%q", text))
		}
	})
	if pan {
		violate("ValidateAddress/panic", msg, fmt.Sprintf("%q", text))
	}
	return
}

// ---------- Go-level statement of the property on one value ----------

// checkValue states round trip + layout for an in-range value whose prefix satisfies the
// hypotheses (non-empty, no newline). Returns the encoder's text.
func checkValue(p string, v, n int, d []byte) string {
	s, pan := encode(p, v, n, d)
	if pan {
		return ""
	}
	if s == "ERROR" {
		what := ""
		if d == nil {
			what = "Data is a nil slice: the empty payload"
		}
		violate("EncodeBIP276/in-range-gives-ERROR", what, in(p, v, n, d))
		return s
	}
	// layout as specified: version first, then network
	if s != layoutText(p, v, n, d) {
		if v != n && s == layoutText(p, n, v, d) {
			violate("EncodeBIP276/layout-network-before-version",
				fmt.Sprintf("text %q has the network byte before the version byte; specified %q", s, layoutText(p, v, n, d)), in(p, v, n, d))
		} else {
			violate("EncodeBIP276/layout-other", fmt.Sprintf("text %q; specified %q", s, layoutText(p, v, n, d)), in(p, v, n, d))
		}
	}
	// round trip
	r := decode(s)
	if !r.ok {
		violate("DecodeBIP276/rejects-encoder-output", s, in(p, v, n, d))
	} else if r.p != p || r.v != v || r.n != n || !bytes.Equal(r.d, d) {
		violate("DecodeBIP276/roundtrip-fields", fmt.Sprintf("decoded prefix %q version %d network %d data %x", r.p, r.v, r.n, r.d), in(p, v, n, d))
	}
	checkValidate(s, r.ok)
	return s
}

// ValidateAddress accepts a bitcoin-script: string exactly when it decodes
func checkValidate(text string, decodes bool) {
	if !strings.HasPrefix(text, "bitcoin-script:") {
		return
	}
	if got := validate(text); got != decodes {
		violate("ValidateAddress/bip276-verdict-differs-from-decode", fmt.Sprintf("validate %v decode ok %v", got, decodes), fmt.Sprintf("%q", text))
	}
}

// checkCorrupt: a text that differs from the valid encoding `orig` must be rejected, or — if it
// is accepted — must be what the encoder produces for the decoded value.
func checkCorrupt(text, orig string) decoded {
	r := decode(text)
	if r.ok && text != orig {
		re, _ := encode(r.p, r.v, r.n, r.d)
		if re != text {
			i := strings.LastIndex(text, ":")
			if i >= 0 && text[:i+1]+strings.ToLower(text[i+1:]) == re {
				violate("DecodeBIP276/accepts-uppercase-hex", fmt.Sprintf("re-encodes to %q", re), fmt.Sprintf("%q", text))
			} else {
				violate("DecodeBIP276/accepts-corrupted-text", fmt.Sprintf("re-encodes to %q", re), fmt.Sprintf("%q", text))
			}
		}
	}
	checkValidate(text, r.ok)
	return r
}

// wellFormed: exactly the layout (prefix ':' hex digits in pairs, at least twelve) with the checksum of the preceding text.
func wellFormed(t string) bool {
	i := strings.LastIndex(t, ":")
	return i >= 1 && len(t)-i-1 >= 12 && (len(t)-i-1)%2 == 0 && !strings.Contains(t[:i], "\n") &&
		strings.Trim(t[i+1:], "0123456789abcdefABCDEF") == "" &&
		t[len(t)-8:] == hex.EncodeToString(sha256d([]byte(t[:len(t)-8]))[:4])
}

// ---------- Coq cases ----------

var emit = true

func encCase(kind string, p string, v, n int, d []byte, out string) {
	coq := ""
	if emit {
		coq = fmt.Sprintf("CEnc %s %s %s %s %s", coqText(p), coqZ(v), coqZ(n), common.CoqBytes(d), coqText(out))
	}
	c.Tally("encode/" + kind)
	c.Case(coq, map[string]interface{}{"kind": "encode/" + kind, "value": in(p, v, n, d), "out": out},
		fmt.Sprintf("e|%q|%d|%d|%x", p, v, n, d), out != "ERROR")
}

func decCase(kind string, text string, r decoded) {
	coq := ""
	if emit {
		res := "None"
		if r.ok {
			res = fmt.Sprintf("(Some (%s, %s, %s, %s))", coqText(r.p), coqZ(r.v), coqZ(r.n), common.CoqBytes(r.d))
		}
		coq = fmt.Sprintf("CDec %s %s", coqText(text), res)
	}
	c.Tally("decode/" + kind + "/" + map[bool]string{true: "ok", false: "err"}[r.ok])
	c.Case(coq, map[string]interface{}{"kind": "decode/" + kind, "text": fmt.Sprintf("%q", text), "ok": r.ok},
		"d|"+text, len(text) >= 14 && strings.Contains(text, ":"))
}

func valCase(kind string, text string) {
	if !strings.HasPrefix(text, "bitcoin-script:") {
		return
	}
	ok := validate(text)
	coq := ""
	if emit {
		coq = fmt.Sprintf("CVal %s %s", coqText(text), common.CoqBool(ok))
	}
	c.Tally("validate/" + kind + "/" + map[bool]string{true: "ok", false: "err"}[ok])
	c.Case(coq, map[string]interface{}{"kind": "validate/" + kind, "text": fmt.Sprintf("%q", text), "ok": ok}, "v|"+text, len(text) > 15)
}

// full: Go-level predicates + model comparison of encoder and decoder on one value
func fullCase(kind string, p string, v, n int, d []byte) string {
	s := checkValue(p, v, n, d)
	encCase(kind, p, v, n, d, s)
	decCase(kind, s, decode(s))
	return s
}

var payloadLens = []int{0, 1, 11, 300}
var prefixes = []string{bscript.PrefixScript, bscript.PrefixTemplate}

func main() {
	c = common.Parse("C17")
	c.SetHeader(header)
	c.PerShard = 250
	emit = c.Mode == "gen"
	r := common.NewRand(c.Seed)
	payload := map[int][]byte{}
	for _, l := range payloadLens {
		payload[l] = r.Bytes(l)
	}

	// 1. all 65 025 (version, network) pairs on the Go side. quick: prefix and payload length rotate
	// with the pair; thorough: every pair x 2 prefixes x 4 payload lengths.
	goPairs := 0
	for v := 1; v <= 255; v++ {
		for n := 1; n <= 255; n++ {
			if c.Thorough() {
				for _, p := range prefixes {
					for _, l := range payloadLens {
						checkValue(p, v, n, payload[l])
						goPairs++
					}
					checkValue(p, v, n, nil)
				}
			} else {
				k := v*255 + n + int(c.Seed)
				d := payload[payloadLens[(k/2)%4]]
				if len(d) == 0 && (k/8)%2 == 1 {
					d = nil // the empty payload, as a zero BIP276.Data
				}
				checkValue(prefixes[k%2], v, n, d)
				goPairs++
			}
		}
	}
	c.Stats.Extra["go_level_pair_evaluations"] = goPairs

	// 2. model comparison: boundary pairs (all combinations) + a deterministic random sample;
	// thorough: every pair x both prefixes.
	bnd := []int{1, 2, 9, 10, 15, 16, 17, 99, 100, 127, 128, 159, 160, 171, 254, 255}
	k := 0
	for _, v := range bnd {
		for _, n := range bnd {
			l := payloadLens[k%3] // 300-byte payloads are exercised separately below (Coq ingestion cost)
			fullCase("boundary", prefixes[k%2], v, n, payload[l])
			k++
		}
	}
	if c.Thorough() {
		for v := 1; v <= 255; v++ {
			for n := 1; n <= 255; n++ {
				for _, p := range prefixes {
					fullCase("all-pairs", p, v, n, payload[payloadLens[(v+n)%3]])
				}
			}
		}
	} else {
		for i := 0; i < 1300; i++ {
			fullCase("sampled", prefixes[r.Intn(2)], 1+r.Intn(255), 1+r.Intn(255), r.Bytes([]int{0, 1, 2, 11}[r.Intn(4)]))
		}
	}
	for _, p := range prefixes {
		for _, l := range payloadLens {
			fullCase("payload-len", p, 1+r.Intn(255), 1+r.Intn(255), payload[l])
		}
	}

	// every payload length 0..700 on the Go side (both prefixes); on the model: 0..24 and the lengths
	// around powers of two and around the places where text length crosses 128/256/512 characters
	for l := 0; l <= 700; l++ {
		d := r.Bytes(l)
		for _, p := range prefixes {
			checkValue(p, 1+(l*7)%255, 1+(l*11)%255, d)
		}
	}
	modelLens := []int{31, 32, 33, 47, 48, 49, 55, 56, 57, 63, 64, 65, 110, 117, 118, 119, 120, 121, 127, 128, 129, 180, 235, 236, 237, 238, 239, 255, 256, 257, 400, 511, 512, 513}
	for l := 0; l <= 24; l++ {
		modelLens = append(modelLens, l)
	}
	for i, l := range modelLens {
		fullCase("payload-len", prefixes[i%2], 1+r.Intn(255), 1+r.Intn(255), r.Bytes(l))
	}

	// 3. out-of-range fields => "ERROR" (incl. negative)
	for _, bad := range []int{0, 256, -1, 257, -255, -256, 1 << 31, -(1 << 40), 1000} {
		for _, good := range []int{1, 255} {
			for _, pr := range [][2]int{{bad, good}, {good, bad}, {bad, bad}} {
				s, _ := encode(bscript.PrefixScript, pr[0], pr[1], []byte{1})
				if s != "ERROR" {
					site := "EncodeBIP276/out-of-range-not-rejected"
					if pr[0] < 0 || pr[1] < 0 {
						site = "EncodeBIP276/negative-field-not-rejected"
					}
					violate(site, fmt.Sprintf("%q", s), in(bscript.PrefixScript, pr[0], pr[1], []byte{1}))
				}
				encCase("out-of-range", bscript.PrefixScript, pr[0], pr[1], []byte{1}, s)
			}
		}
	}

	// 4. prefixes outside the property (model comparison; round trip stated where the theorem's
	// hypotheses hold: non-empty, no newline)
	odd := []string{"a", "a:b", "::", ":", "x:0101", "bitcoin-script:bitcoin-script", "bitcoin-script:0101abcdef0123456789",
		"\xff\xfe", "\xc3\xa9t\xc3\xa9", "\xe2\x82", "sp ace", "q\"uote", "tab\t", "0123456789abcdef", "a\nb", "\n", "a\n", ""}
	for i, p := range odd {
		v, n := 1+r.Intn(255), 1+r.Intn(255)
		d := r.Bytes(i % 4)
		if p != "" && !strings.Contains(p, "\n") {
			fullCase("odd-prefix", p, v, n, d)
		} else {
			s, _ := encode(p, v, n, d)
			encCase("odd-prefix-outside-hypotheses", p, v, n, d, s)
			decCase("odd-prefix-outside-hypotheses", s, decode(s))
		}
	}

	// 5. every single-character corruption of ten valid encodings (Go side: every position x every
	// other byte value, + deletions, insertions, truncations; model side: a fixed selection per position)
	var valid []string
	for i := 0; i < 10; i++ {
		p := prefixes[i%2]
		if i == 8 {
			p = "a:b"
		}
		valid = append(valid, checkValue(p, 1+r.Intn(255), 1+r.Intn(255), r.Bytes([]int{0, 1, 3, 6, 11}[i%5])))
	}
	corruptGo, accepted := 0, 0
	for _, s := range valid {
		decCase("valid", s, decode(s))
		valCase("valid", s)
		for i := 0; i < len(s); i++ {
			for b := 0; b < 256; b++ {
				if byte(b) == s[i] {
					continue
				}
				t := s[:i] + string([]byte{byte(b)}) + s[i+1:]
				if checkCorrupt(t, s).ok {
					accepted++
				}
				corruptGo++
			}
			// model side: same-class replacement, case flip, non-hex / structural characters
			repl := []byte{"0123456789abcdef"[(strings.IndexByte("0123456789abcdef", s[i])+1+r.Intn(15))&15], s[i] ^ 0x20, ':', 'g', '\n', byte(0x80 + r.Intn(128))}
			pick := []byte{repl[0], repl[1+(i%5)]}
			for _, b := range pick {
				if b == s[i] {
					continue
				}
				t := s[:i] + string([]byte{b}) + s[i+1:]
				decCase("substituted", t, checkCorrupt(t, s))
				if i%7 == 0 {
					valCase("substituted", t)
				}
			}
			// deletion and insertion at this position
			del := s[:i] + s[i+1:]
			ins := s[:i] + string([]byte{"0f:aF"[i%5]}) + s[i:]
			for _, t := range []string{del, ins} {
				rr := checkCorrupt(t, s)
				corruptGo++
				if rr.ok {
					accepted++
				}
				if i%2 == 0 {
					decCase("indel", t, rr)
				}
			}
		}
	}
	for i := 0; i <= len(valid[0]); i++ { // every truncation of one encoding
		t := valid[0][:i]
		decCase("truncated", t, checkCorrupt(t, valid[0]))
		valCase("truncated", t)
	}
	c.Stats.Extra["go_level_corruptions"] = corruptGo
	c.Stats.Extra["go_level_corruptions_accepted"] = accepted

	// 6. hand-made adversarial texts: several colons, letter case, zero fields, odd data length,
	// short tails, newline, non-UTF-8 — each with a checksum that is right for the text as written,
	// so acceptance depends on the layout alone.
	withSum := func(p string) string { return p + hex.EncodeToString(sha256d([]byte(p))[:4]) }
	adv := []string{
		withSum("bitcoin-script:0101"), withSum("bitcoin-script:0000"), withSum("bitcoin-script:ff00ab"),
		withSum("bitcoin-script:AB0aABcd"), withSum("bitcoin-script:ab0aabc"), withSum("bitcoin-script:010"),
		withSum("bitcoin-script:01"), withSum("bitcoin-script:"), withSum("bitcoin-script"), withSum(":0101"), withSum("::0101"),
		withSum("a:b:c:0101"), withSum("a:0101:0202ab"), withSum("a:0101:g:0202"), withSum("a:0101g"), withSum("a:01 01"),
		withSum("bitcoin-script:0101:"), withSum("x\ny:0101"), withSum("\nx:0101"), withSum("x:\n0101"), withSum("\xff:0101"),
		withSum("\xe2\x82:0101"), withSum("\xe2\x82\xac:0101ac"), withSum("bitcoin-script:0x01"), withSum("bitcoin-script:+101"),
		strings.ToUpper(withSum("bitcoin-script:0a0b")), "bitcoin-script:0A0B" + strings.ToUpper(hex.EncodeToString(sha256d([]byte("bitcoin-script:0A0B"))[:4])),
		"bitcoin-script:0a0b" + strings.ToUpper(hex.EncodeToString(sha256d([]byte("bitcoin-script:0a0b"))[:4])),
		withSum("bitcoin-script:0101") + "\n", "\n" + withSum("bitcoin-script:0101"), " " + withSum("bitcoin-script:0101"),
		withSum("bitcoin-script:0101") + " ", "bitcoin-script:010100000000", "bitcoin-script:0101000000000", "bitcoin-script:01010000000",
		"", ":", "bitcoin-script:", "bitcoin-script:invalid", "ERROR", withSum("bitcoin-template:0101"),
		withSum("bitcoin-script:bitcoin-script:0101"), withSum("bitcoin-script::0101"),
	}
	// a valid encoding followed by its own checksum digits again (with and without more data in between): the
	// checksum covers everything before the LAST eight digits, wherever else those digits occur
	for _, v := range valid[:4] {
		ck := v[len(v)-8:]
		adv = append(adv, v+ck, v+"ab"+ck, v+ck+ck, v[:len(v)-8]+ck[:6]+ck, withSum(v), withSum(v+ck))
	}
	// every single-byte substitution in the hex part of the ten encodings, each with the checksum recomputed over the text as
	// written: a character that is not a hex digit must be refused whatever the checksum says (Go side: all 255 values at every
	// position; model side: one non-hex value per position, chosen among the characters next to the digit ranges)
	resum := 0
	for _, v := range valid {
		i0 := strings.LastIndex(v, ":") + 1
		body := v[:len(v)-8]
		for i := i0; i < len(body); i++ {
			near := []byte{'G', 'Z', '[', '`', 'g', '/', ':', '@', '_', 'O'}[(i+resum)%10]
			for b := 0; b < 256; b++ {
				if byte(b) == body[i] {
					continue
				}
				t := withSum(body[:i] + string([]byte{byte(b)}) + body[i+1:])
				rr := decode(t)
				resum++
				if rr.ok && !wellFormed(t) { // (a ':' moves the end of the prefix: judged by the layout, like the hand-made texts below)
					violate("DecodeBIP276/accepts-non-hex-digit", fmt.Sprintf("decoded as version/network %d/%d data %x", rr.v, rr.n, rr.d), fmt.Sprintf("%q", t))
				}
				checkValidate(t, rr.ok)
				if byte(b) == near {
					decCase("resummed", t, rr)
				}
			}
		}
	}
	c.Stats.Extra["go_level_resummed_substitutions"] = resum
	for _, t := range adv {
		rr := decode(t)
		if rr.ok { // accepted => exactly the layout with the checksum of the preceding text
			if !wellFormed(t) {
				violate("DecodeBIP276/accepts-malformed-text", "", fmt.Sprintf("%q", t))
			}
		}
		checkValidate(t, rr.ok)
		decCase("adversarial", t, rr)
		valCase("adversarial", t)
	}

	// 7. state that outlives a call: sequential histories (A, B, A) and overlapping calls (concurrent.go)
	histories(r)
	concurrent(r)

	// 8. memory the caller owns: payloads that are windows of a larger buffer, results of the decoder, nil / empty (memory.go)
	memory(r)

	c.Stats.Rule = "Go side: all 65 025 (version, network) pairs (quick: prefix script/template and payload length {0,1,11,300} rotate with the pair; thorough: every pair x 2 prefixes x 4 lengths) with round-trip, layout and validate predicates; every payload length 0..700 x 2 prefixes; every single-byte substitution (all 255 other values), deletion and insertion at every position of ten valid encodings, every truncation of one; every single-byte substitution in the hex part of the ten encodings with the checksum recomputed over the text as written. Model side (cases counted here): 16x16 boundary field values + 1300 seeded random pairs (thorough: all pairs x 2 prefixes), payload lengths {0,1,11,300} x 2 prefixes and 59 further lengths (0..24, around 32/48/56/64/118/128/237/256/512), out-of-range fields {0,256,-1,257,-255,-256,2^31,-2^40,1000}, 18 unusual prefixes (colons, non-UTF-8, newline, empty), two substitutions + indels per position of the ten encodings, truncations, 40 hand-made adversarial texts (several colons, letter case, zero fields, odd data length). distinct = distinct (prefix,version,network,data) for encoder cases / distinct text for decoder and validate cases; non-trivial = encoder output is not ERROR / text has a colon and at least 14 characters" + concurrencyRule + memoryRule
	c.Finish()
}
