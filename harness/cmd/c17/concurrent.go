package main

// State that outlives a call.  EncodeBIP276, DecodeBIP276 and ValidateAddress look like functions of their argument:
// the property quantifies over values and texts, and nothing in it lets the answer for one value depend on which other
// value the process handled before, or is handling at the same moment.  A package-level hasher, scratch buffer, memo or
// "last result" kept for speed is invisible while every call leaves it consistent and the calls come one after another
// on ever-new inputs; it shows
//
//   (H) sequentially, when the calls RETURN to an input after a different one (A, B, A) — B differing from A in exactly
//       one component, so a memo keyed on part of the input answers B with what it kept for A (or A with what it kept
//       for B) — and along a seeded walk over a pool of encoder / decoder / validator calls in arbitrary order;
//   (P) as soon as two calls overlap: 8 goroutines, each with inputs of its OWN (no object is shared between them, the
//       inputs are only read), call the same entry point — and, in a last phase, different entry points — at once.
//
// What is reported is decided by sequential calls only: every input of (H) and (P) is first run once, alone, through the
// predicates of main.go (layout against the independent specification, round trip, validate <=> decodes) and — payloads
// up to 120 bytes — becomes a Coq case; these observations are the case data, so the case files do not depend on
// scheduling.  The later calls add Go-level violations only: an observation (text / accepted with these four fields or
// rejected / verdict; a panic is an observation) that differs from the sequential one of the same call.

import (
	"bytes"
	"encoding/hex"
	"fmt"
	"runtime"
	"strings"
	"sync"
	"sync/atomic"

	"github.com/libsv/go-bt/v2/bscript"

	"verif/harness/common"
)

var apiName = map[byte]string{'e': "EncodeBIP276", 'd': "DecodeBIP276", 'v': "ValidateAddress"}

// one call of one entry point, with the observation of the same call made alone
type cOp struct {
	api  byte // 'e' | 'd' | 'v'
	p    string
	v, n int
	d    []byte // 'e': the value
	d0   []byte // copy of d taken before the first call
	text string // 'd', 'v': the text
	ref  string // observation of the sequential call
}

func (o *cOp) input() interface{} {
	if o.api == 'e' {
		return in(o.p, o.v, o.n, o.d0)
	}
	return fmt.Sprintf("%q", o.text)
}

// observe: one library call, nothing else (safe to run on several goroutines: no harness state is touched).
func (o *cOp) observe() (obs string) {
	pan, msg := common.Safely(func() {
		switch o.api {
		case 'e':
			obs = "text " + bscript.EncodeBIP276(bscript.BIP276{Prefix: o.p, Version: o.v, Network: o.n, Data: o.d})
		case 'd':
			s, err := bscript.DecodeBIP276(o.text)
			switch {
			case err != nil:
				obs = "rejected"
			case s == nil:
				obs = "nil without an error"
			default:
				obs = fmt.Sprintf("accepted: prefix %q version %d network %d data %x", s.Prefix, s.Version, s.Network, s.Data)
			}
		case 'v':
			ok, err := bscript.ValidateAddress(o.text)
			switch {
			case ok && err == nil:
				obs = "valid"
			case !ok && err != nil:
				obs = "invalid"
			default:
				obs = fmt.Sprintf("verdict %v with error %v", ok, err)
			}
		}
	})
	if pan {
		return "panic: " + msg
	}
	return obs
}

func short(s string) string {
	if len(s) > 260 {
		return s[:120] + fmt.Sprintf("...(%d characters)...", len(s)-240) + s[len(s)-120:]
	}
	return s
}

// how two observations of one call differ, in a line
func obsDiff(got, want string) string {
	if strings.HasPrefix(got, "text ") && strings.HasPrefix(want, "text ") && len(got) == len(want) && len(got) > 13 {
		if got[:len(got)-8] == want[:len(want)-8] {
			return fmt.Sprintf("same text up to the checksum digits, which read %s instead of %s", got[len(got)-8:], want[len(want)-8:])
		}
	}
	return fmt.Sprintf("%s; the call made alone: %s", short(got), short(want))
}

// ---------- sequential first call: predicates of main.go + Coq case + reference observation ----------

const modelPayloadMax = 120 // longer payloads stay on the Go side (Coq ingestion cost)

func encOp(kind, p string, v, n int, d []byte) *cOp {
	o := &cOp{api: 'e', p: p, v: v, n: n, d: d, d0: append([]byte{}, d...)}
	var s string
	if len(d) <= modelPayloadMax {
		s = fullCase(kind, p, v, n, d)
	} else {
		s = checkValue(p, v, n, d)
		c.Tally("go-only/encode/" + kind)
	}
	o.ref = o.observe()
	if o.ref != "text "+s {
		violate("EncodeBIP276/same-value-encodes-differently-the-second-time", obsDiff(o.ref, "text "+s), o.input())
		o.ref = "text " + s
	}
	o.unchanged()
	return o
}

// the caller's payload is the caller's
func (o *cOp) unchanged() {
	if o.api == 'e' && !bytes.Equal(o.d, o.d0) {
		violate("EncodeBIP276/changes-the-callers-data", fmt.Sprintf("the Data slice handed to the encoder now reads %x", o.d), o.input())
		o.d = append([]byte{}, o.d0...)
	}
}

// orig: the valid encoding the text was derived from ("" for a text that is itself the encoder's output)
func decOp(kind, text, orig string) *cOp {
	o := &cOp{api: 'd', text: text}
	var r decoded
	if orig == "" || orig == text || wellFormed(text) { // (a text with its own right checksum is judged by the layout, as in main.go)
		r = decode(text)
		checkValidate(text, r.ok)
	} else {
		r = checkCorrupt(text, orig)
	}
	if r.ok && !wellFormed(text) {
		violate("DecodeBIP276/accepts-malformed-text", "", fmt.Sprintf("%q", text))
	}
	if len(text) <= 2*modelPayloadMax+40 {
		decCase(kind, text, r)
	} else {
		c.Tally("go-only/decode/" + kind)
	}
	o.ref = o.observe()
	want := "rejected"
	if r.ok {
		want = fmt.Sprintf("accepted: prefix %q version %d network %d data %x", r.p, r.v, r.n, r.d)
	}
	if o.ref != want {
		violate("DecodeBIP276/same-text-decodes-differently-the-second-time", obsDiff(o.ref, want), o.input())
		o.ref = want
	}
	return o
}

func valOp(kind, text string) *cOp {
	o := &cOp{api: 'v', text: text}
	if len(text) <= 2*modelPayloadMax+40 {
		valCase(kind, text)
	} else {
		c.Tally("go-only/validate/" + kind)
	}
	first := validate(text)
	o.ref = o.observe()
	if want := map[bool]string{true: "valid", false: "invalid"}[first]; o.ref != want {
		violate("ValidateAddress/same-text-validates-differently-the-second-time", fmt.Sprintf("%s; the first call: %s", o.ref, want), o.input())
		o.ref = want
	}
	return o
}

// again: the call made once more, sequentially, after other calls; must be what it was
func (o *cOp) again(site, after string) bool {
	got := o.observe()
	o.unchanged()
	if got != o.ref {
		violate(apiName[o.api]+"/"+site, fmt.Sprintf("%s: %s", after, obsDiff(got, o.ref)), o.input())
		return false
	}
	return true
}

// ---------- texts derived from a valid encoding ----------

func flipHex(s string, i int) string {
	k := strings.IndexByte("0123456789abcdef", s[i])
	if k < 0 {
		return s
	}
	return s[:i] + string("0123456789abcdef"[(k+1)&15]) + s[i+1:]
}

func resummed(body string) string { return body + hex.EncodeToString(sha256d([]byte(body))[:4]) }

// variants of the valid encoding s: wrong checksum digit, one data/header digit changed (checksum left), the same with
// the checksum recomputed (another valid text of the same length), one digit dropped, an upper-cased body with its own
// checksum, a non-hex character with its own checksum
func textVariants(s string, k int) []string {
	i0 := strings.LastIndex(s, ":") + 1
	body := s[:len(s)-8]
	at := i0 + k%(len(body)-i0)
	out := []string{
		flipHex(s, len(s)-1-k%8),
		flipHex(s, at),
		resummed(flipHex(body, at)),
		s[:len(s)-1],
		resummed(body[:i0] + strings.ToUpper(body[i0:])),
		resummed(body[:at] + "g" + body[at+1:]),
	}
	return out
}

// ---------- (H) sequential histories ----------

func histories(r *common.Rand) {
	nA := 6
	if c.Thorough() {
		nA = 40
	}
	aba := 0
	var pool []*cOp
	for i := 0; i < nA; i++ {
		p := prefixes[i%2]
		v, n := 1+r.Intn(255), 1+r.Intn(255)
		if i == 2 {
			n = v // the pair on which the specified layout and the library's agree
		}
		d := r.Bytes([]int{0, 1, 5, 11, 32, 70}[i%6])
		a := encOp("history", p, v, n, d)
		pool = append(pool, a)
		// B: A with exactly one component changed
		type val struct {
			what string
			p    string
			v, n int
			d    []byte
		}
		other := func(x int) int { return 1 + (x-1+1+r.Intn(254))%255 }
		bs := []val{
			{"prefix", prefixes[(i+1)%2], v, n, d},
			{"version", p, other(v), n, d},
			{"network", p, v, other(n), d},
			{"version and network exchanged", p, n, v, d},
			{"data, one more byte", p, v, n, append(append([]byte{}, d...), byte(r.Intn(256)))},
		}
		if len(d) > 0 {
			d1 := append([]byte{}, d...)
			d1[len(d1)-1] ^= byte(1 + r.Intn(255))
			d2 := r.Bytes(len(d))
			bs = append(bs, val{"data, last byte", p, v, n, d1}, val{"data, same length", p, v, n, d2}, val{"data, one byte less", p, v, n, d[:len(d)-1]})
		}
		ta := strings.TrimPrefix(a.ref, "text ")
		da, va := decOp("history", ta, ""), (*cOp)(nil)
		pool = append(pool, da)
		if strings.HasPrefix(ta, "bitcoin-script:") {
			va = valOp("history", ta)
			pool = append(pool, va)
		}
		for _, b := range bs {
			if b.v == v && b.n == n && b.p == p && bytes.Equal(b.d, d) {
				continue
			}
			ob := encOp("history", b.p, b.v, b.n, b.d) // B for the first time, right after A
			after := "after encoding the same value with another " + b.what
			a.again("same-value-encodes-differently-after-another-value", after)
			ob.again("same-value-encodes-differently-after-another-value", "after encoding the value it was derived from")
			// the texts, through the decoder and the validator: A, B, A
			tb := strings.TrimPrefix(ob.ref, "text ")
			db := decOp("history", tb, "")
			da.again("same-text-decodes-differently-after-another-text", "after decoding the encoding of the same value with another "+b.what)
			db.again("same-text-decodes-differently-after-another-text", "after decoding the text it was derived from")
			if va != nil && strings.HasPrefix(tb, "bitcoin-script:") {
				vb := valOp("history", tb)
				va.again("same-text-validates-differently-after-another-text", "after validating the encoding of the same value with another "+b.what)
				vb.again("same-text-validates-differently-after-another-text", "after validating the text it was derived from")
			}
			// across entry points: encode A, decode B's text, encode A; decode A's text, encode B, decode A's text
			db.again("same-text-decodes-differently-after-another-text", "after encoding another value")
			a.again("same-value-encodes-differently-after-another-value", "after decoding another text")
			ob.again("same-value-encodes-differently-after-another-value", "after encoding another value")
			da.again("same-text-decodes-differently-after-another-text", "after encoding another value")
			aba++
			if len(pool) < 60 {
				pool = append(pool, ob, db)
			}
		}
		// texts that must be refused, between two calls on the valid text they come from
		for k, t := range textVariants(ta, i) {
			dt := decOp("history-variant", t, ta)
			da.again("same-text-decodes-differently-after-another-text", fmt.Sprintf("after decoding the variant %q of it", short(t)))
			dt.again("same-text-decodes-differently-after-another-text", "after decoding the valid text it was derived from")
			if va != nil {
				vt := valOp("history-variant", t)
				va.again("same-text-validates-differently-after-another-text", fmt.Sprintf("after validating the variant %q of it", short(t)))
				vt.again("same-text-validates-differently-after-another-text", "after validating the valid text it was derived from")
				if k%2 == 0 {
					pool = append(pool, vt)
				}
			}
			aba++
			if k%2 == 1 {
				pool = append(pool, dt)
			}
		}
	}
	// a seeded walk over the pool: any call after any other
	steps := 1500
	if c.Thorough() {
		steps = 40000
	}
	prev := "nothing"
	dead := map[*cOp]bool{}
	for i := 0; i < steps; i++ {
		o := pool[r.Intn(len(pool))]
		if dead[o] {
			continue
		}
		if !o.again("differs-from-its-first-call-along-a-sequence-of-calls", "call "+fmt.Sprint(i)+" of a walk over "+fmt.Sprint(len(pool))+" encoder / decoder / validator calls, right after "+prev) {
			dead[o] = true
		}
		prev = apiName[o.api] + " of " + short(fmt.Sprint(o.input()))
	}
	c.Stats.Extra["go_level_A_B_A_histories"] = aba
	c.Stats.Extra["go_level_walk_steps"] = steps
}

// ---------- (P) overlapping calls ----------

type cMiss struct {
	worker, round int
	op            *cOp
	got           string
}

// race: goroutine w makes the calls jobs[w], `rounds` times over; all stop at the first deviation anywhere.
// Returns each goroutine's first deviation (nil if none).
func race(jobs [][]*cOp, rounds int) ([]*cMiss, int) {
	var stop int32
	var calls int64
	miss := make([]*cMiss, len(jobs))
	var wg sync.WaitGroup
	start := make(chan struct{})
	for w := range jobs {
		wg.Add(1)
		go func(w int) {
			defer wg.Done()
			n := 0
			defer func() { atomic.AddInt64(&calls, int64(n)) }()
			<-start
			for rd := 0; rd < rounds && atomic.LoadInt32(&stop) == 0; rd++ {
				for _, o := range jobs[w] {
					got := o.observe()
					n++
					if got != o.ref {
						miss[w] = &cMiss{w, rd, o, got}
						atomic.StoreInt32(&stop, 1)
						return
					}
				}
			}
		}(w)
	}
	close(start)
	wg.Wait()
	return miss, int(calls)
}

func concurrent(r *common.Rand) {
	const workers = 8
	if prev := runtime.GOMAXPROCS(0); prev < workers {
		runtime.GOMAXPROCS(workers) // overlap needs threads; on a small machine the scheduler's preemption has to do
		defer runtime.GOMAXPROCS(prev)
	}
	// every goroutine's own inputs: values of several payload lengths (the longer the text, the wider the window in
	// which two calls overlap), their encodings, variants of the encodings that must be refused
	enc := make([][]*cOp, workers)
	dec := make([][]*cOp, workers)
	val := make([][]*cOp, workers)
	all := make([][]*cOp, workers)
	for w := 0; w < workers; w++ {
		lens := []int{w % 3, 20 + 5*w, 100 + r.Intn(21), 200 + 37*w, 520 + 20*w}
		for i, l := range lens {
			p := prefixes[(w+i)%2]
			e := encOp("concurrent", p, 1+r.Intn(255), 1+r.Intn(255), r.Bytes(l))
			enc[w] = append(enc[w], e)
			t := strings.TrimPrefix(e.ref, "text ")
			texts := []string{t}
			if i < 4 {
				vs := textVariants(t, w+i)
				texts = append(texts, vs[(w+i)%3], vs[3+(w+i)%3])
			}
			for k, x := range texts {
				o := ""
				if k > 0 {
					o = t
				}
				dec[w] = append(dec[w], decOp("concurrent", x, o))
				if strings.HasPrefix(x, "bitcoin-script:") {
					val[w] = append(val[w], valOp("concurrent", x))
				}
			}
		}
		// all three entry points, each goroutine starting at a different place of its list
		mix := append(append(append([]*cOp{}, enc[w]...), dec[w]...), val[w]...)
		for i := range mix {
			all[w] = append(all[w], mix[(i*7+w*5)%len(mix)])
		}
	}
	rounds := map[byte]int{'e': 1000, 'd': 30, 'v': 30, 'm': 20}
	if c.Thorough() {
		rounds = map[byte]int{'e': 30000, 'd': 900, 'v': 900, 'm': 600}
	}
	phases := []struct {
		key  byte
		how  string
		jobs [][]*cOp
	}{
		{'e', "8 goroutines call EncodeBIP276 at the same time, each on values of its own", enc},
		{'d', "8 goroutines call DecodeBIP276 at the same time, each on texts of its own", dec},
		{'v', "8 goroutines call ValidateAddress at the same time, each on bitcoin-script texts of its own", val},
		{'m', "8 goroutines call EncodeBIP276, DecodeBIP276 and ValidateAddress at the same time, each on inputs of its own", all},
	}
	for _, ph := range phases {
		miss, n := race(ph.jobs, rounds[ph.key])
		c.Stats.Extra["go_level_concurrent_calls_phase_"+string(ph.key)] = n
		reported := map[string]bool{}
		for _, m := range miss {
			if m == nil {
				continue
			}
			site := apiName[m.op.api] + "/concurrent-call-differs-from-the-same-call-made-alone"
			if strings.HasPrefix(m.got, "panic") {
				site = apiName[m.op.api] + "/panics-when-called-concurrently"
			}
			if reported[site] {
				continue
			}
			reported[site] = true
			var others []interface{}
			for w, js := range ph.jobs {
				if w == m.worker {
					continue
				}
				var xs []interface{}
				for _, o := range js {
					xs = append(xs, map[string]interface{}{"call": apiName[o.api], "input": o.input()})
				}
				others = append(others, xs)
			}
			violate(site, fmt.Sprintf("%s; goroutine %d, pass %d: %s", ph.how, m.worker, m.round, obsDiff(m.got, m.op.ref)),
				map[string]interface{}{"call": apiName[m.op.api], "input": m.op.input(), "alone": short(m.op.ref), "concurrently": ph.how,
					"goroutines": workers, "passes_over_each_list": rounds[ph.key], "calls_of_the_other_goroutines": others})
		}
		// nobody's inputs were written to, and every call made alone again gives what it gave before
		for _, js := range ph.jobs {
			for _, o := range js {
				o.unchanged()
				o.again("differs-after-concurrent-use", "made alone again after the phase in which "+ph.how)
			}
		}
	}
	c.Tally("go-only/concurrent-phases")
}

const concurrencyRule = " Shared state: (H) sequential histories A, B, A through encoder, decoder and validator with B = A changed in one component (prefix / version / network / exchanged / data byte, length) and with six refused variants of A's text, across entry points, and a seeded walk over a pool of about 60 calls, every observation compared with the first one of the same call; (P) 8 goroutines, each on 5 values of its own (payloads 0..660 bytes), their texts and refused variants: EncodeBIP276 x8, DecodeBIP276 x8, ValidateAddress x8 and all three mixed, every observation (text / accepted fields or rejected / verdict / panic) compared with the observation of the same call made alone beforehand; the calls made alone are the cases (model side: payloads up to 120 bytes), the concurrent phases only add Go-level violations."
