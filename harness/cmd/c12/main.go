// c12: funding — an instrumented bt.UTXOGetterFunc replays a supplier history and records the deficit
// it is called with; cases for the Coq model (corr/C12.v) plus the property stated directly in Go.
package main

import (
	"context"
	"errors"
	"fmt"
	"math/big"
	"reflect"
	"strings"

	"github.com/libsv/go-bt/v2"
	"github.com/libsv/go-bt/v2/bscript"

	"verif/harness/common"
	"verif/harness/feegen"
	"verif/harness/txgen"
)

var c *common.Ctx

const header = `From Coq Require Import List NArith String.
From Coq Require Import Strings.Byte.
From GoBT Require Import lib.Bytes lib.Hex model.Tx spec.FeeSpec model.Fees model.Fund corr.FeeCorr corr.C12.
Import ListNotations. Local Open Scope N_scope.
`

type utxo struct {
	Txid      string `json:"txid"`
	Vout      uint32 `json:"vout"`
	Script    string `json:"script"`
	ScriptNil bool   `json:"script_nil,omitempty"`
	Sats      uint64 `json:"sats"`
	Seq       uint32 `json:"seq"` // UTXO.SequenceNumber: ignored by FromUTXOs (the input gets the final sequence)
}

// response kinds: "batch" (possibly empty), "noutxo", "err"
type response struct {
	Kind  string `json:"kind"`
	Utxos []utxo `json:"utxos,omitempty"`
	Tag   string `json:"tag"`
}

func (u utxo) coq() string {
	sc := "None"
	if !u.ScriptNil {
		sc = "(Some " + feegen.CoqBytes(common.Unhex(u.Script)) + ")"
	}
	return fmt.Sprintf("mkUtxo %s %d %s %d", feegen.CoqBytes(common.Unhex(u.Txid)), u.Vout, sc, u.Sats)
}
func (r response) coq() string {
	switch r.Kind {
	case "noutxo":
		return "NoUTXO"
	case "err":
		return "OtherErr"
	}
	var us []string
	for _, u := range r.Utxos {
		us = append(us, u.coq())
	}
	return "Batch [" + strings.Join(us, "; ") + "]"
}

type twin struct {
	Kind    string       `json:"kind"`
	How     string       `json:"obtained"` // the way the starting transaction was obtained (provenance.go)
	Tx      txgen.TxSpec `json:"tx"`
	Quote   feegen.Quote `json:"quote"`
	History []response   `json:"history"`
}

func b2s(b bool) string { return common.CoqBool(b) }

// deficitNow: out + quoted fee of the estimated size - in, stated over the integers with the public API.
func deficitNow(tx *bt.Tx, q feegen.Quote) (*big.Int, bool) {
	z, err := tx.EstimateSizeWithTypes()
	if err != nil || !q.Complete() {
		return nil, false
	}
	in := new(big.Int).SetUint64(tx.TotalInputSatoshis())
	out := new(big.Int).SetUint64(tx.TotalOutputSatoshis())
	d := new(big.Int).Add(out, q.Quoted(z.TotalStdBytes, z.TotalDataBytes))
	d.Sub(d, in)
	if d.Sign() < 0 {
		d.SetInt64(0)
	}
	return d, true
}

func fundCase(kind string, s txgen.TxSpec, q feegen.Quote, hist []response, hyp bool) {
	fundCaseHow(kind, nextHow(), s, q, hist, hyp)
}

func fundCaseHow(kind, how string, s txgen.TxSpec, q feegen.Quote, hist []response, hyp bool) fundObs {
	tx, how := obtain(s, how)
	fq := q.Build()
	tw := twin{kind, how, s, q, hist}
	var calls []uint64
	exhausted := false
	next := func(ctx context.Context, deficit uint64) ([]*bt.UTXO, error) {
		k := len(calls)
		calls = append(calls, deficit)
		// --- the property, stated at the moment of the call ---
		if exhausted {
			c.Violate("Fund/called-after-exhaustion", "the supplier was called again after reporting ErrNoUTXO", tw)
		}
		if want, ok := deficitNow(tx, q); ok && hyp {
			if want.Sign() == 0 {
				c.Violate("Fund/called-without-deficit", fmt.Sprintf("call %d with argument %d although inputs cover outputs and fee", k, deficit), tw)
			} else if want.Cmp(new(big.Int).SetUint64(deficit)) != 0 {
				c.Violate("Fund/wrong-deficit-argument", fmt.Sprintf("call %d: argument %d, current deficit %s", k, deficit, want), tw)
			}
		}
		// the same, with the current deficit computed from what the transaction says at this moment (every input without
		// an unlocking script counted with the 107 bytes it will carry) and not from the library's own size estimate
		if hyp {
			var now txgen.TxSpec
			if p, _ := common.Safely(func() { now = txgen.FromTx(tx) }); !p {
				if want, ok := deficitSpec(now, q); ok {
					if want.Sign() == 0 {
						c.Violate("Fund/called-without-deficit", fmt.Sprintf("call %d with argument %d although inputs cover outputs and the fee of the estimated final size", k, deficit), tw)
					} else if want.Cmp(new(big.Int).SetUint64(deficit)) != 0 {
						c.Violate("Fund/wrong-deficit-argument", fmt.Sprintf("call %d: argument %d, but outputs + fee of the estimated final size - inputs = %s", k, deficit, want), tw)
					}
				}
			}
		}
		if deficit == 0 {
			c.Violate("Fund/zero-deficit-argument", fmt.Sprintf("call %d with deficit 0", k), tw)
		}
		if k >= len(hist) {
			exhausted = true
			return nil, bt.ErrNoUTXO // a used-up history is a depleted source
		}
		r := hist[k]
		switch r.Kind {
		case "noutxo":
			exhausted = true
			return nil, fmt.Errorf("wrapped: %w", bt.ErrNoUTXO)
		case "err":
			return []*bt.UTXO{{TxID: make([]byte, 32)}}, feegen.ErrSupplier
		}
		us := make([]*bt.UTXO, 0, len(r.Utxos))
		for _, u := range r.Utxos {
			x := &bt.UTXO{TxID: common.Unhex(u.Txid), Vout: u.Vout, Satoshis: u.Sats, SequenceNumber: u.Seq}
			if !u.ScriptNil {
				x.LockingScript = bscript.NewFromBytes(common.Unhex(u.Script))
			}
			us = append(us, x)
		}
		return us, nil
	}
	var err error
	pan, _ := common.Safely(func() { err = tx.Fund(context.Background(), fq, next) })
	after := txgen.FromTx(tx)

	// what was handed over by the answers consumed
	var supplied []utxo
	for k := 0; k < len(calls) && k < len(hist); k++ {
		if hist[k].Kind == "batch" {
			supplied = append(supplied, hist[k].Utxos...)
		}
	}
	restSame := after.Version == s.Version && after.Lock == s.Lock && len(after.Ins) >= len(s.Ins) &&
		reflect.DeepEqual(norm(after.Ins[:len(s.Ins)]), norm(s.Ins)) && outsEqual(after.Outs, s.Outs)
	if !outsEqual(after.Outs, s.Outs) {
		c.Violate("Fund/outputs-touched", "outputs differ after Fund", tw)
	}
	if !restSame {
		c.Violate("Fund/previous-inputs-touched", "previous inputs, version or locktime differ after Fund", tw)
	}
	var newIns []txgen.InSpec
	if len(after.Ins) >= len(s.Ins) {
		newIns = after.Ins[len(s.Ins):]
	}
	// appended inputs are a prefix of the supplied UTXOs, all of them on success; fields and sequence faithful
	if len(newIns) > len(supplied) || (err == nil && !pan && len(newIns) != len(supplied)) {
		c.Violate("Fund/inputs-count", fmt.Sprintf("%d inputs appended, %d UTXOs supplied, err %v", len(newIns), len(supplied), err), tw)
	}
	for i, in := range newIns {
		if i >= len(supplied) {
			break
		}
		u := supplied[i]
		if in.Txid != u.Txid || in.Vout != u.Vout || in.Sats != u.Sats || in.PrevNil != u.ScriptNil || (!u.ScriptNil && in.Prev != u.Script) ||
			in.Seq != 0xffffffff || in.Unlock != "" {
			c.Violate("Fund/input-not-faithful", fmt.Sprintf("appended input %d differs from the supplied UTXO (or sequence is not final)", i), tw)
			break
		}
	}
	sawNoUTXO := exhausted
	if sawNoUTXO && !(err != nil && errors.Is(err, bt.ErrInsufficientFunds)) {
		c.Violate("Fund/exhaustion-not-reported", fmt.Sprintf("supplier reported ErrNoUTXO while a deficit remained; Fund returned %v", err), tw)
	}
	if !sawNoUTXO && err != nil && errors.Is(err, bt.ErrInsufficientFunds) {
		c.Violate("Fund/insufficient-funds-without-exhaustion", "ErrInsufficientFunds although the supplier never reported exhaustion", tw)
	}
	var enough bool
	var enoughErr error
	p2, _ := common.Safely(func() { enough, enoughErr = tx.EstimateIsFeePaidEnough(fq) })
	if err == nil && !pan && hyp {
		if d, ok := deficitNow(tx, q); !ok || d.Sign() != 0 || p2 || enoughErr != nil || !enough {
			c.Violate("Fund/success-undercovered", fmt.Sprintf("Fund succeeded but deficit is %v (EstimateIsFeePaidEnough %v %v)", d, enough, enoughErr), tw)
		}
		// and from the description of the transaction Fund left behind
		if d, ok := deficitSpec(after, q); ok && d.Sign() != 0 {
			c.Violate("Fund/success-undercovered", fmt.Sprintf("Fund succeeded but outputs + fee of the estimated final size exceed inputs by %v", d), tw)
		}
	}
	// no deficit from the start: success without a call (stated from the description)
	if d, ok := deficitSpec(s, q); ok && hyp && !pan {
		if d.Sign() == 0 && (err != nil || len(calls) != 0) {
			c.Violate("Fund/covered-start-not-accepted", fmt.Sprintf("the starting transaction is covered; Fund made %d calls and returned %v", len(calls), err), tw)
		}
		if d.Sign() != 0 && len(calls) == 0 {
			c.Violate("Fund/deficit-but-no-call", fmt.Sprintf("the starting transaction lacks %v; the supplier was never called (Fund returned %v)", d, err), tw)
		}
	}

	var hs, cs []string
	for _, r := range hist {
		hs = append(hs, r.coq())
	}
	for _, d := range calls {
		cs = append(cs, fmt.Sprint(d))
	}
	// the theorems' no-overflow hypothesis is about the transaction Fund leaves behind: the value of the inputs it appended may
	// push the input total past 2^64 (three UTXOs of 2^63/3 each, twice), which no ledger can supply and the property does not
	// speak about; the flag handed to the model is computed from the same sums as the model's no_overflow
	hypModel := hyp
	if hyp {
		margin := new(big.Int).Add(feegen.SumOut(after), new(big.Int).Lsh(big.NewInt(1), 44))
		if feegen.SumIn(after).BitLen() > 64 || margin.BitLen() > 64 {
			hypModel = false
			c.Tally("fund/" + kind + "/totals-exceed-2^64")
		}
	}
	coq := fmt.Sprintf("CFund %s %s [%s] %s %s [%s] %d %s %s %d %s", feegen.CoqTx(s), q.Coq(), strings.Join(hs, "; "), b2s(hypModel),
		feegen.Obs(pan, err, "tt"), strings.Join(cs, "; "), len(calls), feegen.CoqIns(newIns), b2s(restSame),
		tx.TotalInputSatoshis(), feegen.Obs(p2, enoughErr, b2s(enough)))
	verdict := "ok"
	if pan {
		verdict = "panic"
	} else if err != nil {
		verdict = "err:" + feegen.ErrName(err)
	}
	c.Tally(fmt.Sprintf("%s/len=%d/calls=%d/%s", kind, len(hist), len(calls), verdict))
	// distinct = start tx, quote and the part of the history that was actually consumed
	used := len(calls)
	if used > len(hist) {
		used = len(hist)
	}
	c.Case(coq, tw, how+feegen.CoqTx(s)+q.Key()+strings.Join(hs[:used], ";")+fmt.Sprint(len(calls)), len(calls) > 0)
	return fundObs{verdict, calls, after}
}

func norm(ins []txgen.InSpec) []txgen.InSpec {
	out := []txgen.InSpec{}
	for _, i := range ins {
		if i.Unlock == "" {
			i.UnlockNil = true
		}
		out = append(out, i)
	}
	return out
}
func outsEqual(a, b []txgen.OutSpec) bool {
	if len(a) != len(b) {
		return false
	}
	for i := range a {
		if a[i] != b[i] {
			return false
		}
	}
	return true
}

// ---------- generators ----------

// scale: roughly what one more P2PKH input costs at this quote
func scale(q feegen.Quote) uint64 {
	if q.Std == nil || q.Std.Bytes == 0 {
		return 10
	}
	s := uint64(148*q.Std.Sat/q.Std.Bytes) + 1
	return s
}

func mkU(r *common.Rand, sats uint64) utxo {
	return utxo{Txid: common.Hex(feegen.Fill(r, 32)), Vout: uint32(r.Intn(3)), Script: common.Hex(feegen.P2PKH(feegen.Fill(r, 20))), Sats: sats, Seq: uint32(r.Intn(2)) * 7}
}

// the response kinds of the exhaustive enumeration
var kinds = []string{"empty", "under", "over", "multi", "noutxo", "err", "badtxid"}

func mkResp(r *common.Rand, kind string, q feegen.Quote, outTotal uint64) response {
	s := scale(q)
	switch kind {
	case "empty":
		return response{Kind: "batch", Tag: kind}
	case "under": // worth less than it costs to spend, or just a little more
		return response{Kind: "batch", Tag: kind, Utxos: []utxo{mkU(r, []uint64{s / 2, s + 1, s + outTotal/4}[r.Intn(3)])}}
	case "over":
		return response{Kind: "batch", Tag: kind, Utxos: []utxo{mkU(r, 10*s+2*outTotal+100)}}
	case "multi":
		n := 2 + r.Intn(2)
		var us []utxo
		for i := 0; i < n; i++ {
			us = append(us, mkU(r, s+outTotal/3+uint64(r.Intn(50))))
		}
		return response{Kind: "batch", Tag: kind, Utxos: us}
	case "noutxo":
		return response{Kind: "noutxo", Tag: kind}
	case "err":
		return response{Kind: "err", Tag: kind}
	case "badtxid": // a valid UTXO, then one whose txid is 31 (or 33, 0) bytes long, then another valid one
		bad := mkU(r, s+5)
		bad.Txid = common.Hex(feegen.Fill(r, []int{31, 33, 0}[r.Intn(3)]))
		return response{Kind: "batch", Tag: kind, Utxos: []utxo{mkU(r, s/2+1), bad, mkU(r, 5*s)}}
	case "nilscript":
		u := mkU(r, 3*s+outTotal)
		u.ScriptNil, u.Script = true, ""
		return response{Kind: "batch", Tag: kind, Utxos: []utxo{u}}
	case "nonp2pkh":
		u := mkU(r, 3*s+outTotal)
		u.Script = "51"
		return response{Kind: "batch", Tag: kind, Utxos: []utxo{u}}
	case "inscription":
		u := mkU(r, 3*s+outTotal)
		u.Script = common.Hex(feegen.Inscription(feegen.Fill(r, 20), []byte("text/plain"), []byte("hi")))
		return response{Kind: "batch", Tag: kind, Utxos: []utxo{u}}
	case "zerovalue": // a UTXO worth nothing (legal) next to one worth something: every UTXO returned is spent
		return response{Kind: "batch", Tag: kind, Utxos: []utxo{mkU(r, 0), mkU(r, s+outTotal/3)}}
	case "exact": // filled in by the caller
	}
	return response{Kind: "batch", Tag: kind}
}

func startTx(r *common.Rand, which int, q feegen.Quote) txgen.TxSpec {
	s := txgen.TxSpec{Version: 1}
	p := func() string { return common.Hex(feegen.P2PKH(feegen.Fill(r, 20))) }
	switch which % 8 {
	case 6: // signed prior inputs whose unlocking scripts are shorter / longer than the 107-byte dummy: counted as they are
		for _, l := range []int{106, 105, 72, 108}[:1+which/8%4] {
			in := feegen.InCheap(r, uint64(500+l))
			in.UnlockNil, in.Unlock = false, common.Hex(feegen.Fill(r, l))
			s.Ins = append(s.Ins, in)
		}
		s.Outs = []txgen.OutSpec{{Sats: 3000, Script: p()}}
	case 7: // amounts with bit 63 set on one side (the difference of outputs + fee and inputs does not fit an int64)
		if which/8%2 == 0 {
			s.Outs = []txgen.OutSpec{{Sats: 1 << 63, Script: p()}}
		} else {
			s.Ins = []txgen.InSpec{feegen.InCheap(r, 1<<63+1000)}
			s.Outs = []txgen.OutSpec{{Sats: 700, Script: p()}}
		}
	case 0: // no inputs, one payment
		s.Outs = []txgen.OutSpec{{Sats: 1000, Script: p()}}
	case 1: // one small input, payment + data output
		s.Ins = []txgen.InSpec{feegen.InCheap(r, 300)}
		s.Outs = []txgen.OutSpec{{Sats: 2000, Script: p()}, {Sats: 0, Script: common.Hex(feegen.Data(r.Intn(2), r.Bytes(r.Pick([]int{0, 4, 90}))))}}
	case 2: // nothing at all: the deficit is the fee of 10 bytes
		s.Lock = 5
	case 3: // already covered
		s.Ins = []txgen.InSpec{feegen.InCheap(r, 1000000), feegen.InCheap(r, 5)}
		s.Outs = []txgen.OutSpec{{Sats: 700, Script: p()}}
	case 4: // data output only, a signed input
		in := feegen.InCheap(r, 40)
		in.UnlockNil, in.Unlock = false, common.Hex(feegen.Fill(r, 107))
		s.Ins = []txgen.InSpec{in}
		s.Outs = []txgen.OutSpec{{Sats: 0, Script: common.Hex(feegen.Data(0, feegen.Fill(r, 200)))}}
	default: // three payments
		s.Outs = []txgen.OutSpec{{Sats: 600, Script: p()}, {Sats: 546, Script: p()}, {Sats: 1, Script: p()}}
	}
	return s
}

// respend: the supplier's coins need not be distinct from one another or from what the transaction already spends (a
// wallet that does not track what it handed out): one UTXO gets the outpoint of a prior input of the starting
// transaction / is returned twice in its batch / is returned again in the next batch. Every UTXO returned is spent.
func respend(r *common.Rand, s txgen.TxSpec, hist []response, fixed int) string {
	var batches []int
	for i, h := range hist {
		if h.Kind == "batch" && len(h.Utxos) > 0 {
			batches = append(batches, i)
		}
	}
	if len(batches) == 0 {
		return ""
	}
	b := batches[r.Intn(len(batches))]
	what := r.Intn(3)
	if fixed >= 0 { // the first batch (the one certainly asked for), the given variant
		b, what = batches[0], fixed%3
	}
	us := append([]utxo{}, hist[b].Utxos...)
	if what == 0 && len(s.Ins) == 0 {
		what = 1
	}
	switch what {
	case 0:
		in := s.Ins[r.Intn(len(s.Ins))]
		k := r.Intn(len(us))
		us[k].Txid, us[k].Vout = in.Txid, in.Vout
		hist[b].Utxos = us
		return "prior-outpoint"
	case 1:
		hist[b].Utxos = append(us, us[0])
		return "twice-in-batch"
	}
	for _, nb := range batches {
		if nb > b {
			hist[nb].Utxos = append([]utxo{us[len(us)-1]}, hist[nb].Utxos...)
			return "again-next-batch"
		}
	}
	hist[b].Utxos = append(us, us[len(us)-1])
	return "twice-in-batch"
}

// draftTx: starting transactions with several prior inputs, unsigned and signed mixed, coins of one address, an
// inscription coin; the last shapes lack only a few satoshis, less than the fee of the unlocking scripts still to come
func draftTx(r *common.Rand, which int, q feegen.Quote) txgen.TxSpec {
	s := txgen.TxSpec{Version: 1 + uint32(which/6%2)}
	p := func() string { return common.Hex(feegen.P2PKH(feegen.Fill(r, 20))) }
	signed := func(sats uint64, l int) txgen.InSpec {
		in := feegen.InCheap(r, sats)
		in.UnlockNil, in.Unlock = false, common.Hex(feegen.Fill(r, l))
		return in
	}
	switch which % 6 {
	case 0: // two coins of one address, unsigned
		a, b := feegen.InCheap(r, 400), feegen.InCheap(r, 350)
		b.Prev = a.Prev
		s.Ins = []txgen.InSpec{a, b}
		s.Outs = []txgen.OutSpec{{Sats: 5000, Script: p()}}
	case 1: // unsigned, signed, unsigned; payment and data
		s.Ins = []txgen.InSpec{feegen.InCheap(r, 700), signed(200, 107), feegen.InCheap(r, 90)}
		s.Outs = []txgen.OutSpec{{Sats: 3000, Script: p()}, {Sats: 0, Script: common.Hex(feegen.Data(1, feegen.Fill(r, 30)))}}
	case 2: // a signed input with a 106-byte script first, then unsigned ones
		s.Ins = []txgen.InSpec{signed(1000, 106), feegen.InCheap(r, 10), feegen.InCheap(r, 20), feegen.InCheap(r, 30)}
		s.Outs = []txgen.OutSpec{{Sats: 2500, Script: p()}, {Sats: 546, Script: p()}}
	case 3: // an inscription coin and a plain one, unsigned
		a := feegen.InCheap(r, 1)
		a.Prev = common.Hex(feegen.Inscription(feegen.Fill(r, 20), []byte("text/plain"), []byte("x")))
		s.Ins = []txgen.InSpec{a, feegen.InCheap(r, 800)}
		s.Outs = []txgen.OutSpec{{Sats: 1500, Script: p()}}
	default: // 4, 5: unsigned inputs worth outputs + fee of the estimated final size - (1 or half the fee of their unlocking scripts)
		n := 1 + which%6 - 3 // 2 or 3 inputs
		for i := 0; i < n; i++ {
			s.Ins = append(s.Ins, feegen.InCheap(r, 0))
		}
		s.Outs = []txgen.OutSpec{{Sats: 10000, Script: p()}}
		if d, ok := deficitSpec(s, q); ok && d.IsUint64() && d.Uint64() > 2 {
			lack := uint64(1)
			if which/6%2 == 1 && q.Std != nil && q.Std.Bytes > 0 {
				lack = 1 + uint64(n*107*q.Std.Sat/q.Std.Bytes)/2
			}
			s.Ins[n-1].Sats = d.Uint64() - lack
		}
	}
	return s
}

func main() {
	c = common.Parse("C12")
	c.SetHeader(header)
	c.PerShard = 110
	c.ShardBytes = 120000
	r := common.NewRand(c.Seed)
	thorough := c.Thorough() || c.Mode == "search"
	maxLen := 4
	enumKinds := kinds[:6] // exhaustive over six kinds
	if thorough {
		maxLen = 6
	}
	// exhaustive histories of length 0..maxLen over the response kinds; start tx and quote rotate
	idx := 0
	var rec func(prefix []string)
	rec = func(prefix []string) {
		q := feegen.Quotes[idx%len(feegen.Quotes)]
		s := startTx(r, idx/len(feegen.Quotes)+idx, q)
		idx++
		out := feegen.SumOut(s).Uint64()
		var hist []response
		for _, k := range prefix {
			hist = append(hist, mkResp(r, k, q, out))
		}
		fundCase("enum", s, q, hist, true)
		if len(prefix) < maxLen {
			for _, k := range enumKinds {
				rec(append(append([]string{}, prefix...), k))
			}
		}
	}
	rec(nil)
	if thorough { // and once more, up to length 4, with the bad-txid batch as a seventh kind
		maxLen, enumKinds = 4, kinds
		rec(nil)
	}
	// random histories with the remaining kinds, exact funding, more start shapes
	n := 420
	if thorough {
		n = 6000
	}
	all := append(append([]string{}, kinds...), "nilscript", "nonp2pkh", "inscription", "exact", "zerovalue", "zerovalue")
	// long histories: a wallet of many small coins handed out one (or two) per call: Fund keeps asking as long as the
	// supplier keeps answering and a deficit remains, however many calls that takes
	longs := []int{131}
	if thorough {
		longs = []int{131, 200, 300}
	}
	for li, n := range longs {
		q := feegen.Quotes[(li+2+int(c.Seed))%len(feegen.Quotes)]
		st := startTx(r, 0, q)
		if len(st.Outs) > 0 {
			st.Outs[0].Sats = 20000000
		}
		out := feegen.SumOut(st).Uint64()
		var hist []response
		for i := 0; i < n; i++ {
			us := []utxo{mkU(r, scale(q)+out/uint64(n-1)+uint64(r.Intn(2)))}
			if i%50 == 7 {
				us = append(us, mkU(r, scale(q)+1))
			}
			hist = append(hist, response{Kind: "batch", Tag: "long", Utxos: us})
		}
		fundCase("long-history", st, q, hist, true)
	}
	// large batches: the number of inputs crosses 252 / 253 (its varint grows) within a batch, between two batches, and
	// with a batch of more than 253; every UTXO is worth a little more than it costs, so each batch leaves a deficit
	for bi, sizes := range [][]int{{126, 126, 3, 3, 3}, {200, 52, 1, 1, 1}, {252, 1, 1, 1}, {253, 1, 1}, {100, 100, 100, 3}, {260, 2, 2}} {
		q := feegen.Quotes[(bi+int(c.Seed))%len(feegen.Quotes)]
		st := startTx(r, 0, q)
		if len(st.Outs) > 0 {
			st.Outs[0].Sats = 40000000
		}
		out := feegen.SumOut(st).Uint64()
		total := 0
		for _, n := range sizes {
			total += n
		}
		var hist []response
		for _, n := range sizes {
			var us []utxo
			for i := 0; i < n; i++ {
				us = append(us, mkU(r, scale(q)+out/uint64(total+40)+uint64(r.Intn(9))))
			}
			hist = append(hist, response{Kind: "batch", Tag: "large", Utxos: us})
		}
		fundCase("large-batches", st, q, hist, true)
	}
	// one starting transaction, one quote, one history: funded once per way of obtaining the transaction; verdict, the
	// deficits the supplier was given and the transaction left behind must not depend on the way
	drafts := 10
	if thorough {
		drafts = 120
	}
	routeKinds := []string{"under", "multi", "over", "empty", "zerovalue", "noutxo"}
	for k := 0; k < drafts; k++ {
		q := feegen.Quotes[(k+int(c.Seed))%len(feegen.Quotes)]
		s := draftTx(r, k, q)
		out := feegen.SumOut(s).Uint64()
		var hist []response
		for i, l := 0, 1+r.Intn(3); i < l; i++ {
			kinds := routeKinds
			if i == 0 && k%2 == 1 {
				kinds = routeKinds[:2] // a batch that does not cover: the next answer is asked for as well
			}
			hist = append(hist, mkResp(r, kinds[r.Intn(len(kinds))], q, out))
		}
		kind := "obtained"
		if k%2 == 1 {
			if w := respend(r, s, hist, k/2); w != "" {
				kind = "obtained-respend-" + w
			}
		}
		var ref fundObs
		for hi, how := range hows {
			o := fundCaseHow(kind, how, s, q, hist, true)
			if hi == 0 {
				ref = o
			} else if !o.same(ref) {
				c.Violate("Fund/depends-on-how-the-transaction-was-obtained", fmt.Sprintf("assembled from struct literals: %v; obtained by %q: %v", ref, how, o), twin{"obtained", how, s, q, hist})
			}
		}
	}
	// the shape of the starting transaction's outputs: 0 / 1 / 2 / 5 data outputs in every position (datashapes.go)
	dataShapeFamily(r, thorough)
	for k := 0; k < n; k++ {
		q := feegen.Quotes[r.Intn(len(feegen.Quotes))]
		s := startTx(r, r.Intn(6), q)
		hyp := true
		kind := "random"
		switch r.Intn(25) {
		case 0:
			q.Data = nil
			kind, hyp = "missing-fee-type", false
		case 1:
			if len(s.Ins) > 0 {
				s.Ins[0].PrevNil, s.Ins[0].Prev = true, ""
				kind, hyp = "start-nil-prev-script", false
			}
		case 2:
			q = feegen.Q(1, 0, 1, 1)
			kind, hyp = "zero-denominator", false
		case 3:
			if len(s.Outs) > 0 {
				s.Outs[0].Sats = 1<<64 - 3
				kind, hyp = "outputs-near-2^64", false
			}
		}
		out := feegen.SumOut(s).Uint64()
		var hist []response
		for i, l := 0, r.Intn(7); i < l; i++ {
			kd := all[r.Intn(len(all))]
			resp := mkResp(r, kd, q, out)
			if kd == "exact" && q.Complete() && hyp {
				// one UTXO that covers the current deficit of the start transaction exactly, +-1
				tx := txgen.Build(s)
				u := mkU(r, 0)
				if err := tx.FromUTXOs(&bt.UTXO{TxID: common.Unhex(u.Txid), Vout: u.Vout, LockingScript: bscript.NewFromBytes(common.Unhex(u.Script))}); err == nil {
					if d, ok := deficitNow(tx, q); ok && d.IsUint64() {
						u.Sats = d.Uint64() + uint64(r.Intn(3)) - 1
						if d.Uint64() == 0 {
							u.Sats = 0
						}
						resp.Utxos = []utxo{u}
					}
				}
			}
			hist = append(hist, resp)
		}
		if kind == "random" && r.Intn(4) == 0 {
			if w := respend(r, s, hist, -1); w != "" {
				kind = "respend-" + w
			}
		}
		fundCase(kind, s, q, hist, hyp)
	}
	c.Stats.Rule = "exhaustive supplier histories of length 0..4 (thorough 0..6) over the response kinds {empty batch, one under-funding UTXO, one over-funding UTXO, 2..3 UTXOs, ErrNoUTXO (wrapped), other error} (thorough: again to length 4 with a batch carrying a 31/33/0-byte txid in the middle as a seventh kind), each with a start transaction (no inputs / a small unsigned input / nothing at all / already covered / data output and a signed input / three payments) and a quote (9 quotes: 1/20..50 sat/byte, unequal std/data) in rotation; UTXO values scale with the cost of an input at the quote; plus a history of 131 calls (thorough: also 200 and 300) with one small UTXO each (covered only near the end), six histories of large batches (the input count crossing 252/253 inside a batch, between batches, and by a batch of 260), random histories of length 0..6 adding zero-value UTXOs, nil / non-P2PKH / inscription locking scripts, bad txids and a UTXO worth the exact deficit +-1, missing fee type, zero denominator, nil previous script in the start transaction, outputs near 2^64, and (one random history in four, every second draft) a UTXO that carries the outpoint of a prior input / is returned twice in its batch / again in the next batch. A used-up history answers ErrNoUTXO. The starting transaction of every case is OBTAINED by one of 17 routes in rotation (struct literals with nil / empty-but-present unlocking scripts, From, FromUTXOs with one script pointer per address, decoded from bytes / hex / a stream / the extended format / JSON / node JSON with the spent scripts and values filled in afterwards, Clone, signed and cleared by re-slicing / a fresh empty script / nil, equal scripts shared as one pointer, slices with spare capacity, a shallow copy / clone of a clone; a route that cannot express the spec falls back to literals and is tallied), and 10 drafts (thorough 120) with 2..4 prior inputs (unsigned and signed mixed, coins of one address, an inscription coin, inputs lacking 1 satoshi or half the fee of the unlocking scripts still to come) are funded once per route with the same quote and history: verdict, deficits handed to the supplier and the transaction left behind must agree across routes. The SHAPE of the starting transaction's outputs (datashapes.go): 27 layouts with 0 / 1 / 2 / 5 data outputs first, last, adjacent, interleaved with payments, all-data transactions worth nothing, data outputs carrying satoshis and look-alike outputs that are not data (a pushed 6a, OP_RETURN in second place, ...), each with four kinds of payload (a push of 100..400 bytes of pairwise different lengths; any tail of feegen.DataShapes - pushes cut short, half length fields, bare opcodes, nothing; the bare marker / a push of nothing; 260+ bytes growing with the position, thorough 1000+ per position), of both forms OP_RETURN / OP_FALSE OP_RETURN, with 0 / an unsigned / a signed prior input, funded under a quote whose data rate is cheaper (down to free) and one whose data rate is dearer (up to the only thing charged) than the standard rate, with histories built around one UTXO worth EXACTLY what is lacking once it is an input (exact: one call; exact-1 then more: a second call with deficit 1; exact-1 then exhaustion; an under-funding coin then exactly the rest; an empty batch then exact+1; two coins then exactly the rest) and every third time a random history too (thorough: six rounds, and every tail of feegen.DataShapes walked through the second and the last data output). Besides the predicates over the library's own estimate, the deficit at every call, at the start and on success is computed from the plain description of the transaction (every input without unlocking script counted with 107 bytes). distinct = distinct (route, start tx, quote, consumed part of the history); non-trivial = the supplier was called at least once"
	c.Finish()
}
