// datashapes: the SHAPE of the starting transaction's outputs. The estimated fee charges the locking scripts of ALL data
// outputs (OP_RETURN ... / OP_FALSE OP_RETURN ..., whatever follows) at the data rate and everything else at the standard
// rate, so with unequal rates every deficit the supplier is given depends on how many data outputs there are, where they
// stand, how long each one is and which outputs merely look like data. The family below builds starting transactions
// with 0, 1, 2 and 5 data outputs in every position (first, last, adjacent, interleaved with payments), of both forms,
// with empty, medium, large and pairwise different payloads, tails that are not well-formed pushes, data outputs that
// carry satoshis, transactions whose outputs are all data worth nothing, and look-alike outputs that are not data; each
// is funded under a quote whose data rate is cheaper and one whose data rate is dearer than the standard rate, with
// histories built around a UTXO worth EXACTLY what is lacking (computed from the description, provenance.go), so that a
// deficit that is off by one satoshi in either direction changes the number of calls or the verdict.
package main

import (
	"fmt"

	"verif/harness/common"
	"verif/harness/feegen"
	"verif/harness/txgen"
)

// p = payment, d = data output worth nothing, D = data output carrying satoshis, l = look-alike (not data)
var dataLayouts = []string{
	"p", "pl", "l", "lpl", // no data output
	"d", "dp", "pd", "pdp", "D", "pD", "ld", // one
	"dd", "ddp", "pdd", "dpd", "pdpd", "dD", "Dpd", "dld", // two
	"ddddd", "dpdpdpdpd", "pddddd", "dddddp", "dDdDd", "ppdpddpdd", "DDDDD", "ldlddpdd", // five
}

// quotes with unequal rates: data cheaper (down to free) and data dearer (up to the only thing charged)
var dataQuotesCheaper = []feegen.Quote{feegen.Q(1, 1, 1, 4), feegen.Q(500, 1000, 250, 1000), feegen.Q(1, 1, 1, 10), feegen.Q(2, 1, 0, 1), feegen.Q(50, 1, 1, 1), feegen.Q(7, 3, 1, 3)}
var dataQuotesDearer = []feegen.Quote{feegen.Q(3, 7, 11, 13), feegen.Q(5, 100, 50, 1), feegen.Q(1, 2, 1, 1), feegen.Q(0, 1, 1, 1), feegen.Q(1, 4, 3, 2), feegen.Q(1, 1000, 1, 1)}

const (
	payloadMedium = iota // one well-formed push of 100..400 bytes, every output a different length
	payloadShapes        // any tail of feegen.DataShapes (cut-short pushes, half length fields, raw opcodes, nothing)
	payloadEmpty         // the bare marker, a push of nothing, a handful of bytes
	payloadLarge         // 260+170*k.. bytes (thorough: 1000*(k+1)..) for the k-th data output: past the one-byte length field and the one-byte push length, the later the output the more it weighs
	payloadModes
)

// largeStep: thorough tier only
var largeStep int

func dataScript(r *common.Rand, mode, k int) []byte {
	form := r.Intn(2)
	switch mode {
	case payloadShapes:
		sh := feegen.DataShapes(r, r.Pick([]int{0, 20, 300}))
		return sh[r.Intn(len(sh))].Script
	case payloadEmpty:
		switch r.Intn(3) {
		case 0:
			return feegen.Data(form, nil)
		case 1:
			return append(feegen.Data(form, nil), 0x00) // marker + an empty push
		}
		return feegen.Data(form, feegen.Repeat(byte(r.U64()), 1+r.Intn(6)))
	case payloadLarge:
		if largeStep > 0 {
			return feegen.Data(form, feegen.Repeat(byte(r.U64()), largeStep*(k+1)+r.Intn(500)))
		}
		return feegen.Data(form, feegen.Repeat(byte(r.U64()), 260+170*k+r.Intn(100)))
	}
	return feegen.Data(form, feegen.Repeat(byte(r.U64()), 100+37*k+r.Intn(60)))
}

func dataStartTx(r *common.Rand, layout string, mode, prior int) txgen.TxSpec {
	s := txgen.TxSpec{Version: 1 + uint32(prior%2)}
	switch prior % 3 {
	case 1: // an unsigned input worth little
		s.Ins = []txgen.InSpec{feegen.InCheap(r, uint64(100+r.Intn(300)))}
	case 2: // a signed one
		in := feegen.InCheap(r, uint64(50+r.Intn(100)))
		in.UnlockNil, in.Unlock = false, common.Hex(feegen.Fill(r, r.Pick([]int{106, 107, 72})))
		s.Ins = []txgen.InSpec{in}
	}
	k := 0
	for _, ch := range layout {
		switch ch {
		case 'p':
			s.Outs = append(s.Outs, txgen.OutSpec{Sats: uint64(546 + r.Intn(3000)), Script: common.Hex(feegen.P2PKH(feegen.Fill(r, 20)))})
		case 'l':
			ls := feegen.LookalikeShapes(r, r.Pick([]int{0, 40, 250}))
			s.Outs = append(s.Outs, txgen.OutSpec{Sats: uint64(1 + r.Intn(900)), Script: common.Hex(ls[r.Intn(len(ls))].Script)})
		case 'd', 'D':
			var sats uint64
			if ch == 'D' {
				sats = r.PickU64([]uint64{1, 546, 100000})
			}
			s.Outs = append(s.Outs, txgen.OutSpec{Sats: sats, Script: common.Hex(dataScript(r, mode, k))})
			k++
		}
	}
	return s
}

// withUtxos: the description of the transaction once these UTXOs have become (unsigned, final) inputs
func withUtxos(s txgen.TxSpec, us []utxo) txgen.TxSpec {
	t := s
	t.Ins = append([]txgen.InSpec{}, s.Ins...)
	for _, u := range us {
		t.Ins = append(t.Ins, txgen.InSpec{Txid: u.Txid, Vout: u.Vout, Seq: 0xffffffff, Sats: u.Sats, Prev: u.Script, PrevNil: u.ScriptNil, UnlockNil: true})
	}
	return t
}

// exactResp: one UTXO worth exactly what the transaction lacks once that UTXO is an input of it, plus delta; computed
// from the description. nil when nothing is stated for this transaction / quote.
func exactResp(r *common.Rand, s txgen.TxSpec, q feegen.Quote, delta int64) *response {
	u := mkU(r, 0)
	d, ok := deficitSpec(withUtxos(s, []utxo{u}), q)
	if !ok || !d.IsUint64() || d.Uint64() < 2 || d.Uint64() > 1<<62 {
		return nil
	}
	u.Sats = uint64(int64(d.Uint64()) + delta)
	return &response{Kind: "batch", Tag: fmt.Sprintf("exact%+d", delta), Utxos: []utxo{u}}
}

// dataHistory: histories around the exact amount. variant rotates.
func dataHistory(r *common.Rand, s txgen.TxSpec, q feegen.Quote, variant int) ([]response, string) {
	out := feegen.SumOut(s).Uint64()
	fallback := []response{mkResp(r, "under", q, out), mkResp(r, "over", q, out)}
	switch variant % 6 {
	case 0: // covered by the first batch to the satoshi: one call
		if e := exactResp(r, s, q, 0); e != nil {
			return []response{*e, mkResp(r, "over", q, out)}, "exact"
		}
	case 1: // one satoshi short: a second call, with deficit 1
		if e := exactResp(r, s, q, -1); e != nil {
			return []response{*e, mkResp(r, "over", q, out)}, "exact-1,over"
		}
	case 2: // an under-funding coin, then exactly the rest
		u := mkResp(r, "under", q, 0)
		if e := exactResp(r, withUtxos(s, u.Utxos), q, 0); e != nil {
			return []response{u, *e, mkResp(r, "noutxo", q, out)}, "under,exact"
		}
	case 3: // one satoshi short and then nothing more to be had
		if e := exactResp(r, s, q, -1); e != nil {
			return []response{*e, mkResp(r, "noutxo", q, out)}, "exact-1,noutxo"
		}
	case 4: // an empty batch, one satoshi more than needed
		if e := exactResp(r, s, q, 1); e != nil {
			return []response{mkResp(r, "empty", q, out), *e, mkResp(r, "noutxo", q, out)}, "empty,exact+1"
		}
	case 5: // two coins and exactly the rest (if anything is left to cover)
		m := mkResp(r, "under", q, 0)
		m.Utxos = append(m.Utxos, mkU(r, scale(q)/2))
		if e := exactResp(r, withUtxos(s, m.Utxos), q, 0); e != nil {
			return []response{m, *e}, "two-under,exact"
		}
	}
	return fallback, "under,over"
}

// dataShapeFamily: every layout x payload mode, a cheaper-data and a dearer-data quote each, an exact history and a
// random one. rounds > 1 (thorough) repeats with fresh draws; thorough also walks every tail of feegen.DataShapes through
// the position of the SECOND and of the LAST data output.
func dataShapeFamily(r *common.Rand, thorough bool) {
	rounds := 1
	if thorough {
		rounds = 6
		largeStep = 1000
	}
	randomKinds := []string{"under", "multi", "over", "empty", "zerovalue", "noutxo", "err"}
	n := 0
	fund := func(label string, s txgen.TxSpec, q feegen.Quote) {
		hist, hl := dataHistory(r, s, q, n)
		c.Tally("data-shapes/layout/" + label)
		fundCase("data-shapes/"+hl, s, q, hist, true)
		if n%3 == 0 {
			out := feegen.SumOut(s).Uint64()
			var h2 []response
			for i, l := 0, 1+r.Intn(3); i < l; i++ {
				h2 = append(h2, mkResp(r, randomKinds[r.Intn(len(randomKinds))], q, out))
			}
			fundCase("data-shapes/random", s, q, h2, true)
		}
		n++
	}
	for round := 0; round < rounds; round++ {
		for li, layout := range dataLayouts {
			for mode := 0; mode < payloadModes; mode++ {
				if mode == payloadLarge && !thorough && li%2 == 1 {
					continue // the large payloads on every second layout only (they are what Coq reads slowest)
				}
				s := dataStartTx(r, layout, mode, li+mode+round)
				label := layout
				fund(label, s, dataQuotesCheaper[(li+mode+round)%len(dataQuotesCheaper)])
				fund(label, s, dataQuotesDearer[(li*5+mode+round)%len(dataQuotesDearer)])
			}
		}
	}
	if thorough {
		for _, layout := range []string{"pdd", "dpdpd", "dd"} {
			for si := range feegen.DataShapes(r, 0) {
				for _, bulk := range []int{0, 150} {
					s := dataStartTx(r, layout, payloadMedium, si)
					// the second and the last data output take the shape under test
					seen := 0
					last := -1
					for oi, o := range s.Outs {
						if feegen.IsData(common.Unhex(o.Script)) {
							seen++
							last = oi
							if seen == 2 {
								s.Outs[oi].Script = common.Hex(feegen.DataShapes(r, bulk)[si].Script)
							}
						}
					}
					if last >= 0 {
						s.Outs[last].Script = common.Hex(feegen.DataShapes(r, bulk)[si].Script)
					}
					fund(layout+"/each-shape", s, dataQuotesCheaper[si%len(dataQuotesCheaper)])
					fund(layout+"/each-shape", s, dataQuotesDearer[si%len(dataQuotesDearer)])
				}
			}
		}
	}
}
