// provenance: the SAME starting transaction (what it says: a txgen.TxSpec) obtained in the ways callers obtain one before
// they call Fund — assembled field by field, built with From / FromUTXOs, decoded from bytes / hex / a stream / the
// extended format / JSON / node JSON, cloned, signed and cleared again, a shallow copy of another transaction. The routes
// differ in details no serialisation shows: an unsigned input's unlocking script is nil or empty-but-present (with or
// without spare capacity), scripts are shared between inputs (one *bscript.Script for all coins of one address), the
// input slice is nil / empty / has room behind its end / is shared with a sibling. The property speaks about what the
// transaction says, so every observable of Fund must be the same on all of them.
package main

import (
	"bytes"
	"encoding/json"
	"fmt"
	"math/big"
	"reflect"

	"github.com/libsv/go-bt/v2"
	"github.com/libsv/go-bt/v2/bscript"

	"verif/harness/common"
	"verif/harness/feegen"
	"verif/harness/txgen"
)

// 17 routes: coprime with the rotation of start shapes (8) and quotes (9)
var hows = []string{
	"literal",         // struct literals; an unsigned input has UnlockingScript == nil
	"bytes",           // NewTxFromBytes(draft.Bytes()); the spent scripts and values filled in afterwards
	"from",            // NewTx + From(hex...) per input, AddOutput per output
	"clone",           // draft.Clone()
	"empty-literal",   // struct literals; an unsigned input carries &Script{} / a pointer to a zero-length non-nil slice
	"json",            // json.Marshal(draft) -> json.Unmarshal; spent scripts and values filled in afterwards
	"fromutxos",       // NewTx + one FromUTXOs call; coins of one address share ONE LockingScript pointer
	"hex",             // NewTxFromString(draft.String())
	"cleared-reslice", // every unsigned input was given a 107-byte script and cleared by re-slicing it to [:0] (cap 107)
	"extended",        // NewTxFromBytes(draft.ExtendedBytes()): spent scripts and values come from the encoding
	"shared-pointers", // equal scripts are ONE pointer: spent scripts, the (empty) unlocking scripts, output scripts
	"stream",          // NewTxFromStream over two concatenated transactions, the first one taken
	"cleared-fresh",   // signed, then UnlockingScript = &bscript.Script{}
	"nodejson",        // json.Marshal(draft.NodeJSON()) -> json.Unmarshal(.., tx.NodeJSON())
	"spare-capacity",  // Inputs / Outputs slices with room behind their end, shared with a sibling slice header
	"cleared-nil",     // signed, then UnlockingScript = nil
	"shallow-copy",    // cp := *draft (same Inputs array, same *Input objects); the clone of a clone for the even cases
}

var howCounter int

// nextHow rotates through the routes (deterministic: one step per funded case).
func nextHow() string {
	h := hows[howCounter%len(hows)]
	howCounter++
	return h
}

func normSpec(s txgen.TxSpec) txgen.TxSpec {
	s.Ins = norm(s.Ins)
	if s.Outs == nil {
		s.Outs = []txgen.OutSpec{}
	}
	return s
}

// saysTheSame: the transaction reads back as the spec (an absent and an empty unlocking script say the same).
func saysTheSame(tx *bt.Tx, s txgen.TxSpec) bool {
	if tx == nil {
		return false
	}
	var got txgen.TxSpec
	if pan, _ := common.Safely(func() { got = txgen.FromTx(tx) }); pan {
		return false
	}
	a, b := normSpec(got), normSpec(s)
	return a.Version == b.Version && a.Lock == b.Lock && reflect.DeepEqual(a.Ins, b.Ins) && outsEqual(a.Outs, b.Outs)
}

// fillSpent: what a wallet does after decoding a draft: it looks the spent outputs up and records script and value.
func fillSpent(tx *bt.Tx, s txgen.TxSpec) {
	if tx == nil || len(tx.Inputs) != len(s.Ins) {
		return
	}
	for i, in := range s.Ins {
		tx.Inputs[i].PreviousTxSatoshis = in.Sats
		tx.Inputs[i].PreviousTxScript = nil
		if !in.PrevNil {
			tx.Inputs[i].PreviousTxScript = bscript.NewFromBytes(common.Unhex(in.Prev))
		}
	}
}

func anyPrevNil(s txgen.TxSpec) bool {
	for _, in := range s.Ins {
		if in.PrevNil {
			return true
		}
	}
	return false
}

// obtain returns a transaction saying s, produced by route how; when the route cannot produce it (an encoding that does
// not round-trip this spec, an API that refuses it) the literal construction is returned and the fallback is tallied.
// The second result is the route actually taken.
func obtain(s txgen.TxSpec, how string) (*bt.Tx, string) {
	var tx *bt.Tx
	pan, _ := common.Safely(func() { tx = obtainBy(s, how) })
	if pan || !saysTheSame(tx, s) {
		c.Tally("obtain/" + how + "/not-applicable")
		return txgen.Build(s), "literal"
	}
	c.Tally("obtain/" + how)
	return tx, how
}

func obtainBy(s txgen.TxSpec, how string) *bt.Tx {
	draft := txgen.Build(s)
	unsigned := func(i int) bool { return s.Ins[i].UnlockNil || s.Ins[i].Unlock == "" }
	switch how {
	case "literal":
		return draft
	case "empty-literal":
		for i, in := range draft.Inputs {
			if unsigned(i) {
				if i%2 == 0 {
					in.UnlockingScript = &bscript.Script{}
				} else {
					e := bscript.Script(make([]byte, 0))
					in.UnlockingScript = &e
				}
			}
		}
		return draft
	case "cleared-reslice", "cleared-fresh", "cleared-nil":
		for i, in := range draft.Inputs {
			if !unsigned(i) {
				continue
			}
			// signed (here: a script of the size of a signature and a key) ...
			if err := draft.InsertInputUnlockingScript(uint32(i), bscript.NewFromBytes(feegen.Repeat(0x30, 107))); err != nil {
				return nil
			}
			// ... and cleared again (an output was changed, the signatures are void)
			switch how {
			case "cleared-reslice":
				*in.UnlockingScript = (*in.UnlockingScript)[:0]
			case "cleared-fresh":
				in.UnlockingScript = &bscript.Script{}
			default:
				in.UnlockingScript = nil
			}
		}
		return draft
	case "from", "fromutxos":
		tx := bt.NewTx()
		tx.Version, tx.LockTime = s.Version, s.Lock
		shared := map[string]*bscript.Script{}
		var batch []*bt.UTXO
		for i, in := range s.Ins {
			switch {
			case in.PrevNil: // From cannot express "script unknown": such an input is appended as it is
				if err := tx.FromUTXOs(batch...); err != nil {
					return nil
				}
				batch = nil
				tx.Inputs = append(tx.Inputs, draft.Inputs[i])
			case how == "from":
				if err := tx.From(in.Txid, in.Vout, in.Prev, in.Sats); err != nil {
					return nil
				}
			default:
				ls, ok := shared[in.Prev]
				if !ok {
					ls = bscript.NewFromBytes(common.Unhex(in.Prev))
					shared[in.Prev] = ls
				}
				batch = append(batch, &bt.UTXO{TxID: common.Unhex(in.Txid), Vout: in.Vout, LockingScript: ls, Satoshis: in.Sats, SequenceNumber: in.Seq})
			}
		}
		if err := tx.FromUTXOs(batch...); err != nil {
			return nil
		}
		for i, in := range s.Ins {
			tx.Inputs[i].SequenceNumber = in.Seq
			if !unsigned(i) {
				if err := tx.InsertInputUnlockingScript(uint32(i), bscript.NewFromBytes(common.Unhex(in.Unlock))); err != nil {
					return nil
				}
			}
		}
		for _, o := range draft.Outputs {
			tx.AddOutput(o)
		}
		return tx
	case "bytes":
		tx, err := bt.NewTxFromBytes(draft.Bytes())
		if err != nil {
			return nil
		}
		fillSpent(tx, s)
		return tx
	case "hex":
		tx, err := bt.NewTxFromString(draft.String())
		if err != nil {
			return nil
		}
		fillSpent(tx, s)
		return tx
	case "stream":
		other := txgen.Build(txgen.TxSpec{Version: 2, Outs: []txgen.OutSpec{{Sats: 1, Script: "51"}}})
		tx, used, err := bt.NewTxFromStream(append(draft.Bytes(), other.Bytes()...))
		if err != nil || used != len(draft.Bytes()) {
			return nil
		}
		fillSpent(tx, s)
		return tx
	case "extended":
		if anyPrevNil(s) { // the extended encoding has no way of saying "script unknown"
			return nil
		}
		tx, err := bt.NewTxFromBytes(draft.ExtendedBytes())
		if err != nil {
			return nil
		}
		return tx
	case "json":
		bb, err := json.Marshal(draft)
		if err != nil {
			return nil
		}
		tx := bt.NewTx()
		if err = json.Unmarshal(bb, tx); err != nil {
			return nil
		}
		fillSpent(tx, s)
		return tx
	case "nodejson":
		bb, err := json.Marshal(draft.NodeJSON())
		if err != nil {
			return nil
		}
		tx := bt.NewTx()
		if err = json.Unmarshal(bb, tx.NodeJSON()); err != nil {
			return nil
		}
		fillSpent(tx, s)
		return tx
	case "clone":
		return draft.Clone()
	case "shared-pointers":
		empty := &bscript.Script{}
		shared := map[string]*bscript.Script{}
		one := func(p *bscript.Script) *bscript.Script {
			if p == nil {
				return nil
			}
			k := common.Hex(*p)
			if q, ok := shared[k]; ok {
				return q
			}
			shared[k] = p
			return p
		}
		for i, in := range draft.Inputs {
			in.PreviousTxScript = one(in.PreviousTxScript)
			if unsigned(i) {
				in.UnlockingScript = empty
			} else {
				in.UnlockingScript = one(in.UnlockingScript)
			}
		}
		for _, o := range draft.Outputs {
			o.LockingScript = one(o.LockingScript)
		}
		return draft
	case "spare-capacity":
		ins := make([]*bt.Input, len(draft.Inputs), len(draft.Inputs)+64)
		copy(ins, draft.Inputs)
		outs := make([]*bt.Output, len(draft.Outputs), len(draft.Outputs)+64)
		copy(outs, draft.Outputs)
		for i, in := range ins {
			if unsigned(i) {
				e := bscript.Script(make([]byte, 0, 128))
				in.UnlockingScript = &e
			}
		}
		draft.Inputs, draft.Outputs = ins, outs
		return draft
	case "shallow-copy":
		if howCounter%2 == 0 {
			return draft.Clone().Clone()
		}
		cp := *draft
		return &cp
	}
	return nil
}

// ---------- the deficit stated from the plain description (no size estimate of the library involved) ----------

func isP2PKHBytes(b []byte) bool {
	return len(b) == 25 && b[0] == 0x76 && b[1] == 0xa9 && b[2] == 0x14 && b[23] == 0x88 && b[24] == 0xac
}

// estSpec: the size the transaction will have once every unsigned input (absent or empty unlocking script) carries a
// P2PKH unlocking script of 107 bytes; signed inputs count as they are. ok only when every input spends a P2PKH output
// or a P2PKH output followed by an ord envelope (the two kinds the estimate is defined for).
func estSpec(s txgen.TxSpec) (std, data uint64, ok bool) {
	vl := func(n uint64) uint64 {
		switch {
		case n < 0xfd:
			return 1
		case n <= 0xffff:
			return 3
		case n <= 0xffffffff:
			return 5
		}
		return 9
	}
	total := 4 + 4 + vl(uint64(len(s.Ins))) + vl(uint64(len(s.Outs)))
	for _, in := range s.Ins {
		prev := common.Unhex(in.Prev)
		if in.PrevNil || len(prev) < 25 || !isP2PKHBytes(prev[:25]) {
			return 0, 0, false
		}
		if len(prev) > 25 && !bytes.HasPrefix(prev[25:], []byte{0x00, 0x63, 0x03, 'o', 'r', 'd'}) {
			return 0, 0, false
		}
		ul := uint64(len(common.Unhex(in.Unlock)))
		if in.UnlockNil || ul == 0 {
			ul = 107
		}
		total += 32 + 4 + vl(ul) + ul + 4
	}
	for _, o := range s.Outs {
		sc := common.Unhex(o.Script)
		total += 8 + vl(uint64(len(sc))) + uint64(len(sc))
		if feegen.IsData(sc) {
			data += uint64(len(sc))
		}
	}
	return total - data, data, true
}

// deficitSpec: max(0, outputs + quoted fee of the estimated size - inputs) over the integers, from the description.
func deficitSpec(s txgen.TxSpec, q feegen.Quote) (*big.Int, bool) {
	if !q.Complete() {
		return nil, false
	}
	std, data, ok := estSpec(s)
	if !ok {
		return nil, false
	}
	d := new(big.Int).Add(feegen.SumOut(s), q.Quoted(std, data))
	if d.BitLen() > 64 || feegen.SumIn(s).BitLen() > 64 { // sums no ledger can hold: uint64 arithmetic wraps, nothing is stated
		return nil, false
	}
	d.Sub(d, feegen.SumIn(s))
	if d.Sign() < 0 {
		d.SetInt64(0)
	}
	return d, true
}

// outcome of one funded case, for comparing the routes with one another
type fundObs struct {
	Verdict string
	Calls   []uint64
	After   txgen.TxSpec
}

func (o fundObs) same(p fundObs) bool {
	return o.Verdict == p.Verdict && reflect.DeepEqual(o.Calls, p.Calls) && reflect.DeepEqual(normSpec(o.After), normSpec(p.After))
}

func (o fundObs) String() string {
	return fmt.Sprintf("%s after calls %v leaving %d inputs worth %s", o.Verdict, o.Calls, len(o.After.Ins), feegen.SumIn(o.After))
}
