// c20: ordinals sale / bid flows and the inscription codec — cases for the Coq model
// (coq/corr/C20.v) plus the property stated directly in Go on every produced transaction.
package main

import (
	"bytes"
	"fmt"
	"math/big"
	"strings"

	"github.com/libsv/go-bt/v2"
	"github.com/libsv/go-bt/v2/bscript"

	"verif/harness/common"
	"verif/harness/feegen"
	"verif/harness/ordgen"
)

var c *common.Ctx

const header = `From Coq Require Import List NArith String.
From Coq Require Import Strings.Byte.
From GoBT Require Import lib.Bytes lib.Hex model.Tx spec.FeeSpec model.Fees model.Ord corr.C20.
Import ListNotations. Local Open Scope N_scope. Local Open Scope string_scope.
`

// ---------- Coq printing ----------

func cb(b []byte) string { return feegen.CoqBytes(b) }
func ch(h string) string { return cb(common.Unhex(h)) }

func coqList(xs []string) string { return "[" + strings.Join(xs, "; ") + "]" }

func coqUtxos(us []ordgen.U) string {
	var xs []string
	for _, u := range us {
		xs = append(xs, u.Coq())
	}
	return coqList(xs)
}

func obsTx(tx *bt.Tx, err error, panicked bool) string {
	switch {
	case panicked:
		return "ObsPanic"
	case tx == nil || err != nil:
		return "ObsErr"
	}
	return "(ObsTx " + common.CoqStr(common.Sha256Hex(tx.ExtendedBytes())) + ")"
}

// unlocking scripts by input index, skipping index skip (the ordinal input) when skip >= 0
func unlockTable(tx *bt.Tx, skip int) string {
	var xs []string
	if tx != nil {
		for i, in := range tx.Inputs {
			if i == skip || in.UnlockingScript == nil || len(*in.UnlockingScript) == 0 {
				continue
			}
			xs = append(xs, fmt.Sprintf("(%d, %s)", i, cb(*in.UnlockingScript)))
		}
	}
	return coqList(xs)
}

func unlockAt(tx *bt.Tx, i int) []byte {
	if tx == nil || i >= len(tx.Inputs) || tx.Inputs[i].UnlockingScript == nil {
		return nil
	}
	return *tx.Inputs[i].UnlockingScript
}

func coqNs(xs []uint64) string {
	var s []string
	for _, x := range xs {
		s = append(s, fmt.Sprint(x))
	}
	return coqList(s)
}

// ---------- flows ----------

func emitFlow(s ordgen.Scenario) (ok bool) {
	res := ordgen.Run(s)
	api := ordgen.API(s.Flow)
	if res.ArgsChanged != "" {
		c.Violate(api+"/changes-the-callers-utxo-objects", res.ArgsChanged, s)
	}
	if res.Panicked {
		c.Violate(api+"/panic", res.PanicMsg, s)
	}
	k := s.OrdIdx()
	var prev []uint64
	dst := 0
	// (a bid leaves exactly the quoted fee for a 25-byte seller script: with a longer one the seller's fee check
	// rightly refuses, so only sellers paid on a script of at most 25 bytes count here)
	if res.Final == nil && !res.Panicked && s.Note == "ample" && s.FinalQuote().Complete() && s.Quote.Complete() &&
		!(s.IsBid() && len(s.SellerScript) > 50) {
		// not a clause of the property, but the flows are meant to complete: a well-formed, amply funded
		// offer that is turned down is reported with its input (tie / search)
		c.Violate(api+"/funded-offer-rejected", fmt.Sprintf("%v / %v / %v", res.ListErr, res.MakeErr, res.Err), s)
	}
	if res.Final != nil {
		ok = true
		for _, f := range ordgen.Check(s, res) {
			c.Violate(f.Site, f.What, s)
		}
		var outs []uint64
		for _, p := range s.PrevOuts(res) {
			prev = append(prev, p.Sats)
		}
		for _, o := range res.Final.Outputs {
			outs = append(outs, o.Satoshis)
		}
		if dst = ordgen.FifoOutput(outs, ordgen.InputOffset(prev, k)); dst < 0 {
			dst = 99
		}
	}
	twoD := common.CoqBool(s.TwoD())
	listed := s.Ord
	if s.ListedOther {
		id := common.Unhex(listed.Txid)
		id[0] ^= 1
		listed.Txid = common.Hex(id)
	}
	var coq string
	if !s.IsBid() {
		psha := ""
		if res.Final != nil {
			if p, err := res.Final.CalcInputPreimage(uint32(k), 0xc3); err == nil {
				psha = common.Sha256Hex(p)
			}
		}
		coq = fmt.Sprintf("CList %s %s (mkOutput %d %s) (Some %s) %s %s %s %s %s %s %s %s %s %s %s %d",
			twoD, s.Ord.Coq(), s.Price, ch(s.SellerScript), listed.Coq(), coqUtxos(s.Funding), ch(s.Buyer), ch(s.Dummy), ch(s.Change),
			s.Quote.Coq(), cb(unlockAt(res.Listing, 0)), unlockTable(res.Final, k),
			obsTx(res.Listing, res.ListErr, res.Panicked && res.Listing == nil), obsTx(res.Final, res.Err, res.Panicked),
			common.CoqStr(psha), coqNs(prev), dst)
	} else {
		exp := s.Quote
		if s.Expected != nil {
			exp = *s.Expected
		}
		coq = fmt.Sprintf("CBid %s %s %d %s %s %s %s %s %s %s %s %s %s %s %s %s %s %s %d",
			twoD, s.Ord.Coq(), s.Price, listed.Coq(), coqUtxos(s.Funding), ch(s.Buyer), ch(s.Dummy), ch(s.Change),
			s.Quote.Coq(), exp.Coq(), cb(res.BidOrdScript), cb(res.BidPayScript), ch(s.SellerScript),
			unlockTable(res.PSTx, k), cb(unlockAt(res.Final, k)),
			obsTx(res.PSTx, res.MakeErr, res.Panicked && res.PSTx == nil), obsTx(res.Final, res.Err, res.Panicked),
			coqNs(prev), dst)
	}
	verdict := "err"
	if ok {
		verdict = "tx"
	}
	c.Tally(fmt.Sprintf("flow/%s/n=%d/%s", s.Flow, len(s.Funding), verdict))
	if s.Note != "" {
		c.Tally("note/" + s.Note + "/" + verdict)
	}
	key := fmt.Sprintf("%s|%d|%s|%v|%s|%v|%d", s.Flow, s.Price, s.Quote.Key(), fundKey(s), s.Ord.Script, s.ListedOther, s.TamperPay)
	if s.TamperPay != 0 {
		coq = "" // the model has no tampering: the Go-level statement of the property above is what is checked
	}
	c.Case(coq, s, key, true)
	return
}

func fundKey(s ordgen.Scenario) string {
	var b strings.Builder
	for _, u := range s.Funding {
		fmt.Fprintf(&b, "%d,", u.Sats)
	}
	return b.String()
}

var prices = []uint64{1, 2, 545, 546, 1000, 1000, 5000, 12345, 100000, 1 << 20, 1<<32 + 5, 2100000000000000}

var quotes = []feegen.Quote{
	feegen.Q(50, 1000, 50, 1000), feegen.Q(50, 1000, 50, 1000), feegen.Q(500, 1000, 250, 1000), feegen.Q(1, 1, 1, 1),
	feegen.Q(5, 100, 5, 100), feegen.Q(1, 2, 1, 2), feegen.Q(5, 1, 5, 1), feegen.Q(50, 1, 50, 1), feegen.Q(3, 7, 11, 13),
	feegen.Q(0, 1000, 0, 1000), feegen.Q(1, 1000, 1, 1000),
}

func newKey(r *common.Rand) ordgen.Key { return ordgen.Key{Seed: common.Hex(r.Bytes(32))} }

func p2pkhHex(r *common.Rand) string { return common.Hex(feegen.P2PKH(r.Bytes(20))) }

// base scenario: amply funded
func genScenario(r *common.Rand, flow string) (s ordgen.Scenario, tune int) {
	s.Flow = flow
	seller := newKey(r)
	buyers := []ordgen.Key{newKey(r), newKey(r)}
	s.Price = r.PickU64(prices)
	if r.Chance(30) {
		s.Price = 1 + r.U64()%100000000
	}
	s.Quote = quotes[r.Intn(len(quotes))]
	ordScript := seller.P2PKH()
	if r.Chance(70) {
		// the ordinal still sits in the output that inscribed it: payloads below, at and above the lengths at which
		// the push encoding changes (direct / OP_PUSHDATA1 / OP_PUSHDATA2; the OP_PUSHDATA4 ones: mintedFlowCases)
		ordScript = ordgen.InscriptionScript(seller.Hash160(), r.Bytes(r.Intn(30)), r.Bytes(smallPayloadLen(r)))
	}
	ordSats := uint64(1)
	if r.Chance(20) {
		ordSats = r.PickU64([]uint64{2, 10, 1000})
	}
	s.Ord = ordgen.U{Txid: common.Hex(r.Bytes(32)), Vout: uint32(r.Intn(3)), Sats: ordSats, Script: common.Hex(ordScript), Key: seller}
	s.SellerScript, s.Buyer, s.Dummy, s.Change = p2pkhHex(r), p2pkhHex(r), p2pkhHex(r), p2pkhHex(r)
	// wallets commonly reuse one address: the same script for several of the buyer's roles must not change
	// where any satoshi goes
	switch r.Intn(6) {
	case 0:
		s.Change = s.Dummy
	case 1:
		s.Change, s.Dummy = s.Buyer, s.Buyer
	case 2:
		s.Change = s.Buyer
	}
	if r.Chance(25) && (flow == "bid" || flow == "list") { // the seller may be paid on another kind of script (longer or shorter than P2PKH)
		k1, k2 := append([]byte{0x02}, r.Bytes(32)...), append([]byte{0x03}, r.Bytes(32)...)
		ms := append(append(append([]byte{0x51, 0x21}, k1...), append([]byte{0x21}, k2...)...), 0x52, 0xae)
		s.SellerScript = common.Hex([][]byte{ms, append(append([]byte{0x21}, k1...), 0xac), {0x51},
			feegen.Inscription(r.Bytes(20), []byte("text/plain"), r.Bytes(40)), append([]byte{0xa9, 0x14}, append(r.Bytes(20), 0x87)...)}[r.Intn(5)])
	}
	if r.Chance(10) && flow != "bid2d" { // the buyer may receive the ordinal on a longer script
		s.Buyer = common.Hex(feegen.Inscription(r.Bytes(20), []byte("text/plain"), r.Bytes(5)))
	}
	mk := func(v uint64) ordgen.U {
		k := buyers[r.Intn(2)]
		u := ordgen.U{Txid: common.Hex(r.Bytes(32)), Vout: uint32(r.Intn(4)), Sats: v, Script: common.Hex(k.P2PKH()), Key: k}
		// the buyer pays with an output that carries an inscription of his own
		if r.Chance(12) {
			u.Script = common.Hex(ordgen.InscriptionScript(k.Hash160(), r.Bytes(r.Pick([]int{0, 1, 10, 24, 75, 76})), r.Bytes(smallPayloadLen(r))))
		}
		// several outputs of ONE earlier transaction fund the purchase (a payment and its change), or an output of the
		// very transaction that created the ordinal: outpoints differ by their index only
		if r.Chance(30) {
			u.Txid = s.Ord.Txid
			if len(s.Funding) > 0 && r.Bool() {
				u.Txid = s.Funding[r.Intn(len(s.Funding))].Txid
			}
			u.Vout = uint32(10 + len(s.Funding))
		}
		return u
	}
	nearPrice := func() uint64 {
		switch r.Intn(5) {
		case 0:
			return s.Price
		case 1:
			if s.Price > 1 {
				return s.Price - 1
			}
			return 1
		case 2:
			return 1 + r.U64()%1000
		case 3:
			return 1 + s.Price/2
		}
		return 546
	}
	if s.TwoD() {
		n := 3 + r.Intn(3)
		s.Funding = append(s.Funding, mk(r.PickU64([]uint64{1, 10, 546, 1000, 1 + r.U64()%5000})), mk(r.PickU64([]uint64{1, 10, 546, 1000})))
		for i := 2; i < n; i++ {
			s.Funding = append(s.Funding, mk(nearPrice()))
		}
		tune = 2 + r.Intn(n-2)
		// ample: covers the price and any fee
		s.Funding[tune].Sats = s.Price + 10000000
		return
	}
	n := 2 + r.Intn(4)
	w := r.Intn(n - 1) // the UTXO worth more than the price; the tuned one comes after it
	for i := 0; i < n; i++ {
		if i == w {
			s.Funding = append(s.Funding, mk(s.Price+r.PickU64([]uint64{1, 2, 100, 1000, s.Price})))
		} else {
			s.Funding = append(s.Funding, mk(nearPrice()))
		}
	}
	tune = w + 1 + r.Intn(n-1-w)
	s.Funding[tune].Sats = s.Price + 10000000
	return
}

// smallPayloadLen: mostly short, one in three at a push-encoding boundary that still fits a small case
func smallPayloadLen(r *common.Rand) int {
	if r.Chance(33) {
		return r.Pick([]int{74, 75, 76, 77, 254, 255, 256, 257, 300})
	}
	return r.Intn(60)
}

func withTuned(s ordgen.Scenario, tune int, v uint64, note string) ordgen.Scenario {
	f := append([]ordgen.U{}, s.Funding...)
	f[tune].Sats = v
	s.Funding = f
	s.Note = note
	return s
}

// the fee boundary: the smallest value of the tuned UTXO (within a window around the estimate) at which
// the flow still returns a transaction
func boundary(s ordgen.Scenario, tune int) (t uint64, ok bool, est, w int64) {
	res := ordgen.Run(s)
	if res.Final == nil {
		return
	}
	// what the outputs other than change need, and the fee of the transaction without a change output
	k := s.OrdIdx()
	var need, others uint64
	tx := res.Final
	for i := 0; i < 3 && i < len(tx.Outputs); i++ {
		need += tx.Outputs[i].Satoshis
	}
	size := len(tx.Bytes())
	if len(tx.Outputs) > 3 {
		size -= 9 + len(*tx.Outputs[3].LockingScript)
	}
	q := s.FinalQuote()
	if !q.Complete() {
		return
	}
	fee := q.Quoted(uint64(size), 0).Uint64()
	for i, p := range s.PrevOuts(res) {
		if i != k && !(p.Txid == s.Funding[tune].Txid && p.Vout == s.Funding[tune].Vout) {
			others += p.Sats
		}
	}
	est = int64(need) + int64(fee) - int64(others)
	perByte := int64(q.Std.Sat/q.Std.Bytes) + 1
	w = 130*perByte + 16 + int64(s.Ord.Sats)
	lo, hi := est-w, est+w
	if lo < 1 {
		lo = 1
	}
	okAt := func(v int64) bool {
		if v < 1 {
			return false
		}
		return ordgen.Run(withTuned(s, tune, uint64(v), "")).Final != nil
	}
	if !okAt(hi) || okAt(lo) {
		return 0, false, est, w
	}
	for hi-lo > 1 {
		m := (lo + hi) / 2
		if okAt(m) {
			hi = m
		} else {
			lo = m
		}
	}
	return uint64(hi), true, est, w
}

func flowCases(r *common.Rand, bases int) {
	for _, flow := range []string{"list", "list2d", "bid", "bid2d"} {
		for b := 0; b < bases; b++ {
			s, tune := genScenario(r, flow)
			emitFlow(withTuned(s, tune, s.Funding[tune].Sats, "ample"))
			// in the standard flows the tuned UTXO must not become the first one worth more than the price
			// for the dummy-output arithmetic to stay put; the boundary search simply follows the flow
			t, ok, est, w := boundary(s, tune)
			if !ok {
				// the other UTXOs already pay for everything: make them small so that the tuned one decides
				s = shrinkOthers(r, s, tune)
				t, ok, est, w = boundary(s, tune)
			}
			// underfunded / funded by the harness's own estimate of the fee (not by the flow's verdict)
			if w > 0 {
				margin := w/8 + 3
				if v := est - margin - int64(r.Intn(int(w/2)+1)); v >= 1 {
					emitFlow(withTuned(s, tune, uint64(v), "estimate-underfunded"))
				}
				emitFlow(withTuned(s, tune, uint64(est+margin+int64(r.Intn(int(w/2)+1))), "estimate-funded"))
			}
			if ok {
				c.Tally("boundary/found/" + flow)
				for _, d := range []int64{-1, 0, 1} {
					if v := int64(t) + d; v >= 1 {
						emitFlow(withTuned(s, tune, uint64(v), fmt.Sprintf("boundary%+d", d)))
					}
				}
				if r.Chance(50) {
					emitFlow(withTuned(s, tune, t+uint64(r.Intn(140)), "boundary+window"))
				}
				if t > 3 && r.Chance(50) {
					emitFlow(withTuned(s, tune, t-uint64(1+r.Intn(int(minU(t-1, 140)))), "boundary-window"))
				}
			} else {
				c.Tally("boundary/none/" + flow)
			}
			// the bid reaches the seller with another amount on the payment output (no bidder signature covers it):
			// whatever the acceptance flow then completes still routes the ordinal to the buyer and pays the fee
			if flow == "bid" && b%2 == 0 {
				x := withTuned(s, tune, s.Funding[tune].Sats, "ample")
				x.TamperPay = []uint64{1, s.Price / 2, s.Price - 1, s.Price + 1}[r.Intn(4)]
				if x.TamperPay == 0 {
					x.TamperPay = 1
				}
				if x.TamperPay != s.Price {
					x.Note = "bid-payment-output-altered-in-transit"
					emitFlow(x)
				}
			}
			// negatives and variations
			switch r.Intn(8) {
			case 0:
				x := s
				x.ListedOther = true
				x.Note = "listed-other"
				emitFlow(x)
			case 1: // too few UTXOs
				x := s
				n := 1
				if s.TwoD() {
					n = 2
				}
				x.Funding = append([]ordgen.U{}, s.Funding[:n]...)
				x.Note = "too-few-utxos"
				emitFlow(x)
			case 2: // no UTXO above the price (standard flows reject; two-dummy flows only need the total)
				x := s
				f := append([]ordgen.U{}, s.Funding...)
				for i := range f {
					if f[i].Sats > s.Price {
						f[i].Sats = s.Price
					}
				}
				x.Funding = f
				x.Note = "none-above-price"
				emitFlow(x)
			case 3: // a fee type is missing from the quote
				x := s
				x.Quote = feegen.Quote{Std: s.Quote.Std}
				if r.Bool() {
					x.Quote = feegen.Quote{Data: s.Quote.Data}
				}
				x.Note = "quote-missing-type"
				emitFlow(x)
			case 4, 5: // the accepting seller expects a slightly higher (or lower) fee than the bidder paid for
				if s.IsBid() && s.Quote.Std.Sat > 0 {
					x := s
					m := []int{90, 105, 110, 113, 120, 200}[r.Intn(6)]
					e := feegen.Q(s.Quote.Std.Sat*m, s.Quote.Std.Bytes*100, s.Quote.Data.Sat*m, s.Quote.Data.Bytes*100)
					x.Expected = &e
					x.Note = "expected-quote-differs"
					t, ok, est, w := boundary(x, tune)
					if ok {
						emitFlow(withTuned(x, tune, t, "expected-quote-differs/boundary"))
						emitFlow(withTuned(x, tune, t+uint64(r.Intn(60)), "expected-quote-differs/window"))
					} else {
						emitFlow(x)
					}
					if w > 0 {
						if v := est - w/8 - 3 - int64(r.Intn(int(w/2)+1)); v >= 1 {
							emitFlow(withTuned(x, tune, uint64(v), "expected-quote-differs/estimate-underfunded"))
						}
					}
				}
			}
		}
	}
}

// shrinkOthers: every funding UTXO except the one the flow moves to the front (standard flows), the two
// dummies (two-dummy flows) and the tuned one becomes 1..3 satoshis.
func shrinkOthers(r *common.Rand, s ordgen.Scenario, tune int) ordgen.Scenario {
	f := append([]ordgen.U{}, s.Funding...)
	first := -1
	for i := range f {
		if s.TwoD() {
			if i < 2 {
				continue
			}
		} else if first < 0 && f[i].Sats > s.Price {
			first = i
			continue
		}
		if i != tune {
			f[i].Sats = 1 + uint64(r.Intn(3))
		}
	}
	s.Funding = f
	return s
}

func minU(a, b uint64) uint64 {
	if a < b {
		return a
	}
	return b
}

// ---------- inscriptions ----------

func payload(r *common.Rand, n int) []byte {
	if n <= 300 {
		return r.Bytes(n)
	}
	// long payloads: a constant run (cheap as a Gallina term) with random ends
	b := bytes.Repeat([]byte{byte(r.U64())}, n)
	copy(b, r.Bytes(4))
	copy(b[n-4:], r.Bytes(4))
	return b
}

func coqOptList(dd [][]byte, isNil bool) string {
	if isNil {
		return "None"
	}
	var xs []string
	for _, d := range dd {
		xs = append(xs, cb(d))
	}
	return "(Some " + coqList(xs) + ")"
}

func parseObs(script []byte) (string, *bscript.InscriptionArgs, bool) {
	var ia *bscript.InscriptionArgs
	var err error
	s := bscript.Script(append([]byte{}, script...))
	p, msg := common.Safely(func() { ia, err = s.ParseInscription() })
	switch {
	case p:
		c.Violate("ParseInscription/panic", msg, common.Hex(trunc(script)))
		return "PObsPanic", nil, false
	case err != nil:
		return "PObsErr", nil, false
	}
	return fmt.Sprintf("(PObsOk %s %s %s)", common.CoqStr(common.Sha256Hex([]byte(ia.ContentType))), common.CoqStr(common.Sha256Hex(ia.Data)),
		cb(*ia.LockingScriptPrefix)), ia, true
}

func trunc(b []byte) []byte {
	if len(b) > 400 {
		return b[:400]
	}
	return b
}

type inscTwin struct {
	Prefix   string   `json:"prefix"`
	CT       string   `json:"content_type_hex"`
	DataLen  int      `json:"data_len"`
	DataHead string   `json:"data_head_hex"`
	Enriched []string `json:"enriched,omitempty"`
	// how "nothing there" was written in the argument object (new families only)
	DataNil      bool   `json:"data_nil,omitempty"`      // InscriptionArgs.Data left unset
	EnrichedArgs string `json:"enriched_args,omitempty"` // nil-args | nil-list | list (elements "nil" in enriched are nil slices)
	Variant      string `json:"variant,omitempty"`
}

// enrSpec: EnrichedArgs as Go can express it — no EnrichedArgs at all, an object whose OpReturnData is nil, an empty
// list, a list whose elements may themselves be nil.
type enrSpec struct {
	ArgsNil bool
	ListNil bool
	Parts   [][]byte
}

func (e enrSpec) kind() string {
	switch {
	case e.ArgsNil:
		return "nil-args"
	case e.ListNil:
		return "nil-list"
	}
	return "list"
}

func (e enrSpec) build() *bscript.EnrichedInscriptionArgs {
	switch {
	case e.ArgsNil:
		return nil
	case e.ListNil:
		return &bscript.EnrichedInscriptionArgs{}
	}
	parts := make([][]byte, len(e.Parts))
	for i, p := range e.Parts {
		if p != nil {
			parts[i] = append(make([]byte, 0, len(p)), p...)
		}
	}
	return &bscript.EnrichedInscriptionArgs{OpReturnData: parts}
}

func (e enrSpec) coq() string {
	switch {
	case e.ArgsNil:
		return "None"
	case e.ListNil:
		return "(Some None)"
	}
	var xs []string
	for _, p := range e.Parts {
		xs = append(xs, coqOptSlice(p))
	}
	return "(Some (Some " + coqList(xs) + "))"
}

func coqOptSlice(b []byte) string {
	if b == nil {
		return "None"
	}
	return "(Some " + cb(b) + ")"
}

// tailLen: the number of bytes Inscribe has to write behind OP_RETURN for these parts, from the push rules (-1: no
// OP_RETURN at all: no enriched arguments or no parts).
func (e enrSpec) tailLen() int {
	if e.ArgsNil || e.ListNil || len(e.Parts) == 0 {
		return -1
	}
	n := 0
	for _, p := range e.Parts {
		n += len(ordgen.Push(p))
	}
	return n
}

// inscSpec: one call of Inscribe. data == nil means InscriptionArgs.Data left unset; variant != "" selects the
// argument-object form of the Coq case (CInscribeArgs), which carries nil-ness.
type inscSpec struct {
	prefix, ct, data []byte
	enr              enrSpec
	expectRoundTrip  bool
	variant          string
}

func inscribeCase(prefix, ct, data []byte, enriched [][]byte, enrichedNil bool, expectRoundTrip bool) []byte {
	return inscribeSpecCase(inscSpec{prefix: prefix, ct: ct, data: data, enr: enrSpec{ArgsNil: enrichedNil, Parts: enriched}, expectRoundTrip: expectRoundTrip})
}

func inscribeSpecCase(sp inscSpec) []byte {
	prefix, ct, expectRoundTrip := sp.prefix, sp.ct, sp.expectRoundTrip
	// the harness's own copy of the payload: what is compared with the parse result is not the buffer the library was given
	var data []byte
	var given []byte
	if sp.data != nil {
		data = append(make([]byte, 0, len(sp.data)), sp.data...)
		given = sp.data
	}
	var pfx bscript.Script // (stays a nil script when the case says so)
	if prefix != nil {
		pfx = append([]byte{}, prefix...)
	}
	ia := &bscript.InscriptionArgs{LockingScriptPrefix: &pfx, Data: given, ContentType: string(ct), EnrichedArgs: sp.enr.build()}
	tx := bt.NewTx()
	var err error
	twin := inscTwin{Prefix: common.Hex(prefix), CT: common.Hex(ct), DataLen: len(data), DataHead: common.Hex(trunc(data)), Variant: sp.variant}
	for _, e := range sp.enr.Parts {
		if e == nil && sp.variant != "" {
			twin.Enriched = append(twin.Enriched, "nil")
		} else {
			twin.Enriched = append(twin.Enriched, common.Hex(trunc(e)))
		}
	}
	if sp.variant != "" {
		twin.DataNil, twin.EnrichedArgs = sp.data == nil, sp.enr.kind()
	}
	if p, msg := common.Safely(func() { err = tx.Inscribe(ia) }); p {
		c.Violate("Inscribe/panic", msg, twin)
		return nil
	}
	if err != nil || len(tx.Outputs) != 1 {
		c.Violate("Inscribe/error", fmt.Sprint(err), twin)
		return nil
	}
	if !bytes.Equal(pfx, prefix) {
		c.Violate("Inscribe/prefix-modified", "the caller's LockingScriptPrefix was changed", twin)
	}
	if !bytes.Equal(given, data) || (given == nil) != (ia.Data == nil) {
		c.Violate("Inscribe/data-modified", "the caller's Data was changed", twin)
	}
	if ia.EnrichedArgs != nil {
		for i, p := range ia.EnrichedArgs.OpReturnData {
			if i >= len(sp.enr.Parts) || !bytes.Equal(p, sp.enr.Parts[i]) || (p == nil) != (sp.enr.Parts[i] == nil) {
				c.Violate("Inscribe/op-return-data-modified", fmt.Sprintf("the caller's OpReturnData[%d] was changed", i), twin)
				break
			}
		}
	}
	script := append([]byte{}, *tx.Outputs[0].LockingScript...)
	if tx.Outputs[0].Satoshis != 1 {
		c.Violate("Inscribe/amount", fmt.Sprint(tx.Outputs[0].Satoshis), twin)
	}
	obs, got, ok := parseObs(script)
	if expectRoundTrip {
		switch {
		case !ok:
			c.Violate("Inscribe/roundtrip", "ParseInscription rejects the script Inscribe built", twin)
		case got.ContentType != string(ct):
			c.Violate("Inscribe/roundtrip", fmt.Sprintf("content type %x, inscribed %x", trunc([]byte(got.ContentType)), trunc(ct)), twin)
		case !bytes.Equal(got.Data, data):
			c.Violate("Inscribe/roundtrip", fmt.Sprintf("data (%d bytes) %x, inscribed (%d bytes) %x", len(got.Data), trunc(got.Data), len(data), trunc(data)), twin)
		case !bytes.Equal(*got.LockingScriptPrefix, prefix):
			c.Violate("Inscribe/roundtrip", fmt.Sprintf("prefix %x, inscribed %x", *got.LockingScriptPrefix, prefix), twin)
		}
	}
	if !expectRoundTrip && ok && !bytes.Equal(*got.LockingScriptPrefix, prefix) {
		// no claim that such a prefix parses at all; but when it does, the prefix returned is the one inscribed
		c.Violate("Inscribe/roundtrip", fmt.Sprintf("prefix %x, inscribed %x", *got.LockingScriptPrefix, prefix), twin)
	}
	var coq string
	key := fmt.Sprintf("i|%x|%x|%x|%v", prefix, ct, trunc(data), len(data))
	if sp.variant == "" {
		coq = fmt.Sprintf("CInscribe %s %s %s %s %s %s", cb(prefix), cb(ct), cb(data), coqOptList(sp.enr.Parts, sp.enr.ArgsNil),
			common.CoqStr(common.Sha256Hex(script)), obs)
	} else {
		coq = fmt.Sprintf("CInscribeArgs %s %s %s %s %s %s", cb(prefix), cb(ct), coqOptSlice(sp.data), sp.enr.coq(),
			common.CoqStr(common.Sha256Hex(script)), obs)
		key += fmt.Sprintf("|%v|%s|%v", sp.data == nil, sp.enr.kind(), twin.Enriched)
		c.Tally(fmt.Sprintf("inscribe-args/%s/data-nil=%v/enriched=%s/tail=%d", strings.SplitN(sp.variant, ":", 2)[0], sp.data == nil, sp.enr.kind(), sp.enr.tailLen()))
	}
	// weight: the Coq side hashes and tokenises the script; spread the long ones over shards
	if len(script) > 4000 {
		coq += " (*" + strings.Repeat(" ", len(script)/2) + "*)"
	}
	c.Tally(fmt.Sprintf("inscribe/ct=%d/data=%d", len(ct), lenBucket(len(data))))
	c.Case(coq, twin, key, true)
	return script
}

func lenBucket(n int) int { return n }

var dataSizes = []int{0, 1, 75, 76, 255, 256, 65535, 65536, 100000}
var ctSizes = []int{0, 1, 24, 75, 76, 255, 256}

// inscribeHistories: several inscriptions on one transaction that share ONE prefix object — as built by the
// library's own constructors (which leave spare capacity), with explicit spare capacity, exact, or taken from
// ParseInscription of an earlier script; every output must keep parsing back to what was inscribed in it, and
// the script the prefix was parsed from must not change.
func inscribeHistories(r *common.Rand) {
	n := 60
	if c.Thorough() {
		n = 1500
	}
	for k := 0; k < n; k++ {
		h := r.Bytes(20)
		var pfx *bscript.Script
		var origin *bscript.Script
		var originBytes []byte
		how := ""
		switch k % 4 {
		case 0:
			pfx, _ = bscript.NewP2PKHFromPubKeyHash(h)
			how = "NewP2PKHFromPubKeyHash"
		case 1:
			b := make([]byte, 25, 25+r.Intn(200))
			copy(b, feegen.P2PKH(h))
			sc := bscript.Script(b)
			pfx, how = &sc, "spare-capacity"
		case 2:
			sc := bscript.Script(feegen.P2PKH(h))
			pfx, how = &sc, "exact"
		default:
			o := bscript.Script(feegen.Inscription(h, []byte("text/plain"), r.Bytes(1+r.Intn(40))))
			origin, originBytes = &o, append([]byte{}, o...)
			if ia, err := origin.ParseInscription(); err == nil && ia != nil {
				pfx, how = ia.LockingScriptPrefix, "ParseInscription"
			} else {
				continue
			}
		}
		want := append([]byte{}, (*pfx)...)
		tx := bt.NewTx()
		type item struct{ ct, data []byte }
		var items []item
		m := 2 + r.Intn(3)
		twin := map[string]interface{}{"kind": "inscribe-history", "prefix_from": how, "inscriptions": m}
		failed := false
		for j := 0; j < m && !failed; j++ {
			it := item{r.Bytes(r.Pick([]int{0, 1, 3, 10, 24})), r.Bytes(r.Pick([]int{0, 1, 4, 20, 75, 76, 300}))}
			items = append(items, it)
			var err error
			if p, msg := common.Safely(func() {
				err = tx.Inscribe(&bscript.InscriptionArgs{LockingScriptPrefix: pfx, ContentType: string(it.ct), Data: it.data})
			}); p || err != nil {
				c.Violate("Inscribe/error", fmt.Sprint(msg, err), twin)
				failed = true
			}
		}
		if failed || len(tx.Outputs) != m {
			continue
		}
		c.Tally("inscribe-history/" + how)
		if !bytes.Equal(*pfx, want) {
			c.Violate("Inscribe/prefix-modified", "the caller's LockingScriptPrefix was changed", twin)
		}
		if origin != nil && !bytes.Equal(*origin, originBytes) {
			c.Violate("Inscribe/writes-into-the-script-the-prefix-was-parsed-from", fmt.Sprintf("%x -> %x", trunc(originBytes), trunc(*origin)), twin)
		}
		for j, it := range items {
			_, got, ok := parseObs(append([]byte{}, *tx.Outputs[j].LockingScript...))
			if !ok || got.ContentType != string(it.ct) || !bytes.Equal(got.Data, it.data) || !bytes.Equal(*got.LockingScriptPrefix, want) {
				c.Violate("Inscribe/roundtrip-after-later-inscriptions", fmt.Sprintf("output %d of %d no longer parses back to what was inscribed in it (content type %x, %d data bytes)", j, m, it.ct, len(it.data)), twin)
				break
			}
		}
		c.Case("", twin, fmt.Sprintf("ih|%d|%x", k, h), true)
	}
}

// minted: an inscription output as the library's own Inscribe built it (its script is also a CInscribe case of the
// correspondence), on the P2PKH script of a key the harness holds: an output that can be sold, bid for or paid with.
type minted struct {
	Key     ordgen.Key
	CTLen   int
	DataLen int
	Script  []byte
	// Unsupported: hand-made, with a tail the flows do not recognise (they may refuse it)
	Unsupported bool
}

func inscriptionCases(r *common.Rand) (mints []minted) {
	inscribeHistories(r)
	prefix := func() []byte { return feegen.P2PKH(r.Bytes(20)) }
	var small [][]byte
	sizes := dataSizes
	if c.Thorough() {
		sizes = append(append([]int{}, dataSizes...), 74, 77, 254, 257, 65534, 65537)
	}
	for _, dn := range sizes {
		for _, cn := range ctSizes {
			big := dn > 300
			if big && !c.Thorough() && cn != 24 && !(cn == 0 && dn == 65536) {
				continue
			}
			ct := r.Bytes(cn)
			if cn == 24 {
				ct = []byte("text/plain;charset=utf-8")
			}
			k := newKey(r)
			s := inscribeCase(k.P2PKH(), ct, payload(r, dn), nil, true, true)
			if s != nil {
				mints = append(mints, minted{Key: k, CTLen: cn, DataLen: dn, Script: s})
			}
			if !big && s != nil {
				small = append(small, s)
			}
		}
	}
	// payloads that look like script: single bytes 0x00, 0x01..0x10, 0x4c.., the text "ord", an envelope
	for _, d := range [][]byte{{0x00}, {0x01}, {0x10}, {0x51}, {0x4c}, {0x4d}, {0x4e}, {0x4f}, {0x68}, {0x6a}, {0x00, 0x00}, []byte("ord"),
		{0x00, 0x63, 0x03, 'o', 'r', 'd', 0x51, 0x00, 0x00, 0x00, 0x68}} {
		inscribeCase(prefix(), d, d, nil, true, true)
		inscribeCase(prefix(), []byte("a/b"), d, nil, true, true)
	}
	// enriched inscriptions (OP_RETURN tail)
	for i := 0; i < 12; i++ {
		var dd [][]byte
		for j := r.Intn(4); j > 0; j-- {
			dd = append(dd, r.Bytes(r.Pick([]int{0, 1, 5, 75, 76, 300})))
		}
		s := inscribeCase(prefix(), r.Bytes(r.Intn(12)), r.Bytes(r.Pick([]int{0, 1, 20, 80})), dd, false, true)
		if s != nil {
			small = append(small, s)
		}
	}
	// random small ones
	n := 40
	if c.Thorough() {
		n = 600
	}
	for i := 0; i < n; i++ {
		s := inscribeCase(prefix(), r.Bytes(r.Pick([]int{0, 1, 2, 10, 75, 76, 77})), r.Bytes(r.Pick([]int{0, 1, 2, 33, 75, 76, 77, 254, 255, 256, 257})), nil, true, true)
		if s != nil {
			small = append(small, s)
		}
	}
	// prefixes that are not P2PKH: Inscribe still works, ParseInscription is expected to say no (no round-trip claim)
	h20 := r.Bytes(20)
	for _, p := range [][]byte{{}, {0x51}, feegen.P2PKH(r.Bytes(20))[:24], append([]byte{0x51}, feegen.P2PKH(r.Bytes(20))...), r.Bytes(25),
		// the P2PKH opcodes around a hash pushed with OP_PUSHDATA1/2, and the opcode bytes pushed as data: they
		// decode to the same parts as the template but are not the 25-byte script
		append(append([]byte{0x76, 0xa9, 0x4c, 0x14}, h20...), 0x88, 0xac), append(append([]byte{0x76, 0xa9, 0x4d, 0x14, 0x00}, h20...), 0x88, 0xac),
		append(append([]byte{0x01, 0x76, 0x01, 0xa9, 0x14}, h20...), 0x01, 0x88, 0x01, 0xac), append(append([]byte{0x76, 0xa9, 0x13}, h20[:19]...), 0x88, 0xac)} {
		inscribeCase(p, []byte("x"), []byte("y"), nil, true, false)
	}
	// ParseInscription on scripts near an inscription: every encoding of an empty / one-zero-byte push at the
	// content-type and data positions, single-byte mutations, truncations, swaps
	parseCase := func(kind string, s []byte) {
		obs, _, _ := parseObs(s)
		c.Tally("parse/" + kind + "/" + strings.SplitN(strings.Trim(obs, "()"), " ", 2)[0])
		c.Case(fmt.Sprintf("CParse %s %s", cb(s), obs), map[string]string{"kind": kind, "script": common.Hex(trunc(s))}, "p|"+common.Hex(s), true)
	}
	pushForms := [][]byte{{0x00}, {0x01, 0x00}, {0x4c, 0x00}, {0x4c, 0x01, 0x00}, {0x4d, 0x00, 0x00}, {0x4d, 0x01, 0x00, 0x00},
		{0x4e, 0x00, 0x00, 0x00, 0x00}, {0x4e, 0x01, 0x00, 0x00, 0x00, 0x00}, {0x51}, {0x4f}, {0x02, 0xab, 0xcd}, {0x4c, 0x02, 0xab, 0xcd}}
	for _, a := range pushForms {
		for _, b := range pushForms {
			s := feegen.P2PKH(r.Bytes(20))
			s = append(s, 0x00, 0x63, 0x03, 'o', 'r', 'd', 0x51)
			s = append(s, a...)
			s = append(s, 0x00)
			s = append(s, b...)
			s = append(s, 0x68)
			parseCase("push-forms", s)
		}
	}
	muts := 4
	if c.Thorough() {
		muts = 40
	}
	for _, s := range small {
		if len(s) > 400 {
			continue
		}
		for m := 0; m < muts; m++ {
			x := append([]byte{}, s...)
			switch r.Intn(5) {
			case 0:
				x[r.Intn(len(x))] ^= 1 << uint(r.Intn(8))
				parseCase("bitflip", x)
			case 1:
				parseCase("truncate", x[:r.Intn(len(x))])
			case 2:
				i := r.Intn(len(x))
				parseCase("delete-byte", append(x[:i], x[i+1:]...))
			case 3:
				i := r.Intn(len(x))
				parseCase("insert-byte", append(x[:i], append([]byte{byte(r.U64())}, x[i:]...)...))
			case 4:
				parseCase("append", append(x, r.Bytes(1+r.Intn(4))...))
			}
		}
	}
	for i := 0; i < 30; i++ {
		parseCase("random", r.Bytes(r.Intn(60)))
	}
	return
}

// ---------- flows over outputs that Inscribe made ----------

// tradeMinted: one amply funded base scenario of the flow in which the minted output m is the ordinal on sale (role
// ord), what the buyer pays with (role pay: one funding input for sure — any position: the one moved to the front, a
// dummy, the one that pays — and some of the others from the pool), or both (the ordinal is m, the paying outputs
// come from the pool).
func tradeMinted(r *common.Rand, pool []minted, m minted, flow, role, label string) bool {
	asPay := func(s *ordgen.Scenario, i int, m minted) {
		f := append([]ordgen.U{}, s.Funding...)
		f[i].Script, f[i].Key = common.Hex(m.Script), m.Key
		s.Funding = f
	}
	s, _ := genScenario(r, flow)
	s.Note = "ample"
	if m.Unsupported {
		s.Note = "ample/script-the-flows-do-not-recognise"
	}
	if s.IsBid() && len(s.SellerScript) > 50 {
		// (a bid leaves the fee of a 25-byte seller script; the point here is the traded output: the sale has to complete)
		s.SellerScript = p2pkhHex(r)
	}
	if role != "pay" {
		s.Ord.Script, s.Ord.Key = common.Hex(m.Script), m.Key
	}
	if role != "ord" {
		pm := m
		if role == "both" && len(pool) > 0 {
			pm = pool[r.Intn(len(pool))]
		}
		i := r.Intn(len(s.Funding))
		asPay(&s, i, pm)
		for j := range s.Funding {
			if j != i && len(pool) > 0 && r.Chance(35) {
				asPay(&s, j, pool[r.Intn(len(pool))])
			}
		}
	}
	if m.DataLen > 300 {
		c.Weigh(c.ShardBytes) // a shard of its own
	}
	done := emitFlow(s)
	c.Tally(fmt.Sprintf("%s/%v", label, done))
	return done
}

// mintedFlowCases: every inscription output of the grid above (content-type lengths x payload lengths at the push
// boundaries 75/76, 255/256, 65535/65536 and beyond, exactly as the library's Inscribe built them) is traded while
// it still sits in its inscribing output: as the ordinal that is listed / bid for (role ord), as what the buyer pays
// with (role pay: one or more funding inputs, the dummy ones included), or both at once with two different
// inscriptions (role both). The scenario around it is an amply funded base scenario; everything emitFlow states
// about a completed transaction applies: each input executed by the real interpreter against its previous output,
// seller output position, FIFO routing, fee — and a well-formed amply funded offer that is turned down is reported.
// The long ones (payload of 64 KiB and more, OP_PUSHDATA4 or the largest OP_PUSHDATA2) get a shard of their own on
// the Coq side, where transactions and preimages are compared through SHA-256.
func mintedFlowCases(r *common.Rand, mints []minted) {
	flows := []string{"list", "list2d", "bid", "bid2d"}
	roles := []string{"ord", "pay", "both"}
	var small []minted
	for _, m := range mints {
		if m.DataLen <= 300 {
			small = append(small, m)
		}
	}
	run := func(m minted, flow, role string) {
		tradeMinted(r, small, m, flow, role, fmt.Sprintf("minted/%s/%s/ct=%d/data=%d", flow, role, m.CTLen, m.DataLen))
	}
	n := 0
	for _, m := range mints {
		if m.DataLen <= 300 {
			// each short one once per run in quick (flow and role cycle, so that every payload length meets every
			// flow over the seven content-type lengths), in every flow and role in thorough
			if c.Thorough() {
				for _, f := range flows {
					for _, ro := range roles {
						run(m, f, ro)
					}
				}
			} else {
				run(m, flows[n%4], roles[(n/4+n)%3])
			}
			n++
			continue
		}
	}
	// the long ones: in quick, each of the few the grid makes once, the first OP_PUSHDATA4 payloads as the ordinal of
	// a listing and as a bidder's funding input; in thorough every one in two random (flow, role) combinations plus
	// once as the ordinal of a listing
	l := 0
	plan := [][2]string{{"list2d", "ord"}, {"list", "ord"}, {"bid", "pay"}, {"bid2d", "ord"}}
	for _, m := range mints {
		if m.DataLen <= 300 {
			continue
		}
		if c.Thorough() {
			run(m, flows[l%2], "ord")
			for k := 0; k < 2; k++ {
				run(m, flows[r.Intn(4)], roles[r.Intn(3)])
			}
		} else {
			p := plan[l%len(plan)]
			run(m, p[0], p[1])
		}
		l++
	}
}

// ---------- "nothing there" in the argument object ----------

// nilFieldCases: Inscribe then ParseInscription with every field of InscriptionArgs that Go lets be absent written in
// each of the ways Go has for it: Data nil (left unset) / an empty literal / empty with spare capacity / an empty
// reslice of a non-empty buffer; ContentType empty; EnrichedArgs nil / OpReturnData nil / an empty list / lists with
// nil elements at the front, at the back, alone, between empty and non-empty ones. Each call is a case of the
// correspondence in the argument-object form (CInscribeArgs: the model is handed nil-ness as Go was), and the round
// trip is stated on it: content type, data (no bytes) and prefix come back.
func nilFieldCases(r *common.Rand) {
	backing := r.Bytes(8)
	type dv struct {
		name string
		d    []byte
	}
	datas := []dv{{"nil", nil}, {"empty-literal", []byte{}}, {"empty-spare-capacity", make([]byte, 0, 16)}, {"empty-reslice", backing[:0]},
		{"one-zero-byte", []byte{0}}, {"text", []byte("Hello, world!")}}
	cts := [][]byte{{}, []byte("text/plain")}
	x := func(n int) []byte { return r.Bytes(n) }
	type ev struct {
		name string
		e    enrSpec
	}
	enrs := []ev{{"nil-args", enrSpec{ArgsNil: true}}, {"nil-list", enrSpec{ListNil: true}}, {"empty-list", enrSpec{}},
		{"[nil]", enrSpec{Parts: [][]byte{nil}}}, {"[nil nil]", enrSpec{Parts: [][]byte{nil, nil}}},
		{"[nil x]", enrSpec{Parts: [][]byte{nil, x(1)}}}, {"[x nil]", enrSpec{Parts: [][]byte{x(1), nil}}},
		{"[empty]", enrSpec{Parts: [][]byte{{}}}}, {"[empty nil empty]", enrSpec{Parts: [][]byte{{}, nil, make([]byte, 0, 4)}}},
		{"[x]", enrSpec{Parts: [][]byte{x(1)}}}, {"[nil xx nil yyy]", enrSpec{Parts: [][]byte{nil, x(2), nil, x(3)}}}}
	n := 0
	for di, d := range datas {
		for _, ct := range cts {
			for ei, e := range enrs {
				// quick: the whole list of tails for the two plain ways of giving no data, three of them (rotating) for the others
				if !c.Thorough() && di >= 2 && (ei+n)%4 != 0 {
					continue
				}
				inscribeSpecCase(inscSpec{prefix: feegen.P2PKH(r.Bytes(20)), ct: ct, data: d.d, enr: e.e, expectRoundTrip: true,
					variant: "absent:data=" + d.name + ",op_return=" + e.name})
			}
			n++
		}
	}
	// a prefix object that points at a nil script: Inscribe works on it like on an empty one (no round-trip claim)
	var none bscript.Script
	inscribeSpecCase(inscSpec{prefix: none, ct: []byte("x"), data: nil, enr: enrSpec{ArgsNil: true}, variant: "absent:prefix=nil-script"})
}

// ---------- enriched inscriptions (OP_RETURN data behind the envelope) in the flows ----------

// tailVariant: what stands behind the envelope of an inscription output: the parts handed to Inscribe as
// EnrichedArgs.OpReturnData, or (raw) bytes written behind OP_RETURN by hand — everything behind a top-level OP_RETURN
// is data to the interpreter, well-formed pushes or not.
type tailVariant struct {
	name  string
	enr   enrSpec
	raw   []byte
	isRaw bool
}

func (v tailVariant) tailLen() int {
	if v.isRaw {
		return len(v.raw)
	}
	return v.enr.tailLen()
}

// tailVariants: OP_RETURN data of 0, 1, 2, 3, 4, many parts; every total tail length 0..4 in each way it splits into
// pushes (empty parts, nil parts, one-byte parts, one longer part) and as raw bytes (random ones and ones that look
// like the start of a push: OP_PUSHDATA1/2/4 without their data, OP_RETURN, OP_CODESEPARATOR); single parts and sums of
// parts whose tail is just below, at and above 75/76 and 255/256 bytes; parts at the lengths where the push encoding
// changes; many small parts.
func tailVariants(r *common.Rand) (vs []tailVariant) {
	special := []byte{0x00, 0x01, 0x42, 0x4c, 0x51, 0x6a, 0x81, 0xab, 0xff}
	x := func(n int) []byte {
		b := r.Bytes(n)
		if n > 0 && n <= 3 && r.Bool() {
			b[0] = special[r.Intn(len(special))]
		}
		return b
	}
	// bytes that are opcodes of their own (no push): a raw tail made of them still reads as a list of parts
	single := []byte{0x00, 0x4f, 0x51, 0x60, 0x6a, 0x75, 0x88, 0xab, 0xac, 0xae, 0xfe, 0xff}
	ops := func(n int) []byte {
		b := make([]byte, n)
		for i := range b {
			b[i] = single[r.Intn(len(single))]
		}
		return b
	}
	e := []byte{}
	parts := func(name string, pp ...[]byte) {
		vs = append(vs, tailVariant{name: name, enr: enrSpec{Parts: pp}})
	}
	raw := func(name string, b []byte) { vs = append(vs, tailVariant{name: name, raw: b, isRaw: true}) }
	// no tail at all, three ways
	vs = append(vs, tailVariant{name: "no-enriched-args", enr: enrSpec{ArgsNil: true}}, tailVariant{name: "op-return-data-nil", enr: enrSpec{ListNil: true}},
		tailVariant{name: "op-return-data-empty", enr: enrSpec{}})
	raw("raw0", []byte{})
	// 1 byte
	parts("1=[0]", e)
	parts("1=[nil]", nil)
	raw("raw1-opcode", ops(1))
	raw("raw1-pushdata1-cut", []byte{0x4c})
	// 2 bytes
	parts("2=[1]", x(1))
	parts("2=[0,0]", e, e)
	parts("2=[nil,0]", nil, e)
	raw("raw2-opcodes", ops(2))
	raw("raw2-pushdata1-empty", []byte{0x4c, 0x00})
	raw("raw2-pushdata1-cut", []byte{0x4c, 0x05})
	raw("raw2-push-cut", []byte{0x02, byte(r.U64())})
	// 3 bytes
	parts("3=[2]", x(2))
	parts("3=[0,1]", e, x(1))
	parts("3=[1,0]", x(1), e)
	parts("3=[0,0,0]", e, e, e)
	raw("raw3-pushdata1-of-1", []byte{0x4c, 0x01, byte(r.U64())})
	raw("raw3-opcodes", ops(3))
	raw("raw3-pushdata2-cut", []byte{0x4d, 0x01, 0x00})
	// 4 bytes
	parts("4=[3]", x(3))
	parts("4=[1,1]", x(1), x(1))
	parts("4=[0,2]", e, x(2))
	parts("4=[0,0,0,0]", e, e, e, e)
	parts("4=[1,0,0]", x(1), e, e)
	raw("raw4-pushdata2-of-1", []byte{0x4d, 0x01, 0x00, byte(r.U64())})
	raw("raw4-pushdata4-cut", []byte{0x4e, 0x00, 0x00, 0x00})
	// around 75/76 and 255/256 bytes of tail, one part and several
	for _, n := range []int{73, 74, 75, 76, 252, 253, 254, 255, 256} {
		if !c.Thorough() && (n == 73 || n == 252) {
			continue
		}
		parts(fmt.Sprintf("%d=[%d]", len(ordgen.Push(make([]byte, n))), n), x(n))
	}
	parts("75=[36,37]", x(36), x(37))
	parts("76=[0,74]", e, x(74))
	parts("255=[100,100,50]", x(100), x(100), x(50))
	parts("256=[100,100,51]", x(100), x(100), x(51))
	parts("boundary-parts=[75,76,255,256]", x(75), x(76), x(255), x(256))
	raw("raw10-codeseparator-first", append([]byte{0xab}, ops(9)...))
	raw("raw76-opcodes", ops(76))
	// many parts (MAP-like: protocol address, verb, keys and values)
	var many [][]byte
	for i := 12 + r.Intn(8); i > 0; i-- {
		many = append(many, x(r.Pick([]int{0, 1, 3, 3, 5, 12, 34})))
	}
	vs = append(vs, tailVariant{name: fmt.Sprintf("many=%d", len(many)), enr: enrSpec{Parts: many}})
	var empties [][]byte
	for i := 0; i < 40; i++ {
		empties = append(empties, e)
	}
	vs = append(vs, tailVariant{name: "many-empty=40", enr: enrSpec{Parts: empties}})
	return
}

// readsAsParts: the bytes are a sequence of complete pushes and single-byte opcodes (the harness's own walk). The
// library's flows only take inputs whose script they recognise as P2PKH or P2PKH + inscription, for which the whole
// script — the tail included — has to read like this; an output with any other tail can sit on chain but the flows
// refuse it (no transaction, nothing to state).
func readsAsParts(b []byte) bool {
	for len(b) > 0 {
		n, h := 0, 1
		switch {
		case b[0] >= 1 && b[0] <= 75:
			n = int(b[0])
		case b[0] == 0x4c:
			h = 2
		case b[0] == 0x4d:
			h = 3
		case b[0] == 0x4e:
			h = 5
		}
		if len(b) < h {
			return false
		}
		for i := h - 1; i >= 1 && h > 1; i-- {
			n = n<<8 | int(b[i])
		}
		if len(b) < h+n {
			return false
		}
		b = b[h+n:]
	}
	return true
}

type enrichedMint struct {
	minted
	Name      string
	Tail      int  // bytes behind OP_RETURN; -1: no OP_RETURN
	Supported bool // the flows take it (made by Inscribe, or a raw tail that reads as parts)
}

// enrichedFlowCases: every tail variant is put behind an inscription — by the library's Inscribe (a case of the
// correspondence in its own right, round trip stated on it) or, for the raw ones, by hand on the envelope Inscribe
// writes — on the P2PKH script of a fresh key, and the output is traded while it sits there. Quick: for every tail
// length 0..4 the variants of that length go round the four flows so that each length is, in every flow, the script
// of the ordinal the seller signs for (roles ord / both; further variants of the length pay for the purchase), and every
// longer variant is traded once, flows and roles cycling; thorough: every variant in every flow and role. All clauses
// of the property are stated on every completed transaction (every input through the real interpreter, which has
// to re-serialise the locking script, tail included, for the signature digest).
func enrichedFlowCases(r *common.Rand) {
	flows := []string{"list", "list2d", "bid", "bid2d"}
	roles := []string{"ord", "pay", "both"}
	var ms []enrichedMint
	for _, v := range tailVariants(r) {
		k := newKey(r)
		ct := [][]byte{[]byte("text/plain;charset=utf-8"), {}, r.Bytes(1 + r.Intn(12))}[r.Intn(3)]
		var data []byte
		switch r.Intn(4) {
		case 0: // Data left unset
		case 1:
			data = []byte{}
		default:
			data = r.Bytes(1 + r.Intn(40))
		}
		var script []byte
		if v.isRaw {
			script = append(append(ordgen.InscriptionScript(k.Hash160(), ct, data), 0x6a), v.raw...)
			obs, _, _ := parseObs(script)
			c.Tally("parse/enriched-raw-tail/" + strings.SplitN(strings.Trim(obs, "()"), " ", 2)[0])
			c.Case(fmt.Sprintf("CParse %s %s", cb(script), obs), map[string]string{"kind": "enriched-raw-tail:" + v.name, "script": common.Hex(trunc(script))}, "p|"+common.Hex(script), true)
		} else {
			script = inscribeSpecCase(inscSpec{prefix: k.P2PKH(), ct: ct, data: data, enr: v.enr, expectRoundTrip: true, variant: "enriched:" + v.name})
			if script == nil {
				continue
			}
			if want := v.enr.tailLen(); want >= 0 {
				// the pushes of OpReturnData stand behind an OP_RETURN that follows the envelope, byte for byte
				env := ordgen.InscriptionScript(k.Hash160(), ct, data)
				tail := []byte{0x6a}
				for _, p := range v.enr.Parts {
					tail = append(tail, ordgen.Push(p)...)
				}
				if !bytes.Equal(script, append(env, tail...)) {
					c.Violate("Inscribe/op-return-data-not-written", fmt.Sprintf("script %x, expected the envelope followed by %x", trunc(script), trunc(tail)), map[string]interface{}{"variant": v.name, "content_type_hex": common.Hex(ct), "data_hex": common.Hex(data)})
				}
			}
		}
		ms = append(ms, enrichedMint{minted{Key: k, CTLen: len(ct), DataLen: len(data), Script: script}, v.name, v.tailLen(), !v.isRaw || readsAsParts(v.raw)})
	}
	var pool []minted
	for _, m := range ms {
		if m.Supported {
			pool = append(pool, m.minted)
		}
	}
	trade := func(m enrichedMint, flow, role string) {
		if !m.Supported {
			// a tail the flows do not recognise: the output is offered as the ordinal (or pays) on its own; the flow
			// may refuse it, whatever it completes is held to every clause
			if role == "both" {
				role = "ord"
			}
			m.minted.Unsupported = true
		}
		tradeMinted(r, pool, m.minted, flow, role, fmt.Sprintf("minted-enriched/%s/%s/tail=%d/supported=%v", flow, role, m.Tail, m.Supported))
		c.Tally("minted-enriched-variant/" + m.Name)
	}
	if c.Thorough() {
		for _, m := range ms {
			for _, f := range flows {
				for _, ro := range roles {
					trade(m, f, ro)
				}
			}
		}
		return
	}
	rot := r.Intn(4)
	byLen := map[int][]enrichedMint{}
	var longer []enrichedMint
	for _, m := range ms {
		if m.Tail >= 0 && m.Tail <= 4 && m.Supported {
			byLen[m.Tail] = append(byLen[m.Tail], m)
		} else {
			longer = append(longer, m)
		}
	}
	for l := 0; l <= 4; l++ {
		vs := byLen[l]
		if len(vs) == 0 {
			continue
		}
		n := len(vs)
		if n < 4 {
			n = 4
		}
		for j := 0; j < n; j++ {
			role := "pay"
			if j < 4 {
				role = []string{"ord", "both"}[(j+l)%2]
			}
			trade(vs[j%len(vs)], flows[(j+l+rot)%4], role)
		}
	}
	for i, m := range longer {
		trade(m, flows[(i+rot)%4], roles[(i/4+i)%3])
	}
}

// ---------- InscribeSpecificOrdinal / rangeAbove ----------

func rangeCases(r *common.Rand) {
	n := 120
	if c.Thorough() {
		n = 3000
	}
	vals := []uint64{0, 1, 1, 2, 10, 546, 1000, 1 << 32, 1 << 63, 1<<64 - 1}
	for i := 0; i < n; i++ {
		var sats []uint64
		for j := r.Intn(5); j > 0; j-- {
			if r.Chance(70) {
				sats = append(sats, 1+r.U64()%5000)
			} else {
				sats = append(sats, r.PickU64(vals))
			}
		}
		idx := uint32(r.Intn(len(sats) + 2))
		if r.Chance(5) {
			idx = uint32(r.PickU64([]uint64{1 << 31, 1<<32 - 1}))
		}
		var satIdx uint64
		if int(idx) < len(sats) && sats[idx] > 0 && r.Chance(80) {
			satIdx = r.U64() % sats[idx]
		} else {
			satIdx = r.PickU64([]uint64{0, 1, 5000, 1<<64 - 1})
		}
		tx := bt.NewTx()
		for _, v := range sats {
			_ = tx.FromUTXOs(&bt.UTXO{TxID: r.Bytes(32), Vout: 0, Satoshis: v, LockingScript: bscript.NewFromBytes(feegen.P2PKH(r.Bytes(20)))})
		}
		pfx := bscript.Script(feegen.P2PKH(r.Bytes(20)))
		extra := bscript.NewFromBytes(feegen.P2PKH(r.Bytes(20)))
		var err error
		twin := map[string]interface{}{"in_sats": sats, "input_idx": idx, "sat_idx": satIdx}
		if p, msg := common.Safely(func() {
			err = tx.InscribeSpecificOrdinal(&bscript.InscriptionArgs{LockingScriptPrefix: &pfx, Data: []byte("d"), ContentType: "c"}, idx, satIdx, extra)
		}); p {
			c.Violate("InscribeSpecificOrdinal/panic", msg, twin)
			continue
		}
		amount, dst := "None", 0
		if err == nil {
			if len(tx.Outputs) != 2 {
				c.Violate("InscribeSpecificOrdinal/outputs", fmt.Sprint(len(tx.Outputs)), twin)
				continue
			}
			amount = fmt.Sprintf("(Some %d)", tx.Outputs[0].Satoshis)
			off := ordgen.InputOffset(sats, int(idx))
			off.Add(off, new(big.Int).SetUint64(satIdx))
			dst = ordgen.FifoOutput([]uint64{tx.Outputs[0].Satoshis, tx.Outputs[1].Satoshis}, off)
			// the chosen satoshi exists (input idx exists, satIdx inside it) and the totals fit 64 bits:
			// it must land in the inscription output, whose script parses back
			total := ordgen.InputOffset(sats, len(sats))
			if int(idx) < len(sats) && satIdx < sats[idx] && total.Cmp(feegen.Two64) < 0 {
				if dst != 1 {
					c.Violate("InscribeSpecificOrdinal/ordinal-misrouted", fmt.Sprintf("satoshi %s of the inputs lands in output %d, the inscription is output 1 (first output %d sat)", off, dst, tx.Outputs[0].Satoshis), twin)
				}
				if _, err := tx.Outputs[1].LockingScript.ParseInscription(); err != nil {
					c.Violate("InscribeSpecificOrdinal/not-an-inscription", err.Error(), twin)
				}
				c.Tally("range/ordinal-exists")
			}
			if dst < 0 {
				dst = 99
			}
		}
		c.Tally(fmt.Sprintf("range/n=%d/%v", len(sats), err == nil))
		c.Case(fmt.Sprintf("CRange %s %d %d %s %d", coqNs(sats), idx, satIdx, amount, dst), twin, fmt.Sprintf("r|%v|%d|%d", sats, idx, satIdx), len(sats) > 0)
	}
}

func main() {
	c = common.Parse("C20")
	c.SetHeader(header)
	c.ShardBytes = 260000
	c.PerShard = 120
	r := common.NewRand(c.Seed)
	bases := 14
	if c.Thorough() {
		bases = 260
	}
	if c.Mode == "search" {
		bases *= 2
	}
	flowCases(r.Fork(), bases)
	mints := inscriptionCases(r.Fork())
	mintedFlowCases(r.Fork(), mints)
	rangeCases(r.Fork())
	// (forked last: the families above see the same random stream as before these were added)
	nilFieldCases(r.Fork())
	enrichedFlowCases(r.Fork())
	c.Stats.Rule = "flows: per flow (ListOrdinalForSale+AcceptOrdinalSaleListing, the 2-dummy variant, MakeBid+AcceptBid, the 2-dummy variant) seeded base scenarios: fresh secp256k1 keys for seller and 2 buyer keys, ordinal UTXO (P2PKH or P2PKH-inscription of the seller with a payload of 0..59 bytes or at a push-encoding boundary 74..77 / 254..257 / 300 bytes, 1/2/10/1000 sat; one funding UTXO in eight is an inscription output of the buyer of the same kind), price from {1,2,545,546,1000,..,2^32+5,21e14} or random < 1e8, 2..5 funding UTXOs (3..5 for 2 dummies) with the UTXO worth more than the price at a random position and the others at price / price-1 / price/2 / small, one of 11 fee quotes (0..50 sat/byte, unequal std/data); in the standard flows the seller is paid on P2PKH or (one in four) on a 1-of-2 multisig, P2PK, one-byte, inscription or P2SH script; each base is run amply funded (a well-formed amply funded offer that is turned down is reported: funded-offer-rejected), then under- and over-funded by the harness's own fee estimate (size of the ample result x quote, independent of the flow's verdict), then at the fee boundary found by bisection on one UTXO's value (smallest value for which the flow returns a transaction) -1/0/+1 and at random points inside a 140-sat window on both sides, plus negatives (validation given another UTXO, too few UTXOs, no UTXO above the price, quote lacking a fee type, seller's ExpectedFQ 0.9..2x the bidder's quote at its own boundary). Every returned transaction: each input executed by the real interpreter (re-decoded tx, previous output from the scenario, FORKID+after-genesis), seller output at the ordinal's input index, FIFO routing of the ordinal's first satoshi computed over big integers, fee >= quoted fee of the final serialisation. inscription histories: 2..4 inscriptions on one transaction sharing one prefix object (from NewP2PKHFromPubKeyHash, with spare capacity, exact, or returned by ParseInscription), every output re-parsed afterwards; inscriptions: content-type lengths {0,1,24,75,76,255,256} x payload lengths {0,1,75,76,255,256,65535,65536,100000} (long ones for one content type in quick; thorough adds 74,77,254,257,65534,65537), each minted by the library's Inscribe on the P2PKH script of a fresh key; flows over minted outputs: every output of that grid is then traded while it sits in its inscribing output — as the ordinal listed / bid for, as one or more of the buyer's funding inputs (dummy inputs included), or both with two different inscriptions — in an amply funded base scenario, flow and role cycling over the grid in quick (each short one once; the four long ones: 65535 bytes as the ordinal of a two-dummy listing, 65536 as the ordinal of a listing and as a bidder's funding input, 100000 as the ordinal of a two-dummy bid), every flow x role in thorough (long ones: three combinations each), all clauses checked on the completed transaction (every input through the real interpreter) and the long ones compared with the model through SHA-256 in a shard of their own; script-like payloads, enriched OP_RETURN tails, random small; ParseInscription on all 144 pairs of 12 push encodings at the content-type/data positions, and bit flips / truncations / deletions / insertions / appends of inscribed scripts and random scripts; InscribeSpecificOrdinal on 0..4 inputs with values incl. 0, 2^63, 2^64-1, index up to len+1 and 2^31/2^32-1; absent fields: Inscribe -> ParseInscription with Data nil / empty literal / empty with spare capacity / empty reslice / one zero byte / text x ContentType empty / text x EnrichedArgs nil / OpReturnData nil / empty list / lists with nil elements alone, first, last, between empty and non-empty ones (the whole list for the two plain ways of giving no data in quick, the full product in thorough), compared with the model of the argument object that keeps nil-ness (CInscribeArgs); enriched inscriptions in the flows: OP_RETURN data of 0, 1, 2, 3, 4, 12..19, 40 parts, every tail length 0..4 in each way it splits into pushes (empty / nil / one-byte / longer parts) and as hand-written bytes behind OP_RETURN (single-byte opcodes incl. OP_RETURN and OP_CODESEPARATOR, non-minimal pushes, pushes cut short), tails of 74..78 and 254..259 bytes as one part and as sums of parts, parts at 75/76/255/256 bytes, each minted by Inscribe on a fresh key (script compared byte for byte with envelope + OP_RETURN + pushes written by the harness) and traded while it sits there: per tail length 0..4 every flow with that script as the ordinal the seller signs for, further variants paying for the purchase, longer tails once each with flow and role cycling (thorough: every variant x flow x role); hand-written tails that do not read as complete pushes are offered too (the flows may refuse them; whatever completes is held to every clause). distinct = distinct (flow, price, quote, funding values, ordinal script) / (prefix, content type, payload) / script / (values, index, satoshi); all cases non-trivial except rangeAbove on no inputs"
	c.Finish()
}
