// c11: size and fee accounting — cases for the Coq model (corr/C11.v) plus the property stated
// directly in Go: byte partition, floor fees, predicate <=> inequality, estimate >= signed size,
// estimation errors, DER length / low-S of library signatures.
package main

import (
	"context"
	"fmt"
	"github.com/libsv/go-bk/crypto"
	"math/big"
	"strings"
	"time"

	"github.com/libsv/go-bk/bec"
	"github.com/libsv/go-bt/v2"
	"github.com/libsv/go-bt/v2/bscript"
	"github.com/libsv/go-bt/v2/sighash"
	"github.com/libsv/go-bt/v2/unlocker"

	"verif/harness/common"
	"verif/harness/feegen"
	"verif/harness/txgen"
)

var c *common.Ctx

const header = `From Coq Require Import List NArith String.
From Coq Require Import Strings.Byte.
From GoBT Require Import lib.Bytes lib.Hex model.Tx spec.FeeSpec model.Fees model.QuoteHeap corr.FeeCorr corr.C11.
Import ListNotations. Local Open Scope N_scope.
`

type sizeTwin struct {
	Kind  string       `json:"kind"`
	Tx    txgen.TxSpec `json:"tx"`
	Quote feegen.Quote `json:"quote"`
}

func b2s(b bool) string { return common.CoqBool(b) }

// product: bytes x satoshis of one fee unit over the integers.
func product(n uint64, r *feegen.Rate) *big.Int {
	return new(big.Int).Mul(new(big.Int).SetUint64(n), big.NewInt(int64(r.Sat)))
}

// sizeCase: one (tx, quote) pair through every size / fee entry point.
func sizeCase(kind string, s txgen.TxSpec, q feegen.Quote, hyp bool) {
	tx := txgen.Build(s)
	fq := q.Build()
	twin := sizeTwin{kind, s, q}

	sz := tx.SizeWithTypes()
	tin, tout := tx.TotalInputSatoshis(), tx.TotalOutputSatoshis()

	// --- property, stated in Go ---
	raw := tx.Bytes()
	if sz.TotalBytes != uint64(len(raw)) || sz.TotalBytes != sz.TotalStdBytes+sz.TotalDataBytes || uint64(tx.Size()) != sz.TotalBytes {
		c.Violate("SizeWithTypes/partition", fmt.Sprintf("total %d std %d data %d len %d", sz.TotalBytes, sz.TotalStdBytes, sz.TotalDataBytes, len(raw)), twin)
	}
	if want := feegen.DataBytes(s); sz.TotalDataBytes != want {
		c.Violate("SizeWithTypes/data-bytes", fmt.Sprintf("data %d, data-carrier script bytes %d", sz.TotalDataBytes, want), twin)
	}

	var estSize int
	var estErr error
	p1, _ := common.Safely(func() { estSize, estErr = tx.EstimateSize() })
	var est3 *bt.TxSize
	var est3Err error
	p2, _ := common.Safely(func() { est3, est3Err = tx.EstimateSizeWithTypes() })
	var enough, estEnough bool
	var enoughErr, estEnoughErr error
	p3, _ := common.Safely(func() { enough, enoughErr = tx.IsFeePaidEnough(fq) })
	p4, _ := common.Safely(func() { estEnough, estEnoughErr = tx.EstimateIsFeePaidEnough(fq) })
	var estFees *bt.TxFees
	var estFeesErr error
	p5, _ := common.Safely(func() { estFees, estFeesErr = tx.EstimateFeesPaid(fq) })

	// estimation must report an error (the right one) for a missing / unsupported previous script
	wantErr := ""
	for _, in := range s.Ins {
		if in.PrevNil {
			wantErr = "ErrEmptyPreviousTxScript"
			break
		}
		ps := bscript.NewFromBytes(common.Unhex(in.Prev))
		if !(ps.IsP2PKH() || ps.IsP2PKHInscription()) {
			wantErr = "ErrUnsupportedScript"
			break
		}
	}
	if wantErr != "" {
		if p1 || estErr == nil || feegen.ErrName(estErr) != wantErr {
			c.Violate("EstimateSize/guess", fmt.Sprintf("want %s, got size %d err %v panic %v", wantErr, estSize, estErr, p1), twin)
		}
		if p2 || est3Err == nil || p4 || estEnoughErr == nil || p5 || estFeesErr == nil {
			c.Violate("Estimate*/guess", "an estimate entry point answered for an input it cannot size", twin)
		}
	} else if p1 || estErr != nil {
		c.Violate("EstimateSize/refuses-supported", fmt.Sprintf("err %v panic %v", estErr, p1), twin)
	}
	if q.Complete() {
		inB, outB := feegen.SumIn(s), feegen.SumOut(s)
		noWrap := inB.Cmp(feegen.Two64) < 0 && outB.Cmp(feegen.Two64) < 0
		// outputs within the fee of 2^64: outputs + fee does not fit 64 bits (outside the theorems' no-overflow hypothesis), but
		// neither total wraps and the two predicates are still decided by the comparison over the integers
		goHyp := hyp || strings.HasSuffix(kind, "outputs-near-2^64")
		// the hypothesis of C11_fee_floor / C11_fee_enough_iff evaluated over the integers on the sizes at hand: neither
		// bytes x satoshis product leaves 64 bits (the sum of the two floors is checked where the total is compared). This
		// does not depend on how the generator labelled the case: a quote with huge fields is inside it whenever the
		// exact products still fit, e.g. in [2^63, 2^64)
		exact := func(std, data uint64) bool {
			return product(std, q.Std).Cmp(feegen.Two64) < 0 && product(data, q.Data).Cmp(feegen.Two64) < 0
		}
		// IsFeePaidEnough <=> out <= in and in - out >= floor fee on the real size
		if noWrap && !p3 && enoughErr == nil {
			quoted := q.Quoted(sz.TotalStdBytes, sz.TotalDataBytes)
			want := outB.Cmp(inB) <= 0 && new(big.Int).Sub(inB, outB).Cmp(quoted) >= 0
			if quoted.Cmp(feegen.Two64) < 0 && (goHyp || exact(sz.TotalStdBytes, sz.TotalDataBytes)) && enough != want {
				c.Violate("IsFeePaidEnough/iff", fmt.Sprintf("got %v want %v (in %s out %s quoted %s)", enough, want, inB, outB, quoted), twin)
			}
		}
		if !p5 && estFeesErr == nil && !p2 && est3Err == nil {
			quoted := q.Quoted(est3.TotalStdBytes, est3.TotalDataBytes)
			fits := exact(est3.TotalStdBytes, est3.TotalDataBytes) && quoted.Cmp(feegen.Two64) < 0
			if goHyp || fits {
				if new(big.Int).SetUint64(estFees.TotalFeePaid).Cmp(quoted) != 0 || estFees.TotalFeePaid != estFees.StdFeePaid+estFees.DataFeePaid {
					c.Violate("EstimateFeesPaid/floor", fmt.Sprintf("total %d std %d data %d, floor fee of (%d,%d) is %s", estFees.TotalFeePaid, estFees.StdFeePaid, estFees.DataFeePaid, est3.TotalStdBytes, est3.TotalDataBytes, quoted), twin)
				}
				if noWrap && !p4 && estEnoughErr == nil {
					want := outB.Cmp(inB) <= 0 && new(big.Int).Sub(inB, outB).Cmp(quoted) >= 0
					if estEnough != want {
						c.Violate("EstimateIsFeePaidEnough/iff", fmt.Sprintf("got %v want %v (in %s out %s quoted %s)", estEnough, want, inB, outB, quoted), twin)
					}
				}
			}
			// each part on its own: floor(bytes x satoshis / bytes-per-unit) whenever that product fits 64 bits; beyond
			// (the 'fee-wrap' family: outside the property's floor reading, inside the unconditional half of
			// C11_fee_floor) the part is the floor of the product reduced mod 2^64, i.e. what unsigned 64-bit
			// arithmetic yields, and nothing else (signed, 32-bit or floating-point intermediates all differ here)
			for _, part := range []struct {
				name  string
				bytes uint64
				rate  *feegen.Rate
				got   uint64
			}{{"std", est3.TotalStdBytes, q.Std, estFees.StdFeePaid}, {"data", est3.TotalDataBytes, q.Data, estFees.DataFeePaid}} {
				pr := product(part.bytes, part.rate)
				den := big.NewInt(int64(part.rate.Bytes))
				if pr.Cmp(feegen.Two64) < 0 {
					if want := new(big.Int).Div(pr, den); new(big.Int).SetUint64(part.got).Cmp(want) != 0 {
						c.Violate("EstimateFeesPaid/floor-part", fmt.Sprintf("%s fee %d for %d bytes at %d satoshis per %d bytes; floor(%s / %d) = %s", part.name, part.got, part.bytes, part.rate.Sat, part.rate.Bytes, pr, part.rate.Bytes, want), twin)
					}
				} else {
					wrapped := new(big.Int).Div(new(big.Int).Mod(pr, feegen.Two64), den)
					if new(big.Int).SetUint64(part.got).Cmp(wrapped) != 0 {
						c.Violate("EstimateFeesPaid/floor-mod-2^64", fmt.Sprintf("%s fee %d for %d bytes at %d satoshis per %d bytes; the product %s does not fit 64 bits and floor((product mod 2^64) / %d) = %s", part.name, part.got, part.bytes, part.rate.Sat, part.rate.Bytes, pr, part.rate.Bytes, wrapped), twin)
					}
				}
			}
		}
	}

	o3 := func(p bool, err error, v *bt.TxSize) string {
		if p || err != nil {
			return feegen.Obs(p, err, "")
		}
		return feegen.Obs(false, nil, feegen.N3(v.TotalBytes, v.TotalStdBytes, v.TotalDataBytes))
	}
	of := func(p bool, err error, v *bt.TxFees) string {
		if p || err != nil {
			return feegen.Obs(p, err, "")
		}
		return feegen.Obs(false, nil, feegen.N3(v.TotalFeePaid, v.StdFeePaid, v.DataFeePaid))
	}
	coq := fmt.Sprintf("CSize %s %s %s %s %d %d %s %s %s %s %s", txgen.Coq(s), q.Coq(), b2s(hyp),
		feegen.N3(sz.TotalBytes, sz.TotalStdBytes, sz.TotalDataBytes), tin, tout,
		feegen.Obs(p1, estErr, fmt.Sprint(estSize)), o3(p2, est3Err, est3),
		feegen.Obs(p3, enoughErr, b2s(enough)), feegen.Obs(p4, estEnoughErr, b2s(estEnough)), of(p5, estFeesErr, estFees))
	verdict := "ok"
	if p1 || p3 {
		verdict = "panic"
	} else if estErr != nil {
		verdict = "est-err"
	} else if enoughErr != nil {
		verdict = "fee-err"
	}
	c.Tally("size/" + kind + "/" + verdict)
	c.Case(coq, twin, "S"+txgen.Coq(s)+q.Key(), len(s.Ins)+len(s.Outs) > 0)
}

var payloadLens = []int{0, 0, 1, 3, 75, 76, 220, 255, 256, 1000, 70000}

func genOut(r *common.Rand, sats uint64) txgen.OutSpec {
	var sc []byte
	switch r.Intn(10) {
	case 0, 1, 2, 3:
		sc = feegen.P2PKH(r.Bytes(20))
	case 4, 5:
		sc = feegen.Data(0, feegen.Repeat(byte(r.U64()), r.Pick(payloadLens)))
	case 6, 7:
		sc = feegen.Data(1, feegen.Repeat(byte(r.U64()), r.Pick(payloadLens)))
	case 8: // near misses of the data prefix
		sc = [][]byte{{0x00}, {0x51, 0x6a}, {0x00, 0x00, 0x6a}, {}, {0x6a}, {0x00, 0x6a}}[r.Intn(6)]
	default:
		sc = r.Bytes(r.Pick([]int{1, 2, 25, 30}))
	}
	return txgen.OutSpec{Sats: sats, Script: common.Hex(sc)}
}

func genIn(r *common.Rand, sats uint64, allowBad bool) txgen.InSpec {
	in := feegen.In(r, sats)
	switch r.Intn(6) {
	case 0: // already signed (library-sized or odd-sized unlocking script)
		in.UnlockNil = false
		in.Unlock = common.Hex(r.Bytes(r.Pick([]int{1, 72, 106, 107, 108, 253})))
	case 1:
		in.UnlockNil = false // empty but non-nil
	case 2:
		in.Prev = common.Hex(feegen.Inscription(r.Bytes(20), []byte("text/plain"), r.Bytes(r.Intn(20))))
	}
	if allowBad {
		switch r.Intn(8) {
		case 0:
			in.PrevNil, in.Prev = true, ""
		case 1:
			in.Prev = ""
		case 2:
			b := common.Unhex(in.Prev)
			if len(b) == 25 {
				pos := []int{0, 1, 2, 23, 24}[r.Intn(5)]
				b[pos] ^= 1 << uint(r.Intn(8))
				in.Prev = common.Hex(b)
			}
		case 3:
			in.Prev = common.Hex(r.Bytes(r.Pick([]int{1, 24, 26, 35})))
		case 4: // the ord envelope behind something that is not P2PKH, or only its bytes inside a push: unsupported
			env := feegen.Inscription(r.Bytes(20), []byte("text/plain"), r.Bytes(r.Intn(20)))[25:]
			pk := append([]byte{0x21, 0x02}, r.Bytes(32)...)
			in.Prev = common.Hex([][]byte{
				append(append(append([]byte{}, pk...), 0xac), env...),
				append([]byte{0x51}, env...),
				append(append(append([]byte{0x51}, pk...), 0x51, 0xae), env...),
				append([]byte{byte(len(env))}, env...),
				append(append([]byte{0x76, 0xa9, 0x14}, r.Bytes(20)...), append([]byte{0x88, 0xad}, env...)...),
			}[r.Intn(5)])
		}
	}
	return in
}

func genSizeCases(r *common.Rand, n int) {
	for k := 0; k < n; k++ {
		q := feegen.Quotes[r.Intn(len(feegen.Quotes))]
		if r.Chance(35) { // arbitrary rates: any satoshis per 3..1000 bytes, standard and data drawn separately
			units := []int{100, 1000, 10, 7, 3, 250, 999}
			q = feegen.Q(1+r.Intn(1000), units[r.Intn(len(units))], 1+r.Intn(1000), units[r.Intn(len(units))])
		}
		hyp := true
		kind := "mixed"
		s := txgen.TxSpec{Version: uint32(1 + r.Intn(2)), Lock: uint32(r.Intn(3))}
		nin, nout := r.Intn(4), r.Intn(5)
		if nin == 0 && nout == 0 {
			nout = 1
		}
		bad := r.Chance(25)
		for i := 0; i < nin; i++ {
			s.Ins = append(s.Ins, genIn(r, uint64(r.Intn(5000)), bad))
		}
		for i := 0; i < nout; i++ {
			s.Outs = append(s.Outs, genOut(r, uint64(r.Intn(3000))))
		}
		if r.Chance(6) { // many identical data outputs across the varint boundary
			o := genOut(r, 1)
			if len(o.Script) > 80 { // keep the 252..254-fold repetition small
				o.Script = common.Hex(feegen.Data(r.Intn(2), r.Bytes(r.Intn(4))))
			}
			s.Outs = nil
			cnt := r.Pick([]int{252, 253, 254})
			for i := 0; i < cnt; i++ {
				s.Outs = append(s.Outs, o)
			}
			kind = "many-outs"
		}
		// quotes with huge satoshi / byte fields: bytes x satoshis of the real or of the estimated size lands just below
		// a power of two where a narrower or signed intermediate type gives out (2^31, 2^32, 2^53, 2^63) and, most often,
		// in [2^63, 2^64): the exact product still fits the unsigned 64 bits the fee is computed in, so the floor reading
		// of the property applies in full. The denominators range from 1 to the largest Go int.
		if r.Chance(9) && kind == "mixed" {
			tx := txgen.Build(s)
			z := tx.SizeWithTypes()
			if ez, err := tx.EstimateSizeWithTypes(); err == nil && r.Bool() {
				z = ez
			}
			k := r.Pick([]int{31, 32, 33, 53, 54, 63, 64, 64, 64, 64})
			q = feegen.Quote{Std: bigRate(r, z.TotalStdBytes, k), Data: bigRate(r, z.TotalDataBytes, r.Pick([]int{k, k, 64, 63, 10}))}
			kind, hyp = fmt.Sprintf("big-product/below-2^%d", k), false
		}
		// amount relation against the fee on the real or on the estimated size
		if nin > 0 && q.Complete() {
			tx := txgen.Build(s)
			var std, data uint64
			ok := true
			if r.Bool() {
				z := tx.SizeWithTypes()
				std, data = z.TotalStdBytes, z.TotalDataBytes
			} else if z, err := tx.EstimateSizeWithTypes(); err == nil {
				std, data = z.TotalStdBytes, z.TotalDataBytes
			} else {
				ok = false
			}
			if ok {
				fee := q.Quoted(std, data).Uint64()
				out := feegen.SumOut(s).Uint64()
				rest := uint64(0)
				for _, in := range s.Ins[1:] {
					rest += in.Sats
				}
				target := out + fee
				rel := r.Intn(6)
				switch rel {
				case 0:
					target = out / 2 // outputs exceed inputs
				case 1:
					target = out + fee - 1
				case 2: // exactly the fee
				case 3:
					target = out + fee + 1
				case 4:
					target = out
				default:
					target = out + fee + uint64(r.Intn(100000))
				}
				if target >= rest && fee > 0 {
					s.Ins[0].Sats = target - rest
					kind += fmt.Sprintf("/rel%d", rel)
				}
			}
		}
		switch r.Intn(40) {
		case 0:
			q.Data = nil
			kind, hyp = "missing-data-fee", false
		case 1:
			q.Std = nil
			kind, hyp = "missing-std-fee", false
		case 2:
			q = feegen.Q(5, 0, 5, 100)
			kind, hyp = "zero-denominator", false
		case 3:
			q = feegen.Q(5, 100, 1, 0)
			kind, hyp = "zero-denominator", false
		case 4: // bytes * satoshis wraps
			q = feegen.Q(1<<62, 3, 1<<61+12345, 7)
			kind, hyp = "fee-wrap", false
		case 5: // totals wrap
			if len(s.Ins) > 1 {
				s.Ins[0].Sats, s.Ins[1].Sats = 1<<63+5, 1<<63+77
				kind, hyp = "total-in-wrap", false
			}
		case 6:
			if len(s.Outs) > 1 && len(s.Outs) < 10 {
				s.Outs[0].Sats, s.Outs[1].Sats = 1<<64-1, 2
				kind, hyp = "total-out-wrap", false
			}
		case 9, 10: // outputs within a few satoshis of 2^64, inputs small or huge: outputs + fee wraps, the totals do not
			if len(s.Ins) > 0 && len(s.Outs) > 0 && len(s.Outs) < 10 && q.Complete() && !strings.HasPrefix(kind, "big-product") {
				for i := range s.Outs {
					s.Outs[i].Sats = 0
				}
				for i := range s.Ins {
					s.Ins[i].Sats = 0
				}
				s.Outs[0].Sats = 1<<64 - 1 - uint64(r.Intn(40))
				s.Ins[0].Sats = []uint64{1, 1000, 1<<64 - 1, 1<<64 - 1 - uint64(r.Intn(40))}[r.Intn(4)]
				kind, hyp = "outputs-near-2^64", false
			}
		case 7, 8: // no wrap, but the difference of the totals does not fit a signed 64-bit integer
			if len(s.Ins) > 0 && len(s.Outs) > 0 {
				for i := range s.Ins {
					s.Ins[i].Sats = uint64(r.Intn(2000))
				}
				for i := range s.Outs {
					s.Outs[i].Sats = uint64(r.Intn(2000))
				}
				huge := []uint64{1<<63 + 5000, 1<<63 + 1, 1 << 63, 1<<64 - 70000, 1<<63 - 1}[r.Intn(5)]
				if r.Bool() {
					s.Ins[0].Sats = huge
					kind += "/inputs-exceed-outputs-by-2^63"
				} else {
					s.Outs[0].Sats = huge
					kind += "/outputs-exceed-inputs-by-2^63"
				}
				// the other amounts may push a total past 2^64 after all, or the outputs plus any fee may (the
				// theorems' no-overflow hypothesis bounds outputs + fee; 2^44 is far above any fee generated here)
				margin := new(big.Int).Add(feegen.SumOut(s), new(big.Int).Lsh(big.NewInt(1), 44))
				if feegen.SumIn(s).BitLen() > 64 || margin.BitLen() > 64 {
					kind, hyp = "total-wrap", false
				}
			}
		}
		sizeCase(kind, s, q, hyp)
	}
}

// bigRate: a fee unit whose satoshi field makes n x satoshis a random number of exactly k bits (n x satoshis in
// [2^(k-1), 2^k)) as far as a non-negative Go int allows, over a denominator between 1 and the largest Go int.
func bigRate(r *common.Rand, n uint64, k int) *feegen.Rate {
	maxInt := new(big.Int).SetUint64(1<<63 - 1)
	one := big.NewInt(1)
	if n == 0 {
		n = 1
	}
	nb := new(big.Int).SetUint64(n)
	lo := new(big.Int).Lsh(one, uint(k-1))
	lo.Add(lo, new(big.Int).Sub(nb, one)).Div(lo, nb) // ceil(2^(k-1) / n)
	hi := new(big.Int).Lsh(one, uint(k))
	hi.Sub(hi, one).Div(hi, nb) // floor((2^k - 1) / n)
	if hi.Cmp(maxInt) > 0 {
		hi = maxInt
	}
	if lo.Cmp(hi) > 0 {
		lo = hi
	}
	span := new(big.Int).Sub(hi, lo)
	sat := new(big.Int).Set(lo)
	if span.Sign() > 0 {
		switch r.Intn(4) {
		case 0: // lowest
		case 1:
			sat = hi
		default:
			sat.Add(lo, new(big.Int).Mod(new(big.Int).SetUint64(r.U64()), new(big.Int).Add(span, one)))
		}
	}
	dens := []uint64{1, 2, 3, 7, 100, 1000, 1<<31 - 1, 1 << 31, 1<<32 + 1, 1 << 53, 1 << 56, 1 << 62, 1<<63 - 1, 1 + r.U64()>>uint(2+r.Intn(62))}
	return &feegen.Rate{Sat: int(sat.Int64()), Bytes: int(dens[r.Intn(len(dens))])}
}

// ---------- script classification ----------

func classCase(kind string, sc []byte) {
	s := bscript.NewFromBytes(sc)
	var d, p, i bool
	pan, msg := common.Safely(func() { d, p, i = s.IsData(), s.IsP2PKH(), s.IsP2PKHInscription() })
	if pan {
		c.Tally("class/" + kind + "/panic")
		c.Case("", map[string]interface{}{"kind": "class/" + kind, "script": common.Hex(sc), "panic": msg}, "C"+common.Hex(sc), false)
		return
	}
	if d != feegen.IsData(sc) {
		c.Violate("IsData/prefix", fmt.Sprintf("IsData=%v for %x", d, sc), common.Hex(sc))
	}
	c.Tally(fmt.Sprintf("class/%s/data=%v,p2pkh=%v,insc=%v", kind, d, p, i))
	c.Case(fmt.Sprintf("CClass %s %s %s %s", common.CoqBytes(sc), b2s(d), b2s(p), b2s(i)),
		map[string]interface{}{"kind": "class/" + kind, "script": common.Hex(sc)}, "C"+common.Hex(sc), len(sc) > 0)
}

func genClassCases(r *common.Rand, n int) {
	base := feegen.P2PKH(r.Bytes(20))
	classCase("p2pkh", base)
	for _, pos := range []int{0, 1, 2, 3, 22, 23, 24} {
		b := append([]byte{}, base...)
		b[pos] ^= 0x01
		classCase("p2pkh-mut", b)
	}
	classCase("p2pkh-short", base[:24])
	classCase("p2pkh-long", append(append([]byte{}, base...), 0x00))
	insc := feegen.Inscription(r.Bytes(20), []byte("text/plain"), []byte("hello"))
	classCase("inscription", insc)
	classCase("inscription-opreturn", append(append([]byte{}, insc...), 0x6a, 0x01, 0x02))
	classCase("inscription-trailing", append(append([]byte{}, insc...), 0x51))
	classCase("inscription-empty-type", feegen.Inscription(r.Bytes(20), nil, []byte("x")))
	classCase("inscription-empty-data", feegen.Inscription(r.Bytes(20), []byte("a"), nil))
	for pos := 0; pos < len(insc); pos++ {
		b := append([]byte{}, insc...)
		b[pos] ^= byte(1 << uint(r.Intn(8)))
		classCase("inscription-mut", b)
	}
	for k := 0; k <= len(insc); k += 3 {
		classCase("inscription-trunc", insc[:k])
	}
	for _, sc := range [][]byte{{}, {0x6a}, {0x00}, {0x00, 0x6a}, {0x6a, 0x00}, {0x00, 0x00, 0x6a}, {0x51, 0x6a}, {0x4c}, {0x4d, 0x01}, {0x4e, 0x01, 0x00, 0x00}, {0x4e, 0xff, 0xff, 0xff, 0xff, 0x01}, {0x4b, 0x01}} {
		classCase("edge", sc)
	}
	for k := 0; k < n; k++ {
		switch r.Intn(4) {
		case 0:
			classCase("data", feegen.Data(r.Intn(2), r.Bytes(r.Pick([]int{0, 1, 75, 76, 255, 256}))))
		case 1:
			classCase("random", r.Bytes(r.Intn(40)))
		case 2:
			b := feegen.Inscription(r.Bytes(20), r.Bytes(r.Intn(4)), r.Bytes(r.Intn(80)))
			if r.Bool() {
				b[r.Intn(len(b))] = byte(r.U64())
			}
			classCase("inscription-rand", b)
		default:
			b := feegen.P2PKH(r.Bytes(20))
			b[r.Intn(25)] = byte(r.U64())
			classCase("p2pkh-rand", b)
		}
	}
}

// ---------- DER ----------

func derCase(r, s *big.Int) {
	ser := (&bec.Signature{R: r, S: s}).Serialise()
	c.Tally(fmt.Sprintf("der/len=%d", len(ser)))
	c.Case(fmt.Sprintf("CDer %s %s %s", r, s, common.CoqBytes(ser)), map[string]interface{}{"kind": "der", "r": r.String(), "s": s.String()},
		"D"+r.String()+"/"+s.String(), true)
}

func genDerCases(r *common.Rand, n int) {
	one := big.NewInt(1)
	pow := func(k uint) *big.Int { return new(big.Int).Lsh(one, k) }
	order := bec.S256().N
	half := new(big.Int).Rsh(order, 1)
	rs := []*big.Int{big.NewInt(1), big.NewInt(127), big.NewInt(128), big.NewInt(255), big.NewInt(256), new(big.Int).Sub(pow(248), one), pow(248),
		new(big.Int).Sub(pow(255), one), pow(255), new(big.Int).Sub(pow(256), one), new(big.Int).Sub(order, one)}
	ss := []*big.Int{big.NewInt(1), big.NewInt(127), big.NewInt(128), new(big.Int).Sub(pow(247), one), pow(247), new(big.Int).Sub(pow(248), one), pow(248),
		half, new(big.Int).Add(half, one), new(big.Int).Sub(order, one), new(big.Int).Sub(order, big.NewInt(128))}
	for _, a := range rs {
		for _, b := range ss {
			derCase(a, b)
		}
	}
	for k := 0; k < n; k++ {
		a := new(big.Int).SetBytes(r.Bytes(1 + r.Intn(32)))
		b := new(big.Int).SetBytes(r.Bytes(1 + r.Intn(32)))
		b.Mod(b, order)
		if a.Sign() == 0 || b.Sign() == 0 {
			continue
		}
		derCase(a, b)
	}
}

// ---------- library-signed transactions ----------

type signedTwin struct {
	Kind string       `json:"kind"`
	Tx   txgen.TxSpec `json:"tx"`
	Keys []string     `json:"keys"`
}

// resignCases: FillAllInputs signs EVERY input again, also those that already carry a signature. The estimate
// took the present unlocking script at face value; the new signature (over a different digest when the first
// one used another hash type or the transaction changed in between) can be one or two bytes longer. Stated
// literally ("never smaller than its real size once signed by the library") that is a violation; it is
// reported under its own site. Fixed reproductions plus a seeded sample.
func resignCases(r *common.Rand, n int) {
	ctx := context.Background()
	run := func(name string, key []byte, vouts []uint32, flag sighash.Flag, change bool) {
		priv, pub := bec.PrivKeyFromBytes(bec.S256(), key)
		lock, err := bscript.NewP2PKHFromPubKeyEC(pub)
		if err != nil {
			panic(err)
		}
		tx := bt.NewTx()
		for _, v := range vouts {
			if err := tx.FromUTXOs(&bt.UTXO{TxID: make([]byte, 32), Vout: v, LockingScript: lock, Satoshis: 50000}); err != nil {
				panic(err)
			}
		}
		tx.AddOutput(&bt.Output{Satoshis: 1000, LockingScript: lock})
		if err := tx.FillInput(ctx, &unlocker.Simple{PrivateKey: priv}, bt.UnlockerParams{InputIdx: 0, SigHashFlags: flag}); err != nil {
			panic(err)
		}
		fq := feegen.Q(1, 1, 1, 1).Build()
		if change {
			if err := tx.Change(lock, fq); err != nil {
				panic(err)
			}
		}
		est, err := tx.EstimateSize()
		if err != nil {
			panic(err)
		}
		enoughBefore, _ := tx.EstimateIsFeePaidEnough(fq)
		if err := tx.FillAllInputs(ctx, &unlocker.Getter{PrivateKey: priv}); err != nil {
			panic(err)
		}
		signed := tx.Size()
		enoughAfter, _ := tx.IsFeePaidEnough(fq)
		c.Tally(fmt.Sprintf("resign/%s/est-signed=%d", name, est-signed))
		in := map[string]interface{}{"kind": "resign/" + name, "key": common.Hex(key), "vouts": vouts, "presigned_flag": int(flag), "change": change}
		if est < signed {
			c.Violate("FillAllInputs/re-signed-input-longer-than-estimated", fmt.Sprintf("estimate %d < size %d after FillAllInputs re-signed the pre-signed input (EstimateIsFeePaidEnough %v before, IsFeePaidEnough %v after)", est, signed, enoughBefore, enoughAfter), in)
		}
		c.Case("", in, fmt.Sprintf("resign|%x|%v|%d|%v", key, vouts, flag, change), true)
	}
	one := append(make([]byte, 31), 1)
	run("fixed", one, []uint32{26, 1026}, sighash.NoneForkID, true)
	run("fixed", one, []uint32{3, 1003}, sighash.AllForkID|sighash.AnyOneCanPay, false)
	for k := 0; k < n; k++ {
		run("sampled", r.Bytes(32), []uint32{uint32(r.Intn(2000)), uint32(2000 + r.Intn(2000))},
			[]sighash.Flag{sighash.NoneForkID, sighash.SingleForkID, sighash.AllForkID | sighash.AnyOneCanPay}[r.Intn(3)], r.Bool())
	}
}

func genSignedCases(r *common.Rand, n int) {
	ctx := context.Background()
	order := bec.S256().N
	half := new(big.Int).Rsh(order, 1)
	for k := 0; k < n; k++ {
		nin := 1 + r.Intn(3)
		priv, pub := bec.PrivKeyFromBytes(bec.S256(), r.Bytes(32))
		pk := pub.SerialiseCompressed()
		lock, err := bscript.NewP2PKHFromPubKeyBytes(pk)
		if err != nil {
			panic(err)
		}
		s := txgen.TxSpec{Version: 1, Lock: uint32(r.Intn(2))}
		for i := 0; i < nin; i++ {
			in := feegen.In(r, uint64(1000+r.Intn(100000)))
			in.Prev = common.Hex(*lock)
			if r.Chance(20) {
				// an output of an old wallet: paid to the hash of the key's 65-byte uncompressed form (whatever the
				// unlocker then puts into the script, it is what the estimate has to cover)
				in.Prev = common.Hex(feegen.P2PKH(crypto.Hash160(pub.SerialiseUncompressed())))
			} else if r.Chance(15) {
				in.Prev = common.Hex(feegen.Inscription((*lock)[3:23], []byte("text/plain"), r.Bytes(r.Intn(30))))
			}
			s.Ins = append(s.Ins, in)
		}
		for i, no := 0, r.Intn(4); i < no; i++ {
			s.Outs = append(s.Outs, genOut(r, uint64(r.Intn(500))))
		}
		tx := txgen.Build(s)
		kind := "all"
		// partially signed: some inputs are filled before the estimate is taken
		pre := map[int]bool{}
		if nin > 1 && r.Chance(40) {
			kind = "partial"
			for i := 0; i < nin; i++ {
				if r.Bool() {
					pre[i] = true
					if err := tx.FillInput(ctx, &unlocker.Simple{PrivateKey: priv}, bt.UnlockerParams{InputIdx: uint32(i)}); err != nil {
						panic(err)
					}
				}
			}
		}
		// half of the transactions are handed over in extended format first (the normal way a transaction
		// reaches a signer): unsigned inputs then carry an empty, non-nil unlocking script
		if r.Bool() {
			t2, err := bt.NewTxFromBytes(tx.ExtendedBytes())
			if err != nil {
				panic(err)
			}
			tx = t2
			kind += "/decoded"
		}
		start := txgen.FromTx(tx)
		est, err := tx.EstimateSize()
		if err != nil {
			c.Violate("EstimateSize/refuses-supported", err.Error(), start)
			continue
		}
		if kind == "all" && r.Bool() {
			kind = "all-FillAllInputs"
			if err := tx.FillAllInputs(ctx, &unlocker.Getter{PrivateKey: priv}); err != nil {
				panic(err)
			}
		} else {
			for i := 0; i < nin; i++ {
				if !pre[i] {
					if err := tx.FillInput(ctx, &unlocker.Simple{PrivateKey: priv}, bt.UnlockerParams{InputIdx: uint32(i)}); err != nil {
						panic(err)
					}
				}
			}
		}
		signed := tx.Size()
		twin := signedTwin{kind, start, []string{common.Hex(pk)}}
		if est < signed {
			c.Violate("EstimateSize/lt-signed", fmt.Sprintf("estimate %d < signed size %d", est, signed), twin)
		}
		var unlocks, sigs []string
		maxDer := 0
		for i, in := range tx.Inputs {
			u := []byte(*in.UnlockingScript)
			unlocks = append(unlocks, common.CoqBytes(u))
			if pre[i] {
				continue
			}
			parts, err := bscript.DecodeParts(u)
			if err != nil || len(parts) != 2 || len(parts[0]) < 9 {
				c.Violate("Sign/unlocking-script-shape", fmt.Sprintf("input %d: %x", i, u), twin)
				continue
			}
			der := parts[0][:len(parts[0])-1]
			flag := parts[0][len(parts[0])-1]
			sg, err := bec.ParseDERSignature(der, bec.S256())
			if err != nil {
				c.Violate("Sign/der-unparsable", err.Error(), twin)
				continue
			}
			if len(der) > 71 {
				c.Violate("Sign/der-too-long", fmt.Sprintf("%d bytes", len(der)), twin)
			}
			if sg.S.Cmp(half) > 0 || sg.S.Sign() <= 0 || sg.R.Sign() <= 0 || sg.R.BitLen() > 256 {
				c.Violate("Sign/high-s", fmt.Sprintf("r %s s %s", sg.R, sg.S), twin)
			}
			if len(u) > 107 {
				c.Violate("Sign/unlocking-script-too-long", fmt.Sprintf("%d bytes", len(u)), twin)
			}
			if len(der) > maxDer {
				maxDer = len(der)
			}
			sigs = append(sigs, fmt.Sprintf("mkSig %d %s %s %s x%02x", i, sg.R, sg.S, common.CoqBytes(parts[1]), flag))
		}
		c.Tally(fmt.Sprintf("signed/%s/in=%d/maxder=%d/slack=%d", kind, nin, maxDer, est-signed))
		coq := fmt.Sprintf("CSigned %s [%s] [%s] %d %d", txgen.Coq(start), strings.Join(unlocks, "; "), strings.Join(sigs, "; "), est, signed)
		c.Case(coq, twin, "G"+txgen.Coq(start), true)
	}
}

// ---------- the one shape on which Clone (and so every estimate) aborts the process ----------

func handle(line string) string {
	// "A": EstimateSize on the empty transaction whose locktime reads as the extended-format marker
	tx := &bt.Tx{Version: 1, LockTime: 0xef000000}
	n, err := tx.EstimateSize()
	return fmt.Sprintf("returned %d %v", n, err)
}

func abortCase() {
	_, crashed, msgs := common.Isolated([]string{"A"}, 20*time.Second)
	s := txgen.TxSpec{Version: 1, Lock: 0xef000000}
	obs := "OFatal"
	if !crashed[0] {
		obs = "(OOk 10)"
	}
	c.Tally("abort/ambiguous-empty-tx/crashed=" + b2s(crashed[0]))
	z := txgen.Build(s).SizeWithTypes()
	coq := fmt.Sprintf("CSize %s %s false %s 0 0 %s %s (OOk true) %s %s", txgen.Coq(s), feegen.Quotes[0].Coq(),
		feegen.N3(z.TotalBytes, z.TotalStdBytes, z.TotalDataBytes), obs,
		map[bool]string{true: "OFatal", false: "(OOk (10, 10, 0))"}[crashed[0]],
		map[bool]string{true: "OFatal", false: "(OOk true)"}[crashed[0]],
		map[bool]string{true: "OFatal", false: "(OOk (0, 0, 0))"}[crashed[0]])
	c.Case(coq, map[string]interface{}{"kind": "abort", "tx": s, "msg": msgs[0]}, "A", true)
}

func main() {
	c = common.Parse("C11")
	if c.Mode == "child" {
		common.ChildLoop(1000, handle)
		return
	}
	c.SetHeader(header)
	c.PerShard = 60
	c.ShardBytes = 40000
	r := common.NewRand(c.Seed)
	nSize, nClass, nDer, nSigned, nHist := 420, 120, 60, 90, 70
	if c.Thorough() {
		nSize, nClass, nDer, nSigned, nHist = 12000, 3000, 2000, 3000, 3000
	}
	if c.Mode == "search" {
		nSize, nSigned, nHist = nSize*3, nSigned*3, nHist*3
	}
	// fixed shapes first
	p := common.Hex(feegen.P2PKH(feegen.Repeat(0x11, 20)))
	txid := common.Hex(feegen.Repeat(0xab, 32))
	fixed := []txgen.TxSpec{
		{Version: 1},
		{Version: 1, Outs: []txgen.OutSpec{{Sats: 5, Script: "6a"}}},
		{Version: 1, Outs: []txgen.OutSpec{{Sats: 5, Script: "006a"}, {Sats: 1, Script: p}}},
		{Version: 1, Ins: []txgen.InSpec{{Txid: txid, Seq: 0xffffffff, Sats: 1000, Prev: p, UnlockNil: true}}, Outs: []txgen.OutSpec{{Sats: 900, Script: p}}},
		{Version: 1, Ins: []txgen.InSpec{{Txid: txid, Seq: 0xffffffff, Sats: 1000, PrevNil: true, UnlockNil: true}}},
		{Version: 1, Ins: []txgen.InSpec{{Txid: txid, Seq: 0xffffffff, Sats: 1000, Prev: p, UnlockNil: true}, {Txid: txid, Vout: 1, Seq: 0xffffffff, Sats: 1, Prev: "51", UnlockNil: true}, {Txid: txid, Vout: 2, Seq: 0, PrevNil: true, UnlockNil: true}}},
	}
	for _, s := range fixed {
		for _, q := range []feegen.Quote{feegen.Quotes[0], feegen.Quotes[3], feegen.Quotes[5]} {
			sizeCase("fixed", s, q, true)
		}
	}
	genSizeCases(r.Fork(), nSize)
	genClassCases(r.Fork(), nClass)
	genDerCases(r.Fork(), nDer)
	genSignedCases(r.Fork(), nSigned)
	resignCases(r.Fork(), nSigned/2)
	genHistories(r.Fork(), nHist)
	if c.Mode == "gen" {
		abortCase()
	}
	c.Stats.Rule = "size cases: 0..3 inputs (unsigned / signed with 1..253-byte scripts / P2PKH, P2PKH-inscription, nil, empty, mutated or random previous script, the ord envelope behind a non-P2PKH script) x 0..4 outputs or 252..254 identical outputs (P2PKH, OP_RETURN and OP_FALSE OP_RETURN with payloads {0,1,3,75,76,220,255,256,1000,70000}, near-miss prefixes, random) x 9 quotes (1/20..50 sat/byte, unequal std/data; one case in three with arbitrary rates: 1..1000 satoshis per {3,7,10,100,250,999,1000} bytes, standard and data drawn separately) x amount relations {out>in, fee-1, =fee, fee+1, =out, ample} against the real or the estimated size, plus missing fee type, zero denominator, wrapping products and totals, and (one case in eleven) quotes with huge satoshi / byte fields: bytes x satoshis of the real or estimated size a random number just below 2^31, 2^32, 2^33, 2^53, 2^54, 2^63 or (most often) 2^64 over denominators from 1 to the largest Go int (the floor predicates apply whenever the exact products fit 64 bits, whatever the family; beyond, each part is compared with the floor of the product mod 2^64); classification cases: every 1-bit mutation position of a P2PKH-inscription, P2PKH mutations, truncations, push-data edge scripts; DER: 11x11 boundary (r,s) grid + random; signed cases: 1..3 inputs locked to a random key, optionally partially signed first, optionally decoded from the extended format first (unsigned inputs then carry an empty non-nil script), signed by unlocker.Simple / FillAllInputs, (r,s) re-parsed from the script. re-sign cases: input 0 pre-signed with NONE / SINGLE / ALL|ANYONECANPAY, optionally a change output added, then FillAllInputs (which signs every input again) — two fixed reproductions and a seeded sample. quote histories: 5..20 operations over a pool of up to 4 FeeQuote objects handed out by NewFeeQuote / NewFeeQuotes(m).Quote(m) / AddMinerWithDefault(m).Quote(m) - AddQuote / UpdateMinerFees with a new Fee or nil, rates edited in place through quote.Fee(t) / FeeQuotes.Fee(m, t) (mining and relay), the Fee object of one quote registered in another one by the caller, fees computed in between - on a small unsigned transaction whose input amount sits at the fee due under the default quote; after EVERY step every quote of the pool (older and newer ones) is read back (Fee(t) rates), asked for EstimateFeesPaid / IsFeePaidEnough / EstimateIsFeePaidEnough and compared with the harness's own heap picture and with its previous answer when untouched; returned *TxFees / *TxSize are scribbled over after use; one history in four is the shape default quotes A, B / edit A in place / default quote C. distinct = distinct (tx, quote) / script / (r,s); non-trivial = transactions with at least one input or output, non-empty scripts, all signed cases"
	c.Finish()
}
