// Quote histories: the fee computed from a quote depends on that quote only.
//
// Everything the size cases do is one call on freshly built objects. Here a HISTORY of operations runs over a
// small pool of FeeQuote objects the library hands out (NewFeeQuote, NewFeeQuotes(m).Quote(m),
// AddMinerWithDefault(m).Quote(m)): rates registered with AddQuote / UpdateMinerFees, rates edited IN PLACE through
// the *Fee a quote hands out (quote.Fee(t).MiningFee = ...), a Fee object of one quote deliberately registered in
// another one (caller-made sharing: the only way two quotes may come to share a rate), fees computed in between.
// The harness keeps its own picture of what every quote says (a heap of rate cells: a new cell exactly where the
// library documents a new Fee, the same cell only where the harness itself shared one) and after EVERY step
// compares every quote of the pool with it, the ones built earlier and the ones built later:
//   - FeeQuote.Fee(t) reads back the rates registered in / edited through THAT quote;
//   - EstimateFeesPaid is the floor fee at those rates, IsFeePaidEnough / EstimateIsFeePaidEnough the comparison;
//   - a quote nobody touched since it was last asked answers what it answered then;
//   - the *TxFees / *TxSize results handed out are scribbled over after use (later answers do not depend on them) or
//     kept (later calls do not change them).
//
// The same history is evaluated on the heap model model/QuoteHeap.v (case CHist of corr/C11.v).
package main

import (
	"fmt"
	"math/big"
	"strings"

	"github.com/libsv/go-bt/v2"

	"verif/harness/common"
	"verif/harness/feegen"
	"verif/harness/txgen"
)

// hop: one step of a history. Q / Q2 index the pool in creation order; Ft / Ft2 are "standard" | "data".
type hop struct {
	Op    string       `json:"op"` // new | add | add-nil | share | edit-mining | edit-relay | fees
	Via   string       `json:"via,omitempty"`
	Q     int          `json:"q"`
	Ft    string       `json:"ft,omitempty"`
	Q2    int          `json:"q2,omitempty"`
	Ft2   string       `json:"ft2,omitempty"`
	Rate  *feegen.Rate `json:"rate,omitempty"`
	Relay *feegen.Rate `json:"relay,omitempty"`
}

type histTwin struct {
	Kind string       `json:"kind"`
	Tx   txgen.TxSpec `json:"tx"`
	Ops  []hop        `json:"ops"`
	At   int          `json:"failed_after_step,omitempty"`
}

// the harness's picture of a Fee object and of a quote
type cell struct{ mining, relay feegen.Rate }
type shadowQuote map[string]*cell // fee type -> cell (nil: the type is registered with a nil Fee)

var feeTypes = []string{"standard", "data"}

func feeUnit(r feegen.Rate) bt.FeeUnit { return bt.FeeUnit{Satoshis: r.Sat, Bytes: r.Bytes} }
func coqRate(r feegen.Rate) string     { return fmt.Sprintf("(mkRate %d %d)", r.Sat, r.Bytes) }
func coqFt(ft string) string           { return b2s(ft == "standard") }

func (h hop) coq() string {
	switch h.Op {
	case "new":
		return "HNew"
	case "add":
		return fmt.Sprintf("HAdd %d %s (Some (%s, %s))", h.Q, coqFt(h.Ft), coqRate(*h.Rate), coqRate(*h.Relay))
	case "add-nil":
		return fmt.Sprintf("HAdd %d %s None", h.Q, coqFt(h.Ft))
	case "share":
		return fmt.Sprintf("HShare %d %s %d %s", h.Q, coqFt(h.Ft), h.Q2, coqFt(h.Ft2))
	case "edit-mining":
		return fmt.Sprintf("HEditMining %d %s %s", h.Q, coqFt(h.Ft), coqRate(*h.Rate))
	case "edit-relay":
		return fmt.Sprintf("HEditRelay %d %s %s", h.Q, coqFt(h.Ft), coqRate(*h.Rate))
	}
	return fmt.Sprintf("HFees %d", h.Q)
}

// what one "fees" step observes (comparable; the Gallina term is made from the same fields)
type feesObs struct {
	fees, enough, estEnough string
}

// runHistory executes ops on real library objects next to the shadow, checks the Go-level predicates after every
// step and returns the observations of the "fees" steps.
func runHistory(kind string, s txgen.TxSpec, ops []hop) []feesObs {
	tx := txgen.Build(s)
	twin := histTwin{Kind: kind, Tx: s, Ops: ops}
	inB, outB := feegen.SumIn(s), feegen.SumOut(s)

	var pool []*bt.FeeQuote
	var shadow []shadowQuote
	var miners *bt.FeeQuotes // one multi-miner book per history; quotes made through it are registered in it
	minerOf := map[int]string{}
	last := map[int]*feesObs{} // answer of a quote when it was last asked, dropped when the harness touches it
	reported := map[string]bool{}
	violate := func(step int, site, what string) {
		if reported[site] {
			return
		}
		reported[site] = true
		t := twin
		t.At = step
		c.Violate(site, what, t)
	}
	// the quotes whose picture changes when the cells / the slots of quote q change
	touch := func(q int, cl *cell) {
		delete(last, q)
		if cl == nil {
			return
		}
		for i, sq := range shadow {
			for _, ft := range feeTypes {
				if sq[ft] == cl {
					delete(last, i)
				}
			}
		}
	}
	var kept *bt.TxFees
	var keptCopy bt.TxFees
	nobs, curStep := 0, 0
	observe := func(q int) feesObs {
		fq := pool[q]
		var est3 *bt.TxSize
		var estFees *bt.TxFees
		var estFeesErr, e1, e2, e3 error
		var enough, estEnough bool
		p0, _ := common.Safely(func() { est3, e1 = tx.EstimateSizeWithTypes() })
		p1, _ := common.Safely(func() { estFees, estFeesErr = tx.EstimateFeesPaid(fq) })
		p2, _ := common.Safely(func() { enough, e2 = tx.IsFeePaidEnough(fq) })
		p3, _ := common.Safely(func() { estEnough, e3 = tx.EstimateIsFeePaidEnough(fq) })
		o := feesObs{enough: feegen.Obs(p2, e2, b2s(enough)), estEnough: feegen.Obs(p3, e3, b2s(estEnough))}
		if p1 || estFeesErr != nil {
			o.fees = feegen.Obs(p1, estFeesErr, "")
		} else {
			o.fees = feegen.Obs(false, nil, feegen.N3(estFees.TotalFeePaid, estFees.StdFeePaid, estFees.DataFeePaid))
		}
		_ = p0
		_ = e1
		// the results handed out belong to the caller: a later call must not change one it still holds, and whatever
		// it does with one must not come back (every other result is kept untouched, the others are scribbled over)
		if kept != nil && *kept != keptCopy {
			violate(curStep, "EstimateFeesPaid/earlier-result-changed-by-a-later-call", fmt.Sprintf("the *TxFees returned earlier held %+v, after further calls it holds %+v", keptCopy, *kept))
		}
		nobs++
		if estFees != nil && nobs%2 == 0 {
			kept, keptCopy = estFees, *estFees
		} else if estFees != nil && estFees != kept {
			estFees.TotalFeePaid, estFees.StdFeePaid, estFees.DataFeePaid = 1<<64-1, 1<<63, 12345
		}
		if est3 != nil {
			est3.TotalBytes, est3.TotalStdBytes, est3.TotalDataBytes = 1, 1<<40, 1<<41
		}
		return o
	}
	// every quote of the pool against the harness's picture
	checkAll := func(step int) {
		sz := tx.SizeWithTypes()
		est, estErr := tx.EstimateSizeWithTypes()
		for q, fq := range pool {
			sq := shadow[q]
			complete := true
			for _, ft := range feeTypes {
				var f *bt.Fee
				var err error
				if p, _ := common.Safely(func() { f, err = fq.Fee(bt.FeeType(ft)) }); p {
					violate(step, "FeeQuote.Fee/panic", fmt.Sprintf("quote %d, fee type %s", q, ft))
					complete = false
					continue
				}
				cl := sq[ft]
				if cl == nil {
					complete = false
					if err == nil {
						violate(step, "FeeQuote.Fee/rates-differ-from-what-the-quote-was-given", fmt.Sprintf("quote %d has no %s fee (nil registered), Fee returned %+v", q, ft, *f))
					}
					continue
				}
				if err != nil || f == nil {
					violate(step, "FeeQuote.Fee/rates-differ-from-what-the-quote-was-given", fmt.Sprintf("quote %d: %s fee %+v registered, Fee returned error %v", q, ft, *cl, err))
					complete = false
					continue
				}
				if f.MiningFee != feeUnit(cl.mining) || f.RelayFee != feeUnit(cl.relay) {
					violate(step, "FeeQuote.Fee/rates-differ-from-what-the-quote-was-given", fmt.Sprintf("quote %d (never given anything else): %s mining fee %+v relay fee %+v were registered in / edited through this quote, Fee returns mining %+v relay %+v", q, ft, cl.mining, cl.relay, f.MiningFee, f.RelayFee))
				}
				if cl.mining.Bytes <= 0 || cl.mining.Sat < 0 {
					complete = false
				}
			}
			o := observe(q)
			if prev := last[q]; prev != nil && *prev != o {
				violate(step, "FeeQuote/answers-change-without-the-quote-being-touched", fmt.Sprintf("quote %d answered fees %s enough %s estimate-enough %s; nothing was done to it or to a Fee object it holds since, now fees %s enough %s estimate-enough %s", q, prev.fees, prev.enough, prev.estEnough, o.fees, o.enough, o.estEnough))
			}
			last[q] = &o
			if !complete {
				continue
			}
			sh := feegen.Quote{Std: &sq["standard"].mining, Data: &sq["data"].mining}
			if estErr == nil {
				quoted := sh.Quoted(est.TotalStdBytes, est.TotalDataBytes)
				fs := floorOf(est.TotalStdBytes, sh.Std)
				fd := floorOf(est.TotalDataBytes, sh.Data)
				if quoted.Cmp(feegen.Two64) < 0 && product(est.TotalStdBytes, sh.Std).Cmp(feegen.Two64) < 0 && product(est.TotalDataBytes, sh.Data).Cmp(feegen.Two64) < 0 {
					if want := feegen.Obs(false, nil, feegen.N3(quoted.Uint64(), fs.Uint64(), fd.Uint64())); o.fees != want {
						violate(step, "EstimateFeesPaid/quote-history", fmt.Sprintf("quote %d says %d/%d standard and %d/%d data (satoshis/bytes); the estimated size is %d standard + %d data bytes: floor fees (total, standard, data) %s, observed %s", q, sh.Std.Sat, sh.Std.Bytes, sh.Data.Sat, sh.Data.Bytes, est.TotalStdBytes, est.TotalDataBytes, want, o.fees))
					}
					want := outB.Cmp(inB) <= 0 && new(big.Int).Sub(inB, outB).Cmp(quoted) >= 0
					if o.estEnough != feegen.Obs(false, nil, b2s(want)) {
						violate(step, "EstimateIsFeePaidEnough/quote-history", fmt.Sprintf("quote %d says %d/%d standard and %d/%d data: fee due %s on the estimated size, inputs %s outputs %s, want %v, observed %s", q, sh.Std.Sat, sh.Std.Bytes, sh.Data.Sat, sh.Data.Bytes, quoted, inB, outB, want, o.estEnough))
					}
				}
			}
			quoted := sh.Quoted(sz.TotalStdBytes, sz.TotalDataBytes)
			if quoted.Cmp(feegen.Two64) < 0 && product(sz.TotalStdBytes, sh.Std).Cmp(feegen.Two64) < 0 && product(sz.TotalDataBytes, sh.Data).Cmp(feegen.Two64) < 0 {
				want := outB.Cmp(inB) <= 0 && new(big.Int).Sub(inB, outB).Cmp(quoted) >= 0
				if o.enough != feegen.Obs(false, nil, b2s(want)) {
					violate(step, "IsFeePaidEnough/quote-history", fmt.Sprintf("quote %d says %d/%d standard and %d/%d data: fee due %s on the present size, inputs %s outputs %s, want %v, observed %s", q, sh.Std.Sat, sh.Std.Bytes, sh.Data.Sat, sh.Data.Bytes, quoted, inB, outB, want, o.enough))
				}
			}
		}
	}

	var out []feesObs
	for step, h := range ops {
		curStep = step
		switch h.Op {
		case "new":
			var fq *bt.FeeQuote
			name := fmt.Sprintf("miner%d", len(pool))
			switch h.Via {
			case "NewFeeQuotes":
				book := bt.NewFeeQuotes(name)
				fq, _ = book.Quote(name)
				if miners == nil {
					miners = book
					minerOf[len(pool)] = name
				}
			case "AddMinerWithDefault":
				if miners == nil {
					miners = bt.NewFeeQuotes("miner-of-the-book")
				}
				fq, _ = miners.AddMinerWithDefault(name).Quote(name)
				minerOf[len(pool)] = name
			default:
				fq = bt.NewFeeQuote()
			}
			pool = append(pool, fq)
			// documented defaults: 5 satoshis per 100 bytes, mining and relay, standard and data, of its own
			shadow = append(shadow, shadowQuote{"standard": &cell{feegen.Rate{Sat: 5, Bytes: 100}, feegen.Rate{Sat: 5, Bytes: 100}},
				"data": &cell{feegen.Rate{Sat: 5, Bytes: 100}, feegen.Rate{Sat: 5, Bytes: 100}}})
		case "add":
			f := &bt.Fee{FeeType: bt.FeeType(h.Ft), MiningFee: feeUnit(*h.Rate), RelayFee: feeUnit(*h.Relay)}
			if m, ok := minerOf[h.Q]; ok && h.Via == "UpdateMinerFees" {
				if _, err := miners.UpdateMinerFees(m, bt.FeeType(h.Ft), f); err != nil {
					panic(err)
				}
			} else {
				pool[h.Q].AddQuote(bt.FeeType(h.Ft), f)
			}
			touch(h.Q, shadow[h.Q][h.Ft])
			shadow[h.Q][h.Ft] = &cell{*h.Rate, *h.Relay}
			touch(h.Q, nil)
		case "add-nil":
			pool[h.Q].AddQuote(bt.FeeType(h.Ft), nil)
			shadow[h.Q][h.Ft] = nil
			touch(h.Q, nil)
		case "share":
			// the caller itself registers the Fee object of (Q2, Ft2) under (Q, Ft); nothing happens when Q2 has none
			if f, err := pool[h.Q2].Fee(bt.FeeType(h.Ft2)); err == nil {
				pool[h.Q].AddQuote(bt.FeeType(h.Ft), f)
			}
			if cl := shadow[h.Q2][h.Ft2]; cl != nil {
				shadow[h.Q][h.Ft] = cl
			}
			touch(h.Q, nil)
		case "edit-mining", "edit-relay":
			f, err := pool[h.Q].Fee(bt.FeeType(h.Ft))
			if m, ok := minerOf[h.Q]; ok && h.Via == "FeeQuotes.Fee" {
				f, err = miners.Fee(m, bt.FeeType(h.Ft))
			}
			if err == nil {
				if h.Op == "edit-mining" {
					f.MiningFee = feeUnit(*h.Rate)
				} else {
					f.RelayFee = feeUnit(*h.Rate)
				}
			}
			if cl := shadow[h.Q][h.Ft]; cl != nil {
				if h.Op == "edit-mining" {
					cl.mining = *h.Rate
					touch(h.Q, cl)
				} else {
					cl.relay = *h.Rate // plays no part in any fee: nobody's answers may change
				}
			}
		case "fees":
			out = append(out, observe(h.Q))
		}
		checkAll(step)
	}
	return out
}

func floorOf(n uint64, r *feegen.Rate) *big.Int {
	return new(big.Int).Div(product(n, r), big.NewInt(int64(r.Bytes)))
}

func histRate(r *common.Rand) *feegen.Rate {
	units := []int{100, 1000, 10, 7, 3, 250, 999, 1}
	rt := &feegen.Rate{Sat: 1 + r.Intn(1000), Bytes: units[r.Intn(len(units))]}
	switch r.Intn(40) {
	case 0:
		rt.Bytes = 0 // integer division by zero when a fee is computed from it
	case 1:
		rt.Sat = 0
	case 2:
		rt.Sat, rt.Bytes = 5, 100 // the default again
	}
	return rt
}

// histTx: a small unsigned P2PKH transaction with a data output, the input amount at the fee due under the default
// quote (on the estimated or on the present size) or one satoshi next to it, so that the predicates sit at their
// boundary for an untouched default quote.
func histTx(r *common.Rand) txgen.TxSpec {
	s := txgen.TxSpec{Version: 1, Lock: uint32(r.Intn(2))}
	for i, n := 0, 1+r.Intn(2); i < n; i++ {
		s.Ins = append(s.Ins, feegen.InCheap(r, uint64(r.Intn(3000))))
	}
	for i, n := 0, 1+r.Intn(2); i < n; i++ {
		s.Outs = append(s.Outs, txgen.OutSpec{Sats: uint64(r.Intn(3000)), Script: common.Hex(feegen.P2PKH(feegen.Fill(r, 20)))})
	}
	if r.Chance(80) {
		s.Outs = append(s.Outs, txgen.OutSpec{Sats: uint64(r.Intn(2)), Script: common.Hex(feegen.Data(r.Intn(2), feegen.Repeat(byte(r.U64()), r.Pick([]int{0, 3, 76, 200, 220, 700}))))})
	}
	tx := txgen.Build(s)
	z := tx.SizeWithTypes()
	if ez, err := tx.EstimateSizeWithTypes(); err == nil && r.Chance(70) {
		z = ez
	}
	due := feegen.Quotes[0].Quoted(z.TotalStdBytes, z.TotalDataBytes).Uint64()
	rest := uint64(0)
	for _, in := range s.Ins[1:] {
		rest += in.Sats
	}
	target := feegen.SumOut(s).Uint64() + due + []uint64{0, 0, 1, 2, 1000}[r.Intn(5)] - 1
	if target >= rest {
		s.Ins[0].Sats = target - rest
	}
	return s
}

func genHistories(r *common.Rand, n int) {
	for k := 0; k < n; k++ {
		s := histTx(r)
		var ops []hop
		nq := 0
		// the harness-side view needed to generate meaningful steps: which slots hold a Fee
		var has []map[string]bool
		via := map[int]bool{}
		add := func(h hop) { ops = append(ops, h) }
		newQuote := func() {
			v := []string{"NewFeeQuote", "NewFeeQuote", "NewFeeQuotes", "AddMinerWithDefault"}[r.Intn(4)]
			add(hop{Op: "new", Via: v, Q: nq})
			via[nq] = v != "NewFeeQuote"
			has = append(has, map[string]bool{"standard": true, "data": true})
			nq++
		}
		ft := func() string { return feeTypes[r.Intn(2)] }
		editMining := func(q int) {
			h := hop{Op: "edit-mining", Q: q, Ft: ft(), Rate: histRate(r)}
			if via[q] && r.Bool() {
				h.Via = "FeeQuotes.Fee"
			}
			add(h)
		}
		kind := "random"
		switch r.Intn(4) {
		case 0:
			// default-built quotes only, rates edited in place: an older and a newer quote next to the edited one
			kind = "defaults-edited-in-place"
			newQuote()
			newQuote()
			if r.Bool() {
				add(hop{Op: "fees", Q: 1})
			}
			for i, m := 0, 1+r.Intn(3); i < m; i++ {
				editMining(r.Intn(2))
			}
			newQuote()
			for q := 0; q < nq; q++ {
				add(hop{Op: "fees", Q: q})
			}
			if r.Bool() {
				editMining(2)
				newQuote()
			}
		default:
			newQuote()
			for i, m := 0, 4+r.Intn(10); i < m; i++ {
				q := r.Intn(nq)
				switch x := r.Intn(100); {
				case x < 18 && nq < 4:
					newQuote()
				case x < 30:
					h := hop{Op: "add", Q: q, Ft: ft(), Rate: histRate(r), Relay: histRate(r)}
					if via[q] && r.Bool() {
						h.Via = "UpdateMinerFees"
					}
					add(h)
					has[q][h.Ft] = true
				case x < 33:
					h := hop{Op: "add-nil", Q: q, Ft: ft()}
					add(h)
					has[q][h.Ft] = false
				case x < 42:
					h := hop{Op: "share", Q: q, Ft: ft(), Q2: r.Intn(nq), Ft2: ft()}
					add(h)
					if has[h.Q2][h.Ft2] {
						has[q][h.Ft] = true
					}
					kind = "random/with-caller-made-sharing"
				case x < 68:
					editMining(q)
				case x < 78:
					add(hop{Op: "edit-relay", Q: q, Ft: ft(), Rate: histRate(r)})
				default:
					add(hop{Op: "fees", Q: q})
				}
			}
		}
		for q := 0; q < nq; q++ {
			add(hop{Op: "fees", Q: q})
		}
		obs := runHistory(kind, s, ops)
		var opsCoq, obsCoq []string
		for _, h := range ops {
			opsCoq = append(opsCoq, h.coq())
		}
		for _, o := range obs {
			obsCoq = append(obsCoq, fmt.Sprintf("(%s, %s, %s)", o.fees, o.enough, o.estEnough))
		}
		c.Tally(fmt.Sprintf("history/%s/quotes=%d", kind, nq))
		coq := fmt.Sprintf("CHist %s [%s] [%s]", feegen.CoqTx(s), strings.Join(opsCoq, "; "), strings.Join(obsCoq, "; "))
		c.Case(coq, histTwin{Kind: "history/" + kind, Tx: s, Ops: ops}, "H"+coq, true)
	}
}
