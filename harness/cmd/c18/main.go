// c18: thread-safety of FeeQuote/FeeQuotes and of a shared script engine.
//
// The driver builds this command without -race, so it (1) builds cmd/c18race with `go build -race`
// (cached under GOCACHE), (2) runs the two workloads in child processes with the race detector's
// reports going to a log file, (3) turns race reports / process-fatal map errors / reads of values
// nobody stored / verdict differences into violations, and (4) writes the Coq cases: the lock table
// and the package-variable scan re-extracted from the checkout this harness was built against (the
// model's checker must accept them, and "accepted => no race observed" must hold), the observed
// histories (every read is initial or stored) and the concurrent-vs-sequential verdicts.
package main

import (
	"encoding/json"
	"fmt"
	"os"
	"os/exec"
	"path/filepath"
	"regexp"
	"strings"
	"time"

	"verif/harness/common"
	"verif/harness/gen"
)

var c *common.Ctx

const header = `From Coq Require Import List NArith String Bool.
From GoBT Require Import model.Locks corr.C18.
Import ListNotations. Local Open Scope N_scope. Local Open Scope string_scope.
`

type KV struct {
	K string `json:"k"`
	V uint64 `json:"v"`
}
type History struct {
	Seed       uint64   `json:"seed"`
	Goroutines int      `json:"goroutines"`
	Procs      int      `json:"gomaxprocs"`
	Ops        int      `json:"ops"`
	OpKinds    []string `json:"op_kinds"`
	Init       []KV     `json:"init"`
	Stored     []KV     `json:"stored"`
	Reads      []KV     `json:"reads"`
	Rejected   []KV     `json:"rejected,omitempty"`
	Bad        []string `json:"bad,omitempty"`
	Race       string   `json:"race,omitempty"`
	Deadlock   bool     `json:"deadlock,omitempty"`
}
type EngineRound struct {
	Seed         uint64   `json:"seed"`
	Goroutines   int      `json:"goroutines"`
	Procs        int      `json:"gomaxprocs"`
	Jobs         int      `json:"jobs"`
	Kinds        []string `json:"kinds"`
	Concurrent   []bool   `json:"concurrent"`
	Sequential   []bool   `json:"sequential"`
	Race         string   `json:"race,omitempty"`
	Deadlock     bool     `json:"deadlock,omitempty"`
	Bad          []string `json:"bad,omitempty"`
	Index        int      `json:"index"`
	Shared       int      `json:"shared_script_objects"`
	Differs      []string `json:"differs,omitempty"`
	Validations  int64    `json:"validations,omitempty"`
	OptionValues int      `json:"shared_option_values,omitempty"`
}
type Probe struct {
	Kind  string `json:"kind"`
	Input string `json:"input"`
	Fault string `json:"fault"`
}
type ProbeResult struct {
	Programs       int            `json:"programs"`
	Accepted       int            `json:"accepted"`
	ByFamily       map[string]int `json:"by_family"`
	Faults         []Probe        `json:"faults,omitempty"`
	FaultCount     int            `json:"fault_count"`
	FaultsByFamily map[string]int `json:"faults_by_family,omitempty"`
}
type Result struct {
	Histories []History     `json:"histories,omitempty"`
	Rounds    []EngineRound `json:"rounds,omitempty"`
	Probe     *ProbeResult  `json:"probe,omitempty"`
	PoolNote  string        `json:"pool_note,omitempty"`
	RaceBuild bool          `json:"race_build"`
}

// harnessDir: the harness module this binary was built from. The driver builds into <root>/work/bin
// (module at <root>/harness) or, with VERIF_REPO, into <root>/work/alt_x/bin (module copy next to it).
func harnessDir() string {
	exe, err := os.Executable()
	if err == nil {
		d := filepath.Dir(exe)
		for _, cand := range []string{filepath.Join(d, "..", "harness"), filepath.Join(d, "..", "..", "harness")} {
			if _, err := os.Stat(filepath.Join(cand, "go.mod")); err == nil {
				abs, _ := filepath.Abs(cand)
				return abs
			}
		}
	}
	if d := os.Getenv("VERIF_HARNESS"); d != "" {
		return d
	}
	return "/verif/harness"
}

// repoDir: what the harness module's go.mod replaces go-bt with.
func repoDir(hd string) string {
	b, err := os.ReadFile(filepath.Join(hd, "go.mod"))
	if err == nil {
		if m := regexp.MustCompile(`(?m)^replace\s+github\.com/libsv/go-bt/v2\s+=>\s+(\S+)`).FindSubmatch(b); m != nil {
			return string(m[1])
		}
	}
	return "/repo"
}

func goEnv(hd string) []string {
	env := os.Environ()
	set := func(k, v string) {
		for i, e := range env {
			if strings.HasPrefix(e, k+"=") {
				env[i] = k + "=" + v
				return
			}
		}
		env = append(env, k+"="+v)
	}
	set("GOFLAGS", "-mod=mod")
	set("GOPROXY", "off")
	set("GOSUMDB", "off")
	set("GOTOOLCHAIN", "local")
	set("CGO_ENABLED", "1")
	if os.Getenv("GOCACHE") == "" {
		root := filepath.Dir(hd)
		for !exists(filepath.Join(root, "check")) && root != "/" {
			root = filepath.Dir(root)
		}
		if root == "/" {
			root = "/verif"
		}
		set("GOCACHE", filepath.Join(root, "work", "gocache"))
	}
	return env
}

func exists(p string) bool { _, err := os.Stat(p); return err == nil }

func buildRace(hd, out string) (string, error) {
	bin := filepath.Join(out, "c18race")
	cmd := exec.Command("go", "build", "-race", "-tags", "verif", "-o", bin, "./cmd/c18race")
	cmd.Dir = hd
	cmd.Env = goEnv(hd)
	b, err := cmd.CombinedOutput()
	if err != nil {
		return "", fmt.Errorf("go build -race ./cmd/c18race in %s: %v\n%s", hd, err, b)
	}
	return bin, nil
}

// buildPlain: the same command without the race detector, for the read-only-memory probe (which needs no schedule
// and no detector, and runs several times as many programs in the same time without the instrumentation).
func buildPlain(hd, out string) (string, error) {
	bin := filepath.Join(out, "c18plain")
	cmd := exec.Command("go", "build", "-tags", "verif", "-o", bin, "./cmd/c18race")
	cmd.Dir = hd
	cmd.Env = goEnv(hd)
	b, err := cmd.CombinedOutput()
	if err != nil {
		return "", fmt.Errorf("go build ./cmd/c18race in %s: %v\n%s", hd, err, b)
	}
	return bin, nil
}

type childOut struct {
	res      Result
	crashed  bool
	stderr   string
	progress string
}

// set by main: the checkout (node script vectors) and the tier, handed to every child
var childExtra []string

func runChild(bin, workload string, seed uint64, n int, out string) childOut {
	resFile := filepath.Join(out, "race_"+workload+".json")
	logBase := filepath.Join(out, "racelog_"+workload)
	old, _ := filepath.Glob(logBase + ".*")
	for _, f := range old {
		os.Remove(f)
	}
	os.Remove(resFile)
	cmd := exec.Command(bin, append([]string{"-workload", workload, "-seed", fmt.Sprint(seed), "-n", fmt.Sprint(n), "-result", resFile}, childExtra...)...)
	cmd.Env = append(os.Environ(), "GORACE=halt_on_error=0 exitcode=0 log_path="+logBase)
	var errb strings.Builder
	cmd.Stderr = &errb
	err := cmd.Run()
	var co childOut
	co.stderr = errb.String()
	if p, e := os.ReadFile(resFile + ".progress"); e == nil {
		co.progress = string(p)
	}
	b, rerr := os.ReadFile(resFile)
	if err != nil || rerr != nil || json.Unmarshal(b, &co.res) != nil {
		co.crashed = true
		if co.stderr == "" && err != nil {
			co.stderr = err.Error()
		}
		// whatever the detector managed to log before the crash
		logs, _ := filepath.Glob(logBase + ".*")
		for _, f := range logs {
			if lb, e := os.ReadFile(f); e == nil {
				co.stderr += "\n" + string(lb)
			}
		}
	}
	os.Remove(resFile)
	os.Remove(resFile + ".progress")
	return co
}

var addrRe = regexp.MustCompile(`0x[0-9a-f]{6,}`)

// firstReport: the first race report, shortened, addresses blanked (stable across runs).
func firstReport(s string) string {
	if i := strings.Index(s, "WARNING: DATA RACE"); i >= 0 {
		s = s[i:]
	} else if i := strings.Index(s, "fatal error:"); i >= 0 {
		s = s[i:]
	}
	lines := strings.Split(s, "\n")
	var keep []string
	for _, l := range lines {
		if strings.HasPrefix(l, "Goroutine ") || strings.HasPrefix(l, "==========") && len(keep) > 0 {
			break
		}
		l = strings.TrimRight(addrRe.ReplaceAllString(l, "0x…"), " ")
		if l != "" {
			keep = append(keep, strings.TrimSpace(l))
		}
		if len(keep) >= 24 {
			break
		}
	}
	return strings.Join(keep, " | ")
}

// crashSite: a process-fatal error of the workload: a detected race / concurrent map access, or
// something else the runtime refuses to continue after (unlock of an unlocked mutex, ...).
func crashSite(api, stderr string) string {
	if strings.Contains(stderr, "DATA RACE") || strings.Contains(stderr, "concurrent map") {
		return api + "/data-race"
	}
	return api + "/fatal-error"
}

func coqKVs(kvs []KV) string {
	if len(kvs) == 0 {
		return "[]"
	}
	var sb strings.Builder
	sb.WriteByte('[')
	for i, kv := range kvs {
		if i > 0 {
			sb.WriteByte(';')
		}
		fmt.Fprintf(&sb, "(%s,%d%%N)", common.CoqStr(kv.K), kv.V)
	}
	sb.WriteByte(']')
	return sb.String()
}

func coqBools(bs []bool) string {
	parts := make([]string, len(bs))
	for i, b := range bs {
		parts[i] = common.CoqBool(b)
	}
	return "[" + strings.Join(parts, ";") + "]"
}

// kindFamily: the first two parts of a job kind (contract/num, program/matrix2, p2pkh/valid, ...)
func kindFamily(kind string) string {
	for i, n := 0, 0; i < len(kind); i++ {
		if kind[i] == '/' {
			if n++; n == 2 {
				return kind[:i]
			}
		}
	}
	return kind
}

func bucket(n int) string {
	switch {
	case n <= 2:
		return "2"
	case n <= 4:
		return "3-4"
	case n <= 8:
		return "5-8"
	}
	return "9-16"
}

func main() {
	c = common.Parse("C18")
	c.SetHeader(header)
	c.ShardBytes = 40000
	if c.Out == "" {
		c.Out, _ = os.MkdirTemp("", "c18")
	}
	hd := harnessDir()
	repo := repoDir(hd)
	t0 := time.Now()
	bin, err := buildRace(hd, c.Out)
	if err != nil {
		fmt.Fprintln(os.Stderr, err)
		os.Exit(1)
	}
	plainBin, err := buildPlain(hd, c.Out)
	if err != nil {
		fmt.Fprintln(os.Stderr, err)
		os.Exit(1)
	}
	buildSecs := time.Since(t0).Seconds()
	childExtra = []string{"-repo", repo}
	if c.Thorough() {
		childExtra = append(childExtra, "-thorough")
	}

	nFee, nEng, nCoq, nProbe, nHammer := 150, 8, 32, 400, 8
	if c.Thorough() {
		nFee, nEng, nCoq, nProbe, nHammer = 5000, 300, 200, 20000, 300
	}
	if c.Mode == "search" { // looking for a concrete failing schedule after something stopped checking
		nFee, nEng, nCoq, nProbe, nHammer = 300, 12, 0, 2000, 40
		if c.Thorough() {
			nFee, nEng, nHammer = 1200, 40, 150
		}
	}
	c.Stats.Rule = "FeeQuote/FeeQuotes: seeded randomized concurrent histories run under the Go race detector (2..16 goroutines, GOMAXPROCS in {1,2,4,16}, 8..47 operations per goroutine over AddQuote, Fee, UpdateExpiry, Expiry, Expired, MarshalJSON, UnmarshalJSON (direct and through encoding/json), FeeQuotes.AddMiner, AddMinerWithDefault, Quote, Fee, UpdateMinerFees on 1..3 shared FeeQuote objects that are also reachable, under several miners, through TWO shared FeeQuotes); every written value is unique and self-checking (torn values are recognisable) and a fee is compared as a WHOLE, numbers and FeeType label, with what was stored at the place it is read from; four *Fee values are kept by the callers and stored again and again, in several quotes and under both fee types (an argument object shared between thread-safe objects: it must read afterwards as the caller made it); a seventh of the operations are writes that FAIL (UnmarshalJSON of a document with an unknown fee type next to good entries, of a cut-off document, of an entry of the wrong shape, directly and through encoding/json; UpdateMinerFees with an empty argument): what they carried is recorded as rejected and may never be read; after the mixed phase a single-writer-per-fee-type phase (acknowledged writes are read back, one *Fee stored under both types by the two writers) and a failing-writes-only phase (one stored value per place, writers whose calls all fail next to readers: every read returns that value); a history is distinct by its seed and non-trivial when at least one read returned a value written by another operation of the history. Engine: rounds of 2..16 goroutines sharing one interpreter.Engine, every transaction (signed P2PKH with 1..3 inputs incl. bad-signature, wrong-amount and legacy SIGHASH_SINGLE variants; script-only pairs) validated by exactly one goroutine, verdicts compared with the sequential ones; in every round about fifty locking script OBJECTS are named by several different transactions (validated by different goroutines): seven contracts per round out of a catalogue of 52 (walked through round after round) whose constants of 2..2049 bytes are read by one opcode family each (binary / unary arithmetic, comparisons, OP_WITHIN, OP_BIN2NUM / OP_NUM2BIN, index / position / size / shift-distance operands, CHECKLOCKTIMEVERIFY / CHECKSEQUENCEVERIFY, splice / bitwise / shift opcodes on byte strings, the five hash opcodes, conditionals, stack movers), every spender bringing its own operand and the result it expects (a third of them a wrong one), forty programs of the interpreter generators (opcode x edge-operand matrix, arithmetic edges, script boundaries, grammar-generated programs, P2SH, conditionals, the node's script vectors, OP_RETURN with tails of 0/1/2/more bytes) each over a locking script object shared by two transactions, signed P2PKH + OP_RETURN + payload outputs, and a bare 2-of-3 multisig script object; the script objects are compared with their bytes before the round. Option VALUES: every round builds each flag-carrying option once (one WithFlags value per flag word, one WithAfterGenesis / WithForkID / WithP2SH / WithDebugger value) and all signed jobs and fourteen flag twins take their options out of that bank, in different combinations and orders: a flag twin is a program whose verdict changes with one flag b (found by running it under its word with every single flag flipped: 24 programs made for one flag each, node vectors, P2SH, OP_RETURN tails, generated programs), validated under the word with b and the word without b, the common part cut into the same shared values, every job twice, script-only twins over ONE WithScripts value; the expected verdict is the sequential one under options built for that run alone (fresh context option, one fresh WithFlags). Hammer rounds (built without the race detector): the jobs without curve arithmetic of such a round (six contracts, twenty-four shared programs, OP_RETURN tails incl. <non-key> CHECKSIG NOT OP_RETURN <tail>, whose OP_CHECKSIG puts the whole script together again, sixteen flag twins over shared option values), every transaction owned by one of 4/8/16 goroutines, validated over and over for 200 ms, every verdict compared with the sequential one. Read-only probe (no schedule involved): the same families, enumerated (every contract template at every constant length of its era), executed with every script of the transaction and of the spent output stored in read-only pages: a write into a script the engine was handed, even one that is undone afterwards, is a memory fault. Plus the lock table (with the flags of the paths on which a call may report failure: they must store nothing) and the package-variable scan re-extracted from the checkout and judged by the Coq checkers."

	// ---- the tables, re-extracted from the checkout this binary is built against
	feeRaces, engRaces := 0, 0
	feeFirst, engFirst := "", ""

	// ---- workload 1: fee quotes
	fee := runChild(bin, "fee", c.Seed, nFee, c.Out)
	if fee.crashed {
		c.Violate(crashSite("FeeQuote", fee.stderr), "the race-instrumented workload died: "+firstReport(fee.stderr), map[string]interface{}{"at": fee.progress, "seed": c.Seed, "workload": "fee"})
		feeRaces++
		feeFirst = firstReport(fee.stderr)
	} else if !fee.res.RaceBuild {
		fmt.Fprintln(os.Stderr, "c18race was not built with -race")
		os.Exit(1)
	}
	totalOps, rejectedTotal := 0, 0
	for i, h := range fee.res.Histories {
		totalOps += h.Ops
		c.Tally("fee/goroutines=" + bucket(h.Goroutines))
		c.Tally(fmt.Sprintf("fee/gomaxprocs=%d", h.Procs))
		for _, k := range h.OpKinds {
			c.Tally("fee/histories-with/" + k)
		}
		input := map[string]interface{}{"workload": "fee", "history_seed": h.Seed, "goroutines": h.Goroutines, "gomaxprocs": h.Procs, "run_seed": c.Seed}
		if h.Race != "" {
			feeRaces++
			if feeFirst == "" {
				feeFirst = firstReport(h.Race)
			}
			c.Violate("FeeQuote/data-race", firstReport(h.Race), input)
		}
		if h.Deadlock {
			c.Violate("FeeQuote/deadlock", "goroutines did not finish within 30s", input)
		}
		for _, b := range h.Bad {
			// the first one (the workload lists those that name their cause first)
			switch {
			case strings.HasPrefix(b, "[failed-write] "):
				c.Violate("FeeQuote/failed-write-visible", strings.TrimPrefix(b, "[failed-write] "), input)
			case strings.HasPrefix(b, "[argument] "):
				c.Violate("FeeQuote/stored-argument-changed", strings.TrimPrefix(b, "[argument] "), input)
			default:
				c.Violate("FeeQuote/read-not-written", b, input)
			}
			break
		}
		// the Coq case: only the stored entries of locations that were read
		readKeys := map[string]bool{}
		for _, r := range h.Reads {
			readKeys[r.K] = true
		}
		var init, stored []KV
		initVal := map[string]uint64{}
		for _, kv := range h.Init {
			initVal[kv.K] = kv.V
			if readKeys[kv.K] {
				init = append(init, kv)
			}
		}
		nontrivial := false
		for _, r := range h.Reads {
			if iv, ok := initVal[r.K]; !ok || iv != r.V {
				nontrivial = true
			}
		}
		for _, kv := range h.Stored {
			if readKeys[kv.K] {
				stored = append(stored, kv)
			}
		}
		// what calls that returned an error carried, for the locations that were read (at most 40 of them per history go
		// into the Coq case; the Go predicate has looked at all)
		var rejected []KV
		for _, kv := range h.Rejected {
			if readKeys[kv.K] && len(rejected) < 40 {
				rejected = append(rejected, kv)
			}
		}
		rejectedTotal += len(h.Rejected)
		coq := ""
		if i < nCoq {
			coq = fmt.Sprintf("CHistoryR %s %s %s %s", coqKVs(init), coqKVs(stored), coqKVs(rejected), coqKVs(h.Reads))
		}
		twin := map[string]interface{}{"kind": "fee-history", "seed": h.Seed, "goroutines": h.Goroutines, "gomaxprocs": h.Procs, "ops": h.Ops, "distinct_reads": len(h.Reads), "race": h.Race != ""}
		c.Case(coq, twin, fmt.Sprintf("fee/%d", h.Seed), nontrivial && h.Goroutines >= 2)
	}

	// ---- workload 2: one engine, distinct transactions
	eng := runChild(bin, "engine", c.Seed, nEng, c.Out)
	if eng.crashed {
		c.Violate(crashSite("Engine.Execute", eng.stderr), "the race-instrumented workload died: "+firstReport(eng.stderr), map[string]interface{}{"at": eng.progress, "seed": c.Seed, "workload": "engine"})
		engRaces++
		engFirst = firstReport(eng.stderr)
	}
	jobs, accepted, sharedObjs, sharedOpts := 0, 0, 0, 0
	var hammered int64
	handleRound := func(workload string, e EngineRound) {
		jobs += e.Jobs
		hammered += e.Validations
		c.Tally(workload + "/goroutines=" + bucket(e.Goroutines))
		c.Tally(fmt.Sprintf("%s/gomaxprocs=%d", workload, e.Procs))
		for _, k := range e.Kinds {
			c.Tally(workload + "/rounds-with/" + kindFamily(k))
		}
		input := map[string]interface{}{"workload": workload, "round_seed": e.Seed, "round": e.Index, "goroutines": e.Goroutines, "gomaxprocs": e.Procs, "jobs": e.Jobs, "run_seed": c.Seed}
		if e.Race != "" {
			engRaces++
			if engFirst == "" {
				engFirst = firstReport(e.Race)
			}
			c.Violate("Engine.Execute/data-race", firstReport(e.Race), input)
		}
		if e.Deadlock {
			c.Violate("Engine.Execute/deadlock", "goroutines did not finish within 60s", input)
		}
		sharedObjs += e.Shared
		sharedOpts += e.OptionValues
		for _, b := range e.Bad {
			c.Violate("Engine.Execute/shared-script-object-changed", b, input)
		}
		mixed := false
		for i := range e.Sequential {
			if e.Sequential[i] {
				accepted++
			}
			if i < len(e.Concurrent) && e.Concurrent[i] != e.Sequential[i] {
				in2 := map[string]interface{}{"job": i}
				for k, v := range input {
					in2[k] = v
				}
				input = in2
				what := fmt.Sprintf("job %d: concurrent verdict %v, sequential verdict %v", i, e.Concurrent[i], e.Sequential[i])
				if len(e.Differs) > 0 {
					what = e.Differs[0]
					input["differing_jobs"] = e.Differs
				}
				c.Violate("Engine.Execute/verdict-differs", what, input)
				break
			}
			if i > 0 && e.Sequential[i] != e.Sequential[0] {
				mixed = true
			}
		}
		twin := map[string]interface{}{"kind": workload + "-round", "seed": e.Seed, "goroutines": e.Goroutines, "gomaxprocs": e.Procs, "jobs": e.Jobs, "job_kinds": len(e.Kinds), "script_objects_named_by_several_transactions": e.Shared, "option_values_shared_by_several_jobs": e.OptionValues, "race": e.Race != ""}
		if e.Validations > 0 {
			twin["validations"] = e.Validations
		}
		c.Case(fmt.Sprintf("CEngine %s %s", coqBools(e.Concurrent), coqBools(e.Sequential)), twin, fmt.Sprintf("%s/%d", workload, e.Seed), mixed)
	}
	for _, e := range eng.res.Rounds {
		handleRound("engine", e)
	}

	// ---- the same without the race detector, over and over for a time budget: a race becomes a verdict that differs
	ham := runChild(plainBin, "engine-hammer", c.Seed, nHammer, c.Out)
	if ham.crashed {
		c.Violate(crashSite("Engine.Execute", ham.stderr), "the repeated concurrent validation died: "+firstReport(ham.stderr), map[string]interface{}{"at": ham.progress, "seed": c.Seed, "workload": "engine-hammer"})
		engRaces++
	}
	for _, e := range ham.res.Rounds {
		handleRound("engine-hammer", e)
	}

	// ---- the read-only probe: every script handed to Execute in pages the process may only read (no schedule involved)
	ro := runChild(plainBin, "engine-ro", c.Seed, nProbe, c.Out)
	roPrograms, roFaults := 0, 0
	if ro.crashed || ro.res.Probe == nil {
		c.Violate("Engine.Execute/fatal-error", "the read-only-memory probe died: "+firstReport(ro.stderr), map[string]interface{}{"at": ro.progress, "seed": c.Seed, "workload": "engine-ro"})
		roFaults++
	} else {
		pr := ro.res.Probe
		roPrograms, roFaults = pr.Programs, pr.FaultCount
		for k, v := range pr.ByFamily {
			c.Stats.Distribution["read-only-probe/"+k] += v
		}
		for i, f := range pr.Faults {
			if i >= 6 {
				break // the first programs of six families; the counts per family are in the input
			}
			c.Violate("Engine.Execute/writes-into-a-script-it-was-handed",
				"with the scripts stored in read-only memory the execution faults ("+f.Fault+"): the engine writes into the caller's script, which another transaction's validation may be reading at that moment (an operand popped off the stack is a slice of the script that pushed it)",
				map[string]interface{}{"workload": "engine-ro", "kind": f.Kind, "program": f.Input, "run_seed": c.Seed, "faulting_programs": pr.FaultCount, "faulting_programs_by_family": pr.FaultsByFamily})
		}
		c.Case(fmt.Sprintf("CReadOnly %d %d", pr.Programs, pr.FaultCount),
			map[string]interface{}{"kind": "read-only-probe", "programs": pr.Programs, "accepted": pr.Accepted, "faults": pr.FaultCount, "families": len(pr.ByFamily)},
			"read-only-probe", pr.Accepted > 0 && pr.Accepted < pr.Programs)
	}

	// ---- informational: the inputs of ONE transaction validated from different goroutines
	sameTx := "not run"
	if c.Mode != "search" {
		st := runChild(bin, "engine-sametx", c.Seed, 2, c.Out)
		sameTx = "no race observed"
		if st.crashed {
			sameTx = "crashed: " + firstReport(st.stderr)
		}
		for _, e := range st.res.Rounds {
			if e.Race != "" {
				sameTx = "race observed (outside the property, which is about different transactions): " + firstReport(e.Race)
				break
			}
		}
	}

	// ---- the tables
	tblNote := "ok"
	tbl, terr := gen.LockTable(repo)
	tblTerm := `[("unrecognised", "unrecognised", [])]`
	nMethods := 0
	if terr != nil {
		tblNote = "translator failed on " + repo + ": " + terr.Error()
	} else {
		tblTerm = gen.LocksCoqTerm(tbl, false)
		nMethods = len(tbl.Methods)
	}
	c.Case(fmt.Sprintf("CTable %s %s", tblTerm, common.CoqBool(feeRaces > 0)),
		map[string]interface{}{"kind": "lock-table", "repo": repo, "methods": nMethods, "translator": tblNote, "races_observed": feeRaces},
		"lock-table", terr == nil)
	// the same table with the flags "a call may report failure after exactly these actions": such a path stores nothing
	failsTerm, failing := "[]", 0
	if terr == nil {
		failsTerm = gen.LockFailsCoqTerm(tbl)
		for _, m := range tbl.Methods {
			for _, f := range m.Fails {
				if f {
					failing++
				}
			}
		}
	}
	c.Case(fmt.Sprintf("CFailPaths %s %s", tblTerm, failsTerm),
		map[string]interface{}{"kind": "failing-paths", "repo": repo, "methods": nMethods, "paths_that_may_report_failure": failing, "translator": tblNote},
		"failing-paths", terr == nil && failing > 0)

	glNote := "ok"
	vars, engFields, fresh, gerr := gen.GlobalsTable(repo)
	glTerm := "CGlobals [] [] [] false"
	mutated := []string{}
	if gerr != nil {
		glNote = "translator failed on " + repo + ": " + gerr.Error()
	} else {
		var sb strings.Builder
		sb.WriteString("CGlobals [")
		for i, v := range vars {
			if i > 0 {
				sb.WriteByte(';')
			}
			fmt.Fprintf(&sb, "(%s,%s,%s,%s,%s,%s)", common.CoqStr(v.Pkg), common.CoqStr(v.Name), common.CoqStr(v.Kind), common.CoqBool(v.Mutated), common.CoqBool(v.Escapes), common.CoqStr(v.Where))
			if v.Mutated || v.Escapes {
				mutated = append(mutated, v.Pkg+"."+v.Name+": "+v.Where)
			}
		}
		sb.WriteString("] [")
		for i, f := range engFields {
			if i > 0 {
				sb.WriteByte(';')
			}
			sb.WriteString(common.CoqStr(f))
		}
		sb.WriteString("] [")
		for i, f := range fresh {
			if i > 0 {
				sb.WriteByte(';')
			}
			fmt.Fprintf(&sb, "(%s,%s)", common.CoqStr(f[0]), f[1])
		}
		sb.WriteString("] " + common.CoqBool(engRaces > 0))
		glTerm = sb.String()
	}
	c.Case(glTerm, map[string]interface{}{"kind": "globals", "repo": repo, "variables": len(vars), "engine_fields": engFields, "flagged": mutated, "translator": glNote, "races_observed": engRaces},
		"globals", gerr == nil)

	c.Stats.Extra["race_build_seconds"] = fmt.Sprintf("%.1f", buildSecs)
	c.Stats.Extra["repo"] = repo
	c.Stats.Extra["fee_histories"] = len(fee.res.Histories)
	c.Stats.Extra["fee_operations"] = totalOps
	c.Stats.Extra["fee_histories_in_coq_cases"] = min(nCoq, len(fee.res.Histories))
	c.Stats.Extra["fee_race_reports"] = feeRaces
	c.Stats.Extra["fee_values_carried_by_rejected_calls"] = rejectedTotal
	c.Stats.Extra["engine_option_values_shared_by_several_jobs"] = sharedOpts
	c.Stats.Extra["engine_rounds"] = len(eng.res.Rounds)
	c.Stats.Extra["engine_jobs"] = jobs
	c.Stats.Extra["engine_jobs_accepted_sequentially"] = accepted
	c.Stats.Extra["engine_race_reports"] = engRaces
	c.Stats.Extra["engine_script_objects_named_by_several_transactions"] = sharedObjs
	c.Stats.Extra["engine_hammer_rounds"] = len(ham.res.Rounds)
	c.Stats.Extra["engine_hammer_validations"] = hammered
	c.Stats.Extra["read_only_probe_programs"] = roPrograms
	c.Stats.Extra["read_only_probe_faults"] = roFaults
	if eng.res.PoolNote != "" {
		c.Stats.Extra["engine_program_pool_note"] = eng.res.PoolNote
	}
	c.Stats.Extra["first_fee_race"] = feeFirst
	c.Stats.Extra["first_engine_race"] = engFirst
	c.Stats.Extra["same_tx_inputs_from_different_goroutines"] = sameTx
	c.Stats.Extra["lock_table"] = fmt.Sprintf("%d methods re-extracted from %s (%s); verdict of the Coq checker and 'accepted => no race observed' are case CTable", nMethods, repo, tblNote)
	c.Stats.Extra["globals_flagged"] = mutated
	c.Finish()
}

func min(a, b int) int {
	if a < b {
		return a
	}
	return b
}
