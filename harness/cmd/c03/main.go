// c03: legacy signature hash (CalcInputPreimageLegacy / CalcInputSignatureHash) — see harness/sighash.
package main

import "verif/harness/sighash"

func main() { sighash.Run("C03", true) }
