// c01: transaction wire codec — cases for the Coq model plus Go-level round-trip predicates.
package main

import (
	"bufio"
	"bytes"
	"crypto/sha256"
	"encoding/binary"
	"encoding/json"
	"fmt"
	"io"
	"os"
	"reflect"
	"strings"
	"testing/iotest"
	"time"

	"github.com/libsv/go-bt/v2"

	"verif/harness/common"
	"verif/harness/txgen"
)

var c *common.Ctx

const header = `From Coq Require Import List NArith String.
From Coq Require Import Strings.Byte.
From GoBT Require Import lib.Bytes lib.Hex model.Tx corr.C01.
Import ListNotations. Local Open Scope N_scope. Local Open Scope string_scope.
`

func strip(s txgen.TxSpec, ext bool) txgen.TxSpec {
	out := txgen.TxSpec{Version: s.Version, Lock: s.Lock, Outs: s.Outs}
	for _, in := range s.Ins {
		in.UnlockNil = false
		if !ext {
			in.Sats, in.Prev, in.PrevNil = 0, "", true
		} else {
			in.PrevNil = false
		}
		out.Ins = append(out.Ins, in)
	}
	return out
}

func ambiguous(s txgen.TxSpec) bool {
	return len(s.Ins) == 0 && len(s.Outs) == 0 && s.Lock == 0xef000000
}

// buildCase: spec -> library serialisations + txid (compared with the model), and the Go-level
// statement of the property on this tx (decode(encode) = tx, re-encode = bytes, Clone = tx).
func buildCase(s txgen.TxSpec) {
	c.InFlight("build/process-abort", s)
	tx := txgen.Build(s)
	std, ext, id := tx.Bytes(), tx.ExtendedBytes(), tx.TxID()
	c.Tally(fmt.Sprintf("build/in=%d/out=%d", bucket(len(s.Ins)), bucket(len(s.Outs))))
	if !ambiguous(s) {
		for _, f := range []struct {
			name string
			b    []byte
			ext  bool
		}{{"std", std, false}, {"ext", ext, true}} {
			got, err := bt.NewTxFromBytes(f.b)
			if err != nil {
				c.Violate("NewTxFromBytes/"+f.name+"-rejects-own-encoding", err.Error(), s)
				continue
			}
			if want := strip(s, f.ext); !reflect.DeepEqual(normalise(txgen.FromTx(got)), normalise(want)) {
				c.Violate("NewTxFromBytes/"+f.name+"-roundtrip-fields", "decoded fields differ", s)
			}
			re := got.Bytes()
			if f.ext {
				re = got.ExtendedBytes()
			}
			if !bytes.Equal(re, f.b) {
				c.Violate("NewTxFromBytes/"+f.name+"-reserialise", "re-serialised bytes differ", s)
			}
			// the same serialisation handed over as text
			if t3, err := bt.NewTxFromString(common.Hex(f.b)); err != nil {
				c.Violate("NewTxFromString/"+f.name+"-rejects-own-encoding", err.Error(), s)
			} else if !bytes.Equal(t3.ExtendedBytes(), got.ExtendedBytes()) {
				c.Violate("NewTxFromString/"+f.name+"-roundtrip-fields", "the transaction read from the hex text differs from the one read from the bytes", s)
			}
			t2, used, err := bt.NewTxFromStream(append(append([]byte{}, f.b...), 0xde, 0xad))
			if err != nil || used != len(f.b) || !bytes.Equal(t2.Bytes(), std) {
				c.Violate("NewTxFromStream/"+f.name+"-consumption", fmt.Sprintf("used %d of %d err %v", used, len(f.b), err), s)
			}
		}
		// Clone round-trips through the codec and ends the process when its own bytes do not parse
		if _, err := bt.NewTxFromBytes(std); err != nil {
			c.Violate("Clone/would-abort-the-process", "the standard serialisation does not parse: "+err.Error(), s)
		} else if cl := tx.Clone(); !bytes.Equal(cl.ExtendedBytes(), ext) || cl.TxID() != id {
			c.Violate("Clone/fields", "clone differs", s)
		}
	}
	// the id is a function of the serialisation, nothing else: after fields of the SAME object have been edited in
	// place (as fee bumping, re-sequencing and change adjustment do) it is the hash of what the object now serialises to
	if len(tx.Inputs)+len(tx.Outputs) > 0 {
		_ = tx.TxIDBytes()
		tx.LockTime ^= 0x5a5a
		tx.Version += 3
		if len(tx.Inputs) > 0 {
			tx.Inputs[len(tx.Inputs)-1].SequenceNumber ^= 0x11
		}
		if len(tx.Outputs) > 0 {
			tx.Outputs[0].Satoshis ^= 7
		}
		h1 := sha256.Sum256(tx.Bytes())
		h2 := sha256.Sum256(h1[:])
		for i, j := 0, 31; i < j; i, j = i+1, j-1 {
			h2[i], h2[j] = h2[j], h2[i]
		}
		if got := tx.TxID(); got != common.Hex(h2[:]) || !bytes.Equal(tx.TxIDBytes(), h2[:]) {
			c.Violate("TxID/not-the-hash-of-the-current-serialisation", fmt.Sprintf("after in-place edits TxID() = %s, reversed double SHA-256 of Bytes() = %x", got, h2), s)
		}
	}
	coq := fmt.Sprintf("CBuild %s %d %d %s %s", txgen.Coq(s), len(std), len(ext), common.CoqStr(id), common.CoqStr(common.Sha256Hex(ext)))
	c.Case(coq, map[string]interface{}{"kind": "build", "tx": s}, "b"+common.Hex(ext), len(s.Ins)+len(s.Outs) > 0)
}

func normalise(s txgen.TxSpec) txgen.TxSpec {
	if s.Ins == nil {
		s.Ins = []txgen.InSpec{}
	}
	if s.Outs == nil {
		s.Outs = []txgen.OutSpec{}
	}
	return s
}

func bucket(n int) int {
	switch {
	case n < 4:
		return n
	case n < 252:
		return 4
	default:
		return n
	}
}

type req struct {
	mode, kind string
	b          []byte
}

var reqs []req

func parseCase(kind string, b []byte) { reqs = append(reqs, req{"P", kind, b}) }
func listCase(kind string, b []byte)  { reqs = append(reqs, req{"L", kind, b}) }

type reply struct {
	Coq        string             `json:"coq"`
	OK         bool               `json:"ok"`
	Nontrivial bool               `json:"nt"`
	Viol       []common.Violation `json:"viol"`
	Extra      []extraCase        `json:"extra,omitempty"` // further Coq cases of the same request (CListInto, CText)
}

// child side: decode one request, state the Go-level predicates, answer with the Coq case
func handle(line string) string {
	f := strings.SplitN(line, " ", 3)
	b := common.Unhex(f[2])
	var rp reply
	viol := func(site, what string) {
		rp.Viol = append(rp.Viol, common.Violation{Site: site, What: what, Input: trunc(f[2])})
	}
	if f[0] == "P" {
		doParse(b, &rp, viol)
	} else {
		doList(b, &rp, viol)
	}
	bb, _ := json.Marshal(rp)
	return string(bb)
}

func runReqs() {
	perSite := map[string]int{}
	lines := make([]string, len(reqs))
	for i, q := range reqs {
		lines[i] = q.mode + " " + q.kind + " " + common.Hex(q.b)
	}
	replies, crashed, msgs := common.Isolated(lines, 20*time.Second)
	for i, q := range reqs {
		name := map[string]string{"P": "parse", "L": "list"}[q.mode]
		if crashed[i] {
			c.Tally(name + "/" + q.kind + "/crash")
			c.Violate(map[string]string{"P": "NewTxFromStream", "L": "Txs.ReadFrom"}[q.mode]+"/process-abort", msgs[i], trunc(common.Hex(q.b)))
			c.Case("", map[string]interface{}{"kind": name + "/" + q.kind, "bytes": trunc(common.Hex(q.b)), "crash": msgs[i]}, q.mode+common.Hex(q.b), false)
			continue
		}
		var rp reply
		if err := json.Unmarshal([]byte(replies[i]), &rp); err != nil {
			panic(fmt.Sprintf("bad child reply %q: %v", replies[i], err))
		}
		for _, v := range rp.Viol {
			// one broken entry point fails on every request: the first 25 inputs per site are reported, the rest counted
			if perSite[v.Site]++; perSite[v.Site] <= 25 {
				c.Violate(v.Site, v.What, v.Input)
			} else {
				c.Tally("violations-not-listed/" + v.Site)
			}
		}
		c.Tally(name + "/" + q.kind + "/" + map[bool]string{true: "ok", false: "err"}[rp.OK])
		c.Case(rp.Coq, map[string]interface{}{"kind": name + "/" + q.kind, "bytes": trunc(common.Hex(q.b))}, q.mode+common.Hex(q.b), rp.Nontrivial)
		for k, x := range rp.Extra {
			twin := map[string]interface{}{"kind": name + "-" + x.Kind + "/" + q.kind, "bytes": trunc(common.Hex(q.b)), "case": strings.SplitN(x.Coq, " [", 2)[0]}
			if x.Note != "" {
				twin["note"] = x.Note
			}
			c.Tally(name + "-" + x.Kind)
			c.Case(x.Coq, twin, fmt.Sprintf("I%d%s%s", k, x.Note, common.Hex(q.b)), rp.Nontrivial)
		}
	}
}

// reusedTx: long-lived transaction objects every parse request is also read into (one per reader kind)
var reusedTx = []*bt.Tx{{}, {}, {}, {}}

// plainReader hides every method of the source but Read (a file, a socket, an io.MultiReader: no ReadByte)
type plainReader struct{ r io.Reader }

func (p plainReader) Read(b []byte) (int, error) { return p.r.Read(b) }

func doParse(b []byte, rp *reply, viol func(site, what string)) {
	var tx *bt.Tx
	var used int
	var err error
	if p, msg := common.Safely(func() { tx, used, err = bt.NewTxFromStream(b) }); p {
		viol("NewTxFromStream/panic", msg)
		return
	}
	ok := err == nil
	var std, ext []byte
	if ok {
		std, ext = tx.Bytes(), tx.ExtendedBytes()
		// consumed exactly: the prefix alone parses to the same tx
		t2, u2, e2 := bt.NewTxFromStream(b[:used])
		if e2 != nil || u2 != used || !bytes.Equal(t2.ExtendedBytes(), ext) {
			viol("NewTxFromStream/prefix-reparse", "prefix does not parse alike")
		}
	}
	if used > len(b) {
		viol("NewTxFromStream/consumed-gt-supplied", fmt.Sprintf("used %d of %d", used, len(b)))
	}
	// the same bytes read into a Tx object that has been used for other transactions before (through readers
	// that also return short reads): what it holds afterwards is what was read now, nothing of its past
	src0, src3 := bytes.NewReader(b), bytes.NewReader(b)
	for k, rd := range []io.Reader{src0, bufio.NewReaderSize(iotest.OneByteReader(bytes.NewReader(b)), 16), iotest.DataErrReader(bytes.NewReader(b)), plainReader{src3}} {
		var n int64
		var e error
		if p, msg := common.Safely(func() { n, e = reusedTx[k].ReadFrom(rd) }); p {
			viol("Tx.ReadFrom/panic", msg)
			reusedTx[k] = &bt.Tx{}
			continue
		}
		if (e == nil) != ok {
			viol("Tx.ReadFrom/verdict-differs-on-a-used-object-or-reader", fmt.Sprintf("reader kind %d: err %v, NewTxFromStream err %v", k, e, err))
		} else if ok && (int(n) != used || !bytes.Equal(reusedTx[k].ExtendedBytes(), ext) || !bytes.Equal(reusedTx[k].Bytes(), std)) {
			viol("Tx.ReadFrom/result-depends-on-what-the-object-held-before-or-on-the-reader", fmt.Sprintf("reader kind %d: read %d bytes (stream parse %d); serialises to %s, expected %s", k, n, used, trunc(common.Hex(reusedTx[k].ExtendedBytes())), trunc(common.Hex(ext))))
		}
	}
	// read from a *bytes.Buffer that the caller then reuses for the next message (a receive loop): the transaction read
	// from it keeps what it read
	{
		buf := bytes.NewBuffer(append([]byte{}, b...))
		tb := &bt.Tx{}
		var e error
		if p, msg := common.Safely(func() { _, e = tb.ReadFrom(buf) }); p {
			viol("Tx.ReadFrom/panic", msg)
		} else if (e == nil) != ok {
			viol("Tx.ReadFrom/verdict-differs-on-a-used-object-or-reader", fmt.Sprintf("bytes.Buffer: err %v, NewTxFromStream err %v", e, err))
		} else if ok {
			buf.Reset()
			buf.Write(bytes.Repeat([]byte{0xa1}, len(b)+64))
			if !bytes.Equal(tb.ExtendedBytes(), ext) || !bytes.Equal(tb.Bytes(), std) {
				viol("Tx.ReadFrom/transaction-shares-memory-with-the-reader", fmt.Sprintf("after the bytes.Buffer it was read from was reused the transaction serialises to %s, expected %s", trunc(common.Hex(tb.ExtendedBytes())), trunc(common.Hex(ext))))
			}
		}
	}
	// the source is consumed to exactly the end of the transaction: what follows is still there for the next reader
	if ok {
		for k, src := range map[int]*bytes.Reader{0: src0, 3: src3} {
			if src.Len() != len(b)-used {
				viol("Tx.ReadFrom/source-not-consumed-to-exactly-the-end-of-the-transaction", fmt.Sprintf("reader kind %d: %d of %d bytes left in the source after a %d-byte transaction, expected %d", k, src.Len(), len(b), used, len(b)-used))
			}
		}
	}
	if ok {
		elemChecks(tx, viol)
		serialiserEntryPoints(tx, std, viol)
	}
	if len(b) > 4 {
		varintReuse(b[4:], viol)
	}
	_, e3 := bt.NewTxFromBytes(b)
	fbOK := e3 == nil
	if fbOK != (ok && used == len(b)) {
		viol("NewTxFromBytes/trailing", "accepts iff stream consumed everything violated")
	}
	entryPoints(b, ok, used, std, ext, rp)
	rp.OK, rp.Nontrivial = ok, ok
	rp.Coq = fmt.Sprintf("CParse %s %s %d %s %s %s", common.CoqBytes(b), common.CoqBool(ok), used, common.CoqStr(common.Sha256Hex(std)), common.CoqStr(common.Sha256Hex(ext)), common.CoqBool(fbOK))
}

func trunc(s string) string {
	if len(s) > 400 {
		return s[:400] + fmt.Sprintf("...(%d hex chars)", len(s))
	}
	return s
}

// doList: Txs.ReadFrom over a counted list.
func doList(b []byte, rp *reply, viol func(site, what string)) {
	var txs bt.Txs
	var n int64
	var err error
	if p, msg := common.Safely(func() { n, err = txs.ReadFrom(bytes.NewReader(b)) }); p {
		viol("Txs.ReadFrom/panic", msg)
		return
	}
	ok := err == nil
	var all []byte
	cnt := 0
	if ok {
		cnt = len(txs)
		for _, t := range txs {
			all = append(all, t.ExtendedBytes()...)
		}
	}
	if n > int64(len(b)) {
		viol("Txs.ReadFrom/consumed-gt-supplied", fmt.Sprintf("used %d of %d", n, len(b)))
	}
	// the same list through a reader that offers nothing but Read
	var txs2 bt.Txs
	var n2 int64
	var err2 error
	src := bytes.NewReader(b)
	if p, msg := common.Safely(func() { n2, err2 = txs2.ReadFrom(plainReader{src}) }); p {
		viol("Txs.ReadFrom/panic", msg)
	} else if (err2 == nil) != ok || (ok && (n2 != n || len(txs2) != cnt)) {
		viol("Txs.ReadFrom/result-depends-on-the-kind-of-reader", fmt.Sprintf("plain reader: err %v, %d bytes, %d txs; bytes.Reader: err %v, %d bytes, %d txs", err2, n2, len(txs2), err, n, cnt))
	} else if ok {
		var all2 []byte
		for _, t := range txs2 {
			all2 = append(all2, t.ExtendedBytes()...)
		}
		if !bytes.Equal(all, all2) {
			viol("Txs.ReadFrom/result-depends-on-the-kind-of-reader", "plain reader: different transactions")
		}
		if src.Len() != len(b)-int(n) {
			viol("Txs.ReadFrom/source-not-consumed-to-exactly-the-end-of-the-list", fmt.Sprintf("%d bytes left, expected %d", src.Len(), len(b)-int(n)))
		}
	}
	for _, x := range listInto(b, ok, n, cnt, all, err, viol) {
		rp.Extra = append(rp.Extra, extraCase{Coq: x, Kind: "into-used-destination"})
	}
	varintReuse(b, viol)
	rp.OK, rp.Nontrivial = ok, ok && cnt > 0
	rp.Coq = fmt.Sprintf("CList %s %s %d %d %s", common.CoqBytes(b), common.CoqBool(ok), n, cnt, common.CoqStr(common.Sha256Hex(all)))
}

// ---- destinations with a past ---------------------------------------------------------------------------------------
// Every ReadFrom of the codec (Txs, Tx, Input, Output, VarInt) writes into an object the caller supplies. What that
// object holds afterwards is a function of the bytes read, never of what it held before: the same bytes read into a
// fresh destination and into destinations with a past (long-lived ones used for every earlier request of this run, and
// ones populated on the spot: empty with spare capacity, full, partly filled, holding nil elements) must agree.

// reusedTxs: long-lived lists every list request is also read into (one per reader kind), as a block-reading loop does
var reusedTxs [3]bt.Txs
var reusedTxsPast [3]string

// sentinelTx: a transaction that is not part of any generated list (version 0x53544e4c), parsed anew for every use
func sentinelTx(tag byte) *bt.Tx {
	b := []byte{0x4c, 0x4e, 0x54, 0x53, 1}
	b = append(b, bytes.Repeat([]byte{0x77}, 32)...)
	b = append(b, tag, 0, 0, 0, 2, 0x51, tag, 0xfe, 0xff, 0xff, 0xff, 1, 5, 0, 0, 0, 0, 0, 0, 0, 2, 0x6a, tag, 9, 0, 0, 0)
	if t, err := bt.NewTxFromBytes(b); err == nil {
		return t
	}
	return &bt.Tx{Version: 0x53544e4c, LockTime: uint32(tag)}
}

func listInto(b []byte, ok bool, n0 int64, cnt int, all []byte, err0 error, viol func(site, what string)) (coq []string) {
	type dest struct {
		past string
		tt   *bt.Txs
		rd   io.Reader
		long int // index of the long-lived destination, -1: populated on the spot, -2: the same and also a Coq case
	}
	fresh := func(t bt.Txs) *bt.Txs { return &t }
	dests := []dest{
		{"empty, capacity 4", fresh(make(bt.Txs, 0, 4)), bytes.NewReader(b), -1},
		{"2 transactions, capacity 2", fresh(bt.Txs{sentinelTx(1), sentinelTx(2)}), bytes.NewReader(b), -2},
		{"1 transaction, capacity 8", fresh(append(make(bt.Txs, 0, 8), sentinelTx(3))), bytes.NewReader(b), -1},
		{"5 transactions of which 2 nil, capacity 6", fresh(append(make(bt.Txs, 0, 6), sentinelTx(4), nil, sentinelTx(5), nil, sentinelTx(6))), plainReader{bytes.NewReader(b)}, -2},
		{"long-lived, bytes.Reader; before: " + reusedTxsPast[0], &reusedTxs[0], bytes.NewReader(b), 0},
		{"long-lived, plain reader; before: " + reusedTxsPast[1], &reusedTxs[1], plainReader{bytes.NewReader(b)}, 1},
		{"long-lived, one byte at a time; before: " + reusedTxsPast[2], &reusedTxs[2], bufio.NewReaderSize(iotest.OneByteReader(bytes.NewReader(b)), 16), 2},
	}
	for _, d := range dests {
		var n int64
		var e error
		held := len(*d.tt)
		p, msg := common.Safely(func() { n, e = d.tt.ReadFrom(d.rd) })
		if d.long == -2 && !p {
			// the model with the destination explicit (model/TxsInto.v) on the same bytes
			after := 0
			if e == nil {
				after = len(*d.tt)
			}
			coq = append(coq, fmt.Sprintf("CListInto %d %s %s %d %d", held, common.CoqBytes(b), common.CoqBool(e == nil), n, after))
		}
		if d.long >= 0 {
			if p {
				reusedTxs[d.long] = nil
			}
			reusedTxsPast[d.long] = fmt.Sprintf("%d transactions (last read ok=%v)", len(reusedTxs[d.long]), e == nil && !p)
		}
		if p {
			viol("Txs.ReadFrom/panic", "destination ("+d.past+"): "+msg)
			continue
		}
		if (e == nil) != ok {
			viol("Txs.ReadFrom/verdict-depends-on-what-the-destination-held-before", fmt.Sprintf("destination (%s): err %v; fresh destination: err %v", d.past, e, err0))
			continue
		}
		if !ok {
			continue
		}
		var got []byte
		nilElem := false
		for _, t := range *d.tt {
			if t == nil {
				nilElem = true
				continue
			}
			got = append(got, t.ExtendedBytes()...)
		}
		if n != n0 || len(*d.tt) != cnt || nilElem || !bytes.Equal(got, all) {
			viol("Txs.ReadFrom/result-depends-on-what-the-destination-held-before", fmt.Sprintf("destination (%s): read %d bytes, holds %d transactions %s; a fresh destination: read %d bytes, holds %d transactions %s", d.past, n, len(*d.tt), trunc(common.Hex(got)), n0, cnt, trunc(common.Hex(all))))
		}
	}
	return coq
}

// own wire form of the elements (not the library's serialiser)
func ownVarint(n uint64) []byte {
	switch {
	case n < 0xfd:
		return []byte{byte(n)}
	case n <= 0xffff:
		return varintNonMinimal(n, 3)
	case n <= 0xffffffff:
		return varintNonMinimal(n, 5)
	}
	return varintNonMinimal(n, 9)
}

func le(v uint64, k int) []byte {
	b := make([]byte, 8)
	binary.LittleEndian.PutUint64(b, v)
	return b[:k]
}

func inWire(in *bt.Input, ext bool) []byte {
	id := in.PreviousTxID()
	b := make([]byte, 0, 64)
	for i := len(id) - 1; i >= 0; i-- {
		b = append(b, id[i])
	}
	b = append(b, le(uint64(in.PreviousTxOutIndex), 4)...)
	var us []byte
	if in.UnlockingScript != nil {
		us = *in.UnlockingScript
	}
	b = append(append(b, ownVarint(uint64(len(us)))...), us...)
	b = append(b, le(uint64(in.SequenceNumber), 4)...)
	if ext {
		var ps []byte
		if in.PreviousTxScript != nil {
			ps = *in.PreviousTxScript
		}
		b = append(b, le(in.PreviousTxSatoshis, 8)...)
		b = append(append(b, ownVarint(uint64(len(ps)))...), ps...)
	}
	return b
}

func outWire(o *bt.Output) []byte {
	var ls []byte
	if o.LockingScript != nil {
		ls = *o.LockingScript
	}
	return append(append(le(o.Satoshis, 8), ownVarint(uint64(len(ls)))...), ls...)
}

// long-lived element destinations: one Input that alternately receives standard and extended inputs, one Output
var reusedIn = &bt.Input{}
var reusedOut = &bt.Output{}
var reusedVI bt.VarInt

// elemChecks: the inputs and outputs of an accepted transaction, each read on its own through Input.ReadFrom /
// Input.ReadFromExtended / Output.ReadFrom into a fresh and into the long-lived element: exact consumption, the element
// read equals the element of the transaction, and the long-lived one equals the fresh one in every field
func elemChecks(tx *bt.Tx, viol func(site, what string)) {
	pick := func(n int) []int {
		if n <= 4 {
			idx := make([]int, n)
			for i := range idx {
				idx[i] = i
			}
			return idx
		}
		return []int{0, 1, n - 2, n - 1}
	}
	tail := []byte{0xde, 0xad, 0xbe}
	for _, i := range pick(len(tx.Inputs)) {
		in := tx.Inputs[i]
		if in == nil {
			continue
		}
		for _, ext := range []bool{false, true} {
			w := inWire(in, ext)
			name := map[bool]string{false: "Input.ReadFrom", true: "Input.ReadFromExtended"}[ext]
			read := func(dst *bt.Input) (n int64, e error, left int) {
				src := bytes.NewReader(append(append([]byte{}, w...), tail...))
				if ext {
					n, e = dst.ReadFromExtended(src)
				} else {
					n, e = dst.ReadFrom(src)
				}
				return n, e, src.Len()
			}
			f := &bt.Input{}
			var nf, nr int64
			var ef, er error
			var lf int
			if p, msg := common.Safely(func() { nf, ef, lf = read(f); nr, er, _ = read(reusedIn) }); p {
				viol(name+"/panic", msg+" on "+trunc(common.Hex(w)))
				reusedIn = &bt.Input{}
				continue
			}
			if ef != nil || int(nf) != len(w) || lf != len(tail) || !bytes.Equal(inWire(f, ext), w) {
				viol(name+"/element-roundtrip", fmt.Sprintf("input %d of the accepted transaction, on its own %s: err %v, read %d, %d bytes left of %d that follow, holds %s", i, trunc(common.Hex(w)), ef, nf, lf, len(tail), trunc(common.Hex(inWire(f, ext)))))
				continue
			}
			if er != nil || nr != nf || !bytes.Equal(inWire(reusedIn, true), inWire(f, true)) {
				viol(name+"/result-depends-on-what-the-object-held-before", fmt.Sprintf("input bytes %s: long-lived Input err %v, read %d, holds (extended form) %s; fresh Input read %d, holds %s", trunc(common.Hex(w)), er, nr, trunc(common.Hex(inWire(reusedIn, true))), nf, trunc(common.Hex(inWire(f, true)))))
			}
		}
	}
	for _, i := range pick(len(tx.Outputs)) {
		o := tx.Outputs[i]
		if o == nil {
			continue
		}
		w := outWire(o)
		read := func(dst *bt.Output) (int64, error, int) {
			src := bytes.NewReader(append(append([]byte{}, w...), tail...))
			n, e := dst.ReadFrom(src)
			return n, e, src.Len()
		}
		f := &bt.Output{}
		var nf, nr int64
		var ef, er error
		var lf int
		if p, msg := common.Safely(func() { nf, ef, lf = read(f); nr, er, _ = read(reusedOut) }); p {
			viol("Output.ReadFrom/panic", msg+" on "+trunc(common.Hex(w)))
			reusedOut = &bt.Output{}
			continue
		}
		if ef != nil || int(nf) != len(w) || lf != len(tail) || !bytes.Equal(outWire(f), w) {
			viol("Output.ReadFrom/element-roundtrip", fmt.Sprintf("output %d of the accepted transaction, on its own %s: err %v, read %d, %d bytes left of %d that follow, holds %s", i, trunc(common.Hex(w)), ef, nf, lf, len(tail), trunc(common.Hex(outWire(f)))))
			continue
		}
		if er != nil || nr != nf || !bytes.Equal(outWire(reusedOut), outWire(f)) {
			viol("Output.ReadFrom/result-depends-on-what-the-object-held-before", fmt.Sprintf("output bytes %s: long-lived Output err %v, read %d, holds %s; fresh Output read %d, holds %s", trunc(common.Hex(w)), er, nr, trunc(common.Hex(outWire(reusedOut))), nf, trunc(common.Hex(outWire(f)))))
		}
	}
}

// varintReuse: the length prefix at the head of b read into a fresh and into the long-lived VarInt
func varintReuse(b []byte, viol func(site, what string)) {
	if len(b) > 9 {
		b = b[:9]
	}
	var f bt.VarInt
	var nf, nr int64
	var ef, er error
	if p, msg := common.Safely(func() { nf, ef = f.ReadFrom(bytes.NewReader(b)); nr, er = reusedVI.ReadFrom(bytes.NewReader(b)) }); p {
		viol("VarInt.ReadFrom/panic", msg+" on "+common.Hex(b))
		return
	}
	if (ef == nil) != (er == nil) || nf != nr || (ef == nil && f != reusedVI) {
		viol("VarInt.ReadFrom/result-depends-on-what-the-object-held-before", fmt.Sprintf("bytes %x: long-lived VarInt err %v, read %d, value %d; fresh VarInt err %v, read %d, value %d", b, er, nr, uint64(reusedVI), ef, nf, uint64(f)))
	}
}

func varintNonMinimal(v uint64, class int) []byte {
	switch class {
	case 3:
		b := []byte{0xfd, 0, 0}
		binary.LittleEndian.PutUint16(b[1:], uint16(v))
		return b
	case 5:
		b := []byte{0xfe, 0, 0, 0, 0}
		binary.LittleEndian.PutUint32(b[1:], uint32(v))
		return b
	default:
		b := []byte{0xff, 0, 0, 0, 0, 0, 0, 0, 0}
		binary.LittleEndian.PutUint64(b[1:], v)
		return b
	}
}

func main() {
	c = common.Parse("C01")
	if c.Mode == "child" {
		if os.Getenv("C01_TIER") == "thorough" {
			textEvery = 4
		}
		common.ChildLoop(3000, handle)
		return
	}
	os.Setenv("C01_TIER", c.Tier) // the children (common.Isolated) inherit the environment
	c.SetHeader(header)
	c.PerShard = 150
	r := common.NewRand(c.Seed)
	nBuild, nParse := 220, 260
	if c.Thorough() {
		nBuild, nParse = 6000, 8000
	}
	// boundary shapes first (fixed)
	fixed := []txgen.TxSpec{
		{Version: 1},
		{Version: 2, Lock: 0xef000001},
		{Version: 1, Lock: 0xef},
		{Version: 1, Outs: []txgen.OutSpec{{Sats: 1, Script: ""}}},
		{Version: 1, Ins: []txgen.InSpec{{Txid: common.Hex(bytes.Repeat([]byte{0xab}, 32)), Seq: 0xffffffff, PrevNil: true}}},
		{Version: 0xffffffff, Lock: 0xffffffff, Ins: []txgen.InSpec{{Txid: common.Hex(bytes.Repeat([]byte{1}, 32)), Vout: 0xffffffff, Unlock: common.Hex(bytes.Repeat([]byte{0x51}, 253)), Seq: 0, Sats: 1<<64 - 1, Prev: common.Hex(bytes.Repeat([]byte{0x52}, 65536))}},
			Outs: []txgen.OutSpec{{Sats: 1<<64 - 1, Script: common.Hex(bytes.Repeat([]byte{0x6a}, 65535))}}},
	}
	for _, s := range fixed {
		buildCase(s)
	}
	for i := 0; i < nBuild; i++ {
		buildCase(txgen.Gen(r, true))
	}
	// byte-level stream
	for i := 0; i < nParse; i++ {
		s := txgen.Gen(r, false)
		tx := txgen.Build(s)
		b := tx.Bytes()
		if r.Bool() {
			b = tx.ExtendedBytes()
		}
		switch r.Intn(8) {
		case 0: // concatenation of two
			b2 := txgen.Build(txgen.Gen(r, false)).Bytes()
			parseCase("concat", append(append([]byte{}, b...), b2...))
		case 1: // truncation
			parseCase("trunc", b[:r.Intn(len(b)+1)])
		case 2: // trailing garbage
			parseCase("trailing", append(append([]byte{}, b...), r.Bytes(1+r.Intn(5))...))
		case 3: // bit flip
			bb := append([]byte{}, b...)
			bb[r.Intn(len(bb))] ^= 1 << uint(r.Intn(8))
			parseCase("flip", bb)
		case 4: // random bytes
			parseCase("random", r.Bytes(r.Intn(80)))
		case 5: // hostile length somewhere after the version
			bb := append([]byte{}, b[:4+r.Intn(len(b)-3)]...)
			bb = append(bb, varintNonMinimal([]uint64{1 << 16, 1 << 31, 1 << 32, 1 << 40, 1 << 63, 1<<64 - 1}[r.Intn(6)], 9)...)
			bb = append(bb, r.Bytes(r.Intn(20))...)
			parseCase("hostile", bb)
		default:
			parseCase("valid", b)
		}
	}
	// empty transactions between non-empty ones (a reused object must not keep the previous inputs / outputs)
	for i := 0; i < 6; i++ {
		parseCase("valid", txgen.Build(txgen.Gen(r, false)).Bytes())
		e := []byte{byte(1 + i), 0, 0, 0, 0, 0, byte(i), 0x11, 0x22, 0x33}
		if i%2 == 1 {
			e = []byte{2, 0, 0, 0, 0, 0, 0, 0, 0, 0xef, 0, 0, 7, 0, 0, 0} // extended form of the empty transaction
		}
		parseCase("empty", e)
	}
	// every truncation offset of one small tx, both formats
	{
		s := txgen.TxSpec{Version: 1, Lock: 7, Ins: []txgen.InSpec{{Txid: common.Hex(r.Bytes(32)), Vout: 1, Unlock: "5151", Seq: 0xfffffffe, Sats: 9, Prev: "76a9"}}, Outs: []txgen.OutSpec{{Sats: 5, Script: "6a0101"}}}
		tx := txgen.Build(s)
		for _, b := range [][]byte{tx.Bytes(), tx.ExtendedBytes()} {
			for k := 0; k <= len(b); k++ {
				parseCase("trunc-all", b[:k])
			}
		}
	}
	// non-minimal varints in every count/length position (std and ext)
	{
		txid := bytes.Repeat([]byte{0x11}, 32)
		for _, cls := range []int{3, 5, 9} {
			for pos := 0; pos < 5; pos++ {
				vi := func(p int, v uint64) []byte {
					if p == pos {
						return varintNonMinimal(v, cls)
					}
					return bt.VarInt(v).Bytes()
				}
				for _, ext := range []bool{false, true} {
					var b []byte
					b = append(b, 1, 0, 0, 0)
					if ext {
						b = append(b, 0, 0, 0, 0, 0, 0xef)
					}
					b = append(b, vi(0, 1)...)
					b = append(b, txid...)
					b = append(b, 0, 0, 0, 0)
					b = append(b, vi(1, 2)...)
					b = append(b, 0x51, 0x52)
					b = append(b, 0xff, 0xff, 0xff, 0xff)
					if ext {
						b = append(b, 9, 0, 0, 0, 0, 0, 0, 0)
						b = append(b, vi(2, 1)...)
						b = append(b, 0x53)
					}
					b = append(b, vi(3, 1)...)
					b = append(b, 5, 0, 0, 0, 0, 0, 0, 0)
					b = append(b, vi(4, 3)...)
					b = append(b, 0x6a, 0x01, 0x00)
					b = append(b, 0, 0, 0, 0)
					parseCase("nonminimal", b)
				}
			}
		}
	}
	// counts no input can satisfy (2^62 .. 2^64-1, i.e. also values that are negative as a Go int) in every
	// count position, followed by bytes that form a complete transaction if the count is taken as zero
	{
		txid := bytes.Repeat([]byte{0x22}, 32)
		in := append(append(append([]byte{}, txid...), 0, 0, 0, 0, 1, 0x51), 0xff, 0xff, 0xff, 0xff)
		inExt := append(append([]byte{}, in...), 9, 0, 0, 0, 0, 0, 0, 0, 1, 0x53)
		out := []byte{5, 0, 0, 0, 0, 0, 0, 0, 1, 0x6a}
		for _, huge := range []uint64{1 << 62, 1 << 63, 1<<63 + 1, 1<<64 - 1, 1<<64 - 2, 1<<32 + 1} {
			hv := varintNonMinimal(huge, 9)
			for _, ext := range []bool{false, true} {
				head := []byte{1, 0, 0, 0}
				oneIn := in
				if ext {
					head = append(head, 0, 0, 0, 0, 0, 0xef)
					oneIn = inExt
				}
				cat := func(parts ...[]byte) []byte {
					var b []byte
					for _, p := range parts {
						b = append(b, p...)
					}
					return b
				}
				lock := []byte{0, 0, 0, 0}
				parseCase("huge-count", cat(head, hv, []byte{1}, out, lock))                                                         // inputs
				parseCase("huge-count", cat(head, hv, []byte{0}, lock))                                                              // inputs, no outputs
				parseCase("huge-count", cat(head, []byte{1}, oneIn, hv, lock))                                                       // outputs
				parseCase("huge-count", cat(head, []byte{1}, oneIn, hv, out, lock))                                                  // outputs, one present
				parseCase("huge-count", cat(head, []byte{1}, txid, []byte{0, 0, 0, 0}, hv, []byte{0xff, 0xff, 0xff, 0xff, 0}, lock)) // unlocking script length
				parseCase("huge-count", cat(head, []byte{1}, oneIn, []byte{1}, []byte{5, 0, 0, 0, 0, 0, 0, 0}, hv, lock))            // locking script length
				listCase("huge-count", cat(hv))
				listCase("huge-count", cat(hv, head, []byte{0, 0}, lock))
			}
		}
	}
	// block lists
	nList := 40
	if c.Thorough() {
		nList = 1500
	}
	for i := 0; i < nList; i++ {
		k := r.Intn(4)
		var body []byte
		for j := 0; j < k; j++ {
			tx := txgen.Build(txgen.Gen(r, false))
			if r.Bool() {
				body = append(body, tx.Bytes()...)
			} else {
				body = append(body, tx.ExtendedBytes()...)
			}
		}
		cnt := uint64(k)
		kind := "valid"
		switch r.Intn(6) {
		case 0:
			cnt++
			kind = "count+1"
		case 1:
			if len(body) > 0 {
				body = body[:r.Intn(len(body))]
				kind = "trunc"
			}
		case 2:
			cnt = []uint64{1 << 32, 1<<64 - 1, 1 << 40}[r.Intn(3)]
			kind = "hostile"
		}
		listCase(kind, append(bt.VarInt(cnt).Bytes(), body...))
	}
	// consecutive valid lists of shrinking and growing length, the empty list among them (a block-reading loop that keeps
	// one bt.Txs variable: each read must leave exactly the transactions of the bytes just read)
	for _, k := range []int{3, 1, 0, 2, 0, 0, 1} {
		var body []byte
		for j := 0; j < k; j++ {
			tx := txgen.Build(txgen.Gen(r, false))
			if (j+k)%2 == 0 {
				body = append(body, tx.Bytes()...)
			} else {
				body = append(body, tx.ExtendedBytes()...)
			}
		}
		listCase("consecutive", append(bt.VarInt(uint64(k)).Bytes(), append(body, r.Bytes(k)...)...))
	}
	// field values a guard could single out, in every field, shape and format (entry.go)
	markerCases(r, c.Thorough())
	runReqs()
	c.Stats.Rule = "structured generator (boundary field values, script lengths {0,1,2,3,25,75,76,107,252,253,254,300,65535,65536,70000}, counts {0..3,252,253,254,300}) -> build cases; byte-level stream: valid/concatenated/truncated(every offset of one tx)/trailing/bit-flipped/random/hostile-length/non-minimal-varint-in-every-position/counts 2^62..2^64-1 in every count and length position followed by a complete transaction for count zero, and counted lists; every parse request is also read through Tx.ReadFrom into long-lived transaction objects (plain, one-byte-at-a-time and data-with-EOF readers) whose result must not depend on what they held before; every list request is also read through Txs.ReadFrom into destinations with a past (three long-lived lists, one per reader kind, and four populated on the spot: empty with spare capacity, full, partly filled, holding nil elements) and must leave exactly what a fresh destination holds; every input / output of an accepted transaction is read on its own through Input.ReadFrom / ReadFromExtended / Output.ReadFrom into a fresh and a long-lived element (exact consumption, equal to the element, long-lived = fresh), and the leading length prefix into a fresh and a long-lived VarInt. Field values a guard could single out (round 8): uint32 values built from the byte patterns of well-known markers read in both byte orders (BEEF / atomic BEEF versions, the extended-format marker bytes and their neighbours, network magics, BIP32 versions, ASCII tags), boundaries (varint class bytes, BIP68 / locktime thresholds, sign bit, final sequences) and one telling byte in every position; uint64 values likewise (money range edges, patterns in the low and the high half); each value in every uint32 / uint64 field by rotation, in every shape (inputs and outputs, one-sided, empty), the same marker in all fields, special outpoints (null / all-ff / marker-bearing txids x indices ffffffff, 0, 1, fffffffe, 7fffffff, 80000000) alone and at every position among ordinary inputs - all as build cases, as parse requests in both formats and inside counted lists. Entry points (round 8): every parse request is also handed over as hex text to NewTxFromString and as the `hex` member of a JSON document in both dialects, and as the only element of a counted list; for an accepted transaction also its text in upper case and followed by 18 kinds of trailing material (more bytes, a second / truncated / doubled copy, a dangling digit, non-hex characters, white space, NUL, 0x, the extended marker): a text is accepted iff this harness's own hex decoder decodes it and NewTxFromBytes accepts the bytes, and then it is that transaction; a sample of the texts is evaluated on the model (CText, model/TxText.v); String() and Size() agree with Bytes(). distinct = distinct input bytes; non-trivial = build cases with at least one input or output, parse cases the decoder accepts, lists with at least one tx"
	c.Finish()
}
