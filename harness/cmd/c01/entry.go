// c01, round 8: (a) field VALUES a guard could single out - uint32 / uint64 values built from the byte patterns of
// well-known markers and from boundaries, special outpoints - in every field, every shape and both formats;
// (b) ENTRY POINTS: every way of handing bytes or text to the parser accepts exactly the same inputs and consumes
// exactly the transaction.
package main

import (
	"bytes"
	"encoding/binary"
	"encoding/json"
	"fmt"
	"strconv"
	"strings"

	"github.com/libsv/go-bt/v2"

	"verif/harness/common"
	"verif/harness/txgen"
)

// ---- (a) field values ------------------------------------------------------------------------------------------------

// wirePatterns: 4-byte sequences that mean something somewhere in the ecosystem (as they appear on the wire / in a
// file): BEEF and atomic-BEEF envelope versions, the extended-format marker and its neighbours, network magics, BIP32
// version bytes, ASCII tags. Each gives two field values: the one whose wire bytes are the pattern (little endian) and
// the one whose hexadecimal spelling is the pattern (big endian).
var wirePatterns = []string{
	"0100beef", "0200beef", "01010101", "deadbeef", "42454546", // BEEF v1, v2, atomic BEEF, a classic, "BEEF"
	"000000ef", "0000ef00", "00ef0000", "ef000000", "000000ee", "000000f0", "0000efef", // extended marker bytes
	"e3e1f3e8", "f4e5f3f4", "dab5bffa", "f9beb4d9", "0b110907", "fabfb5da", // network magics
	"0488b21e", "0488ade4", "043587cf", "04358394", // xpub / xprv / tpub / tprv
	"6f726401", "74780000", "70736274", // "ord"+1, "tx", "psbt"
}

func markers32() []uint32 {
	var out []uint32
	seen := map[uint32]bool{}
	add := func(v uint32) {
		if !seen[v] {
			seen[v] = true
			out = append(out, v)
		}
	}
	for _, p := range wirePatterns {
		b := common.Unhex(p)
		add(binary.LittleEndian.Uint32(b))
		add(binary.BigEndian.Uint32(b))
	}
	// boundaries: versions, varint class bytes, BIP68 / locktime thresholds, sign bit, final sequences
	for _, v := range []uint32{0, 1, 2, 3, 10, 0x7f, 0x80, 0xfc, 0xfd, 0xfe, 0xff, 0x100, 0xfffe, 0xffff, 0x10000, 0x10001,
		1<<22 - 1, 1 << 22, 1<<22 | 0xffff, 1 << 31, 1<<31 | 1<<22, 1<<31 - 1, 1<<31 + 1, 499999999, 500000000, 500000001,
		0xfffffffd, 0xfffffffe, 0xffffffff} {
		add(v)
	}
	// one telling byte in every position, the others zero
	for _, v := range []uint32{0x01, 0x7f, 0x80, 0xef, 0xfd, 0xfe, 0xff} {
		for p := uint(0); p < 4; p++ {
			add(v << (8 * p))
		}
	}
	return out
}

func markers64() []uint64 {
	var out []uint64
	seen := map[uint64]bool{}
	add := func(v uint64) {
		if !seen[v] {
			seen[v] = true
			out = append(out, v)
		}
	}
	for _, v := range []uint64{0, 1, 545, 546, 547, 0xfc, 0xfd, 0xfe, 0xff, 0x100, 0xffff, 0x10000, 0xffffffff, 1 << 32, 1<<32 + 1,
		5000000000, 2099999999999999, 2100000000000000, 2100000000000001, 1 << 53, 1<<53 + 1, 1<<63 - 1, 1 << 63, 1<<63 + 1, 1<<64 - 2, 1<<64 - 1} {
		add(v)
	}
	for _, p := range wirePatterns[:12] {
		b := common.Unhex(p)
		le, be := uint64(binary.LittleEndian.Uint32(b)), uint64(binary.BigEndian.Uint32(b))
		add(le)       // the pattern is the first four wire bytes of the value
		add(le << 32) // ... the last four
		add(be << 32)
	}
	for _, v := range []uint64{0x01, 0x80, 0xef, 0xff} {
		for p := uint(0); p < 8; p++ {
			add(v << (8 * p))
		}
	}
	return out
}

// specialTxids: previous transaction ids (display order) that code likes to treat specially; the first one is the null
// id of a coinbase input
func specialTxids() []string {
	z := make([]byte, 32)
	mk := func(f func(b []byte)) string {
		b := append([]byte{}, z...)
		f(b)
		return common.Hex(b)
	}
	return []string{
		mk(func(b []byte) {}),
		mk(func(b []byte) {
			for i := range b {
				b[i] = 0xff
			}
		}),
		mk(func(b []byte) { b[0] = 1 }),
		mk(func(b []byte) { b[31] = 1 }),
		mk(func(b []byte) { b[31] = 0xef }),
		mk(func(b []byte) { copy(b, []byte{0x01, 0x00, 0xbe, 0xef}) }),
		mk(func(b []byte) { copy(b[28:], []byte{0xef, 0xbe, 0x00, 0x01}) }),
		mk(func(b []byte) {
			for i := range b {
				b[i] = 0xef
			}
		}),
	}
}

var specialVouts = []uint32{0xffffffff, 0, 1, 0xfffffffe, 0x7fffffff, 0x80000000}

func markerIn(k int, txid string, vout, seq uint32, sats uint64) txgen.InSpec {
	in := txgen.InSpec{Txid: txid, Vout: vout, Seq: seq, Sats: sats, Unlock: common.Hex([]byte{0x51, 0x52}[:k%3])}
	switch k % 4 {
	case 0:
		in.PrevNil = true
	case 1:
		in.Prev = ""
	case 2:
		in.Prev = "51"
	default:
		in.Prev = "76a9"
	}
	return in
}

type markerTx struct {
	s     txgen.TxSpec
	std   bool // also a parse request in standard form
	ext   bool // ... in extended form
	where string
}

// markerTxs: every marker value in every uint32 / uint64 field (one field after the other, by rotation: the fields of
// one transaction hold different markers), in every shape the decoder distinguishes (inputs and outputs, no inputs, no
// outputs, empty), all fields of one transaction holding the same marker, and the special outpoints crossed with the
// special output indices, alone and among ordinary inputs.
func markerTxs(r *common.Rand, thorough bool) []markerTx {
	m, w, ids := markers32(), markers64(), specialTxids()
	M, W := len(m), len(w)
	var out []markerTx
	n := M
	if W > n {
		n = W
	}
	txid := func(k int) string {
		if k%2 == 0 {
			return ids[(k/2)%len(ids)]
		}
		return common.Hex(r.Bytes(32))
	}
	for k := 0; k < n; k++ { // rotation: field f of transaction k holds marker k + offset(f)
		s := txgen.TxSpec{Version: m[k%M], Lock: m[(k+17)%M],
			Ins:  []txgen.InSpec{markerIn(k, txid(k), m[(k+31)%M], m[(k+47)%M], w[k%W])},
			Outs: []txgen.OutSpec{{Sats: w[(k+5)%W], Script: common.Hex([]byte{0x6a, 0x01, 0x00}[:k%4])}}}
		out = append(out, markerTx{s, true, true, "rotation"})
	}
	for k := 0; k < M; k++ { // the shapes that take the decoder's other paths
		out = append(out, markerTx{txgen.TxSpec{Version: m[k], Lock: m[(k+17)%M]}, true, true, "empty"})
		s := txgen.TxSpec{Version: m[(k+5)%M], Lock: m[(k+23)%M]}
		if k%2 == 0 {
			s.Outs = []txgen.OutSpec{{Sats: w[(k+11)%W], Script: "51"}}
		} else {
			s.Ins = []txgen.InSpec{markerIn(k, txid(k+1), m[(k+37)%M], m[(k+53)%M], w[(k+13)%W])}
		}
		out = append(out, markerTx{s, k%4 == 0 || (thorough && k%4 == 1), k%4 == 2 || (thorough && k%4 == 3), "one-sided"})
	}
	for k := 0; k < M; k++ { // the same marker in every field
		s := txgen.TxSpec{Version: m[k], Lock: m[k],
			Ins:  []txgen.InSpec{markerIn(k+1, txid(k), m[k], m[k], w[k%W])},
			Outs: []txgen.OutSpec{{Sats: w[k%W], Script: "51"}}}
		out = append(out, markerTx{s, thorough, thorough, "all-equal"}) // quick tier: build case only (NewTxFromBytes / FromString / FromStream / Clone)
	}
	k := 0
	for _, id := range ids { // special outpoints
		for _, vout := range specialVouts {
			s := txgen.TxSpec{Version: []uint32{1, 2}[k%2], Lock: []uint32{0, 7, 500000000}[k%3],
				Ins:  []txgen.InSpec{markerIn(k, id, vout, []uint32{0xffffffff, 0, 0xfffffffe}[k%3], []uint64{0, 5000000000, 1}[(k/3)%3])},
				Outs: []txgen.OutSpec{{Sats: 5000000000, Script: "51"}}}
			out = append(out, markerTx{s, true, true, "outpoint"})
			k++
		}
	}
	for _, sp := range [][2]int{{0, 0}, {0, 1}, {1, 0}} { // ... at every position among ordinary inputs, and all of them special
		special := func(j int) txgen.InSpec { return markerIn(j+2, ids[sp[0]], specialVouts[sp[1]], 0xffffffff, 50) }
		plain := func(j int) txgen.InSpec {
			return markerIn(j+2, common.Hex(r.Bytes(32)), uint32(j), 0xfffffffe, uint64(1000+j))
		}
		for pos := 0; pos <= 3; pos++ {
			s := txgen.TxSpec{Version: 1, Lock: uint32(pos), Outs: []txgen.OutSpec{{Sats: 1, Script: "51"}, {Sats: 2, Script: "6a"}}}
			for j := 0; j < 3; j++ {
				if j == pos || pos == 3 {
					s.Ins = append(s.Ins, special(j))
				} else {
					s.Ins = append(s.Ins, plain(j))
				}
			}
			out = append(out, markerTx{s, true, true, "outpoint-among-others"})
		}
	}
	if thorough { // random combinations of markers over all fields and shapes
		for i := 0; i < 3000; i++ {
			s := txgen.TxSpec{Version: m[r.Intn(M)], Lock: m[r.Intn(M)]}
			for j, nin := 0, r.Intn(3); j < nin; j++ {
				id := ids[r.Intn(len(ids))]
				if r.Bool() {
					id = common.Hex(r.Bytes(32))
				}
				s.Ins = append(s.Ins, markerIn(r.Intn(12), id, m[r.Intn(M)], m[r.Intn(M)], w[r.Intn(W)]))
			}
			for j, nout := 0, r.Intn(3); j < nout; j++ {
				s.Outs = append(s.Outs, txgen.OutSpec{Sats: w[r.Intn(W)], Script: common.Hex(r.Bytes(r.Intn(3)))})
			}
			out = append(out, markerTx{s, r.Bool(), r.Bool(), "random-combination"})
		}
	}
	return out
}

// markerCases: build cases, parse requests in both formats and counted lists made of the marker transactions
func markerCases(r *common.Rand, thorough bool) {
	var pool [][]byte
	for i, mt := range markerTxs(r, thorough) {
		buildCase(mt.s)
		c.Tally("marker/" + mt.where)
		tx := txgen.Build(mt.s)
		std, ext := tx.Bytes(), tx.ExtendedBytes()
		if mt.std {
			parseCase("marker-"+mt.where, std)
		}
		if mt.ext {
			parseCase("marker-"+mt.where, ext)
		}
		if !thorough && (mt.where == "empty" || mt.where == "all-equal" || mt.where == "one-sided" || i%3 != 0) {
			continue // the quick tier's lists: a third of the rotation and of the outpoints
		}
		if i%2 == 0 {
			pool = append(pool, std)
		} else {
			pool = append(pool, ext)
		}
	}
	for i := 0; i < len(pool); i += 8 {
		j := i + 8
		if j > len(pool) {
			j = len(pool)
		}
		b := bt.VarInt(uint64(j - i)).Bytes()
		for _, t := range pool[i:j] {
			b = append(b, t...)
		}
		listCase("marker", b)
	}
}

// ---- (b) entry points ------------------------------------------------------------------------------------------------

// ownUnhex: hex text -> bytes by the rule of encoding/hex (even length, digits 0-9 a-f A-F), written here
func ownUnhex(s string) ([]byte, bool) {
	if len(s)%2 != 0 {
		return nil, false
	}
	val := func(ch byte) int {
		switch {
		case ch >= '0' && ch <= '9':
			return int(ch - '0')
		case ch >= 'a' && ch <= 'f':
			return int(ch-'a') + 10
		case ch >= 'A' && ch <= 'F':
			return int(ch-'A') + 10
		}
		return -1
	}
	out := make([]byte, 0, len(s)/2)
	for i := 0; i < len(s); i += 2 {
		h, l := val(s[i]), val(s[i+1])
		if h < 0 || l < 0 {
			return nil, false
		}
		out = append(out, byte(h<<4|l))
	}
	return out, true
}

func quote(s string) string { return strconv.Quote(trunc(s)) }

type extraCase struct {
	Coq  string `json:"coq"`
	Kind string `json:"kind"`
	Note string `json:"note,omitempty"`
}

type textVariant struct {
	what   string
	s      string
	oneWay bool // the property does not oblige the parser to accept it; if it does, the result is the transaction
}

// what may follow a transaction in a text: nothing. [p] is the hex text of an accepted transaction
func trailingTexts(p string) []textVariant {
	after := func(what, sfx string) textVariant {
		return textVariant{"an accepted transaction followed by " + what, p + sfx, false}
	}
	vs := []textVariant{
		after("one more byte", "00"), after("two more bytes", "beef"), after("a dangling hex digit", "0"), after("a dangling hex digit", "f"),
		after("characters that are not hex digits", "zz"), after("a non-digit and a digit", "g0"), after("a digit and a non-digit", "0g"),
		after("a space", " "), after("a line feed", "\n"), after("CR LF", "\r\n"), after("a NUL character", "\x00"), after("a comma", ","),
		after("the text 0x", "0x"), after("the extended-format marker", "0000000000ef"),
		after("a truncated second copy of itself", p[:len(p)/2&^1]), after("a second copy of itself less one digit", p[:len(p)-1]),
		after("a second copy of itself", p), after("two more copies of itself", p+p),
	}
	return vs
}

var textSeq int // child side: which text variants of a request also become Coq cases (rotates over the requests)

// textEvery: the exact text of every textEvery-th request and a text with trailing material (or in upper case) of every
// (textEvery/2)-th accepted request are also evaluated on the model; the Go-level predicates run on all of them
var textEvery = 8

// entryPoints: the request [b] (NewTxFromStream: accepted = ok, consumed = used; NewTxFromBytes: accepted = fbOK) handed to
// the parser in every other way - as hex text to NewTxFromString, as the `hex` member of a JSON document in both dialects,
// as the only element of a counted list - and, when a transaction was accepted, its text followed by material of every
// kind. The rule for texts, stated with this file's own hex decoder: a text is accepted iff it decodes and
// NewTxFromBytes accepts the decoded bytes, and then it is that transaction.
func entryPoints(b []byte, ok bool, used int, std, ext []byte, rp *reply) {
	violT := func(site, what, text string) {
		rp.Viol = append(rp.Viol, common.Violation{Site: site, What: what, Input: map[string]string{"text": quote(text)}})
	}
	expect := func(s string) (acc bool, e []byte) {
		raw, hexOK := ownUnhex(s)
		if !hexOK {
			return false, nil
		}
		common.Safely(func() {
			if t, err := bt.NewTxFromBytes(raw); err == nil {
				acc, e = true, t.ExtendedBytes()
			}
		})
		return acc, e
	}
	vs := []textVariant{{"the request as hex text", common.Hex(b), false}}
	t0 := -1 // index of the first variant derived from the accepted transaction's own text
	if ok {
		p := common.Hex(b[:used])
		if used != len(b) {
			vs = append(vs, textVariant{"the accepted transaction alone", p, false})
		}
		t0 = len(vs)
		vs = append(vs, textVariant{"the accepted transaction in upper-case digits", strings.ToUpper(p), true})
		tv := trailingTexts(p)
		if len(p) > 6000 {
			tv = tv[:len(tv)-1]
		}
		vs = append(vs, tv...)
	}
	textSeq++
	for vi, v := range vs {
		want, wantExt := expect(v.s)
		type attempt struct {
			name string
			run  func() (*bt.Tx, error)
		}
		attempts := []attempt{{"NewTxFromString", func() (*bt.Tx, error) { return bt.NewTxFromString(v.s) }}}
		if v.s != "" { // an empty `hex` member means "no hex member"
			doc, _ := json.Marshal(map[string]string{"hex": v.s})
			attempts = append(attempts,
				attempt{"Tx.UnmarshalJSON(hex)", func() (*bt.Tx, error) { t := &bt.Tx{}; return t, json.Unmarshal(doc, t) }},
				attempt{"NodeJSON.UnmarshalJSON(hex)", func() (*bt.Tx, error) { t := &bt.Tx{}; return t, json.Unmarshal(doc, t.NodeJSON()) }})
		}
		var firstAcc bool
		var firstExt []byte
		for ai, a := range attempts {
			var t *bt.Tx
			var err error
			if p, msg := common.Safely(func() { t, err = a.run() }); p {
				violT(a.name+"/panic", msg, v.s)
				continue
			}
			acc := err == nil
			var got []byte
			if acc {
				if p, msg := common.Safely(func() { got = t.ExtendedBytes() }); p {
					violT(a.name+"/panic", "serialising what it returned: "+msg, v.s)
					continue
				}
			}
			if ai == 0 {
				firstAcc, firstExt = acc, got
			}
			switch {
			case acc && !want:
				violT(a.name+"/accepts-a-text-that-is-not-exactly-one-transaction", fmt.Sprintf("%s: accepted (%d characters; what it returns serialises to %d bytes) although the text %s", v.what, len(v.s), len(got), whyNot(v.s)), v.s)
			case !acc && want && !v.oneWay:
				violT(a.name+"/rejects-the-text-of-a-transaction-NewTxFromBytes-accepts", fmt.Sprintf("%s: %v", v.what, err), v.s)
			case acc && want && !bytes.Equal(got, wantExt):
				violT(a.name+"/transaction-differs-from-NewTxFromBytes-of-the-decoded-text", fmt.Sprintf("%s: holds %s, expected %s", v.what, trunc(common.Hex(got)), trunc(common.Hex(wantExt))), v.s)
			}
		}
		// the model (model/TxText.v) on the same text: the exact text of every second request, one text with trailing
		// material per accepted request
		picked := (vi == 0 && textSeq%textEvery == 0) || (t0 >= 0 && textSeq%(textEvery/2) == 1 && vi == t0+(textSeq/(textEvery/2))%(len(vs)-t0))
		if picked && len(v.s) <= 800 && !(v.oneWay && !firstAcc) {
			rp.Extra = append(rp.Extra, extraCase{
				Coq:  fmt.Sprintf("CText %s %s %s", common.CoqBytes([]byte(v.s)), common.CoqBool(firstAcc), common.CoqStr(common.Sha256Hex(firstExt))),
				Kind: "text", Note: v.what + ": " + quote(v.s)})
		}
	}
	// the only element of a counted list
	{
		var txs bt.Txs
		var n int64
		var err error
		lb := append([]byte{1}, b...)
		if p, msg := common.Safely(func() { n, err = txs.ReadFrom(bytes.NewReader(lb)) }); p {
			rp.Viol = append(rp.Viol, common.Violation{Site: "Txs.ReadFrom/panic", What: msg, Input: trunc(common.Hex(lb))})
		} else if (err == nil) != ok {
			rp.Viol = append(rp.Viol, common.Violation{Site: "Txs.ReadFrom/verdict-differs-from-NewTxFromStream-on-the-same-transaction",
				What: fmt.Sprintf("as the only element of a counted list: err %v; on its own accepted=%v", err, ok), Input: trunc(common.Hex(lb))})
		} else if ok && (int(n) != used+1 || len(txs) != 1 || txs[0] == nil || !bytes.Equal(txs[0].ExtendedBytes(), ext)) {
			rp.Viol = append(rp.Viol, common.Violation{Site: "Txs.ReadFrom/element-differs-from-NewTxFromStream-on-the-same-transaction",
				What: fmt.Sprintf("as the only element of a counted list: read %d bytes, %d transactions; on its own %d bytes", n, len(txs), used), Input: trunc(common.Hex(lb))})
		}
	}
}

func whyNot(s string) string {
	raw, hexOK := ownUnhex(s)
	if !hexOK {
		if len(s)%2 != 0 {
			return "has an odd number of characters"
		}
		return "contains characters that are not hex digits"
	}
	_, used, err := bt.NewTxFromStream(raw)
	if err != nil {
		return "decodes to bytes the byte parser rejects: " + err.Error()
	}
	return fmt.Sprintf("decodes to %d bytes of which the transaction is the first %d", len(raw), used)
}

// serialiserEntryPoints: the other ways of asking an accepted transaction for its bytes agree with Bytes()
func serialiserEntryPoints(tx *bt.Tx, std []byte, viol func(site, what string)) {
	if s := tx.String(); s != common.Hex(std) {
		viol("Tx.String/not-the-hex-of-Bytes", fmt.Sprintf("String() = %s, Bytes() = %s", trunc(s), trunc(common.Hex(std))))
	}
	if n := tx.Size(); n != len(std) {
		viol("Tx.Size/not-the-length-of-Bytes", fmt.Sprintf("Size() = %d, len(Bytes()) = %d", n, len(std)))
	}
}
