// c16: JSON interchange preserves transactions and satoshi amounts. The harness marshals real
// go-bt values (transactions at every build stage, outputs, UTXOs, lists) in both dialects, reads
// the documents back, writes what it saw as cases for coq/corr/C16.v, and states the property
// directly in Go: unmarshal(marshal x) == x, and marshalling never panics.
package main

import (
	"bytes"
	"context"
	"crypto/sha256"
	"encoding/binary"
	"encoding/hex"
	"encoding/json"
	"fmt"
	"math"
	"os"
	"path/filepath"
	"strings"

	"github.com/libsv/go-bk/bec"
	"github.com/libsv/go-bt/v2"
	"github.com/libsv/go-bt/v2/bscript"
	"github.com/libsv/go-bt/v2/unlocker"

	"verif/harness/common"
	"verif/harness/txgen"
)

var c *common.Ctx

const header = `From Coq Require Import List NArith ZArith String.
From Coq Require Import Strings.Byte.
From GoBT Require Import lib.Bytes lib.Hex model.Tx model.Amount model.Json model.JsonHeap corr.C16.
Import ListNotations. Local Open Scope N_scope. Local Open Scope string_scope.
`

const maxMoney = 2100000000000000

// ---------- Coq printing ----------

func optBytes(s *bscript.Script) string {
	if s == nil {
		return "None"
	}
	return "(Some " + common.CoqBytes(*s) + ")"
}

func coqGTx(tx *bt.Tx) string {
	var ins, outs []string
	for _, in := range tx.Inputs {
		ins = append(ins, fmt.Sprintf("mkGInput %s %d %s %d %d %s", common.CoqBytes(in.PreviousTxID()), in.PreviousTxOutIndex,
			optBytes(in.UnlockingScript), in.SequenceNumber, in.PreviousTxSatoshis, optBytes(in.PreviousTxScript)))
	}
	for _, o := range tx.Outputs {
		outs = append(outs, fmt.Sprintf("mkGOutput %d %s", o.Satoshis, optBytes(o.LockingScript)))
	}
	return fmt.Sprintf("(mkGTx %d [%s] [%s] %d)", tx.Version, strings.Join(ins, "; "), strings.Join(outs, "; "), tx.LockTime)
}

// the documents as generic JSON, so that what is compared is what was written, not what
// go-bt's own structs would read back
type libDoc struct {
	TxID   string `json:"txid"`
	Hex    string `json:"hex"`
	Inputs []*struct {
		UnlockingScript string `json:"unlockingScript"`
		TxID            string `json:"txid"`
		Vout            uint32 `json:"vout"`
		Sequence        uint32 `json:"sequence"`
	} `json:"inputs"`
	Outputs []*struct {
		Satoshis      uint64 `json:"satoshis"`
		LockingScript string `json:"lockingScript"`
	} `json:"outputs"`
	Version  uint32 `json:"version"`
	LockTime uint32 `json:"lockTime"`
}
type nodeOutDoc struct {
	Value        float64 `json:"value"`
	N            int     `json:"n"`
	ScriptPubKey *struct {
		Hex string `json:"hex"`
	} `json:"scriptPubKey"`
}
type nodeDoc struct {
	Version  uint32 `json:"version"`
	LockTime uint32 `json:"locktime"`
	TxID     string `json:"txid"`
	Hash     string `json:"hash"`
	Size     int    `json:"size"`
	Hex      string `json:"hex"`
	Vin      []*struct {
		ScriptSig *struct {
			Hex string `json:"hex"`
		} `json:"scriptSig"`
		TxID     string `json:"txid"`
		Vout     uint32 `json:"vout"`
		Sequence uint32 `json:"sequence"`
	} `json:"vin"`
	Vout []*nodeOutDoc `json:"vout"`
}

func (d *libDoc) coq() (string, bool) {
	var ins, outs []string
	for _, i := range d.Inputs {
		if i == nil {
			return "", false
		}
		ins = append(ins, fmt.Sprintf("Some (mkInputJ %s %s %d %d)", common.CoqStr(i.UnlockingScript), common.CoqStr(i.TxID), i.Vout, i.Sequence))
	}
	for _, o := range d.Outputs {
		if o == nil {
			return "", false
		}
		outs = append(outs, fmt.Sprintf("Some (mkOutputJ %d %s)", o.Satoshis, common.CoqStr(o.LockingScript)))
	}
	return fmt.Sprintf("(mkTxJ %s %s [%s] [%s] %d %d)", common.CoqStr(d.TxID), common.CoqStr(d.Hex), strings.Join(ins, "; "), strings.Join(outs, "; "), d.Version, d.LockTime), true
}
func (o *nodeOutDoc) coq() (string, bool) {
	if o == nil || o.ScriptPubKey == nil {
		return "", false
	}
	return fmt.Sprintf("(mkOOut %d %d %s)", math.Float64bits(o.Value), o.N, common.CoqStr(o.ScriptPubKey.Hex)), true
}
func (d *nodeDoc) coq() (string, bool) {
	var ins, outs []string
	for _, i := range d.Vin {
		if i == nil || i.ScriptSig == nil {
			return "", false
		}
		ins = append(ins, fmt.Sprintf("mkOIn %s %s %d %d", common.CoqStr(i.ScriptSig.Hex), common.CoqStr(i.TxID), i.Vout, i.Sequence))
	}
	for _, o := range d.Vout {
		s, ok := o.coq()
		if !ok {
			return "", false
		}
		outs = append(outs, s)
	}
	return fmt.Sprintf("(mkOTx %d %d %s %s %d %s [%s] [%s])", d.Version, d.LockTime, common.CoqStr(d.TxID), common.CoqStr(d.Hash), d.Size, common.CoqStr(d.Hex),
		strings.Join(ins, "; "), strings.Join(outs, "; ")), true
}

func withoutKey(doc []byte, key string) []byte {
	var m map[string]json.RawMessage
	if err := json.Unmarshal(doc, &m); err != nil {
		panic(err)
	}
	delete(m, key)
	bb, _ := json.Marshal(m)
	return bb
}

// safely marshal / unmarshal: a panic is an observation
func marshal(site string, v interface{}, in interface{}) ([]byte, bool) {
	var bb []byte
	var err error
	if p, msg := common.Safely(func() { bb, err = json.Marshal(v) }); p {
		c.Violate(site+"/marshal-panic", msg, in)
		return nil, false
	}
	if err != nil {
		c.Tally(site + "/marshal-error")
		c.Violate(site+"/marshal-error", err.Error(), in) // allowed by the property in general; never expected for library-built values
		return nil, false
	}
	return bb, true
}
func unmarshal(site string, doc []byte, v interface{}, in interface{}) bool {
	var err error
	if p, msg := common.Safely(func() { err = json.Unmarshal(doc, v) }); p {
		c.Violate(site+"/unmarshal-panic", msg, in)
		return false
	}
	if err != nil {
		c.Violate(site+"/roundtrip-unmarshal-error", err.Error(), in)
		return false
	}
	return true
}

func ambiguous(tx *bt.Tx) bool {
	return len(tx.Inputs) == 0 && len(tx.Outputs) == 0 && tx.LockTime == 0xef000000
}

func outsEqual(a, b *bt.Tx) bool {
	if len(a.Outputs) != len(b.Outputs) {
		return false
	}
	for i := range a.Outputs {
		if a.Outputs[i].Satoshis != b.Outputs[i].Satoshis || !bytes.Equal(*a.Outputs[i].LockingScript, *b.Outputs[i].LockingScript) {
			return false
		}
	}
	return true
}

// txCase: one transaction, both dialects.
func txCase(stage string, tx *bt.Tx) {
	guard("json(*bt.Tx)/case", map[string]string{"stage": stage}, func() { txCase1(stage, tx) })
}

// documents returned by direct MarshalJSON calls (json.Marshaler), kept as a caller keeps them
type keptDoc struct {
	got  []byte
	want string
	what string
}

var keptDocs []keptDoc

func keepDoc(what string, doc []byte, in interface{}) {
	for _, k := range keptDocs {
		if string(k.got) != k.want {
			c.Violate("MarshalJSON/earlier-result-changed-by-a-later-call", fmt.Sprintf("the document returned by %s now reads %s", k.what, trunc(string(k.got))), in)
			keptDocs = nil
			break
		}
	}
	keptDocs = append(keptDocs, keptDoc{doc, string(doc), what})
	if len(keptDocs) > 4 {
		keptDocs = keptDocs[1:]
	}
}

func txCase1(stage string, tx *bt.Tx) {
	in := map[string]string{"stage": stage, "tx_ext_hex": trunc(hex.EncodeToString(tx.ExtendedBytes()))}
	want := tx.Bytes()
	id := tx.TxID()
	// the marshalers called directly (as any json.Marshaler user may): the bytes they return stay what they are
	guard("MarshalJSON/direct", in, func() {
		if d, err := tx.MarshalJSON(); err == nil {
			keepDoc("Tx.MarshalJSON", d, in)
		}
		if m, ok := tx.NodeJSON().(json.Marshaler); ok {
			if d, err := m.MarshalJSON(); err == nil {
				keepDoc("tx.NodeJSON().MarshalJSON", d, in)
			}
		}
	})
	// one NodeJSON() value used before and after the transaction changes (signing, a fee bump): it describes the
	// transaction as it is when it is marshalled
	if !ambiguous(tx) {
		guard("NodeJSON/reused-wrapper", in, func() {
			w := tx.NodeJSON()
			if _, err := json.Marshal(w); err != nil {
				return
			}
			tx.LockTime ^= 0x2a
			tx.Version ^= 0x4
			d2, err := json.Marshal(w)
			t5 := bt.NewTx()
			if err == nil && json.Unmarshal(d2, t5.NodeJSON()) == nil && !bytes.Equal(t5.Bytes(), tx.Bytes()) {
				c.Violate("json.Marshal(tx.NodeJSON())/wrapper-describes-an-earlier-state-of-the-transaction", fmt.Sprintf("after locktime and version were changed the same NodeJSON() value marshals to a document of %s, the transaction is %s", trunc(hex.EncodeToString(t5.Bytes())), trunc(hex.EncodeToString(tx.Bytes()))), in)
			}
			tx.LockTime ^= 0x2a
			tx.Version ^= 0x4
		})
	}
	c.Tally("tx/" + stage)
	suffix := ""
	if ambiguous(tx) {
		suffix = "-ambiguous-marker-shape"
	}
	// library dialect
	lsite := "json.Marshal(*bt.Tx)"
	ldoc, ok := marshal(lsite, tx, in)
	if !ok {
		return
	}
	var lback []byte
	t2 := &bt.Tx{}
	if suffix != "" {
		var err error
		if p, msg := common.Safely(func() { err = json.Unmarshal(ldoc, t2) }); p {
			c.Violate(lsite+"/unmarshal-panic", msg, in)
		} else if err != nil {
			c.Violate(lsite+"/roundtrip"+suffix, "marshals, but the document does not unmarshal: "+err.Error(), in)
		}
	} else if unmarshal(lsite, ldoc, t2, in) {
		lback = t2.Bytes()
		if !bytes.Equal(lback, want) {
			c.Violate(lsite+"/roundtrip-serialisation", "unmarshal(marshal tx) serialises differently", in)
		}
		if t2.TxID() != id || !outsEqual(tx, t2) {
			c.Violate(lsite+"/roundtrip-fields", "txid or outputs differ", in)
		}
	}
	// node dialect
	nsite := "json.Marshal(tx.NodeJSON())"
	ndoc, ok := marshal(nsite, tx.NodeJSON(), in)
	if !ok {
		return
	}
	if !bytes.Equal(tx.Bytes(), want) || tx.TxID() != id {
		c.Violate("json.Marshal(*bt.Tx)/marshalling-modifies-the-transaction", fmt.Sprintf("serialisation before %s, after %s", trunc(hex.EncodeToString(want)), trunc(hex.EncodeToString(tx.Bytes()))), in)
	}
	var nback, nfback []byte
	t3 := bt.NewTx()
	if suffix != "" {
		var err error
		if p, msg := common.Safely(func() { err = json.Unmarshal(ndoc, t3.NodeJSON()) }); p {
			c.Violate(nsite+"/unmarshal-panic", msg, in)
		} else if err != nil {
			c.Violate(nsite+"/roundtrip"+suffix, "marshals, but the document does not unmarshal: "+err.Error(), in)
		}
		return
	}
	if unmarshal(nsite, ndoc, t3.NodeJSON(), in) {
		nback = t3.Bytes()
		if !bytes.Equal(nback, want) || t3.TxID() != id || !outsEqual(tx, t3) {
			c.Violate(nsite+"/roundtrip-serialisation", "unmarshal(marshal tx) differs", in)
		}
	}
	// the vin/vout path: the same document without "hex"
	t4 := bt.NewTx()
	fsite := "json.Marshal(tx.NodeJSON())/without-hex"
	inRange, comparable := true, true
	for _, o := range tx.Outputs {
		if o.Satoshis > maxMoney {
			inRange = false // beyond the supply a float64 coin value need not carry the amount exactly
		}
		if o.Satoshis >= 1<<63 {
			comparable = false // uint64(float) may leave the uint64 range: implementation specific
		}
	}
	if comparable {
		if unmarshal(fsite, withoutKey(ndoc, "hex"), t4.NodeJSON(), in) {
			nfback = t4.Bytes()
			if inRange && !bytes.Equal(nfback, want) {
				c.Violate(fsite+"/roundtrip-serialisation", "vin/vout objects do not reproduce the transaction", in)
			}
		}
	}
	// the case for the model
	var ld libDoc
	var nd nodeDoc
	if json.Unmarshal(ldoc, &ld) != nil || json.Unmarshal(ndoc, &nd) != nil {
		c.Violate(lsite+"/document-shape", "document is not of the documented shape", in)
		return
	}
	// what the documents say must be what the transaction holds
	docOK := ld.TxID == id && ld.Hex == hex.EncodeToString(want) && ld.Version == tx.Version && ld.LockTime == tx.LockTime &&
		len(ld.Inputs) == len(tx.Inputs) && len(ld.Outputs) == len(tx.Outputs)
	ndocOK := nd.TxID == id && nd.Hash == id && nd.Hex == hex.EncodeToString(want) && nd.Size == len(want) && nd.Version == tx.Version && nd.LockTime == tx.LockTime &&
		len(nd.Vin) == len(tx.Inputs) && len(nd.Vout) == len(tx.Outputs)
	for i, ti := range tx.Inputs {
		if docOK {
			d := ld.Inputs[i]
			docOK = d != nil && d.TxID == hex.EncodeToString(ti.PreviousTxID()) && d.Vout == ti.PreviousTxOutIndex && d.Sequence == ti.SequenceNumber && d.UnlockingScript == scriptHex(ti.UnlockingScript)
		}
		if ndocOK {
			d := nd.Vin[i]
			ndocOK = d != nil && d.ScriptSig != nil && d.TxID == hex.EncodeToString(ti.PreviousTxID()) && d.Vout == ti.PreviousTxOutIndex && d.Sequence == ti.SequenceNumber && d.ScriptSig.Hex == scriptHex(ti.UnlockingScript)
		}
	}
	for i, to := range tx.Outputs {
		if docOK {
			d := ld.Outputs[i]
			docOK = d != nil && d.Satoshis == to.Satoshis && d.LockingScript == scriptHex(to.LockingScript)
		}
		if ndocOK {
			d := nd.Vout[i]
			ndocOK = d != nil && d.ScriptPubKey != nil && d.N == i && d.ScriptPubKey.Hex == scriptHex(to.LockingScript) && d.Value == float64(to.Satoshis)/100000000
		}
	}
	if !docOK {
		c.Violate(lsite+"/document-fields", "the document does not state the transaction's fields", in)
	}
	if !ndocOK {
		c.Violate(nsite+"/document-fields", "the document does not state the transaction's fields", in)
	}
	lc, ok1 := ld.coq()
	nc, ok2 := nd.coq()
	coq := ""
	if ok1 && ok2 && lback != nil && nback != nil && nfback != nil {
		coq = fmt.Sprintf("CTx %s %s %s %s %s %s", coqGTx(tx), lc, common.CoqStr(common.Hex(lback)), nc, common.CoqStr(common.Hex(nback)), common.CoqStr(common.Hex(nfback)))
	}
	c.Case(coq, map[string]interface{}{"kind": "tx/" + stage, "lib": trunc(string(ldoc)), "node": trunc(string(ndoc))}, "tx"+string(tx.ExtendedBytes())+stage, len(tx.Inputs)+len(tx.Outputs) > 0)
}

func txsCase(txs bt.Txs) {
	guard("json(bt.Txs)/case", map[string]int{"count": len(txs)}, func() { txsCase1(txs) })
}

func txsCase1(txs bt.Txs) {
	in := map[string]interface{}{"count": len(txs)}
	var want []byte
	for _, t := range txs {
		want = append(want, t.Bytes()...)
	}
	ldoc, ok := marshal("json.Marshal(bt.Txs)", txs, in)
	if !ok {
		return
	}
	ndoc, ok := marshal("json.Marshal(txs.NodeJSON())", txs.NodeJSON(), in)
	if !ok {
		return
	}
	var l2, n2 bt.Txs
	if !unmarshal("json.Marshal(bt.Txs)", ldoc, &l2, in) || !unmarshal("json.Marshal(txs.NodeJSON())", ndoc, n2.NodeJSON(), in) {
		return
	}
	// the same documents into destinations that already hold transactions (with and without spare capacity):
	// the result is the list that was marshalled, not what the variable held before
	for _, spare := range []int{0, 8} {
		mk := func() bt.Txs {
			d := make(bt.Txs, 0, 3+spare)
			for k := 0; k < 3; k++ {
				t := bt.NewTx()
				t.LockTime = uint32(k + 1)
				d = append(d, t)
			}
			return d
		}
		l3, n3 := mk(), mk()
		if unmarshal("json.Marshal(bt.Txs)", ldoc, &l3, in) && unmarshal("json.Marshal(txs.NodeJSON())", ndoc, n3.NodeJSON(), in) {
			var lb3, nb3 []byte
			for _, t := range l3 {
				lb3 = append(lb3, t.Bytes()...)
			}
			for _, t := range n3 {
				nb3 = append(nb3, t.Bytes()...)
			}
			if !bytes.Equal(lb3, want) || len(l3) != len(txs) {
				c.Violate("json.Marshal(bt.Txs)/roundtrip-into-used-destination", fmt.Sprintf("%d transactions after unmarshalling a list of %d into a variable that held 3", len(l3), len(txs)), in)
			}
			if !bytes.Equal(nb3, want) || len(n3) != len(txs) {
				c.Violate("json.Marshal(txs.NodeJSON())/roundtrip-into-used-destination", fmt.Sprintf("%d transactions after unmarshalling a list of %d into a variable that held 3", len(n3), len(txs)), in)
			}
		}
	}
	var lb, nb []byte
	for _, t := range l2 {
		lb = append(lb, t.Bytes()...)
	}
	for _, t := range n2 {
		nb = append(nb, t.Bytes()...)
	}
	if !bytes.Equal(lb, want) || len(l2) != len(txs) {
		c.Violate("json.Marshal(bt.Txs)/roundtrip-serialisation", "list differs", in)
	}
	if !bytes.Equal(nb, want) || len(n2) != len(txs) {
		c.Violate("json.Marshal(txs.NodeJSON())/roundtrip-serialisation", "list differs", in)
	}
	var gs []string
	for _, t := range txs {
		gs = append(gs, coqGTx(t))
	}
	c.Tally(fmt.Sprintf("txs/len=%d", len(txs)))
	c.Case(fmt.Sprintf("CTxs [%s] %s %s", strings.Join(gs, "; "), common.CoqStr(common.Hex(lb)), common.CoqStr(common.Hex(nb))),
		map[string]interface{}{"kind": "txs", "count": len(txs)}, "txs"+string(want), len(txs) > 0)
}

func outCase(sats uint64, script []byte) {
	guard("json(*bt.Output)/case", map[string]interface{}{"satoshis": sats, "script": trunc(hex.EncodeToString(script))}, func() { outCase1(sats, script) })
}

func outCase1(sats uint64, script []byte) {
	o := &bt.Output{Satoshis: sats, LockingScript: bscript.NewFromBytes(script)}
	in := map[string]interface{}{"satoshis": sats, "script": trunc(hex.EncodeToString(script))}
	ldoc, ok := marshal("json.Marshal(*bt.Output)", o, in)
	if !ok {
		return
	}
	ndoc, ok := marshal("json.Marshal(output.NodeJSON())", o.NodeJSON(), in)
	if !ok {
		return
	}
	o2, o3 := &bt.Output{}, &bt.Output{}
	if !unmarshal("json.Marshal(*bt.Output)", ldoc, o2, in) || !unmarshal("json.Marshal(output.NodeJSON())", ndoc, o3.NodeJSON(), in) {
		return
	}
	if o2.Satoshis != sats || !bytes.Equal(*o2.LockingScript, script) {
		c.Violate("json.Marshal(*bt.Output)/roundtrip-fields", fmt.Sprintf("satoshis %d -> %d", sats, o2.Satoshis), in)
	}
	if sats <= maxMoney && (o3.Satoshis != sats || !bytes.Equal(*o3.LockingScript, script)) {
		c.Violate("json.Marshal(output.NodeJSON())/roundtrip-fields", fmt.Sprintf("satoshis %d -> %d", sats, o3.Satoshis), in)
	}
	var ld struct {
		Satoshis      uint64 `json:"satoshis"`
		LockingScript string `json:"lockingScript"`
	}
	var nd nodeOutDoc
	_ = json.Unmarshal(ldoc, &ld)
	_ = json.Unmarshal(ndoc, &nd)
	nc, okc := nd.coq()
	coq := ""
	if okc && sats < 1<<63 {
		coq = fmt.Sprintf("COut (mkGOutput %d (Some %s)) (mkOutputJ %d %s) %d %s %s %d %s", sats, common.CoqBytes(script), ld.Satoshis, common.CoqStr(ld.LockingScript),
			o2.Satoshis, common.CoqStr(scriptHex(o2.LockingScript)), nc, o3.Satoshis, common.CoqStr(scriptHex(o3.LockingScript)))
	}
	c.Tally("output")
	c.Case(coq, map[string]interface{}{"kind": "output", "lib": trunc(string(ldoc)), "node": trunc(string(ndoc))}, fmt.Sprintf("out%d/%x", sats, script), true)
}

// scriptHex: the harness's own nil-safe hex (never the library's String(), which is under test)
func scriptHex(s *bscript.Script) string {
	if s == nil {
		return ""
	}
	return hex.EncodeToString(*s)
}

func utxoCoq(u *bt.UTXO) string {
	return fmt.Sprintf("(mkUtxoJ %s %d %s %d)", common.CoqStr(hex.EncodeToString(u.TxID)), u.Vout, common.CoqStr(scriptHex(u.LockingScript)), u.Satoshis)
}

// guard: a panic anywhere in a case (library code called outside marshal/unmarshal) is an observation
func guard(site string, in interface{}, f func()) {
	if p, msg := common.Safely(f); p {
		c.Violate(site+"/panic", msg, in)
	}
}

func utxoCase(u *bt.UTXO) {
	guard("json(*bt.UTXO)/case", map[string]interface{}{"satoshis": u.Satoshis, "script_nil": u.LockingScript == nil}, func() { utxoCase1(u) })
}

func utxoCase1(u *bt.UTXO) {
	in := map[string]interface{}{"txid": hex.EncodeToString(u.TxID), "vout": u.Vout, "satoshis": u.Satoshis, "script": scriptHex(u.LockingScript), "script_nil": u.LockingScript == nil}
	ldoc, ok := marshal("json.Marshal(*bt.UTXO)", u, in)
	if !ok {
		return
	}
	ndoc, ok := marshal("json.Marshal(utxo.NodeJSON())", u.NodeJSON(), in)
	if !ok {
		return
	}
	u2, u3 := &bt.UTXO{}, &bt.UTXO{}
	if !unmarshal("json.Marshal(*bt.UTXO)", ldoc, u2, in) || !unmarshal("json.Marshal(utxo.NodeJSON())", ndoc, u3.NodeJSON(), in) {
		return
	}
	same := func(a *bt.UTXO) bool {
		return bytes.Equal(a.TxID, u.TxID) && a.Vout == u.Vout && a.Satoshis == u.Satoshis && scriptHex(a.LockingScript) == scriptHex(u.LockingScript)
	}
	if !same(u2) {
		c.Violate("json.Marshal(*bt.UTXO)/roundtrip-fields", "txid/vout/script/satoshis differ", in)
	}
	// the same documents into objects that already hold another UTXO (a variable reused in a loop): nothing of what
	// they held before shows afterwards
	u4 := &bt.UTXO{TxID: bytes.Repeat([]byte{4}, 32), Vout: 44, Satoshis: 444, LockingScript: bscript.NewFromBytes([]byte{0x76, 0xa9, 0x04, 0x88, 0xac})}
	u5 := &bt.UTXO{TxID: bytes.Repeat([]byte{3}, 32), Vout: 33, Satoshis: 333, LockingScript: bscript.NewFromBytes([]byte{0x51, 0x52})}
	if unmarshal("json.Marshal(*bt.UTXO)", ldoc, u4, in) && !same(u4) {
		c.Violate("json.Marshal(*bt.UTXO)/result-depends-on-what-the-object-held-before", fmt.Sprintf("script %s, expected %s", scriptHex(u4.LockingScript), scriptHex(u.LockingScript)), in)
	}
	if unmarshal("json.Marshal(utxo.NodeJSON())", ndoc, u5.NodeJSON(), in) && u.Satoshis <= maxMoney && !same(u5) {
		c.Violate("json.Marshal(utxo.NodeJSON())/result-depends-on-what-the-object-held-before", fmt.Sprintf("script %s, expected %s", scriptHex(u5.LockingScript), scriptHex(u.LockingScript)), in)
	}
	if u.Satoshis <= maxMoney && !same(u3) {
		c.Violate("json.Marshal(utxo.NodeJSON())/roundtrip-fields", fmt.Sprintf("satoshis %d -> %d", u.Satoshis, u3.Satoshis), in)
	}
	var ld struct {
		TxID          string `json:"txid"`
		Vout          uint32 `json:"vout"`
		LockingScript string `json:"lockingScript"`
		Satoshis      uint64 `json:"satoshis"`
	}
	var nd struct {
		TxID         string  `json:"txid"`
		Vout         uint32  `json:"vout"`
		ScriptPubKey string  `json:"scriptPubKey"`
		Amount       float64 `json:"amount"`
	}
	_ = json.Unmarshal(ldoc, &ld)
	_ = json.Unmarshal(ndoc, &nd)
	coq := ""
	if u.Satoshis < 1<<63 {
		lock := "None"
		if u.LockingScript != nil {
			lock = "(Some " + common.CoqBytes(*u.LockingScript) + ")"
		}
		coq = fmt.Sprintf("CUtxo (mkGUtxo %s %d %s %d %d) (mkUtxoJ %s %d %s %d) %s %s %d %s %d %s", common.CoqBytes(u.TxID), u.Vout, lock, u.Satoshis, u.SequenceNumber,
			common.CoqStr(ld.TxID), ld.Vout, common.CoqStr(ld.LockingScript), ld.Satoshis, utxoCoq(u2),
			common.CoqStr(nd.TxID), nd.Vout, common.CoqStr(nd.ScriptPubKey), math.Float64bits(nd.Amount), utxoCoq(u3))
	}
	c.Tally("utxo")
	c.Case(coq, map[string]interface{}{"kind": "utxo", "lib": trunc(string(ldoc)), "node": trunc(string(ndoc))}, "utxo"+string(ldoc), true)
}

func utxosCase(us bt.UTXOs) {
	guard("json(bt.UTXOs)/case", map[string]int{"count": len(us)}, func() { utxosCase1(us) })
}

func utxosCase1(us bt.UTXOs) {
	in := map[string]interface{}{"count": len(us)}
	if len(us) <= 12 {
		in["utxos"] = snapUs(us)
	}
	ldoc, ok := marshal("json.Marshal(bt.UTXOs)", us, in)
	if !ok {
		return
	}
	ndoc, ok := marshal("json.Marshal(utxos.NodeJSON())", us.NodeJSON(), in)
	if !ok {
		return
	}
	var l2, n2 bt.UTXOs
	if !unmarshal("json.Marshal(bt.UTXOs)", ldoc, &l2, in) || !unmarshal("json.Marshal(utxos.NodeJSON())", ndoc, n2.NodeJSON(), in) {
		return
	}
	// also into variables that already hold UTXOs
	old := func(b byte) *bt.UTXO { // what the variable held before: every field set
		return &bt.UTXO{TxID: bytes.Repeat([]byte{b}, 32), Vout: uint32(b), Satoshis: uint64(b), SequenceNumber: 5, LockingScript: bscript.NewFromBytes([]byte{0x76, 0xa9, b, 0x88, 0xac})}
	}
	l3 := bt.UTXOs{old(9), old(8)}
	n3 := append(make(bt.UTXOs, 0, 16), old(7), old(6), old(5))
	if !unmarshal("json.Marshal(bt.UTXOs)", ldoc, &l3, in) || !unmarshal("json.Marshal(utxos.NodeJSON())", ndoc, n3.NodeJSON(), in) {
		return
	}
	for k, got := range []bt.UTXOs{l2, n2, l3, n3} {
		bad := len(got) != len(us)
		for i := 0; !bad && i < len(us); i++ {
			a, u := got[i], us[i]
			bad = a == nil || !bytes.Equal(a.TxID, u.TxID) || a.Vout != u.Vout || a.Satoshis != u.Satoshis || scriptHex(a.LockingScript) != scriptHex(u.LockingScript)
		}
		if bad {
			c.Violate("json.Marshal(bt.UTXOs)/roundtrip-fields", "list differs ("+[]string{"library dialect", "node dialect", "library dialect, into a variable that held two UTXOs", "node dialect, into a variable that held three UTXOs"}[k]+"): "+firstDiff(snapUs(got), snapUs(us)), in)
		}
	}
	c.Tally("utxos")
	c.Case(utxosCoq(us, l2, n2), map[string]interface{}{"kind": "utxos", "count": len(us), "lib": trunc(string(ldoc))}, "utxos"+string(ldoc), len(us) > 0)
}

// ---------- amounts ----------

// observeAmount: the library's node document for an output of `sat` satoshis: the float64 it
// carries (bits) and the satoshis read back from it
func observeAmount(sat uint64) (bits uint64, back uint64, ok bool) {
	o := &bt.Output{Satoshis: sat, LockingScript: &bscript.Script{}}
	var doc []byte
	var err error
	in := map[string]uint64{"satoshis": sat}
	if p, msg := common.Safely(func() { doc, err = json.Marshal(o.NodeJSON()) }); p || err != nil {
		c.Violate("json.Marshal(output.NodeJSON())/marshal-panic", fmt.Sprint(msg, err), in)
		return 0, 0, false
	}
	var nd nodeOutDoc
	o2 := &bt.Output{}
	if p, msg := common.Safely(func() { err = json.Unmarshal(doc, o2.NodeJSON()) }); p || err != nil {
		c.Violate("json.Marshal(output.NodeJSON())/unmarshal-panic", fmt.Sprint(msg, err), in)
		return 0, 0, false
	}
	_ = json.Unmarshal(doc, &nd)
	if sat <= maxMoney && o2.Satoshis != sat {
		c.Violate("json.Marshal(output.NodeJSON())/amount-roundtrip", fmt.Sprintf("%d satoshis come back as %d (document %s)", sat, o2.Satoshis, doc), in)
	}
	// the same through the UTXO wrapper
	u := &bt.UTXO{TxID: []byte{}, Satoshis: sat, LockingScript: &bscript.Script{}}
	u2 := &bt.UTXO{}
	if doc2, err := json.Marshal(u.NodeJSON()); err == nil {
		if json.Unmarshal(doc2, u2.NodeJSON()) == nil && u2.Satoshis != o2.Satoshis {
			c.Violate("json.Marshal(utxo.NodeJSON())/amount-differs-from-output", fmt.Sprintf("%d: output %d utxo %d", sat, o2.Satoshis, u2.Satoshis), in)
		}
	}
	return math.Float64bits(nd.Value), o2.Satoshis, true
}

func amountDigest(sats []uint64) (string, bool) {
	h := sha256.New()
	var buf [16]byte
	for _, s := range sats {
		bits, back, ok := observeAmount(s)
		if !ok {
			return "", false
		}
		binary.LittleEndian.PutUint64(buf[:8], bits)
		binary.LittleEndian.PutUint64(buf[8:], back)
		h.Write(buf[:])
	}
	return hex.EncodeToString(h.Sum(nil)), true
}

func amountRange(start, count uint64) {
	sats := make([]uint64, count)
	for i := range sats {
		sats[i] = start + uint64(i)
	}
	d, ok := amountDigest(sats)
	if !ok {
		return
	}
	c.Tally("amount-range")
	c.Stats.Extra["amounts_evaluated"] = c.Stats.Extra["amounts_evaluated"].(int) + int(count)
	c.Case(fmt.Sprintf("CAmtRange %d %d %s", start, count, common.CoqStr(d)), map[string]interface{}{"kind": "amount-range", "start": start, "count": count}, fmt.Sprintf("ar%d+%d", start, count), true)
}

func amountList(sats []uint64) {
	d, ok := amountDigest(sats)
	if !ok {
		return
	}
	var ss []string
	for _, s := range sats {
		ss = append(ss, fmt.Sprint(s))
	}
	c.Tally("amount-list")
	c.Stats.Extra["amounts_evaluated"] = c.Stats.Extra["amounts_evaluated"].(int) + len(sats)
	c.Case(fmt.Sprintf("CAmtList [%s] %s", strings.Join(ss, "; "), common.CoqStr(d)), map[string]interface{}{"kind": "amount-list", "first": sats[0], "count": len(sats)}, "al"+strings.Join(ss, ","), true)
}

func boundaryAmounts() []uint64 {
	seen := map[uint64]bool{}
	var out []uint64
	add := func(v uint64) {
		if v <= maxMoney && !seen[v] {
			seen[v] = true
			out = append(out, v)
		}
	}
	p := uint64(1)
	for j := 0; j <= 15; j++ {
		for k := uint64(1); k <= 21; k++ {
			if k > 9 && k != 21 {
				continue
			}
			v := k * p
			add(v - 1)
			add(v)
			add(v + 1)
			add(v + p/2)
		}
		p *= 10
	}
	for k := uint(0); k <= 51; k++ {
		add(1<<k - 1)
		add(1 << k)
		add(1<<k + 1)
	}
	add(maxMoney)
	add(maxMoney - 1)
	return out
}

func trunc(s string) string {
	if len(s) > 500 {
		return s[:500] + fmt.Sprintf("...(%d chars)", len(s))
	}
	return s
}

// ---------- transactions at every build stage ----------

func stagedTxs(r *common.Rand, n int) {
	ctx := context.Background()
	for k := 0; k < n; k++ {
		guard("tx-build-stages", map[string]int{"k": k}, func() { stagedTx(ctx, r) })
	}
}

func stagedTx(ctx context.Context, r *common.Rand) {
	{
		pk, _ := bec.PrivKeyFromBytes(bec.S256(), r.Bytes(32))
		lock, err := bscript.NewP2PKHFromPubKeyBytes(pk.PubKey().SerialiseCompressed())
		if err != nil {
			panic(err)
		}
		tx := bt.NewTx()
		nin := 1 + r.Intn(3)
		for i := 0; i < nin; i++ {
			if err := tx.From(common.Hex(r.Bytes(32)), uint32(r.Intn(4)), lock.String(), 1000+uint64(r.Intn(100000))); err != nil {
				panic(err)
			}
		}
		for i := r.Intn(3); i >= 0; i-- {
			switch r.Intn(3) {
			case 0:
				_ = tx.PayTo(lock, uint64(r.Intn(5000)))
			case 1:
				_ = tx.AddOpReturnOutput(r.Bytes(r.Intn(40)))
			default:
				_ = tx.PayTo(bscript.NewFromBytes(r.Bytes(r.Intn(30))), txgen.U64(r)%(maxMoney+1))
			}
		}
		if r.Chance(30) {
			tx.LockTime = txgen.U32(r)
			tx.Version = txgen.U32(r)
		}
		txCase("unsigned", tx)
		if err := tx.FillInput(ctx, &unlocker.Simple{PrivateKey: pk}, bt.UnlockerParams{InputIdx: uint32(r.Intn(nin))}); err != nil {
			panic(err)
		}
		if nin > 1 {
			txCase("partially-signed", tx)
		}
		if err := tx.FillAllInputs(ctx, &unlocker.Getter{PrivateKey: pk}); err != nil {
			panic(err)
		}
		txCase("signed", tx)
		// and as a decoder returns it
		if d, err := bt.NewTxFromBytes(tx.ExtendedBytes()); err == nil {
			txCase("decoded-extended", d)
		}
	}
}

func main() {
	c = common.Parse("C16")
	if c.Out != "" {
		os.Remove(filepath.Join(c.Out, "stats.json")) // a crash must not leave an older run's statistics behind
	}
	c.SetHeader(header)
	c.Stats.Extra["amounts_evaluated"] = 0
	r := common.NewRand(c.Seed)
	big := c.Thorough() || c.Mode == "search"
	c.PerShard = 30
	c.ShardBytes = 60000

	// 1. transactions at every build stage, then generated transactions (nil/empty unlocking
	// scripts, arbitrary output script bytes, boundary field values), both dialects
	nStaged, nGen := 25, 60
	if big {
		nStaged, nGen = 400, 3000
	}
	stagedTxs(r, nStaged)
	txCase("empty", bt.NewTx())
	{
		amb := bt.NewTx()
		amb.LockTime = 0xef000000
		txCase("ambiguous", amb)
	}
	var pool bt.Txs
	for i := 0; i < nGen; i++ {
		s := txgen.Gen(r, false)
		for j := range s.Outs {
			if r.Chance(70) {
				s.Outs[j].Sats %= maxMoney + 1
			}
		}
		tx := txgen.Build(s)
		if ambiguous(tx) {
			continue
		}
		txCase("generated", tx)
		if len(pool) < 12 {
			pool = append(pool, tx)
		}
	}
	// script shapes the assembly renderer and the node document treat specially, as locking and as unlocking
	// scripts: data scripts with pushes of 0..6 bytes in every order of two, zero-length PUSHDATA forms alone and
	// concatenated, truncated pushes, lone opcodes
	{
		var shapes [][]byte
		for a := 0; a <= 6; a++ {
			for b := 0; b <= 6; b++ {
				pa, pb := append([]byte{byte(a)}, r.Bytes(a)...), append([]byte{byte(b)}, r.Bytes(b)...)
				shapes = append(shapes, append(append([]byte{0x00, 0x6a}, pa...), pb...), append(append([]byte{0x6a}, pa...), pb...))
			}
		}
		shapes = append(shapes, []byte{0x4c, 0x00}, []byte{0x4d, 0x00, 0x00}, []byte{0x4e, 0, 0, 0, 0}, []byte{0x4c, 0x00, 0x4c, 0x00}, []byte{0x4c, 0x00, 0x4d, 0x00, 0x00, 0x4e, 0, 0, 0, 0},
			[]byte{0x6a, 0x4c, 0x00}, []byte{0x00, 0x6a, 0x4c, 0x00, 0x03, 1, 2, 3, 0x51}, []byte{0x4c, 0x00, 0x51}, []byte{0x00}, []byte{0x00, 0x00}, []byte{0x4c}, []byte{0x05, 0x01}, []byte{0x4d, 0xff}, []byte{0x51}, []byte{0x6a}, []byte{0x00, 0x6a})
		// push headers whose declared length sits at the top of the length field's range (header + length wraps in
		// 8 / 16 / 32 bits), with nothing, a little and some data after them, bare and behind the data-script prefixes
		for _, hdr := range [][]byte{{0x4c, 0xff}, {0x4c, 0xfe}, {0x4d, 0xff, 0xff}, {0x4d, 0xfd, 0xff}, {0x4e, 0xff, 0xff, 0xff, 0xff}, {0x4e, 0xfe, 0xff, 0xff, 0xff},
			{0x4e, 0xfd, 0xff, 0xff, 0xff}, {0x4e, 0xfc, 0xff, 0xff, 0xff}, {0x4e, 0xfb, 0xff, 0xff, 0xff}, {0x4e, 0xfa, 0xff, 0xff, 0xff}, {0x4e, 0xff, 0xff, 0xff, 0x7f}, {0x4e, 0x00, 0x00, 0x00, 0x80}} {
			for _, pre := range [][]byte{{}, {0x00, 0x6a}, {0x6a}, {0x76, 0xa9}} {
				for _, after := range [][]byte{{}, {0x01}, {1, 2, 3, 4, 5, 6, 7}} {
					shapes = append(shapes, append(append(append([]byte{}, pre...), hdr...), after...))
				}
			}
		}
		// inscription envelopes behind a P2PKH prefix whose protocol tag is not the three bytes "ord": shorter, longer,
		// empty, pushed with the long forms; and with fields missing from the end (the classifier indexes into the parts)
		{
			pre := append(append([]byte{0x76, 0xa9, 0x14}, r.Bytes(20)...), 0x88, 0xac)
			for _, tag := range [][]byte{{0x01, 'o'}, {0x02, 'o', 'r'}, {0x03, 'o', 'r', 'd'}, {0x04, 'o', 'r', 'd', 'x'}, {0x00}, {0x4c, 0x00}, {0x4c, 0x01, 'o'}, {0x4c, 0x03, 'o', 'r', 'd'}, {0x51}} {
				full := append(append(append([]byte{}, pre...), 0x00, 0x63), tag...)
				full = append(full, 0x51, 0x0a, 't', 'e', 'x', 't', '/', 'p', 'l', 'a', 'i', 'n', 0x00, 0x05, 'h', 'e', 'l', 'l', 'o', 0x68)
				shapes = append(shapes, full, full[:len(full)-1], full[:len(full)-7], full[:len(pre)+2+len(tag)], full[:len(pre)+2+len(tag)+1])
			}
		}
		for i, sh := range shapes {
			tx := bt.NewTx()
			in := &bt.Input{PreviousTxOutIndex: uint32(i), SequenceNumber: 0xffffffff}
			_ = in.PreviousTxIDAdd(r.Bytes(32))
			if i%3 == 0 {
				in.UnlockingScript = bscript.NewFromBytes(append([]byte{}, sh...))
			}
			tx.Inputs = append(tx.Inputs, in)
			tx.Outputs = append(tx.Outputs, &bt.Output{Satoshis: uint64(i), LockingScript: bscript.NewFromBytes(append([]byte{}, sh...))},
				&bt.Output{Satoshis: 1, LockingScript: bscript.NewFromBytes([]byte{0x51})})
			txCase("script-shape", tx)
			if i%5 == 0 {
				outCase(uint64(i), sh)
			}
		}
	}
	// 2. lists
	for _, n := range []int{0, 1, 2, 5} {
		if n <= len(pool) {
			txsCase(pool[:n])
		}
	}
	// 2b. round 8 (round8.go): lists with repeated / near-identical elements, destinations with a past, sizes of
	// 64 KiB .. 1 MiB
	repeatFamily(r, big, pool)
	pastFamily(r, big, pool)
	sizeFamily(r, big)
	// 3. outputs and UTXOs: boundary amounts x script shapes
	scripts := [][]byte{{}, common.Unhex("76a914000102030405060708090a0b0c0d0e0f1011121388ac"), {0x6a}, {0x00, 0x6a, 0x01, 0xff}, {0x4c}, {0x01}, r.Bytes(40)}
	amts := []uint64{0, 1, 2, 3, 6, 545, 546, 99999999, 100000000, 100000001, 2099999999999999, maxMoney, maxMoney + 1, 1 << 53, 1<<53 + 1, 1<<63 - 1, 1 << 63, 1<<64 - 1}
	for _, a := range amts {
		for i, s := range scripts {
			if i < 2 || r.Chance(30) {
				outCase(a, s)
			}
		}
	}
	var us bt.UTXOs
	for i, a := range amts {
		u := &bt.UTXO{TxID: r.Bytes(32), Vout: txgen.U32(r), Satoshis: a, LockingScript: bscript.NewFromBytes(scripts[i%len(scripts)]), SequenceNumber: txgen.U32(r)}
		switch i % 5 {
		case 1:
			u.LockingScript = nil
		case 2:
			u.TxID = nil
		case 3:
			u.TxID = r.Bytes(5)
		}
		utxoCase(u)
		if a <= maxMoney {
			us = append(us, u)
		}
	}
	utxosCase(us)
	utxosCase(bt.UTXOs{})
	nOut := 40
	if big {
		nOut = 2000
	}
	for i := 0; i < nOut; i++ {
		outCase(r.U64()%(maxMoney+1), txgen.Script(r, false))
	}

	// 3b. near-misses of every standard template in every container (nearmiss.go)
	nearMisses(big)

	// 4. amounts: exhaustive low range + decimal and binary boundaries up to 21e14
	c.PerShard = 1
	hi, step := uint64(10000), uint64(1000)
	if big {
		hi = 3000000
		c.PerShard = 12
	}
	if c.Mode == "search" {
		// Go side only: the predicate is evaluated inside observeAmount
		for s := uint64(0); s < hi; s++ {
			observeAmount(s)
		}
	} else {
		for s := uint64(0); s < hi; s += step {
			amountRange(s, step)
		}
	}
	b := boundaryAmounts()
	for i := 0; i < len(b); i += 400 {
		j := i + 400
		if j > len(b) {
			j = len(b)
		}
		amountList(b[i:j])
	}
	// random amounts over the whole range
	nr := 400
	if big {
		nr = 20000
	}
	for i := 0; i < nr; i += 400 {
		l := make([]uint64, 400)
		for k := range l {
			l[k] = r.U64() % (maxMoney + 1)
		}
		amountList(l)
	}

	c.Stats.Rule = "transactions at every build stage through the public API (tx.From = unsigned, FillInput on one input = partially signed, FillAllInputs = signed, NewTxFromBytes of the extended bytes = decoded) plus generated transactions (nil/empty unlocking scripts, arbitrary output script bytes, boundary uint32/uint64 values), each marshalled and unmarshalled in the library and the node dialect and with the node document's hex removed (vin/vout path); transactions whose locking / unlocking scripts are data scripts with two pushes of 0..6 bytes each (both carrier forms), zero-length PUSHDATA forms alone and concatenated, truncated pushes and lone opcodes; marshalling must leave the source transaction byte-identical; lists of 0/1/2/5, also unmarshalled into variables that already hold three transactions (with and without spare capacity); NEAR-MISSES of every standard script template (harness/scriptnear: P2PKH, P2PK 33/65, P2SH, bare multisig 0-of-1 / 1-of-1 / 1-of-2 / 2-of-3 / 15-of-15 / 1-of-16 / 16-of-16, both data carriers, four P2PKH inscriptions built by Tx.Inscribe, three unlocking-script shapes): each token and each range of tokens removed, each token doubled, each push re-cut to the lengths 0..3, n-2..n+2, 18..22, 32..34, 64..66, 75, 76 (every length 0..24 for a hash), replaced by the empty / long push forms, cut short, re-encoded, each opcode replaced by every small-integer opcode with both neighbours and by the template opcodes, all pushes emptied or cut to 1..3 bytes at once and in pairs, every truncation, single bytes at the structural positions (thorough: every value), and a grid OP_m <k keys> OP_n OP_CHECKMULTISIG over m in {0,1,2,16} x n in OP_0, OP_1NEGATE..OP_NOP x k in {0,1,2,3,15,16,17} keys present - each script with capacity = length in an output, in a transaction as locking script (every other one also as unlocking script; as built and as decoded), in a UTXO, and eight at a time in lists of transactions and of UTXOs, both dialects and the vin/vout path (Go level, all cores); a seed-chosen 1/97 of them (thorough 1/211) through the full transaction / output / UTXO cases and 1/13 (thorough 1/47) as CNodeScript cases (asm, reqSigs, type of the node document against the model of bscript's inspection code that the any-script theorems are about); ROUND 8 (round8.go): SIZES - transactions whose serialisation is exactly 2^16-1 / 2^16 / 2^16+1 (every run, each of five shapes: one big data output, one big non-data locking script, one big unlocking script, thousands of P2PKH outputs, thousands of inputs), 2^17-1..2^17+1, 2^20-1..2^20+1 and a random size in 64 KiB .. 1 MiB (thorough: every edge 2^16..2^20 +-1 and six random sizes per shape), as built and as decoded, alone and in lists next to a small one / twice, their big scripts in an output and a UTXO of their own and in UTXO lists, all outputs of a many-output transaction as one UTXO list of one txid, lists of 253 / 1000 / 65537 elements - every container of both dialects and the vin/vout path at the Go level, one transaction just above 64 KiB per run also on the model (CBig: big parts written as generator expressions expanded inside Coq, documents and read-back serialisations compared through SHA-256); REPEATS - UTXO lists with the same object twice, equal copies, one txid (one slice) with vouts n,n+1,n+1,n, one outpoint with two amounts / two scripts / amounts one satoshi apart, txids one bit apart, five times the same, and random draws with replacement from pools of three plus such variants (model cases CUtxos: every element read back in both dialects); transaction lists with the same transaction object twice, equal copies, copies one field apart (locktime, version, one amount, one sequence number); transactions with the same input two to four times, the same output object twice and equal outputs; DESTINATIONS WITH A PAST - for every UnmarshalJSON entry point (Tx, Txs, Output, UTXO, UTXOs; library and node dialect; node transactions and lists also without hex) the document of a generated source is decoded into: values built the way the library builds them (every UTXO of one previous transaction referring to ONE txid slice, scripts shared by pointer with that transaction, transactions built with FromUTXOs from them, shallow copies of one transaction), lists shorter / as long / longer than the document, lists of length 1 whose backing array holds stale elements, values another document was decoded into before, the source itself, txid slices that are overlapping windows of one buffer, nil pointer variables, one object refreshed from four documents in a row; the result must be the source's fields whatever the destination held, and objects that are NOT the destination (the previous transaction, a spending transaction, another UTXO of the same txid slice, the caller's struct copy) must read as before; plus random heaps for model/JsonHeap.v (CInto: 1-4 buffers, 1-5 UTXO objects whose txid is a window of a buffer and whose script is a buffer's script object, a destination backing array of 0-6 slots with nil and repeated pointers and any length, 0-5 documents: the elements afterwards AND every object of the heap afterwards against the model of encoding/json's array decoding + UTXO.UnmarshalJSON / the node wrappers); outputs and UTXOs over boundary amounts (0,1,2,3,6,dust,1e8+-1,21e14+-1,2^53,2^63,2^64-1) x script shapes incl. nil script / odd txid lengths for UTXOs; amounts: every amount 0..9999 (thorough: 0..2,999,999) in ranges of 1000, k*10^j-1/+0/+1/+half for k in 1..9,21 and j in 0..15, 2^k-1/+0/+1 for k in 0..51, and random amounts up to 21e14 - each observed through output.NodeJSON() and utxo.NodeJSON() (float64 bits of the value written, satoshis read back). distinct = distinct serialised input; non-trivial = transactions with at least one input or output, every output/UTXO/amount case"
	c.Finish()
}
