// Round 8: three classes of input the families of main.go / nearmiss.go never produce.
//
//  1. SIZES beyond the generators' range. Everything generated so far is a few hundred bytes; here transactions of
//     64 KiB .. 1 MiB (one big data output, one big non-data locking script, one big unlocking script, thousands of
//     outputs, thousands of inputs; serialised sizes exactly at 2^16-1 / 2^16 / 2^16+1 / 2^17+-1 / 2^20+-1 and random
//     ones in between) and lists of hundreds .. 2^16+1 elements go through every container of both dialects. The Go
//     level states the property on each; ONE of the transactions per run (just above 64 KiB) also goes to the model
//     as a CBig case: the big parts are written as a generator expression (lcg_bytes seed n; big_outs / big_ins) that
//     coq/corr/C16.v expands, and documents / read-back serialisations are compared through SHA-256.
//
//  2. Lists with REPEATED and near-identical elements: the same outpoint twice (same object twice, equal copies), the
//     same txid with different vouts, the same outpoint with a different amount / script, identical transactions, a
//     transaction next to one that differs in one field, transactions with identical inputs / outputs. UTXO lists
//     are now also model cases (CUtxos): every element read back in both dialects against marshal_utxos /
//     unmarshal_utxos / node_*.
//
//  3. DESTINATIONS with a past. encoding/json decodes INTO what the destination already holds (existing elements of a
//     slice are reused, stale elements between len and cap too), and every UnmarshalJSON method of the library gets a
//     receiver that may have a history: built by the library itself (Tx.FromUTXOs / AddP2PKHInputsFromTx style: every
//     UTXO of one transaction refers to ONE txid slice, scripts are shared by pointer with the transaction they come
//     from), decoded before from another document, being the source itself, a shallow copy of another object,
//     windows of one buffer. For every entry point (Tx, Txs, Output, UTXO, UTXOs; both dialects; node transactions
//     also without "hex") the result must be the value that was marshalled - whatever the destination held - and
//     objects that are NOT the destination but share buffers with what it held (the previous transaction, a spending
//     transaction built from the same UTXOs, another UTXO) must still serialise as before.
//     model/JsonHeap.v states this over a heap of buffers and objects (CInto cases).
package main

import (
	"crypto/sha256"
	"encoding/hex"
	"encoding/json"
	"fmt"
	"strings"

	"github.com/libsv/go-bt/v2"
	"github.com/libsv/go-bt/v2/bscript"

	"verif/harness/common"
	"verif/harness/txgen"
)

// ---------- projections (what the property compares) ----------

type uSnap struct {
	TxID  string `json:"txid"`
	Vout  uint32 `json:"vout"`
	Sats  uint64 `json:"satoshis"`
	Lock  string `json:"script"`
	IsNil bool   `json:"nil_element,omitempty"`
}

func snapU(u *bt.UTXO) uSnap {
	if u == nil {
		return uSnap{IsNil: true}
	}
	return uSnap{TxID: hex.EncodeToString(u.TxID), Vout: u.Vout, Sats: u.Satoshis, Lock: scriptHex(u.LockingScript)}
}
func snapUs(l bt.UTXOs) []uSnap {
	out := make([]uSnap, len(l))
	for i, u := range l {
		out[i] = snapU(u)
	}
	return out
}
func sameSnaps(a, b []uSnap) bool {
	if len(a) != len(b) {
		return false
	}
	for i := range a {
		if a[i] != b[i] {
			return false
		}
	}
	return true
}
func firstDiff(got, want []uSnap) string {
	if len(got) != len(want) {
		return fmt.Sprintf("%d elements, expected %d", len(got), len(want))
	}
	for i := range got {
		if got[i] != want[i] {
			return fmt.Sprintf("element %d is %s:%d %d sat script %s, expected %s:%d %d sat script %s", i, got[i].TxID, got[i].Vout, got[i].Sats, trunc(got[i].Lock),
				want[i].TxID, want[i].Vout, want[i].Sats, trunc(want[i].Lock))
		}
	}
	return "equal"
}

// a transaction's serialisation says every field the documents carry
func txSer(t *bt.Tx) string {
	if t == nil {
		return "<nil>"
	}
	return string(t.Bytes())
}
func txsSer(l bt.Txs) []string {
	out := make([]string, len(l))
	for i, t := range l {
		out[i] = txSer(t)
	}
	return out
}
func sameStrs(a, b []string) bool {
	if len(a) != len(b) {
		return false
	}
	for i := range a {
		if a[i] != b[i] {
			return false
		}
	}
	return true
}
func txsDiff(got, want []string) string {
	if len(got) != len(want) {
		return fmt.Sprintf("%d transactions, expected %d", len(got), len(want))
	}
	for i := range got {
		if got[i] != want[i] {
			return fmt.Sprintf("transaction %d serialises as %s (%d bytes), expected %s (%d bytes)", i, trunc(hex.EncodeToString([]byte(got[i]))), len(got[i]), trunc(hex.EncodeToString([]byte(want[i]))), len(want[i]))
		}
	}
	return "equal"
}

type oSnap struct {
	Sats uint64
	Lock string
}

func snapO(o *bt.Output) oSnap { return oSnap{o.Satoshis, scriptHex(o.LockingScript)} }

// bystander: something that is not the destination; what it says must not change
type bystander struct {
	name string
	say  func() string
	was  string
}

func watch(name string, say func() string) *bystander { return &bystander{name, say, say()} }
func changed(bs []*bystander) string {
	show := func(s string) string {
		for i := 0; i < len(s); i++ {
			if s[i] < 0x20 || s[i] > 0x7e {
				return trunc(hex.EncodeToString([]byte(s))) // a serialisation
			}
		}
		return trunc(s)
	}
	for _, b := range bs {
		if now := b.say(); now != b.was {
			return fmt.Sprintf("%s was %s before the call and is %s after it", b.name, show(b.was), show(now))
		}
	}
	return ""
}

func shaHex(b []byte) string {
	h := sha256.Sum256(b)
	return hex.EncodeToString(h[:])
}

// ---------- the dialects as tables: the same families run through every entry point ----------

type txDialect struct {
	site string
	mar  func(*bt.Tx) interface{}
	unm  func(*bt.Tx) interface{}
	doc  func([]byte) []byte // a transformation of the document (the vin/vout path)
	node bool
	flds bool // the amounts come back from the float64 coin values
}

func ident(b []byte) []byte { return b }

var txDialects = []txDialect{
	{"json.Marshal(*bt.Tx)", func(t *bt.Tx) interface{} { return t }, func(t *bt.Tx) interface{} { return t }, ident, false, false},
	{"json.Marshal(tx.NodeJSON())", func(t *bt.Tx) interface{} { return t.NodeJSON() }, func(t *bt.Tx) interface{} { return t.NodeJSON() }, ident, true, false},
	{"json.Marshal(tx.NodeJSON())/without-hex", func(t *bt.Tx) interface{} { return t.NodeJSON() }, func(t *bt.Tx) interface{} { return t.NodeJSON() },
		func(d []byte) []byte { return withoutKey(d, "hex") }, true, true},
}

type txsDialect struct {
	site string
	mar  func(bt.Txs) interface{}
	unm  func(*bt.Txs) interface{}
	doc  func([]byte) []byte
	node bool
	flds bool
}

// inSupply: every amount is one the float64 coin values must carry exactly
func inSupply(l ...*bt.Tx) bool {
	for _, t := range l {
		for _, o := range t.Outputs {
			if o.Satoshis > maxMoney {
				return false
			}
		}
	}
	return true
}

func eachWithoutHex(d []byte) []byte {
	var l []json.RawMessage
	if json.Unmarshal(d, &l) != nil {
		return d
	}
	for i := range l {
		l[i] = withoutKey(l[i], "hex")
	}
	bb, _ := json.Marshal(l)
	return bb
}

var txsDialects = []txsDialect{
	{"json.Marshal(bt.Txs)", func(l bt.Txs) interface{} { return l }, func(l *bt.Txs) interface{} { return l }, ident, false, false},
	{"json.Marshal(txs.NodeJSON())", func(l bt.Txs) interface{} { return l.NodeJSON() }, func(l *bt.Txs) interface{} { return l.NodeJSON() }, ident, true, false},
	{"json.Marshal(txs.NodeJSON())/without-hex", func(l bt.Txs) interface{} { return l.NodeJSON() }, func(l *bt.Txs) interface{} { return l.NodeJSON() }, eachWithoutHex, true, true},
}

type outDialect struct {
	site string
	wrap func(*bt.Output) interface{}
	node bool
}

var outDialects = []outDialect{
	{"json.Marshal(*bt.Output)", func(o *bt.Output) interface{} { return o }, false},
	{"json.Marshal(output.NodeJSON())", func(o *bt.Output) interface{} { return o.NodeJSON() }, true},
}

type utxoDialect struct {
	site string
	wrap func(*bt.UTXO) interface{}
	node bool
}

var utxoDialects = []utxoDialect{
	{"json.Marshal(*bt.UTXO)", func(u *bt.UTXO) interface{} { return u }, false},
	{"json.Marshal(utxo.NodeJSON())", func(u *bt.UTXO) interface{} { return u.NodeJSON() }, true},
}

type utxosDialect struct {
	site string
	mar  func(bt.UTXOs) interface{}
	unm  func(*bt.UTXOs) interface{}
	node bool
}

var utxosDialects = []utxosDialect{
	{"json.Marshal(bt.UTXOs)", func(l bt.UTXOs) interface{} { return l }, func(l *bt.UTXOs) interface{} { return l }, false},
	{"json.Marshal(utxos.NodeJSON())", func(l bt.UTXOs) interface{} { return l.NodeJSON() }, func(l *bt.UTXOs) interface{} { return l.NodeJSON() }, true},
}

// ---------- 1. sizes ----------

// lcgBytes: the byte sequence coq/corr/C16.v [lcg_bytes] expands (x' = (1103515245 x + 12345) mod 2^31, byte = x' / 2^16 mod 256)
func lcgBytes(seed uint64, n int) []byte {
	x := seed % (1 << 31)
	b := make([]byte, n)
	for i := range b {
		x = (x*1103515245 + 12345) % (1 << 31)
		b[i] = byte(x >> 16)
	}
	return b
}

// bigTx: a transaction whose serialisation is exactly `target` bytes (>= 1000), of one of five shapes, and the Gallina
// term of the same transaction with the big parts as generator expressions
type bigTx struct {
	kind string
	tx   *bt.Tx
	coq  string
	desc map[string]interface{}
}

func varIntLen(n int) int {
	switch {
	case n < 0xfd:
		return 1
	case n <= 0xffff:
		return 3
	case n <= 0xffffffff:
		return 5
	}
	return 9
}

var bigKinds = []string{"data-output", "non-data-locking-script", "unlocking-script", "many-outputs", "many-inputs"}

func coqInput(txid []byte, vout uint32, unlock string, seq uint32) string {
	return fmt.Sprintf("mkGInput %s %d %s %d 0 None", common.CoqBytes(txid), vout, unlock, seq)
}

func buildBig(kind string, seed uint64, target int) bigTx {
	p2pkh := append(append([]byte{0x76, 0xa9, 0x14}, lcgBytes(seed+7, 20)...), 0x88, 0xac)
	txid := lcgBytes(seed+9, 32)
	tx := bt.NewTx()
	tx.LockTime = uint32(seed % 1000)
	desc := map[string]interface{}{"family": "size/" + kind, "serialised_size": target, "generator_seed": seed}
	mkIn := func(txid []byte, vout uint32, unlock []byte) *bt.Input {
		in := &bt.Input{PreviousTxOutIndex: vout, SequenceNumber: 0xffffffff}
		if err := in.PreviousTxIDAdd(txid); err != nil {
			panic(err)
		}
		if unlock != nil {
			in.UnlockingScript = bscript.NewFromBytes(unlock)
		}
		return in
	}
	var insCoq, outsCoq string // Gallina terms of type list ginput / list goutput
	// fixed part: version 4, counts, one input (32+4+varint+script+4), locktime 4
	switch kind {
	case "data-output", "non-data-locking-script":
		unlock := lcgBytes(seed+11, 106)
		tx.Inputs = append(tx.Inputs, mkIn(txid, 1, unlock))
		tx.Outputs = append(tx.Outputs, &bt.Output{Satoshis: 1000, LockingScript: bscript.NewFromBytes(p2pkh)})
		base := 4 + 1 + (32 + 4 + 1 + 106 + 4) + 1 + (8 + 1 + 25) + 4
		// the big output: 8 + varint(len) + len
		n := target - base - 8
		n -= varIntLen(n - 3) // script length's own varint (3 or 5 bytes here)
		for 8+varIntLen(n)+n+base < target {
			n++
		}
		for 8+varIntLen(n)+n+base > target {
			n--
		}
		var pre []byte
		if kind == "data-output" {
			// OP_FALSE OP_RETURN OP_PUSHDATA4 <len> payload
			m := n - 7
			pre = []byte{0x00, 0x6a, 0x4e, byte(m), byte(m >> 8), byte(m >> 16), byte(m >> 24)}
			n = m
		}
		script := append(append([]byte{}, pre...), lcgBytes(seed, n)...)
		tx.Outputs = append(tx.Outputs, &bt.Output{Satoshis: 0, LockingScript: bscript.NewFromBytes(script)})
		insCoq = "[" + coqInput(txid, 1, "(Some "+common.CoqBytes(unlock)+")", 0xffffffff) + "]"
		outsCoq = fmt.Sprintf("[mkGOutput 1000 (Some %s); mkGOutput 0 (Some (%s ++ lcg_bytes %d %d)%%list)]", common.CoqBytes(p2pkh), common.CoqBytes(pre), seed%(1<<31), n)
		desc["big_script"] = fmt.Sprintf("output 1: %s followed by %d generated bytes", hex.EncodeToString(pre), n)
	case "unlocking-script":
		base := 4 + 1 + (32 + 4 + 4) + 1 + (8 + 1 + 25) + 4
		n := target - base
		n -= varIntLen(n - 3)
		for varIntLen(n)+n+base < target {
			n++
		}
		for varIntLen(n)+n+base > target {
			n--
		}
		tx.Inputs = append(tx.Inputs, mkIn(txid, 0, lcgBytes(seed, n)))
		tx.Outputs = append(tx.Outputs, &bt.Output{Satoshis: 5000, LockingScript: bscript.NewFromBytes(p2pkh)})
		insCoq = "[" + coqInput(txid, 0, fmt.Sprintf("(Some (lcg_bytes %d %d))", seed%(1<<31), n), 0xffffffff) + "]"
		outsCoq = fmt.Sprintf("[mkGOutput 5000 (Some %s)]", common.CoqBytes(p2pkh))
		desc["big_script"] = fmt.Sprintf("unlocking script of input 0: %d generated bytes", n)
	case "many-outputs":
		// outputs of 8+1+25 = 34 bytes; the last one is padded so that the total is exact
		tx.Inputs = append(tx.Inputs, mkIn(txid, 2, nil)) // not signed yet
		base := 4 + 1 + (32 + 4 + 1 + 4) + 4
		k := (target - base - 3 - 40) / 34
		pad := target - base - varIntLen(k+1) - 34*k - 9
		for i := 0; i < k; i++ {
			s := append(append([]byte{0x76, 0xa9, 0x14}, lcgBytes(seed+uint64(i), 20)...), 0x88, 0xac)
			tx.Outputs = append(tx.Outputs, &bt.Output{Satoshis: uint64(i), LockingScript: bscript.NewFromBytes(s)})
		}
		tx.Outputs = append(tx.Outputs, &bt.Output{Satoshis: 546, LockingScript: bscript.NewFromBytes(lcgBytes(seed+3, pad))})
		insCoq = "[" + coqInput(txid, 2, "None", 0xffffffff) + "]"
		outsCoq = fmt.Sprintf("(big_outs %d %d ++ [mkGOutput 546 (Some (lcg_bytes %d %d))])%%list", seed%(1<<31), k, (seed+3)%(1<<31), pad)
		desc["shape"] = fmt.Sprintf("%d generated P2PKH outputs of i satoshis and one output of %d bytes", k, pad)
	case "many-inputs":
		// inputs of 32+4+1+4 = 41 bytes (empty unlocking scripts); one output padded
		base := 4 + 4
		k := (target - base - 3 - 60) / 41
		pad := target - base - varIntLen(k) - 41*k - 1 - 9
		for i := 0; i < k; i++ {
			var u []byte
			if i%2 == 0 {
				u = []byte{}
			}
			tx.Inputs = append(tx.Inputs, mkIn(lcgBytes(seed+uint64(i), 32), uint32(i), u))
		}
		tx.Outputs = append(tx.Outputs, &bt.Output{Satoshis: 1, LockingScript: bscript.NewFromBytes(lcgBytes(seed+3, pad))})
		insCoq = fmt.Sprintf("(big_ins %d %d)", seed%(1<<31), k)
		outsCoq = fmt.Sprintf("[mkGOutput 1 (Some (lcg_bytes %d %d))]", (seed+3)%(1<<31), pad)
		desc["shape"] = fmt.Sprintf("%d generated inputs (every other one unsigned) and one output of %d bytes", k, pad)
	default:
		panic(kind)
	}
	coq := fmt.Sprintf("(mkGTx 1 %s %s %d)", insCoq, outsCoq, tx.LockTime)
	if got := len(tx.Bytes()); got != target {
		panic(fmt.Sprintf("size family: %s built %d bytes for target %d", kind, got, target))
	}
	desc["tx_sha256"] = shaHex(tx.Bytes())
	desc["tx_head"] = trunc(hex.EncodeToString(tx.Bytes()))
	return bigTx{kind, tx, coq, desc}
}

// txThrough: one transaction through the three transaction dialects, fresh destination (Go level)
func txThrough(tx *bt.Tx, in interface{}) {
	want := txSer(tx)
	id := tx.TxID()
	for _, d := range txDialects {
		if d.flds && !inSupply(tx) {
			continue // without hex: amounts beyond the supply are outside the property
		}
		doc, ok := marshal(d.site, d.mar(tx), in)
		if !ok {
			continue
		}
		if txSer(tx) != want {
			c.Violate("json.Marshal(*bt.Tx)/marshalling-modifies-the-transaction", "the source serialises differently after "+d.site, in)
			return
		}
		t2 := bt.NewTx()
		if !unmarshal(d.site, d.doc(doc), d.unm(t2), in) {
			continue
		}
		if got := txSer(t2); got != want || t2.TxID() != id {
			c.Violate(d.site+"/roundtrip-serialisation", fmt.Sprintf("unmarshal(marshal tx) serialises as %d bytes (txid %s, %d inputs, %d outputs), the transaction as %d bytes (txid %s, %d inputs, %d outputs); the document has %d bytes",
				len(got), t2.TxID(), len(t2.Inputs), len(t2.Outputs), len(want), id, len(tx.Inputs), len(tx.Outputs), len(doc)), in)
		}
		// the document states the transaction: its hex (when present it is the serialisation) and its size
		var hd struct {
			Hex  *string `json:"hex"`
			TxID string  `json:"txid"`
		}
		if json.Unmarshal(doc, &hd) != nil || hd.Hex == nil || *hd.Hex != hex.EncodeToString([]byte(want)) || hd.TxID != id {
			c.Violate(d.site+"/document-fields", "the document does not state the transaction's hex / txid", in)
		}
	}
}

// txsThrough: a list through the list dialects, fresh destination
func txsThrough(l bt.Txs, in interface{}) {
	want := txsSer(l)
	for _, d := range txsDialects {
		if d.flds && !inSupply(l...) {
			continue
		}
		doc, ok := marshal(d.site, d.mar(l), in)
		if !ok {
			continue
		}
		var l2 bt.Txs
		if !unmarshal(d.site, d.doc(doc), d.unm(&l2), in) {
			continue
		}
		if got := txsSer(l2); !sameStrs(got, want) {
			c.Violate(d.site+"/roundtrip-serialisation", "list differs: "+txsDiff(got, want), in)
		}
	}
}

func outThrough(o *bt.Output, in interface{}) {
	want := snapO(o)
	for _, d := range outDialects {
		if d.node && o.Satoshis > maxMoney {
			continue
		}
		doc, ok := marshal(d.site, d.wrap(o), in)
		if !ok {
			continue
		}
		o2 := &bt.Output{}
		if unmarshal(d.site, doc, d.wrap(o2), in) && snapO(o2) != want {
			c.Violate(d.site+"/roundtrip-fields", fmt.Sprintf("satoshis %d -> %d, script of %d bytes -> %d bytes", want.Sats, o2.Satoshis, len(want.Lock)/2, len(scriptHex(o2.LockingScript))/2), in)
		}
	}
}

func utxoThrough(u *bt.UTXO, in interface{}) {
	want := snapU(u)
	for _, d := range utxoDialects {
		if d.node && u.Satoshis > maxMoney {
			continue
		}
		doc, ok := marshal(d.site, d.wrap(u), in)
		if !ok {
			continue
		}
		u2 := &bt.UTXO{}
		if unmarshal(d.site, doc, d.wrap(u2), in) && snapU(u2) != want {
			c.Violate(d.site+"/roundtrip-fields", "txid/vout/script/satoshis differ: "+firstDiff([]uSnap{snapU(u2)}, []uSnap{want}), in)
		}
	}
}

func utxosThrough(l bt.UTXOs, in interface{}) {
	want := snapUs(l)
	for _, d := range utxosDialects {
		doc, ok := marshal(d.site, d.mar(l), in)
		if !ok {
			continue
		}
		var l2 bt.UTXOs
		if unmarshal(d.site, doc, d.unm(&l2), in) {
			if got := snapUs(l2); !sameSnaps(got, want) {
				c.Violate(d.site+"/roundtrip-fields", "list differs: "+firstDiff(got, want), in)
			}
		}
	}
}

// bigCase: the model case of one big transaction (hashes of what was written and read back)
func bigCase(b bigTx) {
	tx := b.tx
	want := tx.Bytes()
	ldoc, err1 := json.Marshal(tx)
	ndoc, err2 := json.Marshal(tx.NodeJSON())
	if err1 != nil || err2 != nil {
		return // reported by txThrough
	}
	var ld libDoc
	var nd nodeDoc
	if json.Unmarshal(ldoc, &ld) != nil || json.Unmarshal(ndoc, &nd) != nil {
		return
	}
	t2, t3, t4 := &bt.Tx{}, bt.NewTx(), bt.NewTx()
	if json.Unmarshal(ldoc, t2) != nil || json.Unmarshal(ndoc, t3.NodeJSON()) != nil || json.Unmarshal(withoutKey(ndoc, "hex"), t4.NodeJSON()) != nil {
		return
	}
	hexBytes, err := hex.DecodeString(ld.Hex)
	if err != nil {
		return
	}
	// the scripts the library document lists next to the hex
	var fields []byte
	for _, i := range ld.Inputs {
		if i != nil {
			s, _ := hex.DecodeString(i.UnlockingScript)
			fields = append(fields, s...)
		}
	}
	for _, o := range ld.Outputs {
		if o != nil {
			s, _ := hex.DecodeString(o.LockingScript)
			fields = append(fields, s...)
		}
	}
	coq := fmt.Sprintf("CBig %s %s %d %s %s %d %d %s %d %s %s %s", b.coq, common.CoqStr(ld.TxID), len(ld.Hex), common.CoqStr(shaHex(hexBytes)), common.CoqStr(shaHex(fields)),
		len(ld.Inputs), len(ld.Outputs), common.CoqStr(nd.TxID), nd.Size, common.CoqStr(shaHex(t2.Bytes())), common.CoqStr(shaHex(t3.Bytes())), common.CoqStr(shaHex(t4.Bytes())))
	c.Tally("size/model-case/" + b.kind)
	c.Weigh(c.ShardBytes) // a shard of its own: the model hashes ~10 x 64 KiB
	c.Case(coq, b.desc, "big"+string(want), true)
}

func sizeFamily(r *common.Rand, big bool) {
	// serialised sizes: the powers of two in 64 KiB .. 1 MiB, each -1 / +0 / +1, and random ones in between
	edges := []int{1<<16 - 1, 1 << 16, 1<<16 + 1, 1<<17 - 1, 1 << 17, 1<<17 + 1, 1<<18 + 1, 1<<19 + 1, 1<<20 - 1, 1 << 20, 1<<20 + 1}
	type job struct {
		kind   string
		target int
		full   bool // every container (a 1 MiB transaction costs ~0.1 s per JSON call: the largest ones go through the entry points once)
	}
	var jobs []job
	if big {
		for _, k := range bigKinds {
			for _, e := range edges {
				jobs = append(jobs, job{k, e, e <= 1<<17+1})
			}
			for i := 0; i < 3; i++ {
				jobs = append(jobs, job{k, 1<<16 + r.Intn(1<<20-1<<16), false})
			}
		}
	} else {
		// every shape once around 2^16 (which of -1 / 0 / +1 rotates with the seed; one shape, rotating, through every
		// container as built and as decoded, the others through every entry point once), one shape around 2^17, and one
		// large one: 1 MiB -1 / +0 / +1 on even seeds, a random size in 64 KiB .. 1 MiB on odd ones
		sd := int(c.Seed % 1000)
		for i, k := range bigKinds {
			jobs = append(jobs, job{k, edges[(sd+i)%3], i == sd%5})
		}
		jobs = append(jobs, job{bigKinds[(sd+2)%5], edges[3+sd%3], false})
		if sd%2 == 0 {
			jobs = append(jobs, job{bigKinds[(sd/2)%3], edges[8+(sd/2)%3], false})
		} else {
			jobs = append(jobs, job{bigKinds[r.Intn(3)], 1<<16 + r.Intn(1<<20-1<<16), false}) // one script of that size (tens of thousands of inputs / outputs: thorough)
		}
	}
	small := bt.NewTx()
	_ = small.From(hex.EncodeToString(r.Bytes(32)), 1, "76a914eb0bd5edba389198e73f8efabddfc61666969ff788ac", 5000)
	_ = small.PayTo(bscript.NewFromBytes(common.Unhex("76a914eb0bd5edba389198e73f8efabddfc61666969ff788ac")), 4000)
	for i, j := range jobs {
		j := j
		seed := r.U64() % (1 << 31)
		guard("size-family", map[string]interface{}{"kind": j.kind, "serialised_size": j.target}, func() {
			b := buildBig(j.kind, seed, j.target)
			c.Tally("size/" + j.kind)
			txThrough(b.tx, b.desc)
			lists := []bt.Txs{{small, b.tx}}
			if j.full {
				// as the decoder returns it
				if d, err := bt.NewTxFromBytes(b.tx.Bytes()); err == nil {
					txThrough(d, b.desc)
				} else {
					c.Violate("NewTxFromBytes/rejects-own-serialisation", err.Error(), b.desc)
				}
				lists = append(lists, bt.Txs{b.tx, small, b.tx}, bt.Txs{b.tx})
			}
			// in lists: next to a small one (and twice, alone)
			for _, l := range lists {
				in := map[string]interface{}{"family": "size/list", "count": len(l), "big_element": b.desc}
				txsThrough(l, in)
			}
			// its big scripts in an output and in a UTXO of their own, and in a list of UTXOs
			var us bt.UTXOs
			for vout, o := range b.tx.Outputs {
				if len(*o.LockingScript) >= 1<<15 {
					in := map[string]interface{}{"family": "size/output", "script_len": len(*o.LockingScript), "taken_from_output": vout, "of": b.desc}
					outThrough(&bt.Output{Satoshis: 1 + uint64(vout), LockingScript: o.LockingScript}, in)
					u := &bt.UTXO{TxID: b.tx.TxIDBytes(), Vout: uint32(vout), Satoshis: 1 + uint64(vout), LockingScript: o.LockingScript}
					if j.full {
						utxoThrough(u, in)
						us = append(us, u)
					}
					us = append(us, &bt.UTXO{TxID: r.Bytes(32), Vout: 0, Satoshis: 546, LockingScript: bscript.NewFromBytes(common.Unhex("76a914eb0bd5edba389198e73f8efabddfc61666969ff788ac"))}, u)
				}
			}
			if j.kind == "many-outputs" && (big || i%2 == 0) {
				// every output as a UTXO of this transaction: a list of thousands, all of one txid (one slice, as
				// Tx.AddP2PKHInputsFromTx builds them)
				id := b.tx.TxIDBytes()
				for vout, o := range b.tx.Outputs {
					us = append(us, &bt.UTXO{TxID: id, Vout: uint32(vout), Satoshis: o.Satoshis, LockingScript: o.LockingScript})
				}
			}
			if len(us) > 0 {
				utxosThrough(us, map[string]interface{}{"family": "size/utxo-list", "count": len(us), "of": b.desc})
			}
			c.Case("", b.desc, "size"+string(b.tx.Bytes()), true)
		})
	}
	// one of them for the model, just above 2^16 (kept small: the model hashes it seven times; ~10 s of Coq for the three
	// script shapes, ~30 s for the shapes with thousands of elements, which therefore go to the model in thorough only)
	mk := []string{bigKinds[int(c.Seed+uint64(r.Intn(3)))%3]}
	if big {
		mk = bigKinds
	}
	for _, kind := range mk {
		kind := kind
		guard("size-family/model-case", map[string]string{"kind": kind}, func() {
			bigCase(buildBig(kind, r.U64()%(1<<31), 1<<16+1+r.Intn(3000)))
		})
	}
	// lists long by their COUNT: 253 (varint boundary), 1000, 2^16+1 elements
	counts := []int{253, 1000, 1<<16 + 1}
	if big {
		counts = append(counts, 256, 1<<16-1, 1<<16, 1<<17+1)
	}
	for _, n := range counts {
		n := n
		guard("size-family/long-list", map[string]int{"count": n}, func() {
			us := make(bt.UTXOs, n)
			lock := bscript.NewFromBytes(common.Unhex("76a914eb0bd5edba389198e73f8efabddfc61666969ff788ac"))
			if n > 1<<15 {
				lock = bscript.NewFromBytes([]byte{0x51}) // tens of thousands of elements: the count matters, not the scripts
			}
			id := r.Bytes(32)
			for i := range us {
				if i%7 == 3 {
					id = r.Bytes(32)
				}
				us[i] = &bt.UTXO{TxID: id, Vout: uint32(i % 5), Satoshis: uint64(i) * 1001 % (maxMoney + 1), LockingScript: lock}
			}
			utxosThrough(us, map[string]interface{}{"family": "size/long-utxo-list", "count": n, "generator": "element i: vout i mod 5, satoshis 1001 i, a new random txid every 7 elements, one P2PKH script"})
			c.Tally("size/long-utxo-list")
			if n <= 1000 || big {
				txs := make(bt.Txs, 0, n)
				for i := 0; i < n; i++ {
					t := bt.NewTx()
					t.LockTime = uint32(i / 2) // neighbours are identical in pairs
					_ = t.PayTo(lock, uint64(i/2))
					txs = append(txs, t)
				}
				txsThrough(txs, map[string]interface{}{"family": "size/long-tx-list", "count": n, "generator": "element i: locktime i/2, one P2PKH output of i/2 satoshis"})
				c.Tally("size/long-tx-list")
			}
			c.Case("", map[string]interface{}{"kind": "size/long-list", "count": n}, fmt.Sprintf("longlist%d", n), true)
		})

	}
}

// ---------- 2. repeated and near-identical elements ----------

func cloneU(u *bt.UTXO) *bt.UTXO {
	cp := &bt.UTXO{TxID: append([]byte{}, u.TxID...), Vout: u.Vout, Satoshis: u.Satoshis, SequenceNumber: u.SequenceNumber}
	if u.LockingScript != nil {
		cp.LockingScript = bscript.NewFromBytes(append([]byte{}, *u.LockingScript...))
	}
	return cp
}

func cloneTx(t *bt.Tx) *bt.Tx {
	d, err := bt.NewTxFromBytes(t.ExtendedBytes())
	if err != nil {
		panic(err)
	}
	return d
}

func repeatFamily(r *common.Rand, big bool, txPool bt.Txs) {
	p2pkh := func() *bscript.Script {
		return bscript.NewFromBytes(append(append([]byte{0x76, 0xa9, 0x14}, r.Bytes(20)...), 0x88, 0xac))
	}
	mk := func() *bt.UTXO {
		return &bt.UTXO{TxID: r.Bytes(32), Vout: uint32(r.Intn(4)), Satoshis: r.U64() % (maxMoney + 1), LockingScript: p2pkh()}
	}
	variant := func(u *bt.UTXO, what int) *bt.UTXO {
		v := cloneU(u)
		switch what {
		case 0: // an equal copy
		case 1: // the same txid (the SAME slice), another vout
			v.TxID = u.TxID
			v.Vout = u.Vout + 1
		case 2: // the same outpoint with another amount
			v.Satoshis = u.Satoshis/2 + 1
		case 3: // the same outpoint with another script
			v.LockingScript = p2pkh()
		case 4: // the same outpoint, amount one satoshi apart
			v.Satoshis = u.Satoshis ^ 1
		case 5: // a txid that differs in the last byte only
			v.TxID[31] ^= 1
		case 6: // a txid that differs in the first byte only
			v.TxID[0] ^= 0x80
		}
		return v
	}
	a, b := mk(), mk()
	lists := []bt.UTXOs{
		{a, a},                         // one object twice
		{a, variant(a, 0)},             // equal copies
		{a, b, a},                      // repeated with another in between
		{a, b, variant(a, 0), variant(b, 0)},
		{a, variant(a, 1), variant(a, 1), a}, // one txid, vouts n, n+1, n+1, n
		{a, variant(a, 2)},             // one outpoint, two amounts
		{variant(a, 3), a},             // one outpoint, two scripts
		{a, variant(a, 4), a},          //
		{a, variant(a, 5), variant(a, 6)},
		{a, a, a, a, a},
		{b, variant(b, 2), variant(b, 3), variant(b, 1), b},
	}
	nRand := 8
	if big {
		nRand = 400
	}
	for i := 0; i < nRand; i++ {
		pool := bt.UTXOs{mk(), mk(), mk()}
		var l bt.UTXOs
		for k := 2 + r.Intn(6); k > 0; k-- {
			u := pool[r.Intn(len(pool))]
			if r.Chance(50) {
				u = variant(u, r.Intn(7))
				if r.Chance(30) {
					pool = append(pool, u)
				}
			}
			l = append(l, u)
		}
		lists = append(lists, l)
	}
	for _, l := range lists {
		c.Tally("repeat/utxo-list")
		utxosCase(l)
	}
	// transactions: identical (one object twice, equal copies), one field apart
	if len(txPool) >= 3 {
		t, u, v := txPool[0], txPool[1], txPool[2]
		near := func(t *bt.Tx, what int) *bt.Tx {
			n := cloneTx(t)
			switch what {
			case 0:
			case 1:
				n.LockTime ^= 1
			case 2:
				n.Version ^= 1
			case 3:
				if len(n.Outputs) > 0 {
					n.Outputs[0].Satoshis ^= 1
				} else {
					n.LockTime += 2
				}
			case 4:
				if len(n.Inputs) > 0 {
					n.Inputs[0].SequenceNumber ^= 1
				} else {
					n.Version += 2
				}
			}
			return n
		}
		tlists := []bt.Txs{{t, t}, {t, near(t, 0)}, {t, u, t}, {t, near(t, 1)}, {near(t, 3), t, near(t, 4)}, {u, u, u, u}, {v, near(v, 2), v, near(v, 0), u}}
		for i := 0; i < nRand/2; i++ {
			var l bt.Txs
			for k := 2 + r.Intn(4); k > 0; k-- {
				x := txPool[r.Intn(len(txPool))]
				if r.Chance(50) {
					x = near(x, r.Intn(5))
				}
				l = append(l, x)
			}
			tlists = append(tlists, l)
		}
		for _, l := range tlists {
			c.Tally("repeat/tx-list")
			txsCase(l)
			txsThrough(l, map[string]interface{}{"family": "repeat/tx-list", "count": len(l)})
		}
	}
	// inside one transaction: the same input twice / three times, identical outputs, inputs of one txid (one slice)
	nIn := 6
	if big {
		nIn = 200
	}
	for i := 0; i < nIn; i++ {
		tx := bt.NewTx()
		id := r.Bytes(32)
		lock := p2pkh()
		var unlock *bscript.Script
		if i%2 == 0 {
			unlock = bscript.NewFromBytes(r.Bytes(1 + r.Intn(70)))
		}
		for k := 2 + r.Intn(3); k > 0; k-- {
			in := &bt.Input{PreviousTxOutIndex: uint32(i % 3), SequenceNumber: 0xffffffff, UnlockingScript: unlock}
			if k == 1 && r.Bool() {
				in.PreviousTxOutIndex++ // same txid, another vout
			}
			_ = in.PreviousTxIDAdd(id)
			tx.Inputs = append(tx.Inputs, in)
		}
		o := &bt.Output{Satoshis: uint64(r.Intn(100000)), LockingScript: lock}
		tx.Outputs = append(tx.Outputs, o, o, &bt.Output{Satoshis: o.Satoshis, LockingScript: lock})
		if r.Bool() {
			tx.Outputs = append(tx.Outputs, &bt.Output{Satoshis: o.Satoshis + 1, LockingScript: lock})
		}
		txCase("repeated-inputs-and-outputs", tx)
	}
}

// CUtxos: a list of UTXOs for the model (called from utxosCase1)
func utxosCoq(us bt.UTXOs, l2, n2 bt.UTXOs) string {
	var gs, lb, nb []string
	for _, u := range us {
		if u == nil || u.Satoshis >= 1<<63 {
			return ""
		}
		lock := "None"
		if u.LockingScript != nil {
			lock = "(Some " + common.CoqBytes(*u.LockingScript) + ")"
		}
		gs = append(gs, fmt.Sprintf("mkGUtxo %s %d %s %d %d", common.CoqBytes(u.TxID), u.Vout, lock, u.Satoshis, u.SequenceNumber))
	}
	for _, u := range l2 {
		if u == nil {
			return ""
		}
		lb = append(lb, utxoCoq(u))
	}
	for _, u := range n2 {
		if u == nil {
			return ""
		}
		nb = append(nb, utxoCoq(u))
	}
	return fmt.Sprintf("CUtxos [%s] [%s] [%s]", strings.Join(gs, "; "), strings.Join(lb, "; "), strings.Join(nb, "; "))
}

// ---------- 3. destinations with a past ----------

type pastCtx struct {
	r      *common.Rand
	txPool bt.Txs
}

func (p *pastCtx) lock() *bscript.Script {
	return bscript.NewFromBytes(append(append([]byte{0x76, 0xa9, 0x14}, p.r.Bytes(20)...), 0x88, 0xac))
}

// prevTx: a previous transaction with k outputs (what the held UTXOs come from)
func (p *pastCtx) prevTx(k int) *bt.Tx {
	t := bt.NewTx()
	_ = t.From(hex.EncodeToString(p.r.Bytes(32)), uint32(p.r.Intn(3)), "76a914eb0bd5edba389198e73f8efabddfc61666969ff788ac", 100000000)
	t.Inputs[0].UnlockingScript = bscript.NewFromBytes(p.r.Bytes(106))
	sameKey := p.lock()
	for i := 0; i < k; i++ {
		l := sameKey // outputs paying one key: one script object
		if p.r.Chance(40) {
			l = p.lock()
		}
		_ = t.PayTo(l, uint64(1000+p.r.Intn(100000)))
	}
	return t
}

// heldFrom: the UTXOs of prev as Tx.AddP2PKHInputsFromTx builds them: the txid computed once, every UTXO refers to that
// slice; the scripts are prev's own script objects
func heldFrom(prev *bt.Tx) (bt.UTXOs, []byte) {
	id := prev.TxIDBytes()
	var l bt.UTXOs
	for i, o := range prev.Outputs {
		l = append(l, &bt.UTXO{TxID: id, Vout: uint32(i), LockingScript: o.LockingScript, Satoshis: o.Satoshis})
	}
	return l, id
}

// spendOf: a transaction built from the held UTXOs (its inputs refer to the same txid slice and script objects)
func spendOf(held bt.UTXOs, lock *bscript.Script) *bt.Tx {
	s := bt.NewTx()
	_ = s.FromUTXOs(held...)
	_ = s.PayTo(lock, 999)
	return s
}

func (p *pastCtx) srcUTXO(i int) *bt.UTXO {
	u := &bt.UTXO{TxID: p.r.Bytes(32), Vout: txgen.U32(p.r), Satoshis: p.r.U64() % (maxMoney + 1), LockingScript: p.lock(), SequenceNumber: txgen.U32(p.r)}
	switch i % 9 {
	case 3:
		u.TxID = p.r.Bytes(5)
	case 5:
		u.TxID = nil
	case 7:
		u.TxID = p.r.Bytes(40)
	case 8:
		u.LockingScript = bscript.NewFromBytes(p.r.Bytes(p.r.Intn(60)))
	}
	return u
}

func (p *pastCtx) srcUTXOs(i int) bt.UTXOs {
	n := []int{0, 1, 2, 3, 3, 4, 6}[i%7]
	var l bt.UTXOs
	var shared []byte
	for k := 0; k < n; k++ {
		u := p.srcUTXO(i + 2*k + 1)
		if i%3 == 0 && len(u.TxID) == 32 {
			// one txid (one slice), different vouts
			if shared == nil {
				shared = u.TxID
			}
			u.TxID = shared
			u.Vout = uint32(k)
		}
		l = append(l, u)
	}
	return l
}

func pastInput(family, site, dest string, doc []byte, extra map[string]interface{}) map[string]interface{} {
	in := map[string]interface{}{"family": family, "entry_point": site, "destination": dest, "document": trunc(string(doc))}
	for k, v := range extra {
		in[k] = v
	}
	return in
}

// --- UTXOs ---

type usDest struct {
	name string
	dest *bt.UTXOs
	by   []*bystander
}

func (p *pastCtx) utxosDests(d utxosDialect, src bt.UTXOs, other bt.UTXOs) []usDest {
	n := len(src)
	var out []usDest
	held := func(k int, sharePtr bool) (bt.UTXOs, []*bystander) {
		prev := p.prevTx(k)
		l, id := heldFrom(prev)
		if sharePtr && len(l) > 0 {
			for _, u := range l {
				u.LockingScript = l[0].LockingScript
			}
		}
		spend := spendOf(l, p.lock())
		outside := &bt.UTXO{TxID: id, Vout: 77, Satoshis: 7, LockingScript: prev.Outputs[0].LockingScript}
		return l, []*bystander{
			watch("the previous transaction the held UTXOs come from", func() string { return txSer(prev) }),
			watch("a transaction built with FromUTXOs from the held UTXOs", func() string { return txSer(spend) }),
			watch("another UTXO of the previous transaction that is not in the list", func() string { bb, _ := json.Marshal(snapU(outside)); return string(bb) }),
		}
	}
	for _, k := range []int{n - 1, n, n + 2} {
		if k < 1 {
			continue
		}
		l, by := held(k, k == n)
		out = append(out, usDest{fmt.Sprintf("a list of %d UTXOs of one previous transaction: one txid slice shared by all of them, scripts shared with that transaction (as Tx.AddP2PKHInputsFromTx builds them)", k), &l, by})
	}
	{
		l, by := held(n+2, false)
		l = l[:1]
		out = append(out, usDest{fmt.Sprintf("a list of length 1 and capacity %d whose backing array holds further UTXOs of the same previous transaction (same txid slice)", n+2), &l, by})
	}
	{
		var l bt.UTXOs
		if json.Unmarshal(mustJSON(d.mar(other)), d.unm(&l)) == nil {
			out = append(out, usDest{fmt.Sprintf("a variable a list of %d UTXOs was decoded into before (same dialect)", len(other)), &l, nil})
		}
	}
	{
		// windows of one buffer: every txid slice has the capacity to run into the next one
		buf := p.r.Bytes(8*(n+1) + 32)
		var l bt.UTXOs
		for i := 0; i <= n; i++ {
			l = append(l, &bt.UTXO{TxID: buf[8*i : 8*i+[]int{32, 5, 0}[i%3]], Vout: uint32(i), Satoshis: 5, LockingScript: p.lock()})
		}
		out = append(out, usDest{"a list whose txid slices are overlapping windows of one buffer (lengths 32, 5, 0)", &l, nil})
	}
	{
		// the source itself: refreshed in place from its own document
		l := src
		out = append(out, usDest{"the marshalled list itself", &l, nil})
	}
	if d.node {
		// the node wrapper builds the list anew: what the variable held cannot matter at all
		u := &bt.UTXO{TxID: p.r.Bytes(32), Vout: 3, Satoshis: 3, LockingScript: p.lock()}
		l := bt.UTXOs{u, u, u}
		out = append(out, usDest{"a list holding one UTXO object three times", &l, []*bystander{watch("the UTXO object the variable held", func() string { bb, _ := json.Marshal(snapU(u)); return string(bb) })}})
	}
	return out
}

func mustJSON(v interface{}) []byte {
	bb, err := json.Marshal(v)
	if err != nil {
		return []byte("null")
	}
	return bb
}

func (p *pastCtx) pastUTXOs(i int) {
	src, other := p.srcUTXOs(i), p.srcUTXOs(i+3)
	for _, d := range utxosDialects {
		want0 := snapUs(src)
		doc, err := json.Marshal(d.mar(src))
		if err != nil {
			continue
		}
		for _, ds := range p.utxosDests(d, src, other) {
			want := want0
			in := pastInput("destination-with-a-past/utxo-list", d.site, ds.name, doc, map[string]interface{}{"expected": want})
			if !unmarshal(d.site, doc, d.unm(ds.dest), in) {
				continue
			}
			c.Tally("past/utxo-list")
			if got := snapUs(*ds.dest); !sameSnaps(got, want) {
				c.Violate(d.site+"/result-depends-on-what-the-destination-held-before", firstDiff(got, want), in)
			}
			if what := changed(ds.by); what != "" {
				c.Violate(d.site+"/unmarshal-changes-an-object-that-is-not-the-destination", what, in)
			}
		}
	}
}

// --- UTXO ---

func (p *pastCtx) pastUTXO(i int) {
	srcs := []*bt.UTXO{p.srcUTXO(i), p.srcUTXO(i + 1), p.srcUTXO(i + 2), p.srcUTXO(i + 3)}
	for _, d := range utxoDialects {
		src := srcs[0]
		want := snapU(src)
		doc, err := json.Marshal(d.wrap(src))
		if err != nil {
			continue
		}
		type dst struct {
			name string
			u    *bt.UTXO
			by   []*bystander
		}
		var dests []dst
		{
			prev := p.prevTx(2)
			l, _ := heldFrom(prev)
			spend := spendOf(l, p.lock())
			dests = append(dests, dst{"a UTXO of a previous transaction: its txid slice is shared with the other UTXO of that transaction, its script with the transaction", l[0], []*bystander{
				watch("the other UTXO of the previous transaction", func() string { bb, _ := json.Marshal(snapU(l[1])); return string(bb) }),
				watch("the previous transaction", func() string { return txSer(prev) }),
				watch("a transaction built with FromUTXOs from both", func() string { return txSer(spend) })}})
		}
		{
			u := &bt.UTXO{}
			if json.Unmarshal(mustJSON(d.wrap(srcs[1])), d.wrap(u)) == nil {
				dests = append(dests, dst{"a UTXO another document was decoded into before", u, nil})
			}
		}
		for _, k := range []int{0, 5, 32} {
			buf := p.r.Bytes(96)
			u := &bt.UTXO{TxID: buf[:k], Vout: 1, Satoshis: 1, LockingScript: p.lock()}
			o := &bt.UTXO{TxID: buf[k : k+32], Vout: 2, Satoshis: 2, LockingScript: u.LockingScript}
			dests = append(dests, dst{fmt.Sprintf("a UTXO whose txid slice (length %d) is the head of a buffer another UTXO's txid continues in", k), u, []*bystander{
				watch("the UTXO whose txid follows in the same buffer", func() string { bb, _ := json.Marshal(snapU(o)); return string(bb) })}})
		}
		dests = append(dests, dst{"the marshalled UTXO itself", src, nil})
		for _, ds := range dests {
			in := pastInput("destination-with-a-past/utxo", d.site, ds.name, doc, map[string]interface{}{"expected": want})
			if !unmarshal(d.site, doc, d.wrap(ds.u), in) {
				continue
			}
			c.Tally("past/utxo")
			if got := snapU(ds.u); got != want {
				c.Violate(d.site+"/result-depends-on-what-the-object-held-before", firstDiff([]uSnap{got}, []uSnap{want}), in)
			}
			if what := changed(ds.by); what != "" {
				c.Violate(d.site+"/unmarshal-changes-an-object-that-is-not-the-destination", what, in)
			}
		}
		if !d.node {
			var np *bt.UTXO
			in := pastInput("destination-with-a-past/utxo", d.site, "a nil *bt.UTXO variable", doc, nil)
			if unmarshal(d.site, doc, &np, in) && (np == nil || snapU(np) != want) {
				c.Violate(d.site+"/roundtrip-fields", "decoded into a nil pointer variable: "+firstDiff([]uSnap{snapU(np)}, []uSnap{want}), in)
			}
		}
		// a feed: one object refreshed from document after document; earlier values kept BY VALUE stay what they were,
		// and another object built from an earlier state (sharing its slices) is not rewritten by a later refresh
		feed := &bt.UTXO{}
		var kept []*bystander
		for step, s := range srcs {
			sdoc, err := json.Marshal(d.wrap(s))
			if err != nil {
				break
			}
			in := pastInput("destination-with-a-past/utxo-feed", d.site, fmt.Sprintf("one UTXO object refreshed from document after document (this is document %d)", step+1), sdoc, nil)
			if !unmarshal(d.site, sdoc, d.wrap(feed), in) {
				break
			}
			if got := snapU(feed); got != snapU(s) {
				c.Violate(d.site+"/result-depends-on-what-the-object-held-before", firstDiff([]uSnap{got}, []uSnap{snapU(s)}), in)
			}
			if what := changed(kept); what != "" {
				c.Violate(d.site+"/unmarshal-changes-an-object-that-is-not-the-destination", what, in)
				break
			}
			if len(feed.TxID) == 32 {
				t := bt.NewTx()
				if t.FromUTXOs(feed) == nil {
					kept = append(kept, watch(fmt.Sprintf("a transaction built with FromUTXOs from the object after document %d", step+1), func() string { return txSer(t) }))
				}
			}
		}
	}
}

// --- Output ---

func (p *pastCtx) pastOutput(i int) {
	srcs := []*bt.Output{
		{Satoshis: p.r.U64() % (maxMoney + 1), LockingScript: p.lock()},
		{Satoshis: uint64(p.r.Intn(1000)), LockingScript: bscript.NewFromBytes(p.r.Bytes(p.r.Intn(80)))},
	}
	for _, d := range outDialects {
		src := srcs[0]
		want := snapO(src)
		doc, err := json.Marshal(d.wrap(src))
		if err != nil {
			continue
		}
		type dst struct {
			name string
			o    *bt.Output
			by   []*bystander
		}
		var dests []dst
		{
			prev := p.prevTx(3)
			prev.Outputs[1].LockingScript = prev.Outputs[0].LockingScript
			other := &bt.Output{Satoshis: 9, LockingScript: prev.Outputs[0].LockingScript}
			dests = append(dests, dst{"output 0 of a transaction whose script object is shared with output 1 and with an output outside it", prev.Outputs[0], []*bystander{
				watch("the output that shares the script object", func() string { return fmt.Sprint(snapO(other)) }),
				watch("output 1 of the same transaction", func() string { return fmt.Sprint(snapO(prev.Outputs[1])) })}})
		}
		{
			o := &bt.Output{}
			if json.Unmarshal(mustJSON(d.wrap(srcs[1])), d.wrap(o)) == nil {
				dests = append(dests, dst{"an output another document was decoded into before", o, nil})
			}
		}
		dests = append(dests, dst{"the marshalled output itself", src, nil})
		for _, ds := range dests {
			in := pastInput("destination-with-a-past/output", d.site, ds.name, doc, map[string]interface{}{"expected_satoshis": want.Sats, "expected_script": want.Lock})
			if !unmarshal(d.site, doc, d.wrap(ds.o), in) {
				continue
			}
			c.Tally("past/output")
			if got := snapO(ds.o); got != want {
				c.Violate(d.site+"/result-depends-on-what-the-object-held-before", fmt.Sprintf("%d satoshis script %s", got.Sats, got.Lock), in)
			}
			if what := changed(ds.by); what != "" {
				c.Violate(d.site+"/unmarshal-changes-an-object-that-is-not-the-destination", what, in)
			}
		}
		if !d.node {
			var np *bt.Output
			in := pastInput("destination-with-a-past/output", d.site, "a nil *bt.Output variable", doc, nil)
			if unmarshal(d.site, doc, &np, in) && (np == nil || snapO(np) != want) {
				c.Violate(d.site+"/roundtrip-fields", "decoded into a nil pointer variable", in)
			}
		}
	}
}

// --- Tx ---

func (p *pastCtx) pickTx(i int) *bt.Tx {
	for k := 0; k < len(p.txPool); k++ {
		t := p.txPool[(i+k)%len(p.txPool)]
		ok := !ambiguous(t)
		for _, o := range t.Outputs {
			if o.Satoshis > maxMoney {
				ok = false
			}
		}
		if ok {
			return t
		}
	}
	return p.prevTx(2)
}

func (p *pastCtx) pastTx(i int) {
	src, otherSrc := p.pickTx(i), p.pickTx(i+1)
	for _, d := range txDialects {
		want := txSer(src)
		doc0, err := json.Marshal(d.mar(src))
		if err != nil {
			continue
		}
		doc := d.doc(doc0)
		type dst struct {
			name string
			t    *bt.Tx
			by   []*bystander
		}
		var dests []dst
		{
			prev := p.prevTx(3)
			held, _ := heldFrom(prev)
			lock := p.lock()
			t := spendOf(held, lock)
			sib := spendOf(held, lock) // a second transaction from the same UTXOs and the same script object
			dests = append(dests, dst{"a transaction built with FromUTXOs from three UTXOs of one previous transaction (one txid slice) paying to a script object another transaction pays to as well", t, []*bystander{
				watch("the previous transaction", func() string { return txSer(prev) }),
				watch("the other transaction built from the same UTXOs and script", func() string { return txSer(sib) }),
				watch("the held UTXOs", func() string { bb, _ := json.Marshal(snapUs(held)); return string(bb) })}})
		}
		{
			t := bt.NewTx()
			if od, err := json.Marshal(d.mar(otherSrc)); err == nil && json.Unmarshal(d.doc(od), d.unm(t)) == nil {
				keep := *t // a shallow copy taken by the caller before the variable is reused
				dests = append(dests, dst{"a transaction another document was decoded into before (the caller kept a copy of the struct)", t, []*bystander{
					watch("the caller's copy of the earlier transaction", func() string { return txSer(&keep) })}})
			}
		}
		{
			by := cloneTx(otherSrc)
			cp := *by
			dests = append(dests, dst{"a shallow copy of another transaction (same input and output slices)", &cp, []*bystander{
				watch("the transaction it is a copy of", func() string { return txSer(by) })}})
		}
		dests = append(dests, dst{"a zero bt.Tx", &bt.Tx{}, nil})
		dests = append(dests, dst{"the marshalled transaction itself", src, nil})
		for _, ds := range dests {
			in := pastInput("destination-with-a-past/tx", d.site, ds.name, doc, map[string]interface{}{"expected_serialisation": trunc(hex.EncodeToString([]byte(want)))})
			if !unmarshal(d.site, doc, d.unm(ds.t), in) {
				continue
			}
			c.Tally("past/tx")
			if got := txSer(ds.t); got != want {
				c.Violate(d.site+"/result-depends-on-what-the-object-held-before", txsDiff([]string{got}, []string{want}), in)
			}
			if what := changed(ds.by); what != "" {
				c.Violate(d.site+"/unmarshal-changes-an-object-that-is-not-the-destination", what, in)
			}
		}
		if !d.node {
			var np *bt.Tx
			in := pastInput("destination-with-a-past/tx", d.site, "a nil *bt.Tx variable", doc, nil)
			if unmarshal(d.site, doc, &np, in) && (np == nil || txSer(np) != want) {
				c.Violate(d.site+"/roundtrip-serialisation", "decoded into a nil pointer variable: "+txsDiff([]string{txSer(np)}, []string{want}), in)
			}
		}
	}
}

// --- Txs ---

func (p *pastCtx) pastTxs(i int) {
	n := []int{0, 1, 2, 3, 4}[i%5]
	var src, other bt.Txs
	for k := 0; k < n; k++ {
		t := p.pickTx(i + 3*k)
		if k > 0 && i%4 == 1 {
			t = src[0] // the same transaction again
		}
		src = append(src, t)
	}
	for k := 0; k < (i+2)%4; k++ {
		other = append(other, p.pickTx(i+5*k+1))
	}
	for _, d := range txsDialects {
		want := txsSer(src)
		doc0, err := json.Marshal(d.mar(src))
		if err != nil {
			continue
		}
		doc := d.doc(doc0)
		type dst struct {
			name string
			l    *bt.Txs
			by   []*bystander
		}
		var dests []dst
		copies := func(k int) (bt.Txs, []*bystander) {
			base := cloneTx(p.pickTx(i + 7))
			var l bt.Txs
			for j := 0; j < k; j++ {
				cp := *base
				cp.LockTime = uint32(j)
				l = append(l, &cp)
			}
			return l, []*bystander{watch("the transaction the held elements are shallow copies of", func() string { return txSer(base) })}
		}
		for _, k := range []int{n - 1, n, n + 2} {
			if k < 1 {
				continue
			}
			l, by := copies(k)
			dests = append(dests, dst{fmt.Sprintf("a list of %d transactions that are shallow copies of one transaction (same input and output slices)", k), &l, by})
		}
		{
			l, by := copies(n + 2)
			l = l[:1]
			dests = append(dests, dst{fmt.Sprintf("a list of length 1 and capacity %d whose backing array holds further shallow copies", n+2), &l, by})
		}
		{
			var l bt.Txs
			if od, err := json.Marshal(d.mar(other)); err == nil && json.Unmarshal(d.doc(od), d.unm(&l)) == nil {
				dests = append(dests, dst{fmt.Sprintf("a variable a list of %d transactions was decoded into before", len(other)), &l, nil})
			}
		}
		if i%4 != 1 {
			l := src
			dests = append(dests, dst{"the marshalled list itself", &l, nil})
		}
		if d.node {
			t := cloneTx(p.pickTx(i + 2))
			l := bt.Txs{t, t, t}
			dests = append(dests, dst{"a list holding one transaction object three times", &l, []*bystander{watch("the transaction object the variable held", func() string { return txSer(t) })}})
		}
		for _, ds := range dests {
			in := pastInput("destination-with-a-past/tx-list", d.site, ds.name, doc, map[string]interface{}{"expected_count": len(want)})
			if !unmarshal(d.site, doc, d.unm(ds.l), in) {
				continue
			}
			c.Tally("past/tx-list")
			if got := txsSer(*ds.l); !sameStrs(got, want) {
				c.Violate(d.site+"/result-depends-on-what-the-destination-held-before", txsDiff(got, want), in)
			}
			if what := changed(ds.by); what != "" {
				c.Violate(d.site+"/unmarshal-changes-an-object-that-is-not-the-destination", what, in)
			}
		}
	}
}

func pastFamily(r *common.Rand, big bool, txPool bt.Txs) {
	p := &pastCtx{r: r, txPool: txPool}
	n := 14
	if big {
		n = 600
	}
	for i := 0; i < n; i++ {
		i := i
		guard("destination-with-a-past/utxo-list", map[string]int{"i": i}, func() { p.pastUTXOs(i) })
		guard("destination-with-a-past/utxo", map[string]int{"i": i}, func() { p.pastUTXO(i) })
		guard("destination-with-a-past/output", map[string]int{"i": i}, func() { p.pastOutput(i) })
		guard("destination-with-a-past/tx", map[string]int{"i": i}, func() { p.pastTx(i) })
		guard("destination-with-a-past/tx-list", map[string]int{"i": i}, func() { p.pastTxs(i) })
		c.Case("", map[string]interface{}{"kind": "destination-with-a-past", "i": i}, fmt.Sprintf("past%d/%d", c.Seed, i), true)
	}
	// the same class for the model: random heaps (model/JsonHeap.v)
	nh := 40
	if big {
		nh = 1500
	}
	for i := 0; i < nh; i++ {
		i := i
		guard("destination-with-a-past/heap", map[string]int{"i": i}, func() { intoCase(r, i%2 == 1) })
	}
}

// ---------- 3b. destinations with a past, for the model (CInto; model/JsonHeap.v) ----------

// A random heap: byte buffers, UTXO objects whose TxID is a window of a buffer and whose LockingScript is the one
// *bscript.Script object of a buffer, and a destination []*bt.UTXO given by its whole backing array (nil and repeated
// pointers included) and its length. The Go objects are built to share exactly what the description says.
func intoCase(r *common.Rand, node bool) {
	lens := []int{0, 5, 32, 32, 40, 64}
	nb := 1 + r.Intn(4)
	bufs := make([][]byte, nb)
	scripts := make([]*bscript.Script, nb)
	for i := range bufs {
		bufs[i] = r.Bytes(lens[r.Intn(len(lens))])
		s := bscript.Script(bufs[i]) // the same memory as the txid windows of this buffer
		scripts[i] = &s
	}
	no := 1 + r.Intn(5)
	objs := make([]*bt.UTXO, no)
	var objDesc []string
	for i := range objs {
		u := &bt.UTXO{Vout: uint32(r.Intn(9)), Satoshis: uint64(r.Intn(100000)), SequenceNumber: uint32(r.Intn(5))}
		txid, lock := "None", "None"
		if r.Chance(85) {
			b := r.Intn(nb)
			off := 0
			if len(bufs[b]) > 0 && r.Chance(40) {
				off = r.Intn(len(bufs[b]) + 1)
			}
			ln := len(bufs[b]) - off
			if r.Chance(40) {
				ln = r.Intn(ln + 1)
			}
			u.TxID = bufs[b][off : off+ln]
			txid = fmt.Sprintf("(Some (mkSlice %d %d %d))", b, off, ln)
		}
		if r.Chance(85) {
			b := r.Intn(nb)
			u.LockingScript = scripts[b]
			lock = fmt.Sprintf("(Some %d%%nat)", b)
		}
		objs[i] = u
		objDesc = append(objDesc, fmt.Sprintf("mkUObj %s %d %s %d %d", txid, u.Vout, lock, u.Satoshis, u.SequenceNumber))
	}
	capN := r.Intn(7)
	arr := make([]*bt.UTXO, capN)
	var backDesc []string
	distinct := true
	used := map[int]bool{}
	nsrc := r.Intn(6)
	for i := range arr {
		if r.Chance(20) {
			backDesc = append(backDesc, "None")
			continue
		}
		k := r.Intn(no)
		if used[k] && r.Chance(70) {
			// mostly distinct elements: look for an unused object
			for t := 0; t < no; t++ {
				if !used[(k+t)%no] {
					k = (k + t) % no
					break
				}
			}
		}
		if used[k] && i < nsrc {
			distinct = false
		}
		if i < nsrc {
			used[k] = true
		}
		arr[i] = objs[k]
		backDesc = append(backDesc, fmt.Sprintf("Some %d%%nat", k))
	}
	ln := 0
	if capN > 0 {
		ln = r.Intn(capN + 1)
	}
	dest := bt.UTXOs(arr[:ln])
	var src bt.UTXOs
	var srcDesc []string
	for i := 0; i < nsrc; i++ {
		u := &bt.UTXO{TxID: r.Bytes([]int{32, 32, 32, 5, 0}[r.Intn(5)]), Vout: uint32(r.Intn(9)), Satoshis: r.U64() % (maxMoney + 1), LockingScript: bscript.NewFromBytes(r.Bytes(r.Intn(30)))}
		src = append(src, u)
		srcDesc = append(srcDesc, fmt.Sprintf("mkGUtxo %s %d (Some %s) %d 0", common.CoqBytes(u.TxID), u.Vout, common.CoqBytes(*u.LockingScript), u.Satoshis))
	}
	d := utxosDialects[0]
	if node {
		d = utxosDialects[1]
	}
	before := snapUs(objs)
	want := snapUs(src)
	var bufDesc []string // the heap BEFORE the call
	for _, b := range bufs {
		bufDesc = append(bufDesc, common.CoqBytes(b))
	}
	doc, err := json.Marshal(d.mar(src))
	if err != nil {
		return
	}
	in := map[string]interface{}{"family": "destination-with-a-past/heap", "entry_point": d.site, "document": trunc(string(doc)),
		"buffers_hex": func() []string {
			var l []string
			for _, b := range bufs {
				l = append(l, hex.EncodeToString(b))
			}
			return l
		}(), "objects (txid = window of a buffer, script = object of a buffer)": objDesc, "destination_backing_array (object indices)": backDesc, "destination_len": ln}
	if !unmarshal(d.site, doc, d.unm(&dest), in) {
		return
	}
	got, after := snapUs(dest), snapUs(objs)
	if (distinct || node) && !sameSnaps(got, want) {
		c.Violate(d.site+"/result-depends-on-what-the-destination-held-before", firstDiff(got, want), in)
	}
	for i := range objs {
		if (node || !used[i]) && after[i] != before[i] {
			c.Violate(d.site+"/unmarshal-changes-an-object-that-is-not-the-destination", fmt.Sprintf("object %d is not one of the elements decoded into; it read %s:%d %d sat script %s before the call and reads %s:%d %d sat script %s after it",
				i, before[i].TxID, before[i].Vout, before[i].Sats, before[i].Lock, after[i].TxID, after[i].Vout, after[i].Sats, after[i].Lock), in)
			break
		}
	}
	coqSnaps := func(l []uSnap) string {
		var ss []string
		for _, s := range l {
			ss = append(ss, fmt.Sprintf("mkUtxoJ %s %d %s %d", common.CoqStr(s.TxID), s.Vout, common.CoqStr(s.Lock), s.Sats))
		}
		return "[" + strings.Join(ss, "; ") + "]"
	}
	coq := fmt.Sprintf("CInto %s [%s] [%s] [%s] [%s] %s %s", common.CoqBool(node), strings.Join(bufDesc, "; "), strings.Join(objDesc, "; "), strings.Join(backDesc, "; "),
		strings.Join(srcDesc, "; "), coqSnaps(got), coqSnaps(after))
	c.Tally("past/heap-case")
	c.Case(coq, in, fmt.Sprintf("into%v/%s/%v/%v/%d", node, doc, objDesc, backDesc, ln), nsrc > 0 && capN > 0)
}
