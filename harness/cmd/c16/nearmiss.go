// Near-misses of the standard script templates through every JSON container. The node dialect runs bscript's
// classification code (ToASM, Addresses, ScriptType and through it IsP2PKH / IsP2PK / IsData / IsMultiSigOut /
// IsP2PKHInscription, PublicKeyHash …) on every output script and ToASM on every unlocking script; the property
// demands that marshalling never panics and round-trips for ANY script bytes. The scripts a classifier is most
// likely to mishandle are the ones that LOOK like a template: the opcodes in place, but parts removed, emptied,
// shortened, or counts that do not agree with the items present (harness/scriptnear). Every such script is put, with
// capacity = length (as hex decoding and the transaction decoder allocate them: a slice expression that runs past
// the length is then a run-time panic, not a read of spare capacity),
//   - into an output on its own,
//   - into a transaction as locking script (and, every other case, as the unlocking script of its input), as built
//     and as the decoder returns it,
//   - into a UTXO,
//   - and, eight at a time, into lists of transactions and of UTXOs,
//
// and marshalled / unmarshalled in both dialects (node transactions also through the vin/vout path). A sample goes
// through the full cases (model side) as well, and a larger sample as CNodeScript cases: what the node document says
// about the script (asm, reqSigs, type) against the model of bscript's classification.
//
// The Go-level part runs on all cores: each group of eight scripts is independent (its own generator seeded by the
// run's seed and the group's index, its own list of findings); findings, tallies and cases are merged in the order
// of the groups, so the output does not depend on the number of cores.
package main

import (
	"bytes"
	"encoding/hex"
	"encoding/json"
	"fmt"
	"runtime"
	"runtime/debug"
	"sync"

	"github.com/libsv/go-bt/v2"
	"github.com/libsv/go-bt/v2/bscript"

	"verif/harness/common"
	"verif/harness/scriptnear"
)

// clip: a script whose capacity is its length
func clip(s []byte) *bscript.Script {
	b := make([]byte, len(s))
	copy(b, s)
	return bscript.NewFromBytes(b[:len(b):len(b)])
}

var nearP2PKH = common.Unhex("76a914000102030405060708090a0b0c0d0e0f1011121388ac")

func nearTx(r *common.Rand, idx int, s []byte) *bt.Tx {
	tx := bt.NewTx()
	in := &bt.Input{PreviousTxOutIndex: uint32(idx), SequenceNumber: 0xffffffff}
	_ = in.PreviousTxIDAdd(r.Bytes(32))
	if idx%2 == 0 {
		in.UnlockingScript = clip(s)
	}
	tx.Inputs = append(tx.Inputs, in)
	tx.Outputs = append(tx.Outputs, &bt.Output{Satoshis: uint64(1000 + idx), LockingScript: clip(s)},
		&bt.Output{Satoshis: 1, LockingScript: clip(nearP2PKH)})
	return tx
}

// nodeScriptDoc: what the node document says about the scripts (asm / type / reqSigs are bscript's answers)
type nodeScriptDoc struct {
	Vin []struct {
		ScriptSig struct {
			Asm string `json:"asm"`
			Hex string `json:"hex"`
		} `json:"scriptSig"`
	} `json:"vin"`
	Vout []struct {
		ScriptPubKey struct {
			Asm     string `json:"asm"`
			Hex     string `json:"hex"`
			ReqSigs int    `json:"reqSigs"`
			Type    string `json:"type"`
		} `json:"scriptPubKey"`
	} `json:"vout"`
}

// recorder: the findings of one group (merged into the run's context afterwards, in order)
type recorder struct {
	viols []common.Violation
}

func (k *recorder) violate(site, what string, in interface{}) {
	k.viols = append(k.viols, common.Violation{Site: site, What: what, Input: in})
}

// same sites and same strictness as marshal / unmarshal of main.go
func (k *recorder) marshal(site string, v interface{}, in interface{}) ([]byte, bool) {
	var bb []byte
	var err error
	if p, msg := common.Safely(func() { bb, err = json.Marshal(v) }); p {
		k.violate(site+"/marshal-panic", msg, in)
		return nil, false
	}
	if err != nil {
		k.violate(site+"/marshal-error", err.Error(), in)
		return nil, false
	}
	return bb, true
}

func (k *recorder) unmarshal(site string, doc []byte, v interface{}, in interface{}) bool {
	var err error
	if p, msg := common.Safely(func() { err = json.Unmarshal(doc, v) }); p {
		k.violate(site+"/unmarshal-panic", msg, in)
		return false
	}
	if err != nil {
		k.violate(site+"/roundtrip-unmarshal-error", err.Error(), in)
		return false
	}
	return true
}

// nearLight: the Go-level statement of the property on one near-miss script in every container (no model case).
func nearLight(k *recorder, r *common.Rand, idx int, kind string, s []byte) (tx *bt.Tx, u *bt.UTXO) {
	in := map[string]interface{}{"family": "near-miss/" + kind, "script": trunc(hex.EncodeToString(s)), "script_len": len(s), "as_unlocking_script_too": idx%2 == 0}
	// the output on its own
	{
		o := &bt.Output{Satoshis: uint64(1000 + idx), LockingScript: clip(s)}
		for _, d := range []struct {
			site string
			v    func(*bt.Output) interface{}
		}{{"json.Marshal(*bt.Output)", func(o *bt.Output) interface{} { return o }}, {"json.Marshal(output.NodeJSON())", func(o *bt.Output) interface{} { return o.NodeJSON() }}} {
			doc, mok := k.marshal(d.site, d.v(o), in)
			if !mok {
				continue
			}
			o2 := &bt.Output{}
			if !k.unmarshal(d.site, doc, d.v(o2), in) {
				continue
			}
			if o2.Satoshis != o.Satoshis || o2.LockingScript == nil || !bytes.Equal(*o2.LockingScript, s) {
				k.violate(d.site+"/roundtrip-fields", fmt.Sprintf("script %s comes back as %s, satoshis %d as %d", trunc(hex.EncodeToString(s)), trunc(scriptHex(o2.LockingScript)), o.Satoshis, o2.Satoshis), in)
			}
		}
	}
	// the transaction, as built and as decoded
	tx = nearTx(r, idx, s)
	want := tx.Bytes()
	id := tx.TxID()
	type stage struct {
		name string
		tx   *bt.Tx
	}
	stages := []stage{{"built", tx}}
	if d, err := bt.NewTxFromBytes(want); err == nil {
		stages = append(stages, stage{"decoded", d})
	} else {
		k.violate("NewTxFromBytes/rejects-own-serialisation", err.Error(), in)
	}
	for _, st := range stages {
		lsite, nsite := "json.Marshal(*bt.Tx)", "json.Marshal(tx.NodeJSON())"
		if st.name == "built" {
			if ldoc, mok := k.marshal(lsite, st.tx, in); mok {
				t2 := &bt.Tx{}
				if k.unmarshal(lsite, ldoc, t2, in) && (!bytes.Equal(t2.Bytes(), want) || t2.TxID() != id) {
					k.violate(lsite+"/roundtrip-serialisation", "unmarshal(marshal tx) serialises differently", in)
				}
			}
		}
		ndoc, mok := k.marshal(nsite, st.tx.NodeJSON(), in)
		if !mok {
			continue
		}
		if !bytes.Equal(st.tx.Bytes(), want) {
			k.violate("json.Marshal(*bt.Tx)/marshalling-modifies-the-transaction", "serialisation changed ("+st.name+")", in)
		}
		t3 := bt.NewTx()
		if k.unmarshal(nsite, ndoc, t3.NodeJSON(), in) && (!bytes.Equal(t3.Bytes(), want) || t3.TxID() != id || !outsEqual(st.tx, t3)) {
			k.violate(nsite+"/roundtrip-serialisation", "unmarshal(marshal tx) differs ("+st.name+")", in)
		}
		// the document states the scripts it was given; without "hex" the vin/vout objects rebuild the transaction (a
		// nil unlocking script comes back as the empty script: same bytes)
		var sd nodeScriptDoc
		if json.Unmarshal(ndoc, &sd) != nil || len(sd.Vout) != 2 || len(sd.Vin) != 1 || sd.Vout[0].ScriptPubKey.Hex != hex.EncodeToString(s) ||
			sd.Vin[0].ScriptSig.Hex != scriptHex(st.tx.Inputs[0].UnlockingScript) {
			k.violate(nsite+"/document-fields", "the document does not state the transaction's scripts ("+st.name+")", in)
		}
		if st.name == "built" {
			t4 := bt.NewTx()
			fsite := nsite + "/without-hex"
			if k.unmarshal(fsite, withoutKey(ndoc, "hex"), t4.NodeJSON(), in) && !bytes.Equal(t4.Bytes(), want) {
				k.violate(fsite+"/roundtrip-serialisation", "vin/vout objects do not reproduce the transaction", in)
			}
		}
	}
	// the UTXO
	u = &bt.UTXO{TxID: r.Bytes(32), Vout: uint32(idx), Satoshis: uint64(1000 + idx), LockingScript: clip(s)}
	for _, d := range []struct {
		site string
		v    func(*bt.UTXO) interface{}
	}{{"json.Marshal(*bt.UTXO)", func(u *bt.UTXO) interface{} { return u }}, {"json.Marshal(utxo.NodeJSON())", func(u *bt.UTXO) interface{} { return u.NodeJSON() }}} {
		doc, mok := k.marshal(d.site, d.v(u), in)
		if !mok {
			continue
		}
		u2 := &bt.UTXO{}
		if !k.unmarshal(d.site, doc, d.v(u2), in) {
			continue
		}
		if !bytes.Equal(u2.TxID, u.TxID) || u2.Vout != u.Vout || u2.Satoshis != u.Satoshis || u2.LockingScript == nil || !bytes.Equal(*u2.LockingScript, s) {
			k.violate(d.site+"/roundtrip-fields", "txid/vout/script/satoshis differ", in)
		}
	}
	return tx, u
}

// nearLists: lists of transactions / UTXOs carrying near-miss scripts, both dialects (Go level)
func nearLists(k *recorder, txs bt.Txs, us bt.UTXOs, kinds []string) {
	var ss []string
	for _, t := range txs {
		ss = append(ss, trunc(scriptHex(t.Outputs[0].LockingScript)))
	}
	in := map[string]interface{}{"family": "near-miss/list", "count": len(txs), "kinds": kinds, "scripts": ss}
	var want []byte
	for _, t := range txs {
		want = append(want, t.Bytes()...)
	}
	cat := func(l bt.Txs) []byte {
		var b []byte
		for _, t := range l {
			b = append(b, t.Bytes()...)
		}
		return b
	}
	if doc, ok := k.marshal("json.Marshal(bt.Txs)", txs, in); ok {
		var l2 bt.Txs
		if k.unmarshal("json.Marshal(bt.Txs)", doc, &l2, in) && (len(l2) != len(txs) || !bytes.Equal(cat(l2), want)) {
			k.violate("json.Marshal(bt.Txs)/roundtrip-serialisation", "list differs", in)
		}
	}
	if doc, ok := k.marshal("json.Marshal(txs.NodeJSON())", txs.NodeJSON(), in); ok {
		var n2 bt.Txs
		if k.unmarshal("json.Marshal(txs.NodeJSON())", doc, n2.NodeJSON(), in) && (len(n2) != len(txs) || !bytes.Equal(cat(n2), want)) {
			k.violate("json.Marshal(txs.NodeJSON())/roundtrip-serialisation", "list differs", in)
		}
	}
	same := func(got bt.UTXOs) bool {
		if len(got) != len(us) {
			return false
		}
		for i, u := range us {
			a := got[i]
			if !bytes.Equal(a.TxID, u.TxID) || a.Vout != u.Vout || a.Satoshis != u.Satoshis || scriptHex(a.LockingScript) != scriptHex(u.LockingScript) {
				return false
			}
		}
		return true
	}
	if doc, ok := k.marshal("json.Marshal(bt.UTXOs)", us, in); ok {
		var l2 bt.UTXOs
		if k.unmarshal("json.Marshal(bt.UTXOs)", doc, &l2, in) && !same(l2) {
			k.violate("json.Marshal(bt.UTXOs)/roundtrip-fields", "list differs", in)
		}
	}
	if doc, ok := k.marshal("json.Marshal(utxos.NodeJSON())", us.NodeJSON(), in); ok {
		var n2 bt.UTXOs
		if k.unmarshal("json.Marshal(utxos.NodeJSON())", doc, n2.NodeJSON(), in) && !same(n2) {
			k.violate("json.Marshal(bt.UTXOs)/roundtrip-fields", "list differs (node dialect)", in)
		}
	}
}

// nodeScriptCase: what the node document says about one script (asm, reqSigs, type as locking script; asm as
// unlocking script) for the model, which evaluates bscript's classification (model/Classify.v, model/Asm.v) in the
// place of the oracle of model/Json.v
func nodeScriptCase(kind string, s []byte) bool {
	tx := bt.NewTx()
	in := &bt.Input{SequenceNumber: 0xffffffff, UnlockingScript: clip(s)}
	_ = in.PreviousTxIDAdd(make([]byte, 32))
	tx.Inputs = append(tx.Inputs, in)
	tx.Outputs = append(tx.Outputs, &bt.Output{Satoshis: 1, LockingScript: clip(s)})
	var doc []byte
	var err error
	if p, _ := common.Safely(func() { doc, err = json.Marshal(tx.NodeJSON()) }); p || err != nil {
		return false // reported by nearLight
	}
	var sd nodeScriptDoc
	if json.Unmarshal(doc, &sd) != nil || len(sd.Vin) != 1 || len(sd.Vout) != 1 {
		return false
	}
	v := sd.Vout[0].ScriptPubKey
	c.Tally("node-script/" + v.Type)
	c.Case(fmt.Sprintf("CNodeScript %s %s %d %s %s", common.CoqBytes(s), common.CoqStr(v.Asm), v.ReqSigs, common.CoqStr(v.Type), common.CoqStr(sd.Vin[0].ScriptSig.Asm)),
		map[string]interface{}{"kind": "node-script/" + kind, "script": trunc(hex.EncodeToString(s)), "asm": trunc(v.Asm), "type": v.Type, "reqSigs": v.ReqSigs},
		"ns"+string(s), len(s) > 0)
	return true
}

// nearMisses: the family. Every near-miss at the Go level; a seed-chosen sample through the full cases (model side)
// and a larger one through nodeScriptCase.
func nearMisses(big bool) {
	all := scriptnear.All(common.NewRand(c.Seed^0x6e656172), big)
	c.Stats.Extra["near_miss_scripts"] = len(all)
	// sixteen workers that allocate a few KB per JSON call: with the default pacing (collect at twice a live heap of a
	// few MB) the collector runs continuously and the workers mostly wait for it
	defer debug.SetGCPercent(debug.SetGCPercent(800))
	const group = 8
	ngroups := (len(all) + group - 1) / group
	recs := make([]recorder, ngroups)
	var wg sync.WaitGroup
	next := make(chan int, ngroups)
	for g := 0; g < ngroups; g++ {
		next <- g
	}
	close(next)
	for w := 0; w < runtime.NumCPU(); w++ {
		wg.Add(1)
		go func() {
			defer wg.Done()
			for g := range next {
				k := &recs[g]
				r := common.NewRand(c.Seed*0x9e3779b97f4a7c15 + uint64(g) + 1)
				var txs bt.Txs
				var us bt.UTXOs
				var kinds []string
				for i := g * group; i < (g+1)*group && i < len(all); i++ {
					n := all[i]
					if p, msg := common.Safely(func() {
						tx, u := nearLight(k, r, i, n.Kind, n.Script)
						txs, us, kinds = append(txs, tx), append(us, u), append(kinds, n.Kind)
					}); p {
						k.violate("near-miss/case/panic", msg, map[string]interface{}{"family": "near-miss/" + n.Kind, "script": trunc(hex.EncodeToString(n.Script))})
					}
				}
				if p, msg := common.Safely(func() { nearLists(k, txs, us, kinds) }); p {
					k.violate("near-miss/list/panic", msg, map[string]interface{}{"kinds": kinds})
				}
			}
		}()
	}
	wg.Wait()
	// merge in order; one fault shows on hundreds of scripts: the findings of the first dozen groups that have any
	violating := 0
	for g := range recs {
		if len(recs[g].viols) > 0 {
			violating++
			if violating <= 12 {
				c.Stats.Violations = append(c.Stats.Violations, recs[g].viols...)
			}
		}
	}
	c.Stats.Extra["near_miss_groups_with_findings"] = violating
	c.Stats.Distribution["near-miss"] += len(all)
	c.Stats.Distribution["near-miss/list"] += ngroups
	// the model-side samples
	r := common.NewRand(c.Seed ^ 0x6e65617232)
	fullEvery, infoEvery := 97, 13
	if big {
		fullEvery, infoEvery = 211, 47
	}
	c.PerShard = 400
	c.ShardBytes = 150000
	for i, n := range all {
		if len(n.Script) <= 120 && (uint64(i)+c.Seed)%uint64(fullEvery) == 0 {
			// the full cases of a transaction, an output and a UTXO carrying it (documents field by field on the model side)
			txCase("near-miss", nearTx(r, i, n.Script))
			outCase(uint64(1000+i), n.Script)
			utxoCase(&bt.UTXO{TxID: r.Bytes(32), Vout: uint32(i), Satoshis: uint64(i), LockingScript: clip(n.Script)})
		}
		if !(nodeScriptCases && len(n.Script) <= 200 && (uint64(i)+c.Seed)%uint64(infoEvery) == 0 && nodeScriptCase(n.Kind, n.Script)) {
			if big && i%16 != 0 {
				// thorough: hundreds of thousands of scripts (distinct by construction): counted, one in sixteen written to cases.jsonl
				c.Stats.Evaluations++
				c.Stats.DistinctNontrivial++
				continue
			}
			c.Case("", map[string]interface{}{"kind": "near-miss/" + n.Kind, "script": trunc(hex.EncodeToString(n.Script))}, "near"+string(n.Script), true)
		}
	}
	c.PerShard = 30
	c.ShardBytes = 60000
}

// nodeScriptCases: CNodeScript cases are written (coq/corr/C16.v evaluates them)
const nodeScriptCases = true
