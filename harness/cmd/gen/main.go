// gen: regenerate coq/gen/*.v from the Go source (see package verif/harness/gen).
package main

import (
	"flag"
	"fmt"
	"os"
	"path/filepath"

	"verif/harness/gen"
)

func main() {
	repo := flag.String("repo", "/repo", "go-bt checkout")
	out := flag.String("out", "", "output directory")
	flag.Parse()
	fail := false
	for _, f := range gen.Files() {
		s, err := gen.Run(f, *repo)
		if err != nil {
			fmt.Fprintf(os.Stderr, "gen %s: %v\n", f, err)
			fail = true
			continue
		}
		if err := os.WriteFile(filepath.Join(*out, f), []byte(s), 0o644); err != nil {
			fmt.Fprintln(os.Stderr, err)
			fail = true
		}
	}
	if fail {
		os.Exit(1)
	}
}
