// Script objects shared between DIFFERENT transactions, and script features of every kind, under concurrent validation.
//
// A wallet or an indexer that interns scripts hands the same *bscript.Script to every output with that script; the
// transactions that spend those outputs are different transactions, validated by different goroutines of one
// engine. The parser slices the script: every pushed constant on the interpreter's stack IS the caller's script
// memory. So "validates with exactly the verdicts sequential validation gives" needs every opcode to only READ the
// operands it pops. Three means, all over the same families of programs:
//
//   - contracts: a locking script object with constants of 2 .. 8193 bytes read by one opcode family (numbers by every
//     arithmetic / comparison / index / lock-time opcode, byte strings by splice / bitwise / shift opcodes, hash
//     opcodes, conditionals, stack movers), spent by several transactions that each bring their own operand x and
//     the result e they expect (computed by a sequential run of the contract's body on x); some bring a wrong e. The
//     verdict depends on every byte of every constant. Run concurrently (race detector + verdicts).
//   - programs of the interpreter generators (opcode x edge-operand matrix, arithmetic
//     edges, grammar-generated programs, the node's script vectors, OP_RETURN tails), each locking script object
//     shared by two transactions. Run concurrently (race detector + verdicts).
//   - the read-only probe (workload engine-ro, deterministic, no schedule involved): the same programs with every
//     script they hand to the engine stored in memory pages the process may only read; an execution that writes into
//     a script it was handed, even if it puts the old bytes back afterwards, faults at the write.
package main

import (
	"bytes"
	"encoding/binary"
	"encoding/hex"
	"fmt"
	"runtime"
	"runtime/debug"
	"sort"
	"sync"
	"sync/atomic"
	"syscall"
	"time"

	"github.com/libsv/go-bk/bec"
	"github.com/libsv/go-bt/v2"
	"github.com/libsv/go-bt/v2/bscript"
	"github.com/libsv/go-bt/v2/bscript/interpreter"
	idebug "github.com/libsv/go-bt/v2/bscript/interpreter/debug"
	"github.com/libsv/go-bt/v2/bscript/interpreter/errs"
	"github.com/libsv/go-bt/v2/bscript/interpreter/scriptflag"
	"github.com/libsv/go-bt/v2/sighash"

	"verif/harness/common"
	"verif/harness/interpgen"
)

// ---------------------------------------------------------------------------------------------
// where a script lives

type allocFn func(b []byte) *bscript.Script

func heapScript(b []byte) *bscript.Script {
	s := bscript.Script(append(make([]byte, 0, len(b)), b...))
	return &s
}

// roArena hands out scripts stored in pages that are mapped read-only while the engine runs: scripts are placed
// while the arena is writable, seal() takes the write permission away, reset() gives it back and forgets the scripts.
type roArena struct {
	chunks [][]byte
	off    int // in the last chunk
	used   int
}

const arenaChunk = 4 << 20

func (a *roArena) grow(n int) {
	size := arenaChunk
	if n > size {
		size = (n + 4095) &^ 4095
	}
	m, err := syscall.Mmap(-1, 0, size, syscall.PROT_READ|syscall.PROT_WRITE, syscall.MAP_ANON|syscall.MAP_PRIVATE)
	if err != nil {
		panic(err)
	}
	a.chunks = append(a.chunks, m)
	a.off = 0
}

func (a *roArena) script(b []byte) *bscript.Script {
	if len(a.chunks) == 0 || a.off+len(b) > len(a.chunks[len(a.chunks)-1]) {
		a.grow(len(b))
	}
	m := a.chunks[len(a.chunks)-1]
	copy(m[a.off:], b)
	s := bscript.Script(m[a.off : a.off+len(b) : a.off+len(b)])
	a.off += len(b) + 1 // scripts are packed: a write past the end of one is a write too
	a.used += len(b) + 1
	return &s
}

func (a *roArena) protect(prot int) {
	for _, m := range a.chunks {
		if err := syscall.Mprotect(m, prot); err != nil {
			panic(err)
		}
	}
}

func (a *roArena) seal() { a.protect(syscall.PROT_READ) }

func (a *roArena) reset() {
	a.protect(syscall.PROT_READ | syscall.PROT_WRITE)
	for len(a.chunks) > 1 {
		_ = syscall.Munmap(a.chunks[len(a.chunks)-1])
		a.chunks = a.chunks[:len(a.chunks)-1]
	}
	a.off, a.used = 0, 0
}

// guarded runs f; a write to (or any other fault at) a mapped-but-protected address becomes the returned message.
func guarded(f func()) (fault string) {
	defer debug.SetPanicOnFault(debug.SetPanicOnFault(true))
	defer func() {
		if rec := recover(); rec != nil {
			if e, ok := rec.(interface{ Addr() uintptr }); ok {
				fault = fmt.Sprintf("memory fault at %#x (%v)", e.Addr(), rec)
				return
			}
			fault = "" // an ordinary panic: not this probe's subject (C05/C07 look at those)
		}
	}()
	f()
	return ""
}

// ---------------------------------------------------------------------------------------------
// a program: scripts + flags + transaction context

type progSpec struct {
	Kind           string
	Lock, Unlock   []byte
	Flags          scriptflag.Flag
	Mode           int // 0: WithScripts; 1: WithTx(tx, 0, prev); 2: WithTx(tx, 0, nil) + WithScripts
	LockTime, Seq  uint32
	Version        uint32
	ExtraIn, ExOut int
}

func (p *progSpec) describe() string {
	return fmt.Sprintf("%s: lock=%x unlock=%x flags=%#x mode=%d locktime=%d version=%d sequence=%#x", p.Kind, p.Lock, p.Unlock, uint32(p.Flags), p.Mode, p.LockTime, p.Version, p.Seq)
}

func fromProgram(q *interpgen.Program) *progSpec {
	p := &progSpec{Kind: "program/" + q.Kind, Lock: q.Lock, Unlock: q.Unlock, Flags: scriptflag.Flag(q.Flags), LockTime: q.TxLock, Version: q.TxVersion,
		Seq: q.InSeq, ExtraIn: q.ExtraIn, ExOut: q.ExtraOut}
	switch {
	case q.HasTx && q.HasPrev:
		p.Mode = 1
	case q.HasTx:
		p.Mode = 2
	}
	return p
}

// transaction: the transaction of a job over the given script objects (salt makes it a different one), the index of
// the input under test and the output it spends.
func (p *progSpec) transaction(lock, unlock *bscript.Script, salt uint64, alloc allocFn) (*bt.Tx, int, *bt.Output) {
	tx := bt.NewTx()
	tx.Version, tx.LockTime = p.Version, p.LockTime
	for k := 0; k < p.ExtraIn; k++ {
		other := &bt.Input{PreviousTxOutIndex: uint32(k + 1), SequenceNumber: 0xfffffffe, UnlockingScript: alloc([]byte{0x51, byte(0x52 + k)})}
		_ = other.PreviousTxIDAdd(bytes.Repeat([]byte{byte(k + 1)}, 32))
		tx.Inputs = append(tx.Inputs, other)
	}
	id := make([]byte, 32)
	binary.LittleEndian.PutUint64(id, salt)
	id[31] = 0xc1
	in := &bt.Input{PreviousTxOutIndex: uint32(salt % 4), SequenceNumber: p.Seq, UnlockingScript: unlock}
	_ = in.PreviousTxIDAdd(id)
	tx.Inputs = append(tx.Inputs, in)
	tx.Outputs = append(tx.Outputs, &bt.Output{Satoshis: 1 + salt%977, LockingScript: alloc([]byte{0x51})})
	for k := 0; k < p.ExOut; k++ {
		tx.Outputs = append(tx.Outputs, &bt.Output{Satoshis: uint64(1000 + k), LockingScript: alloc([]byte{0x76, 0xa9, byte(k)})})
	}
	return tx, p.ExtraIn, &bt.Output{Satoshis: 1000, LockingScript: lock}
}

// build: a job over the given script objects; salt makes the transaction a different one.
func (p *progSpec) build(lock, unlock *bscript.Script, salt uint64, alloc allocFn) job {
	var opts []interpreter.ExecutionOptionFunc
	if p.Mode != 0 {
		tx, idx, prev := p.transaction(lock, unlock, salt, alloc)
		if p.Mode == 1 {
			opts = append(opts, interpreter.WithTx(tx, idx, prev))
		} else {
			opts = append(opts, interpreter.WithTx(tx, idx, nil), interpreter.WithScripts(lock, unlock))
		}
	} else {
		opts = append(opts, interpreter.WithScripts(lock, unlock))
	}
	opts = append(opts, interpreter.WithFlags(p.Flags))
	return job{kind: p.Kind, spec: p, opts: func() []interpreter.ExecutionOptionFunc { return opts }}
}

// ---------------------------------------------------------------------------------------------
// script objects shared by several jobs of a round

type sharedSet struct {
	what []string
	objs []*bscript.Script
	orig [][]byte
}

func (s *sharedSet) add(what string, sc *bscript.Script) *bscript.Script {
	s.what = append(s.what, what)
	s.objs = append(s.objs, sc)
	s.orig = append(s.orig, append([]byte{}, *sc...))
	return sc
}

func (s *sharedSet) changed() []string {
	var bad []string
	for i, o := range s.objs {
		if !bytes.Equal(*o, s.orig[i]) {
			bad = append(bad, fmt.Sprintf("the locking script object of %s, shared by several transactions, reads %x after the round, it was %x", s.what[i], []byte(*o), s.orig[i]))
		}
	}
	return bad
}

// ---------------------------------------------------------------------------------------------
// contracts

const (
	opIF, opNOTIF, opELSE, opENDIF, opVERIFY                     = 0x63, 0x64, 0x67, 0x68, 0x69
	opTOALT, opFROMALT, op2DROP, op2DUP, op3DUP                  = 0x6b, 0x6c, 0x6d, 0x6e, 0x6f
	opDROP, opDUP, opNIP, opOVER, opPICK, opROLL, opROT          = 0x75, 0x76, 0x77, 0x78, 0x79, 0x7a, 0x7b
	opSWAP, opTUCK, opCAT, opSPLIT, opNUM2BIN, opBIN2NUM         = 0x7c, 0x7d, 0x7e, 0x7f, 0x80, 0x81
	opSIZE, opINVERT, opAND, opOR, opXOR, opEQUAL, opEQUALV      = 0x82, 0x83, 0x84, 0x85, 0x86, 0x87, 0x88
	op1ADD, op1SUB, opNEGATE, opABS, opNOT, op0NE                = 0x8b, 0x8c, 0x8f, 0x90, 0x91, 0x92
	opADD, opSUB, opMUL, opDIV, opMOD, opLSHIFT, opRSHIFT        = 0x93, 0x94, 0x95, 0x96, 0x97, 0x98, 0x99
	opBOOLAND, opBOOLOR, opNUMEQ, opNUMEQV, opNUMNE              = 0x9a, 0x9b, 0x9c, 0x9d, 0x9e
	opLT, opGT, opLE, opGE, opMIN, opMAX, opWITHIN               = 0x9f, 0xa0, 0xa1, 0xa2, 0xa3, 0xa4, 0xa5
	opRIPEMD160, opSHA1, opSHA256, opHASH160, opHASH256          = 0xa6, 0xa7, 0xa8, 0xa9, 0xaa
	opCODESEP, opCHECKSIG, opCLTV, opCSV                         = 0xab, 0xac, 0xb1, 0xb2
	op1, op2, op3                                           byte = 0x51, 0x52, 0x53
)

func cat(parts ...interface{}) []byte {
	var out []byte
	for _, p := range parts {
		switch v := p.(type) {
		case byte:
			out = append(out, v)
		case int:
			out = append(out, byte(v))
		case []byte:
			out = append(out, v...)
		default:
			panic("cat")
		}
	}
	return out
}

// push: a data push (never an OP_n: the operand must be bytes of the script)
func push(d []byte) []byte { return interpgen.RawPush(d, -1) }

// idx2: the small non-negative number v as TWO bytes (not minimal; accepted without MINIMALDATA)
func idx2(v int) []byte { return push([]byte{byte(v), byte(v >> 8)}) }

type cparams struct {
	K, K2 []byte // the constants of the contract (numbers, K2 > K when both are positive)
	n     int
}

type contract struct {
	name   string
	x      string // what the spender's operand is: "num", "bytes", "samelen" (as long as K), "any"
	pre    bool   // also usable for outputs created before Genesis (numbers of at most 4 bytes)
	body   func(c *cparams) []byte
	lockOp byte // opCLTV / opCSV: needs a transaction; the result is x itself
}

// the body runs with x on top of the stack and leaves its result there (the expected result e is below it)
var contracts = []contract{
	// numbers read by binary arithmetic and comparison
	{name: "num/ADD", x: "num", pre: true, body: func(c *cparams) []byte { return cat(push(c.K), opADD) }},
	{name: "num/SUB", x: "num", pre: true, body: func(c *cparams) []byte { return cat(push(c.K), opSUB) }},
	{name: "num/SUB-from", x: "num", pre: true, body: func(c *cparams) []byte { return cat(push(c.K), opSWAP, opSUB) }},
	{name: "num/ADD-SUB-NUMEQUAL", x: "num", pre: true, body: func(c *cparams) []byte { return cat(opDUP, push(c.K), opADD, push(c.K), opSUB, opNUMEQ) }},
	{name: "num/MUL", x: "num", body: func(c *cparams) []byte { return cat(push(c.K), opMUL) }},
	{name: "num/DIV", x: "num", pre: true, body: func(c *cparams) []byte { return cat(push(c.K), opDIV) }},
	{name: "num/DIV-by", x: "num", pre: true, body: func(c *cparams) []byte {
		return cat(op1ADD, push(c.K), opSWAP, opDUP, opIF, opDIV, opELSE, opDROP, opENDIF)
	}},
	{name: "num/MOD", x: "num", pre: true, body: func(c *cparams) []byte { return cat(push(c.K), opMOD) }},
	{name: "num/MIN-MAX", x: "num", pre: true, body: func(c *cparams) []byte { return cat(opDUP, push(c.K), opMIN, opSWAP, push(c.K2), opMAX, opCAT) }},
	{name: "num/NUMEQUAL", x: "num", pre: true, body: func(c *cparams) []byte { return cat(push(c.K), opNUMEQ) }},
	{name: "num/NUMNOTEQUAL", x: "num", pre: true, body: func(c *cparams) []byte { return cat(push(c.K), opNUMNE) }},
	{name: "num/NUMEQUALVERIFY", x: "num", pre: true, body: func(c *cparams) []byte { return cat(push(c.K), push(c.K), opNUMEQV) }},
	{name: "num/LESSTHAN-GREATERTHAN", x: "num", pre: true, body: func(c *cparams) []byte {
		return cat(opDUP, push(c.K), opLT, opSWAP, opDUP, push(c.K2), opGT, opSWAP, opDUP, push(c.K), opLE, opSWAP, push(c.K2), opGE, opCAT, opCAT, opCAT)
	}},
	{name: "num/WITHIN", x: "num", pre: true, body: func(c *cparams) []byte { return cat(push(c.K), push(c.K2), opWITHIN) }},
	{name: "num/WITHIN-as-value", x: "num", pre: true, body: func(c *cparams) []byte { return cat(push(c.K), opSWAP, push(c.K2), opWITHIN) }},
	{name: "num/BOOLAND-BOOLOR", x: "num", pre: true, body: func(c *cparams) []byte { return cat(opDUP, push(c.K), opBOOLAND, opSWAP, push(c.K2), opBOOLOR, opCAT) }},
	// numbers read by unary opcodes
	{name: "num/NEGATE", x: "num", pre: true, body: func(c *cparams) []byte { return cat(push(c.K), opNEGATE, opADD) }},
	{name: "num/ABS", x: "num", pre: true, body: func(c *cparams) []byte { return cat(push(c.K), opABS, opADD) }},
	{name: "num/1ADD-1SUB", x: "num", pre: true, body: func(c *cparams) []byte { return cat(push(c.K), op1ADD, opADD, push(c.K2), op1SUB, opSUB) }},
	{name: "num/NOT-0NOTEQUAL", x: "num", pre: true, body: func(c *cparams) []byte { return cat(push(c.K), opNOT, opADD, push(c.K2), op0NE, opADD) }},
	{name: "num/BIN2NUM", x: "num", body: func(c *cparams) []byte { return cat(push(append(append([]byte{}, c.K...), 0, 0, 0)), opBIN2NUM, opADD) }},
	{name: "num/NUM2BIN-value", x: "bytes", pre: true, body: func(c *cparams) []byte { return cat(push(c.K), idx2(len(c.K)+3), opNUM2BIN, opCAT) }},
	// numbers read as an index, a position, a size, a shift distance
	{name: "idx/PICK", x: "bytes", pre: true, body: func(c *cparams) []byte { return cat(push(c.K), push(c.K2), idx2(1), opPICK, opCAT, opCAT, opCAT) }},
	{name: "idx/ROLL", x: "bytes", pre: true, body: func(c *cparams) []byte { return cat(push(c.K), push(c.K2), idx2(2), opROLL, opCAT, opCAT) }},
	{name: "idx/SPLIT", x: "bytes", pre: true, body: func(c *cparams) []byte { return cat(push(c.K), idx2(len(c.K)/2), opSPLIT, opSWAP, opCAT, opCAT) }},
	{name: "idx/NUM2BIN-size", x: "num", pre: true, body: func(c *cparams) []byte { return cat(push([]byte{byte(c.n + 8), byte((c.n + 8) >> 8)}), opNUM2BIN) }},
	{name: "idx/LSHIFT", x: "bytes", pre: true, body: func(c *cparams) []byte { return cat(push(c.K), idx2(3), opLSHIFT, opCAT) }},
	{name: "idx/RSHIFT", x: "bytes", pre: true, body: func(c *cparams) []byte { return cat(push(c.K), idx2(11), opRSHIFT, opCAT) }},
	// lock times
	{name: "lock/CHECKLOCKTIMEVERIFY", x: "any", pre: true, lockOp: opCLTV, body: func(c *cparams) []byte { return cat(push(c.K), opCLTV, opDROP) }},
	{name: "lock/CHECKSEQUENCEVERIFY", x: "any", pre: true, lockOp: opCSV, body: func(c *cparams) []byte { return cat(push(c.K), opCSV, opDROP) }},
	// byte strings read by splice, bitwise and shift opcodes
	{name: "bytes/CAT", x: "bytes", pre: true, body: func(c *cparams) []byte { return cat(push(c.K), opCAT, push(c.K2), opSWAP, opCAT) }},
	{name: "bytes/SPLIT-value", x: "bytes", pre: true, body: func(c *cparams) []byte { return cat(push(c.K), op1, opSPLIT, opROT, opCAT, opCAT) }},
	{name: "bytes/SIZE", x: "bytes", pre: true, body: func(c *cparams) []byte { return cat(push(c.K), opSIZE, opCAT, opCAT) }},
	{name: "bytes/AND", x: "samelen", pre: true, body: func(c *cparams) []byte { return cat(push(c.K), opAND) }},
	{name: "bytes/OR", x: "samelen", pre: true, body: func(c *cparams) []byte { return cat(push(c.K), opOR) }},
	{name: "bytes/XOR", x: "samelen", pre: true, body: func(c *cparams) []byte { return cat(push(c.K), opXOR) }},
	{name: "bytes/INVERT", x: "bytes", pre: true, body: func(c *cparams) []byte { return cat(push(c.K), opINVERT, opCAT) }},
	{name: "bytes/LSHIFT-value", x: "bytes", pre: true, body: func(c *cparams) []byte { return cat(push(c.K), op3, opLSHIFT, opCAT) }},
	{name: "bytes/RSHIFT-value", x: "bytes", pre: true, body: func(c *cparams) []byte { return cat(push(c.K), op3, opRSHIFT, opCAT) }},
	{name: "bytes/EQUAL", x: "bytes", pre: true, body: func(c *cparams) []byte { return cat(push(c.K), opEQUAL) }},
	{name: "bytes/EQUALVERIFY", x: "bytes", pre: true, body: func(c *cparams) []byte { return cat(push(c.K), push(c.K), opEQUALV) }},
	// hash opcodes
	{name: "hash/RIPEMD160", x: "bytes", pre: true, body: func(c *cparams) []byte { return cat(push(c.K), opRIPEMD160, opCAT) }},
	{name: "hash/SHA1", x: "bytes", pre: true, body: func(c *cparams) []byte { return cat(push(c.K), opSHA1, opCAT) }},
	{name: "hash/SHA256", x: "bytes", pre: true, body: func(c *cparams) []byte { return cat(push(c.K), opSHA256, opCAT) }},
	{name: "hash/HASH160", x: "bytes", pre: true, body: func(c *cparams) []byte { return cat(push(c.K), opHASH160, opCAT) }},
	{name: "hash/HASH256", x: "bytes", pre: true, body: func(c *cparams) []byte { return cat(push(c.K), opHASH256, opCAT) }},
	// truth values and stack movers
	{name: "flow/IF", x: "bytes", pre: true, body: func(c *cparams) []byte { return cat(push(c.K), opIF, push(c.K2), opELSE, push(c.K), opENDIF, opCAT) }},
	{name: "flow/NOTIF", x: "bytes", pre: true, body: func(c *cparams) []byte { return cat(push(c.K), opNOTIF, push(c.K2), opELSE, push(c.K), opENDIF, opCAT) }},
	{name: "flow/VERIFY", x: "bytes", pre: true, body: func(c *cparams) []byte { return cat(push(c.K), opVERIFY) }},
	{name: "stack/ALTSTACK", x: "bytes", pre: true, body: func(c *cparams) []byte { return cat(push(c.K), opTOALT, push(c.K2), opCAT, opFROMALT, opCAT) }},
	{name: "stack/DUP-OVER-TUCK", x: "bytes", pre: true, body: func(c *cparams) []byte {
		return cat(push(c.K), opDUP, opCAT, push(c.K2), opOVER, opCAT, opTUCK, opCAT, opCAT, opCAT)
	}},
	{name: "stack/2DUP-3DUP-ROT", x: "bytes", pre: true, body: func(c *cparams) []byte {
		return cat(push(c.K), push(c.K2), op3DUP, opROT, opCAT, opCAT, opCAT, opCAT, opCAT)
	}},
}

// lengths of the constants: in the concurrent rounds (the decoder of numbers is quadratic in the length, and slow under the race detector) ...
var sizesAfter = []int{2, 3, 4, 5, 8, 9, 16, 17, 32, 33, 64, 65, 128, 129, 255, 256, 257, 520, 521, 1000, 2049}

// ... and in the thorough tier of the read-only probe
var sizesAfterDeep = []int{2, 3, 4, 5, 8, 9, 16, 17, 32, 33, 64, 65, 128, 129, 255, 256, 257, 520, 521, 1000, 2049, 4096, 4097, 8193}
var sizesBefore = []int{2, 3, 4}
var sizesBytesBefore = []int{2, 3, 4, 5, 9, 33, 80, 200}

// number: n bytes that read as a minimally encoded non-zero number (either sign), the top byte not 0x00 / 0x80
func number(r *common.Rand, n int, positive bool) []byte {
	b := r.Bytes(n)
	for i := range b {
		if b[i] == 0 {
			b[i] = byte(i + 1)
		}
	}
	b[n-1] &= 0x7f
	if b[n-1] == 0 {
		b[n-1] = 0x31
	}
	if !positive && r.Chance(35) {
		b[n-1] |= 0x80
	}
	return b
}

type contractInst struct {
	c       *contract
	after   bool
	n       int
	par     *cparams
	body    []byte
	lock    []byte // body ++ OP_EQUAL
	flags   scriptflag.Flag
	lockVal uint32 // the value of K for a lock-time contract
}

func (ci *contractInst) name() string {
	era := "before-genesis"
	if ci.after {
		era = "after-genesis"
	}
	return fmt.Sprintf("contract/%s/%s", ci.c.name, era)
}

// newContract instantiates template c with constants of n bytes.
func newContract(r *common.Rand, c *contract, after bool, n int) *contractInst {
	ci := &contractInst{c: c, after: after, n: n}
	par := &cparams{n: n}
	switch {
	case c.lockOp == opCLTV:
		// a block height below the threshold 500 000 000, of exactly n bytes (n = 5: beyond 2^31, as the 5-byte reading of lock times allows)
		var v uint32
		switch n {
		case 2:
			v = 0x0100 + uint32(r.Intn(0x7e00))
		case 3:
			v = 0x010000 + uint32(r.Intn(0x7e0000))
		case 4:
			v = 0x01000000 + uint32(r.Intn(400000000))
		default:
			n = 5
			v = 0x80000000 + uint32(r.Intn(0x7fff0000))
		}
		ci.n, ci.lockVal = n, v
		par.K = interpgen.NumEnc(int64(v))
	case c.lockOp == opCSV:
		n = 2 + r.Intn(2)
		v := uint32(0x0100 + r.Intn(0x7e00)) // relative height, 2 bytes ...
		par.K = interpgen.NumEnc(int64(v))
		if n == 3 {
			par.K = append(par.K, 0x00) // ... or 3 (padded)
		}
		ci.n, ci.lockVal = n, v
	default:
		par.K = number(r, n, false)
		par.K2 = number(r, n, true)
		// K2 above K: OP_WITHIN has a non-empty range
		par.K[n-1] &^= 0x40
		if par.K[n-1]&0x7f == 0 {
			par.K[n-1] |= 0x21
		}
		par.K2[n-1] |= 0x40
	}
	ci.par = par
	ci.body = c.body(par)
	ci.lock = append(append([]byte{}, ci.body...), opEQUAL)
	if after {
		ci.flags = scriptflag.UTXOAfterGenesis | scriptflag.EnableSighashForkID
	}
	switch c.lockOp {
	case opCLTV:
		ci.flags |= scriptflag.VerifyCheckLockTimeVerify
	case opCSV:
		ci.flags |= scriptflag.VerifyCheckSequenceVerify
	}
	return ci
}

// operand: what spender number v of the contract brings as x.
func (ci *contractInst) operand(r *common.Rand, v int) []byte {
	n := ci.n
	switch ci.c.x {
	case "samelen":
		return r.Bytes(n)
	case "num":
		if v%4 == 1 {
			return append([]byte{}, ci.par.K...) // equal to the constant
		}
		m := 1 + r.Intn(n+1)
		if !ci.after && m > 4 {
			m = 4
		}
		return number(r, m, false)
	case "bytes":
		if v%4 == 1 {
			return append([]byte{}, ci.par.K...)
		}
		return r.Bytes(1 + r.Intn(40))
	}
	return r.Bytes(1 + r.Intn(8))
}

// expected: the top of the stack after the contract's body has run on x (sequentially, on script objects of its own).
func (ci *contractInst) expected(x []byte) (e []byte, ran bool) {
	if ci.c.lockOp != 0 {
		return append([]byte{}, x...), true
	}
	var top []byte
	steps := 0
	d := idebug.NewDebugger()
	d.AttachAfterStep(func(s *interpreter.State) {
		steps++
		top = nil
		if k := len(s.DataStack); k > 0 {
			top = append([]byte{}, s.DataStack[k-1]...)
		}
	})
	err := interpreter.NewEngine().Execute(interpreter.WithScripts(heapScript(ci.body), heapScript(push(x))), interpreter.WithFlags(ci.flags), interpreter.WithDebugger(d))
	// a false result (e.g. NUMEQUAL = 0) ends in "false stack entry": the body has run all the same
	return top, steps > 0 && (err == nil || errs.IsErrorCode(err, errs.ErrEvalFalse))
}

// spend: spender number v of the contract, over the given locking script object.
func (ci *contractInst) spend(r *common.Rand, v int, lock *bscript.Script, salt uint64, alloc allocFn) job {
	x := ci.operand(r, v)
	e, ran := ci.expected(x)
	kind := ci.name()
	variant := "/expects-result"
	if !ran {
		variant = "/body-fails"
	} else if v%3 == 2 {
		// expects something else
		if len(e) == 0 {
			e = []byte{0x01}
		} else {
			e = append([]byte{}, e...)
			e[r.Intn(len(e))] ^= byte(1 << uint(r.Intn(8)))
		}
		variant = "/expects-other-result"
	}
	p := &progSpec{Kind: kind + variant, Lock: ci.lock, Unlock: cat(push(e), push(x)), Flags: ci.flags, Mode: 1, Version: 1, Seq: 0xffffffff}
	switch ci.c.lockOp {
	case opCLTV:
		p.Seq = []uint32{0, 0xfffffffe, 7, 0xffffffff}[v%4] // the last: a final input, the lock time check fails
		p.LockTime = uint32(int64(ci.lockVal) + []int64{0, 5, -1, 100000}[(v/2)%4])
	case opCSV:
		p.Version = []uint32{2, 2, 2, 1}[v%4]
		p.Seq = uint32(int64(ci.lockVal) + []int64{0, -1, 9, 0}[(v/2)%4])
	default:
		if v%5 == 4 {
			p.Mode = 0 // a candidate pair checked without a transaction, over the same locking script object
		}
	}
	return p.build(lock, alloc(p.Unlock), salt, alloc)
}

// contractUnits: ncon contracts (the catalogue is walked through round after round), each spent by 3..5 different
// transactions that all name ONE locking script object.
func contractUnits(r *common.Rand, round, ncon int, shared *sharedSet) [][]job {
	var units [][]job
	for k := 0; k < ncon; k++ {
		c := &contracts[(round*ncon+k)%len(contracts)]
		after := !c.pre || r.Chance(70)
		var n int
		switch {
		case after:
			n = sizesAfter[r.Intn(len(sizesAfter))]
		case c.x == "num" || c.name == "num/NUM2BIN-value":
			n = sizesBefore[r.Intn(len(sizesBefore))]
		default:
			n = sizesBytesBefore[r.Intn(len(sizesBytesBefore))]
		}
		if c.lockOp != 0 {
			after = false
			n = 2 + r.Intn(4)
		}
		ci := newContract(r, c, after, n)
		lock := shared.add(ci.name(), heapScript(ci.lock))
		for v, nv := 0, 3+r.Intn(3); v < nv; v++ {
			units = append(units, []job{ci.spend(r, v, lock, r.U64(), heapScript)})
		}
	}
	return units
}

// ---------------------------------------------------------------------------------------------
// the program pool: what the interpreter checks generate, here with the locking script object shared

type pool struct {
	fixed   []*progSpec // enumerated families (the same in every round)
	vectors []*progSpec
	note    string
}

func newPool(repo string, seed uint64, thorough bool) *pool {
	pl := &pool{}
	add := func(q *interpgen.Program) { pl.fixed = append(pl.fixed, fromProgram(q)) }
	stride := 29
	if thorough {
		stride = 5
	}
	interpgen.Matrix(add, stride)
	interpgen.ArithEdges(add, false)
	interpgen.ScriptBoundary(add)
	vs, _, err := interpgen.LoadVectors(repo)
	if err != nil {
		pl.note = "node vectors not loaded: " + err.Error()
	}
	for _, v := range vs {
		pl.vectors = append(pl.vectors, fromProgram(v.Prog))
	}
	return pl
}

// opReturnTail: OP_1 OP_RETURN <tail> (after Genesis: the script ends at the OP_RETURN, the bytes after it are kept
// as they are, whatever they are) — tails of 0, 1, 2 and more bytes, with any first byte.
//
// Half of them: <21 bytes that are no public key> OP_CHECKSIG OP_NOT OP_RETURN <tail>, spent with a DER-shaped signature
// that cannot verify (no curve arithmetic happens): OP_CHECKSIG puts the whole locking script, tail included, together
// again for the digest, pushes false, OP_NOT makes it true, OP_RETURN ends the script.
func opReturnTail(r *common.Rand) *progSpec {
	n := []int{0, 1, 2, 3, 4 + r.Intn(60)}[r.Intn(5)]
	fl := scriptflag.UTXOAfterGenesis
	if r.Bool() {
		lock := cat(push(append([]byte{0x05}, r.Bytes(20)...)), opCHECKSIG, opNOT, 0x6a, r.Bytes(n))
		unlock := push([]byte{0x30, 0x06, 0x02, 0x01, byte(1 + r.Intn(100)), 0x02, 0x01, byte(1 + r.Intn(100)), 0x01})
		return &progSpec{Kind: fmt.Sprintf("op-return-tail/after-checksig/%d-bytes", min(n, 4)), Lock: lock, Unlock: unlock, Flags: fl, Mode: 1, Version: 1, Seq: 0xffffffff}
	}
	lock := cat(op1, 0x6a, r.Bytes(n))
	if r.Chance(15) {
		fl = 0 // before Genesis OP_RETURN fails the script
	}
	return &progSpec{Kind: fmt.Sprintf("op-return-tail/%d-bytes", min(n, 4)), Lock: lock, Unlock: []byte{op1}, Flags: fl, Mode: r.Intn(2), Version: 1, Seq: 0xffffffff}
}

func min(a, b int) int {
	if a < b {
		return a
	}
	return b
}

// programUnits: nprog programs, each over ONE locking script object named by two different transactions.
func (pl *pool) programUnits(r *common.Rand, nprog int, shared *sharedSet) [][]job {
	var units [][]job
	for k := 0; k < nprog; k++ {
		var p *progSpec
		switch c := r.Intn(10); {
		case c < 3 && len(pl.fixed) > 0:
			p = pl.fixed[r.Intn(len(pl.fixed))]
		case c < 5 && len(pl.vectors) > 0:
			p = pl.vectors[r.Intn(len(pl.vectors))]
		case c < 7:
			p = fromProgram(interpgen.Random(r, 12))
		case c < 8:
			p = fromProgram(interpgen.Flow(r))
		case c < 9:
			p = fromProgram(interpgen.P2SH(r))
		default:
			p = opReturnTail(r)
		}
		lock := shared.add(p.Kind, heapScript(p.Lock))
		for v := 0; v < 2; v++ {
			units = append(units, []job{p.build(lock, heapScript(p.Unlock), r.U64(), heapScript)})
		}
	}
	return units
}

// ---------------------------------------------------------------------------------------------
// signed transactions over shared script objects: OP_RETURN tails and bare multisig

// signedTailJobs: DUP HASH160 <pkh> EQUALVERIFY CHECKSIG OP_RETURN <payload> (the "P2PKH + data" layout of tokens and
// ordinals). The signature covers the whole locking script, payload included; every transaction has a payload of
// its own length and first byte. Every second one is signed over a payload that differs in its last byte.
func signedTailJobs(r *common.Rand, sw *sharedWallet, alloc allocFn) []job {
	base, err := bscript.NewP2PKHFromPubKeyBytes(sw.key.PubKey().SerialiseCompressed())
	if err != nil {
		panic(err)
	}
	n := []int{1, 2, 3, 5 + r.Intn(70)}[r.Intn(4)]
	payload := r.Bytes(n)
	lockB := cat([]byte(*base), 0x6a, payload)
	sats := 1000 + uint64(r.Intn(100000))
	tx := bt.NewTx()
	if err := tx.From(hex.EncodeToString(r.Bytes(32)), uint32(r.Intn(4)), hex.EncodeToString(lockB), sats); err != nil {
		panic(err)
	}
	tx.AddOutput(&bt.Output{Satoshis: 500 + uint64(r.Intn(400)), LockingScript: alloc(*base)})
	kind := "p2pkh-op-return-tail/valid"
	if r.Bool() {
		other := append([]byte{}, lockB...)
		other[len(other)-1] ^= 0x01
		tx.Inputs[0].PreviousTxScript = bscript.NewFromBytes(other)
		kind = "p2pkh-op-return-tail/signed-over-other-payload"
	}
	h, err := tx.CalcInputSignatureHash(0, sighash.AllForkID)
	if err != nil {
		panic(err)
	}
	sig, err := sw.key.Sign(h)
	if err != nil {
		panic(err)
	}
	us, err := bscript.NewP2PKHUnlockingScript(sw.key.PubKey().SerialiseCompressed(), sig.Serialise(), sighash.AllForkID)
	if err != nil {
		panic(err)
	}
	tx.Inputs[0].UnlockingScript = alloc(*us)
	prev := &bt.Output{Satoshis: sats, LockingScript: alloc(lockB)}
	j := signedJob(kind, tx, prev, sw)
	j.more = nil
	return []job{j}
}

// sharedMultisigJobs: a bare 2-of-3 output script object named by several transactions; the keys are operands that
// alias the shared script.
func sharedMultisigJobs(r *common.Rand, sw *sharedWallet, lock *bscript.Script, alloc allocFn) []job {
	tx := bt.NewTx()
	sats := 1000 + uint64(r.Intn(100000))
	if err := tx.From(hex.EncodeToString(r.Bytes(32)), uint32(r.Intn(4)), lock.String(), sats); err != nil {
		panic(err)
	}
	tx.AddOutput(&bt.Output{Satoshis: 500 + uint64(r.Intn(300)), LockingScript: alloc([]byte{0x51})})
	h, err := tx.CalcInputSignatureHash(0, sighash.AllForkID)
	if err != nil {
		panic(err)
	}
	signers := [][]*bec.PrivateKey{{sw.ms[0], sw.ms[1]}, {sw.ms[1], sw.ms[2]}, {sw.ms[0], sw.ms[2]}, {sw.ms[2], sw.ms[0]}}[r.Intn(4)]
	kind := "multisig-shared/valid"
	if signers[0] == sw.ms[2] {
		kind = "multisig-shared/signatures-out-of-order"
	}
	unlock := []byte{0x00}
	for _, k := range signers {
		sig, err := k.Sign(h)
		if err != nil {
			panic(err)
		}
		sb := append(sig.Serialise(), byte(sighash.AllForkID))
		unlock = append(append(unlock, byte(len(sb))), sb...)
	}
	tx.Inputs[0].UnlockingScript = alloc(unlock)
	prev := &bt.Output{Satoshis: sats, LockingScript: lock}
	j := signedJob(kind, tx, prev, sw)
	j.more = nil
	return []job{j}
}

func multisigLockBytes(keys []*bec.PrivateKey) []byte {
	lockB := []byte{0x52}
	for _, k := range keys {
		pk := k.PubKey().SerialiseCompressed()
		lockB = append(append(lockB, byte(len(pk))), pk...)
	}
	return append(lockB, 0x53, 0xae)
}

// ---------------------------------------------------------------------------------------------
// workload engine-ro: every script handed to the engine lives in read-only pages

type Probe struct {
	Kind  string `json:"kind"`
	Input string `json:"input"`
	Fault string `json:"fault"`
}

type ProbeResult struct {
	Programs int            `json:"programs"`
	Accepted int            `json:"accepted"`
	ByFamily map[string]int `json:"by_family"`
	Faults   []Probe        `json:"faults,omitempty"`
	// how many programs faulted, and per family (a contract template / a generator family)
	FaultCount     int            `json:"fault_count"`
	FaultsByFamily map[string]int `json:"faults_by_family,omitempty"`
}

// faultFamily: contract/<group>/<template> for contracts, the first two parts of the kind otherwise
func faultFamily(kind string) string {
	want := 2
	if len(kind) > 9 && kind[:9] == "contract/" {
		want = 3
	}
	for i, n := 0, 0; i < len(kind); i++ {
		if kind[i] == '/' {
			if n++; n == want {
				return kind[:i]
			}
		}
	}
	return kind
}

func family(kind string) string {
	for i, n := 0, 0; i < len(kind); i++ {
		if kind[i] == '/' {
			if n++; n == 2 {
				return kind[:i]
			}
		}
	}
	return kind
}

// quickSizes: the constant lengths of the quick tier's probe (the concurrent rounds draw from the full lists)
var quickSizesAfter = []int{2, 3, 4, 5, 9, 17, 33, 129, 256, 521, 4097}

func roProbe(seed uint64, nRandom int, pl *pool, thorough bool) ProbeResult {
	res := ProbeResult{ByFamily: map[string]int{}, FaultsByFamily: map[string]int{}}
	r := common.NewRand(seed ^ 0x70be)
	arena := &roArena{}
	engine := interpreter.NewEngine()
	type pending struct {
		j     job
		input string
	}
	var batch []pending
	flush := func() {
		arena.seal()
		for _, p := range batch {
			var err error
			fault := guarded(func() { err = engine.Execute(p.j.opts()...) })
			res.Programs++
			res.ByFamily[family(p.j.kind)]++
			if fault == "" && err == nil {
				res.Accepted++
			}
			if fault != "" {
				// the first faulting program of every family, spelled out
				res.FaultCount++
				fam := faultFamily(p.j.kind)
				if res.FaultsByFamily[fam]++; res.FaultsByFamily[fam] == 1 && len(res.Faults) < 60 {
					res.Faults = append(res.Faults, Probe{Kind: p.j.kind, Input: p.input, Fault: fault})
				}
			}
		}
		arena.reset()
		batch = batch[:0]
	}
	// the jobs are made while the arena is writable
	add := func(j job, input string) {
		batch = append(batch, pending{j, input})
		if len(batch) >= 400 || arena.used > 2<<20 {
			progress(fmt.Sprintf("engine-ro, %d programs done, next batch ends with %s", res.Programs, j.kind))
			flush()
		}
	}
	addSpec := func(p *progSpec, salt uint64) {
		add(p.build(arena.script(p.Lock), arena.script(p.Unlock), salt, arena.script), p.describe())
	}
	// every contract template at the sizes of its era(s)
	for ci := range contracts {
		c := &contracts[ci]
		for _, after := range []bool{true, false} {
			if !after && !c.pre {
				continue
			}
			sizes := sizesAfterDeep
			if !thorough {
				sizes = quickSizesAfter
			}
			switch {
			case c.lockOp != 0:
				if after {
					continue
				}
				sizes = []int{2, 3, 4, 5}
			case !after && (c.x == "num" || c.name == "num/NUM2BIN-value"):
				sizes = sizesBefore
			case !after:
				sizes = sizesBytesBefore
				if !thorough {
					sizes = []int{2, 5, 200}
				}
			}
			for _, n := range sizes {
				inst := newContract(r, c, after, n)
				nv := 2
				if thorough || c.lockOp != 0 {
					nv = 5
				}
				for v := 0; v < nv; v++ {
					j := inst.spend(r, v, arena.script(inst.lock), r.U64(), arena.script)
					add(j, j.spec.describe())
				}
			}
		}
	}
	// the enumerated programs (quick: a quarter of them, which quarter depends on the seed) and the node's vectors
	for i, p := range pl.fixed {
		if thorough || i%4 == int(seed%4) {
			addSpec(p, uint64(i))
		}
	}
	for i, p := range pl.vectors {
		addSpec(p, uint64(i))
	}
	// grammar-generated ones
	for i := 0; i < nRandom; i++ {
		switch i % 8 {
		case 0:
			addSpec(fromProgram(interpgen.Flow(r)), r.U64())
		case 1:
			addSpec(fromProgram(interpgen.P2SH(r)), r.U64())
		case 2:
			addSpec(opReturnTail(r), r.U64())
		default:
			addSpec(fromProgram(interpgen.Random(r, 14)), r.U64())
		}
	}
	// signed transactions: every script of the transaction and of the output it spends read-only
	sw := newSharedWallet(r)
	nSigned := 3
	if thorough {
		nSigned = 12
	}
	for i := 0; i < nSigned; i++ {
		for _, j := range signedTailJobs(r, sw, arena.script) {
			add(j, j.describe())
		}
		for _, j := range sharedMultisigJobs(r, sw, arena.script(multisigLockBytes(sw.ms)), arena.script) {
			add(j, j.describe())
		}
		for _, j := range roSigned(p2pkhJobs(r, sw), arena) {
			add(j, j.describe())
		}
		for _, j := range roSigned(codesepJobs(r, sw), arena) {
			add(j, j.describe())
		}
		for _, j := range roSigned(multisigJobs(r), arena) {
			add(j, j.describe())
		}
	}
	flush()
	return res
}

// roSigned: the same jobs with every script of the transaction (unlocking scripts of all inputs, locking scripts of
// all outputs) and the locking script of the spent output moved to read-only pages.
func roSigned(jobs []job, arena *roArena) []job {
	var out []job
	for _, j := range jobs {
		if j.tx == nil {
			continue
		}
		tx := j.tx.Clone()
		for _, in := range tx.Inputs {
			if in.UnlockingScript != nil {
				in.UnlockingScript = arena.script(*in.UnlockingScript)
			}
		}
		for _, o := range tx.Outputs {
			if o.LockingScript != nil {
				o.LockingScript = arena.script(*o.LockingScript)
			}
		}
		prev := &bt.Output{Satoshis: j.prev.Satoshis, LockingScript: arena.script(*j.prev.LockingScript)}
		idx, more := j.in, j.more
		out = append(out, job{kind: j.kind, tx: tx, in: idx, prev: prev, more: more, opts: func() []interpreter.ExecutionOptionFunc {
			return append([]interpreter.ExecutionOptionFunc{interpreter.WithTx(tx, idx, prev)}, more...)
		}})
	}
	return out
}

// ---------------------------------------------------------------------------------------------
// workload engine-hammer (built WITHOUT the race detector: several times as many validations per second): the jobs
// without curve arithmetic of a round - contracts, generator programs, OP_RETURN tails, each locking script object
// named by several transactions - validated over and over for a time budget, every transaction by one goroutine
// only, every verdict compared with the sequential one. What the race detector reports as a race, this turns
// into a verdict that differs, when the window is hit.

func hammerRound(seed uint64, index int, pl *pool, budget time.Duration) EngineRound {
	r := common.NewRand(seed)
	g := []int{4, 8, 16}[r.Intn(3)]
	procs := []int{4, 16}[r.Intn(2)]
	prevProcs := runtime.GOMAXPROCS(procs)
	defer runtime.GOMAXPROCS(prevProcs)
	shared := &sharedSet{}
	var jobs []job
	for _, u := range contractUnits(r, index, 6, shared) {
		jobs = append(jobs, u...)
	}
	for _, u := range pl.programUnits(r, 24, shared) {
		jobs = append(jobs, u...)
	}
	for k := 0; k < 6; k++ { // OP_RETURN tails of every length in every round
		p := opReturnTail(r)
		jobs = append(jobs, p.build(heapScript(p.Lock), heapScript(p.Unlock), r.U64(), heapScript))
	}
	// option values built once and shared by the jobs that follow (and by the goroutines that own them)
	bank := newOptBank()
	for _, u := range pl.flagTwinUnits(r, index, 16, bank, shared, false) {
		jobs = append(jobs, u...)
	}
	out := EngineRound{Seed: seed, Goroutines: g, Procs: procs, Jobs: len(jobs), Index: index, Shared: len(shared.objs), OptionValues: bank.sharedValues()}
	kinds := map[string]bool{}
	for _, j := range jobs {
		kinds[j.kind] = true
	}
	for k := range kinds {
		out.Kinds = append(out.Kinds, k)
	}
	sort.Strings(out.Kinds)
	seqEngine := interpreter.NewEngine()
	out.Sequential = make([]bool, len(jobs))
	for i, j := range jobs {
		out.Sequential[i] = seqVerdict(seqEngine, j)
	}
	out.Concurrent = append([]bool{}, out.Sequential...)
	engine := interpreter.NewEngine()
	var stop int32
	var total int64
	var mu sync.Mutex
	var wg sync.WaitGroup
	start := make(chan struct{})
	deadline := time.Now().Add(budget)
	for gi := 0; gi < g; gi++ {
		gi := gi
		wg.Add(1)
		go func() {
			defer wg.Done()
			<-start
			n := int64(0)
			defer func() { atomic.AddInt64(&total, n) }()
			for atomic.LoadInt32(&stop) == 0 && time.Now().Before(deadline) {
				for i := gi; i < len(jobs); i += g { // job i belongs to goroutine i mod g, always
					n++
					if v := verdict(engine, jobs[i]); v != out.Sequential[i] {
						mu.Lock()
						out.Concurrent[i] = v
						if len(out.Differs) < 5 {
							out.Differs = append(out.Differs, fmt.Sprintf("job %d, concurrent verdict %v (validation number %d of its goroutine), sequential verdict %v: %s", i, v, n, out.Sequential[i], jobs[i].describe()))
						}
						mu.Unlock()
						atomic.StoreInt32(&stop, 1)
						return
					}
				}
			}
		}()
	}
	close(start)
	if !waitAll(&wg, 60*time.Second+budget) {
		out.Deadlock = true
	}
	out.Validations = atomic.LoadInt64(&total)
	out.Race = newRaces()
	out.Bad = shared.changed()
	return out
}
