// c18race: the concurrent workloads of property C18. Built by cmd/c18 with `go build -race`; run
// with GORACE="halt_on_error=0 exitcode=0 log_path=<base>" so that race reports go to <base>.<pid> and the
// run continues. Deterministic given -seed up to the scheduler (which is the thing explored).
//
//	-workload fee     randomized concurrent histories over shared FeeQuotes / FeeQuote values
//	-workload engine  one interpreter.Engine validating distinct transactions from many goroutines
//	-workload engine-sametx  (informational) the inputs of one transaction from different goroutines
//	-workload engine-ro      (shared.go; built without -race) every script handed to the engine in read-only pages
//	-workload engine-hammer  (shared.go; built without -race) the cheap jobs of a round validated over and over
//
// Result: one JSON document in -result; a progress marker (-result + ".progress") names the
// history being run, so that the parent can attribute a process-fatal error
// ("concurrent map read and map write") to a history.
package main

import (
	"bytes"
	"context"
	"encoding/hex"
	"encoding/json"
	"flag"
	"fmt"
	"os"
	"runtime"
	"sort"
	"strings"
	"sync"
	"sync/atomic"
	"time"

	"github.com/libsv/go-bk/bec"
	"github.com/libsv/go-bt/v2"
	"github.com/libsv/go-bt/v2/bscript"
	"github.com/libsv/go-bt/v2/bscript/interpreter"
	"github.com/libsv/go-bt/v2/bscript/interpreter/scriptflag"
	"github.com/libsv/go-bt/v2/sighash"
	"github.com/libsv/go-bt/v2/unlocker"

	"verif/harness/common"
	"verif/harness/interpgen"
)

type KV struct {
	K string `json:"k"`
	V uint64 `json:"v"`
}

type History struct {
	Seed       uint64   `json:"seed"`
	Goroutines int      `json:"goroutines"`
	Procs      int      `json:"gomaxprocs"`
	Ops        int      `json:"ops"`
	OpKinds    []string `json:"op_kinds"`
	Init       []KV     `json:"init"`
	Stored     []KV     `json:"stored"`
	Reads      []KV     `json:"reads"`
	Rejected   []KV     `json:"rejected,omitempty"` // what calls that returned an error carried (and no successful call stored)
	Bad        []string `json:"bad,omitempty"`
	Race       string   `json:"race,omitempty"`
	Deadlock   bool     `json:"deadlock,omitempty"`
}

type EngineRound struct {
	Seed        uint64   `json:"seed"`
	Goroutines  int      `json:"goroutines"`
	Procs       int      `json:"gomaxprocs"`
	Jobs        int      `json:"jobs"`
	Kinds       []string `json:"kinds"`
	Concurrent  []bool   `json:"concurrent"`
	Sequential  []bool   `json:"sequential"`
	Race        string   `json:"race,omitempty"`
	Deadlock    bool     `json:"deadlock,omitempty"`
	Bad         []string `json:"bad,omitempty"`
	Index       int      `json:"index"`
	Shared      int      `json:"shared_script_objects"` // locking script objects named by more than one transaction of the round
	Differs     []string `json:"differs,omitempty"`     // the jobs whose concurrent verdict is not the sequential one, spelled out
	Validations int64    `json:"validations,omitempty"` // engine-hammer: how many validations ran concurrently
	// option values (WithFlags words, WithAfterGenesis, WithForkID, WithP2SH, WithDebugger) built once and used by several jobs
	OptionValues int `json:"shared_option_values,omitempty"`
}

type Result struct {
	Histories []History     `json:"histories,omitempty"`
	Rounds    []EngineRound `json:"rounds,omitempty"`
	Probe     *ProbeResult  `json:"probe,omitempty"`
	PoolNote  string        `json:"pool_note,omitempty"`
	RaceBuild bool          `json:"race_build"`
}

var (
	raceLog    string
	raceOffset int64
	resultPath string
)

// newRaces returns the race-detector output written since the last call.
func newRaces() string {
	if raceLog == "" {
		return ""
	}
	f := fmt.Sprintf("%s.%d", raceLog, os.Getpid())
	b, err := os.ReadFile(f)
	if err != nil || int64(len(b)) <= raceOffset {
		return ""
	}
	s := string(b[raceOffset:])
	raceOffset = int64(len(b))
	return s
}

func progress(s string) {
	_ = os.WriteFile(resultPath+".progress", []byte(s), 0o644)
}

func main() {
	workload := flag.String("workload", "fee", "fee|engine|engine-sametx|engine-ro")
	repo := flag.String("repo", "/repo", "the go-bt checkout (node script vectors)")
	thorough := flag.Bool("thorough", false, "thorough tier")
	hammerMs := flag.Int("hammer-ms", 200, "engine-hammer: time budget of a round, milliseconds")
	only := flag.Int("only", -1, "engine / engine-hammer: run only the round with this index (replay of one round of a run)")
	seed := flag.Uint64("seed", 1, "seed")
	n := flag.Int("n", 50, "histories / rounds")
	flag.StringVar(&resultPath, "result", "", "result file")
	flag.Parse()
	for _, kv := range strings.Fields(os.Getenv("GORACE")) {
		if strings.HasPrefix(kv, "log_path=") {
			raceLog = strings.TrimPrefix(kv, "log_path=")
		}
	}
	res := Result{RaceBuild: raceEnabled}
	r := common.NewRand(*seed ^ 0xc18c18)
	switch *workload {
	case "fee":
		for i := 0; i < *n; i++ {
			hs := r.U64()
			progress(fmt.Sprintf("fee history seed=%d", hs))
			h := feeHistory(hs)
			res.Histories = append(res.Histories, h)
			if h.Deadlock {
				break
			}
		}
	case "engine-ro":
		pl := newPool(*repo, *seed, *thorough)
		res.PoolNote = pl.note
		pr := roProbe(*seed, *n, pl, *thorough)
		res.Probe = &pr
	case "engine-hammer":
		pl := newPool(*repo, *seed, *thorough)
		res.PoolNote = pl.note
		budget := time.Duration(*hammerMs) * time.Millisecond
		for i := 0; i < *n; i++ {
			hs := r.U64()
			if *only >= 0 && i != *only {
				continue
			}
			progress(fmt.Sprintf("engine-hammer round %d seed=%d", i, hs))
			e := hammerRound(hs, i, pl, budget)
			res.Rounds = append(res.Rounds, e)
			if e.Deadlock {
				break
			}
		}
	case "engine", "engine-sametx":
		var pl *pool
		if *workload == "engine" {
			pl = newPool(*repo, *seed, *thorough)
			res.PoolNote = pl.note
		}
		for i := 0; i < *n; i++ {
			hs := r.U64()
			if *only >= 0 && i != *only {
				continue
			}
			progress(fmt.Sprintf("engine round %d seed=%d", i, hs))
			e := engineRound(hs, *workload == "engine-sametx", i, pl)
			res.Rounds = append(res.Rounds, e)
			if e.Deadlock {
				break
			}
		}
	default:
		fmt.Fprintln(os.Stderr, "unknown workload")
		os.Exit(2)
	}
	progress("done")
	bb, _ := json.Marshal(res)
	if resultPath == "" {
		os.Stdout.Write(bb)
	} else if err := os.WriteFile(resultPath, bb, 0o644); err != nil {
		fmt.Fprintln(os.Stderr, err)
		os.Exit(2)
	}
	// exit 0 even when races were reported: they are in the result (the race runtime would use 66)
	os.Exit(0)
}

var procChoices = []int{1, 2, 4, 16}

// waitAll waits for the goroutines or reports a deadlock after the timeout.
func waitAll(wg *sync.WaitGroup, d time.Duration) bool {
	done := make(chan struct{})
	go func() { wg.Wait(); close(done) }()
	select {
	case <-done:
		return true
	case <-time.After(d):
		return false
	}
}

// ---------------------------------------------------------------------------------------------
// FeeQuote / FeeQuotes histories

const (
	absent    = 999999 // no entry
	anonymous = 0      // a FeeQuote made by the library itself (AddMinerWithDefault / NewFeeQuotes)
	torn      = 0xFFFFFFFF
	defaultID = 5
)

// a fee whose four numbers all derive from one id: a torn or foreign value is recognisable
func mkFee(ft bt.FeeType, id uint64) *bt.Fee {
	return &bt.Fee{FeeType: ft, MiningFee: bt.FeeUnit{Satoshis: int(id), Bytes: int(id)}, RelayFee: bt.FeeUnit{Satoshis: int(id), Bytes: int(id)}}
}
func feeID(f *bt.Fee) uint64 {
	if f == nil {
		return absent
	}
	m, r := f.MiningFee, f.RelayFee
	if m.Satoshis == 5 && m.Bytes == 100 && r.Satoshis == 5 && r.Bytes == 100 {
		return defaultID
	}
	if m.Satoshis == m.Bytes && r.Satoshis == m.Satoshis && r.Bytes == m.Satoshis && m.Satoshis >= 0 {
		return uint64(m.Satoshis)
	}
	return torn
}

// the label of a fee (its FeeType field) as a number, and the WHOLE value of a fee — numbers and label — as one number:
// a *Fee a reader gets from (quote, fee type) has to be, field by field, a fee that was stored THERE
func typeCode(ft bt.FeeType) uint64 {
	switch ft {
	case "":
		return 0
	case bt.FeeTypeStandard:
		return 1
	case bt.FeeTypeData:
		return 2
	}
	return 3
}
func fullOf(id uint64, label bt.FeeType) uint64 { return id*4 + typeCode(label) }
func feeFull(f *bt.Fee) uint64 {
	if f == nil {
		return absent
	}
	return fullOf(feeID(f), f.FeeType)
}
func showFull(v uint64) string {
	if v == absent {
		return "no entry"
	}
	return fmt.Sprintf("fee %d labelled %q", v/4, []string{"", "standard", "data", "<other>"}[v%4])
}

type feeJSON struct {
	MiningFee bt.FeeUnit `json:"miningFee"`
	RelayFee  bt.FeeUnit `json:"relayFee"`
}

type recorder struct {
	mu       sync.Mutex
	stored   map[string]map[uint64]bool
	rejected map[string]map[uint64]string // what calls that returned an ERROR carried: location -> value -> the call
	reads    []KV
	bad      []string
	kinds    map[string]int
}

func (rc *recorder) store(k string, v uint64) {
	rc.mu.Lock()
	if rc.stored[k] == nil {
		rc.stored[k] = map[uint64]bool{}
	}
	rc.stored[k][v] = true
	rc.mu.Unlock()
}
func (rc *recorder) reject(k string, v uint64, call string) {
	rc.mu.Lock()
	if rc.rejected[k] == nil {
		rc.rejected[k] = map[uint64]string{}
	}
	rc.rejected[k][v] = call
	rc.mu.Unlock()
}
func (rc *recorder) read(k string, v uint64) {
	rc.mu.Lock()
	rc.reads = append(rc.reads, KV{k, v})
	rc.mu.Unlock()
}
func (rc *recorder) badf(f string, a ...interface{}) {
	rc.mu.Lock()
	rc.bad = append(rc.bad, fmt.Sprintf(f, a...))
	rc.mu.Unlock()
}
func (rc *recorder) kind(k string) {
	rc.mu.Lock()
	rc.kinds[k]++
	rc.mu.Unlock()
}

var miners = []string{"m0", "m1", "m2"}
var feeTypes = []bt.FeeType{bt.FeeTypeStandard, bt.FeeTypeData}

// the tags main.go turns into violation sites
const (
	tagFailedWrite = "[failed-write] "
	tagArgument    = "[argument] "
)

func feeDoc(id uint64) string {
	return fmt.Sprintf(`{"miningFee":{"satoshis":%d,"bytes":%d},"relayFee":{"satoshis":%d,"bytes":%d}}`, id, id, id, id)
}

func feeHistory(seed uint64) History {
	r := common.NewRand(seed)
	g := 2 + r.Intn(15)
	procs := procChoices[r.Intn(len(procChoices))]
	prev := runtime.GOMAXPROCS(procs)
	defer runtime.GOMAXPROCS(prev)
	opsPer := 8 + r.Intn(40)
	h := History{Seed: seed, Goroutines: g, Procs: procs}

	// shared state: TWO FeeQuotes (named Q and R below), nq FeeQuote objects known to the harness and reachable through
	// both of them (one *FeeQuote under several miners of several FeeQuotes), and a few *Fee VALUES that the callers keep
	// and hand to AddQuote / UpdateMinerFees again and again: for several quotes, under several fee types
	nq := 1 + r.Intn(3)
	fqsNames := []string{"Q", "R"}
	fqs := []*bt.FeeQuotes{bt.NewFeeQuotes("m0"), bt.NewFeeQuotes("m0")}
	quotes := make([]*bt.FeeQuote, nq)
	known := map[*bt.FeeQuote]int{}
	rc := &recorder{stored: map[string]map[uint64]bool{}, rejected: map[string]map[uint64]string{}, kinds: map[string]int{}}
	init := map[string]uint64{}
	for k := range quotes {
		quotes[k] = bt.NewFeeQuote()
		known[quotes[k]] = k
		for _, ft := range feeTypes {
			init[fmt.Sprintf("q%d.fees.%s", k, ft)] = defaultID
			init[fmt.Sprintf("q%d.label.%s", k, ft)] = fullOf(defaultID, ft)
		}
		init[fmt.Sprintf("q%d.expiry", k)] = uint64(quotes[k].Expiry().Unix())
		init[fmt.Sprintf("q%d.expired", k)] = 1
	}
	// the anonymous quotes (made by the library) are not told apart: anonQ / anonR stand for all of them in one FeeQuotes
	for _, qn := range fqsNames {
		for _, ft := range feeTypes {
			init["anon"+qn+".fees."+string(ft)] = defaultID
			init["anon"+qn+".label."+string(ft)] = fullOf(defaultID, ft)
		}
		init[qn+".quotes.m0"] = anonymous
		init[qn+".quotes.m1"] = absent
		init[qn+".quotes.m2"] = absent
	}
	// objects ever put into a miner slot, per FeeQuotes
	slot := []map[string]map[string]bool{
		{"m0": {"anonQ": true}, "m1": {}, "m2": {}},
		{"m0": {"anonR": true}, "m1": {}, "m2": {}},
	}
	var slotMu sync.Mutex
	// the fee values the callers keep: numbers 700.., labels standard / data / none; never written by the harness again
	keptLabels := []bt.FeeType{bt.FeeTypeStandard, bt.FeeTypeData, "", bt.FeeTypeStandard}
	kept := make([]*bt.Fee, len(keptLabels))
	keptFull := make([]uint64, len(kept))
	for j := range kept {
		kept[j] = mkFee(keptLabels[j], uint64(700+j))
		keptFull[j] = fullOf(uint64(700+j), keptLabels[j])
	}
	time.Sleep(time.Microsecond) // the initial expiry (now) is strictly in the past from here on

	objName := func(qi int, q *bt.FeeQuote) (string, uint64) {
		if k, ok := known[q]; ok {
			return fmt.Sprintf("q%d", k), uint64(k + 1)
		}
		return "anon" + fqsNames[qi], anonymous
	}
	// a write of fee (numbers id, label lb) under fee type ft of the object called nm
	storeFee := func(nm string, ft bt.FeeType, id uint64, lb bt.FeeType) {
		rc.store(nm+".fees."+string(ft), id)
		rc.store(nm+".label."+string(ft), fullOf(id, lb))
	}
	rejectFee := func(nm string, ft bt.FeeType, id uint64, lb bt.FeeType, call string) {
		rc.reject(nm+".fees."+string(ft), id, call)
		rc.reject(nm+".label."+string(ft), fullOf(id, lb), call)
	}

	var wg sync.WaitGroup
	start := make(chan struct{})
	for gi := 0; gi < g; gi++ {
		gr := r.Fork()
		gi := gi
		wg.Add(1)
		go func() {
			defer wg.Done()
			<-start
			for op := 0; op < opsPer; op++ {
				id := uint64(1000 + gi*100000 + op*4)
				k := gr.Intn(nq)
				q := quotes[k]
				ft := feeTypes[gr.Intn(2)]
				miner := miners[gr.Intn(3)]
				qi := gr.Intn(2)
				Q, QN := fqs[qi], fqsNames[qi]
				switch c := gr.Intn(28); c {
				case 0, 1:
					rc.kind("FeeQuote.AddQuote")
					storeFee(fmt.Sprintf("q%d", k), ft, id, ft)
					q.AddQuote(ft, mkFee(ft, id))
				case 2, 3, 4:
					rc.kind("FeeQuote.Fee")
					f, err := q.Fee(ft)
					if err != nil {
						rc.badf("q%d.Fee(%s): %v", k, ft, err)
						rc.read(fmt.Sprintf("q%d.fees.%s", k, ft), absent)
						continue
					}
					rc.read(fmt.Sprintf("q%d.label.%s", k, ft), feeFull(f))
				case 5:
					rc.kind("FeeQuote.UpdateExpiry")
					sec := id
					if gr.Bool() {
						sec += 4000000000 // far future: not expired
					}
					rc.store(fmt.Sprintf("q%d.expiry", k), sec)
					rc.store(fmt.Sprintf("q%d.expired", k), b2u(sec < 4000000000))
					q.UpdateExpiry(time.Unix(int64(sec), 0))
				case 6:
					rc.kind("FeeQuote.Expiry")
					rc.read(fmt.Sprintf("q%d.expiry", k), uint64(q.Expiry().Unix()))
				case 7:
					rc.kind("FeeQuote.Expired")
					rc.read(fmt.Sprintf("q%d.expired", k), b2u(q.Expired()))
				case 8, 9:
					rc.kind("FeeQuote.MarshalJSON")
					var bb []byte
					var err error
					if gr.Bool() {
						bb, err = q.MarshalJSON()
					} else {
						bb, err = json.Marshal(q)
					}
					if err != nil {
						rc.badf("q%d.MarshalJSON: %v", k, err)
						continue
					}
					m := map[string]feeJSON{}
					if err := json.Unmarshal(bb, &m); err != nil {
						rc.badf("q%d.MarshalJSON output does not parse: %v", k, err)
						continue
					}
					for _, t := range feeTypes {
						fj, ok := m[string(t)]
						if !ok {
							rc.read(fmt.Sprintf("q%d.fees.%s", k, t), absent)
							continue
						}
						rc.read(fmt.Sprintf("q%d.fees.%s", k, t), feeID(&bt.Fee{MiningFee: fj.MiningFee, RelayFee: fj.RelayFee}))
					}
				case 10:
					rc.kind("FeeQuote.UnmarshalJSON")
					body := fmt.Sprintf(`{"standard":%s,"data":%s}`, feeDoc(id), feeDoc(id+1))
					storeFee(fmt.Sprintf("q%d", k), bt.FeeTypeStandard, id, bt.FeeTypeStandard)
					storeFee(fmt.Sprintf("q%d", k), bt.FeeTypeData, id+1, bt.FeeTypeData)
					var err error
					if gr.Bool() {
						err = q.UnmarshalJSON([]byte(body))
					} else {
						err = json.Unmarshal([]byte(body), q)
					}
					if err != nil {
						rc.badf("q%d.UnmarshalJSON: %v", k, err)
					}
				case 11:
					rc.kind("FeeQuotes.AddMiner")
					slotMu.Lock()
					slot[qi][miner][fmt.Sprintf("q%d", k)] = true
					slotMu.Unlock()
					rc.store(QN+".quotes."+miner, uint64(k+1))
					Q.AddMiner(miner, q)
				case 12:
					rc.kind("FeeQuotes.AddMinerWithDefault")
					slotMu.Lock()
					slot[qi][miner]["anon"+QN] = true
					slotMu.Unlock()
					rc.store(QN+".quotes."+miner, anonymous)
					Q.AddMinerWithDefault(miner)
				case 13, 14:
					rc.kind("FeeQuotes.Quote")
					got, err := Q.Quote(miner)
					if err != nil {
						rc.read(QN+".quotes."+miner, absent)
						continue
					}
					_, v := objName(qi, got)
					rc.read(QN+".quotes."+miner, v)
				case 15, 16, 17:
					rc.kind("FeeQuotes.Fee")
					f, err := Q.Fee(miner, ft)
					if err != nil {
						rc.read(QN+".quotes."+miner, absent) // ErrMinerNoQuotes: the slot was empty
						if err != bt.ErrMinerNoQuotes {
							rc.badf("%s.Fee(%s,%s): %v", QN, miner, ft, err)
						}
						continue
					}
					rc.read(QN+".label."+miner+"."+string(ft), feeFull(f))
				case 18, 19:
					rc.kind("FeeQuotes.UpdateMinerFees")
					got, err := Q.UpdateMinerFees(miner, ft, mkFee(ft, id))
					if err != nil {
						rc.read(QN+".quotes."+miner, absent)
						continue
					}
					nm, _ := objName(qi, got)
					storeFee(nm, ft, id, ft)
				case 20, 21:
					// a fee value the caller keeps, stored once more: in another quote, under another fee type. What
					// is stored is the value as the caller made it (the library's AddQuote does not relabel)
					rc.kind("FeeQuote.AddQuote/kept-fee-value")
					j := gr.Intn(len(kept))
					storeFee(fmt.Sprintf("q%d", k), ft, uint64(700+j), keptLabels[j])
					q.AddQuote(ft, kept[j])
				case 22, 23:
					rc.kind("FeeQuotes.UpdateMinerFees/kept-fee-value")
					j := gr.Intn(len(kept))
					got, err := Q.UpdateMinerFees(miner, ft, kept[j])
					if err != nil {
						rc.read(QN+".quotes."+miner, absent)
						continue
					}
					nm, _ := objName(qi, got)
					storeFee(nm, ft, uint64(700+j), keptLabels[j])
				case 24, 25, 26:
					// a write that FAILS: a document with a fee type the library does not know (next to good entries
					// for the known ones), a cut-off document, an entry of the wrong shape. The call reports an error:
					// nothing it carried may ever be read, and what was stored before stays readable
					rc.kind("FeeQuote.UnmarshalJSON/rejected")
					var body string
					switch v := gr.Intn(6); v {
					case 0:
						body = fmt.Sprintf(`{"standard":%s,"data":%s,"bogus":%s}`, feeDoc(id), feeDoc(id+1), feeDoc(id+2))
					case 1:
						body = fmt.Sprintf(`{"bogus":%s,"data":%s,"standard":%s}`, feeDoc(id+2), feeDoc(id+1), feeDoc(id))
					case 2:
						body = fmt.Sprintf(`{"Standard":%s}`, feeDoc(id))
					case 3:
						full := fmt.Sprintf(`{"standard":%s,"data":%s}`, feeDoc(id), feeDoc(id+1))
						body = full[:1+gr.Intn(len(full)-1)]
					case 4:
						body = fmt.Sprintf(`{"standard":%s,"data":{"miningFee":{"satoshis":"%d","bytes":1},"relayFee":7}}`, feeDoc(id), id+1)
					default:
						body = fmt.Sprintf(`{"standard":%s,"data":%d}`, feeDoc(id), id+1)
					}
					var err error
					how := "UnmarshalJSON"
					if gr.Bool() {
						err = q.UnmarshalJSON([]byte(body))
					} else {
						how = "json.Unmarshal"
						err = json.Unmarshal([]byte(body), q)
					}
					nm := fmt.Sprintf("q%d", k)
					if err == nil {
						// accepted after all (not this property's subject): then it stored what it carried
						storeFee(nm, bt.FeeTypeStandard, id, bt.FeeTypeStandard)
						storeFee(nm, bt.FeeTypeData, id+1, bt.FeeTypeData)
						continue
					}
					call := fmt.Sprintf("%s of %s into q%d by goroutine %d (operation %d), which returned the error %q", how, body, k, gi, op, err.Error())
					rejectFee(nm, bt.FeeTypeStandard, id, bt.FeeTypeStandard, call)
					rejectFee(nm, bt.FeeTypeData, id+1, bt.FeeTypeData, call)
				default:
					// FeeQuotes.UpdateMinerFees with an empty argument: rejected, nothing stored
					rc.kind("FeeQuotes.UpdateMinerFees/rejected")
					var err error
					var what string
					switch gr.Intn(3) {
					case 0:
						what = fmt.Sprintf("UpdateMinerFees(%q, \"\", fee %d)", miner, id)
						_, err = Q.UpdateMinerFees(miner, "", mkFee(ft, id))
					case 1:
						what = fmt.Sprintf("UpdateMinerFees(\"\", %q, fee %d)", ft, id)
						_, err = Q.UpdateMinerFees("", ft, mkFee(ft, id))
					default:
						what = fmt.Sprintf("UpdateMinerFees(%q, %q, nil)", miner, ft)
						_, err = Q.UpdateMinerFees(miner, ft, nil)
					}
					if err == nil {
						rc.badf("%s.%s returned no error", QN, what)
						continue
					}
					call := fmt.Sprintf("%s.%s by goroutine %d (operation %d), which returned the error %q", QN, what, gi, op, err.Error())
					for kk := 0; kk < nq; kk++ {
						for _, t := range feeTypes {
							rejectFee(fmt.Sprintf("q%d", kk), t, id, ft, call)
						}
					}
				}
			}
		}()
	}
	close(start)
	if !waitAll(&wg, 30*time.Second) {
		h.Deadlock = true
		h.Race = newRaces()
		return h
	}
	h.Race = newRaces()

	// the fee values the callers kept are what they made them: storing a value does not change it
	var keptBad []string // reported after the reads that show it
	for j, f := range kept {
		if got := feeFull(f); got != keptFull[j] {
			keptBad = append(keptBad, fmt.Sprintf(tagArgument+"the fee value number %d the callers handed to AddQuote / UpdateMinerFees (fee %d labelled %q) reads %s after the history: storing a caller's value under a fee type changed the value, which is stored in other quotes / under other fee types too",
				j, 700+j, keptLabels[j], showFull(got)))
		}
	}

	// second phase, values rather than accesses: every fee type of every quote now has exactly ONE writer. What that
	// writer stored and saw acknowledged is what it (and, once all have finished, anyone) reads back, whatever the
	// writers of the other fee types of the same object do meanwhile (an update lost to a concurrent writer of another
	// key is not a data race; only the values show it). Every writer hands over ONE fee value of its own, relabelled by
	// nobody: the same *Fee is stored under both fee types of the quote next to it (by that quote's two writers), so
	// a store that writes into its argument shows as a value read where it was never stored.
	{
		var wg2 sync.WaitGroup
		start2 := make(chan struct{})
		last := make([][2]uint64, nq)
		// own[k]: a fee value labelled "standard" that BOTH writers of quote k store, each under its own fee type
		own := make([]*bt.Fee, nq)
		for k := range own {
			own[k] = mkFee(bt.FeeTypeStandard, uint64(40000000+k))
		}
		for k := range quotes {
			for fi, ft := range feeTypes {
				k, fi, ft := k, fi, ft
				wg2.Add(1)
				go func() {
					defer wg2.Done()
					<-start2
					for it := 0; it < 300; it++ {
						id := uint64(50000000 + k*1000000 + fi*100000 + it)
						fee, want := mkFee(ft, id), fullOf(id, ft)
						if it%5 == 4 {
							fee, want = own[k], fullOf(uint64(40000000+k), bt.FeeTypeStandard)
						}
						quotes[k].AddQuote(ft, fee)
						last[k][fi] = want
						f, err := quotes[k].Fee(ft)
						if err != nil || feeFull(f) != want {
							tag := ""
							if err == nil && feeID(f) == want/4 {
								tag = tagArgument
							}
							rc.badf(tag+"q%d: Fee(%s) returned %s right after its only writer stored %s (error %v): an acknowledged write was lost or the stored value was changed", k, ft, showFull(feeFull(f)), showFull(want), err)
							return
						}
					}
				}()
			}
		}
		rc.kind("single-writer-per-fee-type phase")
		close(start2)
		if !waitAll(&wg2, 30*time.Second) {
			h.Deadlock = true
			return h
		}
		for k := range quotes {
			for fi, ft := range feeTypes {
				if f, err := quotes[k].Fee(ft); err != nil || feeFull(f) != last[k][fi] {
					rc.badf("q%d: after all writers finished Fee(%s) is %s, the last value stored is %s", k, ft, showFull(feeFull(f)), showFull(last[k][fi]))
				}
			}
		}
		if nr := newRaces(); nr != "" {
			h.Race += nr
		}
	}

	// third phase, failing writes against a quiet background: nobody writes successfully any more, so every quote has ONE
	// stored value per fee type; writers whose calls all FAIL (unknown fee type, cut-off document, wrong shape) run
	// next to readers, and every read - during and after - has to return that one value.
	{
		want := make([][2]uint64, nq)
		for k := range quotes {
			for fi, ft := range feeTypes {
				f, _ := quotes[k].Fee(ft)
				want[k][fi] = feeFull(f)
			}
		}
		var wg3 sync.WaitGroup
		start3 := make(chan struct{})
		stop3 := make([]int32, nq)
		check := func(who string, k int) bool {
			for fi, ft := range feeTypes {
				f, err := quotes[k].Fee(ft)
				if err != nil || feeFull(f) != want[k][fi] {
					rc.badf(tagFailedWrite+"q%d: %s: Fee(%s) returned %s (error %v); the only value stored there is %s, and the only calls running are UnmarshalJSON calls that return an error", k, who, ft, showFull(feeFull(f)), err, showFull(want[k][fi]))
					return false
				}
			}
			return true
		}
		for k := range quotes {
			k := k
			wr := r.Fork()
			wg3.Add(2)
			go func() { // the failing writer of quote k
				defer wg3.Done()
				defer atomic.StoreInt32(&stop3[k], 1)
				<-start3
				for it := 0; it < 40; it++ {
					id := uint64(60000000 + k*1000000 + it*4)
					var body string
					switch it % 4 {
					case 0:
						body = fmt.Sprintf(`{"standard":%s,"data":%s,"bogus":%s}`, feeDoc(id), feeDoc(id+1), feeDoc(id+2))
					case 1:
						body = fmt.Sprintf(`{"other":%s}`, feeDoc(id))
					case 2:
						full := fmt.Sprintf(`{"standard":%s,"data":%s}`, feeDoc(id), feeDoc(id+1))
						body = full[:1+wr.Intn(len(full)-1)]
					default:
						body = fmt.Sprintf(`{"data":%s,"standard":[%d]}`, feeDoc(id+1), id)
					}
					var err error
					if it%2 == 0 {
						err = quotes[k].UnmarshalJSON([]byte(body))
					} else {
						err = json.Unmarshal([]byte(body), quotes[k])
					}
					if err == nil {
						return // accepted: not this phase's subject, and the background is no longer quiet
					}
					if !check(fmt.Sprintf("right after UnmarshalJSON(%s) returned the error %q", body, err.Error()), k) {
						return
					}
				}
			}()
			go func() { // a reader of quote k
				defer wg3.Done()
				<-start3
				for it := 0; it < 600 && atomic.LoadInt32(&stop3[k]) == 0; it++ {
					if !check("a concurrent reader", k) {
						return
					}
				}
			}()
		}
		rc.kind("failing-writes-only phase")
		close(start3)
		if !waitAll(&wg3, 30*time.Second) {
			h.Deadlock = true
			return h
		}
		if nr := newRaces(); nr != "" {
			h.Race += nr
		}
	}

	// allowed values of the derived locations Q.label.<miner>.<ft>: whatever any object that was ever
	// in that slot held for that fee type
	wasRead := map[KV]bool{}
	for _, rd := range rc.reads {
		wasRead[rd] = true
	}
	for qi, qn := range fqsNames {
		for _, m := range miners {
			for _, ft := range feeTypes {
				key := qn + ".label." + m + "." + string(ft)
				for o := range slot[qi][m] {
					src := o + ".label." + string(ft)
					rc.store(key, init[src])
					for v := range rc.stored[src] {
						rc.store(key, v)
					}
					for v, call := range rc.rejected[src] {
						if wasRead[KV{key, v}] { // only what matters: a rejected value that WAS read through the FeeQuotes
							rc.reject(key, v, call)
						}
					}
				}
			}
		}
	}
	var ik []string
	for k := range init {
		ik = append(ik, k)
	}
	sort.Strings(ik)
	for _, k := range ik {
		h.Init = append(h.Init, KV{k, init[k]})
	}
	var sk []string
	for k := range rc.stored {
		sk = append(sk, k)
	}
	sort.Strings(sk)
	for _, k := range sk {
		var vs []uint64
		for v := range rc.stored[k] {
			vs = append(vs, v)
		}
		sort.Slice(vs, func(i, j int) bool { return vs[i] < vs[j] })
		for _, v := range vs {
			h.Stored = append(h.Stored, KV{k, v})
		}
	}
	var rk []string
	for k := range rc.rejected {
		rk = append(rk, k)
	}
	sort.Strings(rk)
	for _, k := range rk {
		var vs []uint64
		for v := range rc.rejected[k] {
			if !rc.stored[k][v] {
				vs = append(vs, v)
			}
		}
		sort.Slice(vs, func(i, j int) bool { return vs[i] < vs[j] })
		for _, v := range vs {
			h.Rejected = append(h.Rejected, KV{k, v})
		}
	}
	// reads: de-duplicated (the check is per distinct (location, value))
	seen := map[KV]bool{}
	for _, rd := range rc.reads {
		if !seen[rd] {
			seen[rd] = true
			h.Reads = append(h.Reads, rd)
		}
	}
	sort.Slice(h.Reads, func(i, j int) bool {
		if h.Reads[i].K != h.Reads[j].K {
			return h.Reads[i].K < h.Reads[j].K
		}
		return h.Reads[i].V < h.Reads[j].V
	})
	h.Ops = g * opsPer
	for k := range rc.kinds {
		h.OpKinds = append(h.OpKinds, k)
	}
	sort.Strings(h.OpKinds)
	// the property, stated directly: every read value was stored (or is initial)
	for _, rd := range h.Reads {
		if iv, ok := init[rd.K]; ok && iv == rd.V {
			continue
		}
		if rc.stored[rd.K][rd.V] {
			continue
		}
		show := fmt.Sprint(rd.V)
		if strings.Contains(rd.K, ".label.") {
			show = showFull(rd.V)
		} else if rd.V == absent {
			show = "no entry"
		}
		if call, ok := rc.rejected[rd.K][rd.V]; ok {
			rc.bad = append(rc.bad, fmt.Sprintf(tagFailedWrite+"read of %s returned %s: no write stored that; it is what a REJECTED call carried: %s", rd.K, show, call))
			continue
		}
		// the numbers of a stored fee under a label no write gave it there: some store wrote into the caller's value
		if strings.Contains(rd.K, ".label.") && rd.V != absent {
			for v := range rc.stored[rd.K] {
				if v/4 == rd.V/4 {
					rc.bad = append(rc.bad, fmt.Sprintf(tagArgument+"read of %s returned %s; what was stored there is %s: the value the caller handed over was changed after it was stored (the same *Fee is stored in other quotes / under other fee types)", rd.K, show, showFull(v)))
					show = ""
					break
				}
			}
			if show == "" {
				continue
			}
		}
		rc.bad = append(rc.bad, fmt.Sprintf("read of %s returned %s, which no write stored", rd.K, show))
	}
	rc.bad = append(rc.bad, keptBad...)
	// the violations that name their cause first
	sort.SliceStable(rc.bad, func(i, j int) bool { return strings.HasPrefix(rc.bad[i], "[") && !strings.HasPrefix(rc.bad[j], "[") })
	h.Bad = rc.bad
	return h
}

func b2u(b bool) uint64 {
	if b {
		return 1
	}
	return 0
}

// ---------------------------------------------------------------------------------------------
// Engine.Execute on distinct jobs

type job struct {
	kind string
	opts func() []interpreter.ExecutionOptionFunc
	// fresh: option values made for one run alone (the sequential verdict of a job whose opts are values shared with
	// other jobs); nil: opts
	fresh func() []interpreter.ExecutionOptionFunc
	desc  string
	spec  *progSpec // the scripts and flags, for jobs built from a program
	// for jobs over a signed transaction: the parts, so that the read-only probe can rebuild the job over other storage
	tx   *bt.Tx
	in   int
	prev *bt.Output
	more []interpreter.ExecutionOptionFunc
}

func (j job) describe() string {
	if j.desc != "" {
		return j.desc
	}
	if j.spec != nil {
		return j.spec.describe()
	}
	if j.tx != nil && j.prev != nil && j.prev.LockingScript != nil {
		return fmt.Sprintf("%s: input %d of tx %s spending an output with locking script %x", j.kind, j.in, j.tx.String(), []byte(*j.prev.LockingScript))
	}
	return j.kind
}

func keyFor(r *common.Rand) *bec.PrivateKey {
	b := r.Bytes(32)
	b[0] &= 0x7f
	b[31] |= 1
	k, _ := bec.PrivKeyFromBytes(bec.S256(), b)
	return k
}

// p2pkhJob builds a signed 1..3-input P2PKH transaction; variant decides what is broken.
func p2pkhJobs(r *common.Rand, sw *sharedWallet) []job {
	key := keyFor(r)
	lock, err := bscript.NewP2PKHFromPubKeyBytes(key.PubKey().SerialiseCompressed())
	if err != nil {
		panic(err)
	}
	if sw != nil && r.Chance(35) {
		// a wallet that keeps ONE script object per address: different transactions (validated by different goroutines)
		// name the same *bscript.Script as the locking script of the outputs they spend
		key, lock = sw.key, sw.lock
	}
	nin := 1 + r.Intn(3)
	tx := bt.NewTx()
	sats := make([]uint64, nin)
	for i := 0; i < nin; i++ {
		sats[i] = 1000 + uint64(r.Intn(100000))
		if err := tx.From(hex.EncodeToString(r.Bytes(32)), uint32(r.Intn(4)), lock.String(), sats[i]); err != nil {
			panic(err)
		}
	}
	nout := 1 + r.Intn(2)
	for i := 0; i < nout; i++ {
		if err := tx.PayTo(lock, 500+uint64(r.Intn(400))); err != nil {
			panic(err)
		}
	}
	variant := r.Intn(6)
	legacy := variant == 5
	strict := r.Bool() // also run the signature-encoding checks (DER, low S: they consult package-level big.Int values)
	for i := 0; i < nin; i++ {
		flags := sighash.AllForkID
		if legacy {
			// SIGHASH_SINGLE without FORKID, possibly with no matching output: the "hash of one" path
			flags = sighash.Single
		}
		if err := tx.FillInput(context.Background(), &unlocker.Simple{PrivateKey: key}, bt.UnlockerParams{InputIdx: uint32(i), SigHashFlags: flags}); err != nil {
			panic(err)
		}
	}
	kind := "p2pkh/valid"
	switch variant {
	case 1: // corrupt one signature byte of input 0
		b := append([]byte{}, (*tx.Inputs[0].UnlockingScript)...)
		b[10] ^= 0x01
		s := bscript.Script(b)
		tx.Inputs[0].UnlockingScript = &s
		kind = "p2pkh/bad-signature"
	case 2: // wrong amount in the previous output
		kind = "p2pkh/wrong-amount"
	case 5:
		kind = "p2pkh/legacy-single"
	}
	var jobs []job
	for i := 0; i < nin; i++ {
		i := i
		amount := sats[i]
		if variant == 2 {
			amount++
		}
		prev := &bt.Output{Satoshis: amount, LockingScript: lock}
		fl := []interpgen.FlagOpt{optAfterGenesis}
		if !legacy {
			fl = append(fl, optForkID)
		}
		if strict {
			fl = append(fl, interpgen.WF(uint32(scriptflag.VerifyLowS|scriptflag.VerifyDERSignatures|scriptflag.VerifyStrictEncoding|scriptflag.VerifyNullFail|scriptflag.VerifyMinimalData)))
		}
		more, freshMore := sw.flagOptions(fl...)
		j := job{kind: kind, tx: tx, in: i, prev: prev, more: more, opts: func() []interpreter.ExecutionOptionFunc {
			return append([]interpreter.ExecutionOptionFunc{interpreter.WithTx(tx, i, prev)}, more...)
		}}
		if freshMore != nil {
			j.fresh = func() []interpreter.ExecutionOptionFunc {
				return append([]interpreter.ExecutionOptionFunc{interpreter.WithTx(tx, i, prev)}, freshMore()...)
			}
		}
		jobs = append(jobs, j)
	}
	return jobs
}

// sharedWallet: script objects that several transactions of one round refer to.
type sharedWallet struct {
	key, keyB    *bec.PrivateKey
	lock, csLock *bscript.Script
	csAfter      *bscript.Script // what follows the OP_CODESEPARATOR of csLock
	lock0, cs0   []byte
	ms           []*bec.PrivateKey // the keys of the bare 2-of-3 multisig output script several transactions name
	bank         *optBank          // when set: the flag options of the signed jobs are the round's shared values
}

// flagOptions: the options for these flags - out of the round's bank when the wallet has one (then fresh makes the
// same options anew, for the sequential reference run), else built here.
func (sw *sharedWallet) flagOptions(fl ...interpgen.FlagOpt) (opts []interpreter.ExecutionOptionFunc, fresh func() []interpreter.ExecutionOptionFunc) {
	mk := func() []interpreter.ExecutionOptionFunc {
		var out []interpreter.ExecutionOptionFunc
		for _, o := range fl {
			out = append(out, o.Option())
		}
		return out
	}
	if sw == nil || sw.bank == nil {
		return mk(), nil
	}
	for _, o := range fl {
		opts = append(opts, sw.bank.get(o))
	}
	return opts, mk
}

var (
	optAfterGenesis = interpgen.FlagOpt{Named: "WithAfterGenesis", Word: interpgen.FGenesis}
	optForkID       = interpgen.FlagOpt{Named: "WithForkID", Word: interpgen.FForkID}
)

func newSharedWallet(r *common.Rand) *sharedWallet {
	sw := &sharedWallet{key: keyFor(r), keyB: keyFor(r), ms: []*bec.PrivateKey{keyFor(r), keyFor(r), keyFor(r)}}
	var err error
	if sw.lock, err = bscript.NewP2PKHFromPubKeyBytes(sw.key.PubKey().SerialiseCompressed()); err != nil {
		panic(err)
	}
	// <keyA> OP_CHECKSIGVERIFY OP_CODESEPARATOR <keyB> OP_CHECKSIG: the second signature is over the script after the separator
	sw.csLock, sw.csAfter = &bscript.Script{}, &bscript.Script{}
	_ = sw.csLock.AppendPushData(sw.key.PubKey().SerialiseCompressed())
	_ = sw.csLock.AppendOpcodes(bscript.OpCHECKSIGVERIFY, bscript.OpCODESEPARATOR)
	_ = sw.csLock.AppendPushData(sw.keyB.PubKey().SerialiseCompressed())
	_ = sw.csLock.AppendOpcodes(bscript.OpCHECKSIG)
	_ = sw.csAfter.AppendPushData(sw.keyB.PubKey().SerialiseCompressed())
	_ = sw.csAfter.AppendOpcodes(bscript.OpCHECKSIG)
	sw.lock0, sw.cs0 = append([]byte{}, *sw.lock...), append([]byte{}, *sw.csLock...)
	return sw
}

func (sw *sharedWallet) changed() []string {
	var bad []string
	if !bytes.Equal(*sw.lock, sw.lock0) {
		bad = append(bad, fmt.Sprintf("the P2PKH locking script object shared by several transactions reads %x after the round, it was %x", []byte(*sw.lock), sw.lock0))
	}
	if !bytes.Equal(*sw.csLock, sw.cs0) {
		bad = append(bad, fmt.Sprintf("the OP_CODESEPARATOR locking script object shared by several transactions reads %x after the round, it was %x", []byte(*sw.csLock), sw.cs0))
	}
	return bad
}

// codesepJobs: a one-input transaction spending an output locked by the shared <A> CHECKSIGVERIFY CODESEPARATOR <B> CHECKSIG
// script object; every second one carries a wrong second signature.
func codesepJobs(r *common.Rand, sw *sharedWallet) []job {
	sats := 1000 + uint64(r.Intn(100000))
	tx := bt.NewTx()
	if err := tx.From(hex.EncodeToString(r.Bytes(32)), uint32(r.Intn(4)), sw.csLock.String(), sats); err != nil {
		panic(err)
	}
	if err := tx.PayTo(sw.lock, 500+uint64(r.Intn(400))); err != nil {
		panic(err)
	}
	sign := func(key *bec.PrivateKey, code *bscript.Script) []byte {
		cp := tx.Clone()
		cc := append(bscript.Script{}, *code...)
		cp.Inputs[0].PreviousTxScript, cp.Inputs[0].PreviousTxSatoshis = &cc, sats
		h, err := cp.CalcInputSignatureHash(0, sighash.AllForkID)
		if err != nil {
			panic(err)
		}
		sig, err := key.Sign(h)
		if err != nil {
			panic(err)
		}
		return append(sig.Serialise(), byte(sighash.AllForkID))
	}
	sigA, sigB := sign(sw.key, sw.csLock), sign(sw.keyB, sw.csAfter)
	kind := "codeseparator/valid"
	if r.Bool() {
		sigB = sign(sw.keyB, sw.csLock) // signed over the whole script instead of the part after the separator
		kind = "codeseparator/second-signature-over-whole-script"
	}
	unlock := &bscript.Script{}
	_ = unlock.AppendPushData(sigB)
	_ = unlock.AppendPushData(sigA)
	tx.Inputs[0].UnlockingScript = unlock
	prev := &bt.Output{Satoshis: sats, LockingScript: sw.csLock}
	return []job{signedJob(kind, tx, prev, sw)}
}

// signedJob: input 0 of tx under WithAfterGenesis + WithForkID (the round's shared values when the wallet has a bank).
func signedJob(kind string, tx *bt.Tx, prev *bt.Output, sw *sharedWallet) job {
	more, freshMore := sw.flagOptions(optAfterGenesis, optForkID)
	j := job{kind: kind, tx: tx, prev: prev, more: more, opts: func() []interpreter.ExecutionOptionFunc {
		return append([]interpreter.ExecutionOptionFunc{interpreter.WithTx(tx, 0, prev)}, more...)
	}}
	if freshMore != nil {
		j.fresh = func() []interpreter.ExecutionOptionFunc {
			return append([]interpreter.ExecutionOptionFunc{interpreter.WithTx(tx, 0, prev)}, freshMore()...)
		}
	}
	return j
}

// multisigJobs: a 2-of-3 bare multisig output spent by a one-input transaction, with keys no execution of this
// process has seen before; variant 1 carries a signature by a key that is not in the script.
func multisigJobs(r *common.Rand) []job {
	keys := []*bec.PrivateKey{keyFor(r), keyFor(r), keyFor(r)}
	lockB := []byte{0x52}
	for _, k := range keys {
		pk := k.PubKey().SerialiseCompressed()
		lockB = append(append(lockB, byte(len(pk))), pk...)
	}
	lockB = append(lockB, 0x53, 0xae)
	lock := bscript.NewFromBytes(lockB)
	tx := bt.NewTx()
	sats := 1000 + uint64(r.Intn(100000))
	if err := tx.From(hex.EncodeToString(r.Bytes(32)), uint32(r.Intn(4)), lock.String(), sats); err != nil {
		panic(err)
	}
	tx.AddOutput(&bt.Output{Satoshis: 500, LockingScript: bscript.NewFromBytes([]byte{0x51})})
	h, err := tx.CalcInputSignatureHash(0, sighash.AllForkID)
	if err != nil {
		panic(err)
	}
	variant := r.Intn(3)
	signers := []*bec.PrivateKey{keys[0], keys[2]}
	kind := "multisig/valid"
	if variant == 1 {
		signers[1] = keyFor(r)
		kind = "multisig/foreign-signature"
	}
	unlock := []byte{0x00}
	for _, k := range signers {
		sig, err := k.Sign(h)
		if err != nil {
			panic(err)
		}
		sb := append(sig.Serialise(), byte(sighash.AllForkID))
		unlock = append(append(unlock, byte(len(sb))), sb...)
	}
	tx.Inputs[0].UnlockingScript = bscript.NewFromBytes(unlock)
	prev := &bt.Output{Satoshis: sats, LockingScript: lock}
	more := []interpreter.ExecutionOptionFunc{interpreter.WithAfterGenesis(), interpreter.WithForkID()}
	return []job{{kind: kind, tx: tx, prev: prev, more: more, opts: func() []interpreter.ExecutionOptionFunc {
		return []interpreter.ExecutionOptionFunc{interpreter.WithTx(tx, 0, prev), interpreter.WithAfterGenesis(), interpreter.WithForkID()}
	}}}
}

var scriptPairs = [][2]string{
	{"OP_2 OP_3 OP_ADD OP_5 OP_EQUAL", "OP_TRUE"},
	{"OP_2 OP_3 OP_ADD OP_6 OP_EQUAL", "OP_TRUE"},
	{"OP_DUP OP_MUL OP_16 OP_EQUAL", "OP_4"},
	{"OP_SHA256 OP_SIZE OP_NIP OP_16 OP_16 OP_ADD OP_EQUAL", "OP_7"},
	{"OP_IF OP_1 OP_ELSE OP_0 OP_ENDIF", "OP_0"},
	{"OP_IF OP_1 OP_ELSE OP_0 OP_ENDIF", "OP_1"},
	{"OP_1 OP_LSHIFT OP_2 OP_EQUAL", "OP_1"},
	{"OP_CAT OP_SIZE OP_2 OP_EQUALVERIFY OP_DROP OP_1", "OP_5 OP_6"},
	{"OP_BIN2NUM OP_1 OP_EQUAL", "0100"},
	{"OP_3 OP_NUM2BIN OP_SIZE OP_3 OP_EQUALVERIFY OP_DROP OP_1", "OP_9"},
	{"OP_HASH160 OP_SIZE OP_NIP OP_16 OP_4 OP_ADD OP_EQUAL", "OP_11"},
	{"OP_RETURN", "OP_1"},
	{"OP_DIV OP_3 OP_EQUAL", "OP_10 OP_3"},
	{"OP_DIV OP_3 OP_EQUAL", "OP_10 OP_0"},
	{"OP_RIPEMD160 OP_SIZE OP_NIP OP_16 OP_4 OP_ADD OP_EQUAL", "OP_12"},
	{"OP_SHA1 OP_SIZE OP_NIP OP_16 OP_4 OP_ADD OP_EQUAL", "OP_13"},
	{"OP_HASH256 OP_SIZE OP_NIP OP_16 OP_16 OP_ADD OP_EQUAL", "OP_14"},
	hashSweep,
}

// hashSweep: every hash opcode (and a few of every other class) in one script with a fixed verdict; several
// goroutines run it in every round, so state shared between executions behind any of them is touched concurrently
var hashSweep = [2]string{"OP_DUP OP_RIPEMD160 OP_SWAP OP_DUP OP_SHA1 OP_SWAP OP_DUP OP_SHA256 OP_SWAP OP_DUP OP_HASH160 OP_SWAP OP_HASH256 " +
	"OP_SIZE OP_NIP OP_16 OP_16 OP_ADD OP_EQUALVERIFY OP_SIZE OP_NIP OP_16 OP_4 OP_ADD OP_EQUALVERIFY OP_SIZE OP_NIP OP_16 OP_16 OP_ADD OP_EQUALVERIFY " +
	"OP_TOALTSTACK OP_FROMALTSTACK OP_CAT OP_SIZE OP_NIP OP_16 OP_16 OP_ADD OP_8 OP_ADD OP_EQUAL", "0102030405060708090a"}

func sweepJob() job {
	lock, err1 := bscript.NewFromASM(hashSweep[0])
	unlock, err2 := bscript.NewFromASM(hashSweep[1])
	if err1 != nil || err2 != nil {
		panic(fmt.Sprint(err1, err2))
	}
	return job{kind: "script-only", opts: func() []interpreter.ExecutionOptionFunc {
		return []interpreter.ExecutionOptionFunc{interpreter.WithScripts(lock, unlock), interpreter.WithAfterGenesis(), interpreter.WithForkID()}
	}}
}

func scriptJob(r *common.Rand) job {
	p := scriptPairs[r.Intn(len(scriptPairs))]
	lock, err1 := bscript.NewFromASM(p[0])
	unlock, err2 := bscript.NewFromASM(p[1])
	if err1 != nil || err2 != nil {
		panic(fmt.Sprint(err1, err2))
	}
	return job{kind: "script-only", opts: func() []interpreter.ExecutionOptionFunc {
		return []interpreter.ExecutionOptionFunc{interpreter.WithScripts(lock, unlock), interpreter.WithAfterGenesis(), interpreter.WithForkID()}
	}}
}

func verdict(e interpreter.Engine, j job) (ok bool) {
	defer func() {
		if rec := recover(); rec != nil {
			ok = false
		}
	}()
	return e.Execute(j.opts()...) == nil
}

// seqVerdict: the reference verdict - a run with option values of its own where the job's options are shared values
func seqVerdict(e interpreter.Engine, j job) (ok bool) {
	if j.fresh == nil {
		return verdict(e, j)
	}
	defer func() {
		if rec := recover(); rec != nil {
			ok = false
		}
	}()
	return e.Execute(j.fresh()...) == nil
}

// engineRound: units of jobs; a unit is all inputs of ONE transaction (or one script pair). With
// sameTx=false every unit is validated by exactly one goroutine ("different transactions from many
// goroutines", the property); with sameTx=true the inputs of one transaction are spread over
// goroutines (informational: Execute writes the previous output into the caller's tx).
func engineRound(seed uint64, sameTx bool, index int, pl *pool) EngineRound {
	r := common.NewRand(seed)
	g := 2 + r.Intn(15)
	procs := procChoices[r.Intn(len(procChoices))]
	prev := runtime.GOMAXPROCS(procs)
	defer runtime.GOMAXPROCS(prev)
	var jobs []job
	var unit []int // unit index of every job
	var sw *sharedWallet
	var bank *optBank
	if !sameTx {
		sw = newSharedWallet(r)
		bank = newOptBank()
		sw.bank = bank
	}
	target := g * (1 + r.Intn(3))
	nu0 := 0
	if !sameTx {
		for ; nu0 < g; nu0++ { // one hash-sweep unit per goroutine
			jobs = append(jobs, sweepJob())
			unit = append(unit, nu0)
		}
		target += g
	}
	for nu := nu0; len(jobs) < target; nu++ {
		var u []job
		if r.Chance(25) && !sameTx {
			u = multisigJobs(r)
		} else if r.Chance(25) && !sameTx {
			u = codesepJobs(r, sw)
		} else if r.Chance(60) || sameTx {
			u = p2pkhJobs(r, sw)
		} else {
			u = []job{scriptJob(r)}
		}
		for range u {
			unit = append(unit, nu)
		}
		jobs = append(jobs, u...)
	}
	// script objects named by several transactions, read by every opcode family; script features of every kind
	shared := &sharedSet{}
	if !sameTx && pl != nil {
		var units [][]job
		units = append(units, contractUnits(r, index, 7, shared)...)
		units = append(units, pl.programUnits(r, 40, shared)...)
		// the round's option values, shared: programs sensitive to one flag, under the word with and without it
		units = append(units, pl.flagTwinUnits(r, index, 14, bank, shared, true)...)
		msLock := shared.add("bare 2-of-3 multisig", heapScript(multisigLockBytes(sw.ms)))
		for k := 0; k < 2; k++ {
			units = append(units, signedTailJobs(r, sw, heapScript))
			units = append(units, sharedMultisigJobs(r, sw, msLock, heapScript))
		}
		nu := 0
		if len(unit) > 0 {
			nu = unit[len(unit)-1] + 1
		}
		// interleave: the spenders of one script object go to different goroutines, and not all at the end
		for _, u := range units {
			for range u {
				unit = append(unit, nu)
			}
			jobs = append(jobs, u...)
			nu++
		}
	}
	out := EngineRound{Seed: seed, Goroutines: g, Procs: procs, Jobs: len(jobs), Index: index, Shared: len(shared.objs)}
	if sw != nil {
		out.Shared += 2 // the P2PKH and the OP_CODESEPARATOR script objects of the round's wallet
	}
	if bank != nil {
		out.OptionValues = bank.sharedValues()
	}
	kinds := map[string]bool{}
	for _, j := range jobs {
		kinds[j.kind] = true
	}
	for k := range kinds {
		out.Kinds = append(out.Kinds, k)
	}
	sort.Strings(out.Kinds)

	// sequential verdicts, with an engine of their own: in every other round BEFORE the concurrent phase, else after
	// it (a concurrent phase that comes second runs on whatever the sequential one has left behind in the process:
	// caches are warm, lazily built tables are built)
	sequential := func() {
		seqEngine := interpreter.NewEngine()
		out.Sequential = make([]bool, len(jobs))
		for i, j := range jobs {
			out.Sequential[i] = seqVerdict(seqEngine, j)
		}
	}
	coldStart := seed%2 == 0 && !sameTx
	if !coldStart {
		sequential()
		newRaces() // nothing concurrent so far
	}

	// one shared engine; every (tx, input) pair is validated exactly once; all inputs of one tx by the
	// same goroutine unless sameTx
	engine := interpreter.NewEngine()
	out.Concurrent = make([]bool, len(jobs))
	var wg sync.WaitGroup
	start := make(chan struct{})
	for gi := 0; gi < g; gi++ {
		gi := gi
		wg.Add(1)
		go func() {
			defer wg.Done()
			<-start
			for i := range jobs {
				owner := unit[i] % g
				if sameTx {
					owner = i % g
				}
				if owner == gi {
					out.Concurrent[i] = verdict(engine, jobs[i])
				}
			}
		}()
	}
	close(start)
	if !waitAll(&wg, 60*time.Second) {
		out.Deadlock = true
	}
	out.Race = newRaces()
	if sw != nil {
		out.Bad = append(sw.changed(), shared.changed()...)
	}
	if coldStart && !out.Deadlock {
		sequential()
	}
	for i := range jobs {
		if !out.Deadlock && out.Concurrent[i] != out.Sequential[i] && len(out.Differs) < 5 {
			out.Differs = append(out.Differs, fmt.Sprintf("job %d, concurrent verdict %v, sequential verdict %v: %s", i, out.Concurrent[i], out.Sequential[i], jobs[i].describe()))
		}
	}
	return out
}
