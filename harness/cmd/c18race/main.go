// c18race: the concurrent workloads of property C18. Built by cmd/c18 with `go build -race`; run
// with GORACE="halt_on_error=0 exitcode=0 log_path=<base>" so that race reports go to <base>.<pid> and the
// run continues. Deterministic given -seed up to the scheduler (which is the thing explored).
//
//	-workload fee     randomized concurrent histories over shared FeeQuotes / FeeQuote values
//	-workload engine  one interpreter.Engine validating distinct transactions from many goroutines
//	-workload engine-sametx  (informational) the inputs of one transaction from different goroutines
//	-workload engine-ro      (shared.go; built without -race) every script handed to the engine in read-only pages
//	-workload engine-hammer  (shared.go; built without -race) the cheap jobs of a round validated over and over
//
// Result: one JSON document in -result; a progress marker (-result + ".progress") names the
// history being run, so that the parent can attribute a process-fatal error
// ("concurrent map read and map write") to a history.
package main

import (
	"bytes"
	"context"
	"encoding/hex"
	"encoding/json"
	"flag"
	"fmt"
	"os"
	"runtime"
	"sort"
	"strings"
	"sync"
	"time"

	"github.com/libsv/go-bk/bec"
	"github.com/libsv/go-bt/v2"
	"github.com/libsv/go-bt/v2/bscript"
	"github.com/libsv/go-bt/v2/bscript/interpreter"
	"github.com/libsv/go-bt/v2/bscript/interpreter/scriptflag"
	"github.com/libsv/go-bt/v2/sighash"
	"github.com/libsv/go-bt/v2/unlocker"

	"verif/harness/common"
)

type KV struct {
	K string `json:"k"`
	V uint64 `json:"v"`
}

type History struct {
	Seed       uint64   `json:"seed"`
	Goroutines int      `json:"goroutines"`
	Procs      int      `json:"gomaxprocs"`
	Ops        int      `json:"ops"`
	OpKinds    []string `json:"op_kinds"`
	Init       []KV     `json:"init"`
	Stored     []KV     `json:"stored"`
	Reads      []KV     `json:"reads"`
	Bad        []string `json:"bad,omitempty"`
	Race       string   `json:"race,omitempty"`
	Deadlock   bool     `json:"deadlock,omitempty"`
}

type EngineRound struct {
	Seed        uint64   `json:"seed"`
	Goroutines  int      `json:"goroutines"`
	Procs       int      `json:"gomaxprocs"`
	Jobs        int      `json:"jobs"`
	Kinds       []string `json:"kinds"`
	Concurrent  []bool   `json:"concurrent"`
	Sequential  []bool   `json:"sequential"`
	Race        string   `json:"race,omitempty"`
	Deadlock    bool     `json:"deadlock,omitempty"`
	Bad         []string `json:"bad,omitempty"`
	Index       int      `json:"index"`
	Shared      int      `json:"shared_script_objects"` // locking script objects named by more than one transaction of the round
	Differs     []string `json:"differs,omitempty"`     // the jobs whose concurrent verdict is not the sequential one, spelled out
	Validations int64    `json:"validations,omitempty"` // engine-hammer: how many validations ran concurrently
}

type Result struct {
	Histories []History     `json:"histories,omitempty"`
	Rounds    []EngineRound `json:"rounds,omitempty"`
	Probe     *ProbeResult  `json:"probe,omitempty"`
	PoolNote  string        `json:"pool_note,omitempty"`
	RaceBuild bool          `json:"race_build"`
}

var (
	raceLog    string
	raceOffset int64
	resultPath string
)

// newRaces returns the race-detector output written since the last call.
func newRaces() string {
	if raceLog == "" {
		return ""
	}
	f := fmt.Sprintf("%s.%d", raceLog, os.Getpid())
	b, err := os.ReadFile(f)
	if err != nil || int64(len(b)) <= raceOffset {
		return ""
	}
	s := string(b[raceOffset:])
	raceOffset = int64(len(b))
	return s
}

func progress(s string) {
	_ = os.WriteFile(resultPath+".progress", []byte(s), 0o644)
}

func main() {
	workload := flag.String("workload", "fee", "fee|engine|engine-sametx|engine-ro")
	repo := flag.String("repo", "/repo", "the go-bt checkout (node script vectors)")
	thorough := flag.Bool("thorough", false, "thorough tier")
	hammerMs := flag.Int("hammer-ms", 200, "engine-hammer: time budget of a round, milliseconds")
	only := flag.Int("only", -1, "engine / engine-hammer: run only the round with this index (replay of one round of a run)")
	seed := flag.Uint64("seed", 1, "seed")
	n := flag.Int("n", 50, "histories / rounds")
	flag.StringVar(&resultPath, "result", "", "result file")
	flag.Parse()
	for _, kv := range strings.Fields(os.Getenv("GORACE")) {
		if strings.HasPrefix(kv, "log_path=") {
			raceLog = strings.TrimPrefix(kv, "log_path=")
		}
	}
	res := Result{RaceBuild: raceEnabled}
	r := common.NewRand(*seed ^ 0xc18c18)
	switch *workload {
	case "fee":
		for i := 0; i < *n; i++ {
			hs := r.U64()
			progress(fmt.Sprintf("fee history seed=%d", hs))
			h := feeHistory(hs)
			res.Histories = append(res.Histories, h)
			if h.Deadlock {
				break
			}
		}
	case "engine-ro":
		pl := newPool(*repo, *seed, *thorough)
		res.PoolNote = pl.note
		pr := roProbe(*seed, *n, pl, *thorough)
		res.Probe = &pr
	case "engine-hammer":
		pl := newPool(*repo, *seed, *thorough)
		res.PoolNote = pl.note
		budget := time.Duration(*hammerMs) * time.Millisecond
		for i := 0; i < *n; i++ {
			hs := r.U64()
			if *only >= 0 && i != *only {
				continue
			}
			progress(fmt.Sprintf("engine-hammer round %d seed=%d", i, hs))
			e := hammerRound(hs, i, pl, budget)
			res.Rounds = append(res.Rounds, e)
			if e.Deadlock {
				break
			}
		}
	case "engine", "engine-sametx":
		var pl *pool
		if *workload == "engine" {
			pl = newPool(*repo, *seed, *thorough)
			res.PoolNote = pl.note
		}
		for i := 0; i < *n; i++ {
			hs := r.U64()
			if *only >= 0 && i != *only {
				continue
			}
			progress(fmt.Sprintf("engine round %d seed=%d", i, hs))
			e := engineRound(hs, *workload == "engine-sametx", i, pl)
			res.Rounds = append(res.Rounds, e)
			if e.Deadlock {
				break
			}
		}
	default:
		fmt.Fprintln(os.Stderr, "unknown workload")
		os.Exit(2)
	}
	progress("done")
	bb, _ := json.Marshal(res)
	if resultPath == "" {
		os.Stdout.Write(bb)
	} else if err := os.WriteFile(resultPath, bb, 0o644); err != nil {
		fmt.Fprintln(os.Stderr, err)
		os.Exit(2)
	}
	// exit 0 even when races were reported: they are in the result (the race runtime would use 66)
	os.Exit(0)
}

var procChoices = []int{1, 2, 4, 16}

// waitAll waits for the goroutines or reports a deadlock after the timeout.
func waitAll(wg *sync.WaitGroup, d time.Duration) bool {
	done := make(chan struct{})
	go func() { wg.Wait(); close(done) }()
	select {
	case <-done:
		return true
	case <-time.After(d):
		return false
	}
}

// ---------------------------------------------------------------------------------------------
// FeeQuote / FeeQuotes histories

const (
	absent    = 999999 // no entry
	anonymous = 0      // a FeeQuote made by the library itself (AddMinerWithDefault / NewFeeQuotes)
	torn      = 0xFFFFFFFF
	defaultID = 5
)

// a fee whose four numbers all derive from one id: a torn or foreign value is recognisable
func mkFee(ft bt.FeeType, id uint64) *bt.Fee {
	return &bt.Fee{FeeType: ft, MiningFee: bt.FeeUnit{Satoshis: int(id), Bytes: int(id)}, RelayFee: bt.FeeUnit{Satoshis: int(id), Bytes: int(id)}}
}
func feeID(f *bt.Fee) uint64 {
	if f == nil {
		return absent
	}
	m, r := f.MiningFee, f.RelayFee
	if m.Satoshis == 5 && m.Bytes == 100 && r.Satoshis == 5 && r.Bytes == 100 {
		return defaultID
	}
	if m.Satoshis == m.Bytes && r.Satoshis == m.Satoshis && r.Bytes == m.Satoshis && m.Satoshis >= 0 {
		return uint64(m.Satoshis)
	}
	return torn
}

type feeJSON struct {
	MiningFee bt.FeeUnit `json:"miningFee"`
	RelayFee  bt.FeeUnit `json:"relayFee"`
}

type recorder struct {
	mu     sync.Mutex
	stored map[string]map[uint64]bool
	reads  []KV
	bad    []string
	kinds  map[string]int
}

func (rc *recorder) store(k string, v uint64) {
	rc.mu.Lock()
	if rc.stored[k] == nil {
		rc.stored[k] = map[uint64]bool{}
	}
	rc.stored[k][v] = true
	rc.mu.Unlock()
}
func (rc *recorder) read(k string, v uint64) {
	rc.mu.Lock()
	rc.reads = append(rc.reads, KV{k, v})
	rc.mu.Unlock()
}
func (rc *recorder) badf(f string, a ...interface{}) {
	rc.mu.Lock()
	rc.bad = append(rc.bad, fmt.Sprintf(f, a...))
	rc.mu.Unlock()
}
func (rc *recorder) kind(k string) {
	rc.mu.Lock()
	rc.kinds[k]++
	rc.mu.Unlock()
}

var miners = []string{"m0", "m1", "m2"}
var feeTypes = []bt.FeeType{bt.FeeTypeStandard, bt.FeeTypeData}

func feeHistory(seed uint64) History {
	r := common.NewRand(seed)
	g := 2 + r.Intn(15)
	procs := procChoices[r.Intn(len(procChoices))]
	prev := runtime.GOMAXPROCS(procs)
	defer runtime.GOMAXPROCS(prev)
	opsPer := 8 + r.Intn(40)
	h := History{Seed: seed, Goroutines: g, Procs: procs}

	// shared state: one FeeQuotes, nq FeeQuote objects known to the harness
	nq := 1 + r.Intn(3)
	fqs := bt.NewFeeQuotes("m0")
	quotes := make([]*bt.FeeQuote, nq)
	known := map[*bt.FeeQuote]int{}
	rc := &recorder{stored: map[string]map[uint64]bool{}, kinds: map[string]int{}}
	init := map[string]uint64{}
	for k := range quotes {
		quotes[k] = bt.NewFeeQuote()
		known[quotes[k]] = k
		for _, ft := range feeTypes {
			init[fmt.Sprintf("q%d.fees.%s", k, ft)] = defaultID
		}
		init[fmt.Sprintf("q%d.expiry", k)] = uint64(quotes[k].Expiry().Unix())
		init[fmt.Sprintf("q%d.expired", k)] = 1
	}
	for _, ft := range feeTypes {
		init["anon.fees."+string(ft)] = defaultID
	}
	init["Q.quotes.m0"] = anonymous
	init["Q.quotes.m1"] = absent
	init["Q.quotes.m2"] = absent
	slot := map[string]map[string]bool{"m0": {"anon": true}, "m1": {}, "m2": {}} // objects ever put into a miner slot
	var slotMu sync.Mutex
	time.Sleep(time.Microsecond) // the initial expiry (now) is strictly in the past from here on

	objName := func(q *bt.FeeQuote) (string, uint64) {
		if k, ok := known[q]; ok {
			return fmt.Sprintf("q%d", k), uint64(k + 1)
		}
		return "anon", anonymous
	}

	var wg sync.WaitGroup
	start := make(chan struct{})
	for gi := 0; gi < g; gi++ {
		gr := r.Fork()
		gi := gi
		wg.Add(1)
		go func() {
			defer wg.Done()
			<-start
			for op := 0; op < opsPer; op++ {
				id := uint64(1000 + gi*100000 + op*4)
				k := gr.Intn(nq)
				q := quotes[k]
				ft := feeTypes[gr.Intn(2)]
				miner := miners[gr.Intn(3)]
				switch c := gr.Intn(20); c {
				case 0, 1:
					rc.kind("FeeQuote.AddQuote")
					rc.store(fmt.Sprintf("q%d.fees.%s", k, ft), id)
					q.AddQuote(ft, mkFee(ft, id))
				case 2, 3, 4:
					rc.kind("FeeQuote.Fee")
					f, err := q.Fee(ft)
					if err != nil {
						rc.badf("q%d.Fee(%s): %v", k, ft, err)
						continue
					}
					rc.read(fmt.Sprintf("q%d.fees.%s", k, ft), feeID(f))
				case 5:
					rc.kind("FeeQuote.UpdateExpiry")
					sec := id
					if gr.Bool() {
						sec += 4000000000 // far future: not expired
					}
					rc.store(fmt.Sprintf("q%d.expiry", k), sec)
					rc.store(fmt.Sprintf("q%d.expired", k), b2u(sec < 4000000000))
					q.UpdateExpiry(time.Unix(int64(sec), 0))
				case 6:
					rc.kind("FeeQuote.Expiry")
					rc.read(fmt.Sprintf("q%d.expiry", k), uint64(q.Expiry().Unix()))
				case 7:
					rc.kind("FeeQuote.Expired")
					rc.read(fmt.Sprintf("q%d.expired", k), b2u(q.Expired()))
				case 8, 9:
					rc.kind("FeeQuote.MarshalJSON")
					var bb []byte
					var err error
					if gr.Bool() {
						bb, err = q.MarshalJSON()
					} else {
						bb, err = json.Marshal(q)
					}
					if err != nil {
						rc.badf("q%d.MarshalJSON: %v", k, err)
						continue
					}
					m := map[string]feeJSON{}
					if err := json.Unmarshal(bb, &m); err != nil {
						rc.badf("q%d.MarshalJSON output does not parse: %v", k, err)
						continue
					}
					for _, t := range feeTypes {
						fj, ok := m[string(t)]
						if !ok {
							rc.read(fmt.Sprintf("q%d.fees.%s", k, t), absent)
							continue
						}
						rc.read(fmt.Sprintf("q%d.fees.%s", k, t), feeID(&bt.Fee{MiningFee: fj.MiningFee, RelayFee: fj.RelayFee}))
					}
				case 10:
					rc.kind("FeeQuote.UnmarshalJSON")
					body := fmt.Sprintf(`{"standard":{"miningFee":{"satoshis":%d,"bytes":%d},"relayFee":{"satoshis":%d,"bytes":%d}},"data":{"miningFee":{"satoshis":%d,"bytes":%d},"relayFee":{"satoshis":%d,"bytes":%d}}}`,
						id, id, id, id, id+1, id+1, id+1, id+1)
					rc.store(fmt.Sprintf("q%d.fees.standard", k), id)
					rc.store(fmt.Sprintf("q%d.fees.data", k), id+1)
					var err error
					if gr.Bool() {
						err = q.UnmarshalJSON([]byte(body))
					} else {
						err = json.Unmarshal([]byte(body), q)
					}
					if err != nil {
						rc.badf("q%d.UnmarshalJSON: %v", k, err)
					}
				case 11:
					rc.kind("FeeQuotes.AddMiner")
					slotMu.Lock()
					slot[miner][fmt.Sprintf("q%d", k)] = true
					slotMu.Unlock()
					rc.store("Q.quotes."+miner, uint64(k+1))
					fqs.AddMiner(miner, q)
				case 12:
					rc.kind("FeeQuotes.AddMinerWithDefault")
					slotMu.Lock()
					slot[miner]["anon"] = true
					slotMu.Unlock()
					rc.store("Q.quotes."+miner, anonymous)
					fqs.AddMinerWithDefault(miner)
				case 13, 14:
					rc.kind("FeeQuotes.Quote")
					got, err := fqs.Quote(miner)
					if err != nil {
						rc.read("Q.quotes."+miner, absent)
						continue
					}
					_, v := objName(got)
					rc.read("Q.quotes."+miner, v)
				case 15, 16, 17:
					rc.kind("FeeQuotes.Fee")
					f, err := fqs.Fee(miner, ft)
					if err != nil {
						rc.read("Q.quotes."+miner, absent) // ErrMinerNoQuotes: the slot was empty
						if err != bt.ErrMinerNoQuotes {
							rc.badf("Q.Fee(%s,%s): %v", miner, ft, err)
						}
						continue
					}
					rc.read("Q.fee."+miner+"."+string(ft), feeID(f))
				default:
					rc.kind("FeeQuotes.UpdateMinerFees")
					got, err := fqs.UpdateMinerFees(miner, ft, mkFee(ft, id))
					if err != nil {
						rc.read("Q.quotes."+miner, absent)
						continue
					}
					nm, _ := objName(got)
					rc.store(nm+".fees."+string(ft), id)
				}
			}
		}()
	}
	close(start)
	if !waitAll(&wg, 30*time.Second) {
		h.Deadlock = true
		h.Race = newRaces()
		return h
	}
	h.Race = newRaces()

	// second phase, values rather than accesses: every fee type of every quote now has exactly ONE writer. What that
	// writer stored and saw acknowledged is what it (and, once all have finished, anyone) reads back, whatever the
	// writers of the other fee types of the same object do meanwhile (an update lost to a concurrent writer of another
	// key is not a data race; only the values show it).
	{
		var wg2 sync.WaitGroup
		start2 := make(chan struct{})
		last := make([][2]uint64, nq)
		for k := range quotes {
			for fi, ft := range feeTypes {
				k, fi, ft := k, fi, ft
				wg2.Add(1)
				go func() {
					defer wg2.Done()
					<-start2
					for it := 0; it < 300; it++ {
						id := uint64(50000000 + k*1000000 + fi*100000 + it)
						quotes[k].AddQuote(ft, mkFee(ft, id))
						last[k][fi] = id
						f, err := quotes[k].Fee(ft)
						if err != nil || feeID(f) != id {
							rc.badf("q%d: Fee(%s) returned %d right after its only writer stored %d (error %v): an acknowledged write was lost", k, ft, feeID(f), id, err)
							return
						}
					}
				}()
			}
		}
		rc.kind("single-writer-per-fee-type phase")
		close(start2)
		if !waitAll(&wg2, 30*time.Second) {
			h.Deadlock = true
			return h
		}
		for k := range quotes {
			for fi, ft := range feeTypes {
				if f, err := quotes[k].Fee(ft); err != nil || feeID(f) != last[k][fi] {
					rc.badf("q%d: after all writers finished Fee(%s) is %d, the last value stored is %d", k, ft, feeID(f), last[k][fi])
				}
			}
		}
		if nr := newRaces(); nr != "" {
			h.Race += nr
		}
	}

	// allowed values of the derived locations Q.fee.<miner>.<ft>: whatever any object that was ever
	// in that slot held for that fee type
	for _, m := range miners {
		for _, ft := range feeTypes {
			key := "Q.fee." + m + "." + string(ft)
			for o := range slot[m] {
				src := o + ".fees." + string(ft)
				rc.store(key, init[src])
				for v := range rc.stored[src] {
					rc.store(key, v)
				}
			}
		}
	}
	var ik []string
	for k := range init {
		ik = append(ik, k)
	}
	sort.Strings(ik)
	for _, k := range ik {
		h.Init = append(h.Init, KV{k, init[k]})
	}
	var sk []string
	for k := range rc.stored {
		sk = append(sk, k)
	}
	sort.Strings(sk)
	for _, k := range sk {
		var vs []uint64
		for v := range rc.stored[k] {
			vs = append(vs, v)
		}
		sort.Slice(vs, func(i, j int) bool { return vs[i] < vs[j] })
		for _, v := range vs {
			h.Stored = append(h.Stored, KV{k, v})
		}
	}
	// reads: de-duplicated (the check is per distinct (location, value))
	seen := map[KV]bool{}
	for _, rd := range rc.reads {
		if !seen[rd] {
			seen[rd] = true
			h.Reads = append(h.Reads, rd)
		}
	}
	sort.Slice(h.Reads, func(i, j int) bool {
		if h.Reads[i].K != h.Reads[j].K {
			return h.Reads[i].K < h.Reads[j].K
		}
		return h.Reads[i].V < h.Reads[j].V
	})
	h.Ops = g * opsPer
	for k := range rc.kinds {
		h.OpKinds = append(h.OpKinds, k)
	}
	sort.Strings(h.OpKinds)
	// the property, stated directly: every read value was stored (or is initial)
	for _, rd := range h.Reads {
		if iv, ok := init[rd.K]; ok && iv == rd.V {
			continue
		}
		if rc.stored[rd.K][rd.V] {
			continue
		}
		rc.bad = append(rc.bad, fmt.Sprintf("read of %s returned %d, which no write stored", rd.K, rd.V))
	}
	h.Bad = rc.bad
	return h
}

func b2u(b bool) uint64 {
	if b {
		return 1
	}
	return 0
}

// ---------------------------------------------------------------------------------------------
// Engine.Execute on distinct jobs

type job struct {
	kind string
	opts func() []interpreter.ExecutionOptionFunc
	spec *progSpec // the scripts and flags, for jobs built from a program
	// for jobs over a signed transaction: the parts, so that the read-only probe can rebuild the job over other storage
	tx   *bt.Tx
	in   int
	prev *bt.Output
	more []interpreter.ExecutionOptionFunc
}

func (j job) describe() string {
	if j.spec != nil {
		return j.spec.describe()
	}
	if j.tx != nil && j.prev != nil && j.prev.LockingScript != nil {
		return fmt.Sprintf("%s: input %d of tx %s spending an output with locking script %x", j.kind, j.in, j.tx.String(), []byte(*j.prev.LockingScript))
	}
	return j.kind
}

func keyFor(r *common.Rand) *bec.PrivateKey {
	b := r.Bytes(32)
	b[0] &= 0x7f
	b[31] |= 1
	k, _ := bec.PrivKeyFromBytes(bec.S256(), b)
	return k
}

// p2pkhJob builds a signed 1..3-input P2PKH transaction; variant decides what is broken.
func p2pkhJobs(r *common.Rand, sw *sharedWallet) []job {
	key := keyFor(r)
	lock, err := bscript.NewP2PKHFromPubKeyBytes(key.PubKey().SerialiseCompressed())
	if err != nil {
		panic(err)
	}
	if sw != nil && r.Chance(35) {
		// a wallet that keeps ONE script object per address: different transactions (validated by different goroutines)
		// name the same *bscript.Script as the locking script of the outputs they spend
		key, lock = sw.key, sw.lock
	}
	nin := 1 + r.Intn(3)
	tx := bt.NewTx()
	sats := make([]uint64, nin)
	for i := 0; i < nin; i++ {
		sats[i] = 1000 + uint64(r.Intn(100000))
		if err := tx.From(hex.EncodeToString(r.Bytes(32)), uint32(r.Intn(4)), lock.String(), sats[i]); err != nil {
			panic(err)
		}
	}
	nout := 1 + r.Intn(2)
	for i := 0; i < nout; i++ {
		if err := tx.PayTo(lock, 500+uint64(r.Intn(400))); err != nil {
			panic(err)
		}
	}
	variant := r.Intn(6)
	legacy := variant == 5
	strict := r.Bool() // also run the signature-encoding checks (DER, low S: they consult package-level big.Int values)
	for i := 0; i < nin; i++ {
		flags := sighash.AllForkID
		if legacy {
			// SIGHASH_SINGLE without FORKID, possibly with no matching output: the "hash of one" path
			flags = sighash.Single
		}
		if err := tx.FillInput(context.Background(), &unlocker.Simple{PrivateKey: key}, bt.UnlockerParams{InputIdx: uint32(i), SigHashFlags: flags}); err != nil {
			panic(err)
		}
	}
	kind := "p2pkh/valid"
	switch variant {
	case 1: // corrupt one signature byte of input 0
		b := append([]byte{}, (*tx.Inputs[0].UnlockingScript)...)
		b[10] ^= 0x01
		s := bscript.Script(b)
		tx.Inputs[0].UnlockingScript = &s
		kind = "p2pkh/bad-signature"
	case 2: // wrong amount in the previous output
		kind = "p2pkh/wrong-amount"
	case 5:
		kind = "p2pkh/legacy-single"
	}
	var jobs []job
	for i := 0; i < nin; i++ {
		i := i
		amount := sats[i]
		if variant == 2 {
			amount++
		}
		prev := &bt.Output{Satoshis: amount, LockingScript: lock}
		more := []interpreter.ExecutionOptionFunc{interpreter.WithAfterGenesis()}
		if !legacy {
			more = append(more, interpreter.WithForkID())
		}
		if strict {
			more = append(more, interpreter.WithFlags(scriptflag.VerifyLowS|scriptflag.VerifyDERSignatures|scriptflag.VerifyStrictEncoding|scriptflag.VerifyNullFail|scriptflag.VerifyMinimalData))
		}
		jobs = append(jobs, job{kind: kind, tx: tx, in: i, prev: prev, more: more, opts: func() []interpreter.ExecutionOptionFunc {
			return append([]interpreter.ExecutionOptionFunc{interpreter.WithTx(tx, i, prev)}, more...)
		}})
	}
	return jobs
}

// sharedWallet: script objects that several transactions of one round refer to.
type sharedWallet struct {
	key, keyB    *bec.PrivateKey
	lock, csLock *bscript.Script
	csAfter      *bscript.Script // what follows the OP_CODESEPARATOR of csLock
	lock0, cs0   []byte
	ms           []*bec.PrivateKey // the keys of the bare 2-of-3 multisig output script several transactions name
}

func newSharedWallet(r *common.Rand) *sharedWallet {
	sw := &sharedWallet{key: keyFor(r), keyB: keyFor(r), ms: []*bec.PrivateKey{keyFor(r), keyFor(r), keyFor(r)}}
	var err error
	if sw.lock, err = bscript.NewP2PKHFromPubKeyBytes(sw.key.PubKey().SerialiseCompressed()); err != nil {
		panic(err)
	}
	// <keyA> OP_CHECKSIGVERIFY OP_CODESEPARATOR <keyB> OP_CHECKSIG: the second signature is over the script after the separator
	sw.csLock, sw.csAfter = &bscript.Script{}, &bscript.Script{}
	_ = sw.csLock.AppendPushData(sw.key.PubKey().SerialiseCompressed())
	_ = sw.csLock.AppendOpcodes(bscript.OpCHECKSIGVERIFY, bscript.OpCODESEPARATOR)
	_ = sw.csLock.AppendPushData(sw.keyB.PubKey().SerialiseCompressed())
	_ = sw.csLock.AppendOpcodes(bscript.OpCHECKSIG)
	_ = sw.csAfter.AppendPushData(sw.keyB.PubKey().SerialiseCompressed())
	_ = sw.csAfter.AppendOpcodes(bscript.OpCHECKSIG)
	sw.lock0, sw.cs0 = append([]byte{}, *sw.lock...), append([]byte{}, *sw.csLock...)
	return sw
}

func (sw *sharedWallet) changed() []string {
	var bad []string
	if !bytes.Equal(*sw.lock, sw.lock0) {
		bad = append(bad, fmt.Sprintf("the P2PKH locking script object shared by several transactions reads %x after the round, it was %x", []byte(*sw.lock), sw.lock0))
	}
	if !bytes.Equal(*sw.csLock, sw.cs0) {
		bad = append(bad, fmt.Sprintf("the OP_CODESEPARATOR locking script object shared by several transactions reads %x after the round, it was %x", []byte(*sw.csLock), sw.cs0))
	}
	return bad
}

// codesepJobs: a one-input transaction spending an output locked by the shared <A> CHECKSIGVERIFY CODESEPARATOR <B> CHECKSIG
// script object; every second one carries a wrong second signature.
func codesepJobs(r *common.Rand, sw *sharedWallet) []job {
	sats := 1000 + uint64(r.Intn(100000))
	tx := bt.NewTx()
	if err := tx.From(hex.EncodeToString(r.Bytes(32)), uint32(r.Intn(4)), sw.csLock.String(), sats); err != nil {
		panic(err)
	}
	if err := tx.PayTo(sw.lock, 500+uint64(r.Intn(400))); err != nil {
		panic(err)
	}
	sign := func(key *bec.PrivateKey, code *bscript.Script) []byte {
		cp := tx.Clone()
		cc := append(bscript.Script{}, *code...)
		cp.Inputs[0].PreviousTxScript, cp.Inputs[0].PreviousTxSatoshis = &cc, sats
		h, err := cp.CalcInputSignatureHash(0, sighash.AllForkID)
		if err != nil {
			panic(err)
		}
		sig, err := key.Sign(h)
		if err != nil {
			panic(err)
		}
		return append(sig.Serialise(), byte(sighash.AllForkID))
	}
	sigA, sigB := sign(sw.key, sw.csLock), sign(sw.keyB, sw.csAfter)
	kind := "codeseparator/valid"
	if r.Bool() {
		sigB = sign(sw.keyB, sw.csLock) // signed over the whole script instead of the part after the separator
		kind = "codeseparator/second-signature-over-whole-script"
	}
	unlock := &bscript.Script{}
	_ = unlock.AppendPushData(sigB)
	_ = unlock.AppendPushData(sigA)
	tx.Inputs[0].UnlockingScript = unlock
	prev := &bt.Output{Satoshis: sats, LockingScript: sw.csLock}
	more := []interpreter.ExecutionOptionFunc{interpreter.WithAfterGenesis(), interpreter.WithForkID()}
	return []job{{kind: kind, tx: tx, prev: prev, more: more, opts: func() []interpreter.ExecutionOptionFunc {
		return []interpreter.ExecutionOptionFunc{interpreter.WithTx(tx, 0, prev), interpreter.WithAfterGenesis(), interpreter.WithForkID()}
	}}}
}

// multisigJobs: a 2-of-3 bare multisig output spent by a one-input transaction, with keys no execution of this
// process has seen before; variant 1 carries a signature by a key that is not in the script.
func multisigJobs(r *common.Rand) []job {
	keys := []*bec.PrivateKey{keyFor(r), keyFor(r), keyFor(r)}
	lockB := []byte{0x52}
	for _, k := range keys {
		pk := k.PubKey().SerialiseCompressed()
		lockB = append(append(lockB, byte(len(pk))), pk...)
	}
	lockB = append(lockB, 0x53, 0xae)
	lock := bscript.NewFromBytes(lockB)
	tx := bt.NewTx()
	sats := 1000 + uint64(r.Intn(100000))
	if err := tx.From(hex.EncodeToString(r.Bytes(32)), uint32(r.Intn(4)), lock.String(), sats); err != nil {
		panic(err)
	}
	tx.AddOutput(&bt.Output{Satoshis: 500, LockingScript: bscript.NewFromBytes([]byte{0x51})})
	h, err := tx.CalcInputSignatureHash(0, sighash.AllForkID)
	if err != nil {
		panic(err)
	}
	variant := r.Intn(3)
	signers := []*bec.PrivateKey{keys[0], keys[2]}
	kind := "multisig/valid"
	if variant == 1 {
		signers[1] = keyFor(r)
		kind = "multisig/foreign-signature"
	}
	unlock := []byte{0x00}
	for _, k := range signers {
		sig, err := k.Sign(h)
		if err != nil {
			panic(err)
		}
		sb := append(sig.Serialise(), byte(sighash.AllForkID))
		unlock = append(append(unlock, byte(len(sb))), sb...)
	}
	tx.Inputs[0].UnlockingScript = bscript.NewFromBytes(unlock)
	prev := &bt.Output{Satoshis: sats, LockingScript: lock}
	more := []interpreter.ExecutionOptionFunc{interpreter.WithAfterGenesis(), interpreter.WithForkID()}
	return []job{{kind: kind, tx: tx, prev: prev, more: more, opts: func() []interpreter.ExecutionOptionFunc {
		return []interpreter.ExecutionOptionFunc{interpreter.WithTx(tx, 0, prev), interpreter.WithAfterGenesis(), interpreter.WithForkID()}
	}}}
}

var scriptPairs = [][2]string{
	{"OP_2 OP_3 OP_ADD OP_5 OP_EQUAL", "OP_TRUE"},
	{"OP_2 OP_3 OP_ADD OP_6 OP_EQUAL", "OP_TRUE"},
	{"OP_DUP OP_MUL OP_16 OP_EQUAL", "OP_4"},
	{"OP_SHA256 OP_SIZE OP_NIP OP_16 OP_16 OP_ADD OP_EQUAL", "OP_7"},
	{"OP_IF OP_1 OP_ELSE OP_0 OP_ENDIF", "OP_0"},
	{"OP_IF OP_1 OP_ELSE OP_0 OP_ENDIF", "OP_1"},
	{"OP_1 OP_LSHIFT OP_2 OP_EQUAL", "OP_1"},
	{"OP_CAT OP_SIZE OP_2 OP_EQUALVERIFY OP_DROP OP_1", "OP_5 OP_6"},
	{"OP_BIN2NUM OP_1 OP_EQUAL", "0100"},
	{"OP_3 OP_NUM2BIN OP_SIZE OP_3 OP_EQUALVERIFY OP_DROP OP_1", "OP_9"},
	{"OP_HASH160 OP_SIZE OP_NIP OP_16 OP_4 OP_ADD OP_EQUAL", "OP_11"},
	{"OP_RETURN", "OP_1"},
	{"OP_DIV OP_3 OP_EQUAL", "OP_10 OP_3"},
	{"OP_DIV OP_3 OP_EQUAL", "OP_10 OP_0"},
	{"OP_RIPEMD160 OP_SIZE OP_NIP OP_16 OP_4 OP_ADD OP_EQUAL", "OP_12"},
	{"OP_SHA1 OP_SIZE OP_NIP OP_16 OP_4 OP_ADD OP_EQUAL", "OP_13"},
	{"OP_HASH256 OP_SIZE OP_NIP OP_16 OP_16 OP_ADD OP_EQUAL", "OP_14"},
	hashSweep,
}

// hashSweep: every hash opcode (and a few of every other class) in one script with a fixed verdict; several
// goroutines run it in every round, so state shared between executions behind any of them is touched concurrently
var hashSweep = [2]string{"OP_DUP OP_RIPEMD160 OP_SWAP OP_DUP OP_SHA1 OP_SWAP OP_DUP OP_SHA256 OP_SWAP OP_DUP OP_HASH160 OP_SWAP OP_HASH256 " +
	"OP_SIZE OP_NIP OP_16 OP_16 OP_ADD OP_EQUALVERIFY OP_SIZE OP_NIP OP_16 OP_4 OP_ADD OP_EQUALVERIFY OP_SIZE OP_NIP OP_16 OP_16 OP_ADD OP_EQUALVERIFY " +
	"OP_TOALTSTACK OP_FROMALTSTACK OP_CAT OP_SIZE OP_NIP OP_16 OP_16 OP_ADD OP_8 OP_ADD OP_EQUAL", "0102030405060708090a"}

func sweepJob() job {
	lock, err1 := bscript.NewFromASM(hashSweep[0])
	unlock, err2 := bscript.NewFromASM(hashSweep[1])
	if err1 != nil || err2 != nil {
		panic(fmt.Sprint(err1, err2))
	}
	return job{kind: "script-only", opts: func() []interpreter.ExecutionOptionFunc {
		return []interpreter.ExecutionOptionFunc{interpreter.WithScripts(lock, unlock), interpreter.WithAfterGenesis(), interpreter.WithForkID()}
	}}
}

func scriptJob(r *common.Rand) job {
	p := scriptPairs[r.Intn(len(scriptPairs))]
	lock, err1 := bscript.NewFromASM(p[0])
	unlock, err2 := bscript.NewFromASM(p[1])
	if err1 != nil || err2 != nil {
		panic(fmt.Sprint(err1, err2))
	}
	return job{kind: "script-only", opts: func() []interpreter.ExecutionOptionFunc {
		return []interpreter.ExecutionOptionFunc{interpreter.WithScripts(lock, unlock), interpreter.WithAfterGenesis(), interpreter.WithForkID()}
	}}
}

func verdict(e interpreter.Engine, j job) (ok bool) {
	defer func() {
		if rec := recover(); rec != nil {
			ok = false
		}
	}()
	return e.Execute(j.opts()...) == nil
}

// engineRound: units of jobs; a unit is all inputs of ONE transaction (or one script pair). With
// sameTx=false every unit is validated by exactly one goroutine ("different transactions from many
// goroutines", the property); with sameTx=true the inputs of one transaction are spread over
// goroutines (informational: Execute writes the previous output into the caller's tx).
func engineRound(seed uint64, sameTx bool, index int, pl *pool) EngineRound {
	r := common.NewRand(seed)
	g := 2 + r.Intn(15)
	procs := procChoices[r.Intn(len(procChoices))]
	prev := runtime.GOMAXPROCS(procs)
	defer runtime.GOMAXPROCS(prev)
	var jobs []job
	var unit []int // unit index of every job
	var sw *sharedWallet
	if !sameTx {
		sw = newSharedWallet(r)
	}
	target := g * (1 + r.Intn(3))
	nu0 := 0
	if !sameTx {
		for ; nu0 < g; nu0++ { // one hash-sweep unit per goroutine
			jobs = append(jobs, sweepJob())
			unit = append(unit, nu0)
		}
		target += g
	}
	for nu := nu0; len(jobs) < target; nu++ {
		var u []job
		if r.Chance(25) && !sameTx {
			u = multisigJobs(r)
		} else if r.Chance(25) && !sameTx {
			u = codesepJobs(r, sw)
		} else if r.Chance(60) || sameTx {
			u = p2pkhJobs(r, sw)
		} else {
			u = []job{scriptJob(r)}
		}
		for range u {
			unit = append(unit, nu)
		}
		jobs = append(jobs, u...)
	}
	// script objects named by several transactions, read by every opcode family; script features of every kind
	shared := &sharedSet{}
	if !sameTx && pl != nil {
		var units [][]job
		units = append(units, contractUnits(r, index, 7, shared)...)
		units = append(units, pl.programUnits(r, 40, shared)...)
		msLock := shared.add("bare 2-of-3 multisig", heapScript(multisigLockBytes(sw.ms)))
		for k := 0; k < 2; k++ {
			units = append(units, signedTailJobs(r, sw, heapScript))
			units = append(units, sharedMultisigJobs(r, sw, msLock, heapScript))
		}
		nu := 0
		if len(unit) > 0 {
			nu = unit[len(unit)-1] + 1
		}
		// interleave: the spenders of one script object go to different goroutines, and not all at the end
		for _, u := range units {
			for range u {
				unit = append(unit, nu)
			}
			jobs = append(jobs, u...)
			nu++
		}
	}
	out := EngineRound{Seed: seed, Goroutines: g, Procs: procs, Jobs: len(jobs), Index: index, Shared: len(shared.objs)}
	if sw != nil {
		out.Shared += 2 // the P2PKH and the OP_CODESEPARATOR script objects of the round's wallet
	}
	kinds := map[string]bool{}
	for _, j := range jobs {
		kinds[j.kind] = true
	}
	for k := range kinds {
		out.Kinds = append(out.Kinds, k)
	}
	sort.Strings(out.Kinds)

	// sequential verdicts, with an engine of their own: in every other round BEFORE the concurrent phase, else after
	// it (a concurrent phase that comes second runs on whatever the sequential one has left behind in the process:
	// caches are warm, lazily built tables are built)
	sequential := func() {
		seqEngine := interpreter.NewEngine()
		out.Sequential = make([]bool, len(jobs))
		for i, j := range jobs {
			out.Sequential[i] = verdict(seqEngine, j)
		}
	}
	coldStart := seed%2 == 0 && !sameTx
	if !coldStart {
		sequential()
		newRaces() // nothing concurrent so far
	}

	// one shared engine; every (tx, input) pair is validated exactly once; all inputs of one tx by the
	// same goroutine unless sameTx
	engine := interpreter.NewEngine()
	out.Concurrent = make([]bool, len(jobs))
	var wg sync.WaitGroup
	start := make(chan struct{})
	for gi := 0; gi < g; gi++ {
		gi := gi
		wg.Add(1)
		go func() {
			defer wg.Done()
			<-start
			for i := range jobs {
				owner := unit[i] % g
				if sameTx {
					owner = i % g
				}
				if owner == gi {
					out.Concurrent[i] = verdict(engine, jobs[i])
				}
			}
		}()
	}
	close(start)
	if !waitAll(&wg, 60*time.Second) {
		out.Deadlock = true
	}
	out.Race = newRaces()
	if sw != nil {
		out.Bad = append(sw.changed(), shared.changed()...)
	}
	if coldStart && !out.Deadlock {
		sequential()
	}
	for i := range jobs {
		if !out.Deadlock && out.Concurrent[i] != out.Sequential[i] && len(out.Differs) < 5 {
			out.Differs = append(out.Differs, fmt.Sprintf("job %d, concurrent verdict %v, sequential verdict %v: %s", i, out.Concurrent[i], out.Sequential[i], jobs[i].describe()))
		}
	}
	return out
}
