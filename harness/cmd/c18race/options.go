// Option VALUES shared between validations.
//
// interpreter.WithFlags(w), WithAfterGenesis(), WithScripts(l, u), WithDebugger(d) ... return VALUES (closures). An
// application builds its policy option once and hands that one value to every Execute call, from every goroutine, next to
// whatever else a particular call needs (WithAfterGenesis() in front of it for outputs created after Genesis, nothing for
// older ones). "Exactly the verdicts sequential validation gives" is then a statement about option values too: an option
// must configure the call it is applied to and nothing else - it may not remember the calls it has been part of.
//
// A round therefore has an option BANK: every flag-carrying option of the round (one WithFlags value per flag word,
// one WithAfterGenesis / WithForkID / WithP2SH value, one WithDebugger value) is built once, before the goroutines
// start, and every job of the families below takes its options out of the bank - the same values in different
// combinations and different orders. The expected verdict of a job is what a sequential run gives with options built for
// that run alone (fresh context option, ONE fresh WithFlags carrying the job's flag word).
//
//   - flag twins: a program P whose verdict CHANGES when one flag b is added to (or taken out of) its flag word F (found
//     by running P sequentially under F xor b for every flag b: OP_RETURN before / after Genesis, a P2SH redeem script
//     with / without Bip16, a non-minimal push with / without MINIMALDATA, OP_NOP5 with / without DISCOURAGE_UPGRADABLE_NOPS,
//     lock-time opcodes with / without their flag, signature encodings with / without DER / LOW_S / STRICTENC / NULLFAIL,
//     ...) gives two jobs, P under F-with-b and P under F-without-b. Both cut the common part of the word into the same
//     bank values; the one with b puts the option that carries b somewhere among them. Whatever an option value keeps
//     from one call shows in the other: the verdicts differ exactly in b.
//   - the signed transactions of the round (P2PKH, OP_CODESEPARATOR, multisig, OP_RETURN tails) take WithAfterGenesis /
//     WithForkID / the strict-encoding WithFlags out of the same bank.
//
// WithScripts values are shared between the two twins of a script-only program (and thereby between goroutines);
// WithTx values are reused by the repeated validations of their own transaction only (one goroutine: different
// goroutines validate different transactions).
package main

import (
	"encoding/hex"
	"fmt"
	"sort"
	"strings"
	"sync/atomic"

	"github.com/libsv/go-bt/v2/bscript"
	"github.com/libsv/go-bt/v2/bscript/interpreter"
	idebug "github.com/libsv/go-bt/v2/bscript/interpreter/debug"
	"github.com/libsv/go-bt/v2/bscript/interpreter/scriptflag"

	"verif/harness/common"
	"verif/harness/interpgen"
)

type optBank struct {
	vals  map[string]interpreter.ExecutionOptionFunc
	uses  map[string]int
	dbg   interpreter.ExecutionOptionFunc
	steps int64
}

func newOptBank() *optBank {
	return &optBank{vals: map[string]interpreter.ExecutionOptionFunc{}, uses: map[string]int{}}
}

// get: THE value of the round for this option (built at first use; only called while the jobs are being made).
func (b *optBank) get(o interpgen.FlagOpt) interpreter.ExecutionOptionFunc {
	k := o.String()
	if b.vals[k] == nil {
		b.vals[k] = o.Option()
	}
	b.uses[k]++
	return b.vals[k]
}

// debugger: one WithDebugger value over one debugger whose callbacks only count (atomically).
func (b *optBank) debugger() interpreter.ExecutionOptionFunc {
	if b.dbg == nil {
		d := idebug.NewDebugger()
		d.AttachAfterStep(func(*interpreter.State) { atomic.AddInt64(&b.steps, 1) })
		d.AttachAfterError(func(*interpreter.State, error) { atomic.AddInt64(&b.steps, 1) })
		b.dbg = interpreter.WithDebugger(d)
	}
	b.uses["WithDebugger"]++
	return b.dbg
}

// sharedValues: how many option values of the bank are used by more than one job.
func (b *optBank) sharedValues() int {
	n := 0
	for _, u := range b.uses {
		if u > 1 {
			n++
		}
	}
	return n
}

var flagNames = map[uint32]string{
	interpgen.FBip16: "Bip16", interpgen.FStrictMultiSig: "StrictMultiSig", interpgen.FDiscourageNops: "DiscourageUpgradableNops",
	interpgen.FCLTV: "CheckLockTimeVerify", interpgen.FCSV: "CheckSequenceVerify", interpgen.FCleanStack: "CleanStack",
	interpgen.FDERSig: "DERSignatures", interpgen.FLowS: "LowS", interpgen.FMinimalData: "MinimalData", interpgen.FNullFail: "NullFail",
	interpgen.FSigPushOnly: "SigPushOnly", interpgen.FForkID: "SighashForkID", interpgen.FStrictEnc: "StrictEncoding",
	interpgen.FBip143: "Bip143SigHash", interpgen.FGenesis: "AfterGenesis", interpgen.FMinimalIf: "MinimalIf",
}

var allFlagBits = func() []uint32 {
	var out []uint32
	for b := range flagNames {
		out = append(out, b)
	}
	sort.Slice(out, func(i, j int) bool { return out[i] < out[j] })
	return out
}()

func mustHex(s string) []byte {
	b, err := hex.DecodeString(s)
	if err != nil {
		panic(err)
	}
	return b
}

// the generator point, compressed: a well-formed public key
var genPoint = mustHex("0279be667ef9dcbbac55a06295ce870b07029bfcdb2dce28d959f2815b16f81798")

// half the group order plus one, as 32 bytes: an S value that is "high"
var highS = mustHex("7fffffffffffffffffffffffffffffff5d576e7357a4501ddfe92f46681b20a1")

// flagPrograms: small programs made to be sensitive to one flag each (which flags a program IS sensitive to is found by
// running it; this list only makes sure every flag has a candidate). Flags is the word they start from.
func flagPrograms() []*progSpec {
	tx := func(kind string, lock, unlock []byte, fl uint32) *progSpec {
		return &progSpec{Kind: "flag-program/" + kind, Lock: lock, Unlock: unlock, Flags: scriptflag.Flag(fl), Mode: 1, Version: 1, Seq: 0xffffffff}
	}
	so := func(kind string, lock, unlock []byte, fl uint32) *progSpec {
		return &progSpec{Kind: "flag-program/" + kind, Lock: lock, Unlock: unlock, Flags: scriptflag.Flag(fl)}
	}
	redeemFalse := []byte{0x00}
	redeemTrue := []byte{0x51}
	p2sh := func(redeem []byte) []byte { return cat(opHASH160, push(interpgen.Hash160(redeem)), opEQUAL) }
	derSig := func(r, s []byte, hashType byte) []byte {
		body := cat(0x02, len(r), r, 0x02, len(s), s)
		return cat(0x30, len(body), body, hashType)
	}
	checksigNot := cat(push(genPoint), opCHECKSIG, opNOT)
	return []*progSpec{
		so("op-return", []byte{0x6a}, []byte{op1}, 0),
		so("op-return", []byte{0x6a}, []byte{op1}, interpgen.FGenesis),
		tx("op-return-with-tx", []byte{op1, 0x6a, 0x01, 0x02}, []byte{op1}, interpgen.FMinimalData),
		so("five-byte-number", cat(push([]byte{1, 0, 0, 0, 0}), op1ADD), nil, interpgen.FGenesis),
		so("p2sh-redeem-false", p2sh(redeemFalse), push(redeemFalse), 0),
		so("p2sh-redeem-true", p2sh(redeemTrue), cat(op1, push(redeemTrue)), interpgen.FBip16),
		so("p2sh-clean-stack", p2sh(redeemTrue), cat(op1, push(redeemTrue)), interpgen.FBip16|interpgen.FCleanStack),
		so("non-minimal-push", []byte{0x57, opEQUAL}, []byte{0x4c, 0x01, 0x07}, 0),
		so("non-minimal-number", cat(push([]byte{0x07, 0x00}), op1ADD, 0x58, opNUMEQ), nil, interpgen.FGenesis),
		so("upgradable-nop", []byte{0xb4, op1}, nil, 0),
		so("upgradable-nop", []byte{0xb9, op1}, []byte{op1}, interpgen.FDiscourageNops|interpgen.FMinimalData),
		tx("checklocktimeverify", []byte{op1, opCLTV}, nil, 0),
		tx("checksequenceverify", []byte{op1, opCSV}, nil, interpgen.FCLTV),
		so("clean-stack", []byte{op1}, []byte{op1, op1}, interpgen.FBip16),
		so("sig-push-only", []byte{opDROP}, []byte{op1, opDUP}, 0),
		so("minimal-if", []byte{opIF, op1, opELSE, 0x00, opENDIF}, push([]byte{0x02}), interpgen.FGenesis),
		so("minimal-if", []byte{opNOTIF, 0x00, opELSE, op1, opENDIF}, push([]byte{0x01, 0x00}), 0),
		tx("multisig-dummy", []byte{0x00, 0x00, 0xae}, []byte{op1}, 0),
		tx("signature-not-der", checksigNot, push([]byte{1, 2, 3, 0x41}), interpgen.FForkID),
		tx("signature-high-s", checksigNot, push(derSig([]byte{1}, highS, 0x41)), interpgen.FForkID|interpgen.FGenesis),
		tx("signature-forkid-hashtype", checksigNot, push(derSig([]byte{1}, []byte{1}, 0x41)), interpgen.FStrictEnc),
		tx("signature-undefined-hashtype", checksigNot, push(derSig([]byte{1}, []byte{1}, 0x05)), 0),
		tx("signature-fails-not-null", checksigNot, push(derSig([]byte{2}, []byte{3}, 0x41)), interpgen.FForkID|interpgen.FGenesis),
		tx("pubkey-not-a-key", cat(push(append([]byte{0x05}, genPoint[1:]...)), opCHECKSIG, opNOT), push(derSig([]byte{1}, []byte{1}, 0x41)), interpgen.FForkID),
	}
}

// context: the transaction / script objects of a job over p, and a constructor of the option(s) that hand them to the
// engine - every call of the constructor makes new option VALUES over the same objects.
func (p *progSpec) context(lock, unlock *bscript.Script, salt uint64, alloc allocFn) func() []interpreter.ExecutionOptionFunc {
	if p.Mode == 0 {
		return func() []interpreter.ExecutionOptionFunc {
			return []interpreter.ExecutionOptionFunc{interpreter.WithScripts(lock, unlock)}
		}
	}
	tx, idx, prev := p.transaction(lock, unlock, salt, alloc)
	if p.Mode == 1 {
		return func() []interpreter.ExecutionOptionFunc {
			return []interpreter.ExecutionOptionFunc{interpreter.WithTx(tx, idx, prev)}
		}
	}
	return func() []interpreter.ExecutionOptionFunc {
		return []interpreter.ExecutionOptionFunc{interpreter.WithTx(tx, idx, nil), interpreter.WithScripts(lock, unlock)}
	}
}

// flipsUnder: the flags whose addition to / removal from p's word changes p's verdict (sequential runs, objects and
// options of their own).
func flipsUnder(p *progSpec) (base bool, flips []uint32) {
	run := func(fl uint32) bool {
		q := *p
		q.Flags = scriptflag.Flag(fl)
		j := q.build(heapScript(p.Lock), heapScript(p.Unlock), 1, heapScript)
		return verdict(interpreter.NewEngine(), j)
	}
	base = run(uint32(p.Flags))
	for _, b := range allFlagBits {
		if b == interpgen.FCleanStack && uint32(p.Flags)&interpgen.FBip16 == 0 {
			continue // CleanStack without Bip16 is refused as a combination, whatever the program
		}
		if run(uint32(p.Flags)^b) != base {
			flips = append(flips, b)
		}
	}
	return base, flips
}

// cutWord: flag options whose union is w, drawn so that different jobs meet the same bank values: the whole word, one
// option per flag, or two halves; now and then an empty WithFlags(0) or a word twice.
func cutWord(r *common.Rand, w uint32) []interpgen.FlagOpt {
	var out []interpgen.FlagOpt
	var bits []uint32
	for _, b := range allFlagBits {
		if w&b != 0 {
			bits = append(bits, b)
		}
	}
	named := func(b uint32) interpgen.FlagOpt {
		for _, o := range interpgen.NamedFlagOpts {
			if o.Word == b && r.Bool() {
				return o
			}
		}
		return interpgen.WF(b)
	}
	switch c := r.Intn(4); {
	case w == 0:
	case c == 0 || len(bits) == 1 && c == 1:
		out = append(out, interpgen.WF(w))
	case c == 1:
		var a, b uint32
		for i, x := range bits {
			if i%2 == 0 {
				a |= x
			} else {
				b |= x
			}
		}
		out = append(out, interpgen.WF(a), interpgen.WF(b))
	default:
		for _, b := range bits {
			out = append(out, named(b))
		}
	}
	if r.Chance(30) {
		out = append(out, interpgen.WF(0))
	}
	if len(out) > 0 && r.Chance(15) {
		out = append(out, out[r.Intn(len(out))])
	}
	return out
}

func shuffled(r *common.Rand, in []interpgen.FlagOpt) []interpgen.FlagOpt {
	out := append([]interpgen.FlagOpt{}, in...)
	for i := len(out) - 1; i > 0; i-- {
		k := r.Intn(i + 1)
		out[i], out[k] = out[k], out[i]
	}
	return out
}

// optionJob: p under the flag word denoted by fl (bank values, in this order), the context option value(s) c of the job
// (used by every validation of the job) somewhere among them; ctx makes context options for a run of its own.
func optionJob(r *common.Rand, p *progSpec, word uint32, fl []interpgen.FlagOpt, c []interpreter.ExecutionOptionFunc, ctx func() []interpreter.ExecutionOptionFunc, bank *optBank, kind string) job {
	q := *p
	q.Flags = scriptflag.Flag(word)
	q.Kind = kind
	var u uint32
	var opts []interpreter.ExecutionOptionFunc
	var names []string
	for _, o := range fl {
		u |= o.Word
		opts = append(opts, bank.get(o))
		names = append(names, o.String())
	}
	if u != word {
		panic("optionJob: the option list does not denote the flag word")
	}
	withDbg := r.Chance(20)
	if withDbg {
		at := r.Intn(len(opts) + 1)
		opts = append(opts[:at:at], append([]interpreter.ExecutionOptionFunc{bank.debugger()}, opts[at:]...)...)
		names = append(names[:at:at], append([]string{"WithDebugger(d)"}, names[at:]...)...)
	}
	at := r.Intn(len(opts) + 1)
	opts = append(opts[:at:at], append(c, opts[at:]...)...)
	names = append(names[:at:at], append([]string{"<context>"}, names[at:]...)...)
	desc := fmt.Sprintf("%s; options handed to Execute, in this order: [%s] - every flag option and the debugger option is ONE value built once for the round and used by all its jobs; the sequential verdict is the one under a WithFlags(%#x) built for that run alone",
		q.describe(), strings.Join(names, ", "), word)
	return job{kind: kind, spec: &q, desc: desc,
		opts: func() []interpreter.ExecutionOptionFunc { return opts },
		fresh: func() []interpreter.ExecutionOptionFunc {
			f := append(ctx(), interpreter.WithFlags(scriptflag.Flag(word)))
			if withDbg {
				f = append(f, interpreter.WithDebugger(idebug.NewDebugger()))
			}
			return f
		}}
}

// flagTwinUnits: n programs, each as two jobs whose flag words differ in one flag the program is sensitive to; all
// flag options out of the bank. Unit layout: with twice, every job is listed twice (validated twice by its goroutine);
// script-only twins share one WithScripts value (and go to different goroutines when apart), transaction twins have
// a transaction each.
func (pl *pool) flagTwinUnits(r *common.Rand, round, n int, bank *optBank, shared *sharedSet, twice bool) [][]job {
	cats := flagPrograms()
	var units [][]job
	for k, tries := 0, 0; k < n && tries < 6*n; tries++ {
		var p *progSpec
		switch c := r.Intn(10); {
		case c < 5:
			p = cats[(round*n+tries)%len(cats)]
		case c < 6 && len(pl.vectors) > 0:
			p = pl.vectors[r.Intn(len(pl.vectors))]
		case c < 7 && len(pl.fixed) > 0:
			p = pl.fixed[r.Intn(len(pl.fixed))]
		case c < 8:
			p = fromProgram(interpgen.P2SH(r))
		case c < 9:
			p = opReturnTail(r)
		default:
			p = fromProgram(interpgen.Random(r, 10))
		}
		_, flips := flipsUnder(p)
		if len(flips) == 0 {
			continue
		}
		b := flips[r.Intn(len(flips))]
		lo, hi := uint32(p.Flags)&^b, uint32(p.Flags)|b
		fam := "shared-options/flip-" + flagNames[b]
		lockObj := shared.add(fam+" "+p.Kind, heapScript(p.Lock))
		common := cutWord(r, lo)
		bOpt := interpgen.WF(b)
		for _, o := range interpgen.NamedFlagOpts {
			if o.Word == b && r.Bool() {
				bOpt = o
			}
		}
		listHi := shuffled(r, append(append([]interpgen.FlagOpt{}, common...), bOpt))
		listLo := shuffled(r, common)
		unlockObj := heapScript(p.Unlock)
		var jHi, jLo job
		if p.Mode == 0 {
			// ONE WithScripts value for both twins (they may be validated by different goroutines)
			ctx := p.context(lockObj, unlockObj, 0, heapScript)
			v := ctx()
			jHi = optionJob(r, p, hi, listHi, v, ctx, bank, fam+"/with/"+family(p.Kind))
			jLo = optionJob(r, p, lo, listLo, v, ctx, bank, fam+"/without/"+family(p.Kind))
		} else {
			// a transaction each, over the one locking script object
			ctxHi := p.context(lockObj, unlockObj, r.U64(), heapScript)
			ctxLo := p.context(lockObj, heapScript(p.Unlock), r.U64(), heapScript)
			jHi = optionJob(r, p, hi, listHi, ctxHi(), ctxHi, bank, fam+"/with/"+family(p.Kind))
			jLo = optionJob(r, p, lo, listLo, ctxLo(), ctxLo, bank, fam+"/without/"+family(p.Kind))
		}
		first, second := jHi, jLo
		if r.Bool() {
			first, second = jLo, jHi
		}
		switch {
		case !twice:
			units = append(units, []job{first}, []job{second})
		case r.Bool():
			units = append(units, []job{first, second, first, second})
		default:
			units = append(units, []job{first, first}, []job{second, second})
		}
		k++
	}
	return units
}
