// c13 / conditional depth: which opcodes move the parser's notion of "inside a conditional" decides whether an
// OP_RETURN ends the parse (everything after a top-level OP_RETURN is one opaque blob, whatever bytes it holds) or is
// an ordinary opcode followed by more tokens (which then have to obey the push grammar).  This file states that
// grammar independently of the library (refParse), compares every observed parse with it, and generates the scripts
// on which the depth bookkeeping is visible: sequences of conditional and conditional-looking opcodes x OP_RETURN x
// tails that are not a push sequence, at every nesting depth including below zero.
package main

import (
	"bytes"
	"fmt"

	"github.com/libsv/go-bt/v2/bscript"
	"github.com/libsv/go-bt/v2/bscript/interpreter"

	"verif/harness/common"
	sg "verif/harness/script13"
)

// refTok is one token of the reference parse: the opcode byte, the data a push carries, and for the synthetic
// "unformatted data" token after a top-level OP_RETURN its first byte (op), the rest (data) and the length of both.
type refTok struct {
	op   byte
	data []byte
	unf  bool
	size int // bytes of the script this token stands for
}

// refParse: the opcode parser's grammar written down from its description, not from its code.
//   - a token is a non-push opcode (one byte) or a push (direct 1..75, PUSHDATA1/2/4) with all of its data present;
//   - the conditional depth starts at 0, OP_IF and OP_NOTIF add one, OP_ENDIF takes one away (below zero too); no other
//     opcode touches it (OP_ELSE switches branch inside the same block, OP_VERIF / OP_VERNOTIF never open one), and
//     bytes inside push data are not opcodes;
//   - an OP_RETURN at depth 0 ends the parse: the remaining bytes, whatever they are, form one unformatted token;
//   - with ErrorOnCheckSig an opcode that needs the transaction is an error where it is met as an opcode (never
//     inside push data or inside the unformatted tail).
//
// stop is the offset of the OP_RETURN that ended the parse, -1 when there is none.
func refParse(s []byte, eocs bool) (ok bool, toks []refTok, stop int) {
	depth := 0
	for i := 0; i < len(s); {
		b := s[i]
		if eocs && (b == 0xac || b == 0xad || b == 0xae || b == 0xaf || b == 0xb2) {
			return false, nil, -1
		}
		switch b {
		case 0x63, 0x64:
			depth++
		case 0x68:
			depth--
		case 0x6a:
			if depth == 0 {
				toks = append(toks, refTok{op: b, size: 1})
				if rest := s[i+1:]; len(rest) > 0 {
					toks = append(toks, refTok{op: rest[0], data: rest[1:], unf: true, size: len(rest)})
				}
				return true, toks, i
			}
		}
		hdr, n := 0, 0
		switch {
		case b >= 1 && b <= 75:
			n = int(b)
		case b == 0x4c:
			hdr = 1
		case b == 0x4d:
			hdr = 2
		case b == 0x4e:
			hdr = 4
		default:
			toks = append(toks, refTok{op: b, size: 1})
			i++
			continue
		}
		if len(s)-i-1 < hdr {
			return false, nil, -1
		}
		for k := hdr; k >= 1; k-- {
			n = n<<8 | int(s[i+k])
		}
		if len(s)-i-1-hdr < n {
			return false, nil, -1
		}
		toks = append(toks, refTok{op: b, data: s[i+1+hdr : i+1+hdr+n], size: 1 + hdr + n})
		i += 1 + hdr + n
	}
	return true, toks, -1
}

var grammarReported = map[string]int{}

func violateCapped(site, what string, input interface{}) {
	grammarReported[site]++
	if grammarReported[site] <= 25 {
		c.Violate(site, what, input)
	}
}

// grammarPredicates: the observed parse of s (with and without ErrorOnCheckSig) is the reference parse.
func grammarPredicates(s []byte, o *scriptObs) {
	if o.parsePanic {
		return
	}
	in := trunc(common.Hex(s))
	ok, toks, stop := refParse(s, false)
	switch {
	case ok && !o.parseOK && stop >= 0:
		violateCapped("Parse/top-level-op-return-not-recognised", fmt.Sprintf("the OP_RETURN at offset %d is at conditional depth 0 (only OP_IF / OP_NOTIF open a block, only OP_ENDIF closes one), so the %d byte(s) after it are an opaque blob and the script parses; Parse reported an error", stop, len(s)-stop-1), in)
	case ok && !o.parseOK:
		violateCapped("Parse/rejects-well-formed-script", "every token of the script is complete; Parse reported an error", in)
	case !ok && o.parseOK:
		violateCapped("Parse/accepts-malformed-script", "the script has a truncated push that is not behind an OP_RETURN at conditional depth 0; Parse reported no error", in)
	case ok:
		same := len(toks) == len(o.ops)
		for i := 0; same && i < len(toks); i++ {
			t, op := toks[i], o.ops[i]
			same = t.op == op.Value() && bytes.Equal(t.data, op.Data) && t.unf == (op.Name() == "Unformatted Data")
			if same && t.unf {
				same = op.Length() == t.size
			}
		}
		if !same {
			violateCapped("Parse/tokens-differ-from-the-grammar", fmt.Sprintf("Parse returned %d opcodes, the grammar has %d tokens (or one of them differs in opcode / data)", len(o.ops), len(toks)), in)
		}
	}
	if !o.eocsPanic {
		if eok, _, _ := refParse(s, true); eok != o.eocsOK {
			violateCapped("Parse(ErrorOnCheckSig)/verdict-differs-from-the-grammar", fmt.Sprintf("expected ok=%v (an opcode that needs the transaction is refused where it is an opcode, not inside push data or after a top-level OP_RETURN), Parse ok=%v", eok, o.eocsOK), in)
		}
	}
}

// scriptCaseSel is scriptCase with the choice whether the model is evaluated on the case too.
func scriptCaseSel(kind string, s []byte, toCoq bool) {
	o := observe(s)
	predicates(s, o)
	c.Tally(kind + "/" + verdicts(o))
	coq := ""
	if toCoq && c.Mode == "gen" {
		coq = fmt.Sprintf("CScript %s %d", sg.CoqBytes(s), sg.Digest(o.text))
	}
	c.Case(coq, map[string]interface{}{"kind": kind, "script": trunc(common.Hex(s)), "obs": trunc(o.text)}, "s"+common.Hex(s), len(s) > 0)
}

// depthAlphabet: the tokens whose effect on the conditional depth matters — the six opcodes the interpreter calls
// conditional, their neighbours in the opcode table (an opcode-range test off by one shows there), OP_RETURN itself
// (inside a block it is an ordinary opcode), and pushes whose DATA are those bytes.
var depthAlphabet = [][]byte{
	{0x63}, {0x64}, {0x65}, {0x66}, {0x67}, {0x68},
	{0x61}, {0x62}, {0x69}, {0x6a},
	{0x01, 0x63}, {0x02, 0x68, 0x6a},
}

// hostileTails: what follows the OP_RETURN. Only the first is empty and only two are token sequences; the others end in
// a push that is not there, directly or behind an ENDIF / a second OP_RETURN / an opcode that needs the transaction.
var hostileTails = [][]byte{
	{},
	{0x05},
	{0x4c},
	{0x4d, 0x01},
	{0x4e, 0xff, 0xff, 0xff, 0xff},
	{0x4c, 0x02, 0x01},
	{0x01, 0xaa},
	{0x68},
	{0x68, 0x4c},
	{0x68, 0x6a, 0x05},
	{0xac},
	{0xac, 0x05},
}

// condDepthFamily: every sequence of up to maxLen alphabet tokens, then OP_RETURN, then every tail. The Go-level
// predicates run on all of them; the model is evaluated on all with at most coqLen prefix tokens and on the
// seed-chosen sixteenth of the longer ones.
func condDepthFamily(maxLen, coqLen int) {
	n, toModel := 0, 0
	var rec func(prefix []byte, depth int)
	rec = func(prefix []byte, depth int) {
		for ti, tail := range hostileTails {
			s := append(append(append([]byte{}, prefix...), 0x6a), tail...)
			sel := depth <= coqLen || uint64(n+ti)%16 == c.Seed%16
			scriptCaseSel("cond-depth/return-then-hostile-tail", s, sel)
			if sel {
				toModel++
			}
		}
		n++
		if depth == maxLen {
			return
		}
		for _, t := range depthAlphabet {
			rec(append(append([]byte{}, prefix...), t...), depth+1)
		}
	}
	rec(nil, 0)
	c.Stats.Extra["cond_depth_prefixes"] = n
	c.Stats.Extra["cond_depth_scripts_go_side"] = n * len(hostileTails)
	c.Stats.Extra["cond_depth_scripts_model_side"] = toModel
}

// condDepthRandom: longer scripts of the same kind — well-formed tokens with many conditional(-looking) opcodes, deeper
// nesting and more stray ENDIFs than the exhaustive family reaches, one OP_RETURN somewhere, then random bytes
// biased towards push headers whose data is missing.
func condDepthRandom(r *common.Rand, count int) {
	for i := 0; i < count; i++ {
		var s []byte
		k := r.Intn(9)
		for j := 0; j < k; j++ {
			switch {
			case r.Chance(60):
				s = append(s, []byte{0x63, 0x64, 0x65, 0x66, 0x67, 0x68, 0x68, 0x63}[r.Intn(8)])
			case r.Chance(50):
				s = append(s, sg.NonPushOp(r))
			default:
				form := []int{sg.FormMinimal, sg.FormMinimal, sg.FormPD1, sg.FormPD2, sg.FormPD4}[r.Intn(5)]
				d := r.Bytes(1 + r.Intn(4))
				if r.Chance(40) {
					d[0] = []byte{0x63, 0x65, 0x68, 0x6a}[r.Intn(4)]
				}
				s = append(s, sg.Push(form, d)...)
			}
		}
		s = append(s, 0x6a)
		tail := r.Bytes(r.Intn(7))
		if r.Chance(70) {
			tail = append(tail, [][]byte{{0x4b}, {0x4c}, {0x4c, 0x09, 0x01}, {0x4d, 0xff}, {0x4d, 0x02, 0x00, 0x01}, {0x4e, 0x01, 0x00, 0x00}, {0x20, 0x01, 0x02}}[r.Intn(7)]...)
		}
		scriptCase("cond-depth/random-blocks-return-random-tail", append(s, tail...))
	}
}

// longTails: the unformatted token when the data after a top-level OP_RETURN is as long as each push form's limit
// (its length field is the length of the whole tail, not a table entry), bare and behind opcodes that leave the depth at 0.
func longTails(r *common.Rand, lens []int) {
	for i, n := range lens {
		fill := sg.Fill(r, n)
		if n > 40 {
			fill[0] = []byte{0x4c, 0x4d, 0x4e, 0x4b}[i%4] // the blob starts like a push whose data is not all there
		}
		for _, pre := range [][]byte{nil, {0x65}, {0x63, 0x67, 0x68, 0x66}} {
			if n > 300 && len(pre) == 1 {
				continue
			}
			scriptCase("cond-depth/long-unformatted-tail", append(append(append([]byte{}, pre...), 0x6a), fill...))
		}
	}
}

// reusedParserDepth: the depth is a matter of one Parse call. A parser value that has just parsed a script leaving a
// block open (or closed once too often) sees the next script's OP_RETURN at depth 0 all the same.
func reusedParserDepth() {
	p := &interpreter.DefaultOpcodeParser{}
	for _, first := range [][]byte{{0x63}, {0x68}, {0x65}, {0x63, 0x63, 0x6a, 0x4c}, {0x68, 0x68}} {
		for _, second := range [][]byte{{0x6a, 0x05}, {0x65, 0x6a, 0x4c}, {0x63, 0x68, 0x6a, 0x4d, 0x01}, {0x68, 0x6a, 0x05}, {0x63, 0x6a, 0x05}} {
			var e error
			var ops interpreter.ParsedScript
			if pn, msg := common.Safely(func() {
				_, _ = p.Parse(bscript.NewFromBytes(append([]byte{}, first...)))
				ops, e = p.Parse(bscript.NewFromBytes(append([]byte{}, second...)))
			}); pn {
				c.Violate("Parse(reused parser)/panic", msg, common.Hex(second))
				continue
			}
			var fresh interpreter.ParsedScript
			var fe error
			if pn, _ := common.Safely(func() {
				fresh, fe = (&interpreter.DefaultOpcodeParser{}).Parse(bscript.NewFromBytes(append([]byte{}, second...)))
			}); pn {
				continue // reported by the cases of the exhaustive family
			}
			if (fe == nil) != (e == nil) || len(fresh) != len(ops) {
				c.Violate("Parse/result-depends-on-what-the-parser-parsed-before", fmt.Sprintf("after parsing %x on the same parser value: a fresh parser gives err=%v with %d opcodes, the used one err=%v with %d opcodes", first, fe, len(fresh), e, len(ops)), common.Hex(second))
			}
		}
	}
}
