// c13 / template-shaped scripts: a decoder may take a short cut for "the scripts everybody sends" — recognise a
// standard template by the script's LENGTH and its first (or last) bytes and hand out the parts without walking the
// bytes in between or behind.  Such a short cut is right on the template and wrong on its neighbours of the SAME
// length: a script with the template's head whose last bytes are a push opcode with its data missing (the truncation
// is not reported), a one-byte push or an empty OP_PUSHDATA1 where the template has two opcodes (the tokens are cut
// differently from the other tokeniser), a push header one more or one less than the template's (every later token
// moves).  None of the other families of this harness produces a script of exactly a template's length with a
// template's head.
//
// This file (1) states DecodeParts' grammar independently of the library (refDecode) and compares every observed
// script of every family with it — verdict, tokens, the [error] marker of ToASM, DecodeStringParts —, and (2) generates,
// for every standard template of property C14 (harness/scriptnear: P2PKH, P2PK 33/65, P2SH, bare multisig 1-of-1 …
// 16-of-16, both data carriers, four inscriptions, three unlocking scripts), the scripts of the template's exact length
// in which
//
//	(A) one byte position holds a push opcode / a push header that reaches exactly to the end, one short of it, one
//	    beyond it / the neighbours of the byte that was there,
//	(B) the last 1..6 bytes are one push in each form (direct, PUSHDATA1/2/4) that is complete, one byte short, or cut
//	    inside its length field,
//	(C) the first 1..6 bytes are the template's and the rest is one push reaching the end / one byte beyond,
//	(D) the last two bytes are every pair of a set of push headers and template opcodes,
//
// and runs harness/scriptnear's near-misses (token-level mutations, other lengths) through the same predicates.
package main

import (
	"fmt"
	"strings"

	"github.com/libsv/go-bt/v2/bscript"

	"verif/harness/common"
	sg "verif/harness/script13"
	"verif/harness/scriptnear"
)

// refDecode: the push grammar as DecodeParts reads it, written down from its description: the script is a sequence of
// tokens; a token is a one-byte opcode (its part is that byte) or a push — direct (1..75), OP_PUSHDATA1 / 2 / 4 with a
// little-endian length field — whose part is its data; a push whose length field or data is not all there is an error;
// OP_RETURN is an opcode like any other (this tokeniser does not stop there).
func refDecode(s []byte) (ok bool, parts [][]byte) {
	for i := 0; i < len(s); {
		b := s[i]
		hdr, n := 0, 0
		switch {
		case b >= 1 && b <= 75:
			n = int(b)
		case b == 0x4c:
			hdr = 1
		case b == 0x4d:
			hdr = 2
		case b == 0x4e:
			hdr = 4
		default:
			parts = append(parts, []byte{b})
			i++
			continue
		}
		if len(s)-i-1 < hdr {
			return false, parts
		}
		for k := hdr; k >= 1; k-- {
			n = n<<8 | int(s[i+k])
		}
		if len(s)-i-1-hdr < n {
			return false, parts
		}
		parts = append(parts, s[i+1+hdr:i+1+hdr+n])
		i += 1 + hdr + n
	}
	return true, parts
}

// decodePredicates: DecodeParts, DecodeStringParts and ToASM on s against the grammar.
func decodePredicates(s []byte, o *scriptObs) {
	if o.decPanic {
		return
	}
	in := trunc(common.Hex(s))
	ok, parts := refDecode(s)
	switch {
	case !ok && o.decOK:
		violateCapped("DecodeParts/truncated-accepted", fmt.Sprintf("the script ends inside a push (after %d complete tokens); DecodeParts returned %d parts and no error", len(parts), len(o.parts)), in)
	case ok && !o.decOK:
		violateCapped("DecodeParts/rejects-well-formed-script", "every token of the script is complete; DecodeParts reported an error", in)
	case ok && !eqParts(parts, o.parts):
		violateCapped("DecodeParts/tokens-differ-from-the-grammar", fmt.Sprintf("the grammar cuts the script into %d tokens [%s], DecodeParts into %d [%s]", len(parts), trunc(hexList(parts)), len(o.parts), trunc(hexList(o.parts))), in)
	}
	if !ok && o.asmOK && !strings.HasSuffix(o.asm, "[error]") {
		violateCapped("ToASM/truncated-push-not-marked", "the script ends inside a push; its assembly rendering does not end in [error]: "+trunc(o.asm), in)
	}
	// the same decoder behind its hex front door
	var sp [][]byte
	var serr error
	if p, msg := common.Safely(func() { sp, serr = bscript.DecodeStringParts(common.Hex(s)) }); p {
		violateCapped("DecodeStringParts/panic", msg, in)
	} else if (serr == nil) != o.decOK || (o.decOK && !eqParts(sp, o.parts)) {
		violateCapped("DecodeStringParts/differs-from-DecodeParts", fmt.Sprintf("DecodeStringParts(hex) err=%v with %d parts, DecodeParts ok=%v with %d parts", serr, len(sp), o.decOK, len(o.parts)), in)
	}
}

// ---------- the family ----------

type shapedRun struct {
	seen          map[string]bool
	goSide, toCoq int
	perTemplate   map[string]int
}

// emit: one script through every observation and predicate; family is the bucket of the distribution, detail (form,
// template) goes into the case's record only.
func (sr *shapedRun) emit(family, detail string, s []byte, model bool) {
	if sr.seen[string(s)] {
		return
	}
	sr.seen[string(s)] = true
	sr.goSide++
	o := observe(s)
	predicates(s, o)
	c.Tally(family + "/" + verdicts(o))
	coq := ""
	if model && len(s) > 200 && !slice(s, 3) {
		model = false // the 15 / 16-key scripts cost the model twenty times a P2PKH-sized one: a third of the chosen ones
	}
	if model && c.Mode == "gen" {
		sr.toCoq++
		coq = fmt.Sprintf("CScript %s %d", sg.CoqBytes(s), sg.Digest(o.text))
	}
	c.Case(coq, map[string]interface{}{"kind": family + "/" + detail, "script": trunc(common.Hex(s)), "obs": trunc(o.text)}, "s"+common.Hex(s), len(s) > 0)
}

// slice: a deterministic 1/n choice that depends on the script and on the seed
func slice(s []byte, n uint64) bool {
	var h uint64 = 1469598103934665603
	for _, b := range s {
		h = (h ^ uint64(b)) * 1099511628211
	}
	return (h>>7)%n == c.Seed%n
}

// pushValues: what is put at one byte position pos of a script of length L that held orig.
func pushValues(orig byte, pos, L int, every bool) []byte {
	if every {
		vs := make([]byte, 0, 255)
		for v := 0; v < 256; v++ {
			if byte(v) != orig {
				vs = append(vs, byte(v))
			}
		}
		return vs
	}
	seen := map[byte]bool{orig: true}
	var vs []byte
	add := func(v int) {
		if v >= 0 && v <= 255 && !seen[byte(v)] {
			seen[byte(v)] = true
			vs = append(vs, byte(v))
		}
	}
	for _, v := range []int{0x00, 0x01, 0x02, 0x4b, 0x4c, 0x4d, 0x4e, 0x4f, 0x6a} {
		add(v)
	}
	add(int(orig) - 1)
	add(int(orig) + 1)
	rem := L - pos - 1 // bytes behind this position
	for _, v := range []int{rem - 1, rem, rem + 1} {
		if v >= 1 && v <= 75 {
			add(v)
		}
	}
	return vs
}

// tailForms: byte strings of exactly k bytes that are ONE push — complete, one byte short, or cut inside its length
// field — the data taken from what the template had there.
func tailForms(k int, orig []byte) (forms [][]byte, names []string) {
	put := func(name string, hdr ...byte) {
		if len(hdr) > k {
			return
		}
		f := append(append([]byte{}, hdr...), orig[len(hdr):]...)
		forms, names = append(forms, f), append(names, name)
	}
	if k >= 2 {
		put("direct-complete", byte(k-1))
	}
	put("direct-one-short", byte(k))
	put("direct-far-short", 0x4b)
	put("pd1-no-length", 0x4c) // k == 1: the opcode alone; longer: the next template byte is the length
	if k >= 2 {
		put("pd1-complete", 0x4c, byte(k-2))
		put("pd1-one-short", 0x4c, byte(k-1))
		put("pd1-far-short", 0x4c, 0xff)
	}
	put("pd2-header", 0x4d)
	if k == 2 {
		put("pd2-half-length", 0x4d, 0x00)
	}
	if k >= 3 {
		put("pd2-complete", 0x4d, byte(k-3), 0x00)
		put("pd2-one-short", 0x4d, byte(k-2), 0x00)
		put("pd2-high-byte", 0x4d, byte(k-3), 0x01)
	}
	put("pd4-header", 0x4e)
	if k >= 2 && k <= 4 {
		put("pd4-part-length", append([]byte{0x4e}, make([]byte, k-1)...)...)
	}
	if k >= 5 {
		put("pd4-complete", 0x4e, byte(k-5), 0, 0, 0)
		put("pd4-one-short", 0x4e, byte(k-4), 0, 0, 0)
		put("pd4-top-byte", 0x4e, byte(k-5), 0, 0, 0x80)
	}
	return
}

// onePush: a push in the given form whose token (header + data) has exactly total bytes, declaring extra more data
// bytes than it has; nil when the form cannot express it.
func onePush(form byte, total, extra int, fill []byte) []byte {
	var hdr []byte
	switch form {
	case 0x00: // direct
		n := total - 1 + extra
		if total < 1 || n < 1 || n > 75 {
			return nil
		}
		hdr = []byte{byte(n)}
	case 0x4c:
		n := total - 2 + extra
		if total < 2 || n < 0 || n > 0xff {
			return nil
		}
		hdr = []byte{0x4c, byte(n)}
	case 0x4d:
		n := total - 3 + extra
		if total < 3 || n < 0 || n > 0xffff {
			return nil
		}
		hdr = []byte{0x4d, byte(n), byte(n >> 8)}
	case 0x4e:
		n := total - 5 + extra
		if total < 5 || n < 0 {
			return nil
		}
		hdr = []byte{0x4e, byte(n), byte(n >> 8), byte(n >> 16), byte(n >> 24)}
	}
	return append(hdr, fill[len(hdr):total]...)
}

// pairSet: the bytes tried in pairs at the last two positions — every kind of push header and the opcodes the
// templates end in
var pairSet = []byte{0x00, 0x01, 0x02, 0x03, 0x4b, 0x4c, 0x4d, 0x4e, 0x4f, 0x51, 0x6a, 0x87, 0x88, 0xac, 0xae, 0xff}

func shapedFamily(r *common.Rand, full bool) {
	sr := &shapedRun{seen: map[string]bool{}, perTemplate: map[string]int{}}
	ts := append(scriptnear.Templates(r), scriptnear.UnlockTemplates(r)...)
	for _, t := range ts {
		base := t.Bytes()
		L := len(base)
		small := L <= 160
		before := sr.goSide
		sr.emit("template-shaped/template", t.Name, base, true)

		// token starts and push-data starts: where the structure is
		structural := map[int]bool{}
		pos := 0
		for j, tok := range t.Tokens {
			structural[pos] = true
			if t.IsPush[j] && len(tok) > 1 {
				structural[pos+1] = true
			}
			pos += len(tok)
		}

		// (A) one position
		for p := 0; p < L; p++ {
			edge := p < 4 || p >= L-8
			if !small && !edge && !structural[p] {
				continue
			}
			if !full && !small && !edge && p%3 != int(c.Seed%3) {
				continue // the 15 / 16-key templates in quick: the ends and a third of the inner token starts
			}
			for _, v := range pushValues(base[p], p, L, full && (small || edge)) {
				m := append([]byte{}, base...)
				m[p] = v
				model := (small && p >= L-2 && !full) || slice(m, map[bool]uint64{false: 32, true: 256}[full])
				sr.emit("template-shaped/one-position", t.Name, m, model)
			}
		}

		// (B) the last k bytes are one push
		for k := 1; k <= 6 && k < L; k++ {
			forms, names := tailForms(k, base[L-k:])
			for i, f := range forms {
				m := append(append([]byte{}, base[:L-k]...), f...)
				sr.emit("template-shaped/tail-is-one-push", names[i]+"/"+t.Name, m, (small && k <= 3) || slice(m, 4))
			}
		}

		// (B2) the same tails at a token boundary: when the last k bytes begin inside the data of a push, that push is
		// declared shorter so that it ends where the tail begins (the script keeps its length; the push header differs)
		for k := 1; k <= 6 && k < L; k++ {
			cut := L - k
			start := 0
			for j, tok := range t.Tokens {
				if cut > start && cut < start+len(tok) && t.IsPush[j] {
					var head []byte
					switch {
					case tok[0] <= 75 && cut-start-1 >= 1:
						head = append([]byte{byte(cut - start - 1)}, base[start+1:cut]...)
					case tok[0] == 0x4c && cut-start-2 >= 0:
						head = append([]byte{0x4c, byte(cut - start - 2)}, base[start+2:cut]...)
					}
					if head != nil {
						forms, names := tailForms(k, base[cut:])
						for i, f := range forms {
							m := append(append(append([]byte{}, base[:start]...), head...), f...)
							sr.emit("template-shaped/push-recut-then-tail-is-one-push", names[i]+"/"+t.Name, m, slice(m, 4))
						}
					}
				}
				start += len(tok)
			}
		}

		// (C) the first 1..3 bytes / the first 1..5 tokens are the template's, the rest is one push
		heads := []int{1, 2, 3}
		for j, at := 0, 0; j < len(t.Tokens) && j < 5; j++ {
			at += len(t.Tokens[j])
			heads = append(heads, at) // the first 1..5 whole tokens
		}
		for _, k := range heads {
			if k >= L {
				continue
			}
			for _, form := range []byte{0x00, 0x4c, 0x4d, 0x4e} {
				for _, extra := range []int{0, 1, -1} {
					p := onePush(form, L-k, extra, base[k:])
					if p == nil {
						continue
					}
					// extra == -1: one byte fewer declared, the template's last byte follows the push as an opcode
					m := append(append([]byte{}, base[:k]...), p...)
					sr.emit("template-shaped/head-then-one-push", t.Name, m, slice(m, 6))
				}
			}
		}

		// (D) the last two bytes: every pair
		if L >= 3 && (small || full) {
			for _, x := range pairSet {
				for _, y := range pairSet {
					m := append([]byte{}, base...)
					m[L-2], m[L-1] = x, y
					sr.emit("template-shaped/last-two-bytes", t.Name, m, slice(m, 16))
				}
			}
		}
		sr.perTemplate[t.Name] = sr.goSide - before
	}
	shapedCount := sr.goSide

	// (E) scriptnear's near-misses of the same templates (tokens removed / doubled / re-cut, counts changed, cut
	// anywhere: mostly OTHER lengths than the template's)
	for _, n := range scriptnear.All(r, full) {
		sr.emit("template-near-miss", n.Kind, n.Script, slice(n.Script, map[bool]uint64{false: 64, true: 512}[full]))
	}
	c.Stats.Extra["template_shaped_scripts_go_side"] = shapedCount
	c.Stats.Extra["template_near_misses_go_side"] = sr.goSide - shapedCount
	c.Stats.Extra["template_shaped_and_near_miss_model_side"] = sr.toCoq
	c.Stats.Extra["template_shaped_per_template"] = sr.perTemplate
}
