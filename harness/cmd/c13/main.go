// c13: script codecs (push data, opcode parse/unparse, hex, JSON, ASM) — cases for the Coq model
// plus the Go-level statements of the property used as search.
package main

import (
	"bytes"
	"encoding/binary"
	"encoding/json"
	"fmt"
	"strconv"
	"strings"

	"github.com/libsv/go-bt/v2/bscript"
	"github.com/libsv/go-bt/v2/bscript/interpreter"

	"verif/harness/common"
	sg "verif/harness/script13"
)

var c *common.Ctx

const header = `From Coq Require Import List NArith String.
From Coq Require Import Strings.Byte.
From GoBT Require Import lib.Bytes lib.Hex corr.C13.
Import ListNotations. Local Open Scope N_scope. Local Open Scope string_scope.
`

func trunc(s string) string {
	if len(s) > 300 {
		return s[:300] + fmt.Sprintf("...(%d hex chars)", len(s))
	}
	return s
}

// ---------- observations (the same text is produced by corr/C13.v obs_script) ----------

type scriptObs struct {
	text                 string
	decOK, parseOK       bool
	decPanic, parsePanic bool
	eocsOK, eocsPanic    bool
	parts                [][]byte
	ops                  interpreter.ParsedScript
	unparseOK            bool
	unparsed             []byte
	asm                  string
	asmPanic, asmOK      bool
	fromAsmOK            bool
	fromAsm              []byte
	hexOK, jsonOK        bool
	hexBack, jsonBack    []byte
	anyPanic             string
}

func hexList(pp [][]byte) string {
	var ss []string
	for _, p := range pp {
		ss = append(ss, sg.Habbr(p))
	}
	return strings.Join(ss, ",")
}

// history for the reused parser: scripts that fail inside an open conditional, leave one open, or end early
var histParser = &interpreter.DefaultOpcodeParser{}

// scripts returned by earlier Unparse calls on the long-lived parser, with what they held when returned
type keptScript struct {
	got  *bscript.Script
	want []byte
	in   string
}

var keptUnparsed []keptScript
var histCount int
var histPrimes = [][]byte{{0x51, 0x63, 0x4c, 0x05, 0x01}, {0x64, 0x4d, 0xff}, {0x51}, {0x63, 0x63, 0x02, 0x01}, {0x63}, {0x63, 0x6a, 0x01}, {0x6a, 0x4c}, {0x63, 0x68, 0x68, 0x4e, 0x01}}

// streamScripts: scripts whose JSON renderings are later decoded from ONE stream with a json.Decoder
var streamScripts [][]byte

func checkStream() {
	if len(streamScripts) > 400 {
		streamScripts = streamScripts[:400]
	}
	var buf bytes.Buffer
	for _, s := range streamScripts {
		jb, _ := json.Marshal(bscript.NewFromBytes(s))
		buf.Write(jb)
		buf.WriteByte('\n')
	}
	dec := json.NewDecoder(&buf)
	var got []*bscript.Script
	for range streamScripts {
		sc := &bscript.Script{}
		if err := dec.Decode(sc); err != nil {
			c.Violate("Script.UnmarshalJSON/stream", err.Error(), len(got))
			return
		}
		got = append(got, sc)
	}
	for i, s := range streamScripts {
		if !bytes.Equal(*got[i], s) {
			c.Violate("Script.UnmarshalJSON/keeps-the-json-buffer", fmt.Sprintf("script %d of a stream of %d changed after later ones were decoded: %s, expected %s", i, len(got), trunc(common.Hex(*got[i])), trunc(common.Hex(s))), common.Hex(s))
			return
		}
	}
	// the same stream decoded into ONE destination that is used again for every element (as a loop with a single variable, or a
	// struct with a script field that is filled again and again, does): each value is what its own rendering says, whatever the
	// destination held before (the empty script after a long one included)
	buf.Reset()
	var docs bytes.Buffer
	for i, s := range streamScripts {
		if i%5 == 1 {
			buf.WriteString("\"\"\n")
			docs.WriteString("{\"script\":\"\"}\n")
		}
		jb, _ := json.Marshal(bscript.NewFromBytes(s))
		buf.Write(jb)
		buf.WriteByte('\n')
		docs.WriteString("{\"script\":")
		docs.Write(jb)
		docs.WriteString("}\n")
	}
	dec = json.NewDecoder(&buf)
	ddec := json.NewDecoder(&docs)
	var one bscript.Script
	var doc struct {
		Script bscript.Script `json:"script"`
	}
	n := 0
	for i, s := range streamScripts {
		wants := [][]byte{s}
		if i%5 == 1 {
			wants = [][]byte{{}, s}
		}
		for _, want := range wants {
			e1, e2 := dec.Decode(&one), ddec.Decode(&doc)
			if e1 != nil || e2 != nil {
				c.Violate("Script.UnmarshalJSON/stream", fmt.Sprint(e1, e2), n)
				return
			}
			if !bytes.Equal(one, want) || !bytes.Equal(doc.Script, want) {
				c.Violate("Script.UnmarshalJSON/reused-destination", fmt.Sprintf("element %d of a stream decoded into one variable reads %s (in a struct field: %s), expected %s", n, trunc(common.Hex(one)), trunc(common.Hex(doc.Script)), trunc(common.Hex(want))), common.Hex(want))
				return
			}
			n++
		}
	}
	c.Stats.Extra["json_stream_scripts"] = len(got)
	c.Stats.Extra["json_stream_reused_destination"] = n
}

func observe(s []byte) *scriptObs {
	o := &scriptObs{}
	var sb strings.Builder
	scr := func() *bscript.Script { return bscript.NewFromBytes(append([]byte{}, s...)) }
	note := func(site, msg string) {
		if o.anyPanic == "" {
			o.anyPanic = site + ": " + msg
		}
	}
	// D: DecodeParts
	var derr error
	if p, msg := common.Safely(func() { o.parts, derr = bscript.DecodeParts(append([]byte{}, s...)) }); p {
		o.decPanic = true
		note("DecodeParts", msg)
		sb.WriteString("D!")
	} else {
		o.decOK = derr == nil
		sb.WriteString("D" + map[bool]string{true: "+", false: "-"}[o.decOK] + hexList(o.parts))
	}
	// the owner of a decoding result may edit it: a second result (of a private copy of the script) is overwritten here; what
	// later calls return must not depend on it (items handed out from a shared table would)
	common.Safely(func() {
		p2, _ := bscript.DecodeParts(append([]byte{}, s...))
		for _, it := range p2 {
			for i := range it {
				it[i] ^= 0xff
			}
		}
	})
	// P: Parse
	var perr error
	parser := interpreter.DefaultOpcodeParser{}
	if p, msg := common.Safely(func() { o.ops, perr = parser.Parse(scr()) }); p {
		o.parsePanic = true
		note("Parse", msg)
		sb.WriteString(";P!")
	} else if perr != nil {
		sb.WriteString(";P-")
	} else {
		o.parseOK = true
		var ss []string
		for _, op := range o.ops {
			u := "n"
			if op.Name() == "Unformatted Data" {
				u = "u"
			}
			ss = append(ss, fmt.Sprintf("%d.%d.%s.%s", op.Value(), op.Length(), u, sg.Habbr(op.Data)))
		}
		sb.WriteString(";P+" + strings.Join(ss, ","))
	}
	// H: a parser value that has parsed other scripts before (among them ones that fail inside an open
	// conditional) gives the same result as a fresh one
	if !o.parsePanic {
		prime := histPrimes[histCount%len(histPrimes)]
		histCount++
		common.Safely(func() { _, _ = histParser.Parse(bscript.NewFromBytes(append([]byte{}, prime...))) })
		var ops2 interpreter.ParsedScript
		var e2 error
		if p, msg := common.Safely(func() { ops2, e2 = histParser.Parse(scr()) }); p {
			note("Parse(reused parser)", msg)
		} else {
			same := (e2 == nil) == (perr == nil)
			if same && e2 == nil {
				same = len(ops2) == len(o.ops)
				for i := 0; same && i < len(ops2); i++ {
					same = ops2[i].Value() == o.ops[i].Value() && ops2[i].Length() == o.ops[i].Length() && bytes.Equal(ops2[i].Data, o.ops[i].Data)
				}
			}
			if same && e2 == nil {
				// Unparse on the same long-lived parser: right now, and still after later calls on that parser
				var us2 *bscript.Script
				var ue error
				if p, msg := common.Safely(func() { us2, ue = histParser.Unparse(ops2) }); p {
					note("Unparse(reused parser)", msg)
				} else if ue == nil && us2 != nil {
					if !bytes.Equal(*us2, s) {
						c.Violate("Unparse/result-depends-on-what-the-parser-did-before", "Unparse(Parse s) != s on a parser that has been used before: "+trunc(common.Hex(*us2)), common.Hex(s))
					}
					for _, k := range keptUnparsed {
						if !bytes.Equal(*k.got, k.want) {
							c.Violate("Unparse/earlier-result-changed-by-a-later-call-on-the-same-parser", fmt.Sprintf("the script returned for %s now reads %s after Unparse of %s", k.in, trunc(common.Hex(*k.got)), trunc(common.Hex(s))), k.in)
							break
						}
					}
					keptUnparsed = append(keptUnparsed, keptScript{us2, append([]byte{}, (*us2)...), trunc(common.Hex(s))})
					if len(keptUnparsed) > 6 {
						keptUnparsed = keptUnparsed[1:]
					}
				}
			}
			if !same {
				c.Violate("Parse/result-depends-on-what-the-parser-parsed-before", fmt.Sprintf("after parsing %x: fresh parser err=%v %d opcodes, reused parser err=%v %d opcodes", prime, perr, len(o.ops), e2, len(ops2)), common.Hex(s))
			}
		}
	}
	// C: Parse with ErrorOnCheckSig
	{
		var e error
		p2 := interpreter.DefaultOpcodeParser{ErrorOnCheckSig: true}
		if p, msg := common.Safely(func() { _, e = p2.Parse(scr()) }); p {
			o.eocsPanic = true
			note("Parse(ErrorOnCheckSig)", msg)
			sb.WriteString(";C!")
		} else if e != nil {
			sb.WriteString(";C-")
		} else {
			o.eocsOK = true
			sb.WriteString(";C+")
		}
	}
	// U: Unparse(Parse s)
	if o.parsePanic {
		sb.WriteString(";U!")
	} else if !o.parseOK {
		sb.WriteString(";U-")
	} else {
		var us *bscript.Script
		var uerr error
		if p, msg := common.Safely(func() { us, uerr = parser.Unparse(o.ops) }); p {
			note("Unparse", msg)
			sb.WriteString(";U!")
		} else if uerr != nil {
			sb.WriteString(";U-")
		} else {
			o.unparseOK, o.unparsed = true, []byte(*us)
			sb.WriteString(";U+" + sg.Habbr(o.unparsed))
		}
	}
	// A: ToASM   N: NewFromASM(ToASM)
	var aerr error
	if p, msg := common.Safely(func() { o.asm, aerr = scr().ToASM() }); p {
		o.asmPanic = true
		note("ToASM", msg)
		sb.WriteString(";A!;N!")
	} else if aerr != nil {
		sb.WriteString(";A-;N-")
	} else {
		o.asmOK = true
		sb.WriteString(";A+" + sg.Sabbr(o.asm))
		var back *bscript.Script
		var nerr error
		if p, msg := common.Safely(func() { back, nerr = bscript.NewFromASM(o.asm) }); p {
			note("NewFromASM", msg)
			sb.WriteString(";N!")
		} else if nerr != nil {
			sb.WriteString(";N-")
		} else {
			o.fromAsmOK, o.fromAsm = true, []byte(*back)
			sb.WriteString(";N+" + sg.Habbr(o.fromAsm))
		}
	}
	// H/h: String / NewFromHexString
	hs := scr().String()
	sb.WriteString(";H" + sg.Sabbr(hs))
	if back, err := bscript.NewFromHexString(hs); err != nil {
		sb.WriteString(";h-")
	} else {
		o.hexOK, o.hexBack = true, []byte(*back)
		sb.WriteString(";h+" + sg.Habbr(o.hexBack))
	}
	// J/j: encoding/json round trip through MarshalJSON / UnmarshalJSON
	jb, jerr := json.Marshal(scr())
	if jerr != nil {
		sb.WriteString(";J-;j-")
	} else {
		sb.WriteString(";J" + sg.Sabbr(string(jb)))
		var back bscript.Script
		jcopy := append([]byte{}, jb...)
		if err := json.Unmarshal(jb, &back); err != nil {
			sb.WriteString(";j-")
		} else {
			o.jsonOK, o.jsonBack = true, append([]byte{}, back...)
			sb.WriteString(";j+" + sg.Habbr(o.jsonBack))
			// the rendering handed to Unmarshal is the caller's: it is neither changed nor kept (a second conversion
			// of the same bytes gives the same script, and overwriting them afterwards leaves the script alone)
			if !bytes.Equal(jb, jcopy) {
				c.Violate("Script.UnmarshalJSON/modifies-the-json-it-was-given", fmt.Sprintf("%q became %q", trunc(string(jcopy)), trunc(string(jb))), common.Hex(s))
			}
			for i := range jb {
				jb[i] = 'f'
			}
			if !bytes.Equal(back, o.jsonBack) {
				c.Violate("Script.UnmarshalJSON/keeps-the-json-buffer", "the script changes when the JSON bytes it was decoded from are overwritten", common.Hex(s))
			}
			// scripts decoded one after the other from a stream keep their values
			if len(s) > 0 {
				streamScripts = append(streamScripts, append([]byte{}, s...))
			}
		}
	}
	o.text = sb.String()
	return o
}

// partOf is the DecodeParts view of a parsed op.
func partOf(op interpreter.ParsedOpcode) []byte {
	if op.Length() != 1 {
		if op.Data == nil {
			return []byte{}
		}
		return op.Data
	}
	return []byte{op.Value()}
}

func eqParts(a, b [][]byte) bool {
	if len(a) != len(b) {
		return false
	}
	for i := range a {
		if !bytes.Equal(a[i], b[i]) {
			return false
		}
	}
	return true
}

// predicates: the property stated directly on the implementation for one script.
func predicates(s []byte, o *scriptObs) {
	in := trunc(common.Hex(s))
	if o.anyPanic != "" {
		c.Violate(strings.SplitN(o.anyPanic, ":", 2)[0]+"/panic", o.anyPanic, in)
	}
	if o.parseOK && (!o.unparseOK || !bytes.Equal(o.unparsed, s)) {
		c.Violate("Parse/unparse-roundtrip", "Unparse(Parse s) != s: "+trunc(common.Hex(o.unparsed)), in)
	}
	if !o.hexOK || !bytes.Equal(o.hexBack, s) {
		c.Violate("Script/hex-roundtrip", "NewFromHexString(String()) != s", in)
	}
	if !o.jsonOK || !bytes.Equal(o.jsonBack, s) {
		c.Violate("Script/json-roundtrip", "json.Unmarshal(json.Marshal(s)) != s", in)
	}
	// the parse is the one the grammar prescribes: tokens, conditional depth, early end at a top-level OP_RETURN (conddepth.go)
	grammarPredicates(s, o)
	// DecodeParts / DecodeStringParts / ToASM against the push grammar stated independently (shaped.go)
	decodePredicates(s, o)
	if !o.decPanic && !o.parsePanic && !sg.HasOpReturn(s) {
		if o.decOK != o.parseOK {
			c.Violate("DecodeParts/Parse-disagree", fmt.Sprintf("DecodeParts ok=%v, Parse ok=%v on a script without OP_RETURN", o.decOK, o.parseOK), in)
		} else if o.decOK {
			var pp [][]byte
			for _, op := range o.ops {
				pp = append(pp, partOf(op))
			}
			if !eqParts(pp, o.parts) {
				c.Violate("DecodeParts/Parse-disagree", "the two tokenisers return different tokens", in)
			}
		}
	}
}

func scriptCase(kind string, s []byte) {
	o := observe(s)
	predicates(s, o)
	c.Tally(kind + "/" + verdicts(o))
	coq := ""
	if c.Mode == "gen" {
		coq = fmt.Sprintf("CScript %s %d", sg.CoqBytes(s), sg.Digest(o.text))
	}
	c.Case(coq, map[string]interface{}{"kind": kind, "script": trunc(common.Hex(s)), "obs": trunc(o.text)}, "s"+common.Hex(s), len(s) > 0)
}

func verdicts(o *scriptObs) string {
	f := func(ok, p bool) string {
		if p {
			return "panic"
		}
		if ok {
			return "ok"
		}
		return "err"
	}
	return "decode=" + f(o.decOK, o.decPanic) + ",parse=" + f(o.parseOK, o.parsePanic)
}

// truncatedPush: pre is a well-formed token sequence without OP_RETURN; cut is a non-empty proper
// prefix of a push token. Both decoders must report an error.
func truncatedPush(pre, cut []byte) {
	s := append(append([]byte{}, pre...), cut...)
	o := observe(s)
	if o.decOK {
		c.Violate("DecodeParts/truncated-accepted", "truncated push decoded without error", trunc(common.Hex(s)))
	}
	if o.parseOK {
		c.Violate("Parse/truncated-accepted", "truncated push parsed without error", trunc(common.Hex(s)))
	}
	scriptCase("truncated-push", s)
}

// ---------- EncodeParts / PushDataPrefix / MinPushSize ----------

func frame(pp [][]byte) []byte {
	var b []byte
	for _, p := range pp {
		var l [4]byte
		binary.LittleEndian.PutUint32(l[:], uint32(len(p)))
		b = append(b, l[:]...)
		b = append(b, p...)
	}
	return b
}

func expectedPrefixLen(n int) int {
	switch {
	case n <= 75:
		return 1
	case n <= 0xff:
		return 2
	case n <= 0xffff:
		return 3
	}
	return 5
}

func encCase(kind string, items [][]byte) {
	var lens []string
	nonEmpty := true
	for _, it := range items {
		lens = append(lens, strconv.Itoa(len(it)))
		if len(it) == 0 {
			nonEmpty = false
		}
	}
	in := map[string]interface{}{"kind": kind, "item_lengths": strings.Join(lens, ",")}
	var enc []byte
	var err error
	if p, msg := common.Safely(func() { enc, err = bscript.EncodeParts(items) }); p {
		c.Violate("EncodeParts/panic", msg, in)
		return
	}
	var prefixes, mins []string
	for _, it := range items {
		pd, e := bscript.PushDataPrefix(it)
		if e != nil {
			pd = nil
		} else if len(pd) != expectedPrefixLen(len(it)) {
			c.Violate("PushDataPrefix/shortest", fmt.Sprintf("%d-byte prefix for %d bytes of data", len(pd), len(it)), in)
		}
		prefixes = append(prefixes, sg.CoqBytes(pd))
		mps := bscript.MinPushSize(it)
		if len(it) >= 2 && e == nil && mps != len(pd)+len(it) {
			c.Violate("MinPushSize/differs-from-encoding", fmt.Sprintf("MinPushSize %d, encoded %d", mps, len(pd)+len(it)), in)
		}
		mins = append(mins, strconv.Itoa(mps))
	}
	ok := err == nil
	var dec [][]byte
	var derr error
	if ok {
		if p, msg := common.Safely(func() { dec, derr = bscript.DecodeParts(enc) }); p {
			c.Violate("DecodeParts/panic", msg, in)
			return
		}
		if nonEmpty && (derr != nil || !eqParts(dec, items)) {
			c.Violate("EncodeParts/roundtrip", "DecodeParts(EncodeParts(items)) != items", in)
		}
		// every push is a single token for the opcode parser too, with the same data
		ops, perr := (&interpreter.DefaultOpcodeParser{}).Parse(bscript.NewFromBytes(enc))
		if nonEmpty && (perr != nil || len(ops) != len(items)) {
			c.Violate("EncodeParts/parse-tokens", "Parse does not see one token per item", in)
		}
	}
	var its []string
	for _, it := range items {
		its = append(its, common.CoqBytes(it))
	}
	coq := ""
	if c.Mode == "gen" {
		coq = fmt.Sprintf("CEnc [%s] %s %d %s [%s] [%s] %s %s", strings.Join(its, "; "), common.CoqBool(ok), len(enc),
			common.CoqStr(common.Sha256Hex(enc)), strings.Join(prefixes, "; "), strings.Join(mins, "; "),
			common.CoqBool(ok && derr == nil), common.CoqStr(common.Sha256Hex(frame(dec))))
	}
	c.Tally("encode/" + kind)
	c.Case(coq, in, "e"+strings.Join(lens, ",")+common.Sha256Hex(enc), len(items) > 0)
}

// ---------- strings: hex / JSON / ASM decoders on arbitrary text ----------

func hexCase(kind, str string) {
	var b, jb []byte
	ok, jok := false, false
	if p, msg := common.Safely(func() {
		if s, err := bscript.NewFromHexString(str); err == nil {
			ok, b = true, []byte(*s)
		}
		var s2 bscript.Script
		if err := s2.UnmarshalJSON([]byte(str)); err == nil {
			jok, jb = true, []byte(s2)
		}
	}); p {
		c.Violate("NewFromHexString/panic", msg, str)
		return
	}
	coq := ""
	if c.Mode == "gen" {
		coq = fmt.Sprintf("CHex %s %s %s %s %s", common.CoqStr(str), common.CoqBool(ok), common.CoqBytes(b), common.CoqBool(jok), common.CoqBytes(jb))
	}
	c.Tally("hex/" + kind + "/" + map[bool]string{true: "ok", false: "err"}[ok])
	c.Case(coq, map[string]interface{}{"kind": "hex/" + kind, "str": str}, "h"+str, len(str) > 0)
}

func asmCase(kind, str string) {
	var b []byte
	ok := false
	if p, msg := common.Safely(func() {
		if s, err := bscript.NewFromASM(str); err == nil {
			ok, b = true, []byte(*s)
		}
	}); p {
		c.Violate("NewFromASM/panic", msg, str)
		return
	}
	coq := ""
	if c.Mode == "gen" {
		coq = fmt.Sprintf("CAsm %s %s %s", common.CoqStr(str), common.CoqBool(ok), common.CoqBytes(b))
	}
	c.Tally("asm/" + kind + "/" + map[bool]string{true: "ok", false: "err"}[ok])
	c.Case(coq, map[string]interface{}{"kind": "asm/" + kind, "str": str}, "a"+str, len(str) > 0)
}

// asmDomain: the ASM round trip on its stated domain.
func asmDomain(s []byte) {
	o := observe(s)
	if !o.fromAsmOK || !bytes.Equal(o.fromAsm, s) {
		c.Violate("NewFromASM/roundtrip", "NewFromASM(ToASM(s)) != s on a non-data script of non-push opcodes and minimal multi-byte pushes: "+trunc(o.asm), trunc(common.Hex(s)))
	}
	scriptCase("asm-domain", s)
}

var opNames = []string{"OP_0", "OP_ZERO", "OP_FALSE", "OP_1", "OP_TRUE", "OP_16", "OP_DUP", "OP_HASH160", "OP_EQUALVERIFY", "OP_CHECKSIG",
	"OP_RETURN", "OP_IF", "OP_ENDIF", "OP_DATA_1", "OP_DATA_20", "OP_DATA_75", "OP_PUSHDATA1", "OP_PUSHDATA2", "OP_PUSHDATA4", "OP_1NEGATE",
	"OP_NOP", "OP_CHECKMULTISIG", "OP_INVALIDOPCODE", "OP_UNKNOWN252", "OP_PUBKEYHASH", "OP_NOP10", "OP_CHECKLOCKTIMEVERIFY", "OP_NOP2",
	"OP_CAT", "OP_SPLIT", "OP_2MUL", "OP_RESERVED", "OP_VER", "OP_VERIF", "op_dup", "OP_", "OP_17", "DUP", "[error]", "0", "-1", "ff", "FF", "aBcD", "abc", "zz", "00", ""}

func main() {
	c = common.Parse("C13")
	c.SetHeader(header)
	c.ShardBytes = 400000
	c.PerShard = 700
	r := common.NewRand(c.Seed)
	search := c.Mode == "search"

	// ---- (1) every byte string of length <= 2 (65 793): Go-side predicates always; model side all
	//      of length <= 1 plus a seed-chosen 1/8 slice in quick, everything in thorough
	maxTiny := 2
	sg.Tiny(maxTiny, func(s []byte, ln int, v uint64) {
		o := observe(s)
		predicates(s, o)
		toCoq := c.Mode == "gen" && (c.Thorough() || ln <= 1 || v%8 == c.Seed%8)
		coq := ""
		if toCoq {
			coq = fmt.Sprintf("CTiny %d %d %d", ln, v, sg.Digest(o.text))
		}
		c.Stats.Distribution["tiny/"+verdicts(o)]++
		c.Case(coq, map[string]interface{}{"kind": "tiny", "script": common.Hex(s), "obs": o.text}, "s"+common.Hex(s), ln > 0)
	})
	if c.Thorough() || search {
		// <= 3 bytes: Go-level predicates only (16.8 M scripts)
		n3 := 0
		s := make([]byte, 3)
		for v := 0; v < 1<<24; v++ {
			s[0], s[1], s[2] = byte(v), byte(v>>8), byte(v>>16)
			if search && v%4 != int(c.Seed%4) {
				continue
			}
			o := observe(s)
			predicates(s, o)
			n3++
		}
		c.Stats.Extra["three_byte_scripts_go_side_only"] = n3
	}

	// ---- (2) EncodeParts: item lengths on every push boundary
	c.PerShard = 6
	for _, n := range append([]int{0, 3, 74, 77, 254, 257}, sg.PushLens...) {
		if n >= 65535 && !c.Thorough() && search {
			continue
		}
		encCase("single", [][]byte{sg.Fill(r, n)})
	}
	encCase("empty-list", [][]byte{})
	encCase("all-boundaries", [][]byte{sg.Fill(r, 1), sg.Fill(r, 75), sg.Fill(r, 76), sg.Fill(r, 255), sg.Fill(r, 256), sg.Fill(r, 65535), sg.Fill(r, 65536)})
	encCase("with-empty-item", [][]byte{sg.Fill(r, 2), {}, sg.Fill(r, 76)})
	for _, b := range []byte{0, 1, 16, 17, 0x4c, 0x6a, 0x80, 0x81, 0xff} {
		encCase("one-byte", [][]byte{{b}})
	}
	c.PerShard = 40
	nEnc := 60
	if c.Thorough() || search {
		nEnc = 1500
	}
	for i := 0; i < nEnc; i++ {
		k := 1 + r.Intn(5)
		var items [][]byte
		for j := 0; j < k; j++ {
			n := []int{1, 1, 2, 5, 20, 33, 74, 75, 76, 77, 254, 255, 256, 257}[r.Intn(14)]
			if c.Thorough() && r.Chance(2) {
				n = []int{65535, 65536}[r.Intn(2)]
			}
			items = append(items, sg.Fill(r, n))
		}
		encCase("random", items)
	}

	// ---- (3) pushes of every form at every boundary, complete and cut short by one byte / to the header
	c.PerShard = 8
	for _, n := range sg.PushLens {
		for _, form := range []int{sg.FormMinimal, sg.FormPD1, sg.FormPD2, sg.FormPD4} {
			if (form == sg.FormPD1 && n > 0xff) || (form == sg.FormPD2 && n > 0xffff) {
				continue
			}
			if n >= 65535 && !c.Thorough() && form != sg.FormMinimal {
				continue
			}
			d := sg.Fill(r, n)
			p := sg.Push(form, d)
			pre := []byte{0x76, 0x02, 0xab, 0xcd}
			scriptCase("push-boundary", append(append([]byte{}, pre...), append(p, 0x87)...))
			truncatedPush(pre, p[:len(p)-1])
			truncatedPush(pre, p[:len(sg.Header(form, n))])
			truncatedPush(nil, p[:1])
		}
	}
	// hostile length fields
	for _, h := range [][]byte{{0x4e, 0xff, 0xff, 0xff, 0xff}, {0x4e, 0xff, 0xff, 0xff, 0x7f, 1, 2}, {0x4e, 0, 0, 0, 0x80}, {0x4d, 0xff, 0xff, 1}, {0x4c, 0xff}, {0x4e, 0, 0, 0}, {0x4d, 0}, {0x4c}, {0x4b}} {
		truncatedPush([]byte{0x51}, h)
	}
	// declared lengths at the top of each length field's range (where header size + length wraps in the
	// field's own width) with 0, 1, 3 or 100 bytes present, bare and after an opcode
	for _, present := range []int{0, 1, 3, 100} {
		d := sg.Fill(r, present)
		var hs [][]byte
		for l := 250; l <= 255; l++ {
			hs = append(hs, []byte{0x4c, byte(l)})
		}
		for _, l := range []int{0xfffa, 0xfffb, 0xfffc, 0xfffd, 0xfffe, 0xffff, 0x8000, 0x7fff, 0xff00} {
			hs = append(hs, []byte{0x4d, byte(l), byte(l >> 8)})
		}
		for _, l := range []uint32{0xfffffff9, 0xfffffffa, 0xfffffffb, 0xfffffffc, 0xfffffffd, 0xfffffffe, 0xffffffff, 0x80000000, 0x7fffffff, 0x7ffffffb, 0x7ffffffa, 0xffff0000} {
			hs = append(hs, []byte{0x4e, byte(l), byte(l >> 8), byte(l >> 16), byte(l >> 24)})
		}
		for i, h := range hs {
			pre := [][]byte{nil, {0x76}, {0x51, 0x63}}[i%3]
			truncatedPush(pre, append(append([]byte{}, h...), d...))
		}
	}
	// each length byte of PUSHDATA2/4 on its own, followed by more data than that byte's weight
	// (the 2^24 byte can only be seen to be "more than is there")
	c.PerShard = 1
	for _, h := range []struct {
		hdr []byte
		n   int
	}{{[]byte{0x4e, 0, 0, 0, 1}, 65539}, {[]byte{0x4e, 0, 0, 1, 0}, 65539}, {[]byte{0x4e, 0, 1, 0, 0}, 600}, {[]byte{0x4e, 1, 0, 0, 0}, 600},
		{[]byte{0x4d, 0, 1}, 600}, {[]byte{0x4d, 1, 0}, 600}} {
		fill := make([]byte, h.n)
		for i := range fill {
			fill[i] = 0x61
		}
		scriptCase("length-byte-weights", append(append([]byte{}, h.hdr...), fill...))
	}
	c.PerShard = 8
	// zero-length pushes in every form
	for _, z := range [][]byte{{0x4c, 0}, {0x4d, 0, 0}, {0x4e, 0, 0, 0, 0}} {
		scriptCase("zero-length-push", append(append([]byte{0x51}, z...), 0x52))
	}

	// ---- (4) generated scripts over the whole grammar, with OP_RETURN at top level / inside IF /
	//      after a stray ENDIF, and each truncated at every position
	c.PerShard = 150
	nGen, nTrunc := 150, 25
	if c.Thorough() || search {
		nGen, nTrunc = 6000, 600
	}
	for i := 0; i < nGen; i++ {
		ret := r.Intn(4)
		s, _ := sg.Random(r, 1+r.Intn(8), ret)
		scriptCase([]string{"gen/no-return", "gen/return-top", "gen/return-in-if", "gen/return-after-endif"}[ret], s)
		if i < nTrunc && len(s) < 60 {
			for k := 0; k < len(s); k++ {
				scriptCase("gen/truncated-at-every-position", s[:k])
			}
		}
	}
	// fixed OP_RETURN shapes named in the property
	for _, h := range []string{"6a", "6a01", "6a0102", "6a4c", "6a4cff01", "006a", "006a4c05", "636a0102", "636a01026851", "636a68", "63686a4c", "686a4c", "68636a4c0a", "516a", "0151", "01ac", "ac", "b2", "6aac", "6a6a6a"} {
		scriptCase("op-return-shape", common.Unhex(h))
	}
	// which opcodes move the conditional depth x OP_RETURN x tails that are not a push sequence (conddepth.go)
	c.PerShard = 700
	if c.Thorough() || search {
		condDepthFamily(4, 3)
	} else {
		condDepthFamily(3, 2)
	}
	c.PerShard = 150
	condDepthRandom(r, map[bool]int{false: 200, true: 8000}[c.Thorough() || search])
	c.PerShard = 8
	longTails(r, []int{2, 75, 76, 255, 256})
	if c.Thorough() {
		c.PerShard = 1
		longTails(r, []int{65535, 65536})
	}
	reusedParserDepth()
	c.PerShard = 150
	// data scripts (OP_RETURN / OP_FALSE OP_RETURN first) whose pushes are printed as numbers up to 4 bytes and as hex
	// beyond, with every combination of two complete pushes of 0..5 bytes (all push forms) before a last push, cut at
	// every position: the cut must show in every decoder whatever was printed before it
	for _, prefix := range [][]byte{{0x6a}, {0x00, 0x6a}} {
		for l1 := 0; l1 <= 5; l1++ {
			for l2 := -1; l2 <= 5; l2++ {
				for form := 0; form < 2; form++ {
					full := append([]byte{}, prefix...)
					for _, l := range []int{l1, l2} {
						if l < 0 {
							continue
						}
						if form == 1 {
							full = append(full, 0x4c)
						}
						full = append(full, byte(l))
						for k := 0; k < l; k++ {
							full = append(full, byte(0x30+l+k))
						}
					}
					full = append(full, 0x05, 'H', 'e', 'l', 'l', 'o')
					if form == 1 && l1%2 == 1 {
						full = append(full[:len(full)-6], 0x4d, 0x05, 0x00, 'H', 'e', 'l', 'l', 'o')
					}
					for k := len(prefix); k <= len(full); k++ {
						scriptCase("data-script/short-pushes-then-cut-at-every-position", full[:k])
					}
				}
			}
		}
	}
	// random bytes
	nRnd := 120
	if c.Thorough() || search {
		nRnd = 20000
	}
	for i := 0; i < nRnd; i++ {
		scriptCase("random-bytes", r.Bytes(3+r.Intn(30)))
	}

	// ---- (5) ASM round trip on its domain; decoders of text on arbitrary strings
	nAsm := 100
	if c.Thorough() || search {
		nAsm = 4000
	}
	asmDomain([]byte{})
	asmDomain([]byte{0x00})
	asmDomain([]byte{0x00, 0x00, 0x6a})
	asmDomain([]byte{0x76, 0x6a})
	for i := 0; i < nAsm; i++ {
		asmDomain(sg.AsmDomain(r, 1+r.Intn(7)))
	}
	for b := 0; b < 256; b++ { // every non-push opcode on its own
		if b == 0 || b > 78 {
			if b != 0x6a {
				asmDomain([]byte{byte(b)})
			}
			asmDomain([]byte{0x51, byte(b), 0x02, 0xaa, 0xbb})
		}
	}
	for _, n := range opNames {
		asmCase("single", n)
	}
	for i := 0; i < nAsm; i++ {
		k := 1 + r.Intn(4)
		var toks []string
		for j := 0; j < k; j++ {
			switch r.Intn(4) {
			case 0:
				toks = append(toks, common.Hex(r.Bytes([]int{0, 1, 2, 20, 75, 76, 255, 256}[r.Intn(8)])))
			default:
				toks = append(toks, opNames[r.Intn(len(opNames))])
			}
		}
		sep := " "
		if r.Chance(10) {
			sep = "  "
		}
		str := strings.Join(toks, sep)
		if r.Chance(8) {
			str = " " + str
		}
		if r.Chance(8) {
			str += " "
		}
		asmCase("tokens", str)
	}
	for _, str := range []string{"", "0", "00", "0g", "AbCdEf", "abcdef", "76a9", "\"76a9\"", "\"\"76a9\"\"", "\"76\"a9\"", "\"", "\"\"", "7", "\"7\"", " 76", "76 ", "0x76", "76A9", "\"76A9", "g0", "00zz", "１２"} {
		hexCase("fixed", str)
	}
	for i := 0; i < nAsm; i++ {
		h := common.Hex(r.Bytes(r.Intn(12)))
		switch r.Intn(6) {
		case 0:
			h = strings.ToUpper(h)
		case 1:
			if len(h) > 0 {
				h = h[:len(h)-1]
			}
		case 2:
			h = "\"" + h + "\""
		case 3:
			k := r.Intn(len(h) + 1)
			h = h[:k] + string(rune("gG \"xz-"[r.Intn(7)])) + h[k:]
		}
		hexCase("random", h)
	}

	// ---- (6) scripts of exactly a standard template's length and head with pushes / cut pushes in the other places (shaped.go)
	c.PerShard = 120
	shapedFamily(r, c.Thorough() || search)

	c.Stats.Rule = "(1) every byte string of length <= 2 run through DecodeParts, Parse (with and without ErrorOnCheckSig), Unparse, ToASM, NewFromASM, hex and JSON on the Go side (65 793; <= 3 bytes in thorough, Go-level predicates only), the model evaluated on all of length <= 1 plus the seed-chosen residue class mod 8 of the 2-byte ones in quick and on all in thorough; (2) EncodeParts/PushDataPrefix/MinPushSize on item lists with lengths 0,1,2,3,74..77,254..257,65535,65536 and random mixes; (3) every push form x every boundary length complete, cut by one byte, cut to the header, cut to one byte, hostile 32-bit lengths, declared lengths at the top of each length field's range (250..255, 0xfffa..0xffff, 0xfffffff9..0xffffffff, 2^31 +- few) with 0/1/3/100 bytes present, zero-length pushes; (4) grammar-generated scripts (non-push opcodes, pushes of all forms incl. non-minimal) with OP_RETURN at top level / inside IF / after a stray ENDIF, truncated at every position, fixed OP_RETURN shapes, random bytes; (4b) conditional depth: every sequence of up to 3 (thorough: 4) tokens from {IF, NOTIF, VERIF, VERNOTIF, ELSE, ENDIF, NOP, VER, VERIFY, RETURN, push of 63, push of 68 6a} followed by OP_RETURN and each of 12 tails (empty, direct / PUSHDATA1 / 2 / 4 headers without their data, a complete push, ENDIF, ENDIF + truncated push, ENDIF RETURN + truncated push, CHECKSIG, CHECKSIG + truncated push) - Go side all, model side all with up to 2 (3) prefix tokens and a seed-chosen sixteenth of the longer ones; random conditional-heavy token sequences + OP_RETURN + random bytes ending in an incomplete push; unformatted tails of 2..256 bytes (65535 / 65536 in thorough); every parse (this family and all others) compared on the Go side with an independent statement of the parser's grammar (tokens, depth moved by IF / NOTIF / ENDIF only, early end at a depth-0 OP_RETURN, ErrorOnCheckSig only at opcode positions); (5) ASM round trip on generated domain scripts and every non-push opcode, NewFromASM / NewFromHexString / UnmarshalJSON on arbitrary token strings; (6) template-shaped scripts: for each of the 17 locking and 3 unlocking script templates of harness/scriptnear (P2PKH, P2PK 33/65, P2SH, bare multisig 0-of-1 .. 16-of-16, both data carriers, four inscriptions, sig+key / sig / OP_0 sigs) the scripts of EXACTLY the template's length in which one byte position (every position of the templates of up to 160 bytes; the ends and token starts of the bigger ones) holds OP_0 / OP_DATA_1 / 2 / 75 / OP_PUSHDATA1 / 2 / 4 / OP_1NEGATE / OP_RETURN / the old byte +- 1 / a direct push reaching exactly to the end, one short, one beyond (thorough: every value), in which the last 1..6 bytes are one push of each form complete / one byte short / far short / cut inside its length field (written over the template as it is, and behind the template's push re-declared to end where they begin), in which the first 1..3 bytes or 1..5 tokens are the template's and the rest is one push of each form reaching the end / one beyond / one short, and in which the last two bytes are every pair of 16 push headers and template opcodes; plus scriptnear's token-level near-misses of the same templates (other lengths) - Go side all, model side the last two positions and the 1..3-byte tails of the small templates and a seed-chosen slice (1/4 .. 1/64) of the rest; every observed script of every family additionally compared on the Go side with an independent statement of DecodeParts' grammar (verdict, tokens), ToASM's [error] marker on every script that ends inside a push, DecodeStringParts = DecodeParts. distinct = distinct input bytes / item-length vector / string; non-trivial = non-empty input"
	checkStream()
	c.Finish()
}
