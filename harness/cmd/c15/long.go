// Long strings (hundreds to hundreds of thousands of characters). The property quantifies over ALL strings; the
// families of main.go stay within a few characters of an address, so every length and count the acceptors handle fits
// in a byte there. Here lengths and counts pass 2^8 and 2^16: runs of '1' before / after / instead of an address, text
// of a wrapping length around an address, an address repeated, payloads whose DECODED length is 25 + 2^8 k or
// 25 + 2^16, values far beyond 2^200 whose low 200 bits are a valid payload, long Base58 bodies. Strings are built
// as expressions (so that a report shows strings.Repeat("1", 256) + "1E7u..." and the model receives
// srep "1" 256 ++ "1E7u..." instead of a literal of 65 536 characters).
package main

import (
	"crypto/sha256"
	"encoding/hex"
	"fmt"
	"math/big"
	"strings"
	"sync"
	"sync/atomic"
	"time"

	"verif/harness/common"
)

// ---------- the codec of the specification for long inputs (math/big's own radix conversion; quadratic loops of
// specEncode / specDecode are kept for everything short and the two are compared with each other at start-up) ----------

const bigDigits58 = "0123456789abcdefghijklmnopqrstuvwxyzABCDEFGHIJKLMNOPQRSTUV"

func specDecodeFast(s string) ([]byte, bool) {
	t := make([]byte, len(s))
	for i := 0; i < len(s); i++ {
		d := strings.IndexByte(alphabet, s[i])
		if d < 0 {
			return nil, false
		}
		t[i] = bigDigits58[d]
	}
	z := 0
	for z < len(s) && s[z] == '1' {
		z++
	}
	x := new(big.Int)
	if z < len(t) {
		if _, ok := x.SetString(string(t[z:]), 58); !ok {
			panic("c15: harness: SetString rejected a base-58 numeral")
		}
	}
	return append(make([]byte, z), x.Bytes()...), true
}

func specEncodeFast(b []byte) string {
	z := 0
	for z < len(b) && b[z] == 0 {
		z++
	}
	x := new(big.Int).SetBytes(b)
	if x.Sign() == 0 {
		return strings.Repeat("1", z)
	}
	t := []byte(x.Text(58))
	for i, ch := range t {
		t[i] = alphabet[strings.IndexByte(bigDigits58, ch)]
	}
	return strings.Repeat("1", z) + string(t)
}

func specDecodeAny(s string) ([]byte, bool) {
	if len(s) > 64 {
		return specDecodeFast(s)
	}
	return specDecode(s)
}

func specEncodeAny(b []byte) string {
	if len(b) > 64 {
		return specEncodeFast(b)
	}
	return specEncode(b)
}

// the two codecs of the specification agree (a harness self-test, not a statement about the library)
func codecSelfTest(r *common.Rand) {
	for i := 0; i < 40; i++ {
		b := append(make([]byte, r.Intn(3)), r.Bytes(r.Intn(300))...)
		e := specEncode(b)
		d, ok := specDecodeFast(e)
		d2, ok2 := specDecode(e)
		if e != specEncodeFast(b) || !ok || !ok2 || hex.EncodeToString(d) != hex.EncodeToString(b) || hex.EncodeToString(d2) != hex.EncodeToString(b) {
			panic(fmt.Sprintf("c15: harness: the two Base58 codecs of the specification disagree on %x", b))
		}
	}
}

// ---------- strings as expressions ----------

type lstr struct{ s, expr, coq string }

func lit(x string) lstr {
	if x == "" {
		return lstr{"", `""`, `""`}
	}
	return lstr{x, fmt.Sprintf("%q", x), coqText(x)}
}

func rep(u string, n int) lstr {
	return lstr{strings.Repeat(u, n), fmt.Sprintf("strings.Repeat(%q, %d)", u, n), fmt.Sprintf("(srep %s %d)", coqText(u), n)}
}

func cat(ls ...lstr) lstr {
	var o lstr
	var es []string
	for i := len(ls) - 1; i >= 0; i-- {
		l := ls[i]
		if l.s == "" {
			continue
		}
		o.s = l.s + o.s
		es = append([]string{l.expr}, es...)
		if o.coq == "" {
			o.coq = l.coq
		} else {
			o.coq = "(String.append " + l.coq + " " + o.coq + ")"
		}
	}
	if o.coq == "" {
		return lit("")
	}
	o.expr = strings.Join(es, " + ")
	return o
}

// text of exactly n characters made of a short word repeated (so it has a short expression)
func filler(word string, n int) lstr {
	return cat(rep(word, n/len(word)), lit(word[:n%len(word)]))
}

func (l lstr) shown() interface{} {
	if len(l.s) <= 160 {
		return fmt.Sprintf("%q", l.s)
	}
	d := sha256.Sum256([]byte(l.s))
	return map[string]interface{}{"go_expr": l.expr, "length": len(l.s), "sha256": hex.EncodeToString(d[:])}
}

// ---------- jobs ----------

type longJob struct {
	kind   string
	l      lstr
	toCoq  bool
	change bool // also through ChangeToAddress
	o      obs
	vs     [][2]string
	state  int32 // 0 waiting, 1 with the acceptors, 2 answered
}

var longJobs []*longJob

func longCase(kind string, l lstr, toCoq, change bool) {
	longJobs = append(longJobs, &longJob{kind: kind, l: l, toCoq: toCoq, change: change})
}

// cost of one case on the model, in the unit of c.ShardBytes: the big-number part is quadratic in the number of
// characters after the leading '1's (three acceptors each decode it), the run of '1's is linear
func modelWeight(s string) int {
	z := 0
	for z < len(s) && s[z] == '1' {
		z++
	}
	body := len(s) - z
	for i := 0; i < len(s); i++ {
		if strings.IndexByte(alphabet, s[i]) < 0 {
			body = 0 // an invalid character ends every decoder before any arithmetic
			break
		}
	}
	return body*body/8 + len(s)/5
}

// runLongJobs: the acceptors answer for all strings (eight at a time: a decoder of go-bk is quadratic in the length),
// then the answers are judged and recorded one after the other in the order the cases were generated.
func runLongJobs(patience time.Duration) {
	var wg sync.WaitGroup
	next := make(chan *longJob)
	for w := 0; w < 8; w++ {
		wg.Add(1)
		go func() {
			defer wg.Done()
			for j := range next {
				atomic.StoreInt32(&j.state, 1)
				j.o = observeWith(j.l.s, func(site, what string) { j.vs = append(j.vs, [2]string{site, what}) })
				atomic.StoreInt32(&j.state, 2)
			}
		}()
	}
	finished := make(chan struct{})
	go func() {
		for _, j := range longJobs {
			next <- j
		}
		close(next)
		wg.Wait()
		close(finished)
	}()
	select {
	case <-finished:
	case <-time.After(patience):
		// an acceptor that does not come back (a loop whose counter wraps around before it reaches the length): the strings
		// being handled are the failing inputs; the goroutines are left behind and end with the process
		for _, j := range longJobs {
			if atomic.LoadInt32(&j.state) == 1 {
				violate("address-acceptors/no-answer-on-long-string", fmt.Sprintf("ValidateAddress / NewAddressFromString / NewP2PKHFromAddress / PayToAddress: no answer within %v", patience), j.l.shown())
			}
		}
	}
	maxLen := 0
	for _, j := range longJobs {
		if atomic.LoadInt32(&j.state) != 2 {
			continue
		}
		q := j.l.shown()
		for _, v := range j.vs {
			violate(v[0], v[1], q)
		}
		coq := ""
		if j.toCoq {
			coq = j.l.coq
			c.Weigh(modelWeight(j.l.s))
		}
		d := sha256.Sum256([]byte(j.l.s))
		stringCaseAs("long/"+j.kind, j.l.s, q, coq, "L|"+string(d[:]), &j.o)
		if j.change {
			changeCaseAs(j.l.s, q)
		}
		if len(j.l.s) > maxLen {
			maxLen = len(j.l.s)
		}
	}
	c.Stats.Extra["long_strings"] = len(longJobs)
	c.Stats.Extra["longest_string"] = maxLen
	longJobs = nil
}

// counts and lengths around the widths a counter can have
var wrapQuick = []int{25, 33, 34, 35, 127, 128, 129, 254, 255, 256, 257, 258, 511, 512, 513, 768, 1024, 4096, 16384, 65535, 65536, 65537, 65536 + 256}
var wrapFew = []int{255, 256, 257, 512, 65536}
var wrapThorough = []int{1280, 2048, 8192, 16384, 32767, 32769, 65534, 65538, 65536 + 255, 65536 + 257, 65536 + 512, 131071, 131072, 131073, 196608, 262144}

// what the model is asked too: runs of '1' of any length (linear), bodies up to about 300 characters (quadratic)
const modelBody = 300

func longStrings(r *common.Rand, base []string, th bool) {
	codecSelfTest(r)
	word := func() string { // a random word over the alphabet without '1', 29 characters (29 is coprime to every power of two)
		w := make([]byte, 29)
		for i := range w {
			w[i] = alphabet[1+r.Intn(57)]
		}
		return string(w)
	}
	// Strings of 2^16 characters and more cost a third of a second per acceptor (go-bk decodes in quadratic time): the quick
	// tier asks one address for each family there (big = true), the thorough tier all of them.
	for bi, a := range base {
		A := lit(a)
		first := bi == 0
		wide := bi == 0 || bi == 2 || bi == 4 // a mainnet address, a testnet address, the address of the all-zero hash (21 leading '1's)
		pay, _ := specDecode(a)
		big16 := func(n int, quickToo bool) bool { return n < 20000 || th || quickToo } // is a case of this size run in this tier?

		// 1. n x '1' before the address: the payload gains n zero bytes, the string n characters
		ns := wrapFew
		if wide || th {
			ns = wrapQuick
		}
		if th {
			ns = append(append([]int{}, ns...), wrapThorough...)
		}
		for _, n := range ns {
			if !big16(n, (first && n <= 65537) || (bi == 2 && n == 65536)) {
				continue
			}
			longCase("ones-prepended", cat(rep("1", n), A), n <= 65537, n == 256 || (th && first && n == 65536))
		}
		// 2. n x '1' after it / in the middle (the value is multiplied by 58^n; nothing else changes but the length)
		for _, n := range []int{256, 512, 65536} {
			if !big16(n, false) || (n == 512 && !wide && !th) {
				continue
			}
			longCase("ones-appended", cat(A, rep("1", n)), first && n == 256, false)
			if first || th {
				longCase("ones-inserted", cat(lit(a[:len(a)/2]), rep("1", n), lit(a[len(a)/2:])), false, false)
			}
		}
		// 3. text of a wrapping length before / after the address: other Base58 characters, blanks, NUL bytes, the
		// address itself cut to size (a length kept in a narrow integer sees only the address)
		w := word()
		for _, n := range []int{256, 512, 65536} {
			if n == 512 && !wide && !th {
				continue
			}
			for k, f := range []lstr{filler(w, n), filler(" ", n), filler("\x00", n), filler(a, n)} {
				cheap := k == 1 || k == 2 // a character outside the alphabet ends every decoder at once
				toCoq := (n == 256 && first) || cheap
				if big16(n, (cheap && wide) || (first && k == 0)) {
					longCase("wrapping-suffix", cat(A, f), toCoq, first && n == 256 && k == 0)
				}
				if big16(n, (cheap && wide) || (first && k == 3)) {
					longCase("wrapping-prefix", cat(f, A), toCoq && k != 0, false)
				}
			}
		}
		// 4. the address repeated: 3, 4, 8, 16 times, the first count > 1 whose total length is the address's own
		// modulo 256, 257 times; with a separator
		ks := []int{3, 4, 8, 16, 257}
		for k := 2; k < 600; k++ {
			if (k-1)*len(a)%256 == 0 {
				ks = append(ks, k)
				break
			}
		}
		if th {
			ks = append(ks, 32, 64, 128, 256, 512, 1024, 1928)
		}
		for _, k := range ks {
			if k > 16 && !wide && !th {
				continue
			}
			longCase("address-repeated", rep(a, k), (first || th) && k*len(a) <= modelBody, false)
		}
		for _, sep := range []string{"\x00", ",", "\n", " ", ";"} {
			longCase("address-repeated", cat(A, lit(sep), A), true, false)
			longCase("address-repeated", cat(A, lit(sep)), true, false)
		}
		// 5. the same 25 bytes plus m * 2^200 with m so large that the string has the address's length plus 2^8 /
		// 2^16, or exactly 256 / 512 characters (cf. the family overflow-2^200 for small m)
		for _, L := range []int{len(a) + 256, 256, 512, len(a) + 65536} {
			if !big16(L, first) {
				continue
			}
			lo := new(big.Int).Exp(big.NewInt(58), big.NewInt(int64(L-1)), nil)
			for try := 0; try < 20; try++ {
				m := new(big.Int).Mul(lo, big.NewInt(int64(2+r.Intn(50))))
				m.Add(m, new(big.Int).SetBytes(r.Bytes(24)))
				m.Rsh(m, 200).Lsh(m, 200)
				m.Add(m, new(big.Int).SetBytes(pay))
				if s := specEncodeFast(m.Bytes()); len(s) == L {
					longCase("overflow-2^200-long", lit(s), first && L <= modelBody, false)
					break
				}
			}
		}
		// 6. payloads whose DECODED length is 25 + 2^8 k or 25 + 2^16, first byte a supported version: the 25 valid
		// bytes followed by zero / random bytes; version, hash, padding and a checksum over all but the last four bytes
		// (Base58Check of the wrong length); 2^8 k random bytes between the version and the rest of the valid payload
		for _, extra := range []int{256, 512, 65536} {
			if extra == 512 && !wide && !th {
				continue
			}
			body := append(append([]byte{}, pay[:21]...), r.Bytes(extra)...)
			p3 := append(body, sha256d(body)[:4]...)
			for k, p := range [][]byte{append(append([]byte{}, pay...), make([]byte, extra)...), append(append([]byte{}, pay...), r.Bytes(extra)...), p3,
				append(append([]byte{pay[0]}, r.Bytes(extra)...), pay[1:]...)} {
				if big16(extra, false) {
					longCase("payload-of-wrapping-length", lit(specEncodeAny(p)), first && extra == 256 && k == 2, first && extra == 256 && k == 2)
				}
			}
		}
	}
	// 7. nothing but '1's: n zero bytes (version 00, hash and checksum zero): n = 25 + 2^8 k, 25 + 2^16 and neighbours
	for _, n := range []int{27, 35, 255, 256, 257, 280, 281, 282, 537, 1049, 65536, 65560, 65561, 65562, 65536 + 256 + 25} {
		if n < 20000 || th {
			longCase("ones-only", rep("1", n), true, n == 281)
		}
	}
	// 8. long bodies: one character repeated, a random word repeated, with and without leading '1's
	ls := []int{36, 50, 64, 255, 256, 257, 290, 1000, 4096, 65536}
	if th {
		ls = append(ls, 100, 128, 512, 2048, 16384, 32768, 65535, 65537, 131072)
	}
	for _, n := range ls {
		w := word()
		longCase("long-body", rep("z", n), n <= modelBody, false)
		longCase("long-body", cat(filler(w, n-1), lit("0")), n <= 4096, false) // the character outside the alphabet comes last
		if n > 20000 && !th {
			continue
		}
		longCase("long-body", filler(w, n), n <= modelBody && n%2 == 0, n == 256)
		longCase("long-body", cat(lit("1"), filler(w, n-1)), false, false)
		longCase("long-body", cat(rep("1", n), filler(w, 33)), n <= 4096, false)
	}
	patience := 2 * time.Minute
	if th {
		patience = 15 * time.Minute
	}
	runLongJobs(patience)
}
