// c15: addresses and P2PKH construction — cases for the Coq model plus the property stated directly
// in Go (round trips, agreement of the constructors, accept <=> Base58Check for every acceptor).
package main

import (
	"bytes"
	"crypto/sha256"
	"encoding/hex"
	"fmt"
	"math/big"
	"strings"
	"sync"

	"github.com/libsv/go-bk/base58"
	"github.com/libsv/go-bk/bec"
	"github.com/libsv/go-bt/v2"
	"github.com/libsv/go-bt/v2/bscript"
	"golang.org/x/crypto/ripemd160" //nolint:staticcheck // independent HASH160 for the Go-level predicates

	"verif/harness/common"
)

var c *common.Ctx

const header = `From Coq Require Import List NArith String.
From Coq Require Import Strings.Byte.
From GoBT Require Import model.Tx spec.FeeSpec model.Fees corr.FeeCorr.
From GoBT Require Import lib.Bytes lib.Hex lib.Str model.Address corr.C15.
Import ListNotations. Local Open Scope N_scope. Local Open Scope string_scope.
`

// ---------- Coq literals ----------

func coqText(s string) string {
	for i := 0; i < len(s); i++ {
		if s[i] < 0x20 || s[i] > 0x7e {
			return "(string_of_bytes " + common.CoqBytes([]byte(s)) + ")"
		}
	}
	return common.CoqStr(s)
}
func coqOptBytes(b []byte, ok bool) string {
	if !ok {
		return "None"
	}
	return "(Some " + common.CoqBytes(b) + ")"
}
func coqOptText(s string, ok bool) string {
	if !ok {
		return "None"
	}
	return "(Some " + coqText(s) + ")"
}

// ---------- the specification, written independently of go-bt and go-bk ----------

const alphabet = "123456789ABCDEFGHJKLMNPQRSTUVWXYZabcdefghijkmnopqrstuvwxyz"

func sha256d(b []byte) []byte {
	a := sha256.Sum256(b)
	d := sha256.Sum256(a[:])
	return d[:]
}
func hash160(b []byte) []byte {
	a := sha256.Sum256(b)
	r := ripemd160.New()
	r.Write(a[:])
	return r.Sum(nil)
}

// specEncode: one '1' per leading zero byte, then the number in base 58
func specEncode(b []byte) string {
	z := 0
	for z < len(b) && b[z] == 0 {
		z++
	}
	x := new(big.Int).SetBytes(b)
	var digits []byte
	r := new(big.Int)
	k := big.NewInt(58)
	for x.Sign() > 0 {
		x.DivMod(x, k, r)
		digits = append([]byte{alphabet[r.Int64()]}, digits...)
	}
	return strings.Repeat("1", z) + string(digits)
}

// specDecode: inverse of specEncode on strings over the alphabet
func specDecode(s string) ([]byte, bool) {
	x := new(big.Int)
	k := big.NewInt(58)
	for i := 0; i < len(s); i++ {
		d := strings.IndexByte(alphabet, s[i])
		if d < 0 {
			return nil, false
		}
		x.Mul(x, k)
		x.Add(x, big.NewInt(int64(d)))
	}
	z := 0
	for z < len(s) && s[z] == '1' {
		z++
	}
	return append(make([]byte, z), x.Bytes()...), true
}

func specAddress(version byte, h []byte) string {
	p := append([]byte{version}, h...)
	return specEncode(append(p, sha256d(p)[:4]...))
}

type class int

const (
	valid         class = iota
	wrongChecksum       // Base58 of 25 bytes with a supported version, only the checksum is wrong
	malformed           // anything else
)

// classify: is s = Base58(version || h || first4(sha256d(version || h))), version 00/6f, |h| = 20 ?
func classify(s string) (class, []byte) {
	p, ok := specDecodeAny(s)
	if !ok || len(p) != 25 || (p[0] != 0x00 && p[0] != 0x6f) {
		return malformed, nil
	}
	if specEncode(p) != s { // cannot happen (the codec is a bijection); kept as a guard
		return malformed, nil
	}
	if !bytes.Equal(p[21:], sha256d(p[:21])[:4]) {
		return wrongChecksum, p[1:21]
	}
	return valid, p[1:21]
}

func p2pkh(h []byte) []byte {
	return append(append([]byte{0x76, 0xa9, 0x14}, h...), 0x88, 0xac)
}

// ---------- bounded violation recording ----------

var perSite = map[string]int{}

func violate(site, what string, input interface{}) {
	perSite[site]++
	if perSite[site] <= 3 {
		c.Violate(site, what, input)
	}
}

var emit = true

func addCase(kind, coq string, twin map[string]interface{}, key string, nontrivial bool) {
	if !emit {
		coq = ""
	}
	twin["kind"] = kind
	c.Tally(kind)
	c.Case(coq, twin, key, nontrivial)
}

// ---------- acceptors on one string ----------

type obs struct {
	validate  bool
	fromOK    bool
	pkh       string
	scriptOK  bool
	script    []byte
	sc        *bscript.Script // the object NewP2PKHFromAddress returned (kept and compared again at the end)
	payOK     bool
	payScript []byte
	addOK     bool
	addScript []byte
}

// observeWith: one string through every acceptor; what is wrong with the answers themselves goes to v (the caller
// decides where: straight to the report, or - when several strings are observed at once - into a list replayed in order)
func observeWith(s string, v func(site, what string)) (o obs) {
	if p, msg := common.Safely(func() {
		ok, err := bscript.ValidateAddress(s)
		o.validate = ok && err == nil
		if ok != (err == nil) {
			v("ValidateAddress/verdict-and-error-disagree", fmt.Sprint(ok, err))
		}
	}); p {
		v("ValidateAddress/panic", msg)
	}
	if p, msg := common.Safely(func() {
		a, err := bscript.NewAddressFromString(s)
		if err == nil && a != nil {
			o.fromOK, o.pkh = true, a.PublicKeyHash
			if a.AddressString != s {
				v("NewAddressFromString/address-string-changed", abbreviate(a.AddressString))
			}
		}
		if err != nil && a != nil && a.PublicKeyHash != "" {
			v("NewAddressFromString/hash-returned-with-error", a.PublicKeyHash)
		}
	}); p {
		v("NewAddressFromString/panic", msg)
	}
	if p, msg := common.Safely(func() {
		sc, err := bscript.NewP2PKHFromAddress(s)
		if err == nil && sc != nil {
			o.scriptOK, o.script, o.sc = true, append([]byte{}, (*sc)...), sc
		}
		if err != nil && sc != nil && len(*sc) > 0 {
			// a refusal hands nothing out: a script that comes back together with the error is a script built from the string
			v("NewP2PKHFromAddress/script-returned-with-error", fmt.Sprintf("%x", []byte(*sc)))
		}
	}); p {
		v("NewP2PKHFromAddress/panic", msg)
	}
	if p, msg := common.Safely(func() {
		tx := bt.NewTx()
		err := tx.PayToAddress(s, 1000)
		if err == nil {
			if len(tx.Outputs) != 1 || tx.Outputs[0].Satoshis != 1000 {
				v("PayToAddress/output-not-appended", "")
			} else {
				o.payOK, o.payScript = true, []byte(*tx.Outputs[0].LockingScript)
			}
		} else if len(tx.Outputs) != 0 {
			v("PayToAddress/output-added-on-error", "")
		}
	}); p {
		v("PayToAddress/panic", msg)
	}
	if len(s) > 20000 {
		// go-bk's decoder is quadratic; PayToAddress is AddP2PKHOutputFromAddress under another name and has just been asked
		o.addOK, o.addScript = o.payOK, o.payScript
		return
	}
	if p, msg := common.Safely(func() {
		tx := bt.NewTx()
		err := tx.AddP2PKHOutputFromAddress(s, 1000)
		if err == nil {
			if len(tx.Outputs) != 1 || tx.Outputs[0].Satoshis != 1000 {
				v("AddP2PKHOutputFromAddress/output-not-appended", "")
			} else {
				o.addOK, o.addScript = true, []byte(*tx.Outputs[0].LockingScript)
			}
		} else if len(tx.Outputs) != 0 {
			v("AddP2PKHOutputFromAddress/output-added-on-error", "")
		}
	}); p {
		v("AddP2PKHOutputFromAddress/panic", msg)
	}
	return
}

func observe(s string, q interface{}) obs {
	return observeWith(s, func(site, what string) { violate(site, what, q) })
}

func abbreviate(s string) string {
	if len(s) > 120 {
		return fmt.Sprintf("%q... (%d bytes)", s[:120], len(s))
	}
	return s
}

// stringCase: the property on one string, for every acceptor; optionally a model case.
func stringCase(kind, s string, toCoq bool) {
	coq := ""
	if toCoq {
		coq = coqText(s)
	}
	stringCaseAs(kind, s, fmt.Sprintf("%q", s), coq, "s|"+s, nil)
}

// stringCaseAs: the same with the way the string is shown in reports (q), written as a Gallina term (coqS; "" = Go side
// only) and keyed given by the caller (long strings are shown and written as expressions, not spelled out); pre, when
// not nil, holds what the acceptors answered (observed beforehand, possibly by several goroutines at once).
func stringCaseAs(kind, s string, q interface{}, coqS, key string, pre *obs) {
	toCoq := coqS != ""
	var o obs
	if pre != nil {
		o = *pre
	} else {
		o = observe(s, q)
	}
	if o.sc != nil {
		retain("NewP2PKHFromAddress", o.script, o.sc)
	}
	cl, h := classify(s)
	isBip := strings.HasPrefix(s, "bitcoin-script:")
	// validation: accept <=> Base58Check (the BIP276 branch belongs to C17)
	if !isBip {
		if o.validate && cl != valid {
			site := "ValidateAddress/accepts-malformed"
			if cl == wrongChecksum {
				site = "ValidateAddress/accepts-wrong-checksum"
			}
			violate(site, "validated although not Base58 of 25 bytes with version 00/6f and first4(sha256d(version||hash)) as the last four", q)
		}
		if !o.validate && cl == valid {
			violate("ValidateAddress/rejects-valid-address", "", q)
		}
	}
	// building a script: accept => Base58Check
	for _, a := range []struct {
		api string
		ok  bool
	}{{"NewAddressFromString", o.fromOK}, {"NewP2PKHFromAddress", o.scriptOK}, {"PayToAddress", o.payOK}, {"AddP2PKHOutputFromAddress", o.addOK}} {
		switch {
		case a.ok && cl == wrongChecksum && a.api == "AddP2PKHOutputFromAddress":
			// PayToAddress is this function under another name: reported there, and the two must agree (below)
		case a.ok && cl == wrongChecksum:
			violate(a.api+"/accepts-wrong-checksum", "accepted although the last four payload bytes are not first4(sha256d(version||hash))", q)
		case a.ok && cl == malformed:
			violate(a.api+"/accepts-malformed", "accepted although not Base58 of 25 bytes with version 00/6f", q)
		case !a.ok && cl == valid:
			violate(a.api+"/rejects-valid-address", "", q)
		}
	}
	if o.scriptOK != o.fromOK || o.payOK != o.fromOK {
		violate("NewP2PKHFromAddress/verdict-differs-from-NewAddressFromString", fmt.Sprint(o.fromOK, o.scriptOK, o.payOK), q)
	}
	if o.addOK != o.payOK || !bytes.Equal(o.addScript, o.payScript) {
		violate("AddP2PKHOutputFromAddress/differs-from-PayToAddress", fmt.Sprintf("%v %x / %v %x", o.addOK, o.addScript, o.payOK, o.payScript), q)
	}
	if cl != malformed { // whatever is accepted must carry the hash the string encodes
		if o.fromOK && o.pkh != hex.EncodeToString(h) {
			violate("NewAddressFromString/wrong-hash", o.pkh, q)
		}
		if o.scriptOK && !bytes.Equal(o.script, p2pkh(h)) {
			violate("NewP2PKHFromAddress/wrong-script", hex.EncodeToString(o.script), q)
		}
		if o.payOK && !bytes.Equal(o.payScript, p2pkh(h)) {
			violate("PayToAddress/wrong-script", hex.EncodeToString(o.payScript), q)
		}
		if o.addOK && !bytes.Equal(o.addScript, p2pkh(h)) {
			violate("AddP2PKHOutputFromAddress/wrong-script", hex.EncodeToString(o.addScript), q)
		}
	}
	coq := ""
	if toCoq {
		coq = fmt.Sprintf("CString %s %s %s %s %s", coqS, common.CoqBool(o.validate), coqOptText(o.pkh, o.fromOK),
			coqOptBytes(o.script, o.scriptOK), coqOptBytes(o.payScript, o.payOK))
	}
	cls := map[class]string{valid: "valid", wrongChecksum: "wrong-checksum", malformed: "malformed"}[cl]
	addCase("string/"+kind+"/"+cls, coq, map[string]interface{}{"string": q, "validate": o.validate, "from_string": o.fromOK}, key, len(s) >= 20)
}

// changeCase: ChangeToAddress routes the string through NewP2PKHFromAddress
func changeCase(s string) { changeCaseAs(s, fmt.Sprintf("%q", s)) }

func changeCaseAs(s string, q interface{}) {
	_, e0 := bscript.NewP2PKHFromAddress(s)
	if p, msg := common.Safely(func() {
		tx := bt.NewTx()
		if err := tx.From("3c8edde27cb9a9132c22038dac4391496be9db16fd21351565cc1006966fdad5", 0, "76a914eb0bd5edba389198e73f8efabddfc61666969ff788ac", 100000); err != nil {
			panic(err)
		}
		err := tx.ChangeToAddress(s, bt.NewFeeQuote())
		if (err == nil) != (e0 == nil) {
			violate("ChangeToAddress/verdict-differs-from-NewP2PKHFromAddress", fmt.Sprint(err, e0), q)
		}
		if err == nil {
			if _, h := classify(s); h != nil && (len(tx.Outputs) != 1 || !bytes.Equal(*tx.Outputs[0].LockingScript, p2pkh(h))) {
				violate("ChangeToAddress/wrong-script", "", q)
			}
		} else if len(tx.Outputs) != 0 {
			violate("ChangeToAddress/output-added-on-error", "", q)
		}
	}); p {
		violate("ChangeToAddress/panic", msg, q)
	}
}

// ---------- hashes, keys, scripts ----------

func hashCase(h []byte, mainnet bool, toCoq bool) string {
	in := map[string]interface{}{"hash": hex.EncodeToString(h), "mainnet": mainnet}
	a, err := bscript.NewAddressFromPublicKeyHash(h, mainnet)
	if err != nil {
		violate("NewAddressFromPublicKeyHash/error", err.Error(), in)
		return ""
	}
	version := byte(0x6f)
	if mainnet {
		version = 0
	}
	if len(h) == 20 {
		if a.AddressString != specAddress(version, h) {
			violate("NewAddressFromPublicKeyHash/not-base58check", a.AddressString, in)
		}
		// decodes back to the same hash and validates
		b, err := bscript.NewAddressFromString(a.AddressString)
		if err != nil || b.PublicKeyHash != hex.EncodeToString(h) || b.AddressString != a.AddressString {
			violate("NewAddressFromString/address-roundtrip", fmt.Sprint(err), in)
		}
		if ok, err := bscript.ValidateAddress(a.AddressString); !ok || err != nil {
			violate("ValidateAddress/rejects-derived-address", fmt.Sprint(err), in)
		}
		// all constructors agree on the canonical script; hash and address are recovered
		want := p2pkh(h)
		s1, e1 := bscript.NewP2PKHFromPubKeyHash(h)
		s2, e2 := bscript.NewP2PKHFromPubKeyHashStr(hex.EncodeToString(h))
		s3, e3 := bscript.NewP2PKHFromAddress(a.AddressString)
		tx := bt.NewTx()
		e4 := tx.AddP2PKHOutputFromPubKeyHashStr(hex.EncodeToString(h), 5)
		e5 := tx.AddP2PKHOutputFromAddress(a.AddressString, 6)
		if e1 != nil || e2 != nil || e3 != nil || e4 != nil || e5 != nil {
			violate("NewP2PKHFrom*/error-on-valid-input", fmt.Sprint(e1, e2, e3, e4, e5), in)
		} else if !bytes.Equal(*s1, want) || !bytes.Equal(*s2, want) || !bytes.Equal(*s3, want) ||
			!bytes.Equal(*tx.Outputs[0].LockingScript, want) || !bytes.Equal(*tx.Outputs[1].LockingScript, want) {
			violate("NewP2PKHFrom*/constructors-disagree", fmt.Sprintf("%x %x %x", *s1, *s2, *s3), in)
		} else {
			retain("hash constructors", want, s1, s2, s3, tx.Outputs[0].LockingScript, tx.Outputs[1].LockingScript)
			// the owner of a result edits it (extends it, overwrites a byte); what the constructors hand out next is unaffected
			for k, mk := range []func() (*bscript.Script, error){
				func() (*bscript.Script, error) { return bscript.NewP2PKHFromAddress(a.AddressString) },
				func() (*bscript.Script, error) { return bscript.NewP2PKHFromPubKeyHash(h) },
				func() (*bscript.Script, error) { return bscript.NewP2PKHFromPubKeyHashStr(hex.EncodeToString(h)) },
			} {
				if o1, err := mk(); err == nil && o1 != nil && len(*o1) > 3 {
					(*o1)[3] ^= 0xff
					_ = o1.AppendOpcodes(bscript.OpDROP)
					_ = o1.AppendPushData([]byte("invoice 42"))
				}
				o2, err := mk()
				t2 := bt.NewTx()
				e2 := t2.AddP2PKHOutputFromAddress(a.AddressString, 7)
				if err != nil || o2 == nil || !bytes.Equal(*o2, want) || e2 != nil || !bytes.Equal(*t2.Outputs[0].LockingScript, want) {
					violate("NewP2PKHFrom*/result-depends-on-edits-of-an-earlier-result", fmt.Sprintf("constructor %d after its earlier result was edited by its owner", k), in)
				}
			}
			sc := bscript.Script(want)
			got, err := sc.PublicKeyHash()
			if err != nil || !bytes.Equal(got, h) {
				violate("PublicKeyHash/hash-not-recovered", fmt.Sprintf("%x %v", got, err), in)
			}
			ad, err := sc.Addresses()
			if err != nil || len(ad) != 1 || ad[0] != specAddress(0, h) {
				violate("Addresses/address-not-recovered", fmt.Sprint(ad, err), in)
			}
			if !sc.IsP2PKH() {
				violate("IsP2PKH/canonical-script-not-recognised", "", in)
			}
		}
	}
	coq := ""
	if toCoq {
		coq = fmt.Sprintf("CAddrHash %s %s %s %s", common.CoqBytes(h), common.CoqBool(mainnet), coqText(a.AddressString), coqText(a.PublicKeyHash))
	}
	in["address"] = a.AddressString
	addCase(fmt.Sprintf("address-from-hash/len=%d", len(h)), coq, in, fmt.Sprintf("h|%x|%v", h, mainnet), len(h) == 20)
	return a.AddressString
}

func keyCase(seed []byte, mainnet bool) {
	_, pub := bec.PrivKeyFromBytes(bec.S256(), seed)
	k := pub.SerialiseCompressed()
	in := map[string]interface{}{"pubkey": hex.EncodeToString(k), "mainnet": mainnet}
	h := hash160(k)
	version := byte(0x6f)
	if mainnet {
		version = 0
	}
	a, err := bscript.NewAddressFromPublicKey(pub, mainnet)
	if err != nil {
		violate("NewAddressFromPublicKey/error", err.Error(), in)
		return
	}
	a2, err2 := bscript.NewAddressFromPublicKeyString(hex.EncodeToString(k), mainnet)
	if a.AddressString != specAddress(version, h) || a.PublicKeyHash != hex.EncodeToString(h) || err2 != nil || *a2 != *a {
		violate("NewAddressFromPublicKey/not-address-of-hash160", a.AddressString, in)
	}
	b, err := bscript.NewAddressFromString(a.AddressString)
	if err != nil || b.PublicKeyHash != hex.EncodeToString(h) {
		violate("NewAddressFromString/address-roundtrip", fmt.Sprint(err), in)
	}
	if ok, err := bscript.ValidateAddress(a.AddressString); !ok || err != nil {
		violate("ValidateAddress/rejects-derived-address", fmt.Sprint(err), in)
	}
	want := p2pkh(h)
	s1, e1 := bscript.NewP2PKHFromPubKeyEC(pub)
	s2, e2 := bscript.NewP2PKHFromPubKeyBytes(k)
	s3, e3 := bscript.NewP2PKHFromPubKeyStr(hex.EncodeToString(k))
	s4, e4 := bscript.NewP2PKHFromAddress(a.AddressString)
	tx := bt.NewTx()
	e5 := tx.AddP2PKHOutputFromPubKeyBytes(k, 1)
	e6 := tx.AddP2PKHOutputFromPubKeyStr(hex.EncodeToString(k), 2)
	if e1 != nil || e2 != nil || e3 != nil || e4 != nil || e5 != nil || e6 != nil {
		violate("NewP2PKHFrom*/error-on-valid-input", fmt.Sprint(e1, e2, e3, e4, e5, e6), in)
	} else if !bytes.Equal(*s1, want) || !bytes.Equal(*s2, want) || !bytes.Equal(*s3, want) || !bytes.Equal(*s4, want) ||
		!bytes.Equal(*tx.Outputs[0].LockingScript, want) || !bytes.Equal(*tx.Outputs[1].LockingScript, want) {
		violate("NewP2PKHFrom*/constructors-disagree", fmt.Sprintf("%x %x %x %x", *s1, *s2, *s3, *s4), in)
	} else {
		retain("key constructors", want, s1, s2, s3, s4, tx.Outputs[0].LockingScript, tx.Outputs[1].LockingScript)
	}
	coq := fmt.Sprintf("CAddrKey %s %s %s %s", common.CoqBytes(k), common.CoqBool(mainnet), coqText(a.AddressString), coqText(a.PublicKeyHash))
	in["address"] = a.AddressString
	addCase("address-from-key", coq, in, fmt.Sprintf("k|%x|%v", k, mainnet), true)
	if mainnet {
		scriptKeyCase(k)
	}
}

// scripts handed out earlier keep paying whom they paid: every script a constructor returned is kept and
// compared again after all later calls
type kept struct {
	s    *bscript.Script
	want []byte
	how  string
}

var retained []kept

func retain(how string, want []byte, ss ...*bscript.Script) {
	for _, s := range ss {
		if s != nil && len(retained) < 200000 {
			retained = append(retained, kept{s, append([]byte{}, want...), how})
		}
	}
}

func checkRetained() {
	bad := 0
	for _, k := range retained {
		if !bytes.Equal(*k.s, k.want) && bad < 5 {
			bad++
			violate("NewP2PKHFrom*/script-changed-after-later-calls", fmt.Sprintf("%s: built as %x, now %x", k.how, k.want, []byte(*k.s)), map[string]interface{}{"kind": "retained-script", "how": k.how})
		}
	}
	c.Stats.Extra["retained_scripts_rechecked"] = len(retained)
}

// concurrentDerivation: the constructors are functions of their arguments also when several goroutines call them at once
// (a shared scratch buffer or hash state would show here and nowhere in a sequential run).
func concurrentDerivation(hashes [][]byte, rounds int) {
	type want struct{ main, test string }
	ws := make([]want, len(hashes))
	for i, h := range hashes {
		ws[i] = want{specAddress(0, h), specAddress(0x6f, h)}
	}
	var wg sync.WaitGroup
	var mu sync.Mutex
	bad, total := 0, 0
	for g := 0; g < 8; g++ {
		wg.Add(1)
		go func(g int) {
			defer wg.Done()
			n := 0
			for k := 0; k < rounds; k++ {
				for i, h := range hashes {
					if len(h) != 20 {
						continue
					}
					mainnet := (i+g+k)%2 == 0
					exp := ws[i].test
					if mainnet {
						exp = ws[i].main
					}
					var got, msg string
					panicked, pm := common.Safely(func() {
						a, err := bscript.NewAddressFromPublicKeyHash(h, mainnet)
						if err != nil {
							msg = err.Error()
							return
						}
						got = a.AddressString
						if ok, err := bscript.ValidateAddress(got); !ok {
							msg = "does not validate: " + fmt.Sprint(err)
						}
						if s, err := bscript.NewP2PKHFromAddress(got); err != nil || !bytes.Equal(*s, p2pkh(h)) {
							msg += " NewP2PKHFromAddress: " + fmt.Sprint(err)
						}
					})
					n++
					if panicked || got != exp || msg != "" {
						mu.Lock()
						bad++
						if bad <= 3 {
							violate("NewAddressFromPublicKeyHash/differs-under-concurrent-callers", fmt.Sprintf("got %q want %q %s %s", got, exp, msg, pm), map[string]interface{}{"kind": "concurrent-derivation", "hash": hex.EncodeToString(h), "mainnet": mainnet, "goroutines": 8})
						}
						mu.Unlock()
					}
				}
			}
			mu.Lock()
			total += n
			mu.Unlock()
		}(g)
	}
	wg.Wait()
	c.Stats.Extra["concurrent_derivations"] = total
}

func scriptKeyCase(k []byte) {
	var sc *bscript.Script
	var err error
	if p, msg := common.Safely(func() { sc, err = bscript.NewP2PKHFromPubKeyBytes(k) }); p {
		violate("NewP2PKHFromPubKeyBytes/panic", msg, hex.EncodeToString(k))
		return
	}
	ok := err == nil
	var b []byte
	if ok {
		b = *sc
		if len(k) != 33 {
			violate("NewP2PKHFromPubKeyBytes/accepts-wrong-key-length", "", hex.EncodeToString(k))
		} else if !bytes.Equal(b, p2pkh(hash160(k))) {
			violate("NewP2PKHFromPubKeyBytes/wrong-script", hex.EncodeToString(b), hex.EncodeToString(k))
		}
	} else if len(k) == 33 {
		violate("NewP2PKHFromPubKeyBytes/rejects-33-byte-key", err.Error(), hex.EncodeToString(k))
	}
	addCase(fmt.Sprintf("script-from-key/len=%d", len(k)), fmt.Sprintf("CScriptKey %s %s", common.CoqBytes(k), coqOptBytes(b, ok)),
		map[string]interface{}{"pubkey": hex.EncodeToString(k), "ok": ok}, fmt.Sprintf("sk|%x", k), ok)
}

func keyStrCase(kh string, mainnet bool) {
	a, err := bscript.NewAddressFromPublicKeyString(kh, mainnet)
	res := "None"
	if err == nil {
		res = fmt.Sprintf("(Some (%s, %s))", coqText(a.AddressString), coqText(a.PublicKeyHash))
	}
	addCase("address-from-key-string", fmt.Sprintf("CAddrKeyStr %s %s %s", coqText(kh), common.CoqBool(mainnet), res),
		map[string]interface{}{"hex": kh, "ok": err == nil}, "ks|"+kh+fmt.Sprint(mainnet), err == nil)
}

func scriptCase(kind string, s []byte) {
	in := hex.EncodeToString(s)
	sc := bscript.Script(s)
	var pkh []byte
	var pkhErr, adErr error
	var ad []string
	var isp bool
	if p, msg := common.Safely(func() { pkh, pkhErr = sc.PublicKeyHash() }); p {
		violate("PublicKeyHash/panic", msg, in)
		return
	}
	if p, msg := common.Safely(func() { isp = sc.IsP2PKH() }); p {
		violate("IsP2PKH/panic", msg, in)
		return
	}
	if p, msg := common.Safely(func() { ad, adErr = sc.Addresses() }); p {
		violate("Addresses/panic", msg, in)
		return
	}
	canonical := len(s) == 25 && s[0] == 0x76 && s[1] == 0xa9 && s[2] == 0x14 && s[23] == 0x88 && s[24] == 0xac
	if isp != canonical {
		violate("IsP2PKH/not-the-canonical-template", fmt.Sprint(isp), in)
	}
	if canonical {
		if pkhErr != nil || !bytes.Equal(pkh, s[3:23]) {
			violate("PublicKeyHash/hash-not-recovered", fmt.Sprintf("%x %v", pkh, pkhErr), in)
		}
		if adErr != nil || len(ad) != 1 || ad[0] != specAddress(0, s[3:23]) {
			violate("Addresses/address-not-recovered", fmt.Sprint(ad, adErr), in)
		}
	} else if adErr == nil && len(ad) != 0 {
		violate("Addresses/address-for-non-p2pkh", fmt.Sprint(ad), in)
	}
	adr := "None"
	if adErr == nil {
		var xs []string
		for _, a := range ad {
			xs = append(xs, coqText(a))
		}
		adr = "(Some [" + strings.Join(xs, "; ") + "])"
	}
	coq := fmt.Sprintf("CScript %s %s %s %s", common.CoqBytes(s), coqOptBytes(pkh, pkhErr == nil), common.CoqBool(isp), adr)
	addCase("script/"+kind, coq, map[string]interface{}{"script": in, "pkh_ok": pkhErr == nil, "is_p2pkh": isp}, "sc|"+in, len(s) > 2)
}

func b58Case(b []byte) {
	enc := base58.Encode(b)
	if enc != specEncode(b) {
		violate("base58.Encode/differs-from-specification", enc, hex.EncodeToString(b))
	}
	if dec := base58.Decode(enc); !bytes.Equal(dec, b) {
		violate("base58.Decode/does-not-invert-Encode", hex.EncodeToString(dec), hex.EncodeToString(b))
	}
	addCase("base58/encode", fmt.Sprintf("CB58Enc %s %s", common.CoqBytes(b), coqText(enc)),
		map[string]interface{}{"bytes": hex.EncodeToString(b), "enc": enc}, fmt.Sprintf("be|%x", b), len(b) > 0)
}

func b58DecCase(s string) {
	dec := base58.Decode(s)
	if want, ok := specDecode(s); ok {
		if !bytes.Equal(dec, want) {
			violate("base58.Decode/differs-from-specification", hex.EncodeToString(dec), fmt.Sprintf("%q", s))
		}
		if base58.Encode(dec) != s {
			violate("base58.Encode/does-not-invert-Decode", base58.Encode(dec), fmt.Sprintf("%q", s))
		}
	} else if len(dec) != 0 {
		violate("base58.Decode/non-empty-for-invalid-character", hex.EncodeToString(dec), fmt.Sprintf("%q", s))
	}
	addCase("base58/decode", fmt.Sprintf("CB58Dec %s %s", coqText(s), common.CoqBytes(dec)),
		map[string]interface{}{"string": fmt.Sprintf("%q", s), "dec": hex.EncodeToString(dec)}, "bd|"+s, len(dec) > 0)
}

// ---------- generation ----------

func main() {
	c = common.Parse("C15")
	c.SetHeader(header)
	c.PerShard = 300
	emit = c.Mode == "gen"
	r := common.NewRand(c.Seed)
	th := c.Thorough()
	pick := func(q, t int) int {
		if th {
			return t
		}
		return q
	}

	// 1. base58 itself (go-bk): byte lists with 0..3 leading zero bytes, lengths 0..40; strings over
	// the alphabet with leading '1's; strings with a character outside the alphabet
	for _, b := range [][]byte{{}, {0}, {0, 0}, {1}, {0xff}, {0, 1}, {0x39}, {0x3a}, bytes.Repeat([]byte{0}, 25), bytes.Repeat([]byte{0xff}, 25)} {
		b58Case(b)
	}
	for i := 0; i < pick(120, 3000); i++ {
		b := append(make([]byte, r.Intn(4)), r.Bytes(r.Intn(38))...)
		b58Case(b)
	}
	for _, s := range []string{"", "1", "11", "2", "z", "1z", "zzzzzzzzzzzzzzzzzzzzzzzzzzzzzzzzzzz", "0", "O", "I", "l", "1 ", " 1", "1-2", "abc\n", "\xff"} {
		b58DecCase(s)
	}
	for i := 0; i < pick(80, 2000); i++ {
		n := r.Intn(40)
		sb := []byte(strings.Repeat("1", r.Intn(3)))
		for j := 0; j < n; j++ {
			sb = append(sb, alphabet[r.Intn(58)])
		}
		if r.Chance(15) && len(sb) > 0 {
			sb[r.Intn(len(sb))] = "0OIl +/=_"[r.Intn(9)]
		}
		b58DecCase(string(sb))
	}

	// 2. hashes x 2 networks (boundary hashes first)
	hashes := [][]byte{make([]byte, 20), bytes.Repeat([]byte{0xff}, 20), append([]byte{0}, r.Bytes(19)...), append([]byte{0, 0}, r.Bytes(18)...),
		append([]byte{0, 0, 0}, r.Bytes(17)...), append(r.Bytes(19), 0), common.Unhex("8fe80c75c9560e8b56ed64ea3c26e18d2c52211b"), common.Unhex("eb0bd5edba389198e73f8efabddfc61666969ff7")}
	for i := 0; i < pick(50, 3000); i++ {
		hashes = append(hashes, r.Bytes(20))
	}
	var derived []string
	for _, h := range hashes {
		for _, mainnet := range []bool{true, false} {
			a := hashCase(h, mainnet, true)
			stringCase("derived-address", a, true)
			derived = append(derived, a)
		}
		sh, _ := bscript.NewP2PKHFromPubKeyHash(h)
		addCase("script-from-hash/len=20", fmt.Sprintf("CScriptHash %s %s", common.CoqBytes(h), common.CoqBytes(*sh)),
			map[string]interface{}{"hash": hex.EncodeToString(h)}, fmt.Sprintf("sh|%x", h), true)
		scriptCase("canonical", p2pkh(h))
	}
	for _, l := range []int{0, 1, 19, 21, 32} { // the constructors do not check the hash length (observed, outside the property)
		h := r.Bytes(l)
		hashCase(h, true, true)
		sh, _ := bscript.NewP2PKHFromPubKeyHash(h)
		addCase(fmt.Sprintf("script-from-hash/len=%d", l), fmt.Sprintf("CScriptHash %s %s", common.CoqBytes(h), common.CoqBytes(*sh)),
			map[string]interface{}{"hash": hex.EncodeToString(h)}, fmt.Sprintf("sh|%x", h), false)
		scriptCase("odd-hash-length", *sh)
	}

	// 3. keys x 2 networks; key byte strings of other lengths
	for i := 0; i < pick(40, 2000); i++ {
		seed := r.Bytes(32)
		keyCase(seed, true)
		keyCase(seed, false)
	}
	// keys whose coordinates have leading zero bytes (1 in 256 random keys): fixed-width serialisation edge.
	// Scan small scalars and keep those with a short X or Y.
	edge := 0
	for k := 1; k <= 6000 && edge < pick(6, 24); k++ {
		seed := make([]byte, 32)
		seed[30], seed[31] = byte(k>>8), byte(k)
		_, pub := bec.PrivKeyFromBytes(bec.S256(), seed)
		if len(pub.X.Bytes()) < 32 || len(pub.Y.Bytes()) < 32 {
			edge++
			keyCase(seed, true)
			keyCase(seed, false)
		}
	}
	for _, l := range []int{0, 1, 20, 32, 34, 65} {
		scriptKeyCase(r.Bytes(l))
	}
	scriptKeyCase(append([]byte{0x02}, make([]byte, 32)...)) // 33 bytes that are not a curve point: only the length is checked
	for _, kh := range []string{"", "zz", "02", "0", hex.EncodeToString(r.Bytes(33)), strings.ToUpper(hex.EncodeToString(r.Bytes(33))), hex.EncodeToString(r.Bytes(65)), "026cf33373a9f3f6c676b75b543180703df225f7f8edbffedc417718a8ad4e89ce"} {
		keyStrCase(kh, true)
		keyStrCase(kh, false)
	}

	// 4. strings. Base addresses: mainnet, mainnet with two leading '1's, the two testnet prefixes, the burn address
	base := []string{specAddress(0, hashes[6]), specAddress(0, hashes[2]), specAddress(0x6f, hashes[6]), specAddress(0x6f, hashes[7]), specAddress(0, hashes[0]), specAddress(0, hashes[3])}
	for bi, a := range base {
		stringCase("base", a, true)
		changeCase(a)
		// every single-character substitution (57 x len): Go side always; model side all of them for
		// the first address (and for all in thorough), three per position for the others
		for i := 0; i < len(a); i++ {
			k0 := r.Intn(58)
			for k := 0; k < 58; k++ {
				ch := alphabet[(k0+k)%58]
				if ch == a[i] {
					continue
				}
				toCoq := bi == 0 || th || k < 3
				stringCase("substitution", a[:i]+string(ch)+a[i+1:], toCoq)
			}
		}
		for i := 0; i+1 < len(a); i++ { // adjacent transpositions
			if a[i] != a[i+1] {
				stringCase("transposition", a[:i]+string(a[i+1])+string(a[i])+a[i+2:], true)
			}
		}
		for i := 0; i < len(a); i++ { // deletions
			stringCase("deletion", a[:i]+a[i+1:], true)
		}
		for i := 0; i <= len(a); i++ { // insertions: '1', a random alphabet character; all 58 at three positions
			stringCase("insertion", a[:i]+"1"+a[i:], true)
			stringCase("insertion", a[:i]+string(alphabet[r.Intn(58)])+a[i:], true)
			if i == 0 || i == 1 || i == len(a) {
				for k := 0; k < 58; k++ {
					stringCase("insertion", a[:i]+string(alphabet[k])+a[i:], bi < 2 || th)
				}
			}
		}
		for i := 0; i < len(a); i++ { // characters outside the alphabet
			bad := "0OIl -_\n\x00\xff+/"
			stringCase("non-base58-character", a[:i]+string(bad[(i+bi)%len(bad)])+a[i+1:], true)
			// the four look-alikes the alphabet leaves out, each at every position (a decoder that computes digit values
			// instead of looking them up gives one of them the value of its neighbour)
			for _, ch := range "0OIl" {
				stringCase("excluded-look-alike", a[:i]+string(ch)+a[i+1:], bi == 0 || th || (i+int(ch))%4 == 0)
			}
		}
		for i := 0; i < len(a); i++ { // non-ASCII characters whose code point or bytes resemble the original character
			for k, t := range []string{string(rune(0x100 + int(a[i]))), string(rune(0x400 + int(a[i]))), string(rune(0x4e00 + int(a[i]))),
				string([]byte{a[i] | 0x80}), string([]byte{0xc2, a[i] | 0x80}), string([]byte{a[i], 0xcc, 0x81})} {
				stringCase("non-ascii-lookalike", a[:i]+t+a[i+1:], bi == 0 || th || (i+k)%5 == 0)
			}
		}
		for _, t := range []string{" " + a, a + " ", a + "\n", "\t" + a, a + a, a[:len(a)/2], strings.ToUpper(a), strings.ToLower(a)} {
			stringCase("whitespace-case-halves", t, true)
		}
		// the same 25 bytes plus a multiple of 2^200: strings that decode to 26 bytes whose low 25 bytes are a
		// valid payload with its checksum (an implementation that lets the carry out of the top byte drop
		// accepts them)
		if pay, ok := specDecode(a); ok && len(pay) == 25 {
			for _, k := range []int64{1, 2, 57, 58, 59, 255, 3364, 195112} {
				v := new(big.Int).SetBytes(pay)
				v.Add(v, new(big.Int).Lsh(big.NewInt(k), 200))
				ov := specEncode(v.Bytes())
				stringCase("overflow-2^200", ov, true)
				stringCase("overflow-2^200", "1"+ov, bi == 0)
			}
		}
		// leading '1' inserted / deleted (the canonicity check)
		stringCase("leading-one", "1"+a, true)
		stringCase("leading-one", "11"+a, true)
		stringCase("leading-one", strings.TrimPrefix(a, "1"), true)
		stringCase("leading-one", strings.TrimLeft(a, "1"), true)
	}
	// wrong checksum: right length and version, checksum bytes altered, re-encoded
	for i := 0; i < pick(60, 2000); i++ {
		h := hashes[r.Intn(len(hashes))]
		p := append([]byte{[]byte{0, 0x6f}[r.Intn(2)]}, h...)
		ck := append([]byte{}, sha256d(p)[:4]...)
		switch r.Intn(4) {
		case 0:
			ck[r.Intn(4)] ^= 1 << uint(r.Intn(8))
		case 1:
			ck = r.Bytes(4)
		case 2:
			ck = sha256d(p[1:])[:4] // checksum without the version byte
		default:
			a := sha256.Sum256(p) // single SHA-256
			ck = a[:4]
		}
		s := specEncode(append(p, ck...))
		stringCase("wrong-checksum", s, true)
		if i < 10 {
			changeCase(s)
		}
	}
	for _, s := range []string{"n2wmGVP89x3DsLNqk3NvctfQy9m9pvt7mz", "mywmGVP89x3DsLNqk3NvctfQy9m9pvt7mz", "1E7ucTTWRTahCyViPhxSMor2pj4VGQdFMs"} {
		stringCase("wrong-checksum-pinned", s, true)
	}
	// wrong version bytes with a correct checksum (P2SH and neighbours of the supported values)
	for _, v := range []byte{0x05, 0xc4, 0x01, 0x6e, 0x70, 0x80, 0xef, 0xff} {
		s := specAddress(v, r.Bytes(20))
		stringCase("wrong-version", s, true)
		changeCase(s)
	}
	// wrong lengths with a correct checksum: 24 and 26 bytes (19/21-byte hash; 3/5 checksum bytes), and others
	for _, l := range []int{19, 21, 0, 1, 16, 28, 32} {
		for _, v := range []byte{0, 0x6f} {
			stringCase("wrong-length", specAddress(v, r.Bytes(l)), true)
		}
	}
	for _, v := range []byte{0, 0x6f} {
		p := append([]byte{v}, r.Bytes(20)...)
		stringCase("wrong-length", specEncode(append(p, sha256d(p)[:3]...)), true)
		stringCase("wrong-length", specEncode(append(p, sha256d(p)[:5]...)), true)
		changeCase(specEncode(append(p, sha256d(p)[:3]...)))
	}
	for _, s := range []string{"", "1", "1111111111111111111111111", strings.Repeat("1", 26), strings.Repeat("z", 34), strings.Repeat("z", 35), strings.Repeat("z", 60),
		"2" + strings.Repeat("1", 33), "bitcoin-script:", "bitcoin-script:invalid", "bitcoin-script:0101abcdd5b2b0b9", "bitcoin-scripT", "bitcoin-template:0101f2fc4489",
		"bitcoin-script:0101" + hex.EncodeToString(sha256d([]byte("bitcoin-script:0101"))[:4])} {
		stringCase("other", s, true)
	}
	changeCase("")
	changeCase("bitcoin-script:0101" + hex.EncodeToString(sha256d([]byte("bitcoin-script:0101"))[:4]))

	// 4b. long strings: lengths and counts beyond 2^8 and 2^16 (long.go)
	longStrings(r, base, th)

	// 4c. the transaction methods on transactions in every state, and along histories on one object (txstate.go)
	txStateCases(r, base, th)

	// 5. scripts: mutations of the canonical template, other push encodings of the hash, truncations
	h := hashes[6]
	can := p2pkh(h)
	for i := 0; i <= len(can); i++ {
		scriptCase("truncated", can[:i])
	}
	for _, i := range []int{0, 1, 2, 3, 12, 22, 23, 24} {
		for _, x := range []byte{0x00, 0x01, 0x13, 0x14, 0x15, 0x4b, 0x4c, 0x4d, 0x4e, 0x4f, 0x51, 0x75, 0x76, 0x77, 0x88, 0xa9, 0xac, 0xff} {
			m := append([]byte{}, can...)
			if m[i] != x {
				m[i] = x
				scriptCase("byte-substituted", m)
			}
		}
	}
	tail := []byte{0x88, 0xac}
	cat := func(parts ...[]byte) []byte { return bytes.Join(parts, nil) }
	for _, s := range [][]byte{
		cat([]byte{0x76, 0xa9, 0x4c, 0x14}, h, tail), cat([]byte{0x76, 0xa9, 0x4d, 0x14, 0x00}, h, tail), cat([]byte{0x76, 0xa9, 0x4e, 0x14, 0, 0, 0}, h, tail),
		cat([]byte{0x76, 0xa9, 0x4c}), cat([]byte{0x76, 0xa9, 0x4c, 0x15}, h, tail), cat([]byte{0x76, 0xa9, 0x4d, 0x14}), cat([]byte{0x76, 0xa9, 0x4d, 0xff, 0xff}, h),
		cat([]byte{0x76, 0xa9, 0x4e, 0xff, 0xff, 0xff, 0xff}, h), cat([]byte{0x76, 0xa9, 0x4e, 0x14, 0, 0}), cat([]byte{0x76, 0xa9, 0x4e, 0x00, 0x00, 0x00, 0x80}, h),
		cat(can, []byte{0x6a}), cat(can, can), cat([]byte{0x76, 0xa9, 0x14}, h, []byte{0x88, 0xac, 0x4c}), cat([]byte{0x76, 0xa9, 0x14}, h, []byte{0x88, 0x4b}),
		{0x76, 0xa9, 0x00}, {0x76, 0xa9, 0x00, 0x88, 0xac}, {0x76, 0xa9, 0x51}, {0x76, 0xa9, 0x01}, {0x76, 0xa9, 0x01, 0x02}, {0xa9, 0x76, 0x14}, {0x6a}, {0x00, 0x6a},
		cat([]byte{0xa9, 0x14}, h, []byte{0x87}), cat([]byte{0x21}, r.Bytes(33), []byte{0xac}),
	} {
		scriptCase("other-encodings", s)
	}
	for i := 0; i < pick(80, 3000); i++ {
		s := append([]byte{0x76, 0xa9}, r.Bytes(r.Intn(40))...)
		if r.Chance(30) {
			s = r.Bytes(r.Intn(30))
		}
		scriptCase("random", s)
	}

	c.Stats.Extra["violation_counts_by_site"] = perSite
	c.Stats.Extra["derived_addresses"] = len(derived)
	c.Stats.Rule = "go-bk base58: byte lists (0..3 leading zeros, length 0..40) and alphabet strings incl. invalid characters. Hashes: boundary (all-zero, all-ff, 1..3 leading zero bytes) + seeded random 20-byte hashes x 2 networks; keys: seeded secp256k1 keys x 2 networks (HASH160 recomputed in Gallina); key/hash byte strings of other lengths. Strings: 6 base addresses (mainnet, two leading '1's, both testnet prefixes, burn address) with EVERY single-character substitution (57 x length; model side: all for the first address, 3 per position for the others; thorough: all), all adjacent transpositions, all deletions, insertions at every position ('1' and a random character; all 58 at first/second/last position), a non-Base58 character at every position, the payload plus k*2^200 for eight k (26-byte values whose low 25 bytes are valid), six non-ASCII look-alikes at every position (code points U+0100/U+0400/U+4E00 + the character, the character with the top bit set, a combining accent), whitespace/case variants, leading-'1' insertion/deletion; re-encoded payloads with altered checksum (bit flip, random, checksum without version, single SHA-256), wrong version bytes {05,c4,01,6e,70,80,ef,ff} with right checksum, payload lengths 24/26 and others with right checksum, long/short/empty strings, bitcoin-script texts. Long strings (long.go; written as expressions, the model receives srep terms): n x '1' before each base address for n around 2^8 k and 2^16 (25..258, 511..513, 768, 1024, 4096, 16384, 65535..65537, 65792; thorough: up to 262144), after it and in its middle (256, 512, 65536); text of 256 / 512 / 65536 characters (a random Base58 word repeated, blanks, NUL bytes, the address itself cut to size) after and before the address; the address repeated 3, 4, 8, 16, 257 times and the first count whose total length is the address's own modulo 256, with separators (NUL, comma, newline, blank, semicolon); the payload plus m*2^200 with m chosen so that the string has the address's length + 256 / + 65536 or exactly 256 / 512 characters; payloads whose decoded length is 25 + 256 / 512 / 65536 with a supported first byte (valid 25 bytes then zero / random bytes, Base58Check of the wrong length, padding between version and hash); nothing but 25 + 2^8 k / 2^16 and neighbouring numbers of '1'; bodies of 36..65536 characters (one character, a random word, with leading '1's, an invalid character last). Strings of 2^16 characters: one address per family in quick, all in thorough; model side: every run of '1' up to 65537, bodies up to 300 characters. The acceptors answer for eight long strings at a time; a string none of them comes back from within the patience is reported. Every string goes through ValidateAddress, NewAddressFromString, NewP2PKHFromAddress, PayToAddress, AddP2PKHOutputFromAddress (a sample through ChangeToAddress). Transaction methods on transactions in every state (txstate.go): PayToAddress, AddP2PKHOutputFromAddress and ChangeToAddress with 19 strings (three accepted addresses, two with a wrong checksum only, a character outside the alphabet / a deletion / an insertion at a position drawn per run, first character gone, unsupported version and 24 / 26 bytes with a right checksum, empty, text, trailing blank, leading '1', the address twice, a BIP276 text, a NUL, 256 x '1' before the address; thorough: the edits on 43 addresses) on: bt.NewTx() still empty, a version-2 transaction with a lock time and nothing else, an input and no output, an output and no input, inputs = outputs in five shapes (1/1, 2/3, amounts of 0, an input of 0 and no output, a data output), inputs below the outputs by 1 and by 2^40, an input whose previous script is missing, inputs above the outputs by 1, 2, fee/2, fee - 1 .. fee + 3 (no change / dust / smallest change), 10 fee + 1000, 10^8 where fee is what the quote asks for the transaction with the change output; each under the default quote, a free one, 50 sat/byte, a quote without the standard rate and no quote object (thorough: the nine standard quotes too); amounts paid 0, 1, 546, 1000, 2^63, 2^64 - 1 and exactly what the inputs leave over. Every call is judged against NewP2PKHFromAddress (refused there: refused here and the transaction reads as before; accepted there: one more output with the canonical script, resp. exactly what Tx.Change with that script does on a twin) and against the model (CTxOp: about a sixth of the calls in quick, one in twenty in thorough). Histories: 12 (thorough 400) transaction objects from bt.NewTx() through 5..9 steps drawn from From / PayToAddress / AddP2PKHOutputFromAddress / a payment of exactly what is left / ChangeToAddress / a call with a refused string, probed after every step with three refused strings through the three methods on the same object. Scripts: canonical template, every truncation, byte substitutions at the template positions, PUSHDATA1/2/4 encodings, hostile lengths, random bytes through PublicKeyHash/IsP2PKH/Addresses. Every hash constructor is called again after the owner of its earlier result edited that result; all hashes are derived, validated and turned into scripts again by 8 goroutines at once and compared with the specification. distinct = distinct input (string / bytes / hash+network); non-trivial = strings of at least 20 characters, 20-byte hashes, real keys, scripts longer than 2 bytes, non-empty codec inputs"
	concurrentDerivation(hashes, pick(6, 40))
	checkRetained()
	c.Finish()
}
