// The acceptors that are METHODS OF A TRANSACTION (PayToAddress, AddP2PKHOutputFromAddress, ChangeToAddress) on
// transactions in every state: the families of main.go call them on a fresh bt.NewTx() (ChangeToAddress: on one funded
// transaction with ample change), so a verdict that depends on what the transaction looks like - an early return when
// nothing is left over, when the inputs do not cover the outputs, when there is no output yet - is never seen there.
// Here the transaction is a parameter of the case: still empty, inputs only, outputs only, inputs = outputs (several
// shapes, zero amounts included), inputs above the outputs by a remainder around the fee and the dust limit (no change /
// smallest change / ample change) and below them, an input whose previous script is missing; with the default quote, a
// free one, an expensive one, one without the standard rate, and no quote object at all.  What is asked of every call:
//
//   - a string NewP2PKHFromAddress refuses is refused (error, no panic) in EVERY state, and the transaction - version,
//     inputs, outputs, lock time - reads afterwards as it read before;
//   - a string it accepts gives, for PayToAddress / AddP2PKHOutputFromAddress, exactly one more output (the amount asked
//     for, the canonical script) in every state; for ChangeToAddress exactly what Tx.Change does with that script on a
//     twin of the transaction (same verdict, same transaction afterwards);
//   - the functions that take no transaction (ValidateAddress, NewAddressFromString, NewP2PKHFromAddress) answer after the
//     call as they answered before it.
//
// The same is asked along HISTORIES on one long-lived transaction object built through the API (From, PayToAddress,
// ChangeToAddress, a payment of exactly what is left so that inputs = outputs): after every step the object is probed
// with refused strings (which must leave it alone) and the step itself is judged as above.  A part of the calls (every
// state with accepted and refused strings) is also a case for the model (corr/C15.v CTxOp: model/AddressTx.v composed
// with model/Change.v).
package main

import (
	"fmt"
	"strings"

	"github.com/libsv/go-bt/v2"
	"github.com/libsv/go-bt/v2/bscript"

	"verif/harness/common"
	"verif/harness/feegen"
	"verif/harness/txgen"
)

// ---------- what a transaction reads as (tolerant of half-built outputs) ----------

type txSnap struct {
	Version uint32   `json:"version"`
	Lock    uint32   `json:"lock"`
	Ins     []string `json:"ins"`
	Outs    []string `json:"outs"`
	whole   bool     // every script is there: txgen.FromTx can read it
}

func snapTx(tx *bt.Tx) txSnap {
	s := txSnap{Version: tx.Version, Lock: tx.LockTime, whole: true}
	sc := func(p *bscript.Script) string {
		if p == nil {
			return "<nil>"
		}
		return common.Hex(*p)
	}
	for _, in := range tx.Inputs {
		if in == nil {
			s.Ins, s.whole = append(s.Ins, "<nil input>"), false
			continue
		}
		s.Ins = append(s.Ins, fmt.Sprintf("%x:%d seq=%d sats=%d unlock=%s prev=%s", in.PreviousTxID(), in.PreviousTxOutIndex, in.SequenceNumber,
			in.PreviousTxSatoshis, sc(in.UnlockingScript), sc(in.PreviousTxScript)))
	}
	for _, o := range tx.Outputs {
		if o == nil {
			s.Outs, s.whole = append(s.Outs, "<nil output>"), false
			continue
		}
		if o.LockingScript == nil {
			s.whole = false
		}
		s.Outs = append(s.Outs, fmt.Sprintf("%d:%s", o.Satoshis, sc(o.LockingScript)))
	}
	return s
}

func (a txSnap) diff(b txSnap) string {
	switch {
	case a.Version != b.Version:
		return fmt.Sprintf("version %d, expected %d", a.Version, b.Version)
	case a.Lock != b.Lock:
		return fmt.Sprintf("lock time %d, expected %d", a.Lock, b.Lock)
	case strings.Join(a.Ins, "|") != strings.Join(b.Ins, "|"):
		return fmt.Sprintf("inputs %v, expected %v", a.Ins, b.Ins)
	case strings.Join(a.Outs, "|") != strings.Join(b.Outs, "|"):
		return fmt.Sprintf("outputs %v, expected %v", a.Outs, b.Outs)
	}
	return ""
}

// ---------- one call ----------

type txCall struct {
	op   string        // pay | add | change
	sats uint64        // pay / add
	q    *feegen.Quote // change; nil = no quote object (a nil *bt.FeeQuote)
}

func (k txCall) api() string {
	return map[string]string{"pay": "PayToAddress", "add": "AddP2PKHOutputFromAddress", "change": "ChangeToAddress"}[k.op]
}

func (k txCall) quote() *bt.FeeQuote {
	if k.q == nil {
		return nil
	}
	return k.q.Build()
}

func (k txCall) coq() string {
	switch k.op {
	case "pay":
		return fmt.Sprintf("(OpPay %d)", k.sats)
	case "add":
		return fmt.Sprintf("(OpAdd %d)", k.sats)
	}
	return "(OpChange " + k.q.Coq() + ")"
}

func (k txCall) shown() interface{} {
	if k.op == "change" {
		if k.q == nil {
			return map[string]interface{}{"call": k.api(), "quote": "nil *bt.FeeQuote"}
		}
		return map[string]interface{}{"call": k.api(), "quote": *k.q}
	}
	return map[string]interface{}{"call": k.api(), "satoshis": k.sats}
}

type stateless struct{ validate, from, script bool }

func askStateless(s string) (o stateless) {
	common.Safely(func() { ok, err := bscript.ValidateAddress(s); o.validate = ok && err == nil })
	common.Safely(func() { a, err := bscript.NewAddressFromString(s); o.from = a != nil && err == nil })
	common.Safely(func() { sc, err := bscript.NewP2PKHFromAddress(s); o.script = sc != nil && err == nil })
	return
}

var txCalls, txCoqCases int

// txStep: the call k with the string s on the transaction object tx, which is in the state `state` (a description for the
// report).  Returns whether the call was accepted.  The object is left as the call left it (a history goes on with it).
func txStep(family, state string, tx *bt.Tx, k txCall, s string, q interface{}, toCoq bool) bool {
	txCalls++
	api := k.api()
	before := snapTx(tx)
	in := map[string]interface{}{"kind": "tx-state/" + family, "string": q, "tx_state": state, "tx_before": before, "call": k.shown()}
	if !before.whole {
		// an earlier call of the history left an output without a script: reported there; nothing can be built on it
		return false
	}
	spec := txgen.FromTx(tx)
	sl0 := askStateless(s)
	cl, h := classify(s)

	var err error
	panicked, msg := common.Safely(func() {
		switch k.op {
		case "pay":
			err = tx.PayToAddress(s, k.sats)
		case "add":
			err = tx.AddP2PKHOutputFromAddress(s, k.sats)
		default:
			err = tx.ChangeToAddress(s, k.quote())
		}
	})
	after := snapTx(tx)
	accepted := !panicked && err == nil

	if panicked {
		violate(api+"/panic", msg+" (transaction: "+state+")", in)
	}
	switch {
	case !sl0.script:
		// refused by NewP2PKHFromAddress: refused here, whatever the transaction looks like, and the transaction is left alone
		if accepted {
			site := api + "/verdict-depends-on-tx-state"
			if cl == malformed {
				site = api + "/accepts-malformed"
			}
			violate(site, "nil error for a string NewP2PKHFromAddress refuses, on a transaction in the state: "+state, in)
		}
		if d := after.diff(before); d != "" {
			violate(api+"/tx-modified-by-rejected-call", "after the rejected call ("+state+"): "+d, in)
		}
	case h == nil:
		// accepted by NewP2PKHFromAddress although not even Base58 of 25 bytes: reported by the string families
	case k.op != "change":
		want := before
		want.Outs = append(append([]string{}, before.Outs...), fmt.Sprintf("%d:%x", k.sats, p2pkh(h)))
		if !accepted && !panicked {
			violate(api+"/verdict-depends-on-tx-state", "error for a string NewP2PKHFromAddress accepts, on a transaction in the state: "+state+": "+fmt.Sprint(err), in)
		} else if d := after.diff(want); d != "" && accepted {
			violate(api+"/output-not-appended", "after the accepted call ("+state+"): "+d, in)
		}
	default:
		// Tx.Change with the script of the address on a twin of the transaction, with a quote object of its own
		twin := txgen.Build(spec)
		var twinErr error
		tp, _ := common.Safely(func() { twinErr = twin.Change(bscript.NewFromBytes(p2pkh(h)), k.quote()) })
		if !tp && !panicked {
			if (twinErr == nil) != (err == nil) {
				violate(api+"/verdict-depends-on-tx-state", fmt.Sprintf("%v, but Tx.Change with the script of the address on the same transaction: %v (%s)", err, twinErr, state), in)
			} else if d := after.diff(snapTx(twin)); d != "" {
				site := api + "/differs-from-Change-with-the-address-script"
				if err != nil {
					site = api + "/tx-modified-by-rejected-call"
				}
				violate(site, "("+state+") "+d, in)
			}
		}
	}
	if !accepted && !panicked && k.op != "change" {
		// an error of PayToAddress / AddP2PKHOutputFromAddress: nothing may have been appended (whatever the reason)
		if d := after.diff(before); d != "" && sl0.script {
			violate(api+"/tx-modified-by-rejected-call", "after the rejected call ("+state+"): "+d, in)
		}
	}
	// the functions that take no transaction say afterwards what they said before
	if sl1 := askStateless(s); sl1 != sl0 {
		violate("NewP2PKHFromAddress/verdict-changes-after-a-transaction-method-was-called", fmt.Sprintf("ValidateAddress / NewAddressFromString / NewP2PKHFromAddress before %v, after %s: %v", sl0, api, sl1), in)
	}

	coq := ""
	if toCoq && emit && after.whole && (k.op != "change" || k.q != nil) {
		res := "OPanic"
		if !panicked {
			added := len(after.Outs) != len(before.Outs)
			res = feegen.Obs(false, err, common.CoqBool(added))
		}
		coq = fmt.Sprintf("CTxOp %s %s %s %s %s", feegen.CoqTx(spec), k.coq(), coqText(s), res, feegen.CoqOuts(txgen.FromTx(tx).Outs))
		txCoqCases++
	}
	cls := map[class]string{valid: "valid", wrongChecksum: "wrong-checksum", malformed: "malformed"}[cl]
	addCase("tx-state/"+family+"/"+k.op+"/"+cls, coq, in, fmt.Sprintf("T|%s|%s|%v|%s", state, k.op, k.shown(), s), len(before.Ins)+len(before.Outs) > 0 || len(s) >= 20)
	return accepted
}

// ---------- states ----------

type txState struct {
	name string
	spec txgen.TxSpec
	api  bool // built by bt.NewTx() and nothing else (the object the constructor hands out, not one put together from fields)
}

func (st txState) build() *bt.Tx {
	if st.api {
		return bt.NewTx()
	}
	return txgen.Build(st.spec)
}

var (
	quoteFree      = feegen.Q(0, 1, 0, 1)
	quoteExpensive = feegen.Q(50, 1, 50, 1)
	quoteDefault   = feegen.Q(5, 100, 5, 100)
	quoteNoStd     = feegen.Quote{Std: nil, Data: &feegen.Rate{Sat: 5, Bytes: 100}}
)

// statesFor: the states whose shape depends on the quote too (the remainder is placed around the fee the change
// output would cost and around the dust limit) after those that do not.
func statesFor(r *common.Rand, q *feegen.Quote, th bool) []txState {
	out := func(v uint64) txgen.OutSpec {
		return txgen.OutSpec{Sats: v, Script: common.Hex(feegen.P2PKH(r.Bytes(20)))}
	}
	data := func(v uint64) txgen.OutSpec {
		return txgen.OutSpec{Sats: v, Script: common.Hex(feegen.Data(0, []byte("memo "+fmt.Sprint(v))))}
	}
	mk := func(name string, ins []uint64, outs ...txgen.OutSpec) txState {
		s := txgen.TxSpec{Version: 1}
		for _, v := range ins {
			s.Ins = append(s.Ins, feegen.In(r, v))
		}
		s.Outs = outs
		return txState{name: name, spec: s}
	}
	sts := []txState{
		{name: "bt.NewTx(), still empty (0 = 0)", spec: txgen.TxSpec{Version: 1}, api: true},
		mk("no input, no output, version 2 and a lock time", nil),
		mk("one input of 4000, no output yet", []uint64{4000}),
		mk("no input, one output of 1000 (inputs < outputs)", nil, out(1000)),
		mk("inputs = outputs: 4000 in, 4000 out", []uint64{4000}, out(4000)),
		mk("inputs = outputs: 3000 + 2000 in, 1000 + 1500 + 2500 out", []uint64{3000, 2000}, out(1000), out(1500), out(2500)),
		mk("inputs = outputs: an input of 0, an output of 0", []uint64{0}, out(0)),
		mk("inputs = outputs = 0: an input of 0, no output", []uint64{0}),
		mk("inputs = outputs: 1000 in, a data output of 0 and 1000 out", []uint64{1000}, data(0), out(1000)),
		mk("inputs < outputs by 1: 999 in, 1000 out", []uint64{999}, out(1000)),
		mk("inputs < outputs: 10 in, 2^40 out", []uint64{10}, out(1<<40)),
	}
	sts[1].spec.Version, sts[1].spec.Lock = 2, 500000
	// an input whose previous locking script is missing: the size cannot be estimated (Change fails for a reason of its own)
	np := mk("inputs > outputs, the input's previous script is missing", []uint64{5000}, out(1000))
	np.spec.Ins[0].Prev, np.spec.Ins[0].PrevNil = "", true
	sts = append(sts, np)

	// inputs above the outputs by fee + d, fee = what the quote asks for the transaction WITH the change output
	base := mk("", []uint64{100000}, out(1000))
	fee := uint64(0)
	if q != nil && q.Complete() {
		s2 := base.spec
		s2.Outs = append(append([]txgen.OutSpec{}, s2.Outs...), out(0))
		if std, dat, ok := feegen.EstSize(s2); ok {
			fee = q.Quoted(std, dat).Uint64()
		}
	}
	rems := []uint64{1, 2, fee, fee + 1, fee + 2, fee + 3, 10*fee + 1000, 100000000}
	if fee > 2 {
		rems = append(rems, fee-1, fee/2)
	}
	if th {
		rems = append(rems, 3, fee+4, fee+546, fee+547, 1<<32, 1<<62)
	}
	seen := map[uint64]bool{}
	for _, rem := range rems {
		if seen[rem] {
			continue
		}
		seen[rem] = true
		what := "ample"
		switch {
		case rem <= fee:
			what = "does not cover the fee: no change"
		case rem-fee <= 1:
			what = "dust after the fee: no change"
		case rem-fee <= 3:
			what = "smallest change"
		}
		sts = append(sts, mk(fmt.Sprintf("inputs > outputs by %d (fee with a change output %d: %s)", rem, fee, what), []uint64{1000 + rem}, out(1000)))
	}
	return sts
}

// ---------- strings ----------

type txString struct {
	s string
	q interface{}
}

func txStrings(r *common.Rand, base []string, th bool) []txString {
	var ss []txString
	add := func(s string) { ss = append(ss, txString{s, fmt.Sprintf("%q", s)}) }
	a, t, burn := base[0], base[2], base[4]
	// accepted: mainnet, testnet, the address of the all-zero hash
	add(a)
	add(t)
	add(burn)
	// wrong checksum only (accepted by the script builders today: a recorded finding; whatever they say, they say it in every state)
	add(a[:len(a)-1] + string(alphabet[(strings.IndexByte(alphabet, a[len(a)-1])+1+r.Intn(56))%58]))
	add("n2wmGVP89x3DsLNqk3NvctfQy9m9pvt7mz")
	// malformed, one of every kind the property lists (positions and characters drawn per run)
	edits := func(x string) {
		i := r.Intn(len(x))
		add(x[:i] + string("0OIl"[r.Intn(4)]) + x[i+1:])                                     // a character outside the alphabet
		add(x[:i] + x[i+1:])                                                                 // deletion
		add(x[:i] + string(alphabet[1+r.Intn(57)]) + x[i:])                                  // insertion
		add(strings.TrimPrefix(x, string(x[0])))                                             // first character gone (24 bytes for a mainnet address)
		add(specAddress([]byte{0x05, 0xc4, 0x01, 0x6e, 0x70, 0x80}[r.Intn(6)], r.Bytes(20))) // unsupported version, right checksum
		add(specAddress([]byte{0, 0x6f}[r.Intn(2)], r.Bytes([]int{19, 21}[r.Intn(2)])))      // 24 / 26 bytes, right checksum
	}
	edits(a)
	if th {
		edits(t)
		edits(burn)
		for i := 0; i < 40; i++ {
			edits(base[r.Intn(len(base))])
		}
	}
	add("")
	add("not an address")
	add(a + " ")
	add("1" + a)
	add(a + a)
	add("bitcoin-script:0101" + common.Hex(sha256d([]byte("bitcoin-script:0101"))[:4])) // ValidateAddress's other branch: not an address to pay to
	add("\x00" + a[1:])
	ss = append(ss, txString{strings.Repeat("1", 256) + a, `strings.Repeat("1", 256) + ` + fmt.Sprintf("%q", a)})
	return ss
}

// ---------- the families ----------

func txStateCases(r *common.Rand, base []string, th bool) {
	quotes := []*feegen.Quote{&quoteDefault, &quoteFree, &quoteExpensive, &quoteNoStd, nil}
	if th {
		for _, q := range feegen.Quotes {
			q := q
			quotes = append(quotes, &q)
		}
	}
	strs := txStrings(r, base, th)
	satsOf := []uint64{1000, 0, 1, 546, 1 << 63, 1<<64 - 1}
	n, stride := 0, 8
	if th {
		stride = 20
	}
	for qi, q := range quotes {
		for si, st := range statesFor(r, q, th) {
			state := st.name
			for xi, x := range strs {
				n++
				// the model is asked about every state with accepted and refused strings under the default quote, and
				// about one call in eight elsewhere (thorough: one in twenty of ten times as many)
				toCoq := (qi == 0 && (xi < 2 || xi == 5+si%6 || xi == 11+si%6)) || n%stride == 0
				txStep("constructed", state, st.build(), txCall{op: "change", q: q}, x.s, x.q, toCoq && len(x.s) < 100)
				if qi == 0 || (qi == 1 && th) {
					// PayToAddress / AddP2PKHOutputFromAddress take no quote: once per state
					v := satsOf[(si+xi)%len(satsOf)]
					if (si+2*xi)%7 == 3 {
						// exactly what is left over (inputs = outputs after an accepted call)
						if in, out := feegen.SumIn(st.spec), feegen.SumOut(st.spec); in.Cmp(out) >= 0 {
							v = in.Sub(in, out).Uint64()
						}
					}
					txStep("constructed", state, st.build(), txCall{op: "pay", sats: v}, x.s, x.q, toCoq && xi%2 == 0 && len(x.s) < 100)
					txStep("constructed", state, st.build(), txCall{op: "add", sats: v}, x.s, x.q, toCoq && xi%2 == 1 && len(x.s) < 100)
				}
			}
		}
	}
	txHistories(r, base, strs, th)
	c.Stats.Extra["tx_method_calls"] = txCalls
	c.Stats.Extra["tx_method_model_cases"] = txCoqCases
}

// txHistories: one transaction object from bt.NewTx() through a sequence of API calls; after every step the object is
// probed with refused strings through all three methods (it must read the same afterwards), then the next step - a call
// with an accepted or a refused string, an input, a payment of exactly what is left - is made ON THE SAME OBJECT.
func txHistories(r *common.Rand, base []string, strs []txString, th bool) {
	var good, bad []txString
	for _, x := range strs {
		if askStateless(x.s).script {
			good = append(good, x)
		} else if len(x.s) < 100 {
			bad = append(bad, x)
		}
	}
	if len(good) == 0 || len(bad) == 0 {
		return // the string families report why
	}
	quotes := []*feegen.Quote{&quoteDefault, &quoteFree, &quoteExpensive}
	hist := 12
	if th {
		hist = 400
	}
	for hi := 0; hi < hist; hi++ {
		tx := bt.NewTx()
		q := quotes[hi%len(quotes)]
		var trail []string
		state := func() string {
			in, out := tx.TotalInputSatoshis(), tx.TotalOutputSatoshis()
			rel := "="
			if in > out {
				rel = ">"
			} else if in < out {
				rel = "<"
			}
			return fmt.Sprintf("history %d on one object: bt.NewTx() %s -> %d inputs (%d) %s %d outputs (%d)", hi, strings.Join(trail, " "), len(tx.Inputs), in, rel, len(tx.Outputs), out)
		}
		probe := func() {
			for j := 0; j < 3; j++ {
				x := bad[r.Intn(len(bad))]
				k := []txCall{{op: "change", q: q}, {op: "pay", sats: 1 + uint64(r.Intn(5000))}, {op: "add", sats: uint64(r.Intn(3))}, {op: "change", q: nil}}[r.Intn(4)]
				txStep("history-probe", state(), tx, k, x.s, x.q, r.Intn(6) == 0)
			}
		}
		probe()
		steps := 5 + r.Intn(5)
		for i := 0; i < steps; i++ {
			g := good[r.Intn(len(good))]
			switch r.Intn(6) {
			case 0, 1: // another input
				v := []uint64{0, 1, 1000, 4000, 100000}[r.Intn(5)]
				in := feegen.In(r, v)
				if err := tx.From(in.Txid, in.Vout, in.Prev, in.Sats); err != nil {
					panic("c15: harness: " + err.Error())
				}
				trail = append(trail, fmt.Sprintf("From(%d)", v))
			case 2: // a payment
				v := []uint64{0, 1, 600, 1000, 3999}[r.Intn(5)]
				txStep("history", state(), tx, txCall{op: []string{"pay", "add"}[r.Intn(2)], sats: v}, g.s, g.q, r.Intn(3) == 0)
				trail = append(trail, fmt.Sprintf("Pay(%d)", v))
			case 3: // exactly what is left: inputs = outputs afterwards
				if in, out := tx.TotalInputSatoshis(), tx.TotalOutputSatoshis(); in >= out {
					txStep("history", state(), tx, txCall{op: "pay", sats: in - out}, g.s, g.q, r.Intn(3) == 0)
					trail = append(trail, fmt.Sprintf("Pay(all that is left: %d)", in-out))
				}
			case 4: // change to an accepted address (afterwards inputs = outputs + fee when change was added)
				txStep("history", state(), tx, txCall{op: "change", q: q}, g.s, g.q, r.Intn(2) == 0)
				trail = append(trail, "ChangeToAddress")
			default: // a call with a refused string is a step like any other
				x := bad[r.Intn(len(bad))]
				txStep("history", state(), tx, txCall{op: []string{"pay", "add", "change"}[r.Intn(3)], sats: 700, q: q}, x.s, x.q, r.Intn(3) == 0)
				trail = append(trail, "(refused string)")
			}
			probe()
		}
	}
}
