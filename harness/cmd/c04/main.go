// c04: library-made signatures verify and commit to exactly what their hash type says.
//
// For seeded keys, transaction shapes (1..4 inputs, 0..4 outputs), a signed input position, P2PKH and
// P2PKH-inscription previous outputs and each of the 6 FORKID + 6 legacy hash types:
//   - sign every input through the library's signing path (unlocker.Simple via tx.FillInput, and
//     tx.FillAllInputs for the default type), run the real interpreter on every input: must accept;
//   - apply every single-field mutation (version, locktime, each input's txid / vout / sequence, each
//     output's value / script, output and input insertion / removal at every position, spent value,
//     spent script) to a copy and re-run the interpreter on the signed input: must still accept iff
//     the field is uncommitted per the (Go re-statement of the) table, must reject iff committed;
//     the library's preimage must be unchanged iff uncommitted;
//   - repeat the verification of every input, of every spent-value / spent-script mutant (all) and of every other
//     mutant (one each, in turn) on the OTHER ways of handing transaction, input and spent output to
//     Engine.Execute (callpath.go: locking script in the previous output / through WithScripts with a previous
//     output that carries the value only / both; unlocking script in the input / through WithScripts / both;
//     object off the wire / as signed / recording another output; option order; flag word; shared engine):
//     the verdict must be the same on all of them.
//
// The Coq side (coq/corr/C04.v) re-computes every preimage with the model, evaluates the table of
// spec/CommitSpec.v and runs the interpreter model with the signature opcodes of model/CheckSig.v
// over a go-bk oracle table computed here by calling bec directly.
package main

import (
	"bytes"
	"context"
	"crypto/sha256"
	"encoding/hex"
	"fmt"
	"math/big"
	"strings"

	"github.com/libsv/go-bk/bec"
	"github.com/libsv/go-bt/v2"
	"github.com/libsv/go-bt/v2/bscript"
	"github.com/libsv/go-bt/v2/bscript/interpreter"
	"github.com/libsv/go-bt/v2/sighash"
	"github.com/libsv/go-bt/v2/unlocker"

	"verif/harness/common"
	"verif/harness/interpgen"
	"verif/harness/txgen"
)

var c *common.Ctx

const header = `From Coq Require Import List NArith String.
From Coq Require Import Strings.Byte.
From GoBT Require Import lib.Bytes model.Tx spec.DigestSpec spec.CommitSpec corr.C04.
Import ListNotations. Local Open Scope N_scope. Local Open Scope string_scope.
`

const (
	fForkID  = 1 << 11
	fGenesis = 1 << 14
)

var forkidTypes = []uint8{0x41, 0x42, 0x43, 0xc1, 0xc2, 0xc3}
var legacyTypes = []uint8{0x01, 0x02, 0x03, 0x81, 0x82, 0x83}

// ---------- keys ----------

type key struct {
	priv *bec.PrivateKey
	pub  []byte // compressed
}

func newKey(r *common.Rand) key {
	for {
		d := new(big.Int).SetBytes(r.Bytes(32))
		if d.Sign() == 0 || d.Cmp(bec.S256().N) >= 0 {
			continue
		}
		priv, pub := bec.PrivKeyFromBytes(bec.S256(), d.Bytes())
		return key{priv, pub.SerialiseCompressed()}
	}
}

// per-locking-script key lookup: the UnlockerGetter handed to FillAllInputs
type getter map[string]*bec.PrivateKey

func (g getter) Unlocker(_ context.Context, ls *bscript.Script) (bt.Unlocker, error) {
	k, ok := g[hex.EncodeToString(*ls)]
	if !ok {
		return nil, fmt.Errorf("no key for script")
	}
	return &unlocker.Simple{PrivateKey: k}, nil
}

// ---------- locking scripts (built with the library) ----------

func p2pkh(k key) []byte {
	s, err := bscript.NewP2PKHFromPubKeyBytes(k.pub)
	if err != nil {
		panic(err)
	}
	return *s
}

// inscription: the library's Inscribe on a scratch transaction, with the P2PKH script as prefix
// tail: optional enriched OP_RETURN data appended by the library after the envelope (only usable after
// Genesis, where a top-level OP_RETURN ends the script successfully). Tail lengths 1..4 bytes after the
// OP_RETURN matter: the script code of OP_CHECKSIG is the re-serialised parsed script, tail included.
var allowTail bool

func inscription(k key, ctype string, data []byte, tail [][]byte) []byte {
	pre := bscript.NewFromBytes(p2pkh(k))
	scratch := bt.NewTx()
	args := &bscript.InscriptionArgs{LockingScriptPrefix: pre, Data: data, ContentType: ctype}
	if allowTail && len(tail) > 0 {
		args.EnrichedArgs = &bscript.EnrichedInscriptionArgs{OpReturnData: tail}
	}
	if err := scratch.Inscribe(args); err != nil {
		panic(err)
	}
	out := []byte(*scratch.Outputs[0].LockingScript)
	if nonMinimalPush && len(data) >= 1 && len(data) <= 75 && len(tail) == 0 {
		// the same inscription with its data pushed through OP_PUSHDATA1: another spent script, the same parts
		if i := bytes.LastIndex(out, append([]byte{byte(len(data))}, data...)); i > 0 && i+1+len(data)+1 == len(out) {
			re := append([]byte{}, out[:i]...)
			re = append(re, 0x4c, byte(len(data)))
			re = append(re, data...)
			out = append(re, 0x68)
		}
	}
	return out
}

// nonMinimalPush: the next inscription previous output pushes its data with OP_PUSHDATA1
var nonMinimalPush bool

// ---------- the table, re-stated in Go (the search predicate) ----------

type mut struct {
	Class string `json:"class"` // version locktime in-txid in-vout in-seq out-value out-script out-insert out-remove in-insert in-remove spent-value spent-script
	J     int    `json:"j"`
	coq   string
	apply func(s *txgen.TxSpec, idx *int)
}

func committedGo(forkid bool, ht uint8, idx, nouts int, m mut) bool {
	acp := ht&0x80 != 0
	base := ht & 0x1f
	none, single := base == 2, base == 3
	all := !none && !single
	j := m.J
	if !forkid && single && nouts <= idx { // legacy SIGHASH_SINGLE bug: the digest is the constant 1
		switch m.Class {
		case "out-insert":
			return idx == nouts
		case "in-remove":
			return j < idx && idx == nouts
		}
		return false
	}
	switch m.Class {
	case "version", "locktime", "spent-script":
		return true
	case "spent-value":
		return forkid
	case "in-txid", "in-vout":
		return j == idx || !acp
	case "in-seq":
		return j == idx || (!acp && all)
	case "out-value", "out-script":
		if none {
			return false
		}
		if single {
			return j == idx
		}
		return true
	case "out-insert":
		if none {
			return false
		}
		if single {
			return j <= idx && idx <= nouts
		}
		return true
	case "out-remove":
		if none {
			return false
		}
		if single {
			return j <= idx && idx < nouts
		}
		return true
	case "in-insert":
		return !acp || (single && j <= idx && idx < nouts)
	case "in-remove":
		return !acp || (single && j < idx && idx <= nouts)
	}
	panic("class " + m.Class)
}

// ---------- running the implementation ----------

func opts(flags uint32) []interpreter.ExecutionOptionFunc {
	var o []interpreter.ExecutionOptionFunc
	if flags&fForkID != 0 {
		o = append(o, interpreter.WithForkID())
	}
	if flags&fGenesis != 0 {
		o = append(o, interpreter.WithAfterGenesis())
	}
	return o
}

// accepts: the real interpreter on input i of the transaction described by s (a fresh object per run:
// the engine writes the previous output into the transaction it is handed)
func accepts(s txgen.TxSpec, i int, flags uint32) (ok bool, msg string) {
	// the transaction as it comes off the wire: the checked input does not record its previous output,
	// the engine gets it through WithTx only (thread.apply must install script and value)
	wire := cloneSpec(s)
	wire.Ins[i].Prev, wire.Ins[i].PrevNil, wire.Ins[i].Sats = "", true, 0
	tx := txgen.Build(wire)
	prev := &bt.Output{Satoshis: s.Ins[i].Sats, LockingScript: bscript.NewFromBytes(common.Unhex(s.Ins[i].Prev))}
	var err error
	panicked, pm := common.Safely(func() {
		err = interpreter.NewEngine().Execute(append(opts(flags), interpreter.WithTx(tx, i, prev))...)
	})
	if panicked {
		return false, "panic: " + pm
	}
	if err != nil {
		return false, err.Error()
	}
	return true, ""
}

func preimage(s txgen.TxSpec, i int, ht uint8) ([]byte, error) {
	tx := txgen.Build(s)
	var p []byte
	var err error
	panicked, pm := common.Safely(func() {
		if ht&0x40 != 0 {
			p, err = tx.CalcInputPreimage(uint32(i), sighash.Flag(ht))
		} else {
			p, err = tx.CalcInputPreimageLegacy(uint32(i), sighash.Flag(ht))
		}
	})
	if panicked {
		return nil, fmt.Errorf("panic: %s", pm)
	}
	return p, err
}

func sigHash(s txgen.TxSpec, i int, ht uint8) []byte {
	tx := txgen.Build(s)
	var h []byte
	common.Safely(func() { h, _ = tx.CalcInputSignatureHash(uint32(i), sighash.Flag(ht)) })
	return h
}

// splitUnlock: push(sig ++ [ht]) push(pk) -> sig (without hash type), hash-type byte, pk
func splitUnlock(u []byte) (sig []byte, ht byte, pk []byte, ok bool) {
	if len(u) < 2 || int(u[0]) < 9 || int(u[0]) > 75 || len(u) < 1+int(u[0])+1 {
		return nil, 0, nil, false
	}
	full := u[1 : 1+int(u[0])]
	rest := u[1+int(u[0]):]
	if int(rest[0]) != len(rest)-1 {
		return nil, 0, nil, false
	}
	return full[:len(full)-1], full[len(full)-1], rest[1:], true
}

// go-bk directly: does this signature verify under this key for this digest?
func bkVerify(pk, sig, digest []byte) bool {
	pub, err := bec.ParsePubKey(pk, bec.S256())
	if err != nil {
		return false
	}
	sg, err := bec.ParseDERSignature(sig, bec.S256())
	if err != nil {
		return false
	}
	return sg.Verify(digest, pub)
}

// ---------- generation ----------

type shape struct{ nin, nout, idx int }

func rev(b []byte) []byte {
	o := make([]byte, len(b))
	for i := range b {
		o[len(b)-1-i] = b[i]
	}
	return o
}

func smallScript(r *common.Rand) []byte {
	switch r.Intn(3) {
	case 0: // P2PKH-shaped
		return append(append([]byte{0x76, 0xa9, 0x14}, r.Bytes(20)...), 0x88, 0xac)
	case 1:
		return append([]byte{0x6a}, r.Bytes(r.Intn(6))...)
	}
	return r.Bytes(r.Intn(8))
}

func freshOut(r *common.Rand, used map[string]bool) txgen.OutSpec {
	for {
		o := txgen.OutSpec{Sats: uint64(1 + r.Intn(1<<20)), Script: common.Hex(smallScript(r))}
		k := fmt.Sprint(o.Sats, o.Script)
		if !used[k] {
			used[k] = true
			return o
		}
	}
}

func u32(r *common.Rand) uint32 {
	switch r.Intn(4) {
	case 0:
		return uint32(r.PickU64([]uint64{0, 1, 2, 0xfffffffe, 0xffffffff, 0x7fffffff, 0x80000000}))
	case 1:
		return uint32(r.Intn(1000))
	}
	return uint32(r.U64())
}

type built struct {
	spec  txgen.TxSpec
	keys  []key
	kinds []string
	used  map[string]bool
}

func buildTx(r *common.Rand, sh shape, kind string) built {
	b := built{used: map[string]bool{}}
	b.spec = txgen.TxSpec{Version: u32(r), Lock: u32(r)}
	for i := 0; i < sh.nin; i++ {
		k := newKey(r)
		b.keys = append(b.keys, k)
		kd := kind
		if i != sh.idx && r.Bool() { // the other inputs vary independently
			kd = []string{"p2pkh", "inscription"}[r.Intn(2)]
		}
		var lock []byte
		if kd == "inscription" {
			tails := [][][]byte{nil, nil, {{0xaa}}, {{}}, {{0xaa, 0xbb}}, {{0x01}, {0x02, 0x03}}, {r.Bytes(3)}}
			tail := tails[r.Intn(len(tails))]
			if i == sh.idx {
				tail = nil // the signed position keeps the exact template shape the acceptance theorem is stated for
			}
			nonMinimalPush = r.Chance(30)
			lock = inscription(k, []string{"text/plain", "a/b", ""}[r.Intn(3)], r.Bytes(r.Intn(12)), tail)
			nonMinimalPush = false
		} else {
			lock = p2pkh(k)
		}
		b.kinds = append(b.kinds, kd)
		b.spec.Ins = append(b.spec.Ins, txgen.InSpec{Txid: common.Hex(r.Bytes(32)), Vout: u32(r), Seq: u32(r),
			Sats: uint64(1 + r.Intn(1<<30)), Prev: common.Hex(lock), UnlockNil: true})
	}
	for i := 0; i < sh.nout; i++ {
		b.spec.Outs = append(b.spec.Outs, freshOut(r, b.used))
	}
	return b
}

// sign every input through the library; returns the signed spec
func sign(b built, ht uint8, viaFillAll bool) (txgen.TxSpec, error) {
	tx := txgen.Build(b.spec)
	if err := signTx(tx, b, ht, viaFillAll); err != nil {
		return txgen.TxSpec{}, err
	}
	return txgen.FromTx(tx), nil
}

// resignHistory: the same transaction object is signed, edited in place in one field (counts unchanged: a
// fee bump, a sequence or locktime change, a different outpoint) and signed again; every signature of the
// second round must be accepted for the transaction as it then is.
func resignHistory(r *common.Rand, b built, ht uint8, flags uint32, viaFillAll bool, tw twin) {
	tx := txgen.Build(b.spec)
	if err := signTx(tx, b, ht, viaFillAll); err != nil {
		return // reported by the main flow
	}
	edits := 1 + r.Intn(2)
	what := ""
	for e := 0; e < edits; e++ {
		switch k := r.Intn(6); {
		case k == 0 && len(tx.Outputs) > 0:
			o := tx.Outputs[r.Intn(len(tx.Outputs))]
			o.Satoshis ^= 1 + uint64(r.Intn(1000))
			what += "output-value "
		case k == 1 && len(tx.Outputs) > 0:
			o := tx.Outputs[r.Intn(len(tx.Outputs))]
			o.LockingScript = bscript.NewFromBytes(append(append([]byte{}, (*o.LockingScript)...), 0x61))
			what += "output-script "
		case k == 2:
			tx.Inputs[r.Intn(len(tx.Inputs))].SequenceNumber ^= 1 + uint32(r.Intn(1000))
			what += "sequence "
		case k == 3:
			tx.Inputs[r.Intn(len(tx.Inputs))].PreviousTxOutIndex ^= 1 + uint32(r.Intn(1000))
			what += "vout "
		case k == 4:
			tx.LockTime ^= 1 + uint32(r.Intn(1000))
			what += "locktime "
		default:
			tx.Version ^= 1 + uint32(r.Intn(3))
			what += "version "
		}
	}
	if err := signTx(tx, b, ht, viaFillAll); err != nil {
		c.Violate("sign-verify/second-signing-fails", what+err.Error(), tw)
		return
	}
	s2 := txgen.FromTx(tx)
	c.Tally("resign/" + strings.TrimSpace(what))
	for i := range s2.Ins {
		if ok, msg := accepts(s2, i, flags); !ok {
			tw2 := tw
			tw2.Tx = s2
			c.Violate("sign-verify/rejects-own-signature(re-signed after in-place edit)", fmt.Sprintf("input %d after editing %s: %s", i, what, msg), tw2)
			return
		}
	}
}

// signPlan: how input i is signed - the SigHashFlags value handed to the library (0 = "use the default") and the
// entry point: 0 tx.FillInput, 1 unlocker.Simple.UnlockingScript called directly + tx.InsertInputUnlockingScript,
// 2 tx.FillAllInputs (which passes ALL|FORKID itself). The Coq side replays the same calls on the model
// (coq/model/Sign.v) and compares the scripts.
func signPlan(ht uint8, i, nouts int, viaFillAll bool) (req uint8, path int) {
	if viaFillAll {
		return 0x41, 2
	}
	if ht == 0x41 {
		switch (i + nouts) % 3 {
		case 0:
			// the unlocker called directly (as a custom bt.Unlocker wrapper or a signing service does) with the
			// hash type left at its documented default (0 = ALL|FORKID)
			return 0, 1
		case 1:
			// FillInput with the hash type left at its default
			return 0, 0
		}
	}
	return ht, 0
}

func signTx(tx *bt.Tx, b built, ht uint8, viaFillAll bool) error {
	var err error
	var pm string
	var panicked bool
	if viaFillAll {
		g := getter{}
		for i, k := range b.keys {
			g[b.spec.Ins[i].Prev] = k.priv
		}
		panicked, pm = common.Safely(func() { err = tx.FillAllInputs(context.Background(), g) })
	} else {
		panicked, pm = common.Safely(func() {
			for i, k := range b.keys {
				req, path := signPlan(ht, i, len(b.spec.Outs), false)
				if path == 1 {
					var us *bscript.Script
					if us, err = (&unlocker.Simple{PrivateKey: k.priv}).UnlockingScript(context.Background(), tx, bt.UnlockerParams{InputIdx: uint32(i), SigHashFlags: sighash.Flag(req)}); err != nil {
						return
					}
					if err = tx.InsertInputUnlockingScript(uint32(i), us); err != nil {
						return
					}
					continue
				}
				if err = tx.FillInput(context.Background(), &unlocker.Simple{PrivateKey: k.priv},
					bt.UnlockerParams{InputIdx: uint32(i), SigHashFlags: sighash.Flag(req)}); err != nil {
					return
				}
			}
		})
	}
	if panicked {
		return fmt.Errorf("panic: %s", pm)
	}
	return err
}

func cloneSpec(s txgen.TxSpec) txgen.TxSpec {
	o := s
	o.Ins = append([]txgen.InSpec{}, s.Ins...)
	o.Outs = append([]txgen.OutSpec{}, s.Outs...)
	return o
}

func coqOut(o txgen.OutSpec) string {
	return fmt.Sprintf("(mkTxOut %d %s)", o.Sats, common.CoqBytes(common.Unhex(o.Script)))
}

// every single-field mutation of the signed transaction, at every position
func mutations(r *common.Rand, b built, s txgen.TxSpec, idx int) []mut {
	var ms []mut
	add := func(class string, j int, coq string, f func(s *txgen.TxSpec, idx *int)) {
		ms = append(ms, mut{Class: class, J: j, coq: coq, apply: f})
	}
	nv := s.Version + 1 + uint32(r.Intn(5))
	add("version", 0, fmt.Sprintf("(MVersion %d)", nv), func(s *txgen.TxSpec, _ *int) { s.Version = nv })
	nl := s.Lock ^ (1 << uint(r.Intn(32)))
	add("locktime", 0, fmt.Sprintf("(MLocktime %d)", nl), func(s *txgen.TxSpec, _ *int) { s.Lock = nl })
	for j := range s.Ins {
		j := j
		id := common.Unhex(s.Ins[j].Txid)
		id[r.Intn(32)] ^= byte(1 + r.Intn(255))
		add("in-txid", j, fmt.Sprintf("(MInHash %d %s)", j, common.CoqBytes(rev(id))), func(s *txgen.TxSpec, _ *int) { s.Ins[j].Txid = common.Hex(id) })
		vo := s.Ins[j].Vout + 1
		add("in-vout", j, fmt.Sprintf("(MInVout %d %d)", j, vo), func(s *txgen.TxSpec, _ *int) { s.Ins[j].Vout = vo })
		sq := s.Ins[j].Seq ^ (1 << uint(r.Intn(32)))
		add("in-seq", j, fmt.Sprintf("(MInSequence %d %d)", j, sq), func(s *txgen.TxSpec, _ *int) { s.Ins[j].Seq = sq })
	}
	for j := range s.Outs {
		j := j
		// a new value / script that keeps the output list duplicate-free
		no := freshOut(r, b.used)
		add("out-value", j, fmt.Sprintf("(MOutValue %d %d)", j, no.Sats+1<<21), func(s *txgen.TxSpec, _ *int) { s.Outs[j].Sats = no.Sats + 1<<21 })
		ns := append(common.Unhex(s.Outs[j].Script), byte(r.Intn(256)))
		ns = append(ns, r.Bytes(20)...)
		add("out-script", j, fmt.Sprintf("(MOutScript %d %s)", j, common.CoqBytes(ns)), func(s *txgen.TxSpec, _ *int) { s.Outs[j].Script = common.Hex(ns) })
	}
	for j := 0; j <= len(s.Outs); j++ {
		j := j
		no := freshOut(r, b.used)
		no.Sats += 1 << 22
		add("out-insert", j, fmt.Sprintf("(MOutInsert %d %s)", j, coqOut(no)), func(s *txgen.TxSpec, _ *int) {
			s.Outs = append(s.Outs[:j:j], append([]txgen.OutSpec{no}, s.Outs[j:]...)...)
		})
	}
	for j := range s.Outs {
		j := j
		add("out-remove", j, fmt.Sprintf("(MOutRemove %d)", j), func(s *txgen.TxSpec, _ *int) {
			s.Outs = append(s.Outs[:j:j], s.Outs[j+1:]...)
		})
	}
	for j := 0; j <= len(s.Ins); j++ {
		j := j
		ni := txgen.InSpec{Txid: common.Hex(r.Bytes(32)), Vout: u32(r), Seq: u32(r), PrevNil: true}
		add("in-insert", j, fmt.Sprintf("(MInInsert %d (mkTxIn (mkOutPoint %s %d) [] %d))", j, common.CoqBytes(rev(common.Unhex(ni.Txid))), ni.Vout, ni.Seq),
			func(s *txgen.TxSpec, idx *int) {
				s.Ins = append(s.Ins[:j:j], append([]txgen.InSpec{ni}, s.Ins[j:]...)...)
				if j <= *idx {
					*idx++
				}
			})
	}
	for j := range s.Ins {
		j := j
		if j == idx {
			continue
		}
		add("in-remove", j, fmt.Sprintf("(MInRemove %d)", j), func(s *txgen.TxSpec, idx *int) {
			s.Ins = append(s.Ins[:j:j], s.Ins[j+1:]...)
			if j < *idx {
				*idx--
			}
		})
	}
	sv := s.Ins[idx].Sats + 1 + uint64(r.Intn(1000))
	add("spent-value", 0, fmt.Sprintf("(MSpentValue %d)", sv), func(s *txgen.TxSpec, idx *int) { s.Ins[*idx].Sats = sv })
	// spent script: the same program plus a trailing OP_NOP (still executes to true when the signature
	// verifies, so only the signature check can tell the difference); for inscriptions also a changed payload byte
	lock := common.Unhex(s.Ins[idx].Prev)
	nop := append(append([]byte{}, lock...), 0x61)
	add("spent-script", 0, fmt.Sprintf("(MSpentScript %s)", common.CoqBytes(nop)), func(s *txgen.TxSpec, idx *int) { s.Ins[*idx].Prev = common.Hex(nop) })
	if b.kinds[idx] == "inscription" {
		// OP_FALSE OP_IF 03 'o' 'r' 'd' ...: change the 'd'
		pl := append([]byte{}, lock...)
		pl[25+2+3] ^= 0x20
		add("spent-script", 1, fmt.Sprintf("(MSpentScript %s)", common.CoqBytes(pl)), func(s *txgen.TxSpec, idx *int) { s.Ins[*idx].Prev = common.Hex(pl) })
	}
	return ms
}

func sha(b []byte) string {
	h := sha256.Sum256(b)
	return hex.EncodeToString(h[:])
}

type twin struct {
	Kind   string       `json:"kind"`
	HT     uint8        `json:"hash_type"`
	Flags  uint32       `json:"flags"`
	Idx    int          `json:"idx"`
	Via    string       `json:"via"`
	Tx     txgen.TxSpec `json:"tx"`
	Mut    *mut         `json:"mutation,omitempty"`
	Ctx    *vctx        `json:"call_path,omitempty"`
	Detail string       `json:"detail,omitempty"`
}

// caseNo counts runCase calls; replayOnModel: which of the call-path observations of this case are also replayed
// on the Coq model - all in the thorough tier, every other combination in the quick tier (alternating with the
// case, so that every combination is replayed on every other case); the implementation runs all of them
var caseNo int

func replayOnModel(k int) bool { return c.Thorough() || (k+caseNo)%2 == 0 }

func runCase(r *common.Rand, sh shape, kind string, ht uint8, flags uint32, viaFillAll bool, emit bool) {
	caseNo++
	forkid := ht&0x40 != 0
	allowTail = flags&interpgen.FGenesis != 0
	b := buildTx(r, sh, kind)
	via := "FillInput"
	if viaFillAll {
		via = "FillAllInputs"
	}
	tw := twin{Kind: kind, HT: ht, Flags: flags, Idx: sh.idx, Via: via, Tx: b.spec}
	bucket := fmt.Sprintf("%s/ht=%02x/in=%d/out=%d", kind, ht, sh.nin, sh.nout)
	s, err := sign(b, ht, viaFillAll)
	if err != nil {
		c.Violate(via+"/sign-error", err.Error(), tw)
		c.Case("", tw, "e"+bucket, false)
		return
	}
	tw.Tx = s
	inMemorySpentValue(s, sh.idx, flags, tw, forkid)
	resignHistory(r, b, ht, flags, viaFillAll, tw)
	// every input: the unlocking script is push(sig ++ [requested type]) push(pubkey); the interpreter accepts
	type verEntry struct {
		pk, sig, digest []byte
		ok              bool
	}
	var vers []verEntry
	seenVer := map[string]bool{}
	addVer := func(pk, sig, digest []byte) bool {
		ok := bkVerify(pk, sig, digest)
		k := common.Hex(pk) + common.Hex(sig) + common.Hex(digest)
		if !seenVer[k] {
			seenVer[k] = true
			vers = append(vers, verEntry{pk, sig, digest, ok})
		}
		return ok
	}
	var signed []string
	allOK := true
	for i := range s.Ins {
		sig, hb, pk, ok := splitUnlock(common.Unhex(s.Ins[i].Unlock))
		if !ok || !bytes.Equal(pk, b.keys[i].pub) {
			c.Violate("unlocker.Simple/unlocking-script-shape", "not push(sig||type) push(pubkey) of the signing key", tw)
			allOK = false
			continue
		}
		if hb != ht {
			c.Violate("unlocker.Simple/wrong-hash-type-byte", fmt.Sprintf("input %d: signature carries type %02x, requested %02x", i, hb, ht), tw)
			allOK = false
		}
		if acc, msg := accepts(s, i, flags); !acc {
			c.Violate("sign-verify/rejects-own-signature", fmt.Sprintf("input %d: %s", i, msg), tw)
			allOK = false
		}
		if !addVer(pk, sig, sigHash(s, i, ht)) {
			c.Violate("sign-verify/signature-does-not-verify-under-go-bk", fmt.Sprintf("input %d", i), tw)
			allOK = false
		}
		if len(pk) != 33 || len(common.Unhex(s.Ins[i].Unlock)) != 1+len(sig)+1+1+33 {
			c.Violate("unlocker.Simple/unlocking-script-shape", fmt.Sprintf("input %d: not two direct pushes of len(sig)+1 and 33 bytes", i), tw)
			allOK = false
		}
		req, path := signPlan(ht, i, len(b.spec.Outs), viaFillAll)
		c.Tally(fmt.Sprintf("sign-path/%d/requested=%02x", path, req))
		signed = append(signed, fmt.Sprintf("mkSigned %d %s %s %d %d", i, common.CoqBytes(pk), common.CoqBytes(sig), req, path))
	}
	// every input again, on every other way of handing the same transaction, input and spent output to the engine
	cr := r.Fork()
	var cobs []string
	if allOK {
		for i := range s.Ins {
			for k := 0; k < 9; k++ {
				v := randCtx(cr, k)
				if k == 0 && v.Obj == 0 {
					v.Obj = 1 + cr.Intn(2) // (previous output, input, off the wire) is the call made above
				}
				acc, msg := acceptsVia(s, i, flags, v)
				c.Tally(fmt.Sprintf("call-path/lock=%d/unlock=%d/object=%d", v.Lock, v.Unlock, v.Obj))
				if !acc {
					ctw := tw
					ctw.Idx, ctw.Ctx = i, &v
					c.Violate("sign-verify/rejects-own-signature(call path)", fmt.Sprintf("input %d, %s: %s", i, v, msg), ctw)
					allOK = false
				}
				if i == sh.idx && replayOnModel(k) {
					cobs = append(cobs, ctxObs(s, i, v, "", acc))
				}
			}
		}
	}
	c.Tally("sign/" + via + "/" + map[bool]string{true: "accepted", false: "FAILED"}[allOK])
	if !allOK {
		c.Case("", tw, "f"+bucket, false)
		return
	}
	idx := sh.idx
	sig0, _, pk0, _ := splitUnlock(common.Unhex(s.Ins[idx].Unlock))
	pre0, err := preimage(s, idx, ht)
	if err != nil {
		c.Violate("CalcInputPreimage/error-on-signed-tx", err.Error(), tw)
		c.Case("", tw, "p"+bucket, false)
		return
	}
	var mobs []string
	mcount := 0
	for _, m := range mutations(r, b, s, idx) {
		m := m
		ms := cloneSpec(s)
		mi := idx
		m.apply(&ms, &mi)
		committed := committedGo(forkid, ht, idx, len(s.Outs), m)
		acc, _ := accepts(ms, mi, flags)
		mtw := tw
		mtw.Mut = &m
		c.Tally(fmt.Sprintf("mutation/%s/%s", m.Class, map[bool]string{true: "committed->rejected", false: "uncommitted->accepted"}[committed]))
		if committed && acc {
			c.Violate("mutation/"+m.Class+"/accepted-but-committed", fmt.Sprintf("type %02x input %d position %d", ht, idx, m.J), mtw)
		}
		if !committed && !acc {
			c.Violate("mutation/"+m.Class+"/rejected-but-uncommitted", fmt.Sprintf("type %02x input %d position %d", ht, idx, m.J), mtw)
		}
		// the same mutant on the other call paths: the mutations of the spent output on all of them, every other
		// mutation on one (taken in turn)
		ks := []int{1 + mcount%8}
		if m.Class == "spent-value" || m.Class == "spent-script" {
			ks = []int{0, 1, 2, 3, 4, 5, 6, 7, 8}
		}
		mcount++
		for _, k := range ks {
			v := randCtx(cr, k)
			if k == 0 && v.Obj == 0 {
				v.Obj = 1 + cr.Intn(2)
			}
			acc2, _ := acceptsVia(ms, mi, flags, v)
			ctw := mtw
			ctw.Ctx = &v
			if committed && acc2 {
				c.Violate("mutation/"+m.Class+"/accepted-but-committed(call path)", fmt.Sprintf("type %02x input %d position %d, %s", ht, idx, m.J, v), ctw)
			}
			if !committed && !acc2 {
				c.Violate("mutation/"+m.Class+"/rejected-but-uncommitted(call path)", fmt.Sprintf("type %02x input %d position %d, %s", ht, idx, m.J, v), ctw)
			}
			if ((m.Class == "spent-value" && (k == 1 || k == 4 || k == 8)) || (m.Class == "spent-script" && m.J == 0 && (k == 3 || k == 6))) && replayOnModel(k) {
				cobs = append(cobs, ctxObs(ms, mi, v, m.coq, acc2))
			}
		}
		pre, err := preimage(ms, mi, ht)
		if err != nil {
			c.Violate("mutation/"+m.Class+"/preimage-error", err.Error(), mtw)
			continue
		}
		if same := bytes.Equal(pre, pre0); same == committed {
			c.Violate("mutation/"+m.Class+"/preimage-"+map[bool]string{true: "unchanged-but-committed", false: "changed-but-uncommitted"}[same],
				fmt.Sprintf("type %02x input %d position %d", ht, idx, m.J), mtw)
		}
		addVer(pk0, sig0, sigHash(ms, mi, ht))
		mobs = append(mobs, fmt.Sprintf("mkMut %s %s %s", m.coq, common.CoqStr(sha(pre)), common.CoqBool(acc)))
	}
	coq := ""
	if emit {
		var vs []string
		for _, v := range vers {
			vs = append(vs, fmt.Sprintf("(%s, %s, %s, %s)", common.CoqBytes(v.pk), common.CoqBytes(v.sig), common.CoqBytes(v.digest), common.CoqBool(v.ok)))
		}
		coq = fmt.Sprintf("mkCase %s %d%%nat %d %d %s\n  [%s]\n  [%s]\n  [%s]\n  [%s]", txgen.Coq(s), idx, ht, flags, common.CoqStr(sha(pre0)),
			strings.Join(signed, "; "), strings.Join(vs, ";\n   "), strings.Join(mobs, ";\n   "), strings.Join(cobs, ";\n   "))
	}
	c.Case(coq, tw, fmt.Sprintf("%s/idx=%d/%s", bucket, sh.idx, common.Hex(pre0)), len(mobs) > 0)
}

// largeInscriptions: spent P2PKH-inscription outputs whose script is longer than the pre-Genesis script and element
// limits (the payloads people inscribe are images): built with Tx.Inscribe, signed through unlocker.Simple with each
// hash type, accepted by the interpreter for an output of the Genesis era; a changed payload byte is rejected.
// Implementation only (the preimages run to tens of kilobytes; the model's statement is size-independent).
func largeInscriptions(r *common.Rand) {
	for si, size := range []int{519, 521, 9900, 10100, 70000} {
		for ti, ht := range forkidTypes {
			if !c.Thorough() && (si+ti+int(c.Seed))%3 != 0 {
				continue
			}
			k := newKey(r)
			lock := inscription(k, "image/png", r.Bytes(size), nil)
			b := built{used: map[string]bool{}, keys: []key{k}, kinds: []string{"inscription"}}
			b.spec = txgen.TxSpec{Version: 1, Lock: 0, Ins: []txgen.InSpec{{Txid: common.Hex(r.Bytes(32)), Vout: 1, Seq: 0xffffffff, Sats: 1, Prev: common.Hex(lock)}},
				Outs: []txgen.OutSpec{{Sats: 1, Script: common.Hex(p2pkh(k))}}}
			tw := map[string]interface{}{"kind": "large-inscription", "payload_bytes": size, "spent_script_bytes": len(lock), "ht": ht}
			c.Tally(fmt.Sprintf("large-inscription/%d", size))
			s, err := sign(b, ht, false)
			if err != nil {
				c.Violate("FillInput/sign-error", err.Error(), tw)
				continue
			}
			if ok, msg := accepts(s, 0, fForkID|fGenesis); !ok {
				c.Violate("interpreter/rejects-library-signature-on-a-large-inscription", fmt.Sprintf("payload %d bytes, spent script %d bytes, type %02x: %s", size, len(lock), ht, msg), tw)
			}
			m := cloneSpec(s)
			lb := common.Unhex(m.Ins[0].Prev)
			lb[len(lb)-2] ^= 1
			m.Ins[0].Prev = common.Hex(lb)
			if ok, _ := accepts(m, 0, fForkID|fGenesis); ok {
				c.Violate("interpreter/accepts-after-payload-change-on-a-large-inscription", fmt.Sprintf("payload %d bytes, type %02x", size, ht), tw)
			}
			c.Case("", tw, fmt.Sprintf("L%d/%02x", size, ht), true)
		}
	}
}

func main() {
	c = common.Parse("C04")
	c.SetHeader(header)
	c.PerShard = 6
	c.ShardBytes = 200000
	r := common.NewRand(c.Seed)
	search := c.Mode == "search"
	thorough := c.Thorough() || search

	// shapes: 1..4 inputs, 0..4 outputs, every relation between the signed position and the number of
	// outputs that the SINGLE rules distinguish (idx < nouts, idx = nouts - 1, idx = nouts, idx > nouts)
	shapes := []shape{{1, 0, 0}, {1, 1, 0}, {2, 1, 1}, {2, 2, 0}, {3, 2, 2}, {3, 1, 2}, {4, 4, 3}, {4, 3, 1}, {2, 0, 1}, {3, 3, 1}, {1, 4, 0}, {4, 2, 1}}
	if thorough {
		shapes = nil
		for nin := 1; nin <= 4; nin++ {
			for nout := 0; nout <= 4; nout++ {
				for idx := 0; idx < nin; idx++ {
					shapes = append(shapes, shape{nin, nout, idx})
				}
			}
		}
	}
	rounds := 1
	if search {
		rounds = 3
	} else if thorough {
		rounds = 4 // fresh keys and fields for every shape x type, four times over
	}
	largeInscriptions(r.Fork())
	n := 0
	for round := 0; round < rounds; round++ {
		for si, sh := range shapes {
			for ti := 0; ti < 6; ti++ {
				for _, legacy := range []bool{false, true} {
					kind := []string{"p2pkh", "inscription"}[(si+ti+n)%2]
					n++
					if !thorough && (si+ti)%2 == 1 && sh.nin+sh.nout > 5 {
						continue // quick tier: the two largest shapes take every other type
					}
					if legacy {
						flags := uint32(0)
						if (si+ti)%2 == 0 {
							flags = fGenesis
						}
						runCase(r.Fork(), sh, kind, legacyTypes[ti], flags, false, !search)
					} else {
						// the default type also through FillAllInputs
						runCase(r.Fork(), sh, kind, forkidTypes[ti], fForkID|fGenesis, forkidTypes[ti] == 0x41 && si%2 == 0, !search)
					}
				}
			}
		}
	}
	c.Stats.Rule = "each case: a transaction shape (inputs 1..4, outputs 0..4, signed position; quick: 12 shapes covering idx<nouts, idx=nouts-1, idx=nouts, idx>nouts; thorough: all 50, four rounds of fresh keys and fields) x one of the 6 FORKID types (flags FORKID|GENESIS) or 6 legacy types (flags none / GENESIS) x P2PKH or P2PKH-inscription previous output (built with the library: NewP2PKHFromPubKeyBytes, Tx.Inscribe), fresh seeded keys per input, random fields, pairwise distinct outputs; all inputs signed through unlocker.Simple (tx.FillInput with the type given or, for ALL|FORKID, left at 0; the unlocker called directly with type 0 + InsertInputUnlockingScript; tx.FillAllInputs for ALL|FORKID on every other shape - the Coq side replays the same calls on the signing model and compares scripts, type byte and shape), every input run through the real interpreter; then EVERY single-field mutation at EVERY position (version, locktime, per input txid/vout/sequence, per output value/script, output insert at 0..n and remove, input insert at 0..n and remove (not the signed one), spent value, spent script (+OP_NOP; inscription payload byte)) applied to a copy, interpreter re-run on the signed input and preimage recomputed; plus, per case, a signing history on one object (sign, edit one or two fields in place keeping the counts, sign again, every input must verify); plus CALL PATHS: every input of the signed transaction, its spent-value and spent-script mutants (all nine combinations) and every other mutant (one combination each, taken in turn) verified again on the other ways of handing the same transaction, input and spent output to Engine.Execute - locking script in the previous output of WithTx / through WithScripts with a previous output that carries the value only / both, x unlocking script in the input / through WithScripts with an input that has none / both, with the checked input of the object recording nothing / what was signed / another value and script, the other inputs with or without their recorded outputs, the options in three orders, the flags as options or as one WithFlags word, a fresh or an already used engine, shared or separate script objects (drawn per call): accepted / rejected exactly as on the canonical call; of these calls, per case, the nine on the signed input, three on the spent-value mutant and two on the spent-script mutant (quick tier: every other one, alternating with the case) are also replayed on the model (model/EngineCall.v). A case is distinct by (kind, type, shape, position, preimage) and non-trivial when at least one mutation was evaluated; Coq re-computes all preimages, the table and the interpreter model verdicts."
	c.Finish()
}

// inMemorySpentValue: the transaction object as the signer left it (the signed input still records the
// spent output's script and value) verified against a previous output whose value was changed — the
// FORKID digest commits to the spent value, so only the original value may be accepted, whatever the
// object remembers. Values: the original, 0, original-1, original+1.
func inMemorySpentValue(s txgen.TxSpec, i int, flags uint32, tw twin, forkid bool) {
	orig := s.Ins[i].Sats
	for _, v := range []uint64{orig, 0, orig - 1, orig + 1} {
		tx := txgen.Build(s)
		prev := &bt.Output{Satoshis: v, LockingScript: bscript.NewFromBytes(common.Unhex(s.Ins[i].Prev))}
		var err error
		panicked, pm := common.Safely(func() {
			err = interpreter.NewEngine().Execute(append(opts(flags), interpreter.WithTx(tx, i, prev))...)
		})
		switch {
		case panicked:
			c.Violate("Engine.Execute/panic", pm, tw)
		case v == orig && err != nil:
			c.Violate("sign-verify/rejects-own-signature(in-memory tx)", err.Error(), tw)
		case v != orig && err == nil && forkid:
			c.Violate("mutation/spent-value/accepted-but-committed(in-memory tx)", fmt.Sprintf("spent value %d instead of %d accepted", v, orig), tw)
		case v != orig && err != nil && !forkid:
			// the original digest does not commit to the spent value: whatever the object remembers, the input stays valid
			c.Violate("mutation/spent-value/rejected-but-not-committed(in-memory tx)", fmt.Sprintf("spent value %d instead of %d: %v", v, orig, err), tw)
		}
	}
}
